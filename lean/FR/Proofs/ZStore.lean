import FR.Proofs.ZSet
import FR.Proofs.Blocking
import FR.Proofs.History
import FR.Proofs.AsyncLife
/-!
# ZUNIONSTORE / ZINTERSTORE: functional specification of `zunioninter`

Helper definitions and lemmas for `FR/Props/C03s.lean`.

The monadic body `zunioninter` (FR/Sys/Server.lean) is shown equal to a pure description `core`:
source look-ups (`readSrc`, lazy expiry included), option parsing (`parseOpts`), the member set
(`members`), the cardinality-sorted list of (source, weight) pairs (`pairs`), the score dictionary
(`outDict`) and the stored sorted set (`outZ`).  Everything else is proved about these pure functions.
-/
namespace FR.ZStore
open FR M
set_option linter.unusedSimpArgs false
set_option linter.unusedVariables false

/-! ## 1. Pure description -/

/-- the source look-ups: `Database.get` (lazy expiry) on every source key, conversion of a plain set to a
zset with scores `1.0`, a missing key is an empty zset, any other type is `WRONGTYPE` -/
def readSrc : List Bytes → Db → List ZSet → Db × Except Err (List ZSet)
  | [], db, acc => (db, .ok acc)
  | k :: ks, db, acc =>
    match (db.get k).2 with
    | none => readSrc ks (db.get k).1 (acc ++ [ZSet.empty])
    | some it =>
      match zsetOfValue it.value with
      | .ok z => readSrc ks (db.get k).1 (acc ++ [z])
      | .error e => ((db.get k).1, .error e)

/-- the aggregate names that are accepted -/
def badAgg (a : Bytes) : Bool := a != strBytes "sum" && a != strBytes "min" && a != strBytes "max"

/-- the option loop (`WEIGHTS w1 … wn`, `AGGREGATE sum|min|max`, repeated in any order; the last one wins) -/
def parseOpts (nk : Nat) : Nat → List Bytes → List Dbl → Bytes → Except Err (List Dbl × Bytes)
  | 0, _, w, a => .ok (w, a)
  | _ + 1, [], w, a => .ok (w, a)
  | fuel + 1, x :: rest', w, a =>
    if casematch x "weights" && decide (rest'.length ≥ nk) then
      match (rest'.take nk).mapM Conv.float with
      | .ok w' => parseOpts nk fuel (rest'.drop nk) w' a
      | .error e => .error e
    else if casematch x "aggregate" && decide (rest'.length ≥ 1) then
      match rest' with
      | v :: rest'' =>
        if badAgg (casenorm v) then .error Msgs.SYNTAX_ERROR_MSG else parseOpts nk fuel rest'' w (casenorm v)
      | [] => .error Msgs.SYNTAX_ERROR_MSG
    else .error Msgs.SYNTAX_ERROR_MSG

/-- `out_members` -/
def members (union : Bool) (sets : List ZSet) : List Bytes :=
  sets.tail.foldl (fun acc z =>
    if union then Cmd.setUnion acc (z.bylex.map Prod.fst) else acc.filter z.contains)
    ((sets.headD ZSet.empty).bylex.map Prod.fst)

/-- `sorted(zip(sets, weights), key=lambda x: len(x[0]))` -/
def pairs (sets : List ZSet) (weights : List Dbl) : List (ZSet × Dbl) :=
  stableSort (fun (a b : ZSet × Dbl) => decide (a.1.len ≤ b.1.len)) (sets.zip weights)

/-- NaN → 0 -/
def nz (x : Dbl) : Dbl := if x.isNaN then Dbl.zero else x

/-- the weighted score of one source entry; only ZUNIONSTORE maps a NaN product to 0 at this point -/
def contrib (union : Bool) (s0 w : Dbl) : Dbl :=
  if union && (s0.mul w).isNaN then Dbl.zero else s0.mul w

/-- aggregation of a further contribution `x` into the score `old` accumulated so far -/
def combine (agg : Bytes) (old x : Dbl) : Dbl :=
  nz (if agg == strBytes "sum" then nz (x.add old)
      else if agg == strBytes "max" then old.pyMax x else old.pyMin x)

/-- the score written for a member whose accumulated score is `old` (if any) -/
def newScore (agg : Bytes) (old : Option Dbl) (x : Dbl) : Dbl :=
  match old with
  | some o => combine agg o x
  | none => nz x

/-- one entry `(m, s0)` of a source with weight `w` -/
def stepM (union : Bool) (agg : Bytes) (mem : List Bytes) (w : Dbl) (out : List (Bytes × Dbl)) (p : Bytes × Dbl) :
    List (Bytes × Dbl) :=
  if mem.contains p.1 then ZSet.dictSet out p.1 (newScore agg (out.lookup p.1) (contrib union p.2 w)) else out

/-- the Python dict `out` after the two nested loops -/
def outDict (union : Bool) (agg : Bytes) (mem : List Bytes) (ps : List (ZSet × Dbl)) : List (Bytes × Dbl) :=
  ps.foldl (fun out zw => zw.1.bylex.foldl (stepM union agg mem zw.2) out) []

/-- `out_zset` -/
def outZ (out : List (Bytes × Dbl)) : ZSet := out.foldl (fun z p => (z.add p.1 p.2).1) ZSet.empty

/-- the sorted set stored at the destination -/
def result (union : Bool) (agg : Bytes) (sets : List ZSet) (weights : List Dbl) : ZSet :=
  outZ (outDict union agg (members union sets) (pairs sets weights))

/-- the whole body on a state: the look-ups are the only effect -/
def core (union : Bool) (d : Nat) (dk : Nat) (numkeys : Int) (raw : List Bytes) (cis : List CI) :
    M (Except Err (Reply × List CI)) := fun s =>
  if numkeys < 1 then (.error Msgs.ZUNIONSTORE_KEYS_MSG, s)
  else if numkeys > raw.length then (.error Msgs.SYNTAX_ERROR_MSG, s)
  else
    let nk := numkeys.toNat
    let r := readSrc (raw.take nk) (s.dbAt d) []
    let s' := s.setDbS d r.1
    match r.2 with
    | .error e => (.error e, s')
    | .ok sets =>
      match parseOpts nk ((raw.drop nk).length + 1) (raw.drop nk) (List.replicate nk Dbl.one) (strBytes "sum") with
      | .error e => (.error e, s')
      | .ok (w, agg) =>
        (.ok (.int (result union agg sets w).len,
              cis.set dk ((ciAt cis dk).setValue (some (.zset (result union agg sets w))))), s')

/-! ## 2. The monadic body equals the pure description -/

abbrev Early := Option (Except Err (Reply × List CI))

/-- body of the source loop, as elaborated -/
def srcBody (d : Nat) (key : Bytes) (st : Early × List ZSet) : M (ForInStep (Early × List ZSet)) := do
  let sets := st.2
  let db ← M.getDb d
  match db.get key with
  | (db', item) => do
    M.setDb d db'
    match item with
    | none => pure (ForInStep.yield (none, sets ++ [ZSet.empty]))
    | some it =>
      match zsetOfValue it.value with
      | .ok z => pure (ForInStep.yield (none, sets ++ [z]))
      | .error e => pure (ForInStep.done (some (.error e), sets))

abbrev OptSt := Early × List Dbl × Bytes × List Bytes × Nat

/-- one step of the option loop, as a pure function -/
def optStep (nk : Nat) (st : OptSt) : ForInStep OptSt :=
  let weights := st.2.1
  let aggregate := st.2.2.1
  let opts := st.2.2.2.1
  let fuel := st.2.2.2.2
  if (!opts.isEmpty && decide (fuel > 0)) = true then
    let fuel := fuel - 1
    match opts with
    | a :: rest' =>
      if (casematch a "weights" && decide (rest'.length ≥ nk)) = true then
        match (rest'.take nk).mapM Conv.float with
        | .ok w => .yield (none, w, aggregate, rest'.drop nk, fuel)
        | .error e => .done (some (.error e), weights, aggregate, opts, fuel)
      else if (casematch a "aggregate" && decide (rest'.length ≥ 1)) = true then
        match rest' with
        | v :: rest'' =>
          if (casenorm v != strBytes "sum" && casenorm v != strBytes "min" && casenorm v != strBytes "max") = true then
            .done (some (.error Msgs.SYNTAX_ERROR_MSG), weights, casenorm v, opts, fuel)
          else .yield (none, weights, casenorm v, rest'', fuel)
        | [] => .done (some (.error Msgs.SYNTAX_ERROR_MSG), weights, aggregate, opts, fuel)
      else .done (some (.error Msgs.SYNTAX_ERROR_MSG), weights, aggregate, opts, fuel)
    | [] => .yield (none, weights, aggregate, opts, fuel)
  else .done (none, weights, aggregate, opts, fuel)


/-! ### state helpers -/

theorem setDbS_dbAt_id (s : Sys) (d : Nat) : s.setDbS d (s.dbAt d) = s := by
  unfold Sys.setDbS Sys.dbAt
  have : s.srv.dbs.set d (s.srv.dbs.getD d []) = s.srv.dbs := by
    apply List.ext_getElem?
    intro i
    by_cases h : d = i
    · subst h
      by_cases hl : d < s.srv.dbs.length
      · simp [List.getElem?_set, hl, List.getD_eq_getElem?_getD]
      · simp [List.getElem?_set, hl]
    · simp [List.getElem?_set, h]
  simp only [this]

theorem setDbS_setDbS (s : Sys) (d : Nat) (a b : Db) : (s.setDbS d a).setDbS d b = s.setDbS d b := by
  unfold Sys.setDbS
  simp only [List.set_set]

theorem srcBody_run (d : Nat) (k : Bytes) (e : Early) (acc : List ZSet) (s : Sys) :
    srcBody d k (e, acc) s =
      ((match ((s.dbAt d).get k).2 with
        | none => ForInStep.yield (none, acc ++ [ZSet.empty])
        | some it =>
          match zsetOfValue it.value with
          | .ok z => ForInStep.yield (none, acc ++ [z])
          | .error e => ForInStep.done (some (.error e), acc)),
       s.setDbS d ((s.dbAt d).get k).1) := by
  unfold srcBody
  simp only [bind, StateT.bind, getDb_run', setDb_run']
  generalize (s.dbAt d).get k = r
  obtain ⟨db', item⟩ := r
  simp only
  cases item with
  | none => rfl
  | some it =>
    simp only
    cases zsetOfValue it.value <;> rfl

theorem srcLoop (d : Nat) (ks : List Bytes) (acc : List ZSet) (s : Sys) (hd : d < s.srv.dbs.length) :
    ∃ x, forIn ks ((none : Early), acc) (srcBody d) s = (x, s.setDbS d (readSrc ks (s.dbAt d) acc).1) ∧
      (match (readSrc ks (s.dbAt d) acc).2 with
       | .ok sets => x = (none, sets)
       | .error e => x.1 = some (.error e)) := by
  induction ks generalizing acc s with
  | nil =>
    refine ⟨(none, acc), ?_, rfl⟩
    simp only [readSrc, setDbS_dbAt_id]; rfl
  | cons k ks ih =>
    rw [List.forIn_cons]
    simp only [bind, StateT.bind, srcBody_run]
    have hchain : (s.setDbS d ((s.dbAt d).get k).1).dbAt d = ((s.dbAt d).get k).1 :=
      Sys.setDbS_dbAt_self s d _ hd (by rw [Db.get_time]; rfl)
    have hlen : d < (s.setDbS d ((s.dbAt d).get k).1).srv.dbs.length := by
      rw [Sys.setDbS_len]; exact hd
    unfold readSrc
    cases hi : ((s.dbAt d).get k).2 with
    | none =>
      simp only
      obtain ⟨x, hx, hm⟩ := ih (acc ++ [ZSet.empty]) _ hlen
      rw [hchain, setDbS_setDbS] at hx
      rw [hchain] at hm
      exact ⟨x, hx, hm⟩
    | some it =>
      simp only
      cases hz : zsetOfValue it.value with
      | ok z =>
        simp only
        obtain ⟨x, hx, hm⟩ := ih (acc ++ [z]) _ hlen
        rw [hchain, setDbS_setDbS] at hx
        rw [hchain] at hm
        exact ⟨x, hx, hm⟩
      | error e =>
        exact ⟨(some (.error e), acc), rfl, rfl⟩


theorem optLoop (nk : Nat) (f : Unit → OptSt → M (ForInStep OptSt))
    (hf : ∀ x st, f x st = pure (optStep nk st)) (fuel : Nat) (opts : List Bytes) (w : List Dbl) (a : Bytes)
    (s : Sys) :
    ∃ st', forIn Lean.Loop.mk (((none : Early), w, a, opts, fuel) : OptSt) f s = (st', s) ∧
      (match parseOpts nk fuel opts w a with
       | .ok (w', a') => st'.1 = none ∧ st'.2.1 = w' ∧ st'.2.2.1 = a'
       | .error e => st'.1 = some (.error e)) := by
  induction fuel generalizing opts w a with
  | zero =>
    rw [loop_unfold, hf]
    refine ⟨(none, w, a, opts, 0), ?_, ?_⟩
    · simp [optStep, bind, StateT.bind, pure, StateT.pure]
    · simp [parseOpts]
  | succ fuel ih =>
    rw [loop_unfold, hf]
    cases opts with
    | nil =>
      refine ⟨(none, w, a, [], fuel + 1), ?_, ?_⟩
      · simp [optStep, bind, StateT.bind, pure, StateT.pure]
      · simp [parseOpts]
    | cons x rest' =>
      unfold parseOpts
      by_cases h1 : (casematch x "weights" && decide (rest'.length ≥ nk)) = true
      · rw [if_pos h1]
        cases hm : (rest'.take nk).mapM Conv.float with
        | ok w' =>
          obtain ⟨st', h, hm'⟩ := ih (rest'.drop nk) w' a
          refine ⟨st', ?_, hm'⟩
          rw [← h]
          simp [optStep, bind, StateT.bind, pure, StateT.pure, h1, hm]
        | error e =>
          refine ⟨(some (.error e), w, a, x :: rest', fuel), ?_, rfl⟩
          simp [optStep, bind, StateT.bind, pure, StateT.pure, h1, hm]
      · rw [if_neg h1]
        by_cases h2 : (casematch x "aggregate" && decide (rest'.length ≥ 1)) = true
        · rw [if_pos h2]
          cases rest' with
          | nil => simp at h2
          | cons v rest'' =>
            simp only
            by_cases h3 : badAgg (casenorm v) = true
            · rw [if_pos h3]
              refine ⟨(some (.error Msgs.SYNTAX_ERROR_MSG), w, casenorm v, x :: v :: rest'', fuel), ?_, rfl⟩
              unfold badAgg at h3
              simp [optStep, bind, StateT.bind, pure, StateT.pure, h3]
              rw [if_neg (by simpa using h1), if_pos (by simpa using h2)]
              rfl
            · rw [if_neg h3]
              obtain ⟨st', h, hm'⟩ := ih rest'' w (casenorm v)
              refine ⟨st', ?_, hm'⟩
              rw [← h]
              unfold badAgg at h3
              simp [optStep, bind, StateT.bind, pure, StateT.pure, h3]
              rw [if_neg (by simpa using h1), if_pos (by simpa using h2)]
        · rw [if_neg h2]
          refine ⟨(some (.error Msgs.SYNTAX_ERROR_MSG), w, a, x :: rest', fuel), ?_, rfl⟩
          simp [optStep, bind, StateT.bind, pure, StateT.pure, h1, h2]


/-- the final loop state, by iteration of `optStep` -/
def optFinal (nk : Nat) : Nat → OptSt → OptSt
  | 0, st => st
  | n + 1, st =>
    match optStep nk st with
    | .done v => v
    | .yield v => optFinal nk n v

theorem optStep_yield_fuel {nk : Nat} {st v : OptSt} (h : optStep nk st = .yield v) :
    v.2.2.2.2 + 1 = st.2.2.2.2 := by
  obtain ⟨e, w, a, opts, fuel⟩ := st
  unfold optStep at h
  simp only [] at h
  split at h
  · rename_i hc
    have hf : fuel > 0 := by simp at hc; exact hc.2
    repeat' split at h
    all_goals first
      | (cases h; done)
      | (have h := ForInStep.yield.inj h; subst h; simp only []; omega)
  · cases h

theorem optLoop' (nk : Nat) (f : Unit → OptSt → M (ForInStep OptSt))
    (hf : ∀ x st, f x st = pure (optStep nk st)) (n : Nat) (st : OptSt) (h : st.2.2.2.2 < n) :
    forIn Lean.Loop.mk st f = pure (optFinal nk n st) := by
  induction n generalizing st with
  | zero => omega
  | succ n ih =>
    rw [loop_unfold, hf]
    unfold optFinal
    cases hs : optStep nk st with
    | done v => rfl
    | yield v =>
      have := optStep_yield_fuel hs
      show forIn Lean.Loop.mk v f = _
      rw [ih v (by omega)]

theorem optFinal_spec (nk n fuel : Nat) (opts : List Bytes) (w : List Dbl) (a : Bytes) (h : fuel < n) :
    (match parseOpts nk fuel opts w a with
     | .ok (w', a') => (optFinal nk n (none, w, a, opts, fuel)).1 = none ∧
         (optFinal nk n (none, w, a, opts, fuel)).2.1 = w' ∧ (optFinal nk n (none, w, a, opts, fuel)).2.2.1 = a'
     | .error e => (optFinal nk n (none, w, a, opts, fuel)).1 = some (.error e)) := by
  obtain ⟨st', h1, h2⟩ := optLoop nk (fun _ st => pure (optStep nk st)) (fun _ _ => rfl) fuel opts w a {}
  rw [optLoop' nk _ (fun _ _ => rfl) n _ h] at h1
  have : st' = optFinal nk n (none, w, a, opts, fuel) := (congrArg Prod.fst h1).symm
  subst this
  exact h2

theorem forIn_pure_foldl {α β : Type} (l : List α) (init : β) (f : α → β → M (ForInStep β)) (g : β → α → β)
    (h : ∀ a b, f a b = pure (.yield (g b a))) : forIn l init f = pure (l.foldl g init) := by
  have : f = fun a b => pure (.yield (g b a)) := by funext a b; exact h a b
  subst this
  exact List.forIn_pure_yield_eq_foldl ..

theorem innerBody_eq (union : Bool) (fa : Bytes) (sets : List ZSet) (w : Dbl) (p : Bytes × Dbl)
    (out : List (Bytes × Dbl)) (R : List (Bytes × Dbl)) (hR : stepM union fa (members union sets) w out p = R) :
    (if (union && (p.2.mul w).isNaN) = true then
      if (List.foldl (fun acc z => if union = true then Cmd.setUnion acc (List.map Prod.fst z.bylex)
            else List.filter z.contains acc) (List.map Prod.fst (sets.headD ZSet.empty).bylex) sets.tail).contains p.1 = true then
        match List.lookup p.1 out with
        | some old =>
          if (fa == strBytes "sum") = true then
            if (Dbl.zero.add old).isNaN = true then
              if Dbl.zero.isNaN = true then (pure (ForInStep.yield (ZSet.dictSet out p.1 Dbl.zero)) : M _)
              else pure (ForInStep.yield (ZSet.dictSet out p.1 Dbl.zero))
            else
              if (Dbl.zero.add old).isNaN = true then pure (ForInStep.yield (ZSet.dictSet out p.1 Dbl.zero))
              else pure (ForInStep.yield (ZSet.dictSet out p.1 (Dbl.zero.add old)))
          else
            if (fa == strBytes "max") = true then
              if (old.pyMax Dbl.zero).isNaN = true then pure (ForInStep.yield (ZSet.dictSet out p.1 Dbl.zero))
              else pure (ForInStep.yield (ZSet.dictSet out p.1 (old.pyMax Dbl.zero)))
            else
              if (old.pyMin Dbl.zero).isNaN = true then pure (ForInStep.yield (ZSet.dictSet out p.1 Dbl.zero))
              else pure (ForInStep.yield (ZSet.dictSet out p.1 (old.pyMin Dbl.zero)))
        | none =>
          if Dbl.zero.isNaN = true then pure (ForInStep.yield (ZSet.dictSet out p.1 Dbl.zero))
          else pure (ForInStep.yield (ZSet.dictSet out p.1 Dbl.zero))
      else pure (ForInStep.yield out)
    else
      if (List.foldl (fun acc z => if union = true then Cmd.setUnion acc (List.map Prod.fst z.bylex)
            else List.filter z.contains acc) (List.map Prod.fst (sets.headD ZSet.empty).bylex) sets.tail).contains p.1 = true then
        match List.lookup p.1 out with
        | some old =>
          if (fa == strBytes "sum") = true then
            if ((p.2.mul w).add old).isNaN = true then
              if Dbl.zero.isNaN = true then pure (ForInStep.yield (ZSet.dictSet out p.1 Dbl.zero))
              else pure (ForInStep.yield (ZSet.dictSet out p.1 Dbl.zero))
            else
              if ((p.2.mul w).add old).isNaN = true then pure (ForInStep.yield (ZSet.dictSet out p.1 Dbl.zero))
              else pure (ForInStep.yield (ZSet.dictSet out p.1 ((p.2.mul w).add old)))
          else
            if (fa == strBytes "max") = true then
              if (old.pyMax (p.2.mul w)).isNaN = true then pure (ForInStep.yield (ZSet.dictSet out p.1 Dbl.zero))
              else pure (ForInStep.yield (ZSet.dictSet out p.1 (old.pyMax (p.2.mul w))))
            else
              if (old.pyMin (p.2.mul w)).isNaN = true then pure (ForInStep.yield (ZSet.dictSet out p.1 Dbl.zero))
              else pure (ForInStep.yield (ZSet.dictSet out p.1 (old.pyMin (p.2.mul w))))
        | none =>
          if (p.2.mul w).isNaN = true then pure (ForInStep.yield (ZSet.dictSet out p.1 Dbl.zero))
          else pure (ForInStep.yield (ZSet.dictSet out p.1 (p.2.mul w)))
      else pure (ForInStep.yield out)) = pure (ForInStep.yield R) := by
  have hz : Dbl.zero.isNaN = false := rfl
  subst hR
  generalize hmm : members union sets = mem
  unfold members at hmm
  rw [hmm]
  cases union
  all_goals
    simp only [Bool.false_and, Bool.true_and, Bool.false_eq_true, if_false]
    repeat' split
    all_goals
      simp only [stepM, newScore, combine, contrib, nz, hz, Bool.false_eq_true, if_false, if_true, Bool.false_and,
        Bool.true_and, *]

theorem bind_run {α β : Type} (m : M α) (k : α → M β) (s : Sys) : (m >>= k) s = k (m s).1 (m s).2 := rfl

theorem zunioninter_eq (union : Bool) (d dk : Nat) (numkeys : Int) (rest : List Arg) (cis : List CI) (s : Sys)
    (hd : d < s.srv.dbs.length) :
    zunioninter union d (.key dk :: .int numkeys :: rest) cis s =
      core union d dk numkeys (Cmd.rawArgs rest) cis s := by
  unfold zunioninter core
  simp only []
  by_cases c1 : numkeys < 1
  · rw [if_pos c1, if_pos c1]; rfl
  rw [if_neg c1, if_neg c1]
  by_cases c2 : numkeys > ((Cmd.rawArgs rest).length : Int)
  · rw [if_pos c2, if_pos c2]; rfl
  rw [if_neg c2, if_neg c2]
  obtain ⟨x, hx, hm⟩ := srcLoop d ((Cmd.rawArgs rest).take numkeys.toNat) [] s hd
  change (forIn _ ((none : Early), ([] : List ZSet)) (srcBody d) >>= _) s = _
  rw [bind_run, hx]
  cases hr : (readSrc (List.take numkeys.toNat (Cmd.rawArgs rest)) (s.dbAt d) []).snd with
  | error e =>
    rw [hr] at hm
    simp only [] at hm ⊢
    rw [hm]; rfl
  | ok sets =>
    rw [hr] at hm
    simp only [] at hm
    subst hm
    simp only []
    change ((forIn Lean.Loop.mk _ _ >>= _ : M (Except Err (Reply × List CI))) _) = _
    rw [bind_run, optLoop' numkeys.toNat _ ?hf ((List.drop numkeys.toNat (Cmd.rawArgs rest)).length + 2) _
      (Nat.lt_succ_self _)]
    case hf =>
      intro x st
      obtain ⟨e, w, a, opts, fuel⟩ := st
      simp only [optStep]
      by_cases hc : (!opts.isEmpty && decide (fuel > 0)) = true
      · rw [if_pos hc, if_pos hc]
        cases opts with
        | nil => rfl
        | cons y rest' =>
          simp only []
          by_cases h1 : (casematch y "weights" && decide (rest'.length ≥ numkeys.toNat)) = true
          · rw [if_pos h1, if_pos h1]
            cases (rest'.take numkeys.toNat).mapM Conv.float <;> rfl
          · rw [if_neg h1, if_neg h1]
            by_cases h2 : (casematch y "aggregate" && decide (rest'.length ≥ 1)) = true
            · rw [if_pos h2, if_pos h2]
              cases rest' with
              | nil => rfl
              | cons v rest'' =>
                simp only []
                split <;> rfl
            · rw [if_neg h2, if_neg h2]
      · rw [if_neg hc, if_neg hc]
    have hspec := optFinal_spec numkeys.toNat ((List.drop numkeys.toNat (Cmd.rawArgs rest)).length + 2)
      ((List.drop numkeys.toNat (Cmd.rawArgs rest)).length + 1) (List.drop numkeys.toNat (Cmd.rawArgs rest))
      (List.replicate numkeys.toNat Dbl.one) (strBytes "sum") (Nat.lt_succ_self _)
    revert hspec
    generalize optFinal numkeys.toNat _ _ = fin
    cases parseOpts numkeys.toNat ((List.drop numkeys.toNat (Cmd.rawArgs rest)).length + 1)
      (List.drop numkeys.toNat (Cmd.rawArgs rest)) (List.replicate numkeys.toNat Dbl.one) (strBytes "sum") with
    | error e =>
      intro hspec
      simp only [pure, StateT.pure] at hspec ⊢
      rw [hspec]
      rfl
    | ok wa =>
      obtain ⟨w, agg⟩ := wa
      obtain ⟨fe, fw, fa, fo, ff⟩ := fin
      intro hspec
      simp only [pure, StateT.pure] at hspec ⊢
      obtain ⟨h1, h2, h3⟩ := hspec
      subst h1 h2 h3
      simp only []
      change ((forIn _ _ _ >>= _ : M (Except Err (Reply × List CI))) _) = _
      rw [bind_run, forIn_pure_foldl _ _ _
        (fun out zw => zw.1.bylex.foldl (stepM union fa (members union sets) zw.2) out) ?h]
      · rfl
      · intro zw out
        change (forIn _ _ _ >>= _ : M _) = _
        rw [forIn_pure_foldl _ _ _ (stepM union fa (members union sets) zw.2) ?h2]
        · rfl
        · intro p out
          exact innerBody_eq union fa sets zw.2 p out _ rfl


/-! ## 3. The score dictionary -/

theorem nz_not_nan (x : Dbl) : (nz x).isNaN = false := by
  unfold nz
  by_cases h : x.isNaN = true
  · rw [if_pos h]; rfl
  · rw [if_neg h]; simpa using h

theorem combine_not_nan (agg : Bytes) (old x : Dbl) : (combine agg old x).isNaN = false := nz_not_nan _

theorem newScore_not_nan (agg : Bytes) (old : Option Dbl) (x : Dbl) : (newScore agg old x).isNaN = false := by
  cases old with
  | none => exact nz_not_nan _
  | some o => exact combine_not_nan _ _ _

/-- fold of the aggregate over the sources that contain `m`, in the order of `ps` -/
def scoreStep (union : Bool) (agg : Bytes) (m : Bytes) (acc : Option Dbl) (zw : ZSet × Dbl) : Option Dbl :=
  match zw.1.get m with
  | none => acc
  | some s0 => some (newScore agg acc (contrib union s0 zw.2))

def scoreOf (union : Bool) (agg : Bytes) (ps : List (ZSet × Dbl)) (m : Bytes) : Option Dbl :=
  ps.foldl (scoreStep union agg m) none

theorem lookup_cons_eq {β} (k k' : Bytes) (v : β) (l : List (Bytes × β)) :
    List.lookup k ((k', v) :: l) = if k = k' then some v else l.lookup k := by
  rw [List.lookup_cons]
  by_cases e : k = k'
  · subst e; simp
  · have : (k == k') = false := by simpa using e
    rw [this, if_neg e]

/-- the inner loop over one source -/
theorem lookup_inner (union : Bool) (agg : Bytes) (mem : List Bytes) (w : Dbl) (l : List (Bytes × Dbl))
    (hn : (l.map Prod.fst).Nodup) (out : List (Bytes × Dbl)) (m : Bytes) :
    (l.foldl (stepM union agg mem w) out).lookup m =
      if mem.contains m then
        (match l.lookup m with
         | some s0 => some (newScore agg (out.lookup m) (contrib union s0 w))
         | none => out.lookup m)
      else out.lookup m := by
  induction l generalizing out with
  | nil => simp
  | cons p l ih =>
    obtain ⟨m', s0⟩ := p
    rw [List.map_cons, List.nodup_cons] at hn
    rw [List.foldl_cons, ih hn.2, lookup_cons_eq]
    by_cases hc : mem.contains m = true
    · rw [if_pos hc, if_pos hc]
      by_cases e : m = m'
      · subst e
        rw [if_pos rfl, ZSet.lookup_none_iff.mpr hn.1]
        simp only [stepM, hc, if_true, ZSet.lookup_dictSet]
      · rw [if_neg e]
        have : (stepM union agg mem w out (m', s0)).lookup m = out.lookup m := by
          unfold stepM
          split
          · rw [ZSet.lookup_dictSet, if_neg e]
          · rfl
        rw [this]
    · rw [if_neg hc, if_neg hc]
      unfold stepM
      split
      · rename_i h'
        have e : m ≠ m' := fun e => hc (e ▸ h')
        rw [ZSet.lookup_dictSet, if_neg e]
      · rfl

theorem lookup_outer (union : Bool) (agg : Bytes) (mem : List Bytes) (ps : List (ZSet × Dbl))
    (hn : ∀ zw ∈ ps, (zw.1.bylex.map Prod.fst).Nodup) (out : List (Bytes × Dbl)) (m : Bytes) :
    (ps.foldl (fun out zw => zw.1.bylex.foldl (stepM union agg mem zw.2) out) out).lookup m =
      if mem.contains m then ps.foldl (scoreStep union agg m) (out.lookup m) else out.lookup m := by
  induction ps generalizing out with
  | nil => simp
  | cons zw ps ih =>
    rw [List.foldl_cons, List.foldl_cons, ih (fun x hx => hn x (List.mem_cons_of_mem _ hx)),
      lookup_inner union agg mem zw.2 _ (hn zw List.mem_cons_self)]
    by_cases hc : mem.contains m = true
    · simp only [hc, if_true]
      congr 1
      unfold scoreStep ZSet.get
      cases List.lookup m zw.1.bylex <;> rfl
    · simp only [hc, if_false, Bool.false_eq_true]

/-- SCORE: the dictionary entry of `m` is the fold of the aggregate over the sources containing `m` -/
theorem lookup_outDict (union : Bool) (agg : Bytes) (mem : List Bytes) (ps : List (ZSet × Dbl))
    (hn : ∀ zw ∈ ps, (zw.1.bylex.map Prod.fst).Nodup) (m : Bytes) :
    (outDict union agg mem ps).lookup m = if mem.contains m then scoreOf union agg ps m else none := by
  unfold outDict scoreOf
  rw [lookup_outer union agg mem ps hn]
  rfl

theorem stepM_keys (union : Bool) (agg : Bytes) (mem : List Bytes) (w : Dbl) (out : List (Bytes × Dbl))
    (p : Bytes × Dbl) (hn : (out.map Prod.fst).Nodup) : ((stepM union agg mem w out p).map Prod.fst).Nodup := by
  unfold stepM
  split
  · rw [ZSet.map_fst_dictSet]
    split
    · exact hn
    · rename_i h
      exact List.nodup_append.mpr ⟨hn, (by simp), by
        intro a ha b hb; simp at hb; subst hb; intro e; subst e; exact h ha⟩
  · exact hn

theorem stepM_scores (union : Bool) (agg : Bytes) (mem : List Bytes) (w : Dbl) (out : List (Bytes × Dbl))
    (p : Bytes × Dbl) (hs : ∀ q ∈ out, q.2.isNaN = false) : ∀ q ∈ stepM union agg mem w out p, q.2.isNaN = false := by
  unfold stepM
  split
  · intro q hq
    obtain ⟨k, v⟩ := q
    rcases (ZSet.mem_dictSet _ _ _ _ _).mp hq with ⟨_, rfl⟩ | ⟨_, h⟩
    · exact newScore_not_nan _ _ _
    · exact hs _ h
  · exact hs

theorem outDict_good (union : Bool) (agg : Bytes) (mem : List Bytes) (ps : List (ZSet × Dbl)) :
    ((outDict union agg mem ps).map Prod.fst).Nodup ∧ ∀ q ∈ outDict union agg mem ps, q.2.isNaN = false := by
  unfold outDict
  suffices h : ∀ (out : List (Bytes × Dbl)), ((out.map Prod.fst).Nodup ∧ ∀ q ∈ out, q.2.isNaN = false) →
      (((ps.foldl (fun out zw => zw.1.bylex.foldl (stepM union agg mem zw.2) out) out).map Prod.fst).Nodup ∧
        ∀ q ∈ ps.foldl (fun out zw => zw.1.bylex.foldl (stepM union agg mem zw.2) out) out, q.2.isNaN = false) from
    h [] ⟨List.nodup_nil, fun _ h => by simp at h⟩
  induction ps with
  | nil => intro out h; exact h
  | cons zw ps ih =>
    intro out h
    rw [List.foldl_cons]
    apply ih
    generalize zw.1.bylex = l
    induction l generalizing out with
    | nil => exact h
    | cons p l ih2 =>
      rw [List.foldl_cons]
      exact ih2 _ ⟨stepM_keys _ _ _ _ _ _ h.1, stepM_scores _ _ _ _ _ _ h.2⟩

/-! ## 4. `out_zset` -/

theorem dictSet_fresh {β} (d : List (Bytes × β)) (k : Bytes) (v : β) (h : k ∉ d.map Prod.fst) :
    ZSet.dictSet d k v = d ++ [(k, v)] := by
  unfold ZSet.dictSet
  rw [if_neg (fun h' => h ((ZSet.any_key_iff d k).mp h'))]

theorem foldl_add_bylex (out : List (Bytes × Dbl)) (z : ZSet)
    (hn : (out.map Prod.fst).Nodup) (hd : ∀ k ∈ out.map Prod.fst, k ∉ z.bylex.map Prod.fst) :
    (out.foldl (fun z p => (z.add p.1 p.2).1) z).bylex = z.bylex ++ out := by
  induction out generalizing z with
  | nil => simp
  | cons p out ih =>
    obtain ⟨k, v⟩ := p
    rw [List.map_cons, List.nodup_cons] at hn
    rw [List.foldl_cons]
    have hk : k ∉ z.bylex.map Prod.fst := hd k (by simp)
    have hg : z.get k = none := ZSet.get_none_iff.mpr hk
    have hb : (z.add k v).1.bylex = z.bylex ++ [(k, v)] := by
      unfold ZSet.add
      rw [hg]
      exact dictSet_fresh _ _ _ hk
    rw [ih _ hn.2, hb]
    · simp
    · intro k' hk'
      rw [hb]
      simp only [List.map_append, List.map_cons, List.map_nil, List.mem_append, List.mem_singleton, not_or]
      refine ⟨hd k' (by simp [hk']), ?_⟩
      intro e; subst e; exact hn.1 hk'

theorem outZ_bylex (out : List (Bytes × Dbl)) (hn : (out.map Prod.fst).Nodup) : (outZ out).bylex = out := by
  unfold outZ
  rw [foldl_add_bylex out ZSet.empty hn (fun _ _ h => by simp [ZSet.empty] at h)]
  rfl

theorem outZ_inv (out : List (Bytes × Dbl)) (hs : ∀ q ∈ out, q.2.isNaN = false) : (outZ out).Inv := by
  unfold outZ
  suffices h : ∀ z : ZSet, z.Inv → (out.foldl (fun z p => (z.add p.1 p.2).1) z).Inv from h _ ZSet.empty_inv
  induction out with
  | nil => intro z hz; exact hz
  | cons p out ih =>
    intro z hz
    rw [List.foldl_cons]
    exact ih (fun q hq => hs q (List.mem_cons_of_mem _ hq)) _ (ZSet.add_inv hz (hs p List.mem_cons_self))


/-! ## 5. `out_members` -/

theorem contains_iff_mem_keys (z : ZSet) (m : Bytes) : z.contains m = true ↔ m ∈ z.bylex.map Prod.fst := by
  unfold ZSet.contains
  cases h : z.get m with
  | none => simp [ZSet.get_none_iff.mp h]
  | some v =>
    simp only [Option.isSome_some, true_iff]
    false_or_by_contra
    rename_i hh
    rw [ZSet.get_none_iff.mpr hh] at h; cases h

theorem mem_setIns (a : List Bytes) (x m : Bytes) : m ∈ Cmd.setIns a x ↔ m ∈ a ∨ m = x := by
  unfold Cmd.setIns
  split
  · rename_i h
    constructor
    · exact Or.inl
    · rintro (h' | rfl)
      · exact h'
      · simpa using h
  · simp

theorem mem_setUnion (a b : List Bytes) (m : Bytes) : m ∈ Cmd.setUnion a b ↔ m ∈ a ∨ m ∈ b := by
  unfold Cmd.setUnion
  induction b generalizing a with
  | nil => simp
  | cons x b ih =>
    rw [List.foldl_cons, ih, mem_setIns]
    simp only [List.mem_cons]
    constructor
    · rintro ((h | h) | h)
      · exact Or.inl h
      · exact Or.inr (Or.inl h)
      · exact Or.inr (Or.inr h)
    · rintro (h | h | h)
      · exact Or.inl (Or.inl h)
      · exact Or.inl (Or.inr h)
      · exact Or.inr h

theorem mem_foldl_members (union : Bool) (l : List ZSet) (acc : List Bytes) (m : Bytes) :
    m ∈ l.foldl (fun acc z =>
      if union then Cmd.setUnion acc (z.bylex.map Prod.fst) else acc.filter z.contains) acc ↔
      if union then (m ∈ acc ∨ ∃ z ∈ l, z.contains m = true) else (m ∈ acc ∧ ∀ z ∈ l, z.contains m = true) := by
  induction l generalizing acc with
  | nil => cases union <;> simp
  | cons z l ih =>
    rw [List.foldl_cons, ih]
    cases union
    · simp only [Bool.false_eq_true, if_false, List.mem_filter, List.forall_mem_cons]
      constructor
      · rintro ⟨⟨h1, h2⟩, h3⟩; exact ⟨h1, h2, h3⟩
      · rintro ⟨h1, h2, h3⟩; exact ⟨⟨h1, h2⟩, h3⟩
    · simp only [if_true, mem_setUnion, ← contains_iff_mem_keys]
      constructor
      · rintro ((h | h) | ⟨z', hz', h⟩)
        · exact Or.inl h
        · exact Or.inr ⟨z, List.mem_cons_self, h⟩
        · exact Or.inr ⟨z', List.mem_cons_of_mem _ hz', h⟩
      · rintro (h | ⟨z', hz', h⟩)
        · exact Or.inl (Or.inl h)
        · rcases List.mem_cons.mp hz' with rfl | hz'
          · exact Or.inl (Or.inr h)
          · exact Or.inr ⟨z', hz', h⟩

/-- MEMBERSHIP of `out_members`: some source (union) / every source (intersection) -/
theorem mem_members (union : Bool) (sets : List ZSet) (hne : sets ≠ []) (m : Bytes) :
    m ∈ members union sets ↔
      if union then (∃ z ∈ sets, z.contains m = true) else (∀ z ∈ sets, z.contains m = true) := by
  cases sets with
  | nil => exact absurd rfl hne
  | cons z0 l =>
    unfold members
    rw [mem_foldl_members]
    simp only [List.headD_cons, List.tail_cons, ← contains_iff_mem_keys]
    cases union <;> simp

/-! ## 6. the stable sort by cardinality -/

section SortA
variable {α : Type} (le : α → α → Bool)

theorem ins_perm (x : α) (l : List α) : (stableSort.ins le x l).Perm (x :: l) := by
  induction l with
  | nil => exact List.Perm.refl _
  | cons y ys ih =>
    unfold stableSort.ins
    split
    · exact List.Perm.refl _
    · exact ((List.Perm.cons y ih).trans (List.Perm.swap x y ys))

theorem stableSort_cons (x : α) (l : List α) : stableSort le (x :: l) = stableSort.ins le x (stableSort le l) := rfl

theorem stableSort_perm (l : List α) : (stableSort le l).Perm l := by
  induction l with
  | nil => exact List.Perm.refl _
  | cons x l ih =>
    rw [stableSort_cons]
    exact (ins_perm le x _).trans (List.Perm.cons x ih)

end SortA

section SortKey
variable {α : Type} (key : α → Nat)

theorem ins_sorted (x : α) (l : List α) (h : l.Pairwise (fun a b => key a ≤ key b)) :
    (stableSort.ins (fun a b => decide (key a ≤ key b)) x l).Pairwise (fun a b => key a ≤ key b) := by
  induction l with
  | nil => unfold stableSort.ins; simp
  | cons y ys ih =>
    unfold stableSort.ins
    rw [List.pairwise_cons] at h
    split
    · rename_i hle
      have hle : key x ≤ key y := by simpa using hle
      refine List.pairwise_cons.mpr ⟨?_, List.pairwise_cons.mpr h⟩
      intro a ha
      rcases List.mem_cons.mp ha with rfl | ha
      · exact hle
      · exact Nat.le_trans hle (h.1 a ha)
    · rename_i hle
      have hlt : key y < key x := by simpa using hle
      refine List.pairwise_cons.mpr ⟨?_, ih h.2⟩
      intro a ha
      rcases List.mem_cons.mp ((ins_perm _ x ys).subset ha) with rfl | ha
      · omega
      · exact h.1 a ha

theorem stableSort_sorted (l : List α) :
    (stableSort (fun a b => decide (key a ≤ key b)) l).Pairwise (fun a b => key a ≤ key b) := by
  induction l with
  | nil => exact List.Pairwise.nil
  | cons x l ih => rw [stableSort_cons]; exact ins_sorted key x _ ih

theorem ins_filter (x : α) (l : List α) (n : Nat) :
    (stableSort.ins (fun a b => decide (key a ≤ key b)) x l).filter (fun a => key a == n) =
      (x :: l).filter (fun a => key a == n) := by
  induction l with
  | nil => rfl
  | cons y ys ih =>
    unfold stableSort.ins
    split
    · rfl
    · rename_i hle
      have hlt : key y < key x := by simpa using hle
      rw [List.filter_cons, ih]
      simp only [List.filter_cons]
      by_cases hx : (key x == n) = true
      · have hy : (key y == n) = false := by
          have : key x = n := by simpa using hx
          simp; omega
        simp [hx, hy]
      · simp [hx]

/-- stability: elements with the same key keep their relative order -/
theorem stableSort_stable (l : List α) (n : Nat) :
    (stableSort (fun a b => decide (key a ≤ key b)) l).filter (fun a => key a == n) =
      l.filter (fun a => key a == n) := by
  induction l with
  | nil => rfl
  | cons x l ih =>
    rw [stableSort_cons, ins_filter, List.filter_cons, List.filter_cons, ih]

end SortKey

theorem pairs_perm (sets : List ZSet) (weights : List Dbl) : (pairs sets weights).Perm (sets.zip weights) :=
  stableSort_perm _ _

theorem pairs_sorted (sets : List ZSet) (weights : List Dbl) :
    (pairs sets weights).Pairwise (fun a b => a.1.len ≤ b.1.len) :=
  stableSort_sorted (fun (a : ZSet × Dbl) => a.1.len) _

theorem pairs_stable (sets : List ZSet) (weights : List Dbl) (n : Nat) :
    (pairs sets weights).filter (fun a => a.1.len == n) = (sets.zip weights).filter (fun a => a.1.len == n) :=
  stableSort_stable (fun (a : ZSet × Dbl) => a.1.len) _ n


/-! ## 7. The stored sorted set -/

theorem mem_pairs_fst {sets : List ZSet} {weights : List Dbl} {zw : ZSet × Dbl} (h : zw ∈ pairs sets weights) :
    zw.1 ∈ sets := by
  have h' := (pairs_perm sets weights).subset h
  obtain ⟨z, w⟩ := zw
  exact (List.of_mem_zip h').1

theorem exists_pair_of_mem {sets : List ZSet} {weights : List Dbl} (hlen : sets.length = weights.length)
    {z : ZSet} (hz : z ∈ sets) : ∃ w, (z, w) ∈ pairs sets weights := by
  obtain ⟨i, hi, rfl⟩ := List.mem_iff_getElem.mp hz
  have hi' : i < weights.length := hlen ▸ hi
  refine ⟨weights[i], (pairs_perm sets weights).symm.subset ?_⟩
  refine List.mem_iff_getElem.mpr ⟨i, by rw [List.length_zip]; omega, ?_⟩
  simp

theorem scoreStep_isSome (union : Bool) (agg : Bytes) (m : Bytes) (ps : List (ZSet × Dbl)) (acc : Option Dbl) :
    (ps.foldl (scoreStep union agg m) acc).isSome = true ↔
      acc.isSome = true ∨ ∃ zw ∈ ps, zw.1.contains m = true := by
  induction ps generalizing acc with
  | nil => simp
  | cons zw ps ih =>
    rw [List.foldl_cons, ih]
    unfold scoreStep ZSet.contains
    cases hg : zw.1.get m with
    | none =>
      simp only []
      constructor
      · rintro (h | ⟨x, hx, h⟩)
        · exact Or.inl h
        · exact Or.inr ⟨x, List.mem_cons_of_mem _ hx, h⟩
      · rintro (h | ⟨x, hx, h⟩)
        · exact Or.inl h
        · rcases List.mem_cons.mp hx with rfl | hx
          · rw [hg] at h; cases h
          · exact Or.inr ⟨x, hx, h⟩
    | some s0 =>
      simp only [Option.isSome_some, true_or, true_iff]
      exact Or.inr ⟨zw, List.mem_cons_self, by rw [hg]; rfl⟩

theorem scoreOf_isSome (union : Bool) (agg : Bytes) (ps : List (ZSet × Dbl)) (m : Bytes) :
    (scoreOf union agg ps m).isSome = true ↔ ∃ zw ∈ ps, zw.1.contains m = true := by
  unfold scoreOf
  rw [scoreStep_isSome]
  simp

/-- INVARIANT: both indexes agree, `byscore` is strictly sorted, every member once, no NaN (for all inputs) -/
theorem result_inv (union : Bool) (agg : Bytes) (sets : List ZSet) (weights : List Dbl) :
    (result union agg sets weights).Inv :=
  outZ_inv _ (outDict_good _ _ _ _).2

theorem result_bylex (union : Bool) (agg : Bytes) (sets : List ZSet) (weights : List Dbl) :
    (result union agg sets weights).bylex = outDict union agg (members union sets) (pairs sets weights) :=
  outZ_bylex _ (outDict_good _ _ _ _).1

theorem result_no_nan (union : Bool) (agg : Bytes) (sets : List ZSet) (weights : List Dbl) (m : Bytes) (x : Dbl)
    (h : (result union agg sets weights).get m = some x) : x.isNaN = false := by
  have hi := result_inv union agg sets weights
  exact hi.2.2.2 (x, m) ((ZSet.get_iff_mem_byscore hi).mp h)

/-- SCORE -/
theorem result_get (union : Bool) (agg : Bytes) (sets : List ZSet) (weights : List Dbl)
    (hn : ∀ z ∈ sets, (z.bylex.map Prod.fst).Nodup) (m : Bytes) :
    (result union agg sets weights).get m =
      if (members union sets).contains m then scoreOf union agg (pairs sets weights) m else none := by
  unfold ZSet.get
  rw [result_bylex, lookup_outDict _ _ _ _ (fun zw h => hn _ (mem_pairs_fst h))]

/-- MEMBERSHIP -/
theorem result_contains (union : Bool) (agg : Bytes) (sets : List ZSet) (weights : List Dbl)
    (hn : ∀ z ∈ sets, (z.bylex.map Prod.fst).Nodup) (hlen : sets.length = weights.length) (hne : sets ≠ [])
    (m : Bytes) :
    (result union agg sets weights).contains m = true ↔
      if union then (∃ z ∈ sets, z.contains m = true) else (∀ z ∈ sets, z.contains m = true) := by
  rw [← mem_members union sets hne]
  unfold ZSet.contains
  rw [result_get _ _ _ _ hn]
  by_cases hc : (members union sets).contains m = true
  · rw [if_pos hc, scoreOf_isSome]
    have hm : m ∈ members union sets := by simpa using hc
    refine ⟨fun _ => hm, fun _ => ?_⟩
    have : ∃ z ∈ sets, z.contains m = true := by
      have h' := (mem_members union sets hne m).mp hm
      cases union
      · simp only [Bool.false_eq_true, if_false] at h'
        cases sets with
        | nil => exact absurd rfl hne
        | cons z0 l => exact ⟨z0, List.mem_cons_self, h' z0 List.mem_cons_self⟩
      · simpa using h'
    obtain ⟨z, hz, hzm⟩ := this
    obtain ⟨w, hw⟩ := exists_pair_of_mem hlen hz
    exact ⟨(z, w), hw, hzm⟩
  · rw [if_neg hc]
    have hm : m ∉ members union sets := by simpa using hc
    simp [hm]

theorem result_len (union : Bool) (agg : Bytes) (sets : List ZSet) (weights : List Dbl) :
    (result union agg sets weights).len = (outDict union agg (members union sets) (pairs sets weights)).length := by
  unfold ZSet.len; rw [result_bylex]

theorem result_empty_iff (union : Bool) (agg : Bytes) (sets : List ZSet) (weights : List Dbl) :
    (Value.zset (result union agg sets weights)).isEmptyColl = true ↔ (result union agg sets weights).len = 0 := by
  unfold Value.isEmptyColl ZSet.len
  simp


/-! ## 8. The sources -/

/-- the sorted set a source key stands for, given its live entry -/
def srcOf : Option Item → Except Err ZSet
  | none => .ok ZSet.empty
  | some it => zsetOfValue it.value

/-- all sources, in key order; the first wrong-typed key gives the error -/
def srcAll (db : Db) : List Bytes → Except Err (List ZSet)
  | [] => .ok []
  | k :: ks =>
    match srcOf (db.live k) with
    | .error e => .error e
    | .ok z =>
      match srcAll db ks with
      | .error e => .error e
      | .ok zs => .ok (z :: zs)

theorem srcAll_cons (db : Db) (k : Bytes) (ks : List Bytes) :
    srcAll db (k :: ks) = (match srcOf (db.live k) with
      | .error e => .error e
      | .ok z =>
        match srcAll db ks with
        | .error e => .error e
        | .ok zs => .ok (z :: zs)) := rfl

theorem srcAll_congr {a b : Db} (h : ∀ k, a.live k = b.live k) (ks : List Bytes) : srcAll a ks = srcAll b ks := by
  induction ks with
  | nil => rfl
  | cons k ks ih => unfold srcAll; rw [h k, ih]

theorem get_snd_eq_live {db : Db} (nd : NodupKeys db.dict) (k : Bytes) : (db.get k).2 = db.live k :=
  Db.get_result k nd

/-- the look-ups return the live entries and only delete expired entries -/
theorem readSrc_spec (ks : List Bytes) (db : Db) (nd : NodupKeys db.dict) (acc : List ZSet) :
    Reads db (readSrc ks db acc).1 ∧
      (readSrc ks db acc).2 = (match srcAll db ks with
        | .ok zs => .ok (acc ++ zs)
        | .error e => .error e) := by
  induction ks generalizing db acc with
  | nil => exact ⟨Reads.refl nd, by simp [readSrc, srcAll]⟩
  | cons k ks ih =>
    have nd' := Db.get_nodup k nd
    have hr := Reads.get nd k
    have hl : srcAll (db.get k).1 ks = srcAll db ks := srcAll_congr (fun k' => live_get nd k k') ks
    unfold readSrc srcAll
    rw [get_snd_eq_live nd k]
    cases hk : db.live k with
    | none =>
      simp only [srcOf]
      obtain ⟨h1, h2⟩ := ih (db.get k).1 nd' (acc ++ [ZSet.empty])
      refine ⟨hr.trans h1, ?_⟩
      rw [h2, hl]
      cases srcAll db ks <;> simp
    | some it =>
      simp only [srcOf]
      cases hz : zsetOfValue it.value with
      | error e => exact ⟨hr, rfl⟩
      | ok z =>
        simp only
        obtain ⟨h1, h2⟩ := ih (db.get k).1 nd' (acc ++ [z])
        refine ⟨hr.trans h1, ?_⟩
        rw [h2, hl]
        cases srcAll db ks <;> simp

theorem srcAll_length {db : Db} {ks : List Bytes} {zs : List ZSet} (h : srcAll db ks = .ok zs) :
    zs.length = ks.length := by
  induction ks generalizing zs with
  | nil => simp [srcAll] at h; subst h; rfl
  | cons k ks ih =>
    unfold srcAll at h
    split at h
    · cases h
    · split at h
      · cases h
      · rename_i zs' hzs
        cases h
        simp [ih hzs]

/-- `srcAll` is the pointwise conversion -/
theorem srcAll_getElem {db : Db} {ks : List Bytes} {zs : List ZSet} (h : srcAll db ks = .ok zs) (i : Nat)
    (hi : i < ks.length) : srcOf (db.live ks[i]) = .ok (zs[i]'(by rw [srcAll_length h]; exact hi)) := by
  induction ks generalizing zs i with
  | nil => simp at hi
  | cons k ks ih =>
    unfold srcAll at h
    split at h
    · cases h
    · rename_i z hz
      split at h
      · cases h
      · rename_i zs' hzs
        cases h
        cases i with
        | zero => simpa using hz
        | succ j => simpa using ih hzs j (by simpa using hi)

theorem zsetOfValue_error {v : Value} {e : Err} (h : zsetOfValue v = .error e) :
    e = Msgs.WRONGTYPE_MSG ∧ v.ty ≠ .set ∧ v.ty ≠ .zset := by
  cases v <;> simp [zsetOfValue] at h <;> subst h <;> simp [Value.ty]

theorem zsetOfValue_ok_iff (v : Value) : (∃ z, zsetOfValue v = .ok z) ↔ (v.ty = .set ∨ v.ty = .zset) := by
  cases v <;> simp [zsetOfValue, Value.ty]

/-- WRONGTYPE: exactly when some source key holds a live string, list or hash -/
theorem srcAll_error_iff (db : Db) (ks : List Bytes) :
    (∃ e, srcAll db ks = .error e) ↔
      ∃ k, k ∈ ks ∧ ∃ it, db.live k = some it ∧ it.value.ty ≠ .set ∧ it.value.ty ≠ .zset := by
  induction ks with
  | nil => simp [srcAll]
  | cons k ks ih =>
    have hsplit : ∀ P : Bytes → Prop, (∃ k', k' ∈ k :: ks ∧ P k') ↔ P k ∨ ∃ k', k' ∈ ks ∧ P k' := by
      intro P; simp
    rw [hsplit, ← ih, srcAll_cons]
    cases hk : db.live k with
    | none =>
      simp only [srcOf]
      cases srcAll db ks <;> simp
    | some it =>
      simp only [srcOf]
      cases hz : zsetOfValue it.value with
      | error e =>
        have := zsetOfValue_error hz
        simp only []
        constructor
        · intro _; exact Or.inl ⟨it, rfl, this.2⟩
        · intro _; exact ⟨e, rfl⟩
      | ok z =>
        have hty := (zsetOfValue_ok_iff it.value).mp ⟨z, hz⟩
        have hno : ¬ ∃ it', some it = some it' ∧ it'.value.ty ≠ .set ∧ it'.value.ty ≠ .zset := by
          rintro ⟨it', e, h1, h2⟩
          cases e
          rcases hty with h | h
          · exact h1 h
          · exact h2 h
        simp only []
        cases srcAll db ks with
        | error e => simp
        | ok zs => simp only [reduceCtorEq, exists_false, false_iff, not_or]; exact ⟨hno, fun h => h⟩

theorem srcAll_error_msg {db : Db} {ks : List Bytes} {e : Err} (h : srcAll db ks = .error e) :
    e = Msgs.WRONGTYPE_MSG := by
  induction ks with
  | nil => simp [srcAll] at h
  | cons k ks ih =>
    unfold srcAll at h
    split at h
    · rename_i e' he
      cases h
      cases hk : db.live k with
      | none => rw [hk] at he; simp [srcOf] at he
      | some it => rw [hk] at he; exact (zsetOfValue_error he).1
    · split at h
      · rename_i e' he; cases h; exact ih he
      · cases h

/-- a plain set contributes each member with score `1.0` -/
theorem setZ_get (s : List Bytes) (z : ZSet) (hz : ∀ m v, z.get m = some v → v = Dbl.one) (m : Bytes) :
    (s.foldl (fun z m => (z.add m Dbl.one).1) z).get m = if m ∈ s then some Dbl.one else z.get m := by
  induction s generalizing z with
  | nil => simp
  | cons x s ih =>
    have hstep : ∀ m', (z.add x Dbl.one).1.get m' = if m' = x then some Dbl.one else z.get m' := by
      intro m'
      rw [ZSet.get_add]
      by_cases e : m' = x
      · rw [if_pos e, if_pos e]
        cases hg : z.get x with
        | none => rfl
        | some old =>
          have := hz x old hg
          subst this
          simp only
          split <;> rfl
      · rw [if_neg e, if_neg e]
    rw [List.foldl_cons, ih]
    · rw [hstep]
      by_cases e : m = x
      · subst e; simp
      · simp only [List.mem_cons, e, false_or, if_false]
    · intro m' v hv
      rw [hstep] at hv
      split at hv
      · exact (Option.some.inj hv).symm
      · exact hz m' v hv

theorem zsetOfValue_set_get (s : List Bytes) (z : ZSet) (h : zsetOfValue (.set s) = .ok z) (m : Bytes) :
    z.get m = if m ∈ s then some Dbl.one else none := by
  simp only [zsetOfValue, Except.ok.injEq] at h
  subst h
  rw [setZ_get s ZSet.empty (fun m v h => by simp [ZSet.get, ZSet.empty] at h)]
  rfl

theorem setZ_inv (s : List Bytes) (z0 : ZSet) (h0 : z0.Inv) :
    (s.foldl (fun z m => (z.add m Dbl.one).1) z0).Inv := by
  induction s generalizing z0 with
  | nil => exact h0
  | cons x s ih => rw [List.foldl_cons]; exact ih _ (ZSet.add_inv h0 (by decide))

theorem zsetOfValue_inv {v : Value} {z : ZSet} (hv : ∀ z', v = .zset z' → z'.Inv) (h : zsetOfValue v = .ok z) :
    z.Inv := by
  cases v with
  | set s =>
    simp only [zsetOfValue, Except.ok.injEq] at h
    subst h
    exact setZ_inv s _ ZSet.empty_inv
  | zset z' =>
    simp only [zsetOfValue, Except.ok.injEq] at h
    subst h; exact hv _ rfl
  | str _ => simp [zsetOfValue] at h
  | list _ => simp [zsetOfValue] at h
  | hash _ => simp [zsetOfValue] at h

/-- every sorted set stored in the database satisfies the two-index invariant -/
def DbZInv (db : Db) : Prop := ∀ q ∈ db.dict, ∀ z, q.2.value = .zset z → z.Inv

theorem live_mem {db : Db} {k : Bytes} {it : Item} (h : db.live k = some it) : (k, it) ∈ db.dict := by
  unfold Db.live at h
  have := Db.lookup_some_mem h
  rw [Db.purge_dict] at this
  exact (List.mem_filter.mp this).1

theorem srcAll_inv {db : Db} (hz : DbZInv db) {ks : List Bytes} {zs : List ZSet} (h : srcAll db ks = .ok zs) :
    ∀ z ∈ zs, z.Inv := by
  induction ks generalizing zs with
  | nil => simp [srcAll] at h; subst h; intro z hz'; simp at hz'
  | cons k ks ih =>
    unfold srcAll at h
    split at h
    · cases h
    · rename_i z0 hz0
      split at h
      · cases h
      · rename_i zs' hzs
        cases h
        intro z hzm
        rcases List.mem_cons.mp hzm with rfl | hzm
        · cases hk : db.live k with
          | none => rw [hk] at hz0; simp [srcOf] at hz0; subst hz0; exact ZSet.empty_inv
          | some it =>
            rw [hk] at hz0
            exact zsetOfValue_inv (fun z' e => hz (k, it) (live_mem hk) z' e) hz0
        · exact ih hzs z hzm


/-! ## 9. The options -/

theorem parseOpts_succ_cons (nk fuel : Nat) (x : Bytes) (rest' : List Bytes) (w : List Dbl) (a : Bytes) :
    parseOpts nk (fuel + 1) (x :: rest') w a =
      (if casematch x "weights" && decide (rest'.length ≥ nk) then
        match (rest'.take nk).mapM Conv.float with
        | .ok w' => parseOpts nk fuel (rest'.drop nk) w' a
        | .error e => .error e
      else if casematch x "aggregate" && decide (rest'.length ≥ 1) then
        match rest' with
        | v :: rest'' =>
          if badAgg (casenorm v) then .error Msgs.SYNTAX_ERROR_MSG else parseOpts nk fuel rest'' w (casenorm v)
        | [] => .error Msgs.SYNTAX_ERROR_MSG
      else .error Msgs.SYNTAX_ERROR_MSG) := rfl

theorem mapM_float_length {l : List Bytes} {w : List Dbl} (h : l.mapM Conv.float = .ok w) : w.length = l.length := by
  induction l generalizing w with
  | nil => simp [pure, Except.pure] at h; subst h; rfl
  | cons x l ih =>
    rw [List.mapM_cons] at h
    cases hx : Conv.float x with
    | error e => rw [hx] at h; cases h
    | ok v =>
      cases hl : l.mapM Conv.float with
      | error e => rw [hx, hl] at h; cases h
      | ok vs =>
        rw [hx, hl] at h
        cases h
        simp [ih hl]

theorem float_error_msg {x : Bytes} {e : Err} (h : Conv.float x = .error e) : e = Msgs.INVALID_FLOAT_MSG := by
  unfold Conv.float Conv.floatGen at h
  simp only [] at h
  repeat' split at h
  all_goals first | (cases h; rfl) | cases h

theorem mapM_float_error {l : List Bytes} {e : Err} (h : l.mapM Conv.float = .error e) :
    e = Msgs.INVALID_FLOAT_MSG := by
  induction l with
  | nil => simp [pure, Except.pure] at h
  | cons x l ih =>
    rw [List.mapM_cons] at h
    cases hx : Conv.float x with
    | error e' => rw [hx] at h; cases h; exact float_error_msg hx
    | ok v =>
      cases hl : l.mapM Conv.float with
      | error e' => rw [hx, hl] at h; cases h; exact ih hl
      | ok vs => rw [hx, hl] at h; cases h

/-- the weights list keeps length `numkeys`; the aggregate stays one of `sum`, `min`, `max` -/
theorem parseOpts_ok (nk fuel : Nat) (opts : List Bytes) (w : List Dbl) (a : Bytes) {w' : List Dbl} {a' : Bytes}
    (hw : w.length = nk) (ha : badAgg a = false) (h : parseOpts nk fuel opts w a = .ok (w', a')) :
    w'.length = nk ∧ badAgg a' = false := by
  induction fuel generalizing opts w a with
  | zero => simp only [parseOpts] at h; cases h; exact ⟨hw, ha⟩
  | succ fuel ih =>
    cases opts with
    | nil => simp only [parseOpts] at h; cases h; exact ⟨hw, ha⟩
    | cons x rest' =>
      rw [parseOpts_succ_cons] at h
      split at h
      · rename_i hc
        have hlen : rest'.length ≥ nk := by simp at hc; exact hc.2
        split at h
        · rename_i w2 hm
          exact ih _ _ _ (by rw [mapM_float_length hm, List.length_take]; omega) ha h
        · cases h
      · split at h
        · split at h
          · split at h
            · cases h
            · rename_i hb
              exact ih _ _ _ hw (by simpa using hb) h
          · cases h
        · cases h

theorem parseOpts_error (nk fuel : Nat) (opts : List Bytes) (w : List Dbl) (a : Bytes) {e : Err}
    (h : parseOpts nk fuel opts w a = .error e) : e = Msgs.SYNTAX_ERROR_MSG ∨ e = Msgs.INVALID_FLOAT_MSG := by
  induction fuel generalizing opts w a with
  | zero => simp only [parseOpts] at h; cases h
  | succ fuel ih =>
    cases opts with
    | nil => simp only [parseOpts] at h; cases h
    | cons x rest' =>
      rw [parseOpts_succ_cons] at h
      split at h
      · split at h
        · exact ih _ _ _ h
        · rename_i e' hm; cases h; exact Or.inr (mapM_float_error hm)
      · split at h
        · split at h
          · split at h
            · cases h; exact Or.inl rfl
            · exact ih _ _ _ h
          · cases h; exact Or.inl rfl
        · cases h; exact Or.inl rfl

/-- the fuel of the model's `while` loop never runs out -/
theorem parseOpts_fuel (nk f1 f2 : Nat) (opts : List Bytes) (w : List Dbl) (a : Bytes)
    (h1 : opts.length < f1) (h2 : opts.length < f2) : parseOpts nk f1 opts w a = parseOpts nk f2 opts w a := by
  induction f1 generalizing f2 opts w a with
  | zero => omega
  | succ f1 ih =>
    cases f2 with
    | zero => omega
    | succ f2 =>
      cases opts with
      | nil => simp [parseOpts]
      | cons x rest' =>
        simp only [List.length_cons] at h1 h2
        rw [parseOpts_succ_cons, parseOpts_succ_cons]
        split
        · split
          · exact ih _ _ _ _ (by rw [List.length_drop]; omega) (by rw [List.length_drop]; omega)
          · rfl
        · split
          · split
            · split
              · rfl
              · simp only [List.length_cons] at h1 h2
                exact ih _ _ _ _ (by omega) (by omega)
            · rfl
          · rfl

theorem badAgg_false_iff (a : Bytes) :
    badAgg a = false ↔ a = strBytes "sum" ∨ a = strBytes "min" ∨ a = strBytes "max" := by
  unfold badAgg
  simp only [Bool.and_eq_false_iff, bne_eq_false_iff_eq, or_assoc]


/-! ## 10. The command: signature, dispatch, write-back -/

/-- the signature of both commands: `(Key(), Int, bytes), (bytes,)` -/
def zsig (name : String) : Sig := ⟨name, [.key none .unspecified, .int, .bytes], [.bytes], false, 2, 0, true⟩

theorem pass1_bytes (db : Db) (l : List (Bytes × ArgTy)) (hl : ∀ p ∈ l, p.2 = .bytes) (acc : List Arg) :
    Sig.pass1 db l acc = (db, .ok (.inr (acc.reverse ++ l.map (fun p => Arg.raw p.1)))) := by
  induction l generalizing acc with
  | nil => simp [Sig.pass1]
  | cons p l ih =>
    obtain ⟨b, t⟩ := p
    have : t = .bytes := hl (b, t) List.mem_cons_self
    subst this
    simp only [Sig.pass1, Conv.decode]
    rw [ih (fun q hq => hl q (List.mem_cons_of_mem _ hq))]
    simp

theorem pass2_bytes (db : Db) (l : List (Arg × ArgTy)) (hl : ∀ p ∈ l, p.2 = .bytes) (accA : List Arg)
    (accC : List CI) :
    Sig.pass2 db l accA accC = (db, .ok (accA.reverse ++ l.map Prod.fst, accC.reverse)) := by
  induction l generalizing accA with
  | nil => simp [Sig.pass2]
  | cons p l ih =>
    obtain ⟨a, t⟩ := p
    have : t = .bytes := hl (a, t) List.mem_cons_self
    subst this
    simp only [Sig.pass2]
    rw [ih (fun q hq => hl q (List.mem_cons_of_mem _ hq))]
    simp

theorem zsig_types (name : String) (n : Nat) :
    (zsig name).types (n + 3) = .key none .unspecified :: .int :: .bytes :: List.replicate n .bytes := by
  unfold Sig.types zsig
  simp only [List.length_cons, List.length_nil, Nat.add_sub_cancel, List.cons_append, List.nil_append,
    List.cons.injEq, true_and]
  apply List.ext_getElem
  · simp
  · intro i h1 h2
    simp [Nat.mod_one]

/-- the `CommandItem` of the destination: its live entry, of any type -/
def destCI (db : Db) (dst : Bytes) : CI :=
  match (db.get dst).2 with
  | some it => ⟨dst, some it.value, it.expireat, false, false⟩
  | none => ⟨dst, none, none, false, false⟩

/-- `Signature.apply` for ZUNIONSTORE / ZINTERSTORE -/
theorem zsig_apply (name : String) (dst nkb b0 : Bytes) (bs : List Bytes) (db : Db) :
    (zsig name).apply (dst :: nkb :: b0 :: bs) db =
      (match Conv.int nkb with
       | .error e => (db, .error e)
       | .ok n => ((db.get dst).1,
           .ok (.ok (.key 0 :: .int n :: .raw b0 :: bs.map Arg.raw) [destCI db dst]))) := by
  unfold Sig.apply
  have h1 : (zsig name).checkArity (dst :: nkb :: b0 :: bs).length = true := by
    unfold Sig.checkArity zsig
    simp
  have h2 : (!(zsig name).rep.isEmpty &&
      ((dst :: nkb :: b0 :: bs).length - (zsig name).fixed.length) % (zsig name).rep.length != 0) = false := by
    simp [zsig, Nat.mod_one]
  have h3 : (dst :: nkb :: b0 :: bs).length = bs.length + 3 := by simp
  simp only [h1, h2, Bool.not_true, Bool.false_eq_true, if_false]
  rw [h3, zsig_types]
  have hz : ∀ {β : Type} (f : Bytes → β) (p : β × ArgTy),
      p ∈ (bs.map f).zip (List.replicate bs.length ArgTy.bytes) → p.2 = .bytes := by
    intro β f p hp
    obtain ⟨a, t⟩ := p
    exact (List.mem_replicate.mp (List.of_mem_zip hp).2).2
  simp only [List.zip_cons_cons, Sig.pass1, Conv.decode, bne_self_eq_false, Bool.false_eq_true, if_false]
  cases hn : Conv.int nkb with
  | error e => simp [Except.map]
  | ok n =>
    simp only [Except.map]
    have := pass1_bytes db (bs.zip (List.replicate bs.length ArgTy.bytes))
      (fun p hp => by
        obtain ⟨a, t⟩ := p
        exact (List.mem_replicate.mp (List.of_mem_zip hp).2).2)
      [Arg.raw b0, Arg.int n, Arg.raw dst]
    rw [this]
    simp only [List.reverse_cons, List.reverse_nil, List.nil_append, List.cons_append, List.zip_cons_cons,
      Sig.pass2, List.length_nil]
    have hmap : List.map (fun p => Arg.raw p.1) (bs.zip (List.replicate bs.length ArgTy.bytes)) = bs.map Arg.raw := by
      have h0 : (fun p : Bytes × ArgTy => Arg.raw p.1) = Arg.raw ∘ Prod.fst := rfl
      rw [h0, ← List.map_map, List.map_fst_zip (by simp)]
    rw [hmap]
    unfold destCI
    cases hg : db.get dst with
    | mk db' item =>
      simp only
      cases item with
      | none =>
        simp only
        rw [pass2_bytes _ _ (hz Arg.raw)]
        simp [List.map_fst_zip]
      | some it =>
        simp only
        rw [pass2_bytes _ _ (hz Arg.raw)]
        simp [List.map_fst_zip]


theorem rawArgs_map_raw (bs : List Bytes) : Cmd.rawArgs (bs.map Arg.raw) = bs := by
  induction bs with
  | nil => rfl
  | cons b bs ih => simp [Cmd.rawArgs, ih]

/-- the dispatcher hands both names to `zunioninter` -/
theorem special_zstore (inner : Inner) (mode : Mode) (c : Nat) (name : String)
    (h : name = "zunionstore" ∨ name = "zinterstore") (args : List Arg) (cis : List CI) (s : Sys) :
    special inner mode c name args cis s =
      ((match (zunioninter (name == "zunionstore") (s.conn c).db args cis s).1 with
        | .ok (r, cis') => .ok (some r, cis')
        | .error e => .error e),
       (zunioninter (name == "zunionstore") (s.conn c).db args cis s).2) := by
  have key : special inner mode c name args cis =
      (do
        let conn ← getConn c
        match ← zunioninter (name == "zunionstore") conn.db args cis with
        | .ok (r, cis') => return .ok (some r, cis')
        | .error e => return .error e) := by
    unfold special
    simp only []
    split <;> first
      | rfl
      | (exfalso; exact absurd h (by decide))
      | (exfalso; rcases h with h | h <;> (revert h; assumption))
  rw [key]
  simp only [bind, StateT.bind, getConn_run]
  generalize zunioninter (name == "zunionstore") (s.conn c).db args cis s = r
  obtain ⟨x, s'⟩ := r
  cases x with
  | error e => rfl
  | ok p => rfl


/-! ## 11. End to end -/

/-- the outcome of the body after `numkeys` has been decoded: an error message or the stored sorted set -/
def specN (union : Bool) (db : Db) (n : Int) (rest : List Bytes) : Except Err ZSet :=
  if n < 1 then .error Msgs.ZUNIONSTORE_KEYS_MSG
  else if n > rest.length then .error Msgs.SYNTAX_ERROR_MSG
  else
    match srcAll db (rest.take n.toNat) with
    | .error e => .error e
    | .ok sets =>
      match parseOpts n.toNat ((rest.drop n.toNat).length + 1) (rest.drop n.toNat)
          (List.replicate n.toNat Dbl.one) (strBytes "sum") with
      | .error e => .error e
      | .ok (w, agg) => .ok (result union agg sets w)

/-- the outcome of the whole command on the live view `db` -/
def spec (union : Bool) (db : Db) (nkb : Bytes) (rest : List Bytes) : Except Err ZSet :=
  match Conv.int nkb with
  | .error e => .error e
  | .ok n => specN union db n rest

theorem specN_congr (union : Bool) {a b : Db} (h : ∀ k, a.live k = b.live k) (n : Int) (rest : List Bytes) :
    specN union a n rest = specN union b n rest := by
  unfold specN; rw [srcAll_congr h]

theorem core_spec (union : Bool) (d dk : Nat) (n : Int) (raw : List Bytes) (cis : List CI) (s : Sys)
    (nd : NodupKeys (s.dbAt d).dict) :
    ∃ db', Reads (s.dbAt d) db' ∧ (core union d dk n raw cis s).2 = s.setDbS d db' ∧
      (core union d dk n raw cis s).1 = (match specN union (s.dbAt d) n raw with
        | .error e => .error e
        | .ok Z => .ok (.int Z.len, cis.set dk ((ciAt cis dk).setValue (some (.zset Z))))) := by
  unfold core specN
  by_cases c1 : n < 1
  · simp only [if_pos c1]
    exact ⟨s.dbAt d, Reads.refl nd, (setDbS_dbAt_id s d).symm, trivial⟩
  simp only [if_neg c1]
  by_cases c2 : n > (raw.length : Int)
  · simp only [if_pos c2]
    exact ⟨s.dbAt d, Reads.refl nd, (setDbS_dbAt_id s d).symm, trivial⟩
  simp only [if_neg c2]
  obtain ⟨h1, h2⟩ := readSrc_spec (raw.take n.toNat) (s.dbAt d) nd []
  refine ⟨_, h1, ?_, ?_⟩
  · cases (readSrc (raw.take n.toNat) (s.dbAt d) []).2 with
    | error e => rfl
    | ok sets =>
      simp only
      cases parseOpts n.toNat ((raw.drop n.toNat).length + 1) (raw.drop n.toNat)
        (List.replicate n.toNat Dbl.one) (strBytes "sum") with
      | error e => rfl
      | ok wa => rfl
  · rw [h2]
    cases srcAll (s.dbAt d) (raw.take n.toNat) with
    | error e => rfl
    | ok sets =>
      simp only [List.nil_append]
      cases parseOpts n.toNat ((raw.drop n.toNat).length + 1) (raw.drop n.toNat)
        (List.replicate n.toNat Dbl.one) (strBytes "sum") with
      | error e => rfl
      | ok wa => rfl

theorem specN_error_msg {union : Bool} {db : Db} {n : Int} {rest : List Bytes} {e : Err}
    (h : specN union db n rest = .error e) :
    e = Msgs.ZUNIONSTORE_KEYS_MSG ∨ e = Msgs.SYNTAX_ERROR_MSG ∨ e = Msgs.WRONGTYPE_MSG ∨
      e = Msgs.INVALID_FLOAT_MSG := by
  unfold specN at h
  split at h
  · cases h; exact Or.inl rfl
  · split at h
    · cases h; exact Or.inr (Or.inl rfl)
    · split at h
      · rename_i e' he; cases h; exact Or.inr (Or.inr (Or.inl (srcAll_error_msg he)))
      · split at h
        · rename_i e' he
          cases h
          rcases parseOpts_error _ _ _ _ _ he with h | h
          · exact Or.inr (Or.inl h)
          · exact Or.inr (Or.inr (Or.inr h))
        · cases h

theorem specN_error_not_model {union : Bool} {db : Db} {n : Int} {rest : List Bytes} {e : Err}
    (h : specN union db n rest = .error e) : e.startsWith "model:" = false := by
  rcases specN_error_msg h with rfl | rfl | rfl | rfl <;> decide +kernel

theorem writebackAll_clean (d : Nat) (ci : CI) (h : ci.Clean) (s : Sys) : writebackAll d [ci] s = ((), s) := by
  rw [writebackAll_single]
  unfold Sys.wbStep
  rw [CI.writeback_unmodified h.1 h.2]
  simp only [h.1, Bool.false_eq_true, if_false, setDbS_dbAt_id]

theorem after_error (d : Nat) (ci : CI) (hci : ci.Clean) (e : Err) (he : e.startsWith "model:" = false)
    (x : M SpecialOut) (s s2 : Sys) (hx : x s = (.error e, s2)) :
    afterSpecial d [ci] x s = (some (.err (strBytes e)), s2) := by
  unfold afterSpecial
  simp only [bind, StateT.bind, hx, he, Bool.false_eq_true, if_false, writebackAll_clean d ci hci]
  rfl

theorem after_ok (d : Nat) (cis : List CI) (r : Reply) (ci' : CI) (x : M SpecialOut) (s s2 : Sys)
    (hx : x s = (.ok (some r, [ci']), s2)) :
    afterSpecial d cis x s = (some r, s2.wbStep d ci') := by
  unfold afterSpecial
  simp only [bind, StateT.bind, hx, writebackAll_single]
  rfl

theorem regular_none (name : String) (h : name = "zunionstore" ∨ name = "zinterstore") :
    Cmd.regular name = none := by
  rcases h with rfl | rfl <;> rfl


theorem destCI_key (db : Db) (dst : Bytes) : (destCI db dst).key = dst := by
  unfold destCI; split <;> rfl

theorem destCI_clean (db : Db) (dst : Bytes) : (destCI db dst).Clean := by
  unfold destCI; split <;> exact ⟨rfl, rfl⟩

/-- the destination's previous live value (any type) and deadline, as the body sees them -/
theorem destCI_val (db : Db) (nd : NodupKeys db.dict) (dst : Bytes) :
    (destCI db dst).val = (db.live dst).map (·.value) ∧
      (destCI db dst).expireat = (db.live dst).bind (·.expireat) := by
  unfold destCI
  rw [get_snd_eq_live nd]
  cases db.live dst <;> exact ⟨rfl, rfl⟩

theorem runWith_zstore_eq (inner : Inner) (mode : Mode) (c : Nat) (name : String)
    (h : name = "zunionstore" ∨ name = "zinterstore") (dst nkb b0 : Bytes) (bs : List Bytes) (fs : Bool) (s : Sys)
    (hg : runGate (zsig name) fs ((s.conn c).pubsub > 0) = none) :
    runWith (special inner) mode c (zsig name) (dst :: nkb :: b0 :: bs) fs s =
      (match Conv.int nkb with
       | .error e => (some (.err (strBytes e)), s)
       | .ok n =>
         afterSpecial (s.conn c).db [destCI (s.dbAt (s.conn c).db) dst]
           (special inner mode c name (.key 0 :: .int n :: .raw b0 :: bs.map Arg.raw)
             [destCI (s.dbAt (s.conn c).db) dst])
           (s.setDbS (s.conn c).db ((s.dbAt (s.conn c).db).get dst).1)) := by
  have hreg : Cmd.regular (zsig name).name = none := regular_none name h
  rw [runWith_special_run _ _ _ _ _ _ _ hreg (Sys.refuses_of_gate_none hg)]
  simp only []
  change (match ((zsig name).apply (dst :: nkb :: b0 :: bs) (s.dbAt (s.conn c).db)).2 with
      | .error e => (some (Reply.err (strBytes e)),
          s.setDbS (s.conn c).db ((zsig name).apply (dst :: nkb :: b0 :: bs) (s.dbAt (s.conn c).db)).1)
      | .ok (.short r) => (some r,
          s.setDbS (s.conn c).db ((zsig name).apply (dst :: nkb :: b0 :: bs) (s.dbAt (s.conn c).db)).1)
      | .ok (.ok args cis) =>
        match runGate (zsig name) fs (decide ((s.conn c).pubsub > 0)) with
        | some e => (some (Reply.err (strBytes e)),
            s.setDbS (s.conn c).db ((zsig name).apply (dst :: nkb :: b0 :: bs) (s.dbAt (s.conn c).db)).1)
        | none => afterSpecial (s.conn c).db cis (special inner mode c (zsig name).name args cis)
            (s.setDbS (s.conn c).db ((zsig name).apply (dst :: nkb :: b0 :: bs) (s.dbAt (s.conn c).db)).1)) = _
  rw [zsig_apply]
  cases hn : Conv.int nkb with
  | error e => simp only [setDbS_dbAt_id]
  | ok n => simp only [hg]; rfl

/-- the complete run of the command through `runWith`: signature, gate, body, write-back -/
theorem run_zstore (inner : Inner) (mode : Mode) (c : Nat) (name : String)
    (h : name = "zunionstore" ∨ name = "zinterstore") (dst nkb b0 : Bytes) (bs : List Bytes) (fs : Bool) (s : Sys)
    (hd : (s.conn c).db < s.srv.dbs.length) (nd : NodupKeys (s.dbAt (s.conn c).db).dict)
    (hg : runGate (zsig name) fs ((s.conn c).pubsub > 0) = none) :
    ∃ db', Reads (s.dbAt (s.conn c).db) db' ∧
      (match spec (name == "zunionstore") (s.dbAt (s.conn c).db) nkb (b0 :: bs) with
       | .error e =>
         runWith (special inner) mode c (zsig name) (dst :: nkb :: b0 :: bs) fs s =
           (some (.err (strBytes e)), s.setDbS (s.conn c).db db')
       | .ok Z =>
         runWith (special inner) mode c (zsig name) (dst :: nkb :: b0 :: bs) fs s =
           (some (.int Z.len), (s.setDbS (s.conn c).db db').wbStep (s.conn c).db
             ((destCI (s.dbAt (s.conn c).db) dst).setValue (some (.zset Z))))) := by
  rw [runWith_zstore_eq inner mode c name h dst nkb b0 bs fs s hg]
  unfold spec
  cases hn : Conv.int nkb with
  | error e =>
    refine ⟨s.dbAt (s.conn c).db, Reads.refl nd, ?_⟩
    simp only [setDbS_dbAt_id]
  | ok n =>
    simp only []
    generalize hs1 : s.setDbS (s.conn c).db ((s.dbAt (s.conn c).db).get dst).1 = s1
    have hd1 : (s1.conn c).db < s1.srv.dbs.length := by subst hs1; rw [Sys.setDbS_len]; exact hd
    have hc1 : s1.conn c = s.conn c := by subst hs1; rfl
    have hdb1 : s1.dbAt (s.conn c).db = ((s.dbAt (s.conn c).db).get dst).1 := by
      subst hs1
      exact Sys.setDbS_dbAt_self s _ _ hd (by rw [Db.get_time]; rfl)
    have nd1 : NodupKeys (s1.dbAt (s.conn c).db).dict := by rw [hdb1]; exact Db.get_nodup dst nd
    have hr1 : Reads (s.dbAt (s.conn c).db) (s1.dbAt (s.conn c).db) := by rw [hdb1]; exact Reads.get nd dst
    obtain ⟨db', hr, hst, hval⟩ := core_spec (name == "zunionstore") (s.conn c).db 0 n (b0 :: bs)
      [destCI (s.dbAt (s.conn c).db) dst] s1 nd1
    have hspec : specN (name == "zunionstore") (s1.dbAt (s.conn c).db) n (b0 :: bs) =
        specN (name == "zunionstore") (s.dbAt (s.conn c).db) n (b0 :: bs) :=
      specN_congr _ (fun k => by rw [hdb1]; exact live_get nd dst k) _ _
    rw [hspec] at hval
    have hst' : (core (name == "zunionstore") (s.conn c).db 0 n (b0 :: bs)
        [destCI (s.dbAt (s.conn c).db) dst] s1).2 = s.setDbS (s.conn c).db db' := by
      rw [hst, ← hs1, setDbS_setDbS]
    have hsp : special inner mode c (zsig name).name
        (.key 0 :: .int n :: .raw b0 :: bs.map Arg.raw) [destCI (s.dbAt (s.conn c).db) dst] s1 =
        ((match (core (name == "zunionstore") (s.conn c).db 0 n (b0 :: bs)
            [destCI (s.dbAt (s.conn c).db) dst] s1).1 with
          | .ok (r, cis') => .ok (some r, cis')
          | .error e => .error e),
         s.setDbS (s.conn c).db db') := by
      show special inner mode c name _ _ s1 = _
      rw [special_zstore inner mode c name h, hc1, zunioninter_eq _ _ _ _ _ _ _ (hc1 ▸ hd1), ← hst']
      have : Cmd.rawArgs (Arg.raw b0 :: bs.map Arg.raw) = b0 :: bs := by
        show b0 :: Cmd.rawArgs (bs.map Arg.raw) = _
        rw [rawArgs_map_raw]
      rw [this]
    refine ⟨db', hr1.trans hr, ?_⟩
    cases hsN : specN (name == "zunionstore") (s.dbAt (s.conn c).db) n (b0 :: bs) with
    | error e =>
      rw [hsN] at hval
      simp only [] at hval ⊢
      rw [hval] at hsp
      exact after_error _ _ (destCI_clean _ _) e (specN_error_not_model hsN) _ _ _ hsp
    | ok Z =>
      rw [hsN] at hval
      simp only [] at hval ⊢
      rw [hval] at hsp
      exact after_ok _ _ _ _ _ _ _ hsp


theorem Reads.time {a b : Db} (h : Reads a b) : b.time = a.time := by
  have := congrArg Db.time h.eq
  simpa using this

theorem Reads.live {a b : Db} (h : Reads a b) (k : Bytes) : b.live k = a.live k :=
  live_eq_of_purge h.eq k

/-- the entries after the write-back: old entries or the new destination entry -/
theorem writeback_dest_sub (db : Db) (ci : CI) (Z : ZSet) :
    ∀ q ∈ ((ci.setValue (some (.zset Z))).writeback db).1.dict, q ∈ db.dict ∨ q = (ci.key, ⟨.zset Z, none⟩) := by
  intro q hq
  unfold CI.writeback at hq
  simp only [CI.setValue, if_true] at hq
  split at hq
  · rw [Db.pop_eq] at hq
    exact Or.inl (Db.mem_erase hq)
  · unfold Db.put at hq
    simp only at hq
    rcases Db.mem_setRaw hq with h | h
    · exact Or.inl (Db.get_dict_sub h)
    · exact Or.inr h

/-- write-back of the destination: the live entry is replaced (deadline cleared) or deleted, every other key keeps
its live entry, and `notify_watch(dest)` runs -/
theorem wbStep_dest (s2 : Sys) (d : Nat) (nd : NodupKeys (s2.dbAt d).dict) (ci : CI) (Z : ZSet) :
    ∃ dbf, s2.wbStep d (ci.setValue (some (.zset Z))) = (s2.setDbS d dbf).mapConns (notifyFn d ci.key) ∧
      dbf.live ci.key = (if Z.len = 0 then none else some ⟨.zset Z, none⟩) ∧
      (∀ k, k ≠ ci.key → dbf.live k = (s2.dbAt d).live k) ∧ NodupKeys dbf.dict ∧ dbf.time = (s2.dbAt d).time ∧
      (∀ q ∈ dbf.dict, q ∈ (s2.dbAt d).dict ∨ q = (ci.key, ⟨.zset Z, none⟩)) := by
  refine ⟨((ci.setValue (some (.zset Z))).writeback (s2.dbAt d)).1, ?_, ?_, ?_, ?_, ?_, writeback_dest_sub _ _ _⟩
  · unfold Sys.wbStep
    simp only [CI.setValue, if_true]
  · unfold CI.writeback
    simp only [CI.setValue, if_true]
    by_cases he : Z.bylex.isEmpty = true
    · have : Z.len = 0 := by unfold ZSet.len; simpa using he
      simp only [Value.isEmptyColl, he, if_true, this]
      exact live_pop_self _ _
    · have : Z.len ≠ 0 := by unfold ZSet.len; simpa using he
      simp only [Value.isEmptyColl, he, Bool.false_eq_true, if_false, this]
      exact live_put_self nd _ _ _ rfl
  · intro k hk
    exact CI.writeback_live_ne _ nd hk
  · exact CI.writeback_nodup _ nd
  · exact CI.writeback_time _ _

/-- a connection that watches the destination is flagged by `notifyFn` -/
theorem notifyFn_watch (d : Nat) (key : Bytes) (x : Conn) (h : x.watches.contains (d, key) = true) :
    (notifyFn d key x).watchNotified = true := by
  rw [notifyFn_eq]
  simp only [h, Bool.or_true]

theorem notifyFn_watches (d : Nat) (key : Bytes) (x : Conn) : (notifyFn d key x).watches = x.watches := by
  rw [notifyFn_eq]


theorem Reads.dbZInv {a b : Db} (h : Reads a b) (hz : DbZInv a) : DbZInv b :=
  fun q hq z e => hz q (h.sub q hq) z e

/-- fewer than three arguments: the arity error of `Signature.apply`, nothing else happens -/
theorem zsig_apply_short (name : String) (raw : List Bytes) (db : Db) (h : raw.length < 3) :
    (zsig name).apply raw db = (db, .error (zsig name).wrongArgs) := by
  unfold Sig.apply
  have h1 : (zsig name).checkArity raw.length = false := by
    unfold Sig.checkArity zsig
    simp only [List.length_cons, List.length_nil]
    have : (raw.length != 3) = true := by simp; omega
    simp [this, h]
  simp only [h1, Bool.not_false, if_true]

theorem runWith_zstore_short (inner : Inner) (mode : Mode) (c : Nat) (name : String)
    (h : name = "zunionstore" ∨ name = "zinterstore") (raw : List Bytes) (fs : Bool) (s : Sys)
    (hl : raw.length < 3) :
    runWith (special inner) mode c (zsig name) raw fs s =
      (some (if s.refuses c (zsig name) then refusalReply else .err (strBytes (zsig name).wrongArgs)), s) := by
  cases hr : s.refuses c (zsig name) with
  | true => rw [runWith_refused _ mode c (zsig name) raw fs hr]; rfl
  | false =>
  have hreg : Cmd.regular (zsig name).name = none := regular_none name h
  rw [runWith_special_run _ _ _ _ _ _ _ hreg hr]
  simp only []
  change (match ((zsig name).apply raw (s.dbAt (s.conn c).db)).2 with
      | .error e => (some (Reply.err (strBytes e)),
          s.setDbS (s.conn c).db ((zsig name).apply raw (s.dbAt (s.conn c).db)).1)
      | .ok (.short r) => (some r,
          s.setDbS (s.conn c).db ((zsig name).apply raw (s.dbAt (s.conn c).db)).1)
      | .ok (.ok args cis) =>
        match runGate (zsig name) fs (decide ((s.conn c).pubsub > 0)) with
        | some e => (some (Reply.err (strBytes e)),
            s.setDbS (s.conn c).db ((zsig name).apply raw (s.dbAt (s.conn c).db)).1)
        | none => afterSpecial (s.conn c).db cis (special inner mode c (zsig name).name args cis)
            (s.setDbS (s.conn c).db ((zsig name).apply raw (s.dbAt (s.conn c).db)).1)) = _
  rw [zsig_apply_short name raw _ hl]
  simp only [setDbS_dbAt_id, Bool.false_eq_true, if_false]

/-- a refused command (the old gate is closed = subscriber mode, as the command may be called from scripts): the
reply is the refusal and the state is literally unchanged, whatever the arguments are — not even the destination is
looked up -/
theorem runWith_zstore_gated (inner : Inner) (mode : Mode) (c : Nat) (name : String)
    (raw : List Bytes) (fs : Bool) (s : Sys) (e : Err)
    (hg : runGate (zsig name) fs ((s.conn c).pubsub > 0) = some e) :
    runWith (special inner) mode c (zsig name) raw fs s = (some (.err (strBytes e)), s) := by
  obtain ⟨hr, rfl⟩ := Sys.refuses_of_gate_some (by simp [zsig]) hg
  rw [runWith_refused _ mode c (zsig name) raw fs hr]
  rfl


/-- success: reply, stored value, other keys, notification -/
theorem run_ok (inner : Inner) (mode : Mode) (c : Nat) (name : String)
    (h : name = "zunionstore" ∨ name = "zinterstore") (dst nkb b0 : Bytes) (bs : List Bytes) (fs : Bool) (s : Sys)
    (hd : (s.conn c).db < s.srv.dbs.length) (nd : NodupKeys (s.dbAt (s.conn c).db).dict)
    (hg : runGate (zsig name) fs ((s.conn c).pubsub > 0) = none) (Z : ZSet)
    (hs : spec (name == "zunionstore") (s.dbAt (s.conn c).db) nkb (b0 :: bs) = .ok Z) :
    ∃ dbf,
      runWith (special inner) mode c (zsig name) (dst :: nkb :: b0 :: bs) fs s =
        (some (.int Z.len), (s.setDbS (s.conn c).db dbf).mapConns (notifyFn (s.conn c).db dst)) ∧
      dbf.live dst = (if Z.len = 0 then none else some ⟨.zset Z, none⟩) ∧
      (∀ k, k ≠ dst → dbf.live k = (s.dbAt (s.conn c).db).live k) ∧
      NodupKeys dbf.dict ∧ dbf.time = (s.dbAt (s.conn c).db).time ∧
      (∀ q ∈ dbf.dict, q ∈ (s.dbAt (s.conn c).db).dict ∨ q = (dst, ⟨.zset Z, none⟩)) := by
  obtain ⟨db', hr, hm⟩ := run_zstore inner mode c name h dst nkb b0 bs fs s hd nd hg
  rw [hs] at hm
  simp only [] at hm
  have hdb : (s.setDbS (s.conn c).db db').dbAt (s.conn c).db = db' :=
    Sys.setDbS_dbAt_self s _ _ hd (by rw [Reads.time hr]; rfl)
  obtain ⟨dbf, h1, h2, h3, h4, h5, h6⟩ := wbStep_dest (s.setDbS (s.conn c).db db') (s.conn c).db
    (by rw [hdb]; exact hr.nd) (destCI (s.dbAt (s.conn c).db) dst) Z
  rw [destCI_key] at h1 h2 h3 h6
  rw [hdb] at h3 h5 h6
  refine ⟨dbf, ?_, h2, ?_, h4, ?_, ?_⟩
  · rw [hm, h1, setDbS_setDbS]
  · intro k hk; rw [h3 k hk, Reads.live hr]
  · rw [h5, Reads.time hr]
  · intro q hq
    rcases h6 q hq with h' | h'
    · exact Or.inl (hr.sub q h')
    · exact Or.inr h'

/-- every error of the command: the reply is the error, nothing but lazy expiry happens -/
theorem run_error (inner : Inner) (mode : Mode) (c : Nat) (name : String)
    (h : name = "zunionstore" ∨ name = "zinterstore") (dst nkb b0 : Bytes) (bs : List Bytes) (fs : Bool) (s : Sys)
    (hd : (s.conn c).db < s.srv.dbs.length) (nd : NodupKeys (s.dbAt (s.conn c).db).dict)
    (hg : runGate (zsig name) fs ((s.conn c).pubsub > 0) = none) (e : Err)
    (hs : spec (name == "zunionstore") (s.dbAt (s.conn c).db) nkb (b0 :: bs) = .error e) :
    ∃ db', Reads (s.dbAt (s.conn c).db) db' ∧
      runWith (special inner) mode c (zsig name) (dst :: nkb :: b0 :: bs) fs s =
        (some (.err (strBytes e)), s.setDbS (s.conn c).db db') := by
  obtain ⟨db', hr, hm⟩ := run_zstore inner mode c name h dst nkb b0 bs fs s hd nd hg
  rw [hs] at hm
  exact ⟨db', hr, hm⟩


/-- what a successful outcome consists of -/
theorem spec_ok {union : Bool} {db : Db} {nkb : Bytes} {rest : List Bytes} {Z : ZSet}
    (h : spec union db nkb rest = .ok Z) :
    ∃ (n : Int) (sets : List ZSet) (w : List Dbl) (agg : Bytes),
      Conv.int nkb = .ok n ∧ 1 ≤ n ∧ n ≤ rest.length ∧
      srcAll db (rest.take n.toNat) = .ok sets ∧
      parseOpts n.toNat ((rest.drop n.toNat).length + 1) (rest.drop n.toNat)
        (List.replicate n.toNat Dbl.one) (strBytes "sum") = .ok (w, agg) ∧
      Z = result union agg sets w ∧
      sets.length = n.toNat ∧ w.length = n.toNat ∧ sets ≠ [] ∧
      (agg = strBytes "sum" ∨ agg = strBytes "min" ∨ agg = strBytes "max") := by
  unfold spec at h
  cases hn : Conv.int nkb with
  | error e => rw [hn] at h; cases h
  | ok n =>
    rw [hn] at h
    simp only [specN] at h
    split at h
    · cases h
    · rename_i c1
      split at h
      · cases h
      · rename_i c2
        split at h
        · cases h
        · rename_i sets hsets
          split at h
          · cases h
          · rename_i w agg hp
            cases h
            have hlen : sets.length = n.toNat := by
              rw [srcAll_length hsets, List.length_take]; omega
            have hpo := parseOpts_ok _ _ _ _ _ (by simp) ((badAgg_false_iff _).mpr (Or.inl rfl)) hp
            refine ⟨n, sets, w, agg, rfl, by omega, by omega, hsets, hp, rfl, hlen, hpo.1, ?_,
              (badAgg_false_iff agg).mp hpo.2⟩
            intro e
            rw [e] at hlen
            simp at hlen
            omega

theorem spec_ok_inv {union : Bool} {db : Db} {nkb : Bytes} {rest : List Bytes} {Z : ZSet}
    (h : spec union db nkb rest = .ok Z) : Z.Inv := by
  obtain ⟨n, sets, w, agg, _, _, _, _, _, rfl, _⟩ := spec_ok h
  exact result_inv _ _ _ _

end FR.ZStore
