import FR.Proofs.Blocking
import Lean.Elab.Tactic
/-!
# An invariant over all histories: no database ever stores an empty collection (C09, lifted)

`Sys.DataInv` : every database dictionary has unique keys and stores no empty list / set / hash / zset.
The one-step theorem of `FR/Proofs/Runner.lean` (the generic runner preserves `NodupKeys` and `NoEmpty`)
is lifted here to every monadic building block of `FR/Sys/Server.lean` / `FR/Sys/Process.lean`, to the
special bodies, to `_run_command`, `_process_command`, the parser loop and the scheduler events.

Nothing is excluded: SORT (with and without STORE), ZUNIONSTORE / ZINTERSTORE (including their `while` loop) and
the script commands are covered.
-/
namespace FR
open M
set_option linter.unusedSimpArgs false
set_option linter.unusedVariables false

/-! ## The invariants -/

/-- a good dictionary: unique keys, no stored empty collection -/
def Good (d : Dict) : Prop := NodupKeys d ∧ NoEmpty d

/-- every database dictionary has unique keys and stores no empty list/set/hash/zset -/
def Sys.DataInv (s : Sys) : Prop := ∀ d ∈ s.srv.dbs, NodupKeys d ∧ NoEmpty d

theorem good_nil : Good [] := ⟨by unfold NodupKeys; simp, fun _ h => by simp at h⟩

theorem Sys.dataInv_init : Sys.DataInv {} := by
  intro d hd
  have : d = [] := by
    simp only [List.mem_replicate] at hd
    exact hd.2
  subst this; exact good_nil

/-- `DataInv` only looks at the dictionaries -/
theorem Sys.DataInv.frame {s s' : Sys} (h : s.DataInv) (h1 : s'.srv.dbs = s.srv.dbs) : s'.DataInv := by
  unfold Sys.DataInv at *
  rw [h1]; exact h

theorem Sys.DataInv.dbAt {s : Sys} (h : s.DataInv) (i : Nat) : Good (s.dbAt i).dict := by
  show Good (s.srv.dbs.getD i [])
  rw [List.getD_eq_getElem?_getD]
  cases hi : s.srv.dbs[i]? with
  | none => exact good_nil
  | some d => exact h d (List.mem_of_getElem? hi)

theorem Sys.DataInv.setDbS {s : Sys} (h : s.DataInv) (i : Nat) {db : Db} (hg : Good db.dict) : (s.setDbS i db).DataInv := by
  intro d hd
  rcases List.mem_or_eq_of_mem_set hd with hd | rfl
  · exact h d hd
  · exact hg

/-! ## dictionaries -/

theorem Good.get {db : Db} (h : Good db.dict) (k : Bytes) : Good (db.get k).1.dict :=
  ⟨Db.get_nodup k h.1, fun q hq => h.2 q (Db.get_dict_sub hq)⟩

theorem Good.get' {db db' : Db} {k : Bytes} {r : Option Item} (h : Good db.dict) (e : db.get k = (db', r)) :
    Good db'.dict := by
  have : db' = (db.get k).1 := by rw [e]
  subst this; exact h.get k

theorem Good.get_item {db db' : Db} {k : Bytes} {it : Item} (h : Good db.dict) (e : db.get k = (db', some it)) :
    it.value.isEmptyColl = false := by
  have : (db.get k).2 = some it := by rw [e]
  exact h.2 _ (Db.get_mem this)

theorem Good.get_snd {db : Db} {k : Bytes} {it : Item} (h : Good db.dict) (e : (db.get k).2 = some it) :
    it.value.isEmptyColl = false := h.2 _ (Db.get_mem e)

theorem Good.purge {db : Db} (h : Good db.dict) : Good (Db.purge db).dict :=
  ⟨Db.purge_nodup h.1, fun q hq => h.2 q (List.mem_filter.1 hq).1⟩

theorem Good.keys {db db' : Db} {ks : List Bytes} (h : Good db.dict) (e : db.keys = (db', ks)) : Good db'.dict := by
  have : db' = Db.purge db := by
    have := congrArg Prod.fst e
    exact this.symm
  subst this; exact h.purge

theorem Good.setRaw {d : Dict} (h : Good d) (k : Bytes) {it : Item} (hit : it.value.isEmptyColl = false) :
    Good (Db.setRaw d k it) := by
  refine ⟨Db.nodup_setRaw k it h.1, ?_⟩
  intro q hq
  rcases Db.mem_setRaw hq with hq | rfl
  · exact h.2 q hq
  · exact hit

theorem Good.writeback {db : Db} (h : Good db.dict) (ci : CI) : Good (ci.writeback db).1.dict :=
  ⟨ci.writeback_nodup h.1, ci.writeback_noEmpty h.2⟩

theorem Good.writeback' {db db' : Db} {n : Bool} (h : Good db.dict) {ci : CI} (e : ci.writeback db = (db', n)) :
    Good db'.dict := by
  have : db' = (ci.writeback db).1 := by rw [e]
  subst this; exact h.writeback ci

theorem Good.apply {db : Db} (h : Good db.dict) (sig : Sig) (raw : List Bytes) : Good (sig.apply raw db).1.dict :=
  ⟨(Sig.apply_reads sig raw h.1).nd, fun q hq => h.2 q ((Sig.apply_reads sig raw h.1).sub q hq)⟩

theorem Good.apply' {db db' : Db} {r} (h : Good db.dict) {sig : Sig} {raw : List Bytes}
    (e : sig.apply raw db = (db', r)) : Good db'.dict := by
  have : db' = (sig.apply raw db).1 := by rw [e]
  subst this; exact h.apply sig raw

/-! ## A small Hoare logic for `M` -/

/-- `m` preserves the invariant `I` -/
def Pres (I : Sys → Prop) {α : Type} (m : M α) : Prop := ∀ s, I s → I (m s).2

/-- `m` run from `s` ends in a state satisfying `I` -/
def PresAt (I : Sys → Prop) {α : Type} (s : Sys) (m : M α) : Prop := I (m s).2

namespace Pres
variable {I : Sys → Prop} {α β : Type}

theorem pure (a : α) : Pres I (Pure.pure a : M α) := fun _ h => h

theorem bind {m : M α} {f : α → M β} (hm : Pres I m) (hf : ∀ a, Pres I (f a)) : Pres I (m >>= f) :=
  fun s h => hf (m s).1 (m s).2 (hm s h)

/-- bind where the continuation may use a fact about the value established by `m` -/
theorem bindV {m : M α} {f : α → M β} (R : α → Prop) (hm : ∀ s, I s → I (m s).2 ∧ R (m s).1)
    (hf : ∀ a, R a → Pres I (f a)) : Pres I (m >>= f) :=
  fun s h => hf (m s).1 (hm s h).2 (m s).2 (hm s h).1

/-- reading the state -/
theorem get_bind {f : Sys → M β} (hf : ∀ s, I s → PresAt I s (f s)) : Pres I (get >>= f) :=
  fun s h => hf s h

theorem at_of_pres {m : M α} {s : Sys} (hm : Pres I m) (h : I s) : PresAt I s m := hm s h

theorem at_set_bind {s s' : Sys} {g : PUnit → M β} (h : I s') (hg : Pres I (g ⟨⟩)) : PresAt I s (set s' >>= g) :=
  hg s' h

theorem map {m : M α} (g : α → β) (hm : Pres I m) : Pres I (g <$> m) := fun s h => hm s h

theorem forM {l : List α} {f : α → M PUnit} (hf : ∀ a, Pres I (f a)) : Pres I (l.forM f) := by
  induction l with
  | nil => exact pure _
  | cons a as ih => rw [forM_cons_eq]; exact bind (hf a) (fun _ => ih)

theorem forIn {l : List α} {f : α → β → M (ForInStep β)} (hf : ∀ a b, Pres I (f a b)) (init : β) :
    Pres I (forIn l init f) := by
  induction l generalizing init with
  | nil => exact pure _
  | cons a as ih =>
    rw [List.forIn_cons]
    refine bind (hf a init) (fun r => ?_)
    cases r with
    | done b => exact pure _
    | yield b => exact ih b

theorem mapM {l : List α} {f : α → M β} (hf : ∀ a, Pres I (f a)) : Pres I (l.mapM f) := by
  induction l with
  | nil => exact pure _
  | cons a as ih =>
    rw [List.mapM_cons]
    exact bind (hf a) (fun _ => bind ih (fun _ => pure _))

end Pres

/-! ## Building blocks -/

theorem pres_getConn (c : Nat) : Pres Sys.DataInv (getConn c) := fun _ h => h

theorem pres_get : Pres Sys.DataInv (get : M Sys) := fun _ h => h

theorem pres_getDb (i : Nat) : Pres Sys.DataInv (getDb i) := fun _ h => h

/-- `getDb` returns a good dictionary -/
theorem pres_getDb_bind {β : Type} (i : Nat) {f : Db → M β} (hf : ∀ db, Good db.dict → Pres Sys.DataInv (f db)) :
    Pres Sys.DataInv (getDb i >>= f) :=
  Pres.bindV (fun db => Good db.dict) (fun s h => ⟨h, h.dbAt i⟩) hf

theorem pres_setDb (i : Nat) {db : Db} (hg : Good db.dict) : Pres Sys.DataInv (setDb i db) :=
  fun s h => h.setDbS i hg

theorem pres_modifyConn (c : Nat) (f : Conn → Conn) : Pres Sys.DataInv (modifyConn c f) := fun s h => h

theorem pres_clearWatches (c : Nat) : Pres Sys.DataInv (clearWatches c) := pres_modifyConn c _

theorem pres_notifyWatch (d : Nat) (k : Bytes) : Pres Sys.DataInv (notifyWatch d k) := fun s h => h

theorem pres_emit (c : Nat) (r : Reply) : Pres Sys.DataInv (emit c r) := by
  intro s h
  rw [emit_run]
  exact h.frame (by rw [Sys.emitS_srv])

theorem pres_fault (msg : String) : Pres Sys.DataInv (M.fault msg) := by
  intro s h
  show Sys.DataInv (if s.fault.isNone then { s with fault := some msg } else s)
  split
  · exact h
  · exact h

theorem pres_nextClock : Pres Sys.DataInv nextClock := by
  intro s h
  exact h.frame (by rw [nextClock_srv])

/-- a `modify` that does not touch the dictionaries -/
theorem pres_modify_frame (g : Sys → Sys) (h1 : ∀ s, (g s).srv.dbs = s.srv.dbs) : Pres Sys.DataInv (modify g) :=
  fun s h => h.frame (h1 s)

theorem pres_set_frame (s' : Sys) (h' : s'.DataInv) : Pres Sys.DataInv (set s') := fun _ _ => h'

theorem pres_writebackAll (d : Nat) (cis : List CI) : Pres Sys.DataInv (writebackAll d cis) := by
  unfold writebackAll
  refine Pres.forM (fun ci => ?_)
  refine pres_getDb_bind d (fun db hdb => ?_)
  split
  rename_i db' notified heq
  refine Pres.bind (pres_setDb d (hdb.writeback' heq)) (fun _ => ?_)
  split
  · exact pres_notifyWatch d ci.key
  · exact Pres.pure _

theorem pres_liveKeys (d : Nat) : Pres Sys.DataInv (liveKeys d) := by
  unfold liveKeys
  refine pres_getDb_bind d (fun db hdb => ?_)
  split
  rename_i db' ks heq
  exact Pres.bind (pres_setDb d (hdb.keys heq)) (fun _ => Pres.pure _)

theorem pres_clearDb (d : Nat) : Pres Sys.DataInv (clearDb d) := by
  unfold clearDb
  refine Pres.bind (pres_liveKeys d) (fun ks => ?_)
  refine Pres.bind (Pres.forM (fun k => pres_notifyWatch d k)) (fun _ => ?_)
  exact pres_setDb d good_nil

theorem okR_preserves (r : Reply) (cis : List CI) : Pres Sys.DataInv (okR r cis) := Pres.pure _

/-! ## Automation -/

/-- side conditions "this dictionary is good" -/
syntax "pres_good" : tactic
macro_rules | `(tactic| pres_good) => `(tactic| first
  | assumption
  | exact good_nil
  | (refine Good.get' ?_ ‹_›; assumption)
  | (refine Good.keys ?_ ‹_›; assumption)
  | (refine Good.writeback' ?_ ‹_›; assumption)
  | (refine Good.apply' ?_ ‹_›; assumption)
  | (refine Good.get ?_ _; assumption)
  | (refine Good.writeback ?_ _; assumption)
  | (refine Good.apply ?_ _ _; assumption)
  | (refine Good.purge ?_; assumption)
  | (refine Good.setRaw ?_ _ (Good.get_snd ?_ ‹_›) <;> assumption))

open Lean Elab Tactic Meta in
/-- close a `Pres` goal with a universally quantified hypothesis `∀ x…, Pres I (f x…)` of the context -/
elab "pres_hyp" : tactic => withMainContext do
  let g ← getMainGoal
  for ldecl in (← getLCtx) do
    if ldecl.isImplementationDetail then continue
    let ty ← instantiateMVars ldecl.type
    unless ty.isForall && ty.getForallBody.getAppFn.isConstOf ``FR.Pres do continue
    let saved ← saveState
    try
      let gs ← withReducible <| g.apply ldecl.toExpr
      if gs.isEmpty then
        replaceMainGoal []
        return
      else saved.restore
    catch _ => saved.restore
  throwError "pres_hyp: no applicable hypothesis"

/-- leaves: the monadic primitives (extensible with further `macro_rules`) -/
syntax "pres_leaf" : tactic
macro_rules | `(tactic| pres_leaf) => `(tactic| first
  | with_reducible exact Pres.pure _
  | with_reducible exact pres_getConn _
  | with_reducible exact pres_emit _ _
  | with_reducible exact pres_fault _
  | with_reducible exact pres_nextClock
  | with_reducible exact pres_clearWatches _
  | with_reducible exact pres_notifyWatch _ _
  | with_reducible exact pres_writebackAll _ _
  | with_reducible exact pres_liveKeys _
  | with_reducible exact pres_clearDb _
  | with_reducible exact pres_getDb _
  | with_reducible exact okR_preserves _ _
  | with_reducible exact pres_get
  | with_reducible exact pres_modifyConn _ _
  | ((with_reducible refine pres_modify_frame _ ?_); first | exact fun _ => rfl | (intro _; split <;> rfl))
  | ((with_reducible apply pres_setDb); pres_good)
  | with_reducible assumption
  | pres_hyp)

syntax "pres_step" : tactic
macro_rules | `(tactic| pres_step) => `(tactic| first
  | pres_leaf
  | (with_reducible refine pres_getDb_bind _ (fun db hdb => ?_))
  | ((with_reducible refine Pres.get_bind (fun s hs => ?_)); exact hs)
  | (with_reducible refine Pres.bind ?_ (fun _ => ?_))
  | (with_reducible refine Pres.forM (fun _ => ?_))
  | (with_reducible refine Pres.forIn (fun _ _ => ?_) _)
  | (with_reducible refine Pres.mapM (fun _ => ?_))
  | (with_reducible refine Pres.map _ ?_)
  | split
  | (simp only []))

/-- structural descent through a `do` block -/
syntax "pres" : tactic
macro_rules | `(tactic| pres) => `(tactic| repeat' pres_step)

/-! ## The special bodies -/

theorem selectCmd_preserves (c : Nat) (args : List Arg) (cis : List CI) : Pres Sys.DataInv (selectCmd c args cis) := by
  unfold selectCmd; pres

theorem swapdbCmd_preserves (args : List Arg) (cis : List CI) : Pres Sys.DataInv (swapdbCmd args cis) := by
  unfold swapdbCmd okR; pres

theorem moveCmd_preserves (d : Nat) (args : List Arg) (cis : List CI) : Pres Sys.DataInv (moveCmd d args cis) := by
  unfold moveCmd
  pres

theorem randomkeyCmd_preserves (d : Nat) (cis : List CI) : Pres Sys.DataInv (randomkeyCmd d cis) := by
  unfold randomkeyCmd okR
  refine Pres.bind (pres_liveKeys d) (fun ks => ?_)
  split
  · pres
  · refine Pres.get_bind (fun s hs => ?_)
    split
    · split
      · exact Pres.at_set_bind hs (Pres.pure _)
      · refine Pres.at_of_pres ?_ hs; pres
    · refine Pres.at_of_pres ?_ hs; pres

theorem scanCmd_preserves (d : Nat) (args : List Arg) (cis : List CI) : Pres Sys.DataInv (scanCmd d args cis) := by
  unfold scanCmd; pres

theorem multiCmd_preserves (c : Nat) (cis : List CI) : Pres Sys.DataInv (multiCmd c cis) := by
  unfold multiCmd; pres

theorem discardCmd_preserves (c : Nat) (cis : List CI) : Pres Sys.DataInv (discardCmd c cis) := by
  unfold discardCmd; pres

theorem watchCmd_preserves (c d : Nat) (args : List Arg) (cis : List CI) : Pres Sys.DataInv (watchCmd c d args cis) := by
  unfold watchCmd; pres

theorem unwatch_preserves (c : Nat) (cis : List CI) :
    Pres Sys.DataInv (do clearWatches c; okR .ok cis : M SpecialOut) := by pres

theorem subscribeGen_preserves (c : Nat) (pattern : Bool) (names : List Bytes) :
    Pres Sys.DataInv (subscribeGen c pattern names) := by
  unfold subscribeGen; pres

theorem unsubscribeGen_preserves (c : Nat) (pattern : Bool) (names : List Bytes) :
    Pres Sys.DataInv (unsubscribeGen c pattern names) := by
  unfold unsubscribeGen; pres

theorem publish_preserves (ch msg : Bytes) : Pres Sys.DataInv (publish ch msg) := by
  unfold publish; pres

theorem bpopPass_preserves (d : Nat) (left first : Bool) (keys : List Bytes) :
    Pres Sys.DataInv (bpopPass d left first keys) := by
  induction keys with
  | nil => unfold bpopPass; pres
  | cons k rest ih => unfold bpopPass; pres

theorem brpoplpushPass_preserves (d : Nat) (src dst : Bytes) (first : Bool) :
    Pres Sys.DataInv (brpoplpushPass d src dst first) := by
  unfold brpoplpushPass; pres

theorem blocking_preserves (c : Nat) (park : Bool) (kind : String) (keys : List Bytes) (timeout : Int)
    (pass : Bool → M (Except Err (Option Reply))) (hpass : ∀ first, Pres Sys.DataInv (pass first)) :
    Pres Sys.DataInv (blocking c park kind keys timeout pass) := by
  have h1 := hpass true
  unfold blocking; pres

theorem blockingAsync_preserves (c : Nat) (kind : String) (keys : List Bytes)
    (pass : Bool → M (Except Err (Option Reply))) (hpass : ∀ first, Pres Sys.DataInv (pass first)) :
    Pres Sys.DataInv (blockingAsync c kind keys pass) := by
  have h1 := hpass true
  unfold blockingAsync; pres

/-- the nested runner preserves the invariant -/
def Inner.Preserves (inner : Inner) : Prop :=
  ∀ (sig : Sig) (raw : List Bytes), Pres Sys.DataInv (inner sig raw)

theorem runQueue_preserves (inner : Inner) (hinner : Inner.Preserves inner) (c : Nat)
    (q : List (String × List Bytes)) : Pres Sys.DataInv (runQueue inner c q) := by
  induction q with
  | nil => unfold runQueue; pres
  | cons a rest ih =>
    have hinner' : ∀ sig raw, Pres Sys.DataInv (inner sig raw) := hinner
    rw [runQueue_cons]
    refine Pres.bind ?_ (fun _ => Pres.bind ih (fun _ => Pres.pure _))
    unfold queueStep
    pres

theorem execCmd_preserves (inner : Inner) (hinner : Inner.Preserves inner) (c : Nat) (cis : List CI) :
    Pres Sys.DataInv (execCmd inner c cis) := by
  have hq := runQueue_preserves inner hinner c
  unfold execCmd
  pres

theorem lookupKey_preserves (d : Nat) (key pattern : Bytes) : Pres Sys.DataInv (lookupKey d key pattern) := by
  unfold lookupKey; pres

macro_rules | `(tactic| pres_leaf) => `(tactic| with_reducible exact lookupKey_preserves _ _ _)

theorem sortCmd_preserves (c d : Nat) (args : List Arg) (cis : List CI) : Pres Sys.DataInv (sortCmd c d args cis) := by
  unfold sortCmd
  split
  · extract_lets key wrong out x keyed err le jp
    split
    · pres
    · have hjp : ∀ x, Pres Sys.DataInv (jp x) := by
        intro items?
        simp -zeta only [jp]
        split
        · pres
        · split
          · pres
          · extract_lets n start stop stop' gets sortby jp2
            have hjp2 : ∀ x, Pres Sys.DataInv (jp2 x) := by
              intro sorted?
              simp -zeta only [jp2]
              pres
            clear_value jp2
            pres
      clear_value jp
      simp only []
      split
      · pres
      · pres
      · pres
      · refine Pres.get_bind (fun st hs => ?_)
        split
        · split
          · exact Pres.at_set_bind hs (by pres)
          · refine Pres.at_of_pres ?_ hs; pres
        · refine Pres.at_of_pres ?_ hs; pres
      · pres
  · pres

/-! ## `while` loops, ZUNIONSTORE / ZINTERSTORE -/

theorem loop_unfold {β : Type} (f : Unit → β → M (ForInStep β)) (b : β) :
    ForIn.forIn Lean.Loop.mk b f = (f () b >>= fun r => match r with
      | .done val => Pure.pure val
      | .yield val => ForIn.forIn Lean.Loop.mk val f) :=
  Lean.Loop.forIn_eq_of_monadTail (l := Lean.Loop.mk) (b := b) (f := f)

/-- a `while` loop whose body preserves `I` and decreases a measure whenever it continues -/
theorem Pres.loop {I : Sys → Prop} {β : Type} (μ : β → Nat) (f : Unit → β → M (ForInStep β))
    (hf : ∀ b, Pres I (f () b))
    (hdec : ∀ b s b', (f () b s).1 = .yield b' → μ b' < μ b) (init : β) :
    Pres I (ForIn.forIn Lean.Loop.mk init f) := by
  induction h : μ init using Nat.strongRecOn generalizing init with
  | _ n ih =>
    rw [loop_unfold]
    intro s hs
    have h1 := hf init s hs
    have h2 := hdec init s
    show I ((match (f () init s).1 with
      | .done val => Pure.pure val
      | .yield val => ForIn.forIn Lean.Loop.mk val f : M β) (f () init s).2).2
    revert h1 h2
    generalize f () init s = r
    obtain ⟨r1, s1⟩ := r
    intro h1 h2
    cases r1 with
    | done v => exact h1
    | yield v => exact ih (μ v) (by rw [← h]; exact h2 v rfl) v rfl s1 h1

/-- a `while` loop with a pure body that decreases a measure whenever it continues -/
theorem Pres.loop_pure {I : Sys → Prop} {β : Type} (μ : β → Nat) (f : Unit → β → M (ForInStep β))
    (hf : ∀ b, ∃ r, f () b = Pure.pure r ∧ ∀ b', r = .yield b' → μ b' < μ b) (init : β) :
    Pres I (ForIn.forIn Lean.Loop.mk init f) := by
  refine Pres.loop μ f (fun b => ?_) (fun b s b' h => ?_) init
  · obtain ⟨r, hr, _⟩ := hf b
    rw [hr]; exact Pres.pure _
  · obtain ⟨r, hr, hd⟩ := hf b
    rw [hr] at h
    exact hd b' h

theorem zunioninter_preserves (u : Bool) (d : Nat) (args : List Arg) (cis : List CI) :
    Pres Sys.DataInv (zunioninter u d args cis) := by
  unfold zunioninter
  split
  · pres
    all_goals
      refine Pres.loop_pure (fun b => b.2.2.2.2) _ (fun b => ?_) _
      repeat' split
      all_goals
        refine ⟨_, rfl, fun b' h => ?_⟩
        first
          | (cases h; done)
          | (have h := ForInStep.yield.inj h; subst h; simp_all <;> omega)
  · pres

theorem scriptCmd_preserves (inner : Inner) (c : Nat) (name : String) (args : List Arg) (cis : List CI) :
    Pres Sys.DataInv (scriptCmd inner c name args cis) := by
  unfold scriptCmd; pres

/-! ## `special`: the dispatch of the special bodies -/

macro_rules | `(tactic| pres_leaf) => `(tactic| first
  | with_reducible exact selectCmd_preserves _ _ _
  | with_reducible exact swapdbCmd_preserves _ _
  | with_reducible exact moveCmd_preserves _ _ _
  | with_reducible exact randomkeyCmd_preserves _ _
  | with_reducible exact scanCmd_preserves _ _ _
  | with_reducible exact sortCmd_preserves _ _ _ _
  | with_reducible exact zunioninter_preserves _ _ _ _
  | with_reducible exact multiCmd_preserves _ _
  | with_reducible exact discardCmd_preserves _ _
  | with_reducible exact watchCmd_preserves _ _ _ _
  | with_reducible exact subscribeGen_preserves _ _ _
  | with_reducible exact unsubscribeGen_preserves _ _ _
  | with_reducible exact publish_preserves _ _
  | with_reducible exact scriptCmd_preserves _ _ _ _ _
  | with_reducible exact blocking_preserves _ _ _ _ _ _ (fun _ => bpopPass_preserves _ _ _ _)
  | with_reducible exact blockingAsync_preserves _ _ _ _ (fun _ => bpopPass_preserves _ _ _ _)
  | with_reducible exact blocking_preserves _ _ _ _ _ _ (fun _ => brpoplpushPass_preserves _ _ _ _)
  | with_reducible exact blockingAsync_preserves _ _ _ _ (fun _ => brpoplpushPass_preserves _ _ _ _))

/-- Every special body preserves the invariant (EXEC: provided the nested runner does).  The returned `cis'`
need no condition: `writebackAll` preserves the invariant for arbitrary items (`pres_writebackAll`).

Robust against new cases of the `match name with`: every goal produced by `split` is closed by the same
structural descent `pres`, whose leaves are the `…_preserves` lemmas registered with `pres_leaf`. -/
theorem special_preserves (inner : Inner) (hinner : Inner.Preserves inner) (mode : Mode) (c : Nat)
    (name : String) (args : List Arg) (cis : List CI) :
    Pres Sys.DataInv (special inner mode c name args cis) := by
  have hexec := execCmd_preserves inner hinner c
  unfold special
  simp only []
  refine Pres.bind (pres_getConn c) (fun conn => ?_)
  split
  all_goals pres

/-! ## `_run_command` -/

theorem Good.runRegular {db : Db} (h : Good db.dict) (sig : Sig) (body : Body) (ctx : Ctx) (gate : Option Err)
    (raw : List Bytes) : Good (runRegular sig body ctx gate raw db).db.dict :=
  ⟨runRegular_nodup sig body ctx gate raw h.1, runRegular_noEmpty sig body ctx gate raw h.1 h.2⟩

/-- `_run_command` preserves the invariant when the special body it may dispatch to does -/
theorem runWith_preserves (special : Mode → Nat → String → List Arg → List CI → M (Except Err (Option Reply × List CI)))
    (mode : Mode) (c : Nat) (sig : Sig) (raw : List Bytes) (fromScript : Bool)
    (hsp : ∀ args cis, Pres Sys.DataInv (special mode c sig.name args cis)) :
    Pres Sys.DataInv (runWith special mode c sig raw fromScript) := by
  unfold runWith
  refine Pres.bind (pres_getConn c) (fun conn => ?_)
  split
  · -- refused in subscriber mode: nothing happens
    exact Pres.pure _
  refine pres_getDb_bind _ (fun db hdb => ?_)
  extract_lets gate
  clear_value gate
  split
  · -- regular command
    refine Pres.bind pres_get (fun s => ?_)
    extract_lets ctx o jp
    have hjp : ∀ x, Pres Sys.DataInv (jp x) := by intro x; simp -zeta only [jp]; pres
    clear_value jp
    have ho : Good o.db.dict := hdb.runRegular ..
    clear_value o
    pres
  · pres

/-- a regular command preserves the invariant whatever `special` is -/
theorem runWith_regular_preserves (special) (mode : Mode) (c : Nat) (sig : Sig) (raw : List Bytes) (fromScript : Bool)
    {body : Body} (h : Cmd.regular sig.name = some body) :
    Pres Sys.DataInv (runWith special mode c sig raw fromScript) := by
  intro s hs
  cases hr : s.refuses c sig with
  | true => rw [runWith_refused special mode c sig raw fromScript hr]; exact hs
  | false =>
  rw [runWith_regular_run special mode c sig raw fromScript h s hr]
  unfold Sys.afterRegular
  refine Pres.forM (fun k => pres_notifyWatch _ k) _ ?_
  have h1 : Good (s.regularOut c sig body raw fromScript).db.dict := (hs.dbAt _).runRegular ..
  exact (hs.setDbS (s.conn c).db h1).frame (by rw [Sys.faultS_srv]; rfl)

/-! ## Scripts (EVAL / EVALSHA / SCRIPT) -/

theorem nextPick_preserves : Pres Sys.DataInv nextPick := by
  unfold nextPick
  refine Pres.get_bind (fun s hs => ?_)
  split
  · exact Pres.at_set_bind hs (Pres.pure _)
  · exact Pres.at_of_pres (Pres.pure _) hs

macro_rules | `(tactic| pres_leaf) => `(tactic| with_reducible exact nextPick_preserves)

theorem shaHint_preserves : Pres Sys.DataInv shaHint := by
  unfold shaHint; pres

macro_rules | `(tactic| pres_leaf) => `(tactic| with_reducible exact shaHint_preserves)

/-- the kind of `special` argument the script machinery is instantiated with -/
abbrev SpecialFn := Mode → Nat → String → List Arg → List CI → M (Except Err (Option Reply × List CI))

def SpecialFn.Preserves (special : SpecialFn) : Prop :=
  ∀ mode c name args cis, Pres Sys.DataInv (special mode c name args cis)

theorem runFromScript_preserves (special : SpecialFn) (hsp : SpecialFn.Preserves special) (mode : Mode) (c : Nat)
    (op : LuaVal) (args : List LuaVal) : Pres Sys.DataInv (runFromScript special mode c op args) := by
  have hrun : ∀ sig raw, Pres Sys.DataInv (runWith special mode c sig raw true) :=
    fun sig raw => runWith_preserves special mode c sig raw true (fun _ _ => hsp _ _ _ _ _)
  unfold runFromScript
  pres

theorem runTrace_preserves (special : SpecialFn) (hsp : SpecialFn.Preserves special) (mode : Mode) (c : Nat)
    (sha : Bytes) (fuel : Nat) : Pres Sys.DataInv (runTrace special mode c sha fuel) := by
  have hcall := runFromScript_preserves special hsp mode c
  induction fuel with
  | zero => unfold runTrace; pres
  | succ fuel ih => unfold runTrace; pres

theorem evalBody_preserves (special : SpecialFn) (hsp : SpecialFn.Preserves special) (mode : Mode) (c : Nat)
    (script : Bytes) (numkeys : Int) (rest : List Bytes) :
    Pres Sys.DataInv (evalBody special mode c script numkeys rest) := by
  have htrace := runTrace_preserves special hsp mode c
  unfold evalBody; pres

theorem scriptBody_preserves (special : SpecialFn) (hsp : SpecialFn.Preserves special) (mode : Mode) (c : Nat)
    (name : String) (args : List Arg) : Pres Sys.DataInv (scriptBody special mode c name args) := by
  have heval := evalBody_preserves special hsp mode c
  unfold scriptBody; pres

theorem special_stub_preserves : SpecialFn.Preserves (special (fun _ _ => do fault "nested exec"; return none)) := by
  intro mode c name args cis
  apply special_preserves
  intro sig raw
  pres

theorem runScriptCmd_preserves (mode : Mode) (c : Nat) (sig : Sig) (raw : List Bytes) (fromScript : Bool) :
    Pres Sys.DataInv (runScriptCmd mode c sig raw fromScript) := by
  have hbody := scriptBody_preserves _ special_stub_preserves mode c
  unfold runScriptCmd; pres

/-- the nested runner of EXEC (level 0): the direct script runner for a queued script command, the plain runner
(with no further nesting) for every other command -/
theorem runInner_preserves (mode : Mode) (c : Nat) : Inner.Preserves (runInner mode c) := by
  intro sig raw
  refine runInner_cases (P := fun m => Pres Sys.DataInv m) mode c sig raw
    (fun _ => runScriptCmd_preserves mode c sig raw false) (fun _ => ?_)
  apply runWith_preserves
  intro args cis
  exact special_stub_preserves _ _ _ _ _

/-- `_run_command` for a command issued by a client -/
theorem runCommand_preserves (mode : Mode) (c : Nat) (sig : Sig) (raw : List Bytes) (fromScript : Bool) :
    Pres Sys.DataInv (runCommand mode c sig raw fromScript) := by
  unfold runCommand
  split
  · exact runScriptCmd_preserves _ _ _ _ _
  · apply runWith_preserves
    intro args cis
    exact special_preserves _ (runInner_preserves mode c) _ _ _ _ _

/-! ## `_process_command`, the parser loop, the scheduler events -/

theorem cleanupClosed_preserves : Pres Sys.DataInv cleanupClosed := by
  unfold cleanupClosed; pres

/-- `_process_command`, for any request -/
theorem processCommand_preserves (mode : Mode) (c : Nat) (fields : List Bytes) :
    Pres Sys.DataInv (processCommand mode c fields) := by
  have hrun := runCommand_preserves mode c
  have hcl := cleanupClosed_preserves
  unfold processCommand
  pres

/-- the parser loop, whatever the buffer holds -/
theorem drain_preserves (mode : Mode) (c : Nat) (fuel : Nat) : Pres Sys.DataInv (drain mode c fuel) := by
  have hp := processCommand_preserves mode c
  induction fuel with
  | zero => unfold drain; pres
  | succ fuel ih => unfold drain; pres

/-- `sendall` of arbitrary bytes -/
theorem sendall_preserves (mode : Mode) (c : Nat) (data : Bytes) : Pres Sys.DataInv (sendall mode c data) := by
  have h2 := drain_preserves mode c
  unfold sendall; pres

theorem sendallGuarded_preserves (mode : Mode) (c : Nat) (data : Bytes) :
    Pres Sys.DataInv (sendallGuarded mode c data) := by
  have h1 := sendall_preserves mode c data
  unfold sendallGuarded; pres

theorem parkedPass_preserves (c : Nat) (p : Parked) : Pres Sys.DataInv (parkedPass c p) := by
  have h1 := brpoplpushPass_preserves
  have h2 := bpopPass_preserves
  unfold parkedPass
  pres

macro_rules | `(tactic| pres_leaf) => `(tactic| with_reducible exact parkedPass_preserves _ _)

theorem wakeConn_preserves (c : Nat) : Pres Sys.DataInv (wakeConn c) := by
  unfold wakeConn; pres

theorem timeoutConn_preserves (c : Nat) : Pres Sys.DataInv (timeoutConn c) := by
  unfold timeoutConn; pres

theorem wakeConnAsync_preserves (mode : Mode) (c : Nat) : Pres Sys.DataInv (wakeConnAsync mode c) := by
  have h := drain_preserves mode c
  unfold wakeConnAsync; pres

theorem timeoutConnAsync_preserves (mode : Mode) (c : Nat) : Pres Sys.DataInv (timeoutConnAsync mode c) := by
  have h := drain_preserves mode c
  unfold timeoutConnAsync; pres

theorem openConn_preserves (c : Nat) : Pres Sys.DataInv (openConn c) := fun s h => h

theorem closeConn_preserves (c : Nat) : Pres Sys.DataInv (closeConn c) := by
  unfold closeConn; pres

theorem gcConn_preserves (c : Nat) : Pres Sys.DataInv (gcConn c) := fun s h => h

/-! ## Histories -/

/-- the events of a history (those of the replay driver, plus a direct `_process_command` step) -/
inductive Ev where
  /-- choose the emulated server version -/
  | version (v : Nat)
  /-- a new `FakeSocket` -/
  | open (c : Nat)
  /-- `FakeSocket.close()` -/
  | close (c : Nat)
  /-- the connection object is garbage collected -/
  | gc (c : Nat)
  /-- the server is marked (dis)connected -/
  | conn (up : Bool)
  /-- `_process_command` of one parsed request, with the clock readings and random picks it may consume -/
  | request (mode : Mode) (c : Nat) (fields : List Bytes) (clocks : List Int) (picks : List (List Bytes))
  /-- `FakeSocket.sendall(data)` of arbitrary bytes (outage check, parser loop, every complete request) -/
  | send (mode : Mode) (c : Nat) (data : Bytes) (clocks : List Int) (picks : List (List Bytes))
  /-- a connection blocked in BLPOP/BRPOP/BRPOPLPUSH is woken (notified or spuriously) -/
  | wake (c : Nat) (clocks : List Int)
  /-- the wait of a blocked connection times out -/
  | timeout (c : Nat)
  /-- asyncio front-end: the retry task of a parked connection runs -/
  | awake (mode : Mode) (c : Nat) (clocks : List Int) (picks : List (List Bytes))
  /-- asyncio front-end: `async_timeout` fires -/
  | atimeout (mode : Mode) (c : Nat) (clocks : List Int) (picks : List (List Bytes))

/-- a client command: the RESP encoding of `fields` written to the socket -/
def Ev.cmd (mode : Mode) (c : Nat) (fields : List Bytes) (clocks : List Int := []) (picks : List (List Bytes) := []) : Ev :=
  .send mode c (encodeRequest fields) clocks picks

/-- start of an event: the per-event outputs are reset (as the replay driver does) -/
def Sys.beginEvent (s : Sys) : Sys := { s with out := [], fault := none, crashed := none }

/-- load the hints an event may consume -/
def Sys.withHints (s : Sys) (clocks : List Int) (picks : List (List Bytes)) : Sys :=
  { s with clocks := clocks, picks := picks }

/-- one step of a history -/
def stepEv (s : Sys) (e : Ev) : Sys :=
  let s := s.beginEvent
  match e with
  | .version v => { s with srv := { s.srv with version := v } }
  | .open c => (openConn c s).2
  | .close c => (closeConn c s).2
  | .gc c => (gcConn c s).2
  | .conn up => { s with srv := { s.srv with connected := up } }
  | .request mode c fields clocks picks => (processCommand mode c fields (s.withHints clocks picks)).2
  | .send mode c data clocks picks => (sendallGuarded mode c data (s.withHints clocks picks)).2
  | .wake c clocks => (wakeConn c (s.withHints clocks [])).2
  | .timeout c => (timeoutConn c s).2
  | .awake mode c clocks picks => (wakeConnAsync mode c (s.withHints clocks picks)).2
  | .atimeout mode c clocks picks => (timeoutConnAsync mode c (s.withHints clocks picks)).2

/-- the state after a history, from the initial state -/
def runHistory (evs : List Ev) : Sys := evs.foldl stepEv {}

theorem stepEv_preserves (s : Sys) (e : Ev) (h : s.DataInv) : (stepEv s e).DataInv := by
  have h0 : s.beginEvent.DataInv := h
  have hh : ∀ clocks picks, (s.beginEvent.withHints clocks picks).DataInv := fun _ _ => h
  unfold stepEv
  cases e with
  | version v => exact h
  | «open» c => exact openConn_preserves c _ h0
  | close c => exact closeConn_preserves c _ h0
  | gc c => exact gcConn_preserves c _ h0
  | conn up => exact h
  | request mode c fields clocks picks => exact processCommand_preserves mode c fields _ (hh clocks picks)
  | send mode c data clocks picks => exact sendallGuarded_preserves mode c data _ (hh clocks picks)
  | wake c clocks => exact wakeConn_preserves c _ (hh clocks [])
  | timeout c => exact timeoutConn_preserves c _ h0
  | awake mode c clocks picks => exact wakeConnAsync_preserves mode c _ (hh clocks picks)
  | atimeout mode c clocks picks => exact timeoutConnAsync_preserves mode c _ (hh clocks picks)

theorem foldl_stepEv_preserves (evs : List Ev) (s : Sys) (h : s.DataInv) : (evs.foldl stepEv s).DataInv := by
  induction evs generalizing s with
  | nil => exact h
  | cons e es ih => exact ih _ (stepEv_preserves s e h)

end FR
