import FR.Proofs.History
import FR.Proofs.Discipline
import FR.Proofs.AsyncLife
/-!
# WATCH at system level (C06, lifted to all events)

For a fixed connection `c`, database `d`, key `k` the invariant `WInv strict c d k R T` says: `c` is not on the list
of closed sockets and watches `(d, k)`, and either `c.watchNotified` is set or (when `strict` is off) the RAW entry
stored under `k` in database `d` is still the reference entry `R` — possibly lazily deleted when `R` is expired at
every clock reading in `T`; when the readings in `T` cross the deadline of `R` (`¬ NoCross R T`) nothing is claimed
about the entry.  The invariant is pushed through every monadic building block of the model with the `Pres` logic of
`FR/Proofs/History.lean` (tactic `wpres`); the only code that does not preserve it is the code that clears the watches
of `c` (`clearWatches c`, reached through EXEC / DISCARD / UNWATCH of `c`, the clean-up of a closed socket, `gcConn c`).

Side results needed on the way: the special bodies return `CommandItem`s with `expMod → modified`
(`special_sound`, value-level logic `Ret`), SWAPDB only sees valid database indices (`swapdb_args`), every reachable state
has 16 databases (`runHistory_len`).

Everything is in namespace `FR.WatchSys`; the property theorems are in `FR/Props/C06s.lean`.
-/
namespace FR.WatchSys
open FR FR.M FR.Db
set_option linter.unusedSimpArgs false
set_option linter.unusedVariables false

/-! ## raw entries and lazy deletion -/

/-- `Database.expired` at clock reading `t` -/
def expiredAt (t : Int) (it : Item) : Bool := Db.expired ⟨[], t⟩ it

theorem expired_eq (db : Db) (it : Item) : db.expired it = expiredAt db.time it := rfl

/-- the entry seen through lazy expiry at clock reading `t` -/
def liveOf (t : Int) (a : Option Item) : Option Item :=
  match a with
  | none => none
  | some it => if expiredAt t it then none else some it

/-- the raw entry under `k` moved from `a` to `b` by lazy deletion only -/
def RawStep (t : Int) (a b : Option Item) : Prop :=
  b = a ∨ (b = none ∧ ∃ it, a = some it ∧ expiredAt t it = true)

theorem RawStep.refl (t : Int) (a : Option Item) : RawStep t a a := .inl rfl

theorem RawStep.trans {t : Int} {a b c : Option Item} (h1 : RawStep t a b) (h2 : RawStep t b c) : RawStep t a c := by
  rcases h2 with rfl | ⟨rfl, it, hb, he⟩
  · exact h1
  · rcases h1 with rfl | ⟨hb', _⟩
    · exact .inr ⟨rfl, it, hb, he⟩
    · rw [hb'] at hb; cases hb

theorem lookup_of_mem {d : Dict} {k : Bytes} {it : Item} (nd : NodupKeys d) (h : (k, it) ∈ d) :
    d.lookup k = some it := by
  cases hl : d.lookup k with
  | none => exact absurd rfl (lookup_none_iff.1 hl _ h)
  | some it' =>
    have := nodup_unique nd hl _ h rfl
    simp only [Prod.mk.injEq, true_and] at this
    rw [this]

theorem live_eq_liveOf {db : Db} (nd : NodupKeys db.dict) (k : Bytes) :
    db.live k = liveOf db.time (db.dict.lookup k) := by
  unfold Db.live liveOf
  rw [purge_dict, lookup_filter _ k nd]
  cases db.dict.lookup k with
  | none => rfl
  | some it =>
    simp only [expired_eq]
    by_cases he : expiredAt db.time it = true <;> simp [he]

/-- lazy deletions move every raw entry by a `RawStep` -/
theorem rawStep_of_reads {db out : Db} (nd : NodupKeys db.dict) (h : Reads db out) (k : Bytes) :
    RawStep db.time (db.dict.lookup k) (out.dict.lookup k) := by
  cases ho : out.dict.lookup k with
  | some it =>
    left
    exact (lookup_of_mem nd (h.sub _ (lookup_some_mem ho))).symm
  | none =>
    cases hd : db.dict.lookup k with
    | none => exact .inl rfl
    | some it =>
      right
      refine ⟨rfl, it, rfl, ?_⟩
      have h1 : out.live k = db.live k := live_eq_of_purge h.eq k
      have ht : out.time = db.time := by
        have := congrArg Db.time h.eq
        simpa using this
      rw [live_eq_liveOf h.nd, live_eq_liveOf nd, ho, hd, ht] at h1
      simp only [liveOf] at h1
      cases he : expiredAt db.time it with
      | true => rfl
      | false => rw [he] at h1; simp at h1

theorem Reads.purge {db : Db} (nd : NodupKeys db.dict) : Reads db (Db.purge db) :=
  ⟨purge_nodup nd, purge_idem db, fun q hq => (List.mem_filter.1 hq).1⟩

/-! ## raw entries through `writeback` -/

theorem lookup_get_ne (db : Db) {k k' : Bytes} (h : k ≠ k') : (db.get k').1.dict.lookup k = db.dict.lookup k := by
  unfold Db.get
  split
  · rfl
  · split
    · exact lookup_erase_ne h
    · rfl

theorem lookup_pop_ne (db : Db) {k k' : Bytes} (h : k ≠ k') : (db.pop k').dict.lookup k = db.dict.lookup k := by
  rw [pop_eq]; exact lookup_erase_ne h

theorem lookup_put_ne (db : Db) {k k' : Bytes} (v : Value) (e : Option Int) (h : k ≠ k') :
    (db.put k' v e).dict.lookup k = db.dict.lookup k := by
  unfold Db.put
  simp only
  rw [lookup_setRaw_ne _ h, lookup_get_ne db h]

theorem writeback_lookup_ne (c : CI) (db : Db) {k : Bytes} (h : k ≠ c.key) :
    (c.writeback db).1.dict.lookup k = db.dict.lookup k := by
  unfold CI.writeback
  split
  · split
    · exact lookup_pop_ne db h
    · split
      · exact lookup_pop_ne db h
      · exact lookup_put_ne db _ _ h
  · split
    · split
      · rename_i db' it heq
        have : db' = (db.get c.key).1 := by rw [heq]
        subst this
        simp only
        rw [lookup_setRaw_ne _ h, lookup_get_ne db h]
      · rename_i db' heq
        have : db' = (db.get c.key).1 := by rw [heq]
        subst this
        exact lookup_get_ne db h
    · rfl

/-- a key that is not notified keeps its raw entry -/
theorem writebackPure_lookup {cis : List CI} (hs : ∀ c ∈ cis, c.ExpModSound) (db : Db) {k : Bytes}
    (hk : k ∉ (writebackPure db cis).2) : (writebackPure db cis).1.dict.lookup k = db.dict.lookup k := by
  induction cis generalizing db with
  | nil => rfl
  | cons c cs ih =>
    rw [writebackPure_cons] at hk ⊢
    simp only [List.mem_append, not_or] at hk
    rw [ih (fun c' hc' => hs c' (by simp [hc'])) _ hk.2]
    by_cases hm : c.modified = true
    · have : k ≠ c.key := by
        intro e; apply hk.1; simp [hm, e]
      exact writeback_lookup_ne c db this
    · have hm : c.modified = false := by simpa using hm
      have he : c.expMod = false := by
        cases h : c.expMod with
        | false => rfl
        | true => rw [hs c (by simp) h] at hm; cases hm
      rw [CI.writeback_unmodified hm he]

/-- a regular command moves the raw entry of every key it does not notify by lazy deletion only -/
theorem runRegular_raw (sig : Sig) (body : Body) (hb : body.ExpModSound) (ctx : Ctx) (gate : Option Err)
    (raw : List Bytes) {db : Db} (nd : NodupKeys db.dict) {k : Bytes}
    (hk : k ∉ (runRegular sig body ctx gate raw db).notified) :
    RawStep db.time (db.dict.lookup k) ((runRegular sig body ctx gate raw db).db.dict.lookup k) := by
  rw [runRegular_eq] at hk ⊢
  have hr := Sig.apply_reads sig raw nd
  have hc := fun args cis => Sig.apply_clean sig raw db (args := args) (cis := cis)
  revert hr hc hk
  generalize sig.apply raw db = r
  obtain ⟨db1, x⟩ := r
  simp only
  intro hk hr hc
  have h1 := rawStep_of_reads nd hr k
  cases x with
  | error e => exact h1
  | ok ap =>
    cases ap with
    | short r => exact h1
    | ok args cis =>
      cases gate with
      | some e => exact h1
      | none =>
        simp only [runTail] at hk ⊢
        cases hbd : body ctx args cis with
        | error e =>
          simp only
          rw [writebackPure_clean (hc args cis rfl)]
          exact h1
        | ok o =>
          rw [hbd] at hk
          simp only at hk ⊢
          rw [writebackPure_lookup (hb ctx args cis o (hc args cis rfl) hbd) _ hk]
          exact h1


/-! ## the invariant -/

/-- the raw entry under `k` in database `d` -/
def rawAt (s : Sys) (d : Nat) (k : Bytes) : Option Item := (s.dbAt d).dict.lookup k

/-- the reference entry is expired at every clock reading in `T` -/
def DeadAll (R : Option Item) (T : Int → Prop) : Prop := ∀ it, R = some it → ∀ t, T t → expiredAt t it = true

/-- no two clock readings in `T` lie on different sides of the deadline of the reference entry -/
def NoCross (R : Option Item) (T : Int → Prop) : Prop :=
  ∀ it, R = some it → ∀ t t', T t → T t' → expiredAt t it = true → expiredAt t' it = true

/-- the raw entry is the reference entry, or the (dead) reference entry was lazily deleted; when the clock
readings in `T` do cross the deadline of `R` nothing is claimed -/
def RawOK (R : Option Item) (T : Int → Prop) (a : Option Item) : Prop :=
  a = R ∨ (a = none ∧ DeadAll R T) ∨ ¬ NoCross R T

theorem RawOK.step {R : Option Item} {T : Int → Prop} {t : Int} {a b : Option Item} (ht : T t)
    (h : RawOK R T a) (st : RawStep t a b) : RawOK R T b := by
  by_cases nc : NoCross R T
  · rcases st with rfl | ⟨rfl, it, ha, he⟩
    · exact h
    · rcases h with rfl | ⟨ha', _⟩ | hnc
      · exact .inr (.inl ⟨rfl, fun it' hit t' ht' => by
          rw [ha] at hit; cases hit; exact nc it ha t t' ht ht' he⟩)
      · rw [ha'] at ha; cases ha
      · exact absurd nc hnc
  · exact .inr (.inr nc)

/-- under `NoCross`, what lazy expiry shows of an OK raw entry at any reading in `T` is what it shows of `R` -/
theorem RawOK.liveOf {R : Option Item} {T : Int → Prop} {t : Int} {a : Option Item} (nc : NoCross R T) (ht : T t)
    (h : RawOK R T a) : liveOf t a = liveOf t R := by
  rcases h with rfl | ⟨rfl, hd⟩ | hnc
  · rfl
  · cases R with
    | none => rfl
    | some it => simp only [WatchSys.liveOf, hd it rfl t ht, if_true]
  · exact absurd nc hnc

/-- The invariant.  `strict` switches off the "raw entry unchanged" alternative (then the invariant is:
`c` watches `(d,k)` and its flag is set). -/
structure WInv (strict : Prop) (c d : Nat) (k : Bytes) (R : Option Item) (T : Int → Prop) (u : Sys) : Prop where
  data : u.DataInv
  len : u.srv.dbs.length = 16
  time : T u.srv.time
  clocks : ∀ t ∈ u.clocks, T t
  opened : c ∉ u.srv.closedSockets
  watching : (d, k) ∈ (u.conn c).watches
  ok : (u.conn c).watchNotified = true ∨ (¬ strict ∧ RawOK R T (rawAt u d k))

section
variable {strict : Prop} {c d : Nat} {k : Bytes} {R : Option Item} {T : Int → Prop}

local notation "WI" => WInv strict c d k R T

theorem rawAt_congr {u u' : Sys} (h : u'.srv.dbs = u.srv.dbs) (d : Nat) (k : Bytes) : rawAt u' d k = rawAt u d k := by
  unfold rawAt Sys.dbAt; rw [h]

theorem rawAt_setDbS (s : Sys) (i : Nat) (db : Db) (d : Nat) (k : Bytes) :
    rawAt (s.setDbS i db) d k = if i = d ∧ d < s.srv.dbs.length then db.dict.lookup k else rawAt s d k := by
  unfold rawAt Sys.dbAt Sys.setDbS
  simp only
  by_cases hi : i = d
  · subst hi
    by_cases hl : i < s.srv.dbs.length
    · rw [getD_set_self _ _ _ _ hl]; simp [hl]
    · have : s.srv.dbs.set i db.dict = s.srv.dbs := List.set_eq_of_length_le (by omega)
      rw [this]; simp [hl]
  · rw [getD_set_ne _ _ _ _ _ (Ne.symm hi)]; simp [hi]

/-- the part of the invariant that looks at the connection record -/
def ConnOK (d : Nat) (k : Bytes) (P : Prop) (x : Conn) : Prop := (d, k) ∈ x.watches ∧ (x.watchNotified = true ∨ P)

theorem WInv.connOK {u : Sys} (h : WI u) : ConnOK d k (¬ strict ∧ RawOK R T (rawAt u d k)) (u.conn c) :=
  ⟨h.watching, h.ok⟩

/-- rebuild the invariant in a state whose relevant projections are related to those of `u` -/
theorem WInv.mk' {u u' : Sys} (h : WI u) (hd : u'.DataInv) (hl : u'.srv.dbs.length = u.srv.dbs.length)
    (ht : u'.srv.time = u.srv.time)
    (hc : ∀ t ∈ u'.clocks, t ∈ u.clocks) (ho : u'.srv.closedSockets = u.srv.closedSockets)
    (hx : ConnOK d k (¬ strict ∧ RawOK R T (rawAt u' d k)) (u'.conn c)) : WI u' :=
  ⟨hd, hl ▸ h.len, ht ▸ h.time, fun t ht' => h.clocks t (hc t ht'), ho ▸ h.opened, hx.1, hx.2⟩

/-- nothing relevant changed -/
theorem WInv.frame {u u' : Sys} (h : WI u) (h1 : u'.srv.dbs = u.srv.dbs) (h2 : u'.srv.time = u.srv.time)
    (h3 : u'.clocks = u.clocks) (h4 : u'.srv.closedSockets = u.srv.closedSockets)
    (h5 : u'.srv.conns = u.srv.conns) : WI u' := by
  refine h.mk' (h.data.frame h1) (by rw [h1]) h2 (fun t ht => h3 ▸ ht) h4 ?_
  have : u'.conn c = u.conn c := by simp only [Sys.conn_def, h5]
  rw [this, rawAt_congr h1]
  exact h.connOK

theorem good_of_reads {a b : Db} (hg : Good a.dict) (hr : Reads a b) : Good b.dict :=
  ⟨hr.nd, fun q hq => hg.2 q (hr.sub q hq)⟩

/-- storing a database: the raw entry under `(d,k)` must have moved by lazy deletion only, unless `c` is notified -/
theorem WInv.setDbS {s : Sys} (h : WI s) (i : Nat) {db : Db} (hg : Good db.dict)
    (hr : i = d → (s.conn c).watchNotified = true ∨ RawStep s.srv.time (rawAt s d k) (db.dict.lookup k)) :
    WI (s.setDbS i db) := by
  refine h.mk' (h.data.setDbS i hg) (Sys.setDbS_len _ _ _) rfl (fun t ht => ht) rfl ?_
  refine ⟨h.watching, ?_⟩
  show (s.conn c).watchNotified = true ∨ _
  rcases h.ok with hn | ⟨hs, hk⟩
  · exact .inl hn
  · rw [rawAt_setDbS]
    split
    · rename_i hc
      rcases hr hc.1 with hn | st
      · exact .inl hn
      · exact .inr ⟨hs, hk.step h.time st⟩
    · exact .inr ⟨hs, hk⟩

theorem WInv.setDbS_reads {s : Sys} (h : WI s) (i : Nat) {db : Db} (hr : Reads (s.dbAt i) db) : WI (s.setDbS i db) := by
  refine h.setDbS i (good_of_reads (h.data.dbAt i) hr) (fun hi => .inr ?_)
  subst hi
  exact rawStep_of_reads (h.data.dbAt i).1 hr k

/-- a map over the connection records that keeps `ConnOK` -/
theorem WInv.mapConns {s : Sys} (h : WI s) (g : Conn → Conn) (hid : ∀ x, (g x).id = x.id)
    (hg : ∀ P x, ConnOK d k P x → ConnOK d k P (g x)) : WI (s.mapConns g) := by
  refine h.mk' h.data rfl rfl (fun t ht => ht) rfl ?_
  have := Sys.conn_mapConns_pred s g c (ConnOK d k (¬ strict ∧ RawOK R T (rawAt s d k))) hid (hg _) h.connOK
  exact this

theorem notifyFn_connOK (d' : Nat) (k' : Bytes) (P : Prop) (x : Conn) (h : ConnOK d k P x) :
    ConnOK d k P (notifyFn d' k' x) := by
  rw [notifyFn_eq]
  refine ⟨h.1, ?_⟩
  rcases h.2 with hn | hp
  · left; simp [hn]
  · exact .inr hp

theorem notifyFn_notified (x : Conn) (h : (d, k) ∈ x.watches) : (notifyFn d k x).watchNotified = true := by
  rw [notifyFn_eq]
  have : x.watches.contains (d, k) = true := List.contains_iff_mem.2 h
  simp [this, h]

theorem WInv.notify {s : Sys} (h : WI s) (d' : Nat) (k' : Bytes) : WI (s.mapConns (notifyFn d' k')) :=
  h.mapConns _ (notifyFn_id d' k') (notifyFn_connOK d' k')

theorem WInv.updConn {s : Sys} (h : WI s) (c' : Nat) (f : Conn → Conn) (hid : ∀ x, (f x).id = x.id)
    (hw : ∀ x, (d, k) ∈ x.watches → (d, k) ∈ (f x).watches)
    (hn : ∀ x, x.watchNotified = true → (f x).watchNotified = true) : WI (s.updConn c' f) := by
  rw [Sys.updConn_eq_mapConns]
  refine h.mapConns _ (fun x => by split <;> simp [hid]) (fun P x hx => ?_)
  split
  · exact ⟨hw x hx.1, hx.2.imp (hn x) id⟩
  · exact hx

theorem WInv.updConn_ne {s : Sys} (h : WI s) {c' : Nat} (hne : c' ≠ c) (f : Conn → Conn) (hid : ∀ x, (f x).id = x.id) :
    WI (s.updConn c' f) := by
  refine h.mk' h.data rfl rfl (fun t ht => ht) rfl ?_
  rw [Sys.conn_updConn_ne f (Ne.symm hne) hid]
  exact h.connOK

/-- one `CommandItem` written back (with its `notify_watch`) -/
theorem WInv.wbStep {s : Sys} (h : WI s) (d' : Nat) {ci : CI} (hs : ci.ExpModSound) : WI (s.wbStep d' ci) := by
  unfold Sys.wbStep
  simp only
  by_cases hm : ci.modified = true
  · rw [if_pos hm]
    have hg : Good (ci.writeback (s.dbAt d')).1.dict := (h.data.dbAt d').writeback ci
    refine h.mk' (h.data.setDbS d' hg) (Sys.setDbS_len _ _ _) rfl (fun t ht => ht) rfl ?_
    · have hc : ((s.setDbS d' (ci.writeback (s.dbAt d')).1).mapConns (notifyFn d' ci.key)).conn c
          = notifyFn d' ci.key (s.conn c) :=
        Sys.conn_mapConns _ _ c (notifyFn_id d' ci.key) (notifyFn_default d' ci.key c)
      rw [hc]
      by_cases hk : d' = d ∧ ci.key = k
      · obtain ⟨rfl, rfl⟩ := hk
        exact ⟨(notifyFn_connOK _ _ _ _ h.connOK).1, .inl (notifyFn_notified _ h.watching)⟩
      · have hraw : rawAt ((s.setDbS d' (ci.writeback (s.dbAt d')).1).mapConns (notifyFn d' ci.key)) d k
            = rawAt s d k := by
          rw [rawAt_congr (Sys.mapConns_dbs _ _), rawAt_setDbS]
          split
          · rename_i hc'
            obtain ⟨rfl, _⟩ := hc'
            have : k ≠ ci.key := fun e => hk ⟨rfl, e.symm⟩
            exact writeback_lookup_ne ci _ this
          · rfl
        rw [hraw]
        exact notifyFn_connOK _ _ _ _ h.connOK
  · have hm : ci.modified = false := by simpa using hm
    have he : ci.expMod = false := by
      cases hh : ci.expMod with
      | false => rfl
      | true => rw [hs hh] at hm; cases hm
    rw [if_neg (by simp [hm]), CI.writeback_unmodified hm he, Sys.setDbS_self]
    exact h

theorem WInv.writebackAll {s : Sys} (h : WI s) (d' : Nat) {cis : List CI} (hs : CIs.Sound cis) :
    WI (writebackAll d' cis s).2 := by
  induction cis generalizing s with
  | nil => exact h
  | cons ci cis ih =>
    rw [writebackAll_cons]
    exact ih (h.wbStep d' (hs ci (by simp))) (fun c hc => hs c (by simp [hc]))


/-! ## the monadic primitives -/

theorem okR_wi (r : Reply) (cis : List CI) : Pres WI (okR r cis) := fun _ h => h
theorem wi_pure {α : Type} (a : α) : Pres WI (Pure.pure a : M α) := fun _ h => h
theorem wi_getConn (c' : Nat) : Pres WI (getConn c') := fun _ h => h
theorem wi_get : Pres WI (get : M Sys) := fun _ h => h
theorem wi_getDb (i : Nat) : Pres WI (getDb i) := fun _ h => h

theorem emitS_clocks (s : Sys) (c' : Nat) (r : Reply) : (s.emitS c' r).clocks = s.clocks := by
  unfold Sys.emitS; split <;> rfl

theorem wi_emit (c' : Nat) (r : Reply) : Pres WI (emit c' r) := by
  intro s h
  rw [emit_run]
  exact h.frame (by rw [Sys.emitS_srv]) (by rw [Sys.emitS_srv]) (emitS_clocks s c' r) (by rw [Sys.emitS_srv])
    (by rw [Sys.emitS_srv])

theorem wi_fault (msg : String) : Pres WI (M.fault msg) := by
  intro s h
  show WI (if s.fault.isNone then { s with fault := some msg } else s)
  split
  · exact h.frame rfl rfl rfl rfl rfl
  · exact h

theorem wi_nextClock : Pres WI nextClock := by
  intro s h
  refine h.mk' (h.data.frame (by rw [nextClock_srv])) (by rw [nextClock_srv]) (by rw [nextClock_srv]) ?_
    (by rw [nextClock_srv]) ?_
  · rw [nextClock_run]
    split
    · rename_i t rest heq
      intro t' ht'
      rw [heq]; exact List.mem_cons_of_mem _ ht'
    · simp only; split <;> exact fun t ht => ht
  · have : (nextClock s).2.conn c = s.conn c := by simp only [Sys.conn_def, nextClock_srv]
    rw [this, rawAt_congr (u := s) (u' := (nextClock s).2) (by rw [nextClock_srv])]
    exact h.connOK

/-- the value `nextClock` returns is a reading in `T` -/
theorem nextClock_T {s : Sys} (h : WI s) : T (nextClock s).1 := by
  rw [nextClock_run]
  split
  · rename_i t rest heq
    exact h.clocks t (by rw [heq]; simp)
  · exact h.time

/-- a `modify` that does not touch the relevant projections -/
theorem wi_modify (g : Sys → Sys)
    (hg : ∀ s, (g s).srv.dbs = s.srv.dbs ∧ (g s).srv.time = s.srv.time ∧ (g s).clocks = s.clocks ∧
      (g s).srv.closedSockets = s.srv.closedSockets ∧ (g s).srv.conns = s.srv.conns) : Pres WI (modify g) :=
  fun s h => h.frame (hg s).1 (hg s).2.1 (hg s).2.2.1 (hg s).2.2.2.1 (hg s).2.2.2.2

theorem wi_at_set {s s' : Sys} {β : Type} {g : PUnit → M β} (h : WI s) (h1 : s'.srv.dbs = s.srv.dbs)
    (h2 : s'.srv.time = s.srv.time) (h3 : s'.clocks = s.clocks) (h4 : s'.srv.closedSockets = s.srv.closedSockets)
    (h5 : s'.srv.conns = s.srv.conns) (hg : Pres WI (g ⟨⟩)) : PresAt WI s (set s' >>= g) :=
  hg s' (h.frame h1 h2 h3 h4 h5)

theorem wi_modifyConn (c' : Nat) (f : Conn → Conn) (hid : ∀ x, (f x).id = x.id)
    (hw : ∀ x, (d, k) ∈ x.watches → (d, k) ∈ (f x).watches)
    (hn : ∀ x, x.watchNotified = true → (f x).watchNotified = true) : Pres WI (modifyConn c' f) :=
  fun s h => h.updConn c' f hid hw hn

theorem wi_modifyConn_ne {c' : Nat} (hne : c' ≠ c) (f : Conn → Conn) (hid : ∀ x, (f x).id = x.id) :
    Pres WI (modifyConn c' f) := fun s h => h.updConn_ne hne f hid

theorem wi_clearWatches {c' : Nat} (hne : c' ≠ c) : Pres WI (clearWatches c') :=
  wi_modifyConn_ne hne _ (fun _ => rfl)

theorem wi_notifyWatch (d' : Nat) (k' : Bytes) : Pres WI (notifyWatch d' k') := fun s h => h.notify d' k'

theorem wi_writebackAll (d' : Nat) {cis : List CI} (hs : CIs.Sound cis) : Pres WI (writebackAll d' cis) :=
  fun s h => h.writebackAll d' hs

/-- `getDb` hands the continuation the database of the current state -/
theorem wi_getDb_bind {β : Type} (i : Nat) {f : Db → M β} (hf : ∀ s, WI s → PresAt WI s (f (s.dbAt i))) :
    Pres WI (getDb i >>= f) := fun s h => hf s h

/-- storing what lazy deletions left of the database just read -/
theorem wi_at_setDb_bind {β : Type} {s : Sys} {i : Nat} {db : Db} {g : PUnit → M β} (h : WI s)
    (hr : Reads (s.dbAt i) db) (hg : Pres WI (g ⟨⟩)) : PresAt WI s (setDb i db >>= g) :=
  hg _ (h.setDbS_reads i hr)

theorem wi_at_setDb {s : Sys} {i : Nat} {db : Db} (h : WI s) (hr : Reads (s.dbAt i) db) :
    PresAt WI s (setDb i db) := h.setDbS_reads i hr

theorem wi_liveKeys (d' : Nat) : Pres WI (liveKeys d') := by
  intro s h
  exact h.setDbS_reads d' (Reads.purge (h.data.dbAt d').1)

/-! ### store, then notify -/

theorem forM_notify_clocks (d' : Nat) (ks : List Bytes) (s : Sys) : (ks.forM (notifyWatch d') s).2.clocks = s.clocks :=
  forM_notifyWatch_frame (fun s => s.clocks) (fun _ _ => rfl) d' ks s

theorem forM_notify_srv (d' : Nat) (ks : List Bytes) (s : Sys) :
    (ks.forM (notifyWatch d') s).2.srv.dbs = s.srv.dbs ∧ (ks.forM (notifyWatch d') s).2.srv.time = s.srv.time ∧
    (ks.forM (notifyWatch d') s).2.srv.closedSockets = s.srv.closedSockets :=
  ⟨forM_notifyWatch_frame (fun s => s.srv.dbs) (fun _ _ => rfl) d' ks s,
   forM_notifyWatch_frame (fun s => s.srv.time) (fun _ _ => rfl) d' ks s,
   forM_notifyWatch_frame (fun s => s.srv.closedSockets) (fun _ _ => rfl) d' ks s⟩

/-- a notification for a watched key sets the flag, and later notifications keep it -/
theorem forM_notify_notified (ks : List Bytes) (s : Sys) (hw : (d, k) ∈ (s.conn c).watches) (hk : k ∈ ks) :
    ((ks.forM (notifyWatch d) s).2.conn c).watchNotified = true := by
  induction ks generalizing s with
  | nil => cases hk
  | cons a as ih =>
    rw [forM_cons_eq]
    simp only [bind, StateT.bind, notifyWatch_run]
    have hc : (s.mapConns (notifyFn d a)).conn c = notifyFn d a (s.conn c) :=
      Sys.conn_mapConns s _ c (notifyFn_id d a) (notifyFn_default d a c)
    rcases List.mem_cons.1 hk with rfl | hk
    · apply forM_notifyWatch_pred (fun x => x.watchNotified = true)
      · intro d' key x hx; rw [notifyFn_eq]; simp [hx]
      · rw [hc]; exact notifyFn_notified _ hw
    · apply ih _ _ hk
      rw [hc, notifyFn_eq]; exact hw

/-- a state `s1` that differs from `s` in database `d'` (now `db`) and in irrelevant fields, followed by the
notifications `ks` on `d'`: fine when `k` is among them or its raw entry moved by lazy deletion only -/
theorem WInv.store_notify {s s1 : Sys} (h : WI s) (d' : Nat) (db : Db) (ks : List Bytes)
    (h1 : s1.srv.dbs = s.srv.dbs.set d' db.dict) (h2 : s1.srv.time = s.srv.time) (h3 : s1.clocks = s.clocks)
    (h4 : s1.srv.closedSockets = s.srv.closedSockets) (h5 : s1.srv.conns = s.srv.conns) (hg : Good db.dict)
    (hr : d' = d → k ∈ ks ∨ RawStep s.srv.time (rawAt s d k) (db.dict.lookup k)) :
    WI (ks.forM (notifyWatch d') s1).2 := by
  have hc1 : s1.conn c = s.conn c := by simp only [Sys.conn_def, h5]
  have hdb : (ks.forM (notifyWatch d') s1).2.srv.dbs = (s.setDbS d' db).srv.dbs := by
    rw [(forM_notify_srv d' ks s1).1, h1]; rfl
  have hQ := forM_notifyWatch_pred (ConnOK d k (¬ strict ∧ RawOK R T (rawAt s d k)))
    (fun d'' key x hx => notifyFn_connOK d'' key _ x hx) d' ks c s1 (by rw [hc1]; exact h.connOK)
  refine h.mk' ?_ ?_ ?_ ?_ ?_ ⟨hQ.1, ?_⟩
  · exact (h.data.setDbS d' hg).frame hdb
  · rw [hdb]; exact Sys.setDbS_len _ _ _
  · rw [(forM_notify_srv d' ks s1).2.1, h2]
  · rw [forM_notify_clocks, h3]; exact fun t ht => ht
  · rw [(forM_notify_srv d' ks s1).2.2, h4]
  · rcases hQ.2 with hn | ⟨hs, hk⟩
    · exact .inl hn
    · rw [rawAt_congr hdb, rawAt_setDbS]
      split
      · rename_i hc'
        obtain ⟨rfl, _⟩ := hc'
        rcases hr rfl with hmem | st
        · exact .inl (forM_notify_notified ks s1 (by rw [hc1]; exact h.watching) hmem)
        · exact .inr ⟨hs, hk.step h.time st⟩
      · exact .inr ⟨hs, hk⟩

theorem lookup_none_of_not_mem_keys {dct : Dict} {k : Bytes} (h : k ∉ dct.map Prod.fst) : dct.lookup k = none := by
  rw [lookup_none_iff]
  intro q hq e
  exact h (List.mem_map.2 ⟨q, hq, e⟩)

/-- `Database.clear`: every live key is notified first -/
theorem wi_clearDb (d' : Nat) : Pres WI (clearDb d') := by
  intro s h
  have hs1 : WI (s.setDbS d' (Db.purge (s.dbAt d'))) := h.setDbS_reads d' (Reads.purge (h.data.dbAt d').1)
  show WI (((((Db.purge (s.dbAt d')).dict.map Prod.fst).forM (notifyWatch d')
    (s.setDbS d' (Db.purge (s.dbAt d')))).2).setDbS d' ⟨[], 0⟩)
  generalize hks : (Db.purge (s.dbAt d')).dict.map Prod.fst = ks
  generalize hs1e : s.setDbS d' (Db.purge (s.dbAt d')) = s1 at hs1
  have hs2 : WI (ks.forM (notifyWatch d') s1).2 := Pres.forM (fun key => wi_notifyWatch d' key) s1 hs1
  refine hs2.setDbS d' good_nil (fun hd => ?_)
  subst hd
  by_cases hk : k ∈ ks
  · exact .inl (forM_notify_notified ks s1 hs1.watching hk)
  · right
    have : rawAt (ks.forM (notifyWatch d') s1).2 d' k = none := by
      rw [rawAt_congr (forM_notify_srv d' ks s1).1, ← hs1e, rawAt_setDbS]
      split
      · apply lookup_none_of_not_mem_keys; rw [hks]; exact hk
      · rename_i hc'
        have : s.srv.dbs.length ≤ d' := by
          have := fun hl => hc' ⟨rfl, hl⟩
          omega
        unfold rawAt; rw [Sys.dbAt_out_of_range s d' this]; rfl
    rw [this]; exact .inl rfl

/-! ## automation -/

/-- side conditions `CIs.Sound cis` -/
syntax "wi_sound" : tactic
macro_rules | `(tactic| wi_sound) => `(tactic| first
  | assumption
  | exact CIs.Sound.of_clean (Sig.apply_clean _ _ _ ‹_›)
  | (intro c hc
     simp only [List.mem_cons, List.mem_singleton, List.not_mem_nil, or_false] at hc
     rcases hc with hc | hc <;> (rw [hc]; first | exact CI.mk_modified_sound _ _ _ _ | exact CI.setValue_sound _ _))
  | (intro c hc
     simp only [List.mem_cons, List.mem_singleton, List.not_mem_nil, or_false] at hc
     rw [hc]
     first | exact CI.mk_modified_sound _ _ _ _ | exact CI.setValue_sound _ _))

syntax "wi_reads" : tactic
macro_rules | `(tactic| wi_reads) => `(tactic| first
  | exact Reads.get' ((WInv.data ‹_›).dbAt _).1 ‹_›
  | exact Reads.get ((WInv.data ‹_›).dbAt _).1 _)

syntax "wi_leaf" : tactic
macro_rules | `(tactic| wi_leaf) => `(tactic| first
  | with_reducible exact wi_pure _
  | with_reducible exact wi_getConn _
  | with_reducible exact wi_emit _ _
  | with_reducible exact wi_fault _
  | with_reducible exact wi_nextClock
  | with_reducible exact wi_notifyWatch _ _
  | with_reducible exact wi_liveKeys _
  | with_reducible exact wi_clearDb _
  | with_reducible exact wi_getDb _
  | with_reducible exact okR_wi _ _
  | with_reducible exact wi_get
  | ((with_reducible refine wi_writebackAll _ ?_); wi_sound)
  | ((with_reducible refine wi_modifyConn _ _ ?_ ?_ ?_) <;> (intro _; first | rfl | exact id))
  | ((with_reducible refine wi_modifyConn_ne ‹_ ≠ _› _ ?_); intro _; rfl)
  | (with_reducible exact wi_clearWatches ‹_ ≠ _›)
  | ((with_reducible refine wi_modify _ ?_); intro _; first | exact ⟨rfl, rfl, rfl, rfl, rfl⟩ | (split <;> exact ⟨rfl, rfl, rfl, rfl, rfl⟩))
  | with_reducible assumption
  | pres_hyp)

syntax "wi_step" : tactic
macro_rules | `(tactic| wi_step) => `(tactic| first
  | wi_leaf
  | ((with_reducible refine wi_at_setDb_bind ‹_› ?_ ?_); wi_reads)
  | ((with_reducible refine wi_at_setDb ‹_› ?_); wi_reads)
  | ((with_reducible refine wi_at_set ‹_› rfl rfl rfl rfl rfl ?_))
  | ((with_reducible refine wi_getDb_bind _ (fun s hs => ?_)); try dsimp only)
  | (with_reducible refine Pres.get_bind (fun s hs => ?_))
  | (with_reducible refine Pres.bind ?_ (fun _ => ?_))
  | (with_reducible refine Pres.forM (fun _ => ?_))
  | (with_reducible refine Pres.forIn (fun _ _ => ?_) _)
  | (with_reducible refine Pres.mapM (fun _ => ?_))
  | (with_reducible refine Pres.map _ ?_)
  | split
  | (with_reducible refine Pres.at_of_pres ?_ ‹_›)
  | (simp only []))

/-- structural descent through a `do` block -/
syntax "wpres" : tactic
macro_rules | `(tactic| wpres) => `(tactic| repeat' wi_step)

end


/-! ## the special bodies, one lemma each -/

section
variable {strict : Prop} {c d : Nat} {k : Bytes} {R : Option Item} {T : Int → Prop}
local notation "WI" => WInv strict c d k R T

theorem selectCmd_wi (c' : Nat) (args : List Arg) (cis : List CI) : Pres WI (selectCmd c' args cis) := by
  unfold selectCmd; wpres

theorem randomkeyCmd_wi (d' : Nat) (cis : List CI) : Pres WI (randomkeyCmd d' cis) := by
  unfold randomkeyCmd okR; wpres

theorem scanCmd_wi (d' : Nat) (args : List Arg) (cis : List CI) : Pres WI (scanCmd d' args cis) := by
  unfold scanCmd; wpres

theorem multiCmd_wi (c' : Nat) (cis : List CI) : Pres WI (multiCmd c' cis) := by
  unfold multiCmd; wpres

theorem discardCmd_wi {c' : Nat} (hne : c' ≠ c) (cis : List CI) : Pres WI (discardCmd c' cis) := by
  unfold discardCmd; wpres

theorem subscribeGen_wi (c' : Nat) (pattern : Bool) (names : List Bytes) :
    Pres WI (subscribeGen c' pattern names) := by
  unfold subscribeGen; wpres

theorem unsubscribeGen_wi (c' : Nat) (pattern : Bool) (names : List Bytes) :
    Pres WI (unsubscribeGen c' pattern names) := by
  unfold unsubscribeGen; wpres

theorem publish_wi (ch msg : Bytes) : Pres WI (publish ch msg) := by
  unfold publish; wpres

theorem bpopPass_wi (d' : Nat) (left first : Bool) (keys : List Bytes) :
    Pres WI (bpopPass d' left first keys) := by
  induction keys with
  | nil => unfold bpopPass; wpres
  | cons k rest ih => unfold bpopPass; wpres

theorem brpoplpushPass_wi (d' : Nat) (src dst : Bytes) (first : Bool) :
    Pres WI (brpoplpushPass d' src dst first) := by
  unfold brpoplpushPass; wpres

theorem lookupKey_wi (d' : Nat) (key pattern : Bytes) : Pres WI (lookupKey d' key pattern) := by
  unfold lookupKey; wpres


theorem foldl_watch_mem (d' : Nat) (ks : List Bytes) (w : List (Nat × Bytes)) (p : Nat × Bytes) (h : p ∈ w) :
    p ∈ ks.foldl (fun w key => if w.contains (d', key) then w else w ++ [(d', key)]) w := by
  induction ks generalizing w with
  | nil => exact h
  | cons a as ih =>
    simp only [List.foldl_cons]
    apply ih
    split
    · exact h
    · exact List.mem_append_left _ h

theorem watchCmd_wi (c' d' : Nat) (args : List Arg) (cis : List CI) : Pres WI (watchCmd c' d' args cis) := by
  unfold watchCmd
  refine Pres.bind (wi_getConn _) (fun conn => ?_)
  split
  · wpres
  · exact Pres.bind (wi_modifyConn _ _ (fun _ => rfl) (fun x hx => foldl_watch_mem _ _ _ _ hx) (fun _ => id))
      (fun _ => okR_wi _ _)

/-- the nested runner preserves the invariant for every signature of the table -/
def InnerOK (strict : Prop) (c d : Nat) (k : Bytes) (R : Option Item) (T : Int → Prop) (inner : Inner) : Prop :=
  ∀ (sig : Sig) (raw : List Bytes) (n : String), SigTable.find n = some sig → Pres (WInv strict c d k R T) (inner sig raw)

theorem runQueue_wi (inner : Inner) (hinner : InnerOK strict c d k R T inner) (c' : Nat)
    (q : List (String × List Bytes)) : Pres WI (runQueue inner c' q) := by
  induction q with
  | nil => unfold runQueue; wpres
  | cons a rest ih =>
    rw [runQueue_cons]
    refine Pres.bind ?_ (fun _ => Pres.bind ih (fun _ => wi_pure _))
    unfold queueStep
    split
    · wpres
    · rename_i sig heq
      have := hinner sig a.2 a.1 heq
      wpres

theorem execCmd_wi (inner : Inner) (hinner : InnerOK strict c d k R T inner) {c' : Nat} (hne : c' ≠ c)
    (cis : List CI) : Pres WI (execCmd inner c' cis) := by
  have hq := runQueue_wi inner hinner c'
  unfold execCmd
  wpres

theorem blocking_wi (c' : Nat) (park : Bool) (kind : String) (keys : List Bytes) (timeout : Int)
    (pass : Bool → M (Except Err (Option Reply))) (hpass : ∀ first, Pres WI (pass first)) :
    Pres WI (blocking c' park kind keys timeout pass) := by
  have h1 := hpass true
  unfold blocking; wpres

theorem blockingAsync_wi (c' : Nat) (kind : String) (keys : List Bytes)
    (pass : Bool → M (Except Err (Option Reply))) (hpass : ∀ first, Pres WI (pass first)) :
    Pres WI (blockingAsync c' kind keys pass) := by
  have h1 := hpass true
  unfold blockingAsync; wpres

theorem scriptCmd_wi (inner : Inner) (c' : Nat) (name : String) (args : List Arg) (cis : List CI) :
    Pres WI (scriptCmd inner c' name args cis) := by
  unfold scriptCmd; wpres

macro_rules | `(tactic| wi_leaf) => `(tactic| with_reducible exact lookupKey_wi _ _ _)

theorem sortCmd_wi (c' d' : Nat) (args : List Arg) (cis : List CI) : Pres WI (sortCmd c' d' args cis) := by
  unfold sortCmd
  split
  · extract_lets key wrong out x keyed err le jp
    split
    · wpres
    · have hjp : ∀ x, Pres WI (jp x) := by
        intro items?
        simp -zeta only [jp]
        split
        · wpres
        · split
          · wpres
          · extract_lets n start stop stop' gets sortby jp2
            have hjp2 : ∀ x, Pres WI (jp2 x) := by
              intro sorted?
              simp -zeta only [jp2]
              wpres
            clear_value jp2
            wpres
      clear_value jp
      simp only []
      split
      · wpres
      · wpres
      · wpres
      · refine Pres.get_bind (fun st hs => ?_)
        split
        · split
          · exact wi_at_set hs rfl rfl rfl rfl rfl (by wpres)
          · refine Pres.at_of_pres ?_ hs; wpres
        · refine Pres.at_of_pres ?_ hs; wpres
      · wpres
  · wpres

theorem zunioninter_wi (u : Bool) (d' : Nat) (args : List Arg) (cis : List CI) :
    Pres WI (zunioninter u d' args cis) := by
  unfold zunioninter
  split
  · wpres
    all_goals
      refine Pres.loop_pure (fun b => b.2.2.2.2) _ (fun b => ?_) _
      repeat' split
      all_goals
        refine ⟨_, rfl, fun b' h => ?_⟩
        first
          | (cases h; done)
          | (have h := ForInStep.yield.inj h; subst h; simp_all <;> omega)
  · wpres

end

/-! ## MOVE and SWAPDB -/

section
variable {strict : Prop} {c d : Nat} {k : Bytes} {R : Option Item} {T : Int → Prop}
local notation "WI" => WInv strict c d k R T

/-- store an entry under `key` in database `d'`, then notify `key` -/
theorem WInv.setRaw_notify {s : Sys} (h : WI s) (d' : Nat) (key : Bytes) {it : Item}
    (hit : it.value.isEmptyColl = false) :
    WI (notifyWatch d' key (s.setDbS d' { s.dbAt d' with dict := Db.setRaw (s.dbAt d').dict key it })).2 := by
  have := h.store_notify (s1 := s.setDbS d' { s.dbAt d' with dict := Db.setRaw (s.dbAt d').dict key it })
    d' { s.dbAt d' with dict := Db.setRaw (s.dbAt d').dict key it } [key] rfl rfl rfl rfl rfl
    ((h.data.dbAt d').setRaw key hit) (fun hd => by
      subst hd
      by_cases hk : k = key
      · left; simp [hk]
      · right
        show RawStep _ _ ((Db.setRaw (s.dbAt d').dict key it).lookup k)
        rw [lookup_setRaw_ne _ hk]
        exact RawStep.refl _ _)
  exact this

theorem moveCmd_wi (d' : Nat) (args : List Arg) (cis : List CI) : Pres WI (moveCmd d' args cis) := by
  unfold moveCmd
  split
  · rename_i kk dst
    extract_lets key
    split
    · wpres
    · split
      · wpres
      · refine wi_getDb_bind _ (fun s hs => ?_)
        dsimp only
        refine wi_at_setDb_bind hs (Reads.get (hs.data.dbAt _).1 _) ?_
        split
        · wpres
        · refine wi_getDb_bind _ (fun s2 hs2 => ?_)
          refine wi_at_setDb_bind hs2 (Reads.get (hs2.data.dbAt _).1 _) ?_
          split
          · wpres
          · rename_i it heq2
            have hit : it.value.isEmptyColl = false := Good.get_snd (hs2.data.dbAt d') heq2
            intro s3 hs3
            exact hs3.setRaw_notify dst.toNat key.key hit
  · wpres


theorem mem_setIns (s : List Bytes) (m x : Bytes) : x ∈ Cmd.setIns s m ↔ x ∈ s ∨ x = m := by
  unfold Cmd.setIns
  split
  · rename_i h
    constructor
    · exact .inl
    · rintro (h' | rfl)
      · exact h'
      · exact List.contains_iff_mem.1 h
  · simp

theorem mem_setUnion (a b : List Bytes) (x : Bytes) : x ∈ Cmd.setUnion a b ↔ x ∈ a ∨ x ∈ b := by
  unfold Cmd.setUnion
  induction b generalizing a with
  | nil => simp
  | cons m ms ih =>
    rw [List.foldl_cons, ih, mem_setIns]
    simp only [List.mem_cons]
    constructor
    · rintro ((h | h) | h)
      · exact .inl h
      · exact .inr (.inl h)
      · exact .inr (.inr h)
    · rintro (h | h | h)
      · exact .inl (.inl h)
      · exact .inl (.inr h)
      · exact .inr h

/-- the notification loop of SWAPDB -/
def swapNotify (a b : Nat) (U : List Bytes) : M PUnit := U.forM fun key => do notifyWatch a key; notifyWatch b key

theorem connPred_notify (Q : Conn → Prop) (hQ : ∀ d' k' x, Q x → Q (notifyFn d' k' x)) (d' : Nat) (k' : Bytes) :
    Pres (fun u => Q (u.conn c)) (notifyWatch d' k') :=
  fun s h => Sys.conn_mapConns_pred s _ c Q (notifyFn_id d' k') (hQ d' k') h

theorem swapNotify_conn (Q : Conn → Prop) (hQ : ∀ d' k' x, Q x → Q (notifyFn d' k' x)) (a b : Nat) (U : List Bytes) :
    Pres (fun u => Q (u.conn c)) (swapNotify a b U) :=
  Pres.forM (fun key => Pres.bind (connPred_notify Q hQ a key) (fun _ => connPred_notify Q hQ b key))

theorem swapNotify_frame {β : Type} (P : Sys → β) (hP : ∀ s g, P (s.mapConns g) = P s) (a b : Nat) (U : List Bytes)
    (s : Sys) : P (swapNotify a b U s).2 = P s := by
  have : Pres (fun u => P u = P s) (swapNotify a b U) :=
    Pres.forM (fun key => Pres.bind (fun u hu => (hP u _).trans hu) (fun _ => fun u hu => (hP u _).trans hu))
  exact this s rfl

theorem swapNotify_notified (a b : Nat) (U : List Bytes) (s : Sys) (hw : (d, k) ∈ (s.conn c).watches)
    (hk : k ∈ U) (hd : d = a ∨ d = b) : ((swapNotify a b U s).2.conn c).watchNotified = true := by
  have hsticky : ∀ d' k' x, x.watchNotified = true → (notifyFn d' k' x).watchNotified = true := by
    intro d' k' x hx; rw [notifyFn_eq]; simp [hx]
  have hwatch : ∀ d' k' (x : Conn), (d, k) ∈ x.watches → (d, k) ∈ (notifyFn d' k' x).watches := by
    intro d' k' x hx; rw [notifyFn_eq]; exact hx
  induction U generalizing s with
  | nil => cases hk
  | cons x xs ih =>
    unfold swapNotify
    rw [forM_cons_eq]
    show (((xs.forM fun key => do notifyWatch a key; notifyWatch b key)
      (notifyWatch b x (notifyWatch a x s).2).2).2.conn c).watchNotified = true
    have hw1 : (d, k) ∈ ((notifyWatch a x s).2.conn c).watches := connPred_notify _ hwatch a x s hw
    have hw2 : (d, k) ∈ ((notifyWatch b x (notifyWatch a x s).2).2.conn c).watches :=
      connPred_notify _ hwatch b x _ hw1
    rcases List.mem_cons.1 hk with rfl | hk
    · apply swapNotify_conn (fun y => y.watchNotified = true) hsticky a b xs
      rcases hd with rfl | rfl
      · apply connPred_notify _ hsticky
        show ((notifyWatch d k s).2.conn c).watchNotified = true
        rw [notifyWatch_conn]; exact notifyFn_notified _ hw
      · show ((notifyWatch d k (notifyWatch a k s).2).2.conn c).watchNotified = true
        rw [notifyWatch_conn]; exact notifyFn_notified _ hw1
    · exact ih _ hw2 hk

theorem live_none_of_not_mem_keys {db : Db} {k : Bytes} (nd : NodupKeys db.dict)
    (h : k ∉ (Db.purge db).dict.map Prod.fst) : liveOf db.time (db.dict.lookup k) = none := by
  rw [← live_eq_liveOf nd]
  exact lookup_none_of_not_mem_keys h

theorem rawStep_to_none {t : Int} {a : Option Item} (h : liveOf t a = none) : RawStep t a none := by
  cases a with
  | none => exact .inl rfl
  | some it =>
    right
    refine ⟨rfl, it, rfl, ?_⟩
    simp only [liveOf] at h
    by_cases he : expiredAt t it = true
    · exact he
    · simp [he] at h

/-- SWAPDB of two distinct, valid indices: explicit states -/
theorem swap_core {a b : Nat} (hab : a ≠ b) (ha : a < 16) (hb : b < 16) {s : Sys} (h : WI s) (s1 s2 s3 : Sys)
    (hs1 : (s.setDbS a (s.dbAt b)).setDbS b (s.dbAt a) = s1)
    (hs2 : s1.setDbS a (Db.purge (s1.dbAt a)) = s2)
    (hs3 : s2.setDbS b (Db.purge (s2.dbAt b)) = s3) :
    WI (swapNotify a b (Cmd.setUnion ((Db.purge (s1.dbAt a)).dict.map Prod.fst)
      ((Db.purge (s2.dbAt b)).dict.map Prod.fst)) s3).2 := by
  have hla : a < s.srv.dbs.length := by rw [h.len]; exact ha
  have hlb : b < s.srv.dbs.length := by rw [h.len]; exact hb
  have e1a : s1.dbAt a = s.dbAt b := by
    rw [← hs1, Sys.setDbS_dbAt_ne _ _ _ _ hab, Sys.setDbS_dbAt_self _ _ _ hla rfl]
  have e1b : s1.dbAt b = s.dbAt a := by
    rw [← hs1, Sys.setDbS_dbAt_self _ _ _ (by simpa using hlb) rfl]
  have l1 : s1.srv.dbs.length = s.srv.dbs.length := by rw [← hs1]; simp
  have e2b : s2.dbAt b = s.dbAt a := by
    rw [← hs2, Sys.setDbS_dbAt_ne _ _ _ _ (Ne.symm hab), e1b]
  have e2a : s2.dbAt a = Db.purge (s.dbAt b) := by
    rw [← hs2, Sys.setDbS_dbAt_self _ _ _ (by rw [l1]; exact hla) (by rw [← hs1]; rfl), e1a]
  have l2 : s2.srv.dbs.length = s.srv.dbs.length := by rw [← hs2]; simp [l1]
  have e3a : s3.dbAt a = Db.purge (s.dbAt b) := by
    rw [← hs3, Sys.setDbS_dbAt_ne _ _ _ _ hab, e2a]
  have e3b : s3.dbAt b = Db.purge (s.dbAt a) := by
    rw [← hs3, Sys.setDbS_dbAt_self _ _ _ (by rw [l2]; exact hlb) (by rw [← hs2, ← hs1]; rfl), e2b]
  have e3o : ∀ j, j ≠ a → j ≠ b → s3.dbAt j = s.dbAt j := by
    intro j hja hjb
    rw [← hs3, Sys.setDbS_dbAt_ne _ _ _ _ hjb, ← hs2, Sys.setDbS_dbAt_ne _ _ _ _ hja, ← hs1,
      Sys.setDbS_dbAt_ne _ _ _ _ hjb, Sys.setDbS_dbAt_ne _ _ _ _ hja]
  rw [e1a, e2b]
  generalize hU : Cmd.setUnion ((Db.purge (s.dbAt b)).dict.map Prod.fst) ((Db.purge (s.dbAt a)).dict.map Prod.fst) = U
  have hd3 : s3.DataInv := by
    rw [← hs3, ← hs2, ← hs1]
    refine Sys.DataInv.setDbS (Sys.DataInv.setDbS (Sys.DataInv.setDbS (h.data.setDbS a (h.data.dbAt b)) b (h.data.dbAt a))
      a ?_) b ?_
    · rw [hs1, e1a]; exact (h.data.dbAt b).purge
    · rw [hs1, hs2, e2b]; exact (h.data.dbAt a).purge
  have l3 : s3.srv.dbs.length = s.srv.dbs.length := by rw [← hs3]; simp [l2]
  have c3 : s3.srv.conns = s.srv.conns := by rw [← hs3, ← hs2, ← hs1]; rfl
  have hc3 : s3.conn c = s.conn c := by simp only [Sys.conn_def, c3]
  have hdbs : (swapNotify a b U s3).2.srv.dbs = s3.srv.dbs := swapNotify_frame (fun s => s.srv.dbs) (fun _ _ => rfl) a b U s3
  have hQ := swapNotify_conn (c := c) (ConnOK d k (¬ strict ∧ RawOK R T (rawAt s d k)))
    (fun d'' key x hx => notifyFn_connOK d'' key _ x hx) a b U s3 (by show ConnOK _ _ _ (s3.conn c); rw [hc3]; exact h.connOK)
  refine h.mk' (hd3.frame hdbs) (by rw [hdbs, l3]) ?_ ?_ ?_ ⟨hQ.1, ?_⟩
  · rw [swapNotify_frame (fun s => s.srv.time) (fun _ _ => rfl), ← hs3, ← hs2, ← hs1]; rfl
  · rw [swapNotify_frame (fun s => s.clocks) (fun _ _ => rfl), ← hs3, ← hs2, ← hs1]; exact fun t ht => ht
  · rw [swapNotify_frame (fun s => s.srv.closedSockets) (fun _ _ => rfl), ← hs3, ← hs2, ← hs1]; rfl
  · rcases hQ.2 with hn | ⟨hns, hk⟩
    · exact .inl hn
    · have hraw : rawAt (swapNotify a b U s3).2 d k = (s3.dbAt d).dict.lookup k := by
        rw [rawAt_congr hdbs]; rfl
      rw [hraw]
      by_cases hkU : k ∈ U ∧ (d = a ∨ d = b)
      · exact .inl (swapNotify_notified a b U s3 (by rw [hc3]; exact h.watching) hkU.1 hkU.2)
      · right
        refine ⟨hns, ?_⟩
        by_cases hda : d = a
        · subst hda
          have hkU' : k ∉ U := fun hm => hkU ⟨hm, .inl rfl⟩
          rw [← hU, mem_setUnion, not_or] at hkU'
          rw [e3a, lookup_none_of_not_mem_keys hkU'.1]
          exact hk.step h.time (rawStep_to_none (live_none_of_not_mem_keys (h.data.dbAt d).1 hkU'.2))
        · by_cases hdb : d = b
          · subst hdb
            have hkU' : k ∉ U := fun hm => hkU ⟨hm, .inr rfl⟩
            rw [← hU, mem_setUnion, not_or] at hkU'
            rw [e3b, lookup_none_of_not_mem_keys hkU'.2]
            exact hk.step h.time (rawStep_to_none (live_none_of_not_mem_keys (h.data.dbAt d).1 hkU'.1))
          · rw [e3o d hda hdb]; exact hk


/-- SWAPDB of two distinct, valid indices -/
theorem swap_wi {a b : Nat} (hab : a ≠ b) (ha : a < 16) (hb : b < 16) :
    Pres WI (do
      let da ← getDb a
      let db ← getDb b
      setDb a db
      setDb b da
      let ka ← liveKeys a
      let kb ← liveKeys b
      (Cmd.setUnion ka kb).forM fun key => do notifyWatch a key; notifyWatch b key : M PUnit) := by
  intro s h
  have := swap_core hab ha hb h ((s.setDbS a (s.dbAt b)).setDbS b (s.dbAt a)) _ _ rfl rfl rfl
  exact this

/-- the database indices of SWAPDB are valid (guaranteed by the `DbIndex` converter) -/
def DbArgsOK (name : String) (args : List Arg) : Prop :=
  name = "swapdb" → ∀ i1 i2, args = [.int i1, .int i2] → (0 ≤ i1 ∧ i1 ≤ 15) ∧ (0 ≤ i2 ∧ i2 ≤ 15)

theorem swapdbCmd_wi (args : List Arg) (cis : List CI) (hargs : DbArgsOK "swapdb" args) :
    Pres WI (swapdbCmd args cis) := by
  unfold swapdbCmd
  split
  · rename_i i1 i2
    have hr := hargs rfl i1 i2 rfl
    split
    · rename_i hne
      have hne' : i1 ≠ i2 := by simpa using hne
      intro s h
      exact swap_wi (a := i1.toNat) (b := i2.toNat) (by omega) (by omega) (by omega) s h
    · wpres
  · wpres

end

/-! ## `special`: the dispatch -/

section
variable {strict : Prop} {c d : Nat} {k : Bytes} {R : Option Item} {T : Int → Prop}
local notation "WI" => WInv strict c d k R T

/-- the commands that clear the watches of the connection issuing them -/
def clearing : List String := ["exec", "discard", "unwatch"]

macro_rules | `(tactic| wi_leaf) => `(tactic| first
  | with_reducible exact selectCmd_wi _ _ _
  | with_reducible exact swapdbCmd_wi _ _ ‹_›
  | with_reducible exact moveCmd_wi _ _ _
  | with_reducible exact randomkeyCmd_wi _ _
  | with_reducible exact scanCmd_wi _ _ _
  | with_reducible exact sortCmd_wi _ _ _ _
  | with_reducible exact zunioninter_wi _ _ _ _
  | with_reducible exact multiCmd_wi _ _
  | with_reducible exact discardCmd_wi ‹_ ≠ _› _
  | with_reducible exact watchCmd_wi _ _ _ _
  | with_reducible exact subscribeGen_wi _ _ _
  | with_reducible exact unsubscribeGen_wi _ _ _
  | with_reducible exact publish_wi _ _
  | with_reducible exact scriptCmd_wi _ _ _ _ _
  | with_reducible exact blocking_wi _ _ _ _ _ _ (fun _ => bpopPass_wi _ _ _ _)
  | with_reducible exact blockingAsync_wi _ _ _ _ (fun _ => bpopPass_wi _ _ _ _)
  | with_reducible exact blocking_wi _ _ _ _ _ _ (fun _ => brpoplpushPass_wi _ _ _ _)
  | with_reducible exact blockingAsync_wi _ _ _ _ (fun _ => brpoplpushPass_wi _ _ _ _))

theorem special_wi (inner : Inner) (mode : Mode) (c' : Nat) (hinner : c' ≠ c → InnerOK strict c d k R T inner)
    (name : String) (args : List Arg) (cis : List CI) (hcl : c' ≠ c ∨ name ∉ clearing)
    (hargs : DbArgsOK name args) : Pres WI (special inner mode c' name args cis) := by
  rcases hcl with hne | hn
  · have hexec := fun cis => execCmd_wi inner (hinner hne) hne cis
    unfold special
    simp only []
    refine Pres.bind (wi_getConn c') (fun conn => ?_)
    split
    all_goals wpres
  · unfold special
    simp only []
    refine Pres.bind (wi_getConn c') (fun conn => ?_)
    split
    all_goals first | (exfalso; exact hn (by decide)) | wpres

end

/-! ## `_run_command` -/

theorem swapdb_args (sig : Sig) (h1 : sig.fixed = [.dbIndex, .dbIndex]) (h2 : sig.rep = []) (raw : List Bytes)
    (db : Db) (args : List Arg) (cis : List CI) (h : (sig.apply raw db).2 = .ok (.ok args cis)) :
    ∀ i1 i2, args = [.int i1, .int i2] → (0 ≤ i1 ∧ i1 ≤ 15) ∧ (0 ≤ i2 ∧ i2 ≤ 15) := by
  match raw with
  | [b1, b2] =>
    simp only [Sig.apply, Sig.checkArity, Sig.types, h1, h2, List.length_cons, List.length_nil] at h
    simp [Sig.pass1, Sig.pass2, Conv.decode, Conv.dbIndex, Conv.intRange] at h
    cases h3 : parseCanonInt b1 with
    | none => simp [h3, Except.map] at h
    | some n1 =>
      by_cases hr1 : 0 ≤ n1 ∧ n1 ≤ 15
      · cases h4 : parseCanonInt b2 with
        | none => simp [h3, h4, hr1, Except.map] at h
        | some n2 =>
          by_cases hr2 : 0 ≤ n2 ∧ n2 ≤ 15
          · simp [h3, h4, hr1, hr2, Except.map, Sig.pass2] at h
            intro i1 i2 he
            rw [← h.1] at he
            simp only [List.cons.injEq, Arg.int.injEq, and_true] at he
            obtain ⟨rfl, rfl⟩ := he
            exact ⟨hr1, hr2⟩
          · simp [h3, h4, hr1, hr2, Except.map] at h
      · simp [h3, hr1, Except.map] at h
  | [] => simp [Sig.apply, Sig.checkArity, h1, h2] at h
  | [_] => simp [Sig.apply, Sig.checkArity, h1, h2] at h
  | _ :: _ :: _ :: _ => simp [Sig.apply, Sig.checkArity, h1, h2] at h


section
variable {strict : Prop} {c d : Nat} {k : Bytes} {R : Option Item} {T : Int → Prop}
local notation "WI" => WInv strict c d k R T

theorem faultS_clocks (s : Sys) (f : Option String) : (s.faultS f).clocks = s.clocks := by
  unfold Sys.faultS; split
  · split <;> rfl
  · rfl

/-- a regular command: the generic runner, the store and the notifications -/
theorem WInv.afterRegular {s : Sys} (h : WI s) (c' : Nat) (sig : Sig) (body : Body) (raw : List Bytes) (fs : Bool)
    (hreg : Cmd.regular sig.name = some body) :
    WI (s.afterRegular (s.conn c').db (s.regularOut c' sig body raw fs)) := by
  unfold Sys.afterRegular
  refine h.store_notify (s.conn c').db (s.regularOut c' sig body raw fs).db _ ?_ ?_ ?_ ?_ ?_ ?_ ?_
  · rw [Sys.faultS_srv]
  · rw [Sys.faultS_srv]
  · rw [faultS_clocks]
  · rw [Sys.faultS_srv]
  · rw [Sys.faultS_srv]
  · exact (h.data.dbAt _).runRegular ..
  · intro hd
    by_cases hk : k ∈ (s.regularOut c' sig body raw fs).notified
    · exact .inl hk
    · right
      rw [← hd]
      exact runRegular_raw sig body (regular_expModSound _ _ hreg) _ _ raw (db := s.dbAt (s.conn c').db)
        (h.data.dbAt _).1 hk

/-- the special bodies return sound `CommandItem`s -/
def SpecialSound (sp : SpecialFn) : Prop :=
  ∀ mode c' name args cis (s : Sys) x cis', CIs.Sound cis → (sp mode c' name args cis s).1 = .ok (x, cis') →
    CIs.Sound cis'

/-- the signature of SWAPDB is the one of the table -/
def SigOK (sig : Sig) : Prop := sig.name = "swapdb" → sig.fixed = [.dbIndex, .dbIndex] ∧ sig.rep = []

theorem runGate_none {sig : Sig} {fs b : Bool} (h : runGate sig fs b = none) : ¬ (fs = true ∧ sig.noScript = true) := by
  rintro ⟨h1, h2⟩
  simp [runGate, h1, h2] at h

theorem runWith_wi (sp : SpecialFn) (hsound : SpecialSound sp) (mode : Mode) (c' : Nat) (sig : Sig)
    (raw : List Bytes) (fs : Bool) (hsig : SigOK sig)
    (hsp : (fs = true ∧ sig.noScript = true) ∨
      ∀ args cis, DbArgsOK sig.name args → Pres WI (sp mode c' sig.name args cis)) :
    Pres WI (runWith sp mode c' sig raw fs) := by
  cases hreg : Cmd.regular sig.name with
  | some body =>
    intro s hs
    cases hr : s.refuses c' sig with
    | true => rw [runWith_refused sp mode c' sig raw fs hr]; exact hs
    | false =>
    rw [runWith_regular_run sp mode c' sig raw fs hreg s hr]
    exact hs.afterRegular c' sig body raw fs hreg
  | none =>
    unfold runWith
    refine Pres.bind (wi_getConn c') (fun conn => ?_)
    split
    · exact Pres.pure _
    refine wi_getDb_bind _ (fun s hs => ?_)
    simp only [hreg]
    refine wi_at_setDb_bind hs (Sig.apply_reads sig raw (hs.data.dbAt _).1) ?_
    split
    · wpres
    · wpres
    · rename_i args cis heq
      have hs0 : CIs.Sound cis := CIs.Sound.of_clean (Sig.apply_clean sig raw (s.dbAt conn.db) heq)
      split
      · wpres
      · rename_i hgate
        rcases hsp with hno | hsp
        · exact absurd hno (runGate_none hgate)
        · have hargs : DbArgsOK sig.name args :=
            fun hn => swapdb_args sig (hsig hn).1 (hsig hn).2 raw _ args cis heq
          refine Pres.bindV (fun r => ∀ x cis', r = .ok (x, cis') → CIs.Sound cis')
            (fun u hu => ⟨hsp args cis hargs u hu, fun x cis' hr => hsound _ _ _ _ _ _ _ _ hs0 hr⟩) (fun r hr => ?_)
          split
          · wpres
          · rename_i r' cis'
            have := hr _ _ rfl
            wpres

end

/-! ## the signature table, scripts -/

theorem sigs_sigOK : ∀ sig ∈ SigTable.sigs, SigOK sig := by
  unfold SigOK
  decide +kernel

theorem sigs_clearing_noScript : ∀ sig ∈ SigTable.sigs, sig.name ∈ clearing → sig.noScript = true := by
  unfold clearing
  decide +kernel

theorem find_mem {n : String} {sig : Sig} (h : SigTable.find n = some sig) : sig ∈ SigTable.sigs :=
  List.mem_of_find?_eq_some h

theorem lookupSig_find {nameB : Bytes} {sig : Sig} (h : lookupSig nameB = some sig) : ∃ n, SigTable.find n = some sig := by
  unfold lookupSig at h
  split at h
  · split at h
    · cases h
    · exact ⟨_, h⟩
  · cases h

section
variable {strict : Prop} {c d : Nat} {k : Bytes} {R : Option Item} {T : Int → Prop}
local notation "WI" => WInv strict c d k R T

theorem stub_innerOK : InnerOK strict c d k R T (fun _ _ => do fault "nested exec"; return none) := by
  intro sig raw n h
  wpres

/-- what the `special` argument of the runners must satisfy -/
def SpecialOK (strict : Prop) (c d : Nat) (k : Bytes) (R : Option Item) (T : Int → Prop) (sp : SpecialFn) : Prop :=
  ∀ mode c' name args cis, (c' ≠ c ∨ name ∉ clearing) → DbArgsOK name args →
    Pres (WInv strict c d k R T) (sp mode c' name args cis)

theorem special_specialOK (inner : Inner) (hinner : InnerOK strict c d k R T inner) :
    SpecialOK strict c d k R T (special inner) :=
  fun mode c' name args cis hcl hargs => special_wi inner mode c' (fun _ => hinner) name args cis hcl hargs

/-- `_run_command` from a script: the commands that clear watches are refused by the `noscript` gate -/
theorem runWith_script_wi (sp : SpecialFn) (hsound : SpecialSound sp) (hsp : SpecialOK strict c d k R T sp)
    (mode : Mode) (c' : Nat) (sig : Sig) (raw : List Bytes) (n : String) (hf : SigTable.find n = some sig) :
    Pres WI (runWith sp mode c' sig raw true) := by
  apply runWith_wi sp hsound mode c' sig raw true (sigs_sigOK sig (find_mem hf))
  by_cases hns : sig.noScript = true
  · exact .inl ⟨rfl, hns⟩
  · right
    intro args cis hargs
    exact hsp mode c' sig.name args cis (.inr fun hm => hns (sigs_clearing_noScript sig (find_mem hf) hm)) hargs

theorem runFromScript_wi (sp : SpecialFn) (hsound : SpecialSound sp) (hsp : SpecialOK strict c d k R T sp)
    (mode : Mode) (c' : Nat) (op : LuaVal) (args : List LuaVal) : Pres WI (runFromScript sp mode c' op args) := by
  have hrun := runWith_script_wi sp hsound hsp mode c'
  unfold runFromScript
  wpres
  all_goals exact hrun _ _ _ ‹_›

theorem nextPick_wi : Pres WI nextPick := by
  unfold nextPick; wpres

macro_rules | `(tactic| wi_leaf) => `(tactic| with_reducible exact nextPick_wi)

theorem shaHint_wi : Pres WI shaHint := by
  unfold shaHint; wpres

macro_rules | `(tactic| wi_leaf) => `(tactic| with_reducible exact shaHint_wi)

theorem runTrace_wi (sp : SpecialFn) (hsound : SpecialSound sp) (hsp : SpecialOK strict c d k R T sp)
    (mode : Mode) (c' : Nat) (sha : Bytes) (fuel : Nat) : Pres WI (runTrace sp mode c' sha fuel) := by
  have hcall := runFromScript_wi sp hsound hsp mode c'
  induction fuel with
  | zero => unfold runTrace; wpres
  | succ fuel ih => unfold runTrace; wpres

theorem evalBody_wi (sp : SpecialFn) (hsound : SpecialSound sp) (hsp : SpecialOK strict c d k R T sp)
    (mode : Mode) (c' : Nat) (script : Bytes) (numkeys : Int) (rest : List Bytes) :
    Pres WI (evalBody sp mode c' script numkeys rest) := by
  have htrace := runTrace_wi sp hsound hsp mode c'
  unfold evalBody; wpres

theorem scriptBody_wi (sp : SpecialFn) (hsound : SpecialSound sp) (hsp : SpecialOK strict c d k R T sp)
    (mode : Mode) (c' : Nat) (name : String) (args : List Arg) : Pres WI (scriptBody sp mode c' name args) := by
  have heval := evalBody_wi sp hsound hsp mode c'
  unfold scriptBody; wpres

theorem runScriptCmd_wi (hsound : SpecialSound (special (fun _ _ => do fault "nested exec"; return none)))
    (mode : Mode) (c' : Nat) (sig : Sig) (raw : List Bytes) (fs : Bool) :
    Pres WI (runScriptCmd mode c' sig raw fs) := by
  have hbody := scriptBody_wi _ hsound (special_specialOK (strict := strict) (c := c) (d := d) (k := k) (R := R) (T := T) _ stub_innerOK) mode c'
  unfold runScriptCmd
  refine Pres.bind (wi_getConn c') (fun conn => ?_)
  split
  · exact Pres.pure _
  refine wi_getDb_bind _ (fun s hs => ?_)
  dsimp only
  refine wi_at_setDb_bind hs (Sig.apply_reads sig raw (hs.data.dbAt _).1) ?_
  wpres

end

/-! ## the `CommandItem`s returned by the special bodies (value-level Hoare logic `Ret`) -/

/-! ## the `CommandItem`s returned by the special bodies are sound -/

/-- every value `m` can return satisfies `Q` -/
def Ret {α : Type} (Q : α → Prop) (m : M α) : Prop := ∀ s, Q (m s).1

theorem Ret.pure {α : Type} {Q : α → Prop} {a : α} (h : Q a) : Ret Q (Pure.pure a : M α) := fun _ => h

theorem Ret.bind {α β : Type} {Q : β → Prop} {m : M α} {f : α → M β} (hf : ∀ a, Ret Q (f a)) : Ret Q (m >>= f) :=
  fun s => hf (m s).1 (m s).2

theorem Ret.bindV {α β : Type} {Q : β → Prop} (P : α → Prop) {m : M α} {f : α → M β} (hm : Ret P m)
    (hf : ∀ a, P a → Ret Q (f a)) : Ret Q (m >>= f) :=
  fun s => hf (m s).1 (hm s) (m s).2

/-- the loop invariant on a `ForInStep` -/
def StepInv {β : Type} (Inv : β → Prop) : ForInStep β → Prop
  | .done b => Inv b
  | .yield b => Inv b

theorem Ret.forIn {α β : Type} (Inv : β → Prop) {l : List α} {f : α → β → M (ForInStep β)} {init : β}
    (h0 : Inv init) (hf : ∀ a b, Inv b → Ret (StepInv Inv) (f a b)) : Ret Inv (forIn l init f) := by
  induction l generalizing init with
  | nil => exact Ret.pure h0
  | cons a as ih =>
    rw [List.forIn_cons]
    refine Ret.bindV (StepInv Inv) (hf a init h0) (fun r hr => ?_)
    cases r with
    | done b => exact Ret.pure hr
    | yield b => exact ih hr

theorem Ret.loop_pure {β : Type} (Inv : β → Prop) (μ : β → Nat) (f : Unit → β → M (ForInStep β))
    (hf : ∀ b, ∃ r, f () b = Pure.pure r ∧ (Inv b → StepInv Inv r) ∧ ∀ b', r = .yield b' → μ b' < μ b)
    (init : β) (h0 : Inv init) : Ret Inv (ForIn.forIn Lean.Loop.mk init f) := by
  induction h : μ init using Nat.strongRecOn generalizing init with
  | _ n ih =>
    rw [loop_unfold]
    obtain ⟨r, hr, hinv, hdec⟩ := hf init
    rw [hr]
    intro s
    cases r with
    | done v => exact hinv h0
    | yield v => exact ih (μ v) (by rw [← h]; exact hdec v rfl) v (hinv h0) rfl s

/-- the items of an `.ok` outcome are sound -/
def OutSound {ρ : Type} (r : Except Err (ρ × List CI)) : Prop := ∀ x cis', r = .ok (x, cis') → CIs.Sound cis'

theorem outSound_error {ρ : Type} (e : Err) : OutSound (.error e : Except Err (ρ × List CI)) := by
  intro x cis' h; cases h

theorem outSound_ok {ρ : Type} (x : ρ) {cis : List CI} (h : CIs.Sound cis) : OutSound (.ok (x, cis)) := by
  intro x' cis' h'; cases h'; exact h

/-- close a goal `Q a` -/
syntax "wi_ret_val" : tactic
macro_rules | `(tactic| wi_ret_val) => `(tactic| first
  | exact outSound_error _
  | exact outSound_ok _ ‹_›
  | exact outSound_ok _ (CIs.Sound.set ‹_› (CI.setValue_sound _ _) _))

syntax "wi_ret_leaf" : tactic
macro_rules | `(tactic| wi_ret_leaf) => `(tactic| first
  | ((with_reducible refine Ret.pure ?_); wi_ret_val)
  | with_reducible assumption)

syntax "wi_ret_step" : tactic
macro_rules | `(tactic| wi_ret_step) => `(tactic| first
  | wi_ret_leaf
  | (with_reducible refine Ret.bind (fun _ => ?_))
  | split
  | (simp only []))

syntax "wi_ret" : tactic
macro_rules | `(tactic| wi_ret) => `(tactic| repeat' wi_ret_step)

section RetSound
variable {cis : List CI} (hs : CIs.Sound cis)
include hs

theorem selectCmd_ret (c' : Nat) (args : List Arg) : Ret OutSound (selectCmd c' args cis) := by
  unfold selectCmd okR; wi_ret

theorem swapdbCmd_ret (args : List Arg) : Ret OutSound (swapdbCmd args cis) := by
  unfold swapdbCmd okR; wi_ret

theorem moveCmd_ret (d' : Nat) (args : List Arg) : Ret OutSound (moveCmd d' args cis) := by
  unfold moveCmd; wi_ret

theorem randomkeyCmd_ret (d' : Nat) : Ret OutSound (randomkeyCmd d' cis) := by
  unfold randomkeyCmd okR; wi_ret

theorem scanCmd_ret (d' : Nat) (args : List Arg) : Ret OutSound (scanCmd d' args cis) := by
  unfold scanCmd okR; wi_ret

theorem multiCmd_ret (c' : Nat) : Ret OutSound (multiCmd c' cis) := by
  unfold multiCmd okR; wi_ret

theorem discardCmd_ret (c' : Nat) : Ret OutSound (discardCmd c' cis) := by
  unfold discardCmd okR; wi_ret

theorem execCmd_ret (inner : Inner) (c' : Nat) : Ret OutSound (execCmd inner c' cis) := by
  unfold execCmd okR; wi_ret

theorem watchCmd_ret (c' d' : Nat) (args : List Arg) : Ret OutSound (watchCmd c' d' args cis) := by
  unfold watchCmd okR; wi_ret


theorem scriptCmd_ret (inner : Inner) (c' : Nat) (name : String) (args : List Arg) :
    Ret OutSound (scriptCmd inner c' name args cis) := by
  unfold scriptCmd
  refine Ret.bind (fun _ => Ret.pure ?_)
  intro x cis' h
  cases h
  exact hs

theorem sortCmd_ret (c' d' : Nat) (args : List Arg) : Ret OutSound (sortCmd c' d' args cis) := by
  unfold sortCmd
  split
  · extract_lets key wrong out x keyed err le jp
    split
    · wi_ret
    · have hjp : ∀ x, Ret OutSound (jp x) := by
        intro items?
        simp -zeta only [jp]
        split
        · wi_ret
        · split
          · wi_ret
          · extract_lets n start stop stop' gets sortby jp2
            have hjp2 : ∀ x, Ret OutSound (jp2 x) := by
              intro sorted?
              simp -zeta only [jp2]
              wi_ret
            clear_value jp2
            wi_ret
            all_goals exact hjp2 _
      clear_value jp
      simp only []
      wi_ret
      all_goals exact hjp _
  · wi_ret


/-- the early-return slot of a loop state holds only outcomes with sound items -/
def SlotOK {ρ σ : Type} (b : Option (Except Err (ρ × List CI)) × σ) : Prop := ∀ r, b.1 = some r → OutSound r

omit hs in
theorem slot_none {ρ σ : Type} (x : σ) : SlotOK ((none, x) : Option (Except Err (ρ × List CI)) × σ) := by
  intro r h; cases h

omit hs in
theorem slot_err {ρ σ : Type} (e : Err) (x : σ) :
    SlotOK ((some (.error e), x) : Option (Except Err (ρ × List CI)) × σ) := by
  intro r h; cases h; exact outSound_error e

macro_rules | `(tactic| wi_ret_val) => `(tactic| first
  | exact slot_none _
  | exact slot_err _ _
  | exact ‹SlotOK _› _ ‹_›)

macro_rules | `(tactic| wi_ret_step) => `(tactic| first
  | (with_reducible refine Ret.bindV SlotOK (Ret.forIn SlotOK (slot_none _) (fun _ _ _ => ?_)) (fun _ _ => ?_))
  | (with_reducible refine Ret.bindV SlotOK (Ret.loop_pure SlotOK (fun b => b.2.2.2.2) _ (fun _ => ?_) _ (slot_none _)) (fun _ _ => ?_)))

theorem zunioninter_ret (u : Bool) (d' : Nat) (args : List Arg) : Ret OutSound (zunioninter u d' args cis) := by
  unfold zunioninter
  wi_ret
  all_goals
    refine ⟨_, rfl, fun _ => ?_, fun b' h => ?_⟩
    · first | exact slot_none _ | exact slot_err _ _
    · first
        | (cases h; done)
        | (have h := ForInStep.yield.inj h; subst h; simp_all <;> omega)


macro_rules | `(tactic| wi_ret_leaf) => `(tactic| first
  | with_reducible exact selectCmd_ret ‹_› _ _
  | with_reducible exact swapdbCmd_ret ‹_› _
  | with_reducible exact moveCmd_ret ‹_› _ _
  | with_reducible exact randomkeyCmd_ret ‹_› _
  | with_reducible exact scanCmd_ret ‹_› _ _
  | with_reducible exact multiCmd_ret ‹_› _
  | with_reducible exact discardCmd_ret ‹_› _
  | with_reducible exact execCmd_ret ‹_› _ _
  | with_reducible exact watchCmd_ret ‹_› _ _ _
  | with_reducible exact scriptCmd_ret ‹_› _ _ _ _)

macro_rules | `(tactic| wi_ret_val) => `(tactic| exact outSound_ok _ (‹OutSound _› _ _ rfl))

macro_rules | `(tactic| wi_ret_step) => `(tactic| first
  | (with_reducible refine Ret.bindV OutSound (sortCmd_ret ‹_› _ _ _) (fun _ _ => ?_))
  | (with_reducible refine Ret.bindV OutSound (zunioninter_ret ‹_› _ _ _) (fun _ _ => ?_)))

theorem special_ret (inner : Inner) (mode : Mode) (c' : Nat) (name : String) (args : List Arg) :
    Ret OutSound (special inner mode c' name args cis) := by
  unfold special okR
  simp only []
  refine Ret.bind (fun conn => ?_)
  split
  all_goals wi_ret

omit hs in
/-- every instance of `special` returns sound `CommandItem`s -/
theorem special_sound (inner : Inner) : SpecialSound (special inner) :=
  fun mode c' name args cis s x cis' hs h => special_ret hs inner mode c' name args s x cis' h

end RetSound

/-! ## `runInner`, `runCommand`, `_process_command` -/

section
variable {strict : Prop} {c d : Nat} {k : Bytes} {R : Option Item} {T : Int → Prop}
local notation "WI" => WInv strict c d k R T

theorem runInner_innerOK (mode : Mode) {c' : Nat} (hne : c' ≠ c) : InnerOK strict c d k R T (runInner mode c') := by
  intro sig raw n hf
  refine runInner_cases (P := fun m => Pres WI m) mode c' sig raw
    (fun _ => runScriptCmd_wi (special_sound _) mode c' sig raw false) (fun _ => ?_)
  refine runWith_wi _ (special_sound _) mode c' sig raw false (sigs_sigOK sig (find_mem hf)) (.inr ?_)
  intro args cis hargs
  exact special_wi _ mode c' (fun _ => stub_innerOK) sig.name args cis (.inl hne) hargs

theorem runCommand_wi (mode : Mode) (c' : Nat) (sig : Sig) (raw : List Bytes) (fs : Bool) (n : String)
    (hf : SigTable.find n = some sig) (hcl : c' ≠ c ∨ sig.name ∉ clearing) :
    Pres WI (runCommand mode c' sig raw fs) := by
  unfold runCommand
  split
  · exact runScriptCmd_wi (special_sound _) mode c' sig raw fs
  · refine runWith_wi _ (special_sound _) mode c' sig raw fs (sigs_sigOK sig (find_mem hf)) (.inr ?_)
    intro args cis hargs
    exact special_wi _ mode c' (fun hne => runInner_innerOK mode hne) sig.name args cis hcl hargs

theorem forget_wi {c' : Nat} (hne : c' ≠ c) {s : Sys} (h : WI s) : WI (s.forget c') := by
  unfold Sys.forget
  exact (h.frame (u' := { s with srv := { s.srv with
      subs := s.srv.subs.map (fun p => (p.1, p.2.filter (· != c'))),
      psubs := s.srv.psubs.map (fun p => (p.1, p.2.filter (· != c'))) } }) rfl rfl rfl rfl rfl).updConn_ne hne _
    (fun _ => rfl)

theorem forget_closed (s : Sys) (c' : Nat) : (s.forget c').srv.closedSockets = s.srv.closedSockets := rfl

theorem cleanupClosed_wi : Pres WI cleanupClosed := by
  intro s h
  rw [cleanupClosed_run]
  have key : ∀ (l : List Nat) (s : Sys), WI s → c ∉ l → WI (l.foldl Sys.forget s) := by
    intro l
    induction l with
    | nil => intro s h _; exact h
    | cons a as ih =>
      intro s h hc
      rw [List.foldl_cons]
      exact ih _ (forget_wi (fun e => hc (by simp [e])) h) (fun hm => hc (List.mem_cons_of_mem _ hm))
  have h2 := key s.srv.closedSockets s h h.opened
  exact ⟨h2.data.frame rfl, h2.len, h2.time, h2.clocks, by simp [Sys.clearClosed], h2.watching, h2.ok⟩

theorem wi_setTime {now : Int} (hnow : T now) :
    Pres WI (modify fun s => { s with srv := { s.srv with time := now } }) :=
  fun s h => ⟨h.data.frame rfl, h.len, hnow, h.clocks, h.opened, h.watching, h.ok⟩

/-- the request names a command that clears the watches of the connection issuing it -/
def Clearing (fields : List Bytes) : Prop :=
  ∃ nameB args sig, fields = nameB :: args ∧ lookupSig nameB = some sig ∧ sig.name ∈ clearing

theorem processCommand_cons (mode : Mode) (c' : Nat) (nameB : Bytes) (args : List Bytes) :
    processCommand mode c' (nameB :: args) = (do
      let conn ← getConn c'
      match lookupSig nameB with
      | none =>
        if conn.tx.isSome then modifyConn c' fun x => { x with txFailed := true }
        emit c' (.err (strBytes unknownCommandPrefix))
      | some sig =>
        cleanupClosed
        let now ← nextClock
        modify fun s => { s with srv := { s.srv with time := now } }
        if !sig.checkArity args.length then
          if conn.tx.isSome then modifyConn c' fun x => { x with txFailed := true }
          if sig.name == "exec" then
            modifyConn c' fun x => { x with tx := none, txFailed := false }
            clearWatches c'
            emit c' (.err (strBytes ("EXECABORT Transaction discarded because of: " ++ (sig.wrongArgs.drop 4))))
          else emit c' (.err (strBytes sig.wrongArgs))
        else if conn.tx.isSome && !SigTable.notQueued.contains sig.name then
          if SigTable.notInMulti.contains sig.name then
            modifyConn c' fun x => { x with txFailed := true }
            emit c' (.err (strBytes Msgs.COMMAND_IN_MULTI_MSG))
          else
            modifyConn c' fun x => { x with tx := x.tx.map (· ++ [(sig.name, args)]) }
            emit c' .queued
        else
          match ← runCommand mode c' sig args false with
          | some r => emit c' r
          | none => pure ()
          if (← get).crashed.isSome then modifyConn c' fun x => { x with dead := true }) := rfl

theorem processCommand_wi (mode : Mode) (c' : Nat) (fields : List Bytes) (hcl : c' ≠ c ∨ ¬ Clearing fields) :
    Pres WI (processCommand mode c' fields) := by
  cases fields with
  | nil => unfold processCommand; wpres
  | cons nameB args =>
    rw [processCommand_cons]
    refine Pres.bind (wi_getConn c') (fun conn => ?_)
    split
    · wpres
    · rename_i sig hl
      obtain ⟨n, hf⟩ := lookupSig_find hl
      have hcl' : c' ≠ c ∨ sig.name ∉ clearing := hcl.imp id (fun hn hm => hn ⟨nameB, args, sig, rfl, hl, hm⟩)
      refine Pres.bind cleanupClosed_wi (fun _ => ?_)
      refine Pres.bindV T (fun s h => ⟨wi_nextClock s h, nextClock_T h⟩) (fun now hnow => ?_)
      refine Pres.bind (wi_setTime hnow) (fun _ => ?_)
      have hrun := runCommand_wi (strict := strict) (c := c) (d := d) (k := k) (R := R) (T := T) mode c' sig args false n hf hcl'
      split
      · rcases hcl' with hne | hn
        · wpres
        · have : (sig.name == "exec") = false := by
            cases he : sig.name == "exec" with
            | false => rfl
            | true => exact absurd (by rw [eq_of_beq he]; decide) hn
          simp only [this, Bool.false_eq_true, if_false, ↓reduceIte]
          wpres
      · wpres

end

/-! ## the parser loop and the scheduler / asyncio events -/

/-- the requests the parser loop processes, in order -/
def drainCmds (mode : Mode) (c' : Nat) : Nat → Sys → List (List Bytes)
  | 0, _ => []
  | fuel + 1, s =>
    if (connOf s c').paused || (connOf s c').dead then []
    else match tryParse (connOf s c').buf with
      | none => []
      | some (fields, rest) => fields :: drainCmds mode c' fuel (processCommand mode c' fields (setBuf c' rest s)).2

section
variable {strict : Prop} {c d : Nat} {k : Bytes} {R : Option Item} {T : Int → Prop}
local notation "WI" => WInv strict c d k R T

theorem setBuf_wi (c' : Nat) (X : Bytes) {s : Sys} (h : WI s) : WI (setBuf c' X s) :=
  h.updConn c' _ (fun _ => rfl) (fun _ => id) (fun _ => id)

theorem drain_wi (mode : Mode) (c' : Nat) (fuel : Nat) (s : Sys) (h : WI s)
    (hq : c' ≠ c ∨ ∀ f ∈ drainCmds mode c' fuel s, ¬ Clearing f) : WI (drain mode c' fuel s).2 := by
  induction fuel generalizing s with
  | zero => exact h
  | succ fuel ih =>
    have e := drain_succ mode c' fuel s
    have e' : drain mode c' (fuel + 1) s = _ := e
    rw [e']
    unfold drainCmds at hq
    split
    · exact h
    · rename_i hp
      simp only [hp, if_false, Bool.false_eq_true] at hq
      split
      · exact h
      · rename_i fields rest heq
        simp only [heq] at hq
        have h1 : WI (processCommand mode c' fields (setBuf c' rest s)).2 :=
          processCommand_wi mode c' fields (hq.imp id (fun hh => hh fields (by simp))) _ (setBuf_wi c' rest h)
        exact ih _ h1 (hq.imp id (fun hh f hf => hh f (List.mem_cons_of_mem _ hf)))

theorem parkedPass_wi (c' : Nat) (p : Parked) : Pres WI (parkedPass c' p) := by
  have h1 := brpoplpushPass_wi (strict := strict) (c := c) (d := d) (k := k) (R := R) (T := T)
  have h2 := bpopPass_wi (strict := strict) (c := c) (d := d) (k := k) (R := R) (T := T)
  unfold parkedPass
  wpres

macro_rules | `(tactic| wi_leaf) => `(tactic| with_reducible exact parkedPass_wi _ _)

theorem wakeConn_wi (c' : Nat) : Pres WI (wakeConn c') := by
  unfold wakeConn; wpres

theorem timeoutConn_wi (c' : Nat) : Pres WI (timeoutConn c') := by
  unfold timeoutConn; wpres

theorem resumed_wi (c' : Nat) (r : Reply) {s : Sys} (h : WI s) : WI (s.resumed c' r) := by
  unfold Sys.resumed
  have h1 : WI (s.updConn c' Conn.unpark) := h.updConn c' _ (fun _ => rfl) (fun _ => id) (fun _ => id)
  have := wi_emit (strict := strict) (c := c) (d := d) (k := k) (R := R) (T := T) c' r _ h1
  rw [emit_run] at this
  exact this

/-- the requests processed when the parser of an asyncio connection resumes -/
def resumeCmds (mode : Mode) (c' : Nat) (s : Sys) : List (List Bytes) :=
  drainCmds mode c' ((s.conn c').buf.length + 1) s

/-- the requests processed by the re-try task of a parked asyncio connection -/
def awakeCmds (mode : Mode) (c' : Nat) (s : Sys) : List (List Bytes) :=
  match (s.conn c').parked with
  | none => []
  | some p =>
    match parkedPass c' p s with
    | (.error e, s1) => resumeCmds mode c' (s1.resumed c' (.err (strBytes e)))
    | (.ok (some r), s1) => resumeCmds mode c' (s1.resumed c' r)
    | (.ok none, _) => []

def atimeoutCmds (mode : Mode) (c' : Nat) (s : Sys) : List (List Bytes) :=
  match (s.conn c').parked with
  | none => []
  | some _ => resumeCmds mode c' (s.resumed c' .nil)

theorem wakeConnAsync_wi (mode : Mode) (c' : Nat) (s : Sys) (h : WI s)
    (hq : c' ≠ c ∨ ∀ f ∈ awakeCmds mode c' s, ¬ Clearing f) : WI (wakeConnAsync mode c' s).2 := by
  cases hp : (s.conn c').parked with
  | none =>
    have : wakeConnAsync mode c' s = M.fault "wake: connection is not parked" s := by
      unfold wakeConnAsync
      simp only [bind, StateT.bind, getConn_run, hp]
    rw [this]; exact wi_fault _ s h
  | some p =>
    rw [wakeConnAsync_run mode c' s p hp]
    unfold awakeCmds at hq
    simp only [hp] at hq
    have h1 := parkedPass_wi (strict := strict) (c := c) (d := d) (k := k) (R := R) (T := T) c' p s h
    revert hq h1
    generalize parkedPass c' p s = res
    obtain ⟨r, s1⟩ := res
    intro hq h1
    cases r with
    | error e => exact drain_wi mode c' _ _ (resumed_wi c' _ h1) hq
    | ok o =>
      cases o with
      | none => exact h1.updConn c' _ (fun _ => rfl) (fun _ => id) (fun _ => id)
      | some r => exact drain_wi mode c' _ _ (resumed_wi c' _ h1) hq

theorem timeoutConnAsync_wi (mode : Mode) (c' : Nat) (s : Sys) (h : WI s)
    (hq : c' ≠ c ∨ ∀ f ∈ atimeoutCmds mode c' s, ¬ Clearing f) : WI (timeoutConnAsync mode c' s).2 := by
  cases hp : (s.conn c').parked with
  | none =>
    have : timeoutConnAsync mode c' s = M.fault "timeout: connection is not parked" s := by
      unfold timeoutConnAsync
      simp only [bind, StateT.bind, getConn_run, hp]
    rw [this]; exact wi_fault _ s h
  | some p =>
    rw [timeoutConnAsync_run mode c' s p hp]
    unfold atimeoutCmds at hq
    simp only [hp] at hq
    exact drain_wi mode c' _ _ (resumed_wi c' _ h) hq

/-- the requests processed by `sendall(data)` -/
def sendCmds (mode : Mode) (c' : Nat) (data : Bytes) (s : Sys) : List (List Bytes) :=
  if !s.srv.connected then []
  else if (connOf s c').dead then []
  else drainCmds mode c' ((connOf s c').buf.length + data.length + 1) (appendBuf c' data s)

theorem sendallGuarded_wi (mode : Mode) (c' : Nat) (data : Bytes) (s : Sys) (h : WI s)
    (hq : c' ≠ c ∨ ∀ f ∈ sendCmds mode c' data s, ¬ Clearing f) : WI (sendallGuarded mode c' data s).2 := by
  unfold sendCmds at hq
  cases hc : s.srv.connected with
  | false =>
    rw [sendallGuarded_run_down mode c' data s hc]
    exact h.frame rfl rfl rfl rfl rfl
  | true =>
    rw [sendallGuarded_run_up mode c' data s hc]
    simp only [hc, Bool.not_true, Bool.false_eq_true, if_false] at hq
    have e := sendall_run mode c' data s
    have e' : sendall mode c' data s = _ := e
    rw [e']
    split
    · exact h.frame rfl rfl rfl rfl rfl
    · rename_i hd
      simp only [hd, if_false, Bool.false_eq_true] at hq
      exact drain_wi mode c' _ _ (h.updConn c' _ (fun _ => rfl) (fun _ => id) (fun _ => id)) hq

end

/-! ## events and histories -/

/-- the clock readings an event brings along -/
def evClocks : Ev → List Int
  | .request _ _ _ clocks _ => clocks
  | .send _ _ _ clocks _ => clocks
  | .wake _ clocks => clocks
  | .awake _ _ clocks _ => clocks
  | .atimeout _ _ clocks _ => clocks
  | _ => []

/-- Event `e`, run from `s`, does not clear the watches of connection `c`: it is not `close c` / `gc c`, and no
request it makes connection `c` process is EXEC, DISCARD or UNWATCH. -/
def Quiet (c : Nat) (s : Sys) : Ev → Prop
  | .close c' => c' ≠ c
  | .gc c' => c' ≠ c
  | .request _ c' fields _ _ => c' ≠ c ∨ ¬ Clearing fields
  | .send mode c' data clocks picks =>
    c' ≠ c ∨ ∀ f ∈ sendCmds mode c' data (s.beginEvent.withHints clocks picks), ¬ Clearing f
  | .awake mode c' clocks picks =>
    c' ≠ c ∨ ∀ f ∈ awakeCmds mode c' (s.beginEvent.withHints clocks picks), ¬ Clearing f
  | .atimeout mode c' clocks picks =>
    c' ≠ c ∨ ∀ f ∈ atimeoutCmds mode c' (s.beginEvent.withHints clocks picks), ¬ Clearing f
  | _ => True

/-- every event of the history is quiet for `c` in the state it is run from -/
def QuietRun (c : Nat) : Sys → List Ev → Prop
  | _, [] => True
  | s, e :: es => Quiet c s e ∧ QuietRun c (stepEv s e) es

theorem openConn_conn (c' : Nat) (s : Sys) (c : Nat) : (openConn c' s).2.conn c = s.conn c := by
  rw [openConn_run]
  simp only [Sys.conn_def, List.find?_append]
  cases h : s.srv.conns.find? (·.id == c) with
  | some x => rfl
  | none =>
    simp only [Option.none_or, List.find?_cons, List.find?_nil]
    by_cases hc : c' = c
    · subst hc; simp
    · have : (c' == c) = false := by simpa using hc
      simp [this]

section
variable {strict : Prop} {c d : Nat} {k : Bytes} {R : Option Item} {T : Int → Prop}
local notation "WI" => WInv strict c d k R T

theorem WInv.beginEvent {s : Sys} (h : WI s) : WI s.beginEvent := h.frame rfl rfl rfl rfl rfl

theorem WInv.withHints {s : Sys} (h : WI s) (clocks : List Int) (picks : List (List Bytes)) (hT : ∀ t ∈ clocks, T t) :
    WI (s.beginEvent.withHints clocks picks) :=
  ⟨h.data.frame rfl, h.len, h.time, hT, h.opened, h.watching, h.ok⟩

/-- one event that does not clear the watches of `c` preserves the invariant -/
theorem stepEv_wi (s : Sys) (e : Ev) (h : WI s) (hq : Quiet c s e) (hT : ∀ t ∈ evClocks e, T t) : WI (stepEv s e) := by
  unfold stepEv
  cases e with
  | version v => exact h.frame rfl rfl rfl rfl rfl
  | «open» c' =>
    have h0 := h.beginEvent
    refine h0.mk' (h0.data.frame rfl) rfl rfl (fun t ht => ht) rfl ?_
    show ConnOK d k _ ((openConn c' s.beginEvent).2.conn c)
    rw [openConn_conn]
    exact h0.connOK
  | close c' =>
    have h0 := h.beginEvent
    have hne : c' ≠ c := hq
    show WI (closeConn c' s.beginEvent).2
    rw [closeConn_run]
    have h1 : WI ({ s.beginEvent with srv := { s.beginEvent.srv with closedSockets := s.beginEvent.srv.closedSockets ++ [c'] } } : Sys) :=
      ⟨h0.data.frame rfl, h0.len, h0.time, h0.clocks, by
        show c ∉ s.srv.closedSockets ++ [c']
        simp only [List.mem_append, List.mem_singleton, not_or]
        exact ⟨h.opened, fun e => hne e.symm⟩, h0.watching, h0.ok⟩
    exact h1.updConn_ne hne _ (fun _ => rfl)
  | gc c' =>
    have h0 := h.beginEvent
    have hne : c' ≠ c := hq
    refine ⟨h0.data.frame rfl, h0.len, h0.time, h0.clocks, ?_, ?_, ?_⟩
    · show c ∉ s.srv.closedSockets.filter (· != c')
      exact fun hm => h.opened (List.mem_filter.1 hm).1
    · show (d, k) ∈ ((gcConn c' s.beginEvent).2.conn c).watches
      rw [gcConn_conn_other c' c _ (Ne.symm hne)]; exact h0.watching
    · show ((gcConn c' s.beginEvent).2.conn c).watchNotified = true ∨ _
      rw [gcConn_conn_other c' c _ (Ne.symm hne)]; exact h0.ok
  | conn up => exact h.frame rfl rfl rfl rfl rfl
  | request mode c' fields clocks picks =>
    exact processCommand_wi mode c' fields hq _ (h.withHints clocks picks hT)
  | send mode c' data clocks picks =>
    exact sendallGuarded_wi mode c' data _ (h.withHints clocks picks hT) hq
  | wake c' clocks => exact wakeConn_wi c' _ (h.withHints clocks [] hT)
  | timeout c' => exact timeoutConn_wi c' _ h.beginEvent
  | awake mode c' clocks picks => exact wakeConnAsync_wi mode c' _ (h.withHints clocks picks hT) hq
  | atimeout mode c' clocks picks => exact timeoutConnAsync_wi mode c' _ (h.withHints clocks picks hT) hq

theorem foldl_stepEv_wi (evs : List Ev) (s : Sys) (h : WI s) (hq : QuietRun c s evs)
    (hT : ∀ e ∈ evs, ∀ t ∈ evClocks e, T t) : WI (evs.foldl stepEv s) := by
  induction evs generalizing s with
  | nil => exact h
  | cons e es ih =>
    exact ih _ (stepEv_wi s e h hq.1 (hT e (by simp))) hq.2 (fun e' he' => hT e' (by simp [he']))

end

/-! ## every reachable state has 16 databases (a second pass, invariant `LenIs`) -/

/-! ## every reachable state has 16 databases -/

def LenIs (N : Nat) (s : Sys) : Prop := s.srv.dbs.length = N

section
variable {N : Nat}

theorem len_getConn (c : Nat) : Pres (LenIs N) (getConn c) := fun _ h => h
theorem len_get : Pres (LenIs N) (MonadState.get : M Sys) := fun _ h => h
theorem len_getDb (i : Nat) : Pres (LenIs N) (getDb i) := fun _ h => h
theorem len_setDb (i : Nat) (db : Db) : Pres (LenIs N) (setDb i db) := by
  intro s h
  show (s.srv.dbs.set i db.dict).length = N
  rw [List.length_set]; exact h
theorem len_modifyConn (c : Nat) (f : Conn → Conn) : Pres (LenIs N) (modifyConn c f) := fun _ h => h
theorem len_clearWatches (c : Nat) : Pres (LenIs N) (clearWatches c) := fun _ h => h
theorem len_notifyWatch (d : Nat) (k : Bytes) : Pres (LenIs N) (notifyWatch d k) := fun _ h => h
theorem len_emit (c : Nat) (r : Reply) : Pres (LenIs N) (emit c r) := by
  intro s h
  rw [emit_run]
  show (s.emitS c r).srv.dbs.length = N
  rw [Sys.emitS_srv]; exact h
theorem len_fault (msg : String) : Pres (LenIs N) (M.fault msg) := by
  intro s h
  show LenIs N (if s.fault.isNone then { s with fault := some msg } else s)
  split <;> exact h
theorem len_nextClock : Pres (LenIs N) nextClock := by
  intro s h
  show (nextClock s).2.srv.dbs.length = N
  rw [nextClock_srv]; exact h
theorem len_modify_frame (g : Sys → Sys) (h1 : ∀ s, (g s).srv.dbs = s.srv.dbs) : Pres (LenIs N) (modify g) := by
  intro s h
  show (g s).srv.dbs.length = N
  rw [h1]; exact h
theorem okR_len (r : Reply) (cis : List CI) : Pres (LenIs N) (okR r cis) := Pres.pure _

syntax "len_leaf" : tactic
macro_rules | `(tactic| len_leaf) => `(tactic| first
  | with_reducible exact Pres.pure _
  | with_reducible exact len_getConn _
  | with_reducible exact len_emit _ _
  | with_reducible exact len_fault _
  | with_reducible exact len_nextClock
  | with_reducible exact len_clearWatches _
  | with_reducible exact len_notifyWatch _ _
  | with_reducible exact len_getDb _
  | with_reducible exact len_setDb _ _
  | with_reducible exact okR_len _ _
  | with_reducible exact len_get
  | with_reducible exact len_modifyConn _ _
  | ((with_reducible refine len_modify_frame _ ?_); first | exact fun _ => rfl | (intro _; split <;> rfl))
  | with_reducible assumption
  | pres_hyp)

syntax "len_step" : tactic
macro_rules | `(tactic| len_step) => `(tactic| first
  | len_leaf
  | ((with_reducible refine Pres.get_bind (fun s hs => ?_)); exact hs)
  | (with_reducible refine Pres.at_set_bind ‹_› ?_)
  | (with_reducible refine Pres.get_bind (fun s hs => ?_))
  | (with_reducible refine Pres.bind ?_ (fun _ => ?_))
  | (with_reducible refine Pres.forM (fun _ => ?_))
  | (with_reducible refine Pres.forIn (fun _ _ => ?_) _)
  | (with_reducible refine Pres.mapM (fun _ => ?_))
  | (with_reducible refine Pres.map _ ?_)
  | split
  | (with_reducible refine Pres.at_of_pres ?_ ‹_›)
  | (simp only []))

syntax "lpres" : tactic
macro_rules | `(tactic| lpres) => `(tactic| repeat' len_step)

theorem len_writebackAll (d : Nat) (cis : List CI) : Pres (LenIs N) (writebackAll d cis) := by
  unfold writebackAll; lpres

theorem len_liveKeys (d : Nat) : Pres (LenIs N) (liveKeys d) := by
  unfold liveKeys; lpres

theorem len_clearDb (d : Nat) : Pres (LenIs N) (clearDb d) := by
  have := len_liveKeys (N := N) d
  unfold clearDb; lpres

macro_rules | `(tactic| len_leaf) => `(tactic| first
  | with_reducible exact len_writebackAll _ _
  | with_reducible exact len_liveKeys _
  | with_reducible exact len_clearDb _)

/-! ## The special bodies -/

theorem selectCmd_len (c : Nat) (args : List Arg) (cis : List CI) : Pres (LenIs N) (selectCmd c args cis) := by
  unfold selectCmd; lpres

theorem swapdbCmd_len (args : List Arg) (cis : List CI) : Pres (LenIs N) (swapdbCmd args cis) := by
  unfold swapdbCmd okR; lpres

theorem moveCmd_len (d : Nat) (args : List Arg) (cis : List CI) : Pres (LenIs N) (moveCmd d args cis) := by
  unfold moveCmd
  lpres

theorem randomkeyCmd_len (d : Nat) (cis : List CI) : Pres (LenIs N) (randomkeyCmd d cis) := by
  unfold randomkeyCmd okR
  refine Pres.bind (len_liveKeys d) (fun ks => ?_)
  split
  · lpres
  · refine Pres.get_bind (fun s hs => ?_)
    split
    · split
      · exact Pres.at_set_bind hs (Pres.pure _)
      · refine Pres.at_of_pres ?_ hs; lpres
    · refine Pres.at_of_pres ?_ hs; lpres

theorem scanCmd_len (d : Nat) (args : List Arg) (cis : List CI) : Pres (LenIs N) (scanCmd d args cis) := by
  unfold scanCmd; lpres

theorem multiCmd_len (c : Nat) (cis : List CI) : Pres (LenIs N) (multiCmd c cis) := by
  unfold multiCmd; lpres

theorem discardCmd_len (c : Nat) (cis : List CI) : Pres (LenIs N) (discardCmd c cis) := by
  unfold discardCmd; lpres

theorem watchCmd_len (c d : Nat) (args : List Arg) (cis : List CI) : Pres (LenIs N) (watchCmd c d args cis) := by
  unfold watchCmd; lpres

theorem unwatch_len (c : Nat) (cis : List CI) :
    Pres (LenIs N) (do clearWatches c; okR .ok cis : M SpecialOut) := by lpres

theorem subscribeGen_len (c : Nat) (pattern : Bool) (names : List Bytes) :
    Pres (LenIs N) (subscribeGen c pattern names) := by
  unfold subscribeGen; lpres

theorem unsubscribeGen_len (c : Nat) (pattern : Bool) (names : List Bytes) :
    Pres (LenIs N) (unsubscribeGen c pattern names) := by
  unfold unsubscribeGen; lpres

theorem publish_len (ch msg : Bytes) : Pres (LenIs N) (publish ch msg) := by
  unfold publish; lpres

theorem bpopPass_len (d : Nat) (left first : Bool) (keys : List Bytes) :
    Pres (LenIs N) (bpopPass d left first keys) := by
  induction keys with
  | nil => unfold bpopPass; lpres
  | cons k rest ih => unfold bpopPass; lpres

theorem brpoplpushPass_len (d : Nat) (src dst : Bytes) (first : Bool) :
    Pres (LenIs N) (brpoplpushPass d src dst first) := by
  unfold brpoplpushPass; lpres

theorem blocking_len (c : Nat) (park : Bool) (kind : String) (keys : List Bytes) (timeout : Int)
    (pass : Bool → M (Except Err (Option Reply))) (hpass : ∀ first, Pres (LenIs N) (pass first)) :
    Pres (LenIs N) (blocking c park kind keys timeout pass) := by
  have h1 := hpass true
  unfold blocking; lpres

theorem blockingAsync_len (c : Nat) (kind : String) (keys : List Bytes)
    (pass : Bool → M (Except Err (Option Reply))) (hpass : ∀ first, Pres (LenIs N) (pass first)) :
    Pres (LenIs N) (blockingAsync c kind keys pass) := by
  have h1 := hpass true
  unfold blockingAsync; lpres

/-- the nested runner preserves the invariant -/
def InnerLen (N : Nat) (inner : Inner) : Prop :=
  ∀ (sig : Sig) (raw : List Bytes), Pres (LenIs N) (inner sig raw)

theorem runQueue_len (inner : Inner) (hinner : InnerLen N inner) (c : Nat)
    (q : List (String × List Bytes)) : Pres (LenIs N) (runQueue inner c q) := by
  induction q with
  | nil => unfold runQueue; lpres
  | cons a rest ih =>
    have hinner' : ∀ sig raw, Pres (LenIs N) (inner sig raw) := hinner
    rw [runQueue_cons]
    refine Pres.bind ?_ (fun _ => Pres.bind ih (fun _ => Pres.pure _))
    unfold queueStep
    lpres

theorem execCmd_len (inner : Inner) (hinner : InnerLen N inner) (c : Nat) (cis : List CI) :
    Pres (LenIs N) (execCmd inner c cis) := by
  have hq := runQueue_len (N := N) inner hinner c
  unfold execCmd
  lpres

theorem lookupKey_len (d : Nat) (key pattern : Bytes) : Pres (LenIs N) (lookupKey d key pattern) := by
  unfold lookupKey; lpres

macro_rules | `(tactic| len_leaf) => `(tactic| with_reducible exact lookupKey_len _ _ _)

theorem sortCmd_len (c d : Nat) (args : List Arg) (cis : List CI) : Pres (LenIs N) (sortCmd c d args cis) := by
  unfold sortCmd
  split
  · extract_lets key wrong out x keyed err le jp
    split
    · lpres
    · have hjp : ∀ x, Pres (LenIs N) (jp x) := by
        intro items?
        simp -zeta only [jp]
        split
        · lpres
        · split
          · lpres
          · extract_lets n start stop stop' gets sortby jp2
            have hjp2 : ∀ x, Pres (LenIs N) (jp2 x) := by
              intro sorted?
              simp -zeta only [jp2]
              lpres
            clear_value jp2
            lpres
      clear_value jp
      simp only []
      split
      · lpres
      · lpres
      · lpres
      · refine Pres.get_bind (fun st hs => ?_)
        split
        · split
          · exact Pres.at_set_bind hs (by lpres)
          · refine Pres.at_of_pres ?_ hs; lpres
        · refine Pres.at_of_pres ?_ hs; lpres
      · lpres
  · lpres

/-! ## `while` loops, ZUNIONSTORE / ZINTERSTORE -/

theorem loop_unfold {β : Type} (f : Unit → β → M (ForInStep β)) (b : β) :
    ForIn.forIn Lean.Loop.mk b f = (f () b >>= fun r => match r with
      | .done val => Pure.pure val
      | .yield val => ForIn.forIn Lean.Loop.mk val f) :=
  Lean.Loop.forIn_eq_of_monadTail (l := Lean.Loop.mk) (b := b) (f := f)

/-- a `while` loop whose body preserves `I` and decreases a measure whenever it continues -/
theorem Pres.loop {I : Sys → Prop} {β : Type} (μ : β → Nat) (f : Unit → β → M (ForInStep β))
    (hf : ∀ b, Pres I (f () b))
    (hdec : ∀ b s b', (f () b s).1 = .yield b' → μ b' < μ b) (init : β) :
    Pres I (ForIn.forIn Lean.Loop.mk init f) := by
  induction h : μ init using Nat.strongRecOn generalizing init with
  | _ n ih =>
    rw [loop_unfold]
    intro s hs
    have h1 := hf init s hs
    have h2 := hdec init s
    show I ((match (f () init s).1 with
      | .done val => Pure.pure val
      | .yield val => ForIn.forIn Lean.Loop.mk val f : M β) (f () init s).2).2
    revert h1 h2
    generalize f () init s = r
    obtain ⟨r1, s1⟩ := r
    intro h1 h2
    cases r1 with
    | done v => exact h1
    | yield v => exact ih (μ v) (by rw [← h]; exact h2 v rfl) v rfl s1 h1

/-- a `while` loop with a pure body that decreases a measure whenever it continues -/
theorem Pres.loop_pure {I : Sys → Prop} {β : Type} (μ : β → Nat) (f : Unit → β → M (ForInStep β))
    (hf : ∀ b, ∃ r, f () b = Pure.pure r ∧ ∀ b', r = .yield b' → μ b' < μ b) (init : β) :
    Pres I (ForIn.forIn Lean.Loop.mk init f) := by
  refine Pres.loop μ f (fun b => ?_) (fun b s b' h => ?_) init
  · obtain ⟨r, hr, _⟩ := hf b
    rw [hr]; exact Pres.pure _
  · obtain ⟨r, hr, hd⟩ := hf b
    rw [hr] at h
    exact hd b' h

theorem zunioninter_len (u : Bool) (d : Nat) (args : List Arg) (cis : List CI) :
    Pres (LenIs N) (zunioninter u d args cis) := by
  unfold zunioninter
  split
  · lpres
    all_goals
      refine Pres.loop_pure (fun b => b.2.2.2.2) _ (fun b => ?_) _
      repeat' split
      all_goals
        refine ⟨_, rfl, fun b' h => ?_⟩
        first
          | (cases h; done)
          | (have h := ForInStep.yield.inj h; subst h; simp_all <;> omega)
  · lpres

theorem scriptCmd_len (inner : Inner) (c : Nat) (name : String) (args : List Arg) (cis : List CI) :
    Pres (LenIs N) (scriptCmd inner c name args cis) := by
  unfold scriptCmd; lpres

/-! ## `special`: the dispatch of the special bodies -/

macro_rules | `(tactic| len_leaf) => `(tactic| first
  | with_reducible exact selectCmd_len _ _ _
  | with_reducible exact swapdbCmd_len _ _
  | with_reducible exact moveCmd_len _ _ _
  | with_reducible exact randomkeyCmd_len _ _
  | with_reducible exact scanCmd_len _ _ _
  | with_reducible exact sortCmd_len _ _ _ _
  | with_reducible exact zunioninter_len _ _ _ _
  | with_reducible exact multiCmd_len _ _
  | with_reducible exact discardCmd_len _ _
  | with_reducible exact watchCmd_len _ _ _ _
  | with_reducible exact subscribeGen_len _ _ _
  | with_reducible exact unsubscribeGen_len _ _ _
  | with_reducible exact publish_len _ _
  | with_reducible exact scriptCmd_len _ _ _ _ _
  | with_reducible exact blocking_len _ _ _ _ _ _ (fun _ => bpopPass_len _ _ _ _)
  | with_reducible exact blockingAsync_len _ _ _ _ (fun _ => bpopPass_len _ _ _ _)
  | with_reducible exact blocking_len _ _ _ _ _ _ (fun _ => brpoplpushPass_len _ _ _ _)
  | with_reducible exact blockingAsync_len _ _ _ _ (fun _ => brpoplpushPass_len _ _ _ _))

/-- Every special body preserves the invariant (EXEC: provided the nested runner does).  The returned `cis'`
need no condition: `writebackAll` preserves the invariant for arbitrary items (`len_writebackAll`).

Robust against new cases of the `match name with`: every goal produced by `split` is closed by the same
structural descent `lpres`, whose leaves are the `…_preserves` lemmas registered with `len_leaf`. -/
theorem special_len (inner : Inner) (hinner : InnerLen N inner) (mode : Mode) (c : Nat)
    (name : String) (args : List Arg) (cis : List CI) :
    Pres (LenIs N) (special inner mode c name args cis) := by
  have hexec := execCmd_len (N := N) inner hinner c
  unfold special
  simp only []
  refine Pres.bind (len_getConn c) (fun conn => ?_)
  split
  all_goals lpres

/-! ## `_run_command` -/

theorem runWith_len (special : Mode → Nat → String → List Arg → List CI → M (Except Err (Option Reply × List CI)))
    (mode : Mode) (c : Nat) (sig : Sig) (raw : List Bytes) (fromScript : Bool)
    (hsp : ∀ args cis, Pres (LenIs N) (special mode c sig.name args cis)) :
    Pres (LenIs N) (runWith special mode c sig raw fromScript) := by
  cases hreg : Cmd.regular sig.name with
  | some body =>
    intro s hs
    cases hr : s.refuses c sig with
    | true => rw [runWith_refused special mode c sig raw fromScript hr]; exact hs
    | false =>
    rw [runWith_regular_run special mode c sig raw fromScript hreg s hr]
    show (s.afterRegular _ _).srv.dbs.length = N
    rw [Sys.afterRegular_dbs, List.length_set]
    exact hs
  | none =>
    unfold runWith
    simp only [hreg]
    lpres

/-! ## Scripts (EVAL / EVALSHA / SCRIPT) -/

theorem nextPick_len : Pres (LenIs N) nextPick := by
  unfold nextPick
  refine Pres.get_bind (fun s hs => ?_)
  split
  · exact Pres.at_set_bind hs (Pres.pure _)
  · exact Pres.at_of_pres (Pres.pure _) hs

macro_rules | `(tactic| len_leaf) => `(tactic| with_reducible exact nextPick_len)

theorem shaHint_len : Pres (LenIs N) shaHint := by
  unfold shaHint; lpres

macro_rules | `(tactic| len_leaf) => `(tactic| with_reducible exact shaHint_len)

def SpecialLen (N : Nat) (special : SpecialFn) : Prop :=
  ∀ mode c name args cis, Pres (LenIs N) (special mode c name args cis)

theorem runFromScript_len (special : SpecialFn) (hsp : SpecialLen N special) (mode : Mode) (c : Nat)
    (op : LuaVal) (args : List LuaVal) : Pres (LenIs N) (runFromScript special mode c op args) := by
  have hrun : ∀ sig raw, Pres (LenIs N) (runWith special mode c sig raw true) :=
    fun sig raw => runWith_len special mode c sig raw true (fun _ _ => hsp _ _ _ _ _)
  unfold runFromScript
  lpres

theorem runTrace_len (special : SpecialFn) (hsp : SpecialLen N special) (mode : Mode) (c : Nat)
    (sha : Bytes) (fuel : Nat) : Pres (LenIs N) (runTrace special mode c sha fuel) := by
  have hcall := runFromScript_len (N := N) special hsp mode c
  induction fuel with
  | zero => unfold runTrace; lpres
  | succ fuel ih => unfold runTrace; lpres

theorem evalBody_len (special : SpecialFn) (hsp : SpecialLen N special) (mode : Mode) (c : Nat)
    (script : Bytes) (numkeys : Int) (rest : List Bytes) :
    Pres (LenIs N) (evalBody special mode c script numkeys rest) := by
  have htrace := runTrace_len (N := N) special hsp mode c
  unfold evalBody; lpres

theorem scriptBody_len (special : SpecialFn) (hsp : SpecialLen N special) (mode : Mode) (c : Nat)
    (name : String) (args : List Arg) : Pres (LenIs N) (scriptBody special mode c name args) := by
  have heval := evalBody_len (N := N) special hsp mode c
  unfold scriptBody; lpres

theorem special_stub_len : SpecialLen N (special (fun _ _ => do fault "nested exec"; return none)) := by
  intro mode c name args cis
  apply special_len
  intro sig raw
  lpres

theorem runScriptCmd_len (mode : Mode) (c : Nat) (sig : Sig) (raw : List Bytes) (fromScript : Bool) :
    Pres (LenIs N) (runScriptCmd mode c sig raw fromScript) := by
  have hbody := scriptBody_len (N := N) _ special_stub_len mode c
  unfold runScriptCmd; lpres

/-- the nested runner of EXEC (level 0) -/
theorem runInner_len (mode : Mode) (c : Nat) : InnerLen N (runInner mode c) := by
  intro sig raw
  refine runInner_cases (P := fun m => Pres (LenIs N) m) mode c sig raw
    (fun _ => runScriptCmd_len mode c sig raw false) (fun _ => ?_)
  apply runWith_len
  intro args cis
  exact special_stub_len _ _ _ _ _

/-- `_run_command` for a command issued by a client -/
theorem runCommand_len (mode : Mode) (c : Nat) (sig : Sig) (raw : List Bytes) (fromScript : Bool) :
    Pres (LenIs N) (runCommand mode c sig raw fromScript) := by
  unfold runCommand
  split
  · exact runScriptCmd_len _ _ _ _ _
  · apply runWith_len
    intro args cis
    exact special_len _ (runInner_len mode c) _ _ _ _ _

/-! ## `_process_command`, the parser loop, the scheduler events -/

theorem cleanupClosed_len : Pres (LenIs N) cleanupClosed := by
  unfold cleanupClosed; lpres

/-- `_process_command`, for any request -/
theorem processCommand_len (mode : Mode) (c : Nat) (fields : List Bytes) :
    Pres (LenIs N) (processCommand mode c fields) := by
  have hrun := runCommand_len (N := N) mode c
  have hcl := cleanupClosed_len (N := N)
  unfold processCommand
  lpres

/-- the parser loop, whatever the buffer holds -/
theorem drain_len (mode : Mode) (c : Nat) (fuel : Nat) : Pres (LenIs N) (drain mode c fuel) := by
  have hp := processCommand_len (N := N) mode c
  induction fuel with
  | zero => unfold drain; lpres
  | succ fuel ih => unfold drain; lpres

/-- `sendall` of arbitrary bytes -/
theorem sendall_len (mode : Mode) (c : Nat) (data : Bytes) : Pres (LenIs N) (sendall mode c data) := by
  have h2 := drain_len (N := N) mode c
  unfold sendall; lpres

theorem sendallGuarded_len (mode : Mode) (c : Nat) (data : Bytes) :
    Pres (LenIs N) (sendallGuarded mode c data) := by
  have h1 := sendall_len (N := N) mode c data
  unfold sendallGuarded; lpres

theorem parkedPass_len (c : Nat) (p : Parked) : Pres (LenIs N) (parkedPass c p) := by
  have h1 := brpoplpushPass_len (N := N)
  have h2 := bpopPass_len (N := N)
  unfold parkedPass
  lpres

macro_rules | `(tactic| len_leaf) => `(tactic| with_reducible exact parkedPass_len _ _)

theorem wakeConn_len (c : Nat) : Pres (LenIs N) (wakeConn c) := by
  unfold wakeConn; lpres

theorem timeoutConn_len (c : Nat) : Pres (LenIs N) (timeoutConn c) := by
  unfold timeoutConn; lpres

theorem wakeConnAsync_len (mode : Mode) (c : Nat) : Pres (LenIs N) (wakeConnAsync mode c) := by
  have h := drain_len (N := N) mode c
  unfold wakeConnAsync; lpres

theorem timeoutConnAsync_len (mode : Mode) (c : Nat) : Pres (LenIs N) (timeoutConnAsync mode c) := by
  have h := drain_len (N := N) mode c
  unfold timeoutConnAsync; lpres

theorem openConn_len (c : Nat) : Pres (LenIs N) (openConn c) := fun s h => h

theorem closeConn_len (c : Nat) : Pres (LenIs N) (closeConn c) := by
  unfold closeConn; lpres

theorem gcConn_len (c : Nat) : Pres (LenIs N) (gcConn c) := fun s h => h


theorem stepEv_len (s : Sys) (e : Ev) (h : LenIs N s) : LenIs N (stepEv s e) := by
  have h0 : LenIs N s.beginEvent := h
  have hh : ∀ clocks picks, LenIs N (s.beginEvent.withHints clocks picks) := fun _ _ => h
  unfold stepEv
  cases e with
  | version v => exact h
  | «open» c => exact openConn_len c _ h0
  | close c => exact closeConn_len c _ h0
  | gc c => exact gcConn_len c _ h0
  | conn up => exact h
  | request mode c fields clocks picks => exact processCommand_len mode c fields _ (hh clocks picks)
  | send mode c data clocks picks => exact sendallGuarded_len mode c data _ (hh clocks picks)
  | wake c clocks => exact wakeConn_len c _ (hh clocks [])
  | timeout c => exact timeoutConn_len c _ h0
  | awake mode c clocks picks => exact wakeConnAsync_len mode c _ (hh clocks picks)
  | atimeout mode c clocks picks => exact timeoutConnAsync_len mode c _ (hh clocks picks)

theorem foldl_stepEv_len (evs : List Ev) (s : Sys) (h : LenIs N s) : LenIs N (evs.foldl stepEv s) := by
  induction evs generalizing s with
  | nil => exact h
  | cons e es ih => exact ih _ (stepEv_len s e h)

end

/-- every reachable state has 16 databases -/
theorem runHistory_len (evs : List Ev) : (runHistory evs).srv.dbs.length = 16 :=
  foldl_stepEv_len evs {} (by show (List.replicate 16 ([] : Dict)).length = 16; simp)

/-! ## the theorems about histories -/

/-! ## the theorems about histories -/

/-- what is assumed of the state in which the watch period starts: the data invariant, 16 databases (both hold
in every reachable state), connection `c` is not on the list of closed sockets, and it watches `(d, k)` -/
structure Base (c d : Nat) (k : Bytes) (s : Sys) : Prop where
  data : s.DataInv
  len : s.srv.dbs.length = 16
  opened : c ∉ s.srv.closedSockets
  watching : (d, k) ∈ (s.conn c).watches

/-- the clock readings that can be in force during the history `evs` run from `s` -/
def Times (s : Sys) (evs : List Ev) (t : Int) : Prop :=
  t = s.srv.time ∨ t ∈ s.clocks ∨ ∃ e ∈ evs, t ∈ evClocks e

/-- the live entry of `k` in database `d` (expired entries count as absent) -/
def liveAt (s : Sys) (d : Nat) (k : Bytes) : Option Item := (s.dbAt d).live k

theorem liveAt_eq (s : Sys) (hd : s.DataInv) (d : Nat) (k : Bytes) : liveAt s d k = liveOf s.srv.time (rawAt s d k) :=
  live_eq_liveOf (hd.dbAt d).1 k

theorem liveOf_const {R : Option Item} {T : Int → Prop} (nc : NoCross R T) {t t' : Int} (ht : T t) (ht' : T t') :
    liveOf t R = liveOf t' R := by
  cases R with
  | none => rfl
  | some it =>
    simp only [liveOf]
    by_cases h1 : expiredAt t it = true
    · rw [h1, nc it rfl t t' ht ht' h1]
    · by_cases h2 : expiredAt t' it = true
      · exact absurd (nc it rfl t' t ht' ht h2) h1
      · simp [h1, h2]

section
variable {c d : Nat} {k : Bytes}

theorem QuietRun_append (s : Sys) (a b : List Ev) :
    QuietRun c s (a ++ b) ↔ QuietRun c s a ∧ QuietRun c (a.foldl stepEv s) b := by
  induction a generalizing s with
  | nil => simp [QuietRun]
  | cons e es ih => simp only [List.cons_append, QuietRun, List.foldl_cons, ih, and_assoc]

theorem WInv.base {strict : Prop} {R : Option Item} {T : Int → Prop} {u : Sys} (h : WInv strict c d k R T u) :
    Base c d k u := ⟨h.data, h.len, h.opened, h.watching⟩

theorem Base.init_sound {s : Sys} (b : Base c d k s) {T : Int → Prop}
    (ht : T s.srv.time) (hc : ∀ t ∈ s.clocks, T t) : WInv False c d k (rawAt s d k) T s :=
  ⟨b.data, b.len, ht, hc, b.opened, b.watching, .inr ⟨not_false, .inl rfl⟩⟩

theorem Base.init_strict {s : Sys} (b : Base c d k s) (hn : (s.conn c).watchNotified = true) :
    WInv True c d k none (fun _ => True) s :=
  ⟨b.data, b.len, trivial, fun _ _ => trivial, b.opened, b.watching, .inl hn⟩

theorem WInv.live_or_notified {R : Option Item} {T : Int → Prop} {u : Sys} (h : WInv False c d k R T u)
    (nc : NoCross R T) : (u.conn c).watchNotified = true ∨ liveAt u d k = liveOf u.srv.time R := by
  rcases h.ok with hn | ⟨_, hr⟩
  · exact .inl hn
  · right
    rw [liveAt_eq u h.data, hr.liveOf nc h.time]

/-- SOUNDNESS over a history.  If no event of `evs` clears the watches of `c` and no clock reading of the history
crosses the deadline of the entry stored under `k` at the start, then at the end `c` still watches `(d,k)`, and if the
live entry of `k` differs from the one at the start, `c.watchNotified` is set. -/
theorem history_sound (s : Sys) (evs : List Ev) (b : Base c d k s) (hq : QuietRun c s evs)
    (nc : NoCross (rawAt s d k) (Times s evs)) :
    Base c d k (evs.foldl stepEv s) ∧
    (liveAt (evs.foldl stepEv s) d k ≠ liveAt s d k → ((evs.foldl stepEv s).conn c).watchNotified = true) := by
  have h0 := b.init_sound (T := Times s evs) (.inl rfl) (fun t ht => .inr (.inl ht))
  have h1 := foldl_stepEv_wi evs s h0 hq (fun e he t ht => .inr (.inr ⟨e, he, ht⟩))
  refine ⟨h1.base, fun hne => ?_⟩
  rcases h1.live_or_notified nc with hn | hl
  · exact hn
  · exfalso
    apply hne
    rw [hl, liveAt_eq s b.data, liveOf_const nc h1.time (.inl rfl)]

/-- THE FLAG IS STICKY: no event that does not clear the watches of `c` resets `c.watchNotified`. -/
theorem history_sticky (s : Sys) (evs : List Ev) (b : Base c d k s) (hq : QuietRun c s evs)
    (hn : (s.conn c).watchNotified = true) :
    Base c d k (evs.foldl stepEv s) ∧ ((evs.foldl stepEv s).conn c).watchNotified = true := by
  have h1 := foldl_stepEv_wi evs s (b.init_strict hn) hq (fun _ _ _ _ => trivial)
  refine ⟨h1.base, ?_⟩
  rcases h1.ok with hn | ⟨hf, _⟩
  · exact hn
  · exact absurd trivial hf

/-- HISTORY FORM ("even if it was later changed back"): `c` watches `(d,k)` in `s`; no event of `pre ++ post` clears
its watches; after `pre` the live entry of `k` differs from the one in `s` (the clock readings of `pre` not crossing the
deadline of the entry stored in `s`).  Then after `pre ++ post` the flag of `c` is set, whatever `post` does. -/
theorem history_changed (s : Sys) (pre post : List Ev) (b : Base c d k s) (hq : QuietRun c s (pre ++ post))
    (nc : NoCross (rawAt s d k) (Times s pre))
    (hch : liveAt (pre.foldl stepEv s) d k ≠ liveAt s d k) :
    Base c d k ((pre ++ post).foldl stepEv s) ∧ (((pre ++ post).foldl stepEv s).conn c).watchNotified = true := by
  rw [QuietRun_append] at hq
  have h1 := history_sound s pre b hq.1 nc
  rw [List.foldl_append]
  exact history_sticky _ post h1.1 hq.2 (h1.2 hch)

end


/-! ## which events clear the watches, which add -/

section
variable {c d : Nat} {k : Bytes}

/-- ONLY THE CLEARING EVENTS CLEAR: a history without clearing events of `c` keeps every watch of `c`
(no hypothesis on the clock) -/
theorem history_keeps_watch (s : Sys) (evs : List Ev) (b : Base c d k s) (hq : QuietRun c s evs) :
    Base c d k (evs.foldl stepEv s) :=
  (foldl_stepEv_wi evs s (b.init_sound (T := fun _ => True) trivial (fun _ _ => trivial)) hq
    (fun _ _ _ _ => trivial)).base

theorem conn_cleared (s : Sys) (c : Nat) :
    ((s.updConn c fun x => { x with watchNotified := false, watches := [] }).conn c).watches = [] ∧
    ((s.updConn c fun x => { x with watchNotified := false, watches := [] }).conn c).watchNotified = false := by
  generalize hu : (s.updConn c fun x => { x with watchNotified := false, watches := [] }) = u
  rcases Sys.conn_mem_or_default u c with hm | hd
  · have hid := Sys.conn_id u c
    rw [← hu] at hm
    obtain ⟨x, hx, hxe⟩ := List.mem_map.1 hm
    rw [hu] at hxe
    rw [← hxe] at hid ⊢
    by_cases hxc : (x.id == c) = true
    · simp [hxc]
    · simp only [hxc, if_false] at hid
      exact absurd (by simpa using hid) hxc
  · rw [hd]; exact ⟨rfl, rfl⟩

/-- UNWATCH clears -/
theorem unwatch_clears (inner : Inner) (mode : Mode) (c : Nat) (args : List Arg) (cis : List CI) (s : Sys) :
    ((special inner mode c "unwatch" args cis s).2.conn c).watches = [] ∧
    ((special inner mode c "unwatch" args cis s).2.conn c).watchNotified = false := by
  have e : (special inner mode c "unwatch" args cis s).2 = (clearWatches c s).2 := rfl
  rw [e, clearWatches_run]
  exact conn_cleared s c

/-- garbage collection of the connection drops its record, hence its watches -/
theorem gc_clears (s : Sys) (c : Nat) : ((stepEv s (.gc c)).conn c).watches = [] ∧
    ((stepEv s (.gc c)).conn c).watchNotified = false := by
  have h := gcConn_not_hasConn c s.beginEvent
  have : (stepEv s (.gc c)).conn c = { id := c } := by
    show (gcConn c s.beginEvent).2.conn c = _
    rw [Sys.hasConn_iff] at h
    simp only [Sys.conn_def]
    cases hf : (gcConn c s.beginEvent).2.srv.conns.find? (·.id == c) with
    | none => rfl
    | some x => rw [hf] at h; simp at h
  rw [this]; exact ⟨rfl, rfl⟩

theorem forget_conn_self (s : Sys) (c : Nat) :
    ((s.forget c).conn c).watches = [] ∧ ((s.forget c).conn c).watchNotified = false :=
  conn_cleared _ c

theorem forget_conn_ne (s : Sys) {a c : Nat} (h : a ≠ c) : (s.forget a).conn c = s.conn c := by
  unfold Sys.forget
  exact Sys.conn_updConn_ne _ (Ne.symm h) (fun _ => rfl)

/-- the clean-up run by the next command clears the watches of every closed socket -/
theorem cleanup_clears (s : Sys) (c : Nat) (hc : c ∈ s.srv.closedSockets) :
    ((cleanupClosed s).2.conn c).watches = [] ∧ ((cleanupClosed s).2.conn c).watchNotified = false := by
  rw [cleanupClosed_run]
  have key : ∀ (l : List Nat) (s : Sys),
      (c ∈ l ∨ ((s.conn c).watches = [] ∧ (s.conn c).watchNotified = false)) →
      ((l.foldl Sys.forget s).conn c).watches = [] ∧ ((l.foldl Sys.forget s).conn c).watchNotified = false := by
    intro l
    induction l with
    | nil =>
      intro s h
      rcases h with h | h
      · cases h
      · exact h
    | cons a as ih =>
      intro s h
      rw [List.foldl_cons]
      apply ih
      by_cases hac : a = c
      · right; subst hac; exact forget_conn_self s a
      · rcases h with h | h
        · rcases List.mem_cons.1 h with rfl | h
          · exact absurd rfl hac
          · exact .inl h
        · right; rw [forget_conn_ne s hac]; exact h
  exact key _ s (.inl hc)

/-- the watch list after WATCH of the keys `ks` in database `d'` -/
def addWatches (d' : Nat) (ks : List Bytes) (w : List (Nat × Bytes)) : List (Nat × Bytes) :=
  ks.foldl (fun w key => if w.contains (d', key) then w else w ++ [(d', key)]) w

theorem mem_addWatches (d' : Nat) (ks : List Bytes) (w : List (Nat × Bytes)) (key : Bytes) (hk : key ∈ ks) :
    (d', key) ∈ addWatches d' ks w := by
  unfold addWatches
  induction ks generalizing w with
  | nil => cases hk
  | cons a as ih =>
    simp only [List.foldl_cons]
    rcases List.mem_cons.1 hk with rfl | hk
    · apply foldl_watch_mem
      split
      · rename_i h; exact List.contains_iff_mem.1 h
      · simp
    · exact ih _ hk

/-- WATCH adds `(d', key)` for each of its keys (outside MULTI) -/
theorem watch_adds (c d' : Nat) (args : List Arg) (cis : List CI) (s : Sys) (hh : s.HasConn c)
    (htx : (s.conn c).tx = none) (i : Nat) (hi : i ∈ Cmd.keyIdxs args) :
    (d', (ciAt cis i).key) ∈ ((watchCmd c d' args cis s).2.conn c).watches := by
  have e : (watchCmd c d' args cis s).2 = s.updConn c fun x =>
      { x with watches := addWatches d' ((Cmd.keyIdxs args).map fun i => (ciAt cis i).key) x.watches } := by
    unfold watchCmd
    simp only [bind, StateT.bind, getConn_run, htx]
    rfl
  rw [e, Sys.conn_updConn_same (fun x =>
      { x with watches := addWatches d' ((Cmd.keyIdxs args).map fun i => (ciAt cis i).key) x.watches }) hh (fun _ => rfl)]
  exact mem_addWatches _ _ _ _ (List.mem_map.2 ⟨i, hi, rfl⟩)

end

/-! ## completeness: the flag is set by `notify_watch` of a watched pair only (regular commands) -/

theorem forM_notify_flag (d' : Nat) (ks : List Bytes) (s : Sys) (c : Nat) :
    ((ks.forM (notifyWatch d') s).2.conn c).watches = (s.conn c).watches ∧
    ((ks.forM (notifyWatch d') s).2.conn c).watchNotified =
      ((s.conn c).watchNotified || ks.any fun key => (s.conn c).watches.contains (d', key)) := by
  induction ks generalizing s with
  | nil => exact ⟨rfl, by show (s.conn c).watchNotified = _; simp⟩
  | cons a as ih =>
    rw [forM_cons_eq]
    simp only [bind, StateT.bind, notifyWatch_run]
    have hc : (s.mapConns (notifyFn d' a)).conn c = notifyFn d' a (s.conn c) :=
      Sys.conn_mapConns s _ c (notifyFn_id d' a) (notifyFn_default d' a c)
    have := ih (s.mapConns (notifyFn d' a))
    rw [hc, notifyFn_eq] at this
    refine ⟨this.1, ?_⟩
    rw [this.2]
    simp only [List.any_cons, Bool.or_assoc]

/-- A regular command leaves the watch list of every connection alone and sets `watchNotified` of `c` exactly when
it notifies a key that `c` watches in the database the command ran on. -/
theorem runWith_regular_flag (sp : SpecialFn) (mode : Mode) (c' : Nat) (sig : Sig) (raw : List Bytes) (fs : Bool)
    {body : Body} (hreg : Cmd.regular sig.name = some body) (s : Sys) (c : Nat) :
    ((runWith sp mode c' sig raw fs s).2.conn c).watches = (s.conn c).watches ∧
    ((runWith sp mode c' sig raw fs s).2.conn c).watchNotified =
      ((s.conn c).watchNotified ||
        (s.regularOut c' sig body raw fs).notified.any fun key => (s.conn c).watches.contains ((s.conn c').db, key)) := by
  cases hr : s.refuses c' sig with
  | true =>
    -- refused in subscriber mode: nothing changes, and nothing is notified
    rw [runWith_refused sp mode c' sig raw fs hr, (Sys.regularOut_of_refused body raw fs hr).1]
    exact ⟨rfl, by simp⟩
  | false =>
  rw [runWith_regular_run sp mode c' sig raw fs hreg s hr]
  unfold Sys.afterRegular
  generalize s.regularOut c' sig body raw fs = o
  generalize hs1 : Sys.faultS ({ s with srv := { s.srv with dbs := s.srv.dbs.set (s.conn c').db o.db.dict }, picks := s.picks.drop o.picksUsed } : Sys) o.fault = s1
  have h := forM_notify_flag (s.conn c').db o.notified s1 c
  have hc : s1.conn c = s.conn c := by
    rw [← hs1]; simp only [Sys.conn_def, Sys.faultS_srv]
  rw [hc] at h
  exact h

/-- the part of the state a regular command of `c'` can change of connection `c`, frozen -/
structure FlagInv (c c' : Nat) (W : List (Nat × Bytes)) (b : Bool) (d0 : Nat) (u : Sys) : Prop where
  opened : c ∉ u.srv.closedSockets
  watches : (u.conn c).watches = W
  flag : (u.conn c).watchNotified = b
  db : (u.conn c').db = d0

section
variable {c c' : Nat} {W : List (Nat × Bytes)} {b : Bool} {d0 : Nat}

theorem FlagInv.frame {u u' : Sys} (h : FlagInv c c' W b d0 u) (h1 : u'.srv.closedSockets = u.srv.closedSockets)
    (h2 : u'.srv.conns = u.srv.conns) : FlagInv c c' W b d0 u' := by
  have e : ∀ x, u'.conn x = u.conn x := fun x => by simp only [Sys.conn_def, h2]
  exact ⟨h1 ▸ h.opened, (e c) ▸ h.watches, (e c) ▸ h.flag, (e c') ▸ h.db⟩

theorem flag_emit (x : Nat) (r : Reply) : Pres (FlagInv c c' W b d0) (emit x r) := by
  intro s h
  rw [emit_run]
  exact h.frame (by rw [Sys.emitS_srv]) (by rw [Sys.emitS_srv])

theorem flag_nextClock : Pres (FlagInv c c' W b d0) nextClock :=
  fun s h => h.frame (by rw [nextClock_srv]) (by rw [nextClock_srv])

theorem flag_modifyConn (x : Nat) (f : Conn → Conn) (hid : ∀ y, (f y).id = y.id)
    (hw : ∀ y, (f y).watches = y.watches) (hn : ∀ y, (f y).watchNotified = y.watchNotified)
    (hd : ∀ y, (f y).db = y.db) : Pres (FlagInv c c' W b d0) (modifyConn x f) := by
  intro s h
  refine ⟨h.opened, ?_, ?_, ?_⟩
  · exact Sys.conn_updConn_pred s x c f (fun y => y.watches = W) hid (fun y hy => (hw y).trans hy) h.watches
  · exact Sys.conn_updConn_pred s x c f (fun y => y.watchNotified = b) hid (fun y hy => (hn y).trans hy) h.flag
  · exact Sys.conn_updConn_pred s x c' f (fun y => y.db = d0) hid (fun y hy => (hd y).trans hy) h.db

theorem flag_cleanupClosed : Pres (FlagInv c c' W b d0) cleanupClosed := by
  intro s h
  rw [cleanupClosed_run]
  have key : ∀ (l : List Nat) (s : Sys), FlagInv c c' W b d0 s → c ∉ l → FlagInv c c' W b d0 (l.foldl Sys.forget s) := by
    intro l
    induction l with
    | nil => intro s h _; exact h
    | cons a as ih =>
      intro s h hc
      rw [List.foldl_cons]
      refine ih _ ?_ (fun hm => hc (List.mem_cons_of_mem _ hm))
      have hac : a ≠ c := fun e => hc (by simp [e])
      refine ⟨h.opened, by rw [forget_conn_ne s hac]; exact h.watches, by rw [forget_conn_ne s hac]; exact h.flag, ?_⟩
      by_cases hac' : a = c'
      · subst hac'
        unfold Sys.forget
        exact Sys.conn_updConn_pred _ a a _ (fun y => y.db = d0) (fun _ => rfl) (fun y hy => hy) h.db
      · rw [forget_conn_ne s hac']; exact h.db
  have h2 := key s.srv.closedSockets s h h.opened
  exact ⟨by simp [Sys.clearClosed], h2.watches, h2.flag, h2.db⟩

theorem regular_not_script {sig : Sig} {body : Body} (hreg : Cmd.regular sig.name = some body) :
    sig.name ∉ scriptNames := by
  intro hm
  simp only [scriptNames, List.mem_cons, List.mem_singleton, List.not_mem_nil, or_false] at hm
  rcases hm with h | h | h <;> rw [h] at hreg <;> cases hreg

/-- `_process_command` of a REGULAR command of `c'` that notifies no key watched by `c` in the database `c'` has
selected: the watch list and the flag of `c` are unchanged. -/
theorem processCommand_regular_flag (mode : Mode) (nameB : Bytes) (args : List Bytes) (sig : Sig) (body : Body)
    (hl : lookupSig nameB = some sig) (hreg : Cmd.regular sig.name = some body)
    (H : ∀ u : Sys, (u.conn c').db = d0 → ∀ key ∈ (u.regularOut c' sig body args false).notified, (d0, key) ∉ W) :
    Pres (FlagInv c c' W b d0) (processCommand mode c' (nameB :: args)) := by
  have hrun : Pres (FlagInv c c' W b d0) (runCommand mode c' sig args false) := by
    rw [runCommand_not_script mode c' sig args false (regular_not_script hreg)]
    intro s h
    cases hr : s.refuses c' sig with
    | true => rw [runWith_refused _ mode c' sig args false hr]; exact h
    | false =>
    have hf := runWith_regular_flag (special (runInner mode c')) mode c' sig args false hreg s
    have hdbs : (runWith (special (runInner mode c')) mode c' sig args false s).2.srv.closedSockets
        = s.srv.closedSockets := by
      rw [runWith_regular_run _ mode c' sig args false hreg s hr]
      unfold Sys.afterRegular
      rw [(forM_notify_srv _ _ _).2.2, Sys.faultS_srv]
    refine ⟨hdbs ▸ h.opened, (hf c).1.trans h.watches, ?_, ?_⟩
    · rw [(hf c).2, h.flag]
      have : ((s.regularOut c' sig body args false).notified.any fun key =>
          (s.conn c).watches.contains ((s.conn c').db, key)) = false := by
        rw [List.any_eq_false]
        intro key hk hcon
        rw [h.watches, h.db] at hcon
        exact H s h.db key hk (List.contains_iff_mem.1 hcon)
      rw [this, Bool.or_false]
    · have hd : ∀ (ks : List Bytes) (d' : Nat) (u : Sys), ((ks.forM (notifyWatch d') u).2.conn c').db = (u.conn c').db :=
        fun ks d' u => forM_notifyWatch_pred (fun y => y.db = (u.conn c').db)
          (fun d'' key y hy => by rw [notifyFn_eq]; exact hy) d' ks c' u rfl
      rw [runWith_regular_run _ mode c' sig args false hreg s hr]
      unfold Sys.afterRegular
      rw [hd]
      simp only [Sys.conn_def, Sys.faultS_srv]
      exact h.db
  rw [processCommand_cons]
  refine Pres.bind (fun _ h => h) (fun conn => ?_)
  simp only [hl]
  refine Pres.bind flag_cleanupClosed (fun _ => ?_)
  refine Pres.bind flag_nextClock (fun now => ?_)
  refine Pres.bind (fun s h => h.frame rfl rfl) (fun _ => ?_)
  have hne : (sig.name == "exec") = false := by
    cases he : sig.name == "exec" with
    | false => rfl
    | true => rw [eq_of_beq he] at hreg; cases hreg
  have hmc : ∀ f : Conn → Conn, (∀ y, (f y).id = y.id) → (∀ y, (f y).watches = y.watches) →
      (∀ y, (f y).watchNotified = y.watchNotified) → (∀ y, (f y).db = y.db) →
      Pres (FlagInv c c' W b d0) (modifyConn c' f) := fun f => flag_modifyConn c' f
  simp only [hne, Bool.false_eq_true, if_false]
  repeat' first
    | with_reducible exact flag_emit _ _
    | with_reducible exact Pres.pure _
    | with_reducible exact hrun
    | with_reducible exact hmc _ (fun _ => rfl) (fun _ => rfl) (fun _ => rfl) (fun _ => rfl)
    | with_reducible refine Pres.get_bind (fun s hs => ?_)
    | with_reducible refine Pres.bind ?_ (fun _ => ?_)
    | split
    | with_reducible refine Pres.at_of_pres ?_ ‹_›

end

/-- Event-level form: a request running a REGULAR command of `c'` that notifies no key watched by `c` in the
database selected by `c'` leaves the watch list and the flag of `c` unchanged. -/
theorem request_regular_flag (s : Sys) (mode : Mode) (c c' : Nat) (nameB : Bytes) (args : List Bytes)
    (clocks : List Int) (picks : List (List Bytes)) (sig : Sig) (body : Body)
    (hl : lookupSig nameB = some sig) (hreg : Cmd.regular sig.name = some body)
    (hopen : c ∉ s.srv.closedSockets)
    (H : ∀ u : Sys, (u.conn c').db = (s.conn c').db →
      ∀ key ∈ (u.regularOut c' sig body args false).notified, ((s.conn c').db, key) ∉ (s.conn c).watches) :
    ((stepEv s (.request mode c' (nameB :: args) clocks picks)).conn c).watches = (s.conn c).watches ∧
    ((stepEv s (.request mode c' (nameB :: args) clocks picks)).conn c).watchNotified = (s.conn c).watchNotified := by
  have h0 : FlagInv c c' (s.conn c).watches (s.conn c).watchNotified (s.conn c').db
      (s.beginEvent.withHints clocks picks) := ⟨hopen, rfl, rfl, rfl⟩
  have := processCommand_regular_flag (c := c) mode nameB args sig body hl hreg H _ h0
  exact ⟨this.watches, this.flag⟩

/-! ## the sharp form for a single request: compare both dictionaries at the later state's time -/

/-- the state with the clock set to `t` -/
def setTime (t : Int) (s : Sys) : Sys := { s with srv := { s.srv with time := t } }

theorem foldl_forget_setTime (t : Int) (l : List Nat) (s : Sys) :
    l.foldl Sys.forget (setTime t s) = setTime t (l.foldl Sys.forget s) := by
  induction l generalizing s with
  | nil => rfl
  | cons a as ih => rw [List.foldl_cons, List.foldl_cons]; exact ih (s.forget a)

/-- A request for a known command overwrites the clock with its first reading before anything looks at it: the
event does not depend on the clock of the state it starts from. -/
theorem processCommand_setTime (mode : Mode) (c' : Nat) (nameB : Bytes) (args : List Bytes) (sig : Sig)
    (hl : lookupSig nameB = some sig) (t : Int) (rest : List Int) (s : Sys) (hc : s.clocks = t :: rest) :
    processCommand mode c' (nameB :: args) (setTime t s) = processCommand mode c' (nameB :: args) s := by
  rw [processCommand_cons]
  simp only [bind, StateT.bind, getConn_run, hl, cleanupClosed_run]
  have e1 : (setTime t s).srv.closedSockets = s.srv.closedSockets := rfl
  rw [e1, foldl_forget_setTime]
  generalize hu : s.srv.closedSockets.foldl Sys.forget s = u
  have huc : u.clocks = t :: rest := by
    rw [← hu]
    have : ∀ (l : List Nat) (s : Sys), (l.foldl Sys.forget s).clocks = s.clocks := by
      intro l
      induction l with
      | nil => intro s; rfl
      | cons a as ih => intro s; rw [List.foldl_cons, ih]; rfl
    rw [this]; exact hc
  have e2 : nextClock (setTime t u).clearClosed = (t, { (setTime t u).clearClosed with clocks := rest }) := by
    rw [nextClock_run]
    have : (setTime t u).clearClosed.clocks = t :: rest := huc
    rw [this]
  have e3 : nextClock u.clearClosed = (t, { u.clearClosed with clocks := rest }) := by
    rw [nextClock_run]
    have : u.clearClosed.clocks = t :: rest := huc
    rw [this]
  have e4 : (setTime t s).conn c' = s.conn c' := rfl
  rw [e2, e3, e4]
  rfl


section
variable {c d : Nat} {k : Bytes}

/-- SHARP ONE-STEP FORM for a single request of a known command with clock readings `t :: rest` (`t` becomes the
server time).  Compare the dictionary of `s` and the dictionary of the new state BOTH at the new state's time: if the
live entries differ, `c` is notified.  The only exclusion left concerns the further readings `rest` the command itself
may consume (TIME, SAVE, a blocking pop), which never become the server time. -/
theorem request_sound_sharp (s : Sys) (mode : Mode) (c' : Nat) (nameB : Bytes) (args : List Bytes) (t : Int)
    (rest : List Int) (picks : List (List Bytes)) (sig : Sig) (hl : lookupSig nameB = some sig)
    (b : Base c d k s) (hq : c' ≠ c ∨ ¬ Clearing (nameB :: args))
    (nc : NoCross (rawAt s d k) (· ∈ t :: rest)) :
    Base c d k (stepEv s (.request mode c' (nameB :: args) (t :: rest) picks)) ∧
    (liveAt (stepEv s (.request mode c' (nameB :: args) (t :: rest) picks)) d k ≠
        liveOf (stepEv s (.request mode c' (nameB :: args) (t :: rest) picks)).srv.time (rawAt s d k) →
      ((stepEv s (.request mode c' (nameB :: args) (t :: rest) picks)).conn c).watchNotified = true) := by
  have e : stepEv s (.request mode c' (nameB :: args) (t :: rest) picks) =
      (processCommand mode c' (nameB :: args) (setTime t (s.beginEvent.withHints (t :: rest) picks))).2 := by
    rw [processCommand_setTime mode c' nameB args sig hl t rest _ rfl]
    rfl
  rw [e]
  have h0 : WInv False c d k (rawAt s d k) (· ∈ t :: rest) (setTime t (s.beginEvent.withHints (t :: rest) picks)) :=
    ⟨b.data.frame rfl, b.len, by simp [setTime], fun t' ht' => ht', b.opened, b.watching,
      .inr ⟨not_false, .inl rfl⟩⟩
  have h1 := processCommand_wi mode c' (nameB :: args) hq _ h0
  refine ⟨h1.base, fun hne => ?_⟩
  rcases h1.live_or_notified nc with hn | hl'
  · exact hn
  · exact absurd hl' hne

theorem noCross_single (R : Option Item) (t : Int) : NoCross R (· ∈ [t]) := by
  intro it _ t1 t2 h1 h2 he
  simp only [List.mem_singleton] at h1 h2
  rw [h2, ← h1]; exact he

/-- the usual case: the request brings one clock reading.  No hypothesis on the clock at all. -/
theorem request_sound_single (s : Sys) (mode : Mode) (c' : Nat) (nameB : Bytes) (args : List Bytes) (t : Int)
    (picks : List (List Bytes)) (sig : Sig) (hl : lookupSig nameB = some sig)
    (b : Base c d k s) (hq : c' ≠ c ∨ ¬ Clearing (nameB :: args)) :
    Base c d k (stepEv s (.request mode c' (nameB :: args) [t] picks)) ∧
    (liveAt (stepEv s (.request mode c' (nameB :: args) [t] picks)) d k ≠
        liveOf (stepEv s (.request mode c' (nameB :: args) [t] picks)).srv.time (rawAt s d k) →
      ((stepEv s (.request mode c' (nameB :: args) [t] picks)).conn c).watchNotified = true) :=
  request_sound_sharp s mode c' nameB args t [] picks sig hl b hq (noCross_single _ t)

end

end FR.WatchSys
