import FR.Proofs.Runner
import FR.Proofs.Discipline
import FR.Proofs.Strings
import FR.Proofs.Decimal
/-!
# Refinement of the string / generic-key commands to the abstract key space

`Db.live : Bytes → Option Item` is the abstract key space.  This file proves that `runRegular` on a
database with unique keys is a function of `(db.time, db.live)` only (`runL`), and evaluates `runL`
for the string and generic-key commands with their real signatures.
-/
namespace FR.StrKeys
open FR FR.Db FR.Spec

/-! ## Part 1: the abstract key space -/

/-- point update of the abstract key space -/
def upd (live : Bytes → Option Item) (k : Bytes) (oi : Option Item) : Bytes → Option Item :=
  fun k' => if k' = k then oi else live k'

@[simp] theorem upd_self (live : Bytes → Option Item) (k : Bytes) (oi : Option Item) : upd live k oi k = oi := by
  simp [upd]

theorem upd_ne (live : Bytes → Option Item) {k k' : Bytes} (oi : Option Item) (h : k' ≠ k) :
    upd live k oi k' = live k' := by
  simp [upd, h]

/-- a deadline lies in the past -/
def expiredAt (time : Int) (e : Option Int) : Bool :=
  match e with
  | none => false
  | some t => decide (t < time)

theorem expired_eq (db : Db) (it : Item) : db.expired it = expiredAt db.time it.expireat := rfl

theorem lookup_map_set_self {d : Dict} {k : Bytes} (it : Item) (h : ∃ q ∈ d, q.1 = k) :
    (d.map (fun q => if q.1 == k then (k, it) else q)).lookup k = some it := by
  induction d with
  | nil => obtain ⟨q, hq, _⟩ := h; cases hq
  | cons x xs ih =>
    obtain ⟨k2, it2⟩ := x
    simp only [List.map_cons]
    by_cases h2 : k2 = k
    · subst h2; simp
    · have hb : (k2 == k) = false := by simpa using h2
      have hb' : (k == k2) = false := by simpa using fun e : k = k2 => h2 e.symm
      simp only [hb, if_false, Bool.false_eq_true, List.lookup_cons, hb']
      apply ih
      obtain ⟨q, hq, e⟩ := h
      rcases List.mem_cons.1 hq with rfl | hq
      · exact absurd e h2
      · exact ⟨q, hq, e⟩

theorem lookup_setRaw_self (d : Dict) (k : Bytes) (it : Item) : (setRaw d k it).lookup k = some it := by
  unfold setRaw
  split
  · rename_i h; exact lookup_map_set_self it (any_key_iff.1 h)
  · rename_i h
    have h := any_key_false_iff.1 (Bool.not_eq_true _ ▸ h)
    rw [List.lookup_append, lookup_none_iff.2 h]
    simp

theorem live_setRaw_self {db : Db} (nd : NodupKeys db.dict) (k : Bytes) (it : Item) :
    Db.live { db with dict := setRaw db.dict k it } k = if expiredAt db.time it.expireat then none else some it := by
  unfold Db.live
  rw [purge_dict, lookup_filter _ k (nodup_setRaw k it nd), lookup_setRaw_self]
  simp only [expired_eq]
  by_cases h : expiredAt db.time it.expireat = true <;> simp [h]

theorem live_put_self {db : Db} (nd : NodupKeys db.dict) (k : Bytes) (v : Value) (e : Option Int) :
    (db.put k v e).live k = if expiredAt db.time e then none else some ⟨v, e⟩ := by
  unfold Db.put
  simp only
  rw [live_setRaw_self (get_nodup k nd), get_time]

theorem live_pop_self (db : Db) (k : Bytes) : (db.pop k).live k = none := by
  unfold Db.live; rw [pop_purge]; exact lookup_erase_self _ _

theorem live_mem {db : Db} {k : Bytes} {it : Item} (h : db.live k = some it) :
    (k, it) ∈ db.dict ∧ expiredAt db.time it.expireat = false := by
  unfold Db.live at h
  have hm := lookup_some_mem h
  rw [purge_dict] at hm
  have := List.mem_filter.1 hm
  refine ⟨this.1, ?_⟩
  have h2 := this.2
  simp only [expired_eq] at h2
  simpa using h2

/-- the two facts about the abstract key space of a well-formed database -/
structure LiveOK (time : Int) (live : Bytes → Option Item) : Prop where
  /-- no live entry is past its deadline -/
  fresh : ∀ k it, live k = some it → expiredAt time it.expireat = false
  /-- no live entry is an empty collection -/
  nonempty : ∀ k it, live k = some it → it.value.isEmptyColl = false

theorem liveOK {db : Db} (ne : NoEmpty db.dict) : LiveOK db.time db.live :=
  ⟨fun _ _ h => (live_mem h).2, fun _ _ h => ne _ (live_mem h).1⟩

theorem get_live_result {db : Db} (nd : NodupKeys db.dict) (k : Bytes) : (db.get k).2 = db.live k :=
  get_result k nd

theorem live_get_fun {db : Db} (nd : NodupKeys db.dict) (k' : Bytes) : (db.get k').1.live = db.live := by
  funext k; exact live_get nd k' k

/-! ## Part 2: `writeback` on the abstract key space -/

/-- the entry a `CommandItem` leaves behind -/
def itemOfCI (time : Int) (c : CI) : Option Item :=
  match c.val with
  | none => none
  | some v => if v.isEmptyColl then none else if expiredAt time c.expireat then none else some ⟨v, c.expireat⟩

/-- `writeback` of one `CommandItem` -/
def wbL (time : Int) (live : Bytes → Option Item) (c : CI) : Bytes → Option Item :=
  if c.modified then upd live c.key (itemOfCI time c) else live

theorem writeback_liveL (c : CI) (hs : c.ExpModSound) {db : Db} (nd : NodupKeys db.dict) :
    (c.writeback db).1.live = wbL db.time db.live c := by
  funext k
  unfold wbL
  by_cases hm : c.modified = true
  · rw [if_pos hm]
    by_cases hk : k = c.key
    · subst hk
      rw [upd_self]
      unfold CI.writeback itemOfCI
      rw [if_pos hm]
      cases c.val with
      | none => exact live_pop_self _ _
      | some v =>
        simp only
        by_cases hv : v.isEmptyColl = true
        · rw [if_pos hv, if_pos hv]; exact live_pop_self _ _
        · rw [if_neg hv, if_neg hv]; exact live_put_self nd _ _ _
    · rw [upd_ne _ _ hk]; exact c.writeback_live_ne nd hk
  · have hm : c.modified = false := by simpa using hm
    have he : c.expMod = false := by
      cases h : c.expMod with
      | false => rfl
      | true => rw [hs h] at hm; cases hm
    rw [CI.writeback_unmodified hm he]
    simp [hm]

theorem writebackPure_liveL {cis : List CI} (hs : ∀ c ∈ cis, c.ExpModSound) {db : Db}
    (nd : NodupKeys db.dict) : (writebackPure db cis).1.live = cis.foldl (wbL db.time) db.live := by
  induction cis generalizing db with
  | nil => rfl
  | cons c cs ih =>
    rw [writebackPure_cons, List.foldl_cons]
    simp only
    rw [ih (fun c' hc' => hs c' (by simp [hc'])) (c.writeback_nodup nd), c.writeback_time,
      writeback_liveL c (hs c (by simp)) nd]

/-! ## Part 3: `Signature.apply` on the abstract key space -/

def pass1L (live : Bytes → Option Item) : List (Bytes × ArgTy) → List Arg → Except Err (Sum Reply (List Arg))
  | [], acc => .ok (.inr acc.reverse)
  | (b, t) :: rest, acc =>
    match t with
    | .key _ mr =>
      if mr != .unspecified then
        match live b with
        | none => .ok (.inl (Sig.missingReply mr))
        | some _ => pass1L live rest (.raw b :: acc)
      else pass1L live rest (.raw b :: acc)
    | _ =>
      match Conv.decode t b with
      | .error e => .error e
      | .ok a => pass1L live rest (a :: acc)

def pass2L (live : Bytes → Option Item) : List (Arg × ArgTy) → List Arg → List CI → Except Err (List Arg × List CI)
  | [], accA, accC => .ok (accA.reverse, accC.reverse)
  | (a, t) :: rest, accA, accC =>
    match t, a with
    | .key ty _, .raw k =>
      match ty, live k with
      | some ty, some it =>
        if it.value.ty != ty then .error Msgs.WRONGTYPE_MSG
        else pass2L live rest (.key accC.length :: accA) (⟨k, some it.value, it.expireat, false, false⟩ :: accC)
      | some ty, none =>
        pass2L live rest (.key accC.length :: accA) (⟨k, ty.default, none, false, false⟩ :: accC)
      | none, some it =>
        pass2L live rest (.key accC.length :: accA) (⟨k, some it.value, it.expireat, false, false⟩ :: accC)
      | none, none =>
        pass2L live rest (.key accC.length :: accA) (⟨k, none, none, false, false⟩ :: accC)
    | _, _ => pass2L live rest (a :: accA) accC

/-- `Signature.apply` as a function of the abstract key space -/
def applyL (s : Sig) (raw : List Bytes) (live : Bytes → Option Item) : Except Err Sig.Applied :=
  if !s.checkArity raw.length then .error s.wrongArgs
  else if !s.rep.isEmpty && (raw.length - s.fixed.length) % s.rep.length != 0 then .error s.wrongArgs
  else
    let tys := s.types raw.length
    match pass1L live (raw.zip tys) [] with
    | .error e => .error e
    | .ok (.inl r) => .ok (.short r)
    | .ok (.inr args) =>
      match pass2L live (args.zip tys) [] [] with
      | .error e => .error e
      | .ok (args', cis) => .ok (.ok args' cis)

theorem pass1_eq (l : List (Bytes × ArgTy)) {db : Db} (nd : NodupKeys db.dict) (acc : List Arg) :
    (Sig.pass1 db l acc).2 = pass1L db.live l acc := by
  induction l generalizing db acc with
  | nil => rfl
  | cons x rest ih =>
    obtain ⟨b, t⟩ := x
    cases t
    case key ty mr =>
      simp only [Sig.pass1, pass1L]
      split
      · have hr := get_live_result nd b
        have hl := live_get_fun nd b
        have hn := get_nodup b nd
        revert hr hl hn
        generalize db.get b = g
        obtain ⟨db', r⟩ := g
        simp only
        intro hr hl hn
        subst hr
        cases hlk : db.live b with
        | none => rfl
        | some it => simp only; rw [ih hn, hl]
      · exact ih nd _
    all_goals
      simp only [Sig.pass1, pass1L]
      generalize Conv.decode _ b = d
      cases d with
      | error e => rfl
      | ok a => exact ih nd _

theorem pass2_eq (l : List (Arg × ArgTy)) {db : Db} (nd : NodupKeys db.dict) (accA : List Arg)
    (accC : List CI) : (Sig.pass2 db l accA accC).2 = pass2L db.live l accA accC := by
  induction l generalizing db accA accC with
  | nil => rfl
  | cons x rest ih =>
    obtain ⟨a, t⟩ := x
    unfold Sig.pass2 pass2L
    split
    · rename_i ty mr k
      have hr := get_live_result nd k
      have hl := live_get_fun nd k
      have hn := get_nodup k nd
      revert hr hl hn
      generalize db.get k = g
      obtain ⟨db', r⟩ := g
      simp only
      intro hr hl hn
      subst hr
      cases ty <;> cases hlk : db.live k <;> simp only
      · rw [ih hn, hl]
      · rw [ih hn, hl]
      · rw [ih hn, hl]
      · split
        · rfl
        · rw [ih hn, hl]
    · rename_i hne
      split
      · rename_i ty mr k; exact absurd rfl (hne ty mr k rfl)
      · exact ih nd _ _

theorem apply_eq (s : Sig) (raw : List Bytes) {db : Db} (nd : NodupKeys db.dict) :
    (s.apply raw db).2 = applyL s raw db.live := by
  unfold Sig.apply applyL
  split
  · rfl
  · split
    · rfl
    · simp only
      have h1 := pass1_eq (raw.zip (s.types raw.length)) nd []
      have r1 := Sig.pass1_reads (raw.zip (s.types raw.length)) nd []
      revert h1 r1
      generalize Sig.pass1 db (raw.zip (s.types raw.length)) [] = g
      obtain ⟨db1, x⟩ := g
      simp only
      intro h1 r1
      subst h1
      generalize pass1L db.live (raw.zip (s.types raw.length)) [] = x
      cases x with
      | error e => rfl
      | ok sm =>
        cases sm with
        | inl r => rfl
        | inr args =>
          simp only
          have h2 := pass2_eq (args.zip (s.types raw.length)) r1.nd [] []
          have hl : db1.live = db.live := by funext k; exact live_eq_of_purge r1.eq k
          rw [hl] at h2
          revert h2
          generalize Sig.pass2 db1 (args.zip (s.types raw.length)) [] [] = g
          obtain ⟨db2, y⟩ := g
          simp only
          intro h2
          subst h2
          generalize pass2L db.live (args.zip (s.types raw.length)) [] [] = y
          cases y with
          | error e => rfl
          | ok pr => rfl

/-! ## Part 4: the abstract runner and the refinement theorem -/

/-- `runRegular` (no gate) as a function of the clock and the abstract key space -/
def runL (sig : Sig) (body : Body) (ctx : Ctx) (raw : List Bytes) (time : Int) (live : Bytes → Option Item) :
    Reply × (Bytes → Option Item) :=
  match applyL sig raw live with
  | .error e => (.err (strBytes e), live)
  | .ok (.short r) => (r, live)
  | .ok (.ok args cis) =>
    match body ctx args cis with
    | .error e => (.err (strBytes e), live)
    | .ok o => (o.reply, o.cis.foldl (wbL time) live)

/-- REFINEMENT: on a database with unique keys, the reply and the resulting key space of `runRegular` are
the ones computed by `runL` from the clock and the abstract key space alone -/
theorem refines (sig : Sig) (body : Body) (hb : body.ExpModSound) (ctx : Ctx) (raw : List Bytes) {db : Db}
    (nd : NodupKeys db.dict) :
    ((runRegular sig body ctx none raw db).reply, (runRegular sig body ctx none raw db).db.live) =
      runL sig body ctx raw db.time db.live := by
  rw [runRegular_eq]
  unfold runL
  rw [← apply_eq sig raw nd]
  have hr := Sig.apply_reads sig raw nd
  have hc := fun args cis => Sig.apply_clean sig raw db (args := args) (cis := cis)
  revert hr hc
  generalize sig.apply raw db = r
  obtain ⟨db1, x⟩ := r
  simp only
  intro hr hc
  have h1 : db1.live = db.live := by funext k; exact live_eq_of_purge hr.eq k
  have ht : db1.time = db.time := by
    have := congrArg Db.time hr.eq
    simpa using this
  cases x with
  | error e => simp only [runTail, h1]
  | ok ap =>
    cases ap with
    | short r => simp only [runTail, h1]
    | ok args cis =>
      simp only [runTail]
      cases hbd : body ctx args cis with
      | error e =>
        simp only
        rw [writebackPure_clean (hc args cis rfl), h1]
      | ok o =>
        simp only
        rw [writebackPure_liveL (hb ctx args cis o (hc args cis rfl) hbd) hr.nd, h1, ht]

theorem run_eq (sig : Sig) (body : Body) (hb : body.ExpModSound) (ctx : Ctx) (raw : List Bytes) {db : Db}
    (nd : NodupKeys db.dict) {r : Reply} {L : Bytes → Option Item}
    (h : runL sig body ctx raw db.time db.live = (r, L)) :
    (runRegular sig body ctx none raw db).reply = r ∧ (runRegular sig body ctx none raw db).db.live = L := by
  have := refines sig body hb ctx raw nd
  rw [h] at this
  exact ⟨congrArg Prod.fst this, congrArg Prod.snd this⟩

/-! ## Part 5: tools for evaluating `runL` -/

def K : ArgTy := .key none .unspecified
def KS : ArgTy := .key (some .str) .unspecified

def wrongtype : Reply := .err (strBytes Msgs.WRONGTYPE_MSG)
def synErr : Reply := .err (strBytes Msgs.SYNTAX_ERROR_MSG)

/-- the end of `runL`: error reply or write-back -/
def fin (time : Int) (live : Bytes → Option Item) (r : Except Err BodyOut) : Reply × (Bytes → Option Item) :=
  match r with
  | .error e => (.err (strBytes e), live)
  | .ok o => (o.reply, o.cis.foldl (wbL time) live)

@[simp] theorem fin_error (time : Int) (live : Bytes → Option Item) (e : Err) :
    fin time live (.error e) = (.err (strBytes e), live) := rfl
@[simp] theorem fin_ok (time : Int) (live : Bytes → Option Item) (o : BodyOut) :
    fin time live (.ok o) = (o.reply, o.cis.foldl (wbL time) live) := rfl

theorem runL_eq (sig : Sig) (body : Body) (ctx : Ctx) (raw : List Bytes) (time : Int) (live : Bytes → Option Item) :
    runL sig body ctx raw time live =
      match applyL sig raw live with
      | .error e => (.err (strBytes e), live)
      | .ok (.short r) => (r, live)
      | .ok (.ok args cis) => fin time live (body ctx args cis) := by
  unfold runL
  cases applyL sig raw live with
  | error e => rfl
  | ok ap =>
    cases ap with
    | short r => rfl
    | ok args cis => simp only; cases body ctx args cis <;> rfl

syntax "run_simp" "[" Lean.Parser.Tactic.simpLemma,* "]" : tactic
macro_rules
  | `(tactic| run_simp [$ts,*]) =>
    `(tactic| simp [runL_eq, applyL, K, KS, Sig.checkArity, Sig.types, pass1L, pass2L, Conv.decode, Ty.default, Value.ty,
        ciAt, ret, wbL, itemOfCI, CI.setValue, CI.update, CI.setExpire, Value.isEmptyColl, expiredAt, wrongtype, $ts,*])

theorem strBytes_zero : strBytes "0" = [48] := by rw [strBytes_eq]; rfl
theorem conv_int_zero : Conv.int (strBytes "0") = .ok 0 := by rw [strBytes_zero]; rfl

/-- the `CommandItem` of an untyped key -/
def ciA (live : Bytes → Option Item) (k : Bytes) : CI :=
  match live k with
  | none => ⟨k, none, none, false, false⟩
  | some it => ⟨k, some it.value, it.expireat, false, false⟩

/-- only untyped keys and plain bytes -/
def KB (l : List (Bytes × ArgTy)) : Prop := ∀ x ∈ l, x.2 = K ∨ x.2 = .bytes

theorem KB_cons {x : Bytes × ArgTy} {l : List (Bytes × ArgTy)} (h : KB (x :: l)) : KB l :=
  fun y hy => h y (List.mem_cons_of_mem _ hy)

def p2args : List (Bytes × ArgTy) → Nat → List Arg
  | [], _ => []
  | (b, t) :: rest, n => if t = K then .key n :: p2args rest (n + 1) else .raw b :: p2args rest n

def p2keys (l : List (Bytes × ArgTy)) : List Bytes := (l.filter (fun x => x.2 = K)).map (·.1)

theorem pass1L_KB (live : Bytes → Option Item) (l : List (Bytes × ArgTy)) (h : KB l) (acc : List Arg) :
    pass1L live l acc = .ok (.inr (acc.reverse ++ l.map (fun x => Arg.raw x.1))) := by
  induction l generalizing acc with
  | nil => simp [pass1L]
  | cons x rest ih =>
    obtain ⟨b, t⟩ := x
    rcases h (b, t) (by simp) with ht | ht
    · simp only at ht; subst ht
      simp [pass1L, K, ih (KB_cons h)]
    · simp only at ht; subst ht
      simp [pass1L, Conv.decode, ih (KB_cons h)]

theorem pass2L_KB (live : Bytes → Option Item) (l : List (Bytes × ArgTy)) (h : KB l) (accA : List Arg)
    (accC : List CI) :
    pass2L live (l.map (fun x => (Arg.raw x.1, x.2))) accA accC =
      .ok (accA.reverse ++ p2args l accC.length, accC.reverse ++ (p2keys l).map (ciA live)) := by
  induction l generalizing accA accC with
  | nil => simp [pass2L, p2args, p2keys]
  | cons x rest ih =>
    obtain ⟨b, t⟩ := x
    rcases h (b, t) (by simp) with ht | ht
    · simp only at ht; subst ht
      cases hl : live b <;>
        simp [pass2L, K, ih (KB_cons h), p2args, p2keys, ciA, hl, List.filter_cons]
    · simp only at ht; subst ht
      simp [pass2L, ih (KB_cons h), p2args, p2keys, K, List.filter_cons]

theorem zip_map_raw (raw : List Bytes) (tys : List ArgTy) :
    ((raw.zip tys).map (fun x => Arg.raw x.1)).zip tys = (raw.zip tys).map (fun x => (Arg.raw x.1, x.2)) := by
  induction raw generalizing tys with
  | nil => simp
  | cons b bs ih =>
    cases tys with
    | nil => simp
    | cons t ts => simp [ih]

/-- `Signature.apply` for a signature that only has untyped keys and plain bytes -/
theorem applyL_KB (s : Sig) (raw : List Bytes) (live : Bytes → Option Item)
    (h1 : s.checkArity raw.length = true)
    (h2 : (!s.rep.isEmpty && (raw.length - s.fixed.length) % s.rep.length != 0) = false)
    (h3 : KB (raw.zip (s.types raw.length))) :
    applyL s raw live =
      .ok (.ok (p2args (raw.zip (s.types raw.length)) 0) ((p2keys (raw.zip (s.types raw.length))).map (ciA live))) := by
  unfold applyL
  simp only [h1, h2, Bool.not_true, Bool.false_eq_true, if_false]
  rw [pass1L_KB live _ h3]
  simp only [List.reverse_nil, List.nil_append]
  rw [zip_map_raw, pass2L_KB live _ h3]
  simp

theorem map_const_range (n : Nat) (t : ArgTy) : (List.range n).map (fun _ => t) = List.replicate n t := by
  induction n with
  | zero => rfl
  | succ n ih => rw [List.range_succ, List.map_append, ih, List.replicate_succ']; rfl

theorem zip_replicate_len (bs : List Bytes) (t : ArgTy) (n : Nat) (h : bs.length ≤ n) :
    bs.zip (List.replicate n t) = bs.map (fun b => (b, t)) := by
  induction bs generalizing n with
  | nil => simp
  | cons b bs ih =>
    cases n with
    | zero => simp at h
    | succ n => simp [List.replicate_succ, ih n (by simpa using h)]

/-! ## Part 6: single-key commands -/

def sigGet : Sig := ⟨"get", [KS], [], false, 1, 0, false⟩
def sigStrlen : Sig := ⟨"strlen", [KS], [], false, 1, 0, false⟩
def sigGetset : Sig := ⟨"getset", [KS, .bytes], [], false, 2, 0, false⟩
def sigSetnx : Sig := ⟨"setnx", [K, .bytes], [], false, 2, 0, false⟩
def sigIncr : Sig := ⟨"incr", [KS], [], false, 1, 0, false⟩
def sigDecr : Sig := ⟨"decr", [KS], [], false, 1, 0, false⟩
def sigIncrby : Sig := ⟨"incrby", [KS, .int], [], false, 2, 0, false⟩
def sigDecrby : Sig := ⟨"decrby", [KS, .int], [], false, 2, 0, false⟩
def sigIncrbyfloat : Sig := ⟨"incrbyfloat", [KS, .bytes], [], false, 2, 0, false⟩
def sigType : Sig := ⟨"type", [K], [], false, 1, 0, false⟩
def sigSetex : Sig := ⟨"setex", [K, .int, .bytes], [], false, 3, 0, false⟩
def sigPsetex : Sig := ⟨"psetex", [K, .int, .bytes], [], false, 3, 0, false⟩

theorem get_runL (ctx : Ctx) (time : Int) (live : Bytes → Option Item) (k : Bytes) :
    runL sigGet Cmd.get ctx [k] time live =
      match live k with
      | none => (.nil, live)
      | some ⟨.str b, _⟩ => (.bulk b, live)
      | some _ => (wrongtype, live) := by
  cases h : live k with
  | none => run_simp [sigGet, Cmd.get, h]
  | some it =>
    obtain ⟨v, e⟩ := it
    cases v <;> run_simp [sigGet, Cmd.get, h]

theorem strlen_runL (ctx : Ctx) (time : Int) (live : Bytes → Option Item) (k : Bytes) :
    runL sigStrlen Cmd.strlen ctx [k] time live =
      match live k with
      | none => (.int 0, live)
      | some ⟨.str b, _⟩ => (.int b.length, live)
      | some _ => (wrongtype, live) := by
  cases h : live k with
  | none => run_simp [sigStrlen, Cmd.strlen, Cmd.strGet, h]
  | some it =>
    obtain ⟨v, e⟩ := it
    cases v <;> run_simp [sigStrlen, Cmd.strlen, Cmd.strGet, h]

theorem getset_runL (ctx : Ctx) (time : Int) (live : Bytes → Option Item) (k v : Bytes) :
    runL sigGetset Cmd.getset ctx [k, v] time live =
      match live k with
      | none => (.nil, upd live k (some ⟨.str v, none⟩))
      | some ⟨.str b, _⟩ => (.bulk b, upd live k (some ⟨.str v, none⟩))
      | some _ => (wrongtype, live) := by
  cases h : live k with
  | none => run_simp [sigGetset, Cmd.getset, h]
  | some it =>
    obtain ⟨v, e⟩ := it
    cases v <;> run_simp [sigGetset, Cmd.getset, h]

theorem truthy_live {k : Bytes} {v : Value} {e : Option Int} {m x : Bool} (h : v.isEmptyColl = false) :
    CI.truthy ⟨k, some v, e, m, x⟩ = true := by
  cases v <;> simp_all [CI.truthy]

theorem truthy_ciA {time : Int} {live : Bytes → Option Item} (ok : LiveOK time live) (k : Bytes) :
    (ciA live k).truthy = (live k).isSome := by
  unfold ciA
  cases h : live k with
  | none => rfl
  | some it => exact truthy_live (ok.nonempty k it h)

theorem setnx_runL (ctx : Ctx) (time : Int) (live : Bytes → Option Item) (ok : LiveOK time live) (k v : Bytes) :
    runL sigSetnx Cmd.setnx ctx [k, v] time live =
      match live k with
      | none => (.int 1, upd live k (some ⟨.str v, none⟩))
      | some _ => (.int 0, live) := by
  cases h : live k with
  | none => run_simp [sigSetnx, Cmd.setnx, h, CI.truthy]
  | some it =>
    have := truthy_live (k := k) (e := it.expireat) (m := false) (x := false) (ok.nonempty k it h)
    run_simp [sigSetnx, Cmd.setnx, h, this]

/-! ### counters -/

/-- the counter step on a stored string `stored` with deadline `e` -/
def incrOn (live : Bytes → Option Item) (k stored : Bytes) (e : Option Int) (a : Int) : Reply × (Bytes → Option Item) :=
  match Conv.int stored with
  | .error m => (.err (strBytes m), live)
  | .ok cur =>
    if Conv.INT_MIN ≤ cur + a ∧ cur + a ≤ Conv.INT_MAX then
      (.int (cur + a), upd live k (some ⟨.str (intBytes (cur + a)), e⟩))
    else (.err (strBytes Msgs.OVERFLOW_MSG), live)

/-- INCRBY-like step: a missing key counts as `0` without deadline -/
def incrSpec (live : Bytes → Option Item) (k : Bytes) (a : Int) : Reply × (Bytes → Option Item) :=
  match live k with
  | none => incrOn live k (strBytes "0") none a
  | some ⟨.str b, e⟩ => incrOn live k b e a
  | some _ => (wrongtype, live)

theorem incrCore_fin (time : Int) (live : Bytes → Option Item) (k stored : Bytes) (e : Option Int)
    (he : expiredAt time e = false) (a : Int) (c : CI) (hc : c.key = k) (hv : Cmd.strGet c (strBytes "0") = stored)
    (hx : c.expireat = e) :
    fin time live (Cmd.incrbyCore [c] 0 a) = incrOn live k stored e a := by
  unfold Cmd.incrbyCore incrOn
  simp only [ciAt, List.getD_cons_zero, hv]
  cases Conv.int stored with
  | error m => rfl
  | ok cur =>
    simp only [Conv.encodeInt]
    by_cases hr : Conv.INT_MIN ≤ cur + a ∧ cur + a ≤ Conv.INT_MAX
    · simp [hr, ret, wbL, CI.update, itemOfCI, Value.isEmptyColl, hc, hx, he]
    · simp [hr]

theorem incrCore_runL (sig : Sig) (body : Body) (ctx : Ctx) (time : Int) (live : Bytes → Option Item)
    (ok : LiveOK time live) (k : Bytes) (raw : List Bytes) (args : List Arg) (a : Int)
    (hap : applyL sig raw live =
      match live k with
      | none => .ok (.ok args [⟨k, none, none, false, false⟩])
      | some it => if it.value.ty = .str then .ok (.ok args [⟨k, some it.value, it.expireat, false, false⟩])
          else .error Msgs.WRONGTYPE_MSG)
    (hbody : ∀ cis, body ctx args cis = Cmd.incrbyCore cis 0 a) :
    runL sig body ctx raw time live = incrSpec live k a := by
  rw [runL_eq, hap]
  unfold incrSpec
  cases h : live k with
  | none =>
    simp only [hbody]
    exact incrCore_fin time live k (strBytes "0") none rfl a _ rfl rfl rfl
  | some it =>
    obtain ⟨v, e⟩ := it
    cases v with
    | str b =>
      simp only [Value.ty, if_true, hbody]
      exact incrCore_fin time live k b e (ok.fresh k _ h) a _ rfl rfl rfl
    | _ => simp [Value.ty, wrongtype]

theorem applyL_KS1 (n : String) (ns : Bool) (a b : Nat) (c : Bool) (k : Bytes) (live : Bytes → Option Item) :
    applyL ⟨n, [KS], [], ns, a, b, c⟩ [k] live =
      match live k with
      | none => .ok (.ok [.key 0] [⟨k, none, none, false, false⟩])
      | some it => if it.value.ty = .str then .ok (.ok [.key 0] [⟨k, some it.value, it.expireat, false, false⟩])
          else .error Msgs.WRONGTYPE_MSG := by
  cases h : live k with
  | none => simp [applyL, KS, Sig.checkArity, Sig.types, pass1L, pass2L, Ty.default, h]
  | some it => by_cases ht : it.value.ty = .str <;> simp [applyL, KS, Sig.checkArity, Sig.types, pass1L, pass2L, h, ht]

theorem incr_runL (ctx : Ctx) (time : Int) (live : Bytes → Option Item) (ok : LiveOK time live) (k : Bytes) :
    runL sigIncr Cmd.incr ctx [k] time live = incrSpec live k 1 :=
  incrCore_runL sigIncr Cmd.incr ctx time live ok k [k] [.key 0] 1 (applyL_KS1 ..) (fun _ => rfl)

theorem decr_runL (ctx : Ctx) (time : Int) (live : Bytes → Option Item) (ok : LiveOK time live) (k : Bytes) :
    runL sigDecr Cmd.decr ctx [k] time live = incrSpec live k (-1) :=
  incrCore_runL sigDecr Cmd.decr ctx time live ok k [k] [.key 0] (-1) (applyL_KS1 ..) (fun _ => rfl)

theorem applyL_KS_int (n : String) (ns : Bool) (a b : Nat) (c : Bool) (k nb : Bytes) (i : Int)
    (hi : Conv.int nb = .ok i) (live : Bytes → Option Item) :
    applyL ⟨n, [KS, .int], [], ns, a, b, c⟩ [k, nb] live =
      match live k with
      | none => .ok (.ok [.key 0, .int i] [⟨k, none, none, false, false⟩])
      | some it => if it.value.ty = .str then .ok (.ok [.key 0, .int i] [⟨k, some it.value, it.expireat, false, false⟩])
          else .error Msgs.WRONGTYPE_MSG := by
  cases h : live k with
  | none => simp [applyL, KS, Sig.checkArity, Sig.types, pass1L, pass2L, Ty.default, Conv.decode, h, hi, Except.map]
  | some it =>
    by_cases ht : it.value.ty = .str <;>
      simp [applyL, KS, Sig.checkArity, Sig.types, pass1L, pass2L, Conv.decode, h, ht, hi, Except.map]

theorem applyL_KS_int_err (n : String) (ns : Bool) (a b : Nat) (c : Bool) (k nb : Bytes) (m : Err)
    (hi : Conv.int nb = .error m) (live : Bytes → Option Item) :
    applyL ⟨n, [KS, .int], [], ns, a, b, c⟩ [k, nb] live = .error m := by
  run_simp [hi, Except.map]

theorem incrby_runL (ctx : Ctx) (time : Int) (live : Bytes → Option Item) (ok : LiveOK time live) (k nb : Bytes) :
    runL sigIncrby Cmd.incrby ctx [k, nb] time live =
      match Conv.int nb with
      | .error m => (.err (strBytes m), live)
      | .ok a => incrSpec live k a := by
  cases hn : Conv.int nb with
  | error m => rw [runL_eq, sigIncrby, applyL_KS_int_err _ _ _ _ _ _ _ m hn]
  | ok a =>
    exact incrCore_runL sigIncrby Cmd.incrby ctx time live ok k [k, nb] [.key 0, .int a] a
      (applyL_KS_int _ _ _ _ _ _ _ a hn live) (fun _ => rfl)

/-- DECRBY with the converted amount `a`: the smallest 64-bit integer cannot be negated and is refused for
every stored string (and for a missing key); a key of another type is WRONGTYPE as always (the type check of
`Signature.apply` comes first); any other amount is `INCRBY (-a)` -/
def decrSpec (live : Bytes → Option Item) (k : Bytes) (a : Int) : Reply × (Bytes → Option Item) :=
  if a = -9223372036854775808 then
    match live k with
    | none => (.err (strBytes Msgs.DECR_OVERFLOW_MSG), live)
    | some ⟨.str _, _⟩ => (.err (strBytes Msgs.DECR_OVERFLOW_MSG), live)
    | some _ => (wrongtype, live)
  else incrSpec live k (-a)

theorem decrby_runL (ctx : Ctx) (time : Int) (live : Bytes → Option Item) (ok : LiveOK time live) (k nb : Bytes) :
    runL sigDecrby Cmd.decrby ctx [k, nb] time live =
      match Conv.int nb with
      | .error m => (.err (strBytes m), live)
      | .ok a => decrSpec live k a := by
  cases hn : Conv.int nb with
  | error m => rw [runL_eq, sigDecrby, applyL_KS_int_err _ _ _ _ _ _ _ m hn]
  | ok a =>
    simp only
    unfold decrSpec
    by_cases ha : a = -9223372036854775808
    · rw [if_pos ha, runL_eq, sigDecrby, applyL_KS_int _ _ _ _ _ _ _ a hn live]
      have hb : (a == -9223372036854775808) = true := by simpa using ha
      cases h : live k with
      | none => simp [Cmd.decrby, hb]
      | some it =>
        obtain ⟨v, e⟩ := it
        cases v <;> simp [Value.ty, Cmd.decrby, hb, wrongtype]
    · rw [if_neg ha]
      have hb : (a == -9223372036854775808) = false := by simpa using ha
      exact incrCore_runL sigDecrby Cmd.decrby ctx time live ok k [k, nb] [.key 0, .int a] (-a)
        (applyL_KS_int _ _ _ _ _ _ _ a hn live) (fun _ => by simp [Cmd.decrby, hb])

/-- INCRBYFLOAT on a stored string -/
def incrFloatOn (version : Nat) (live : Bytes → Option Item) (k stored : Bytes) (e : Option Int) (amount : Bytes) :
    Reply × (Bytes → Option Item) :=
  match Conv.float stored with
  | .error m => (.err (strBytes m), live)
  | .ok cur =>
    match Conv.float amount with
    | .error m => (.err (strBytes m), live)
    | .ok a =>
      if (Dbl.add cur a).isFinite then
        (.bulk (Cmd.encodeFloat version (Dbl.add cur a) true),
          upd live k (some ⟨.str (Cmd.encodeFloat version (Dbl.add cur a) true), e⟩))
      else (.err (strBytes Msgs.NONFINITE_MSG), live)

theorem incrbyfloat_fin (ctx : Ctx) (time : Int) (live : Bytes → Option Item) (k stored : Bytes) (e : Option Int)
    (he : expiredAt time e = false) (amount : Bytes) (c : CI) (hc : c.key = k)
    (hv : Cmd.strGet c (strBytes "0") = stored) (hx : c.expireat = e) :
    fin time live (Cmd.incrbyfloat ctx [.key 0, .raw amount] [c]) = incrFloatOn ctx.version live k stored e amount := by
  unfold Cmd.incrbyfloat incrFloatOn
  simp only [ciAt, List.getD_cons_zero, hv]
  cases Conv.float stored with
  | error m => rfl
  | ok cur =>
    simp only
    cases Conv.float amount with
    | error m => rfl
    | ok a =>
      simp only
      by_cases hr : (Dbl.add cur a).isFinite = true
      · simp [hr, ret, wbL, CI.update, itemOfCI, Value.isEmptyColl, hc, hx, he]
      · simp [hr]

theorem incrbyfloat_runL (ctx : Ctx) (time : Int) (live : Bytes → Option Item) (ok : LiveOK time live)
    (k amount : Bytes) :
    runL sigIncrbyfloat Cmd.incrbyfloat ctx [k, amount] time live =
      match live k with
      | none => incrFloatOn ctx.version live k (strBytes "0") none amount
      | some ⟨.str b, e⟩ => incrFloatOn ctx.version live k b e amount
      | some _ => (wrongtype, live) := by
  cases h : live k with
  | none =>
    have := incrbyfloat_fin ctx time live k (strBytes "0") none rfl amount ⟨k, none, none, false, false⟩ rfl rfl rfl
    rw [runL_eq]
    simpa [sigIncrbyfloat, applyL, KS, Sig.checkArity, Sig.types, pass1L, pass2L, Conv.decode, h, Ty.default] using this
  | some it =>
    obtain ⟨v, e⟩ := it
    cases v with
    | str b =>
      have := incrbyfloat_fin ctx time live k b e (ok.fresh k _ h) amount ⟨k, some (.str b), e, false, false⟩ rfl rfl rfl
      rw [runL_eq]
      simpa [sigIncrbyfloat, applyL, KS, Sig.checkArity, Sig.types, pass1L, pass2L, Conv.decode, h, Value.ty] using this
    | _ => run_simp [sigIncrbyfloat, h]

/-! ### TYPE, SETEX, PSETEX -/

theorem type_runL (ctx : Ctx) (time : Int) (live : Bytes → Option Item) (k : Bytes) :
    runL sigType Cmd.type_ ctx [k] time live =
      (.status (strBytes (match live k with | none => "none" | some it => it.value.ty.name)), live) := by
  cases h : live k with
  | none => run_simp [sigType, Cmd.type_, h]
  | some it => run_simp [sigType, Cmd.type_, h]

theorem not_expired_add (t x : Int) (u : Int) (hu : 0 < u) (hx : ¬ x ≤ 0) : ¬ (t + x * u < t) := by
  have : 0 < x * u := Int.mul_pos (by omega) hu
  omega

theorem applyL_K_int_bytes (n : String) (ns : Bool) (a b : Nat) (c : Bool) (k sb v : Bytes)
    (live : Bytes → Option Item) :
    applyL ⟨n, [K, .int, .bytes], [], ns, a, b, c⟩ [k, sb, v] live =
      match Conv.int sb with
      | .error m => .error m
      | .ok i => .ok (.ok [.key 0, .int i, .raw v] [ciA live k]) := by
  cases hn : Conv.int sb with
  | error m => simp [applyL, K, Sig.checkArity, Sig.types, pass1L, Conv.decode, hn, Except.map]
  | ok i =>
    cases h : live k <;>
      simp [applyL, K, Sig.checkArity, Sig.types, pass1L, pass2L, Conv.decode, hn, Except.map, ciA, h]

theorem setex_fin (ctx : Ctx) (live : Bytes → Option Item) (k v : Bytes) (secs : Int) (c : CI) (hk : c.key = k) :
    fin ctx.time live (Cmd.setex ctx [.key 0, .int secs, .raw v] [c]) =
      if secs ≤ 0 ∨ ctx.time + secs * TICKS ≥ 2 ^ 63 * TICKS_MS then
        (.err (strBytes (Msgs.fmt1 Msgs.INVALID_EXPIRE_MSG "setex")), live)
      else (.ok, upd live k (some ⟨.str v, some (ctx.time + secs * TICKS)⟩)) := by
  unfold Cmd.setex
  by_cases hc : secs ≤ 0 ∨ ctx.time + secs * TICKS ≥ 2 ^ 63 * TICKS_MS
  · simp only [if_pos hc]; rfl
  · have hx := not_expired_add ctx.time secs TICKS (by decide) (fun h => hc (Or.inl h))
    simp only [if_neg hc]
    simp [ret, ciAt, wbL, itemOfCI, CI.setValue, CI.setExpire, Value.isEmptyColl, expiredAt, hx, hk]

theorem psetex_fin (ctx : Ctx) (live : Bytes → Option Item) (k v : Bytes) (ms : Int) (c : CI) (hk : c.key = k) :
    fin ctx.time live (Cmd.psetex ctx [.key 0, .int ms, .raw v] [c]) =
      if ms ≤ 0 ∨ ctx.time + ms * TICKS_MS ≥ 2 ^ 63 * TICKS_MS then
        (.err (strBytes (Msgs.fmt1 Msgs.INVALID_EXPIRE_MSG "psetex")), live)
      else (.ok, upd live k (some ⟨.str v, some (ctx.time + ms * TICKS_MS)⟩)) := by
  unfold Cmd.psetex
  by_cases hc : ms ≤ 0 ∨ ctx.time + ms * TICKS_MS ≥ 2 ^ 63 * TICKS_MS
  · simp only [if_pos hc]; rfl
  · have hx := not_expired_add ctx.time ms TICKS_MS (by decide) (fun h => hc (Or.inl h))
    simp only [if_neg hc]
    simp [ret, ciAt, wbL, itemOfCI, CI.setValue, CI.setExpire, Value.isEmptyColl, expiredAt, hx, hk]

theorem ciA_key (live : Bytes → Option Item) (k : Bytes) : (ciA live k).key = k := by
  unfold ciA; cases live k <;> rfl

theorem setex_runL (ctx : Ctx) (time : Int) (live : Bytes → Option Item) (ht : ctx.time = time) (k sb v : Bytes) :
    runL sigSetex Cmd.setex ctx [k, sb, v] time live =
      match Conv.int sb with
      | .error m => (.err (strBytes m), live)
      | .ok secs =>
        if secs ≤ 0 ∨ time + secs * TICKS ≥ 2 ^ 63 * TICKS_MS then
          (.err (strBytes (Msgs.fmt1 Msgs.INVALID_EXPIRE_MSG "setex")), live)
        else (.ok, upd live k (some ⟨.str v, some (time + secs * TICKS)⟩)) := by
  subst ht
  rw [runL_eq, sigSetex, applyL_K_int_bytes]
  cases hn : Conv.int sb with
  | error m => rfl
  | ok secs => exact setex_fin ctx live k v secs _ (ciA_key live k)

theorem psetex_runL (ctx : Ctx) (time : Int) (live : Bytes → Option Item) (ht : ctx.time = time) (k sb v : Bytes) :
    runL sigPsetex Cmd.psetex ctx [k, sb, v] time live =
      match Conv.int sb with
      | .error m => (.err (strBytes m), live)
      | .ok ms =>
        if ms ≤ 0 ∨ time + ms * TICKS_MS ≥ 2 ^ 63 * TICKS_MS then
          (.err (strBytes (Msgs.fmt1 Msgs.INVALID_EXPIRE_MSG "psetex")), live)
        else (.ok, upd live k (some ⟨.str v, some (time + ms * TICKS_MS)⟩)) := by
  subst ht
  rw [runL_eq, sigPsetex, applyL_K_int_bytes]
  cases hn : Conv.int sb with
  | error m => rfl
  | ok ms => exact psetex_fin ctx live k v ms _ (ciA_key live k)

/-! ## Part 7: SET -/

def sigSet : Sig := ⟨"set", [K, .bytes], [.bytes], false, 2, 0, true⟩

theorem p2args_bytes (opts : List Bytes) (n : Nat) :
    p2args (opts.map (fun b => (b, ArgTy.bytes))) n = opts.map Arg.raw := by
  induction opts with
  | nil => rfl
  | cons b bs ih => simp [p2args, K, ih]

theorem p2keys_bytes (opts : List Bytes) : p2keys (opts.map (fun b => (b, ArgTy.bytes))) = [] := by
  induction opts with
  | nil => rfl
  | cons b bs ih => simpa [p2keys, K] using ih

theorem p2keys_cons_K (b : Bytes) (l : List (Bytes × ArgTy)) : p2keys ((b, K) :: l) = b :: p2keys l := by
  simp [p2keys]

theorem p2keys_cons_bytes (b : Bytes) (l : List (Bytes × ArgTy)) : p2keys ((b, .bytes) :: l) = p2keys l := by
  simp [p2keys, K]

theorem applyL_set (k v : Bytes) (opts : List Bytes) (live : Bytes → Option Item) :
    applyL sigSet (k :: v :: opts) live = .ok (.ok (.key 0 :: .raw v :: opts.map .raw) [ciA live k]) := by
  have hz : (k :: v :: opts).zip (sigSet.types (k :: v :: opts).length) =
      (k, K) :: (v, .bytes) :: opts.map (fun b => (b, ArgTy.bytes)) := by
    simp [sigSet, Sig.types, Nat.mod_one, map_const_range, zip_replicate_len]
  rw [applyL_KB sigSet (k :: v :: opts) live (by simp [sigSet, Sig.checkArity]) (by simp [sigSet, Nat.mod_one])]
  · rw [hz, p2keys_cons_K, p2keys_cons_bytes, p2keys_bytes]
    simp [p2args, K, p2args_bytes]
  · rw [hz]
    intro x hx
    simp only [List.mem_cons, List.mem_map] at hx
    rcases hx with rfl | rfl | ⟨b, _, rfl⟩
    · exact Or.inl rfl
    · exact Or.inr rfl
    · exact Or.inr rfl

theorem rawArgs_map_raw (opts : List Bytes) : Cmd.rawArgs (opts.map Arg.raw) = opts := by
  induction opts with
  | nil => rfl
  | cons b bs ih => simp [Cmd.rawArgs, ih]

/-- the deadline stored by SET -/
def setDeadline (time : Int) (o : Cmd.SetOpts) (old : Option Int) : Option Int :=
  match o.px with
  | some px => some (time + px * TICKS_MS)
  | none =>
    match o.ex with
    | some ex => some (time + ex * TICKS)
    | none => if o.keepttl then old else none

/-- the reply of the GET option / of GETSET: the old string or nil -/
def oldStr (old : Option Item) : Reply :=
  match old with
  | some ⟨.str b, _⟩ => .bulk b
  | _ => .nil

/-- the key holds a value that is not a string -/
def notStr (old : Option Item) : Bool :=
  match old with
  | none => false
  | some ⟨.str _, _⟩ => false
  | some _ => true

/-- THE DECISION TABLE OF `SET key value [options]`, given the parsed options -/
def setSpec (version : Nat) (time : Int) (live : Bytes → Option Item) (k v : Bytes) (o : Cmd.SetOpts) :
    Reply × (Bytes → Option Item) :=
  let nExp := (if o.px.isSome then 1 else 0) + (if o.ex.isSome then 1 else 0) + (if o.keepttl then 1 else 0)
  if (o.xx && o.nx) || nExp > 1 then (synErr, live)
  else if o.nx && o.get && version < 7 then (synErr, live)
  else if o.get && notStr (live k) then (wrongtype, live)
  else
    let old : Reply := if o.get then oldStr (live k) else .nil
    if o.nx && (live k).isSome then (old, live)
    else if o.xx && !(live k).isSome then (old, live)
    else (if o.get then old else .ok,
      upd live k (some ⟨.str v, setDeadline time o ((live k).bind (·.expireat))⟩))

/-- accepted EX / PX values are positive -/
def PosOpts (o : Cmd.SetOpts) : Prop := (∀ ex, o.ex = some ex → 0 < ex) ∧ (∀ px, o.px = some px → 0 < px)

theorem parseSetOpts_pos (time : Int) (opts : List Bytes) (o0 o : Cmd.SetOpts) :
    Cmd.parseSetOpts time opts o0 = .ok o → PosOpts o0 → PosOpts o := by
  fun_induction Cmd.parseSetOpts time opts o0 <;> intro h h0
  case case1 => cases h; exact h0
  case case2 ih => exact ih h h0
  case case3 ih => exact ih h h0
  case case4 => cases h
  case case5 => cases h
  case case6 e _ hgood _ ih =>
    refine ih h ⟨?_, h0.2⟩
    intro ex' he; simp only [Option.some.injEq] at he; subst he
    simp only [not_or] at hgood; omega
  case case7 => cases h
  case case8 => cases h
  case case9 => cases h
  case case10 e _ hgood _ _ ih =>
    refine ih h ⟨h0.1, ?_⟩
    intro px' he; simp only [Option.some.injEq] at he; subst he
    simp only [not_or] at hgood; omega
  case case11 => cases h
  case case12 ih => exact ih h h0
  case case13 ih => exact ih h h0
  case case14 => cases h

def notStrV (ov : Option Value) : Bool :=
  match ov with
  | none => false
  | some (.str _) => false
  | some _ => true

def oldStrV (ov : Option Value) : Reply :=
  match ov with
  | some (.str b) => .bulk b
  | _ => .nil

/-- the `CommandItem` written by SET -/
def setCI (time : Int) (o : Cmd.SetOpts) (v : Bytes) (c : CI) : CI :=
  let c := if !o.keepttl then c.setValue (some (.str v)) else c.update (.str v)
  let c := match o.ex with | some ex => c.setExpire (some (time + ex * TICKS)) | none => c
  match o.px with | some px => c.setExpire (some (time + px * TICKS_MS)) | none => c

/-- the body of SET after option parsing, on one `CommandItem` -/
def setBody (ctx : Ctx) (v : Bytes) (o : Cmd.SetOpts) (c : CI) : Except Err BodyOut :=
  let nExp := (if o.px.isSome then 1 else 0) + (if o.ex.isSome then 1 else 0) + (if o.keepttl then 1 else 0)
  if (o.xx && o.nx) || nExp > 1 then .error Msgs.SYNTAX_ERROR_MSG
  else if o.nx && o.get && ctx.version < 7 then .error Msgs.SYNTAX_ERROR_MSG
  else if o.get && notStrV c.val then .error Msgs.WRONGTYPE_MSG
  else
    let old : Reply := if o.get then oldStrV c.val else .nil
    if o.nx && c.truthy then ret old [c]
    else if o.xx && !c.truthy then ret old [c]
    else ret (if o.get then old else .ok) [setCI ctx.time o v c]

theorem set_body_eq (ctx : Ctx) (v : Bytes) (opts : List Bytes) (c : CI) :
    Cmd.set ctx (.key 0 :: .raw v :: opts.map .raw) [c] =
      match Cmd.parseSetOpts ctx.time opts {} with
      | .error e => .error e
      | .ok o => setBody ctx v o c := by
  unfold Cmd.set
  simp only [rawArgs_map_raw]
  cases Cmd.parseSetOpts ctx.time opts {} with
  | error e => rfl
  | ok o => rfl

theorem notStr_ciA (live : Bytes → Option Item) (k : Bytes) : notStrV (ciA live k).val = notStr (live k) := by
  unfold ciA notStr notStrV
  cases h : live k with
  | none => rfl
  | some it => obtain ⟨v, e⟩ := it; cases v <;> rfl

theorem oldStr_ciA (live : Bytes → Option Item) (k : Bytes) : oldStrV (ciA live k).val = oldStr (live k) := by
  unfold ciA oldStr oldStrV
  cases h : live k with
  | none => rfl
  | some it => obtain ⟨v, e⟩ := it; cases v <;> rfl

theorem posOpts_default : PosOpts {} := by
  constructor <;> intro _ h <;> cases h

theorem set_write_fin (time : Int) (live : Bytes → Option Item) (ok : LiveOK time live) (k v : Bytes)
    (o : Cmd.SetOpts) (hpos : PosOpts o) (r : Reply) :
    fin time live (ret r [setCI time o v (ciA live k)]) =
      (r, upd live k (some ⟨.str v, setDeadline time o ((live k).bind (·.expireat))⟩)) := by
  obtain ⟨ex, px, xx, nx, keepttl, get⟩ := o
  unfold setDeadline setCI
  cases px with
  | some px =>
    have hx := not_expired_add time px TICKS_MS (by decide) (by have := hpos.2 px rfl; omega)
    cases ex <;> cases keepttl <;> cases h : live k <;>
      simp [ret, wbL, itemOfCI, CI.setValue, CI.update, CI.setExpire, Value.isEmptyColl, expiredAt, ciA, h, hx]
  | none =>
    cases ex with
    | some ex =>
      have hx := not_expired_add time ex TICKS (by decide) (by have := hpos.1 ex rfl; omega)
      cases keepttl <;> cases h : live k <;>
        simp [ret, wbL, itemOfCI, CI.setValue, CI.update, CI.setExpire, Value.isEmptyColl, expiredAt, ciA, h, hx]
    | none =>
      cases keepttl <;> cases h : live k <;>
        simp [ret, wbL, itemOfCI, CI.setValue, CI.update, Value.isEmptyColl, ciA, h]
      all_goals first
        | (simp [expiredAt]; done)
        | (rename_i it; rw [ok.fresh k it h]; rfl)

theorem fin_ite (time : Int) (live : Bytes → Option Item) (c : Prop) [Decidable c] (a b : Except Err BodyOut) :
    fin time live (if c then a else b) = if c then fin time live a else fin time live b := by
  split <;> rfl

theorem ciA_modified (live : Bytes → Option Item) (k : Bytes) : (ciA live k).modified = false := by
  unfold ciA; cases live k <;> rfl

theorem wbL_ciA (time : Int) (live L : Bytes → Option Item) (k : Bytes) : wbL time L (ciA live k) = L := by
  simp [wbL, ciA_modified]

theorem fin_ret_ciA (time : Int) (live : Bytes → Option Item) (r : Reply) (k : Bytes) :
    fin time live (ret r [ciA live k]) = (r, live) := by
  simp [ret, wbL_ciA]

theorem set_runL (ctx : Ctx) (time : Int) (live : Bytes → Option Item) (ok : LiveOK time live)
    (ht : ctx.time = time) (k v : Bytes) (opts : List Bytes) :
    runL sigSet Cmd.set ctx (k :: v :: opts) time live =
      match Cmd.parseSetOpts time opts {} with
      | .error e => (.err (strBytes e), live)
      | .ok o => setSpec ctx.version time live k v o := by
  subst ht
  rw [runL_eq, applyL_set]
  simp only
  rw [set_body_eq]
  cases hp : Cmd.parseSetOpts ctx.time opts {} with
  | error e => rfl
  | ok o =>
    have hpos := parseSetOpts_pos ctx.time opts {} o hp posOpts_default
    unfold setSpec setBody
    simp only [notStr_ciA, oldStr_ciA, truthy_ciA ok, fin_ite]
    refine ite_congr rfl (fun _ => rfl) (fun _ => ?_)
    refine ite_congr rfl (fun _ => rfl) (fun _ => ?_)
    refine ite_congr rfl (fun _ => rfl) (fun _ => ?_)
    refine ite_congr rfl (fun _ => ?_) (fun _ => ?_)
    · exact fin_ret_ciA ..
    refine ite_congr rfl (fun _ => ?_) (fun _ => ?_)
    · exact fin_ret_ciA ..
    · exact set_write_fin ctx.time live ok k v o hpos _

/-! ## Part 8: commands over a list of keys (DEL, UNLINK, EXISTS, MGET) -/

def sigDel : Sig := ⟨"del", [K], [K], false, 0, 0, true⟩
def sigUnlink : Sig := ⟨"unlink", [K], [K], false, 0, 0, true⟩
def sigExists : Sig := ⟨"exists", [K], [K], false, 0, 0, true⟩
def sigMget : Sig := ⟨"mget", [K], [K], false, 0, 0, true⟩

theorem p2args_keys (ks : List Bytes) (n : Nat) :
    p2args (ks.map (fun b => (b, K))) n = (List.range' n ks.length).map Arg.key := by
  induction ks generalizing n with
  | nil => rfl
  | cons b bs ih => simp [p2args, ih, List.range'_succ]

theorem p2keys_keys (ks : List Bytes) : p2keys (ks.map (fun b => (b, K))) = ks := by
  induction ks with
  | nil => rfl
  | cons b bs ih => simp [p2keys_cons_K, ih]

theorem applyL_keys (n : String) (ns : Bool) (a b : Nat) (c : Bool) (k : Bytes) (ks : List Bytes)
    (live : Bytes → Option Item) :
    applyL ⟨n, [K], [K], ns, a, b, c⟩ (k :: ks) live =
      .ok (.ok ((List.range' 0 (ks.length + 1)).map Arg.key) ((k :: ks).map (ciA live))) := by
  have hz : (k :: ks).zip (Sig.types ⟨n, [K], [K], ns, a, b, c⟩ (k :: ks).length) = (k :: ks).map (fun b => (b, K)) := by
    simp [Sig.types, Nat.mod_one, map_const_range, zip_replicate_len]
  rw [applyL_KB _ (k :: ks) live (by simp [Sig.checkArity]) (by simp [Nat.mod_one])]
  · rw [hz, p2keys_keys, p2args_keys]; rfl
  · rw [hz]
    intro x hx
    obtain ⟨b, _, rfl⟩ := List.mem_map.1 hx
    exact Or.inl rfl

theorem keyIdxs_keys (l : List Nat) : Cmd.keyIdxs (l.map Arg.key) = l := by
  induction l with
  | nil => rfl
  | cons i is ih => simp [Cmd.keyIdxs, ih]

theorem map_getD_range' {α} (l : List α) (d : α) : (List.range' 0 l.length).map (fun i => l.getD i d) = l := by
  apply List.ext_getElem
  · simp
  · intro i h1 h2
    simp at h1 ⊢
    simp [List.getD, h1]

/-! ### EXISTS -/

theorem exists_runL (ctx : Ctx) (time : Int) (live : Bytes → Option Item) (ok : LiveOK time live)
    (k : Bytes) (ks : List Bytes) :
    runL sigExists Cmd.exists_ ctx (k :: ks) time live =
      (.int (((k :: ks).filter (fun x => (live x).isSome)).length), live) := by
  rw [runL_eq, sigExists, applyL_keys]
  simp only [Cmd.exists_, keyIdxs_keys, ret, fin_ok]
  have hcl : ∀ L, ((k :: ks).map (ciA live)).foldl (wbL time) L = L := by
    generalize (k :: ks) = l
    intro L
    induction l with
    | nil => rfl
    | cons x xs ih => simp [wbL_ciA, ih]
  rw [hcl]
  congr 2
  have h1 : (List.range' 0 (ks.length + 1)) = List.range' 0 ((k :: ks).map (ciA live)).length := by simp
  rw [h1]
  generalize hl : (k :: ks).map (ciA live) = cis
  have : (List.filter (fun k => (ciAt cis k).truthy) (List.range' 0 cis.length)).length =
      (cis.filter CI.truthy).length := by
    conv => rhs; rw [← map_getD_range' cis default]
    rw [List.filter_map, List.length_map]
    rfl
  rw [this, ← hl, List.filter_map, List.length_map]
  exact congrArg (fun l : List Bytes => (l.length : Int)) (List.filter_congr fun x _ => truthy_ciA ok x)

/-! ### MGET -/

/-- one element of the MGET reply -/
def mgetOne (oi : Option Item) : Reply :=
  match oi with
  | some ⟨.str b, _⟩ => .bulk b
  | _ => .nil

theorem mget_runL (ctx : Ctx) (time : Int) (live : Bytes → Option Item) (k : Bytes) (ks : List Bytes) :
    runL sigMget Cmd.mget ctx (k :: ks) time live =
      (.arr ((k :: ks).map (fun x => mgetOne (live x))), live) := by
  rw [runL_eq, sigMget, applyL_keys]
  simp only [Cmd.mget, ret, fin_ok]
  have hcl : ∀ L, ((k :: ks).map (ciA live)).foldl (wbL time) L = L := by
    generalize (k :: ks) = l
    intro L
    induction l with
    | nil => rfl
    | cons x xs ih => simp [wbL_ciA, ih]
  rw [hcl]
  congr 2
  have h1 : ks.length + 1 = (k :: ks).length := rfl
  rw [h1]
  generalize (k :: ks) = l
  apply List.ext_getElem
  · simp
  · intro i h1 h2
    simp only [List.length_map, List.length_range'] at h1 h2
    simp only [List.getElem_map, List.getElem_range', ciAt, Nat.zero_add, Nat.one_mul]
    have : (l.map (ciA live)).getD i default = ciA live l[i] := by
      simp [List.getD, h2]
    rw [this]
    simp only [ciA, mgetOne]
    cases h : live l[i] with
    | none => rfl
    | some it => obtain ⟨v, e⟩ := it; cases v <;> rfl

/-! ### DEL / UNLINK -/

/-- the keys actually deleted by DEL: live, first occurrence, not yet in `done` -/
def delKeys (live : Bytes → Option Item) : List Bytes → List Bytes → List Bytes
  | [], _ => []
  | k :: ks, done =>
    if (live k).isSome && !done.contains k then k :: delKeys live ks (k :: done) else delKeys live ks done

/-- the `CommandItem`s after `_delete` -/
def delCis (live : Bytes → Option Item) : List Bytes → List Bytes → List CI
  | [], _ => []
  | k :: ks, done =>
    if (live k).isSome && !done.contains k then (ciA live k).setValue none :: delCis live ks (k :: done)
    else ciA live k :: delCis live ks done

def delStep (st : List CI × Int × List Bytes) (k : Nat) : List CI × Int × List Bytes :=
  let (cs, n, done) := st
  let c := ciAt cs k
  if c.truthy && !done.contains c.key then (cs.set k (c.setValue none), n + 1, c.key :: done)
  else st

theorem delStep_eq (cs : List CI) (n : Int) (done : List Bytes) (k : Nat) :
    delStep (cs, n, done) k =
      if (ciAt cs k).truthy && !done.contains (ciAt cs k).key then
        (cs.set k ((ciAt cs k).setValue none), n + 1, (ciAt cs k).key :: done)
      else (cs, n, done) := rfl

theorem deleteCore_eq (cis : List CI) (ks : List Nat) : Cmd.deleteCore cis ks = ks.foldl delStep (cis, 0, []) := rfl

theorem del_fold {time : Int} {live : Bytes → Option Item} (ok : LiveOK time live) (ks : List Bytes) :
    ∀ (pre : List CI) (cnt : Int) (done : List Bytes),
      ∃ d', (List.range' pre.length ks.length).foldl delStep (pre ++ ks.map (ciA live), cnt, done) =
        (pre ++ delCis live ks done, cnt + (delKeys live ks done).length, d') := by
  induction ks with
  | nil => intro pre cnt done; exact ⟨done, by simp [delCis, delKeys]⟩
  | cons k ks ih =>
    intro pre cnt done
    have hc : ciAt (pre ++ ciA live k :: ks.map (ciA live)) pre.length = ciA live k := by
      simp [ciAt, List.getD]
    simp only [List.length_cons, List.range'_succ, List.foldl_cons, List.map_cons]
    rw [delStep_eq]
    simp only [hc, truthy_ciA ok, ciA_key]
    by_cases hcond : ((live k).isSome && !done.contains k) = true
    · simp only [hcond, if_true, delCis, delKeys]
      have hset : (pre ++ ciA live k :: ks.map (ciA live)).set pre.length ((ciA live k).setValue none) =
          (pre ++ [(ciA live k).setValue none]) ++ ks.map (ciA live) := by
        simp
      rw [hset]
      obtain ⟨d', hd⟩ := ih (pre ++ [(ciA live k).setValue none]) (cnt + 1) (k :: done)
      refine ⟨d', ?_⟩
      have hl : (pre ++ [(ciA live k).setValue none]).length = pre.length + 1 := by simp
      rw [hl] at hd
      rw [hd]
      simp only [List.append_assoc, List.singleton_append, List.length_cons, Prod.mk.injEq, true_and]
      refine ⟨?_, trivial⟩
      push_cast; omega
    · simp only [hcond, if_false, Bool.false_eq_true, delCis, delKeys]
      have hset : pre ++ ciA live k :: ks.map (ciA live) = (pre ++ [ciA live k]) ++ ks.map (ciA live) := by simp
      rw [hset]
      obtain ⟨d', hd⟩ := ih (pre ++ [ciA live k]) cnt done
      refine ⟨d', ?_⟩
      have hl : (pre ++ [ciA live k]).length = pre.length + 1 := by simp
      rw [hl] at hd
      rw [hd]
      simp

/-- write-back of the `CommandItem`s of DEL -/
theorem del_wb (time : Int) (live : Bytes → Option Item) (ks : List Bytes) :
    ∀ (done : List Bytes) (L : Bytes → Option Item),
      (delCis live ks done).foldl (wbL time) L =
        fun x => if x ∈ delKeys live ks done then none else L x := by
  induction ks with
  | nil => intro done L; simp [delCis, delKeys]
  | cons k ks ih =>
    intro done L
    by_cases hcond : ((live k).isSome && !done.contains k) = true
    · simp only [delCis, delKeys, hcond, if_true, List.foldl_cons]
      rw [ih]
      funext x
      simp only [wbL, CI.setValue, itemOfCI, if_true, ciA_key, List.mem_cons]
      have hk : ({ ciA live k with val := none, modified := true, expireat := none, expMod := true } : CI).key = k :=
        ciA_key live k
      by_cases hx : x = k
      · subst hx; simp [hk]
      · simp [hx, upd, hk]
    · simp only [delCis, delKeys, hcond, if_false, Bool.false_eq_true, List.foldl_cons, wbL_ciA]
      exact ih done L

theorem mem_delKeys (live : Bytes → Option Item) (ks : List Bytes) :
    ∀ (done : List Bytes) (x : Bytes),
      x ∈ delKeys live ks done ↔ x ∈ ks ∧ x ∉ done ∧ (live x).isSome = true := by
  induction ks with
  | nil => intro done x; simp [delKeys]
  | cons k ks ih =>
    intro done x
    by_cases hcond : ((live k).isSome && !done.contains k) = true
    · simp only [delKeys, hcond, if_true, List.mem_cons, ih]
      simp only [Bool.and_eq_true, Bool.not_eq_true', List.contains_eq_mem, decide_eq_false_iff_not] at hcond
      constructor
      · rintro (rfl | ⟨h1, h2, h3⟩)
        · exact ⟨Or.inl rfl, hcond.2, hcond.1⟩
        · exact ⟨Or.inr h1, fun h => h2 (Or.inr h), h3⟩
      · rintro ⟨h1 | h1, h2, h3⟩
        · exact Or.inl h1
        · by_cases hx : x = k
          · exact Or.inl hx
          · exact Or.inr ⟨h1, fun h => by rcases h with h | h; exact hx h; exact h2 h, h3⟩
    · simp only [delKeys, hcond, if_false, Bool.false_eq_true, List.mem_cons, ih]
      simp only [Bool.and_eq_true, Bool.not_eq_true', List.contains_eq_mem, decide_eq_false_iff_not, not_and,
        Classical.not_not] at hcond
      constructor
      · rintro ⟨h1, h2, h3⟩; exact ⟨Or.inr h1, h2, h3⟩
      · rintro ⟨h1 | h1, h2, h3⟩
        · subst h1; exact absurd (hcond h3) h2
        · exact ⟨h1, h2, h3⟩

theorem nodup_delKeys (live : Bytes → Option Item) (ks : List Bytes) :
    ∀ (done : List Bytes), (delKeys live ks done).Nodup := by
  induction ks with
  | nil => intro done; simp [delKeys]
  | cons k ks ih =>
    intro done
    by_cases hcond : ((live k).isSome && !done.contains k) = true
    · simp only [delKeys, hcond, if_true, List.nodup_cons]
      refine ⟨?_, ih _⟩
      rw [mem_delKeys]
      rintro ⟨_, h2, _⟩
      exact h2 (by simp)
    · simp only [delKeys, hcond, if_false, Bool.false_eq_true]
      exact ih done

theorem del_body_fin {time : Int} {live : Bytes → Option Item} (ok : LiveOK time live) (ctx : Ctx)
    (k : Bytes) (ks : List Bytes) :
    fin time live (Cmd.del ctx ((List.range' 0 (ks.length + 1)).map Arg.key) ((k :: ks).map (ciA live))) =
      (.int (delKeys live (k :: ks) []).length,
        fun x => if x ∈ delKeys live (k :: ks) [] then none else live x) := by
  obtain ⟨d', hd⟩ := del_fold ok (k :: ks) [] 0 []
  simp only [List.length_nil, List.length_cons, List.nil_append, Int.zero_add] at hd
  simp only [Cmd.del, keyIdxs_keys, deleteCore_eq, hd, ret, fin_ok, del_wb]

theorem del_runL (ctx : Ctx) (time : Int) (live : Bytes → Option Item) (ok : LiveOK time live)
    (k : Bytes) (ks : List Bytes) :
    runL sigDel Cmd.del ctx (k :: ks) time live =
      (.int (delKeys live (k :: ks) []).length,
        fun x => if x ∈ delKeys live (k :: ks) [] then none else live x) := by
  rw [runL_eq, sigDel, applyL_keys]
  exact del_body_fin ok ctx k ks

theorem unlink_runL (ctx : Ctx) (time : Int) (live : Bytes → Option Item) (ok : LiveOK time live)
    (k : Bytes) (ks : List Bytes) :
    runL sigUnlink Cmd.del ctx (k :: ks) time live =
      (.int (delKeys live (k :: ks) []).length,
        fun x => if x ∈ delKeys live (k :: ks) [] then none else live x) := by
  rw [runL_eq, sigUnlink, applyL_keys]
  exact del_body_fin ok ctx k ks

/-- afterwards none of the named keys is live, the others are untouched -/
theorem del_after {time : Int} {live : Bytes → Option Item} (ok : LiveOK time live) (l : List Bytes) (x : Bytes) :
    (if x ∈ delKeys live l [] then none else live x) = if x ∈ l then none else live x := by
  have hm := mem_delKeys live l [] x
  by_cases hx : x ∈ l
  · cases h : live x <;> simp [hx, h, hm]
  · simp [hx, hm]

/-! ## Part 9: MSET / MSETNX -/

def sigMset : Sig := ⟨"mset", [K, .bytes], [K, .bytes], false, 0, 0, true⟩
def sigMsetnx : Sig := ⟨"msetnx", [K, .bytes], [K, .bytes], false, 0, 0, true⟩

/-- the raw argument list `k₁ v₁ k₂ v₂ …` -/
def flat : List (Bytes × Bytes) → List Bytes
  | [] => []
  | p :: ps => p.1 :: p.2 :: flat ps

def flatTys : List (Bytes × Bytes) → List (Bytes × ArgTy)
  | [] => []
  | p :: ps => (p.1, K) :: (p.2, .bytes) :: flatTys ps

def msetArgs : List (Bytes × Bytes) → Nat → List Arg
  | [], _ => []
  | p :: ps, n => .key n :: .raw p.2 :: msetArgs ps (n + 1)

def idxPairs : List (Bytes × Bytes) → Nat → List (Nat × Bytes)
  | [], _ => []
  | p :: ps, n => (n, p.2) :: idxPairs ps (n + 1)

theorem flat_length (ps : List (Bytes × Bytes)) : (flat ps).length = 2 * ps.length := by
  induction ps with
  | nil => rfl
  | cons p ps ih => simp [flat, ih]; omega

theorem range_pairs (m : Nat) (t1 t2 d : ArgTy) :
    (List.range (2 * m)).map (fun i => [t1, t2].getD (i % 2) d) = (List.replicate m [t1, t2]).flatten := by
  induction m with
  | zero => rfl
  | succ m ih =>
    have : 2 * (m + 1) = 2 * m + 1 + 1 := by omega
    rw [this, List.range_succ, List.range_succ, List.map_append, List.map_append, ih, List.replicate_succ',
      List.flatten_append]
    have h0 : (2 * m) % 2 = 0 := by omega
    have h1 : (2 * m + 1) % 2 = 1 := by omega
    simp [h0, h1]

theorem types_pairs (n : String) (ns : Bool) (a b : Nat) (c : Bool) (m : Nat) :
    Sig.types ⟨n, [K, .bytes], [K, .bytes], ns, a, b, c⟩ (2 * (m + 1)) =
      (List.replicate (m + 1) [K, ArgTy.bytes]).flatten := by
  have : 2 * (m + 1) - 2 = 2 * m := by omega
  simp only [Sig.types, List.length_cons, List.length_nil, this]
  rw [range_pairs, List.replicate_succ, List.flatten_cons]

theorem zip_flat (ps : List (Bytes × Bytes)) :
    (flat ps).zip (List.replicate ps.length [K, ArgTy.bytes]).flatten = flatTys ps := by
  induction ps with
  | nil => rfl
  | cons p ps ih => simp [flat, flatTys, List.replicate_succ, ih]

theorem KB_flatTys (ps : List (Bytes × Bytes)) : KB (flatTys ps) := by
  induction ps with
  | nil => intro x hx; cases hx
  | cons p ps ih =>
    intro x hx
    simp only [flatTys, List.mem_cons] at hx
    rcases hx with rfl | rfl | hx
    · exact Or.inl rfl
    · exact Or.inr rfl
    · exact ih x hx

theorem p2args_flat (ps : List (Bytes × Bytes)) (n : Nat) : p2args (flatTys ps) n = msetArgs ps n := by
  induction ps generalizing n with
  | nil => rfl
  | cons p ps ih => simp [flatTys, p2args, msetArgs, K, ih]

theorem p2keys_flat (ps : List (Bytes × Bytes)) : p2keys (flatTys ps) = ps.map (·.1) := by
  induction ps with
  | nil => rfl
  | cons p ps ih => simp [flatTys, p2keys_cons_K, p2keys_cons_bytes, ih]

theorem applyL_pairs (n : String) (ns : Bool) (a b : Nat) (c : Bool) (p : Bytes × Bytes)
    (ps : List (Bytes × Bytes)) (live : Bytes → Option Item) :
    applyL ⟨n, [K, .bytes], [K, .bytes], ns, a, b, c⟩ (flat (p :: ps)) live =
      .ok (.ok (msetArgs (p :: ps) 0) ((p :: ps).map (fun q => ciA live q.1))) := by
  have hlen : (flat (p :: ps)).length = 2 * (ps.length + 1) := by rw [flat_length]; rfl
  have hz : (flat (p :: ps)).zip (Sig.types ⟨n, [K, .bytes], [K, .bytes], ns, a, b, c⟩ (flat (p :: ps)).length) =
      flatTys (p :: ps) := by
    rw [hlen, types_pairs]; exact zip_flat (p :: ps)
  rw [applyL_KB _ _ live (by rw [hlen]; simp [Sig.checkArity]; omega)
    (by rw [hlen]; simp; omega)]
  · rw [hz, p2keys_flat, p2args_flat, List.map_map]; rfl
  · rw [hz]; exact KB_flatTys _

theorem pairsOf_msetArgs (ps : List (Bytes × Bytes)) (n : Nat) : Cmd.pairsOf (msetArgs ps n) = idxPairs ps n := by
  induction ps generalizing n with
  | nil => rfl
  | cons p ps ih => simp [msetArgs, Cmd.pairsOf, idxPairs, ih]

def msetStep (cs : List CI) (p : Nat × Bytes) : List CI := cs.set p.1 ((ciAt cs p.1).setValue (some (.str p.2)))

theorem msetCore_eq (cis : List CI) (ps : List (Nat × Bytes)) : Cmd.msetCore cis ps = ps.foldl msetStep cis := rfl

theorem mset_fold (live : Bytes → Option Item) (ps : List (Bytes × Bytes)) :
    ∀ (pre : List CI),
      (idxPairs ps pre.length).foldl msetStep (pre ++ ps.map (fun q => ciA live q.1)) =
        pre ++ ps.map (fun q => (ciA live q.1).setValue (some (.str q.2))) := by
  induction ps with
  | nil => intro pre; simp [idxPairs]
  | cons p ps ih =>
    intro pre
    have hc : ciAt (pre ++ ciA live p.1 :: ps.map (fun q => ciA live q.1)) pre.length = ciA live p.1 := by
      simp [ciAt, List.getD]
    simp only [idxPairs, List.foldl_cons, List.map_cons]
    have hs : msetStep (pre ++ ciA live p.1 :: ps.map (fun q => ciA live q.1)) (pre.length, p.2) =
        (pre ++ [(ciA live p.1).setValue (some (.str p.2))]) ++ ps.map (fun q => ciA live q.1) := by
      simp only [msetStep, hc]; simp
    rw [hs]
    have := ih (pre ++ [(ciA live p.1).setValue (some (.str p.2))])
    have hl : (pre ++ [(ciA live p.1).setValue (some (.str p.2))]).length = pre.length + 1 := by simp
    rw [hl] at this
    rw [this]; simp

/-- the key space after MSET: the pairs are written left to right (so the last duplicate wins) -/
def msetLive (live : Bytes → Option Item) (ps : List (Bytes × Bytes)) : Bytes → Option Item :=
  ps.foldl (fun L q => upd L q.1 (some ⟨.str q.2, none⟩)) live

theorem mset_wb (time : Int) (live : Bytes → Option Item) (ps : List (Bytes × Bytes)) :
    ∀ L : Bytes → Option Item,
      (ps.map (fun q => (ciA live q.1).setValue (some (.str q.2)))).foldl (wbL time) L = msetLive L ps := by
  induction ps with
  | nil => intro L; rfl
  | cons p ps ih =>
    intro L
    simp only [List.map_cons, List.foldl_cons, msetLive]
    rw [ih]
    have : wbL time L ((ciA live p.1).setValue (some (Value.str p.2))) = upd L p.1 (some ⟨.str p.2, none⟩) := by
      have hk : ({ ciA live p.1 with val := some (Value.str p.2), modified := true, expireat := none, expMod := true } : CI).key = p.1 :=
        ciA_key live p.1
      simp [wbL, CI.setValue, itemOfCI, Value.isEmptyColl, expiredAt, hk]
    rw [this]; rfl

theorem mset_runL (ctx : Ctx) (time : Int) (live : Bytes → Option Item) (p : Bytes × Bytes)
    (ps : List (Bytes × Bytes)) :
    runL sigMset Cmd.mset ctx (flat (p :: ps)) time live = (.ok, msetLive live (p :: ps)) := by
  rw [runL_eq, sigMset, applyL_pairs]
  simp only [Cmd.mset, pairsOf_msetArgs, msetCore_eq, ret, fin_ok]
  have := mset_fold live (p :: ps) []
  simp only [List.length_nil, List.nil_append] at this
  rw [this, mset_wb]

theorem msetnx_runL (ctx : Ctx) (time : Int) (live : Bytes → Option Item) (ok : LiveOK time live)
    (p : Bytes × Bytes) (ps : List (Bytes × Bytes)) :
    runL sigMsetnx Cmd.msetnx ctx (flat (p :: ps)) time live =
      if (p :: ps).any (fun q => (live q.1).isSome) then (.int 0, live)
      else (.int 1, msetLive live (p :: ps)) := by
  rw [runL_eq, sigMsetnx, applyL_pairs]
  simp only [Cmd.msetnx, pairsOf_msetArgs]
  have hany : ∀ (l : List (Bytes × Bytes)) (pre : List CI),
      (idxPairs l pre.length).any (fun q => (ciAt (pre ++ l.map (fun q => ciA live q.1)) q.1).truthy) =
        l.any (fun q => (live q.1).isSome) := by
    intro l
    induction l with
    | nil => intro pre; rfl
    | cons q l ih =>
      intro pre
      have hc : ciAt (pre ++ ciA live q.1 :: l.map (fun q => ciA live q.1)) pre.length = ciA live q.1 := by
        simp [ciAt, List.getD]
      simp only [idxPairs, List.any_cons, List.map_cons, hc, truthy_ciA ok]
      have := ih (pre ++ [ciA live q.1])
      simp only [List.length_append, List.length_cons, List.length_nil, List.append_assoc,
        List.singleton_append] at this
      rw [this]
  have h0 := hany (p :: ps) []
  simp only [List.length_nil, List.nil_append] at h0
  rw [h0]
  by_cases hc : (p :: ps).any (fun q => (live q.1).isSome) = true
  · simp only [hc, if_true, ret, fin_ok]
    congr 1
    generalize (p :: ps) = l
    induction l with
    | nil => rfl
    | cons x xs ih => simp [wbL_ciA, ih]
  · simp only [hc, if_false, Bool.false_eq_true, msetCore_eq, ret, fin_ok]
    have := mset_fold live (p :: ps) []
    simp only [List.length_nil, List.nil_append] at this
    rw [this, mset_wb]

/-- what MSET leaves at a key: the value of the LAST pair naming it, otherwise the old entry -/
theorem msetLive_apply (live : Bytes → Option Item) (ps : List (Bytes × Bytes)) (x : Bytes) :
    msetLive live ps x =
      match ps.reverse.find? (fun q => q.1 == x) with
      | some q => some ⟨.str q.2, none⟩
      | none => live x := by
  induction ps generalizing live with
  | nil => rfl
  | cons p ps ih =>
    show msetLive (upd live p.1 (some ⟨.str p.2, none⟩)) ps x = _
    rw [ih, List.reverse_cons, List.find?_append]
    cases h : ps.reverse.find? (fun q => q.1 == x) with
    | some q => rfl
    | none =>
      by_cases hx : p.1 = x
      · subst hx; simp [upd]
      · have : (p.1 == x) = false := by simpa using hx
        have hx' : x ≠ p.1 := fun e => hx e.symm
        simp [this, upd, hx']

/-! ## Part 10: RENAME / RENAMENX -/

def sigRename : Sig := ⟨"rename", [K, K], [], false, 2, 0, false⟩
def sigRenamenx : Sig := ⟨"renamenx", [K, K], [], false, 2, 0, false⟩

theorem applyL_KK (n : String) (ns : Bool) (a b : Nat) (c : Bool) (k nk : Bytes) (live : Bytes → Option Item) :
    applyL ⟨n, [K, K], [], ns, a, b, c⟩ [k, nk] live = .ok (.ok [.key 0, .key 1] [ciA live k, ciA live nk]) := by
  cases h1 : live k <;> cases h2 : live nk <;>
    simp [applyL, K, Sig.checkArity, Sig.types, pass1L, pass2L, ciA, h1, h2]

/-- the key space after a successful rename of `k` (holding `it`) to `nk` -/
def renamed (live : Bytes → Option Item) (k nk : Bytes) (it : Item) : Bytes → Option Item :=
  if nk = k then live else upd (upd live k none) nk (some it)

theorem renameCore_fin {time : Int} {live : Bytes → Option Item} (ok : LiveOK time live) (k nk : Bytes)
    (it : Item) (h : live k = some it) (r : Reply) :
    fin time live (ret r (Cmd.renameCore [ciA live k, ciA live nk] 0 1)) = (r, renamed live k nk it) := by
  have hf := ok.fresh k it h
  have hn := ok.nonempty k it h
  unfold Cmd.renameCore renamed
  simp only [ciAt, List.getD_cons_zero, ciA_key]
  have h1 : [ciA live k, ciA live nk].getD 1 default = ciA live nk := rfl
  rw [h1]
  simp only [ciA_key]
  by_cases hk : nk = k
  · subst hk
    simp [ret, wbL_ciA]
  · have hb : (nk != k) = true := by simpa using hk
    simp only [hb, if_true, if_neg hk, ret, fin_ok]
    have hkey1 : ∀ (v : Option Value) (e : Option Int), (((ciA live nk).setValue v).setExpire e).key = nk := by
      intro v e; exact ciA_key live nk
    have hkey0 : ∀ (v : Option Value), ((ciA live k).setValue v).key = k := by
      intro v; exact ciA_key live k
    have hval : (ciA live k).val = some it.value ∧ (ciA live k).expireat = it.expireat := by
      simp [ciA, h]
    simp [wbL, CI.setValue, CI.setExpire, itemOfCI, hkey1, hkey0, hval.1, hval.2, hn, hf, ciA_key]

theorem rename_runL (ctx : Ctx) (time : Int) (live : Bytes → Option Item) (ok : LiveOK time live) (k nk : Bytes) :
    runL sigRename Cmd.rename ctx [k, nk] time live =
      match live k with
      | none => (.err (strBytes Msgs.NO_KEY_MSG), live)
      | some it => (.ok, renamed live k nk it) := by
  rw [runL_eq, sigRename, applyL_KK]
  simp only [Cmd.rename, ciAt, List.getD_cons_zero, truthy_ciA ok]
  cases h : live k with
  | none => rfl
  | some it =>
    simp only [Option.isSome_some, Bool.not_true, Bool.false_eq_true, if_false]
    exact renameCore_fin ok k nk it h _

theorem renamenx_runL (ctx : Ctx) (time : Int) (live : Bytes → Option Item) (ok : LiveOK time live) (k nk : Bytes) :
    runL sigRenamenx Cmd.renamenx ctx [k, nk] time live =
      match live k with
      | none => (.err (strBytes Msgs.NO_KEY_MSG), live)
      | some it => if (live nk).isSome then (.int 0, live) else (.int 1, renamed live k nk it) := by
  rw [runL_eq, sigRenamenx, applyL_KK]
  have h1 : ciAt [ciA live k, ciA live nk] 1 = ciA live nk := rfl
  simp only [Cmd.renamenx, h1]
  simp only [ciAt, List.getD_cons_zero, truthy_ciA ok]
  cases h : live k with
  | none => rfl
  | some it =>
    simp only [Option.isSome_some, Bool.not_true, Bool.false_eq_true, if_false]
    by_cases hn : (live nk).isSome = true
    · simp [hn, ret, wbL_ciA]
    · simp only [hn, if_false, Bool.false_eq_true]
      exact renameCore_fin ok k nk it h _

/-! ## Part 11: DUMP / RESTORE -/

def sigDump : Sig := ⟨"dump", [.key none .nil], [], false, 1, 0, false⟩
def sigRestore : Sig := ⟨"restore", [K, .int, .bytes], [.bytes], false, 3, 0, true⟩

theorem dump_runL (ctx : Ctx) (time : Int) (live : Bytes → Option Item) (k : Bytes) :
    runL sigDump Cmd.dump ctx [k] time live =
      (match live k with
        | none => .nil
        | some it => .bulk (Cmd.dumpMagic ++ Cmd.dumpValue it.value), live) := by
  cases h : live k with
  | none => simp [runL_eq, sigDump, applyL, Sig.checkArity, Sig.types, pass1L, h, Sig.missingReply]
  | some it =>
    simp [runL_eq, sigDump, applyL, Sig.checkArity, Sig.types, pass1L, pass2L, h, Cmd.dump, ciAt, ret, wbL]

theorem zip_raw_bytes (opts : List Bytes) (n : Nat) (h : opts.length ≤ n) :
    (opts.map Arg.raw).zip (List.replicate n ArgTy.bytes) =
      (opts.map (fun b => (b, ArgTy.bytes))).map (fun x => (Arg.raw x.1, x.2)) := by
  induction opts generalizing n with
  | nil => simp
  | cons b bs ih =>
    cases n with
    | zero => simp at h
    | succ n => simp [List.replicate_succ, ih n (by simpa using h)]

theorem KB_bytes (opts : List Bytes) : KB (opts.map (fun b => (b, ArgTy.bytes))) := by
  intro x hx
  obtain ⟨b, _, rfl⟩ := List.mem_map.1 hx
  exact Or.inr rfl

theorem pass1L_bytes_tail (live : Bytes → Option Item) (opts : List Bytes) (acc : List Arg) :
    pass1L live (opts.zip (List.replicate opts.length ArgTy.bytes)) acc =
      .ok (.inr (acc.reverse ++ opts.map Arg.raw)) := by
  rw [zip_replicate_len opts _ _ (Nat.le_refl _), pass1L_KB live _ (KB_bytes opts), List.map_map]
  rfl

theorem pass2L_bytes_tail (live : Bytes → Option Item) (opts : List Bytes) (accA : List Arg) (accC : List CI) :
    pass2L live ((opts.map Arg.raw).zip (List.replicate opts.length ArgTy.bytes)) accA accC =
      .ok (accA.reverse ++ opts.map Arg.raw, accC.reverse) := by
  rw [zip_raw_bytes opts _ (Nat.le_refl _), pass2L_KB live _ (KB_bytes opts), p2args_bytes, p2keys_bytes]
  simp

theorem applyL_restore (k ttlb payload : Bytes) (opts : List Bytes) (live : Bytes → Option Item) :
    applyL sigRestore (k :: ttlb :: payload :: opts) live =
      match Conv.int ttlb with
      | .error m => .error m
      | .ok ttl => .ok (.ok (.key 0 :: .int ttl :: .raw payload :: opts.map .raw) [ciA live k]) := by
  have ht : sigRestore.types (k :: ttlb :: payload :: opts).length =
      K :: .int :: .bytes :: List.replicate opts.length ArgTy.bytes := by
    simp [sigRestore, Sig.types, Nat.mod_one, map_const_range]
  unfold applyL
  rw [ht]
  have h1 : sigRestore.checkArity (k :: ttlb :: payload :: opts).length = true := by
    simp [sigRestore, Sig.checkArity]
  have h2 : (!sigRestore.rep.isEmpty &&
      ((k :: ttlb :: payload :: opts).length - sigRestore.fixed.length) % sigRestore.rep.length != 0) = false := by
    simp [sigRestore, Nat.mod_one]
  simp only [h1, h2, Bool.not_true, Bool.false_eq_true, if_false]
  cases hn : Conv.int ttlb with
  | error m => simp [pass1L, K, Conv.decode, hn, Except.map]
  | ok ttl =>
    cases h : live k <;>
      simp [pass1L, pass2L, K, Conv.decode, hn, Except.map, pass1L_bytes_tail, pass2L_bytes_tail, ciA, h]

theorem restore_rawArgs (opts : List Bytes) : Cmd.restore.rawArgs' (opts.map Arg.raw) = opts := by
  induction opts with
  | nil => rfl
  | cons b bs ih => simp [Cmd.restore.rawArgs', ih]

/-- what RESTORE stores for the decoded value `v` and the relative TTL `ttl` (milliseconds) -/
def restoredItem (time : Int) (v : Value) (ttl : Int) : Option Item :=
  if v.isEmptyColl then none else some ⟨v, if ttl = 0 then none else some (time + ttl * TICKS_MS)⟩

/-- the decoded payload: `none` unless it has the DUMP header and a well-formed body -/
def decodePayload (payload : Bytes) : Option Value :=
  if payload.take Cmd.dumpMagic.length == Cmd.dumpMagic then Cmd.loadValue (payload.drop Cmd.dumpMagic.length)
  else none

def restoreSpec (time : Int) (live : Bytes → Option Item) (k payload : Bytes) (opts : List Bytes) (ttl : Int) :
    Reply × (Bytes → Option Item) :=
  if !opts.all (fun a => casematch a "replace") then (synErr, live)
  else if (live k).isSome && !(!opts.isEmpty) then (.err (strBytes Msgs.RESTORE_KEY_EXISTS), live)
  else
    match decodePayload payload with
    | none => (.err (strBytes Msgs.RESTORE_INVALID_CHECKSUM_MSG), live)
    | some v =>
      if ttl < 0 then (.err (strBytes Msgs.RESTORE_INVALID_TTL_MSG), live)
      else (.ok, upd live k (restoredItem time v ttl))

theorem restore_runL (ctx : Ctx) (time : Int) (live : Bytes → Option Item) (ok : LiveOK time live)
    (ht : ctx.time = time) (k ttlb payload : Bytes) (opts : List Bytes) :
    runL sigRestore Cmd.restore ctx (k :: ttlb :: payload :: opts) time live =
      match Conv.int ttlb with
      | .error m => (.err (strBytes m), live)
      | .ok ttl => restoreSpec time live k payload opts ttl := by
  subst ht
  rw [runL_eq, applyL_restore]
  cases hn : Conv.int ttlb with
  | error m => rfl
  | ok ttl =>
    simp only
    unfold Cmd.restore restoreSpec
    simp only [restore_rawArgs, ciAt, List.getD_cons_zero, truthy_ciA ok, fin_ite]
    refine ite_congr rfl (fun _ => rfl) (fun _ => ?_)
    refine ite_congr rfl (fun _ => rfl) (fun _ => ?_)
    unfold decodePayload
    cases hd : (if payload.take Cmd.dumpMagic.length == Cmd.dumpMagic then
        Cmd.loadValue (payload.drop Cmd.dumpMagic.length) else none) with
    | none => rfl
    | some v =>
      simp only [fin_ite]
      refine ite_congr rfl (fun _ => rfl) (fun hneg => ?_)
      have hkey : ∀ (e : Option Int), (((ciA live k).setValue (some v)).setExpire e).key = k := by
        intro e; exact ciA_key live k
      unfold restoredItem
      by_cases h0 : ttl = 0
      · subst h0
        by_cases hv : v.isEmptyColl = true <;>
          simp [ret, wbL, itemOfCI, CI.setValue, CI.setExpire, hkey, expiredAt, hv, ciA_key]
      · have hpos : ¬ ttl ≤ 0 := by omega
        have hx := not_expired_add ctx.time ttl TICKS_MS (by decide) hpos
        have hb : (ttl == 0) = false := by simpa using h0
        by_cases hv : v.isEmptyColl = true <;>
          simp [ret, wbL, itemOfCI, CI.setValue, CI.setExpire, hkey, expiredAt, hv, h0, hb, hx, ciA_key]

/-! ## Part 12: the DUMP payload round trip -/

theorem decodePayload_dump (body : Bytes) : decodePayload (Cmd.dumpMagic ++ body) = Cmd.loadValue body := by
  unfold decodePayload
  rw [List.take_left', List.drop_left']
  · simp
  · rfl
  · rfl

/-- the two hex characters of a byte -/
def hexChars (b : Bytes) : List Char := b.flatMap (fun c => [hexDigit (c.toNat / 16), hexDigit (c.toNat % 16)])

theorem hexDigit_facts : ∀ n < 16,
    String.utf8EncodeChar (hexDigit n) = [UInt8.ofNat (hexDigit n).toNat] ∧
    Char.ofNat (UInt8.ofNat (hexDigit n).toNat).toNat = hexDigit n ∧
    hexVal (hexDigit n) = some n ∧ UInt8.ofNat (hexDigit n).toNat ≠ 95 := by
  decide

theorem byte_split (c : UInt8) : UInt8.ofNat (c.toNat / 16 * 16 + c.toNat % 16) = c := by
  have : c.toNat / 16 * 16 + c.toNat % 16 = c.toNat := by omega
  rw [this]; simp

theorem fromHexChars_hexChars (b : Bytes) : fromHexChars (hexChars b) = some b := by
  induction b with
  | nil => rfl
  | cons c cs ih =>
    have h1 := (hexDigit_facts (c.toNat / 16) (by have := c.toNat_lt; omega)).2.2.1
    have h2 := (hexDigit_facts (c.toNat % 16) (by omega)).2.2.1
    show fromHexChars (hexDigit (c.toNat / 16) :: hexDigit (c.toNat % 16) :: hexChars cs) = _
    simp only [fromHexChars, h1, h2, ih, byte_split]

theorem allHex_hexChars (b : Bytes) : ∀ ch ∈ hexChars b, ∃ n, n < 16 ∧ ch = hexDigit n := by
  intro ch hch
  simp only [hexChars, List.mem_flatMap, List.mem_cons, List.not_mem_nil, or_false] at hch
  obtain ⟨c, _, h | h⟩ := hch
  · exact ⟨c.toNat / 16, by have := c.toNat_lt; omega, h⟩
  · exact ⟨c.toNat % 16, by omega, h⟩

theorem strBytes_hex (cs : List Char) (h : ∀ ch ∈ cs, ∃ n, n < 16 ∧ ch = hexDigit n) :
    strBytes (String.ofList cs) = cs.map (fun ch => UInt8.ofNat ch.toNat) := by
  unfold strBytes
  rw [strBytes_ofList]
  induction cs with
  | nil => rfl
  | cons ch cs ih =>
    obtain ⟨n, hn, rfl⟩ := h ch (by simp)
    simp only [List.flatMap_cons, List.map_cons, (hexDigit_facts n hn).1]
    rw [ih (fun c hc => h c (by simp [hc]))]
    rfl

theorem bytesStr_hex (cs : List Char) (h : ∀ ch ∈ cs, ∃ n, n < 16 ∧ ch = hexDigit n) :
    bytesStr (cs.map (fun ch => UInt8.ofNat ch.toNat)) = String.ofList cs := by
  unfold bytesStr
  congr 1
  rw [List.map_map]
  induction cs with
  | nil => rfl
  | cons ch cs ih =>
    obtain ⟨n, hn, rfl⟩ := h ch (by simp)
    simp only [List.map_cons, Function.comp, (hexDigit_facts n hn).2.1]
    rw [ih (fun c hc => h c (by simp [hc]))]

theorem unhexB_hexB (b : Bytes) : Cmd.unhexB (Cmd.hexB b) = some b := by
  unfold Cmd.hexB Cmd.unhexB
  cases b with
  | nil => simp
  | cons c cs =>
    have hall := allHex_hexChars (c :: cs)
    have hs : strBytes (toHex (c :: cs)) = (hexChars (c :: cs)).map (fun ch => UInt8.ofNat ch.toNat) :=
      strBytes_hex _ hall
    simp only [List.isEmpty_cons, Bool.false_eq_true, if_false]
    rw [hs]
    have hne : ((hexChars (c :: cs)).map (fun ch => UInt8.ofNat ch.toNat) == [95]) = false := by
      simp [hexChars]
    rw [hne, bytesStr_hex _ hall]
    simp only [Bool.false_eq_true, if_false, fromHex, String.toList_ofList]
    exact fromHexChars_hexChars _

/-- a DUMP payload of a string decodes to the same string -/
theorem loadValue_dumpValue_str (b : Bytes) : Cmd.loadValue (Cmd.dumpValue (.str b)) = some (.str b) := by
  simp [Cmd.dumpValue, Cmd.loadValue, unhexB_hexB]

/-! ## Part 13: BITCOUNT and the in-place string commands -/

def sigBitcount : Sig := ⟨"bitcount", [.key (some .str) (.int 0)], [.bytes], false, 1, 0, true⟩

theorem applyL_bitcount (k : Bytes) (rest : List Bytes) (live : Bytes → Option Item) :
    applyL sigBitcount (k :: rest) live =
      match live k with
      | none => .ok (.short (.int 0))
      | some it =>
        if it.value.ty = .str then
          .ok (.ok (.key 0 :: rest.map .raw) [⟨k, some it.value, it.expireat, false, false⟩])
        else .error Msgs.WRONGTYPE_MSG := by
  have ht : sigBitcount.types (k :: rest).length =
      .key (some .str) (.int 0) :: List.replicate rest.length ArgTy.bytes := by
    simp [sigBitcount, Sig.types, Nat.mod_one, map_const_range]
  unfold applyL
  rw [ht]
  have h1 : sigBitcount.checkArity (k :: rest).length = true := by simp [sigBitcount, Sig.checkArity]
  have h2 : (!sigBitcount.rep.isEmpty &&
      ((k :: rest).length - sigBitcount.fixed.length) % sigBitcount.rep.length != 0) = false := by
    simp [sigBitcount, Nat.mod_one]
  simp only [h1, h2, Bool.not_true, Bool.false_eq_true, if_false]
  cases h : live k with
  | none => simp [pass1L, h, Sig.missingReply]
  | some it =>
    by_cases hty : it.value.ty = .str <;>
      simp [pass1L, pass2L, h, hty, pass1L_bytes_tail, pass2L_bytes_tail]

/-- the reply of BITCOUNT on the string `v` -/
def bitcountReply (v : Bytes) (rest : List Bytes) : Reply :=
  match rest with
  | [] => .int ((v.map popcount8).sum)
  | [a, b] =>
    match Conv.int a with
    | .error m => .err (strBytes m)
    | .ok s =>
      match Conv.int b with
      | .error m => .err (strBytes m)
      | .ok e => .int (((getrangeSpec v s e).map popcount8).sum)
  | _ => synErr

theorem bitcount_fin (ctx : Ctx) (time : Int) (live : Bytes → Option Item) (c : CI) (hc : c.modified = false)
    (v : Bytes) (hv : Cmd.strGet c [] = v) (rest : List Bytes) :
    fin time live (Cmd.bitcount ctx (.key 0 :: rest.map .raw) [c]) = (bitcountReply v rest, live) := by
  have hw : wbL time live c = live := by simp [wbL, hc]
  unfold Cmd.bitcount bitcountReply
  simp only [ciAt, List.getD_cons_zero, hv]
  match rest with
  | [] => simp [ret, hw]
  | [a] => simp [synErr]
  | [a, b] =>
    simp only [List.map_cons, List.map_nil]
    cases Conv.int a with
    | error m => rfl
    | ok s =>
      cases Conv.int b with
      | error m => rfl
      | ok e =>
        have := FR.Proofs.getrange_window v s e
        simp only at this
        simp [ret, hw, ← this]
  | a :: b :: c' :: t => simp [synErr]

theorem bitcount_runL (ctx : Ctx) (time : Int) (live : Bytes → Option Item) (k : Bytes) (rest : List Bytes) :
    runL sigBitcount Cmd.bitcount ctx (k :: rest) time live =
      match live k with
      | none => (.int 0, live)
      | some ⟨.str b, _⟩ => (bitcountReply b rest, live)
      | some _ => (wrongtype, live) := by
  rw [runL_eq, applyL_bitcount]
  cases h : live k with
  | none => rfl
  | some it =>
    obtain ⟨v, e⟩ := it
    cases v with
    | str b => simp only [Value.ty, if_true]; exact bitcount_fin ctx time live _ rfl b rfl rest
    | _ => simp [Value.ty, wrongtype]

/-! ## Part 14: the option words of SET -/

theorem lit_nx : strBytes "nx" = [110, 120] := by rw [strBytes_eq]; rfl
theorem lit_xx : strBytes "xx" = [120, 120] := by rw [strBytes_eq]; rfl
theorem lit_ex : strBytes "ex" = [101, 120] := by rw [strBytes_eq]; rfl
theorem lit_px : strBytes "px" = [112, 120] := by rw [strBytes_eq]; rfl
theorem lit_keepttl : strBytes "keepttl" = [107, 101, 101, 112, 116, 116, 108] := by rw [strBytes_eq]; rfl
theorem lit_get : strBytes "get" = [103, 101, 116] := by rw [strBytes_eq]; rfl

/-- which option word a token is (any letter case, as `casematch` decides) -/
inductive Word where | nx | xx | ex | px | keepttl | get
  deriving DecidableEq, Repr

def Word.lit : Word → String
  | .nx => "nx" | .xx => "xx" | .ex => "ex" | .px => "px" | .keepttl => "keepttl" | .get => "get"

/-- the token `a` spells the option word `w` -/
def IsWord (a : Bytes) (w : Word) : Prop := casematch a w.lit = true

theorem isWord_casematch {a : Bytes} {w : Word} (h : IsWord a w) (s : Word) :
    casematch a s.lit = decide (w = s) := by
  unfold IsWord casematch at h
  have h' : casenorm a = strBytes w.lit := by simpa using h
  unfold casematch
  rw [h']
  cases w <;> cases s <;> simp [Word.lit, lit_nx, lit_xx, lit_ex, lit_px, lit_keepttl, lit_get]

theorem cm_nx {a : Bytes} {w : Word} (h : IsWord a w) : casematch a "nx" = decide (w = .nx) := isWord_casematch h .nx
theorem cm_xx {a : Bytes} {w : Word} (h : IsWord a w) : casematch a "xx" = decide (w = .xx) := isWord_casematch h .xx
theorem cm_ex {a : Bytes} {w : Word} (h : IsWord a w) : casematch a "ex" = decide (w = .ex) := isWord_casematch h .ex
theorem cm_px {a : Bytes} {w : Word} (h : IsWord a w) : casematch a "px" = decide (w = .px) := isWord_casematch h .px
theorem cm_keepttl {a : Bytes} {w : Word} (h : IsWord a w) : casematch a "keepttl" = decide (w = .keepttl) :=
  isWord_casematch h .keepttl
theorem cm_get {a : Bytes} {w : Word} (h : IsWord a w) : casematch a "get" = decide (w = .get) := isWord_casematch h .get

/-- one flag word -/
theorem parse_flag (time : Int) (a : Bytes) (rest : List Bytes) (o : Cmd.SetOpts) (w : Word) (h : IsWord a w)
    (hw : w = .nx ∨ w = .xx ∨ w = .keepttl ∨ w = .get) :
    Cmd.parseSetOpts time (a :: rest) o =
      Cmd.parseSetOpts time rest
        (match w with
          | .nx => { o with nx := true } | .xx => { o with xx := true }
          | .keepttl => { o with keepttl := true } | .get => { o with get := true }
          | _ => o) := by
  rw [Cmd.parseSetOpts.eq_def]
  rcases hw with rfl | rfl | rfl | rfl <;>
    simp [cm_nx h, cm_xx h, cm_ex h, cm_px h, cm_keepttl h, cm_get h]

/-- `EX seconds` -/
theorem parse_ex (time : Int) (a n : Bytes) (rest : List Bytes) (o : Cmd.SetOpts) (h : IsWord a .ex) (ex : Int)
    (hn : Conv.int n = .ok ex) :
    Cmd.parseSetOpts time (a :: n :: rest) o =
      if ex ≤ 0 ∨ time + ex * TICKS ≥ 2 ^ 63 * TICKS_MS then .error (Msgs.fmt1 Msgs.INVALID_EXPIRE_MSG "set")
      else Cmd.parseSetOpts time rest { o with ex := some ex } := by
  rw [Cmd.parseSetOpts.eq_def]
  simp [cm_nx h, cm_xx h, cm_ex h, hn]

/-- `PX milliseconds` -/
theorem parse_px (time : Int) (a n : Bytes) (rest : List Bytes) (o : Cmd.SetOpts) (h : IsWord a .px) (px : Int)
    (hn : Conv.int n = .ok px) :
    Cmd.parseSetOpts time (a :: n :: rest) o =
      if px ≤ 0 ∨ time + px * TICKS_MS ≥ 2 ^ 63 * TICKS_MS then .error (Msgs.fmt1 Msgs.INVALID_EXPIRE_MSG "set")
      else Cmd.parseSetOpts time rest { o with px := some px } := by
  rw [Cmd.parseSetOpts.eq_def]
  simp [cm_nx h, cm_xx h, cm_ex h, cm_px h, hn]

theorem parse_nil (time : Int) (o : Cmd.SetOpts) : Cmd.parseSetOpts time [] o = .ok o := by
  rw [Cmd.parseSetOpts.eq_def]

/-! ## Part 15: APPEND (the in-place change used in the "independent copy" theorem) -/

def sigAppend : Sig := ⟨"append", [KS, .bytes], [], false, 2, 0, false⟩

/-- APPEND on a stored string `old` with deadline `e` -/
def appendOn (live : Bytes → Option Item) (k old : Bytes) (e : Option Int) (v : Bytes) :
    Reply × (Bytes → Option Item) :=
  if old.length + v.length > Conv.MAX_STRING_SIZE then (.err (strBytes Msgs.STRING_OVERFLOW_MSG), live)
  else (.int ((old ++ v).length), upd live k (some ⟨.str (old ++ v), e⟩))

theorem append_fin (ctx : Ctx) (time : Int) (live : Bytes → Option Item) (k old : Bytes) (e : Option Int)
    (he : expiredAt time e = false) (v : Bytes) (c : CI) (hc : c.key = k)
    (hv : Cmd.strGet c [] = old) (hx : c.expireat = e) :
    fin time live (Cmd.append ctx [.key 0, .raw v] [c]) = appendOn live k old e v := by
  unfold Cmd.append appendOn
  simp only [ciAt, List.getD_cons_zero, hv]
  by_cases hr : old.length + v.length > Conv.MAX_STRING_SIZE
  · simp [hr]
  · simp [hr, ret, wbL, CI.update, itemOfCI, Value.isEmptyColl, hc, hx, he]

theorem append_runL (ctx : Ctx) (time : Int) (live : Bytes → Option Item) (ok : LiveOK time live)
    (k v : Bytes) :
    runL sigAppend Cmd.append ctx [k, v] time live =
      match live k with
      | none => appendOn live k [] none v
      | some ⟨.str b, e⟩ => appendOn live k b e v
      | some _ => (wrongtype, live) := by
  cases h : live k with
  | none =>
    have := append_fin ctx time live k [] none rfl v ⟨k, none, none, false, false⟩ rfl rfl rfl
    rw [runL_eq]
    simpa [sigAppend, applyL, KS, Sig.checkArity, Sig.types, pass1L, pass2L, Conv.decode, h, Ty.default] using this
  | some it =>
    obtain ⟨val, e⟩ := it
    cases val with
    | str b =>
      have := append_fin ctx time live k b e (ok.fresh k _ h) v ⟨k, some (.str b), e, false, false⟩ rfl rfl rfl
      rw [runL_eq]
      simpa [sigAppend, applyL, KS, Sig.checkArity, Sig.types, pass1L, pass2L, Conv.decode, h, Value.ty] using this
    | _ => run_simp [sigAppend, h]

/-! ## Part 16: GETRANGE / SUBSTR, SETRANGE, GETBIT, SETBIT on the key space -/

/-- the `CommandItem` list `Signature.apply` builds for ONE typed string key -/
def strApplied (live : Bytes → Option Item) (k : Bytes) (args : List Arg) : Except Err Sig.Applied :=
  match live k with
  | none => .ok (.ok args [⟨k, none, none, false, false⟩])
  | some it =>
    if it.value.ty = .str then .ok (.ok args [⟨k, some it.value, it.expireat, false, false⟩])
    else .error Msgs.WRONGTYPE_MSG

/-- generic evaluation of a command on one typed string key -/
theorem strKey_runL (sig : Sig) (body : Body) (ctx : Ctx) (time : Int) (live : Bytes → Option Item)
    (ok : LiveOK time live) (k : Bytes) (raw : List Bytes) (args : List Arg)
    (hap : applyL sig raw live = strApplied live k args)
    (G : Option Bytes → Option Int → Reply × (Bytes → Option Item))
    (hfin : ∀ (ob : Option Bytes) (e : Option Int), expiredAt time e = false →
      fin time live (body ctx args [⟨k, ob.map Value.str, e, false, false⟩]) = G ob e) :
    runL sig body ctx raw time live =
      match live k with
      | none => G none none
      | some ⟨.str b, e⟩ => G (some b) e
      | some _ => (wrongtype, live) := by
  rw [runL_eq, hap]
  unfold strApplied
  cases h : live k with
  | none => exact hfin none none rfl
  | some it =>
    obtain ⟨v, e⟩ := it
    cases v with
    | str b => simp only [Value.ty, if_true]; exact hfin (some b) e (ok.fresh k _ h)
    | _ => simp [Value.ty, wrongtype]

def sigGetrange : Sig := ⟨"getrange", [KS, .int, .int], [], false, 3, 0, false⟩
def sigSubstr : Sig := ⟨"substr", [KS, .int, .int], [], false, 3, 0, false⟩
def sigSetrange : Sig := ⟨"setrange", [KS, .int, .bytes], [], false, 3, 0, false⟩
def sigGetbit : Sig := ⟨"getbit", [KS, .bitOffset], [], false, 2, 0, false⟩
def sigSetbit : Sig := ⟨"setbit", [KS, .bitOffset, .bitValue], [], false, 3, 0, false⟩

theorem applyL_KS_int_int (n : String) (ns : Bool) (a b : Nat) (c : Bool) (k sb eb : Bytes) (s e : Int)
    (hs : Conv.int sb = .ok s) (he : Conv.int eb = .ok e) (live : Bytes → Option Item) :
    applyL ⟨n, [KS, .int, .int], [], ns, a, b, c⟩ [k, sb, eb] live = strApplied live k [.key 0, .int s, .int e] := by
  unfold strApplied
  cases h : live k with
  | none => simp [applyL, KS, Sig.checkArity, Sig.types, pass1L, pass2L, Ty.default, Conv.decode, h, hs, he, Except.map]
  | some it =>
    by_cases ht : it.value.ty = .str <;>
      simp [applyL, KS, Sig.checkArity, Sig.types, pass1L, pass2L, Conv.decode, h, ht, hs, he, Except.map]

theorem applyL_KS_int_bytes (n : String) (ns : Bool) (a b : Nat) (c : Bool) (k ob v : Bytes) (off : Int)
    (ho : Conv.int ob = .ok off) (live : Bytes → Option Item) :
    applyL ⟨n, [KS, .int, .bytes], [], ns, a, b, c⟩ [k, ob, v] live = strApplied live k [.key 0, .int off, .raw v] := by
  unfold strApplied
  cases h : live k with
  | none => simp [applyL, KS, Sig.checkArity, Sig.types, pass1L, pass2L, Ty.default, Conv.decode, h, ho, Except.map]
  | some it =>
    by_cases ht : it.value.ty = .str <;>
      simp [applyL, KS, Sig.checkArity, Sig.types, pass1L, pass2L, Conv.decode, h, ht, ho, Except.map]

theorem applyL_KS_off (n : String) (ns : Bool) (a b : Nat) (c : Bool) (k ob : Bytes) (off : Int)
    (ho : Conv.bitOffset ob = .ok off) (live : Bytes → Option Item) :
    applyL ⟨n, [KS, .bitOffset], [], ns, a, b, c⟩ [k, ob] live = strApplied live k [.key 0, .int off] := by
  unfold strApplied
  cases h : live k with
  | none => simp [applyL, KS, Sig.checkArity, Sig.types, pass1L, pass2L, Ty.default, Conv.decode, h, ho, Except.map]
  | some it =>
    by_cases ht : it.value.ty = .str <;>
      simp [applyL, KS, Sig.checkArity, Sig.types, pass1L, pass2L, Conv.decode, h, ht, ho, Except.map]

theorem applyL_KS_off_val (n : String) (ns : Bool) (a b : Nat) (c : Bool) (k ob vb : Bytes) (off value : Int)
    (ho : Conv.bitOffset ob = .ok off) (hv : Conv.bitValue vb = .ok value) (live : Bytes → Option Item) :
    applyL ⟨n, [KS, .bitOffset, .bitValue], [], ns, a, b, c⟩ [k, ob, vb] live =
      strApplied live k [.key 0, .int off, .int value] := by
  unfold strApplied
  cases h : live k with
  | none =>
    simp [applyL, KS, Sig.checkArity, Sig.types, pass1L, pass2L, Ty.default, Conv.decode, h, ho, hv, Except.map]
  | some it =>
    by_cases ht : it.value.ty = .str <;>
      simp [applyL, KS, Sig.checkArity, Sig.types, pass1L, pass2L, Conv.decode, h, ht, ho, hv, Except.map]

/-- the bytes a string command sees: the stored string, or `dflt` for a missing key -/
def bytesOr (ob : Option Bytes) (dflt : Bytes) : Bytes := ob.getD dflt

theorem strGet_mk (k : Bytes) (ob : Option Bytes) (e : Option Int) (dflt : Bytes) :
    Cmd.strGet ⟨k, ob.map Value.str, e, false, false⟩ dflt = bytesOr ob dflt := by
  cases ob <;> rfl

theorem getrange_runL (sig : Sig) (hsig : sig = sigGetrange ∨ sig = sigSubstr) (ctx : Ctx) (time : Int)
    (live : Bytes → Option Item) (ok : LiveOK time live) (k sb eb : Bytes) (s e : Int)
    (hs : Conv.int sb = .ok s) (he : Conv.int eb = .ok e) :
    runL sig Cmd.getrange ctx [k, sb, eb] time live =
      match live k with
      | none => (.bulk (getrangeSpec [] s e), live)
      | some ⟨.str b, _⟩ => (.bulk (getrangeSpec b s e), live)
      | some _ => (wrongtype, live) := by
  have hap : applyL sig [k, sb, eb] live = strApplied live k [.key 0, .int s, .int e] := by
    rcases hsig with rfl | rfl <;> exact applyL_KS_int_int _ _ _ _ _ _ _ _ _ _ hs he live
  refine strKey_runL sig Cmd.getrange ctx time live ok k _ _ hap
    (fun ob _ => (.bulk (getrangeSpec (bytesOr ob []) s e), live)) ?_
  intro ob e' _
  rw [FR.Proofs.getrange_body]
  simp [ret, ciAt, strGet_mk, wbL]

theorem getbit_runL (ctx : Ctx) (time : Int) (live : Bytes → Option Item) (ok : LiveOK time live)
    (k ob : Bytes) (off : Int) (ho : Conv.bitOffset ob = .ok off) :
    runL sigGetbit Cmd.getbit ctx [k, ob] time live =
      match live k with
      | none => (.int (getBitBytes [] off), live)
      | some ⟨.str b, _⟩ => (.int (getBitBytes b off), live)
      | some _ => (wrongtype, live) := by
  refine strKey_runL sigGetbit Cmd.getbit ctx time live ok k _ _ (applyL_KS_off _ _ _ _ _ _ _ _ ho live)
    (fun ob _ => (.int (getBitBytes (bytesOr ob []) off), live)) ?_
  intro ob e' _
  rw [FR.Proofs.getbit_body]
  simp [ret, ciAt, strGet_mk, wbL]

/-- SETRANGE on the stored string `old` (`[]` for a missing key) with deadline `e` -/
def setrangeOn (live : Bytes → Option Item) (k : Bytes) (old : Bytes) (e : Option Int) (off : Int) (v : Bytes) :
    Reply × (Bytes → Option Item) :=
  if off < 0 then (.err (strBytes Msgs.INVALID_OFFSET_MSG), live)
  else if v.isEmpty then (.int old.length, live)
  else if off + v.length > Conv.MAX_STRING_SIZE then (.err (strBytes Msgs.STRING_OVERFLOW_MSG), live)
  else (.int (setrangeBytes old off.toNat v).length, upd live k (some ⟨.str (setrangeBytes old off.toNat v), e⟩))

theorem setrange_runL (ctx : Ctx) (time : Int) (live : Bytes → Option Item) (ok : LiveOK time live)
    (k ob v : Bytes) (off : Int) (ho : Conv.int ob = .ok off) :
    runL sigSetrange Cmd.setrange ctx [k, ob, v] time live =
      match live k with
      | none => setrangeOn live k [] none off v
      | some ⟨.str b, e⟩ => setrangeOn live k b e off v
      | some _ => (wrongtype, live) := by
  refine strKey_runL sigSetrange Cmd.setrange ctx time live ok k _ _ (applyL_KS_int_bytes _ _ _ _ _ _ _ _ _ ho live)
    (fun ob e => setrangeOn live k (bytesOr ob []) e off v) ?_
  intro ob e' he'
  unfold setrangeOn
  by_cases h0 : off < 0
  · simp [Cmd.setrange, h0]
  · by_cases hv : v.isEmpty = true
    · simp [Cmd.setrange, h0, hv, ret, ciAt, strGet_mk, wbL]
    · by_cases hm : off + v.length > Conv.MAX_STRING_SIZE
      · simp [Cmd.setrange, h0, hv, hm]
      · rw [FR.Proofs.setrange_body ctx _ 0 off v (by omega) (by simpa using hv) (by omega)]
        simp [h0, hv, hm, ret, ciAt, strGet_mk, wbL, CI.update, itemOfCI, Value.isEmptyColl, he']

theorem setbit_runL (ctx : Ctx) (time : Int) (live : Bytes → Option Item) (ok : LiveOK time live)
    (k ob vb : Bytes) (off value : Int) (ho : Conv.bitOffset ob = .ok off) (hv : Conv.bitValue vb = .ok value) :
    runL sigSetbit Cmd.setbit ctx [k, ob, vb] time live =
      match live k with
      | none => (.int (getBitBytes [0] off), upd live k (some ⟨.str (setBitBytes [0] off value), none⟩))
      | some ⟨.str b, e⟩ => (.int (getBitBytes b off), upd live k (some ⟨.str (setBitBytes b off value), e⟩))
      | some _ => (wrongtype, live) := by
  have hb : value = 0 ∨ value = 1 := by
    unfold Conv.bitValue Conv.intRange at hv
    split at hv
    · split at hv
      · simp only [Except.ok.injEq] at hv; subst hv; omega
      · cases hv
    · cases hv
  refine strKey_runL sigSetbit Cmd.setbit ctx time live ok k _ _ (applyL_KS_off_val _ _ _ _ _ _ _ _ _ _ ho hv live)
    (fun ob e => (.int (getBitBytes (bytesOr ob [0]) off),
      upd live k (some ⟨.str (setBitBytes (bytesOr ob [0]) off value), e⟩))) ?_
  intro ob e' he'
  rw [FR.Proofs.setbit_body_old ctx _ 0 off value hb]
  simp [ret, ciAt, strGet_mk, wbL, CI.update, itemOfCI, Value.isEmptyColl, he']

end FR.StrKeys
