import FR.Proofs.AsyncLife
import FR.Proofs.BufIndep
import FR.Proofs.C04kHist
/-!
# C14, pipelining behind a parked blocking pop (asyncio front-end): helper lemmas

* the passes of a blocking pop commute with appending bytes to a connection's input buffer (`Comm`);
* writing to a parked, paused connection and the re-try task / the time-out commute
  (`wake_send_comm`, `timeout_send_comm`);
* one request at the head of a write: `sendall_encode_cons`.
-/
namespace FR.C14p
open FR FR.M FR.BufIndep
set_option linter.unusedSimpArgs false
set_option linter.unusedVariables false

/-! ## appending to the buffer commutes with the passes of a blocking pop -/

/-- `m` commutes with appending `b` to the input buffer of connection `c` -/
structure Comm (c : Nat) (b : Bytes) {α : Type} (m : M α) : Prop where
  comm : ∀ s, m (appendBuf c b s) = ((m s).1, appendBuf c b (m s).2)

namespace Comm
variable {c : Nat} {b : Bytes} {α β : Type}

theorem pure (a : α) : Comm c b (Pure.pure a : M α) := ⟨fun _ => rfl⟩

theorem bind {m : M α} {f : α → M β} (hm : Comm c b m) (hf : ∀ a, Comm c b (f a)) : Comm c b (m >>= f) := by
  refine ⟨fun s => ?_⟩
  show f (m (appendBuf c b s)).1 (m (appendBuf c b s)).2 = _
  rw [hm.comm s]
  exact (hf _).comm _

theorem forM {l : List α} {f : α → M PUnit} (hf : ∀ a, Comm c b (f a)) : Comm c b (l.forM f) := by
  induction l with
  | nil => exact pure _
  | cons a as ih => rw [forM_cons_eq]; exact bind (hf a) (fun _ => ih)

end Comm

section leaves
variable {c : Nat} {b : Bytes}

theorem comm_getDb (d : Nat) : Comm c b (getDb d) := ⟨fun _ => rfl⟩
theorem comm_setDb (d : Nat) (db : Db) : Comm c b (setDb d db) := ⟨fun _ => rfl⟩

/-- append `b` to the buffer of a record of connection `c` -/
def appC (c : Nat) (b : Bytes) (x : Conn) : Conn := if x.id == c then { x with buf := x.buf ++ b } else x

theorem appendBuf_mapConns (c : Nat) (b : Bytes) (s : Sys) : appendBuf c b s = s.mapConns (appC c b) := rfl

theorem notifyFn_appC (d : Nat) (key : Bytes) (x : Conn) :
    notifyFn d key (appC c b x) = appC c b (notifyFn d key x) := by
  unfold appC
  rw [notifyFn_id]
  split
  · unfold notifyFn
    obtain ⟨id, db, tx, txF, inTx, wn, w, ps, buf, paused, closed, dead, parked⟩ := x
    cases parked with
    | none => cases h1 : w.contains (d, key) <;> simp only [h1, Bool.false_eq_true, if_false, if_true] <;> rfl
    | some p =>
      cases h1 : w.contains (d, key) <;> cases h2 : (p.db == d) <;>
        simp only [h1, h2, Bool.false_eq_true, if_false, if_true] <;> rfl
  · rfl

theorem comm_notifyWatch (d : Nat) (key : Bytes) : Comm c b (notifyWatch d key) := by
  refine ⟨fun s => ?_⟩
  rw [notifyWatch_run, notifyWatch_run, appendBuf_mapConns, appendBuf_mapConns]
  unfold Sys.mapConns
  simp only [List.map_map]
  congr 3
  apply List.map_congr_left
  intro x _
  exact notifyFn_appC d key x

theorem comm_writebackAll (d : Nat) (cis : List CI) : Comm c b (writebackAll d cis) := by
  unfold writebackAll
  apply Comm.forM
  intro ci
  apply Comm.bind (comm_getDb d)
  intro db
  split
  apply Comm.bind (comm_setDb _ _)
  intro _
  split
  · exact comm_notifyWatch _ _
  · exact Comm.pure _

theorem comm_bpopPass (d : Nat) (left first : Bool) (keys : List Bytes) : Comm c b (bpopPass d left first keys) := by
  induction keys with
  | nil => exact Comm.pure _
  | cons key rest ih =>
    rw [bpopPass]
    apply Comm.bind (comm_getDb d)
    intro db
    split
    apply Comm.bind (comm_setDb _ _)
    intro _
    split
    · exact ih
    · split
      · split
        apply Comm.bind (comm_writebackAll _ _)
        intro _
        exact Comm.pure _
      · split
        · exact Comm.pure _
        · exact ih

theorem comm_brpoplpushPass (d : Nat) (src dst : Bytes) (first : Bool) :
    Comm c b (brpoplpushPass d src dst first) := by
  unfold brpoplpushPass
  repeat' first
    | exact Comm.pure _
    | exact comm_getDb _
    | exact comm_setDb _ _
    | exact comm_writebackAll _ _
    | apply Comm.bind
    | intro _
    | split

theorem comm_parkedPass (c' : Nat) (p : Parked) : Comm c b (parkedPass c' p) := by
  unfold parkedPass
  split
  · exact comm_brpoplpushPass ..
  · exact comm_bpopPass ..
  · exact comm_bpopPass ..

end leaves

/-! ## state algebra -/

theorem appendBuf_eq_updConn (c : Nat) (b : Bytes) (s : Sys) :
    appendBuf c b s = s.updConn c fun x => { x with buf := x.buf ++ b } := rfl

theorem updConn_updConn (s : Sys) (c : Nat) (f g : Conn → Conn) (hid : ∀ x, (f x).id = x.id) :
    (s.updConn c f).updConn c g = s.updConn c (g ∘ f) := modifyConn_comp c f g hid s

/-- `appendBuf` commutes with an update of the same connection that does not look at the buffer -/
theorem appendBuf_updConn (c : Nat) (b : Bytes) (s : Sys) (f : Conn → Conn) (hid : ∀ x, (f x).id = x.id)
    (hf : ∀ x, f { x with buf := x.buf ++ b } = { f x with buf := (f x).buf ++ b }) :
    (appendBuf c b s).updConn c f = appendBuf c b (s.updConn c f) := by
  rw [appendBuf_eq_updConn, appendBuf_eq_updConn,
    updConn_updConn s c (fun x => { x with buf := x.buf ++ b }) f (fun _ => rfl),
    updConn_updConn s c f (fun x => { x with buf := x.buf ++ b }) hid]
  congr 1
  funext x
  exact hf x

theorem conn_appendBuf {c : Nat} {s : Sys} (b : Bytes) (h : s.HasConn c) :
    (appendBuf c b s).conn c = { s.conn c with buf := (s.conn c).buf ++ b } :=
  Sys.conn_updConn_same _ h (fun _ => rfl)

theorem hasConn_appendBuf {c c' : Nat} {s : Sys} (b : Bytes) : (appendBuf c b s).HasConn c' ↔ s.HasConn c' :=
  Sys.hasConn_updConn _ (fun _ => rfl)

theorem appendBuf_emitS (c : Nat) (b : Bytes) (s : Sys) (c' : Nat) (r : Reply) :
    (appendBuf c b s).emitS c' r = appendBuf c b (s.emitS c' r) := by
  have hcl : ((appendBuf c b s).conn c').closed = (s.conn c').closed :=
    Sys.conn_updConn_proj s c c' _ Conn.closed (fun _ => rfl) (fun _ => rfl)
  unfold Sys.emitS
  rw [hcl]
  split <;> rfl

theorem appendBuf_resumed (c : Nat) (b : Bytes) (s : Sys) (r : Reply) :
    (appendBuf c b s).resumed c r = appendBuf c b (s.resumed c r) := by
  unfold Sys.resumed
  rw [appendBuf_updConn c b s Conn.unpark (fun _ => rfl) (fun _ => rfl), appendBuf_emitS]

theorem resumed_hasConn {s : Sys} {c c' : Nat} (r : Reply) : (s.resumed c r).HasConn c' ↔ s.HasConn c' := by
  unfold Sys.resumed
  rw [Sys.emitS_hasConn]
  exact Sys.hasConn_updConn _ (fun _ => rfl)

/-! ## resuming the parser and writing more bytes commute -/

/-- the parser loop over the buffer with `data` appended = the parser loop over the buffer, then `sendall data` -
provided the connection is alive after the first loop (a dead connection raises on the write) -/
theorem drain_then_send (mode : Mode) (c : Nat) (data : Bytes) (R : Sys) (hc : R.HasConn c)
    (halive : ((drain mode c ((R.conn c).buf.length + 1) R).2.conn c).dead = false) :
    drain mode c (((appendBuf c data R).conn c).buf.length + 1) (appendBuf c data R) =
      sendall mode c data (drain mode c ((R.conn c).buf.length + 1) R).2 := by
  have hs := sendall_run mode c data (drain mode c ((R.conn c).buf.length + 1) R).2
  have hd : (connOf (drain mode c ((R.conn c).buf.length + 1) R).2 c).dead = false := halive
  rw [hd] at hs
  simp only [Bool.false_eq_true, if_false] at hs
  refine Eq.trans ?_ hs.symm
  have hlen : ((appendBuf c data R).conn c).buf.length = (R.conn c).buf.length + data.length := by
    rw [conn_appendBuf data hc]; simp
  exact drain_append (bufIndependent mode c) data ((R.conn c).buf.length + 1) R _ _
    (Nat.lt_succ_self _) (by rw [hlen]; exact Nat.lt_succ_self _) (Nat.lt_succ_self _)

/-- **the re-try task and a write to the parked connection commute** -/
theorem wake_send_comm (mode : Mode) (c : Nat) (data : Bytes) (s : Sys) (p : Parked)
    (hp : (s.conn c).parked = some p) (hpa : (s.conn c).paused = true) (hd : (s.conn c).dead = false)
    (halive : ((wakeConnAsync mode c s).2.conn c).dead = false) :
    wakeConnAsync mode c (sendall mode c data s).2 = sendall mode c data (wakeConnAsync mode c s).2 := by
  have hc : s.HasConn c := Sys.hasConn_of_parked hp
  have f := (framed_parkedPass c p).frame s
  rw [sendall_paused mode c data s hpa hd]
  show wakeConnAsync mode c (appendBuf c data s) = _
  have hp' : ((appendBuf c data s).conn c).parked = some p := by rw [conn_appendBuf data hc]; exact hp
  rw [wakeConnAsync_run mode c _ p hp', (comm_parkedPass c p).comm s]
  rw [wakeConnAsync_run mode c s p hp] at halive ⊢
  generalize parkedPass c p s = res at f halive
  obtain ⟨r0, s1⟩ := res
  have hc1 : s1.HasConn c := (f.hasConn c).2 hc
  cases r0 with
  | error e =>
    simp only at halive ⊢
    rw [appendBuf_resumed]
    exact drain_then_send mode c data _ ((resumed_hasConn _).2 hc1) halive
  | ok o =>
    cases o with
    | some r =>
      simp only at halive ⊢
      rw [appendBuf_resumed]
      exact drain_then_send mode c data _ ((resumed_hasConn _).2 hc1) halive
    | none =>
      simp only at halive ⊢
      have hconn := Sys.conn_updConn_same (s := s1) (c := c)
        (fun x => { x with parked := some { p with woken := false } }) hc1 (fun _ => rfl)
      rw [sendall_paused mode c data _ (by rw [hconn]; exact (f.paused c).trans hpa)
        (by rw [hconn]; exact (f.dead c).trans hd)]
      rw [appendBuf_updConn c data s1 (fun x => { x with parked := some { p with woken := false } })
        (fun _ => rfl) (fun _ => rfl)]
      rfl

/-- **the time-out and a write to the parked connection commute** -/
theorem timeout_send_comm (mode : Mode) (c : Nat) (data : Bytes) (s : Sys) (p : Parked)
    (hp : (s.conn c).parked = some p) (hpa : (s.conn c).paused = true) (hd : (s.conn c).dead = false)
    (halive : ((timeoutConnAsync mode c s).2.conn c).dead = false) :
    timeoutConnAsync mode c (sendall mode c data s).2 = sendall mode c data (timeoutConnAsync mode c s).2 := by
  have hc : s.HasConn c := Sys.hasConn_of_parked hp
  rw [sendall_paused mode c data s hpa hd]
  show timeoutConnAsync mode c (appendBuf c data s) = _
  have hp' : ((appendBuf c data s).conn c).parked = some p := by rw [conn_appendBuf data hc]; exact hp
  rw [timeoutConnAsync_run mode c _ p hp']
  rw [timeoutConnAsync_run mode c s p hp] at halive ⊢
  rw [appendBuf_resumed]
  exact drain_then_send mode c data _ ((resumed_hasConn _).2 hc) halive

/-! ## one request at the head of a write -/

theorem setBuf_eq_updConn (c : Nat) (X : Bytes) (s : Sys) : setBuf c X s = s.updConn c fun x => { x with buf := X } := rfl

theorem conn_setBuf {c : Nat} {s : Sys} (X : Bytes) (h : s.HasConn c) :
    (setBuf c X s).conn c = { s.conn c with buf := X } :=
  Sys.conn_updConn_same _ h (fun _ => rfl)

theorem hasConn_setBuf {c c' : Nat} {s : Sys} (X : Bytes) : (setBuf c X s).HasConn c' ↔ s.HasConn c' :=
  Sys.hasConn_updConn _ (fun _ => rfl)

theorem conn_setBuf_proj {β} (c c' : Nat) (X : Bytes) (s : Sys) (q : Conn → β)
    (hq : ∀ x : Conn, q { x with buf := X } = q x) : q ((setBuf c X s).conn c') = q (s.conn c') :=
  Sys.conn_updConn_proj s c c' _ q (fun _ => rfl) hq

/-- a write that starts with a complete request, to a live un-paused connection with an empty input buffer: the
request is processed first (with the rest of the write in the buffer), then the parser loop goes on -/
theorem sendall_encode_head (mode : Mode) (c : Nat) (req : List Bytes) (rest : Bytes) (s : Sys) (hc : s.HasConn c)
    (hb : (s.conn c).buf = []) (hpa : (s.conn c).paused = false) (hd : (s.conn c).dead = false) :
    sendall mode c (encodeRequest req ++ rest) s =
      drain mode c (encodeRequest req ++ rest).length (setBuf c rest (processCommand mode c req s).2) := by
  have h := sendall_run mode c (encodeRequest req ++ rest) s
  have hd' : (connOf s c).dead = false := hd
  have hb' : (connOf s c).buf = [] := hb
  rw [hd', hb'] at h
  simp only [Bool.false_eq_true, if_false, List.length_nil, Nat.zero_add] at h
  refine h.trans ?_
  rw [drain_succ]
  have hconn : connOf (appendBuf c (encodeRequest req ++ rest) s) c =
      { s.conn c with buf := (s.conn c).buf ++ (encodeRequest req ++ rest) } := conn_appendBuf _ hc
  rw [hconn, hb]
  simp only [hpa, hd, Bool.or_self, Bool.false_eq_true, if_false, List.nil_append, tryParse_encode' req rest]
  rw [setBuf_appendBuf, bufIndependent mode c req rest s]
  rfl

/-- … and if that request pauses the connection (a blocking pop that parks), nothing else happens: the rest of the
write stays in the buffer -/
theorem sendall_encode_parks (mode : Mode) (c : Nat) (req : List Bytes) (rest : Bytes) (s : Sys) (hc : s.HasConn c)
    (hb : (s.conn c).buf = []) (hpa : (s.conn c).paused = false) (hd : (s.conn c).dead = false)
    (hpark : ((processCommand mode c req s).2.conn c).paused = true) :
    sendall mode c (encodeRequest req ++ rest) s = ((), setBuf c rest (processCommand mode c req s).2) := by
  rw [sendall_encode_head mode c req rest s hc hb hpa hd]
  apply drain_paused
  rw [conn_setBuf_proj c c rest _ Conn.paused (fun _ => rfl)]
  exact hpark

/-- the invariant of an event is indifferent to the content of an input buffer -/
theorem K_setBuf (c : Nat) (X : Bytes) (s : Sys) (h : FR.C04k.K s) : FR.C04k.K (setBuf c X s) :=
  FR.C04k.sc_modifyConn FR.C04k.k_stepClosed c (fun x => { x with buf := X })
    (fun x => ⟨rfl, rfl, rfl, .inl rfl⟩) s h

theorem setBuf_setBuf (c : Nat) (X Y : Bytes) (s : Sys) : setBuf c Y (setBuf c X s) = setBuf c Y s :=
  modifyConn_comp c (fun x => { x with buf := X }) (fun x => { x with buf := Y }) (fun _ => rfl) s

/-- the parser loop on an empty buffer does nothing -/
theorem drain_empty (mode : Mode) (c : Nat) (n : Nat) (s : Sys) (hb : (s.conn c).buf = []) :
    drain mode c n s = ((), s) := by
  cases n with
  | zero => rfl
  | succ f =>
    have h := drain_succ mode c f s
    have hb' : (connOf s c).buf = [] := hb
    rw [hb'] at h
    refine h.trans ?_
    split
    · rfl
    · rfl

end FR.C14p
