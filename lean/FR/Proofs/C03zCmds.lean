import FR.Proofs.C03zAlg
/-!
# Sorted-set commands through the runner: one lemma per command and outcome — helper lemmas for `FR.Props.C03z`

`run name ctx raw db` is `runRegular` on the registered signature and body of `name`
(`FR/Proofs/HashSetAlg.lean`); `ReadOnly` / `Writes` / `Fails` are the three outcomes (`FR/Proofs/C03zRun.lean`).
-/
namespace FR.ZCmd
set_option linter.unusedSimpArgs false
set_option linter.unusedVariables false
open FR Db FR.HashSet FR.Cmd

/-! ## wrappers: commands of shape `(Key(ZSet), bytes…), (bytes,)?` -/

section key1
variable (ctx : Ctx) (key : Bytes) {db : Db} (nd : NodupKeys db.dict)
  (name : String) (body : Body) (a : Nat)
  (hfix : (sigOf name).fixed = .key (some .zset) .unspecified :: List.replicate a .bytes)
  (hrep : ∀ t ∈ (sigOf name).rep, t = .bytes) (rest : List Bytes)
  (har : ArityOK (sigOf name) (rest.length + 1))
include nd hfix hrep har

theorem zk1_wrongtype (hv : zsetView db.live key = none) :
    Fails (runRegular (sigOf name) body ctx none (key :: rest) db) db Msgs.WRONGTYPE_MSG :=
  run_key1_wrongtype _ _ a hfix hrep body ctx key rest nd har (zsetView_none hv)

variable {z : ZSet} {e : Option Int} (hv : zsetView db.live key = some (z, e))
include hv

theorem zk1_read {r : Reply}
    (hb : body ctx (.key 0 :: rest.map .raw) [zsetCI key z e] = ret r [zsetCI key z e]) :
    ReadOnly (runRegular (sigOf name) body ctx none (key :: rest) db) db r :=
  zrun_read _ body ctx _ _ key nd hv
    (applyL_key1_ok _ _ a hfix hrep key rest har (zsetView_some hv).1) hb

theorem zk1_err {er : Err}
    (hb : body ctx (.key 0 :: rest.map .raw) [zsetCI key z e] = .error er) :
    Fails (runRegular (sigOf name) body ctx none (key :: rest) db) db er :=
  zrun_err _ body ctx _ _ key nd hv
    (applyL_key1_ok _ _ a hfix hrep key rest har (zsetView_some hv).1) hb

theorem zk1_write {r : Reply} {z' : ZSet}
    (hb : body ctx (.key 0 :: rest.map .raw) [zsetCI key z e] = ret r (putZ [zsetCI key z e] 0 z')) :
    Writes (runRegular (sigOf name) body ctx none (key :: rest) db) db key z' e r :=
  zrun_write _ body ctx _ _ key nd hv
    (applyL_key1_ok _ _ a hfix hrep key rest har (zsetView_some hv).1) hb

end key1

/-! ## wrappers: commands of shape `(Key(ZSet), T1, T2), (bytes,)?` -/

section t2
variable (ctx : Ctx) (key : Bytes) {db : Db} (nd : NodupKeys db.dict)
  (name : String) (body : Body) (t1 t2 : ArgTy) (h1 : simpleTy t1 = true) (h2 : simpleTy t2 = true)
  (hfix : (sigOf name).fixed = [.key (some .zset) .unspecified, t1, t2])
  (hrep : ∀ t ∈ (sigOf name).rep, t = .bytes) (a b : Bytes) (rest : List Bytes)
  (har : ArityOK (sigOf name) (rest.length + 3))
include nd h1 h2 hfix hrep har

theorem zt2_bad1 {er : Err} (hx : Conv.decode t1 a = .error er) :
    Fails (runRegular (sigOf name) body ctx none (key :: a :: b :: rest) db) db er := by
  apply zrun_apply_err _ body ctx _ nd
  rw [applyL_key_t2 _ _ t1 t2 h1 h2 hfix hrep db.live key a b rest har, hx]

theorem zt2_bad2 {x : Arg} {er : Err} (hx : Conv.decode t1 a = .ok x) (hy : Conv.decode t2 b = .error er) :
    Fails (runRegular (sigOf name) body ctx none (key :: a :: b :: rest) db) db er := by
  apply zrun_apply_err _ body ctx _ nd
  rw [applyL_key_t2 _ _ t1 t2 h1 h2 hfix hrep db.live key a b rest har, hx, hy]

variable {x y : Arg} (hx : Conv.decode t1 a = .ok x) (hy : Conv.decode t2 b = .ok y)
include hx hy

theorem zt2_wrongtype (hv : zsetView db.live key = none) :
    Fails (runRegular (sigOf name) body ctx none (key :: a :: b :: rest) db) db Msgs.WRONGTYPE_MSG := by
  apply zrun_apply_err _ body ctx _ nd
  rw [applyL_key_t2 _ _ t1 t2 h1 h2 hfix hrep db.live key a b rest har, hx, hy]
  simp [zsetView_none hv]

variable {z : ZSet} {e : Option Int} (hv : zsetView db.live key = some (z, e))
include hv

omit nd in
theorem zt2_app :
    applyL (sigOf name) (key :: a :: b :: rest) db.live =
      .ok (.ok (.key 0 :: x :: y :: rest.map .raw) [ciOf db.live (some .zset) key]) := by
  rw [applyL_key_t2 _ _ t1 t2 h1 h2 hfix hrep db.live key a b rest har, hx, hy]
  simp [(zsetView_some hv).1]

theorem zt2_read {r : Reply}
    (hb : body ctx (.key 0 :: x :: y :: rest.map .raw) [zsetCI key z e] = ret r [zsetCI key z e]) :
    ReadOnly (runRegular (sigOf name) body ctx none (key :: a :: b :: rest) db) db r :=
  zrun_read _ body ctx _ _ key nd hv (zt2_app key name t1 t2 h1 h2 hfix hrep a b rest har hx hy hv) hb

theorem zt2_err {er : Err}
    (hb : body ctx (.key 0 :: x :: y :: rest.map .raw) [zsetCI key z e] = .error er) :
    Fails (runRegular (sigOf name) body ctx none (key :: a :: b :: rest) db) db er :=
  zrun_err _ body ctx _ _ key nd hv (zt2_app key name t1 t2 h1 h2 hfix hrep a b rest har hx hy hv) hb

theorem zt2_write {r : Reply} {z' : ZSet}
    (hb : body ctx (.key 0 :: x :: y :: rest.map .raw) [zsetCI key z e] = ret r (putZ [zsetCI key z e] 0 z')) :
    Writes (runRegular (sigOf name) body ctx none (key :: a :: b :: rest) db) db key z' e r :=
  zrun_write _ body ctx _ _ key nd hv (zt2_app key name t1 t2 h1 h2 hfix hrep a b rest har hx hy hv) hb

end t2

/-! ## the commands -/

/-! ### command bodies on one sorted-set item -/

theorem body_zremCore (key : Bytes) (z : ZSet) (e : Option Int) (ms : List Bytes) :
    zremCore [zsetCI key z e] 0 ms =
      if z.len - (ms.foldl ZSet.discard z).len > 0 then
        ret (.int ((z.len - (ms.foldl ZSet.discard z).len : Nat) : Int))
          (putZ [zsetCI key z e] 0 (ms.foldl ZSet.discard z))
      else ret (.int 0) [zsetCI key z e] := rfl

theorem body_zincrbyCore (ctx : Ctx) (key : Bytes) (z : ZSet) (e : Option Int) (incr : Dbl) (m : Bytes) :
    zincrbyCore ctx [zsetCI key z e] 0 incr m =
      if (incrScore z m incr).isNaN then .error Msgs.SCORE_NAN_MSG
      else ret (.bulk (fmtScore ctx (incrScore z m incr)))
        (putZ [zsetCI key z e] 0 (z.add m (incrScore z m incr)).1) := rfl

theorem body_zrangeGen (rev : Bool) (ctx : Ctx) (key : Bytes) {z : ZSet} (hz : z.Inv) (e : Option Int)
    (start stop : Int) (opts : List Bytes) :
    zrangeGen rev ctx (.key 0 :: .int start :: .int stop :: opts.map .raw) [zsetCI key z e] =
      if opts.all (fun a => casematch a "withscores") then
        ret (.arr (withScores ctx (rangeWindow (if rev then z.byscore.reverse else z.byscore) start stop)
          (!opts.isEmpty))) [zsetCI key z e]
      else .error Msgs.SYNTAX_ERROR_MSG := by
  simp only [zrangeGen, rawArgs_map]
  by_cases hall : opts.all (fun a => casematch a "withscores") = true
  · rw [if_pos hall]
    simp only [hall, Bool.not_true, Bool.false_eq_true, if_false]
    have hzs : zsetOf (ciAt [zsetCI key z e] 0) = z := rfl
    rw [hzs, ← ZSet.byscore_length hz]
    cases rev
    · simp only [Bool.false_eq_true, if_false]
      rw [← slice_fixRange]
    · simp only [if_true]
      rw [← slice_fixRange_rev]
  · rw [if_neg hall]
    simp only [hall, Bool.not_false, if_true]

theorem body_zrangebyscoreGen (rev : Bool) (ctx : Ctx) (key : Bytes) (z : ZSet) (e : Option Int)
    (mn : Dbl) (mne : Bool) (mx : Dbl) (mxe : Bool) (opts : List Bytes) :
    zrangebyscoreGen rev ctx mn mne mx mxe 0 opts [zsetCI key z e] =
      match parseRbsOpts opts {} with
      | .error er => .error er
      | .ok o =>
        ret (.arr (withScores ctx (limitSpec
          (if rev then (z.irange mn (lowerTail mne) mx (upperTail mxe) true true).reverse
           else z.irange mn (lowerTail mne) mx (upperTail mxe) true true) o.off o.cnt) o.ws)) [zsetCI key z e] := by
  unfold zrangebyscoreGen
  cases parseRbsOpts opts {} with
  | error er => rfl
  | ok o => simp only [limitItems_eq]; rfl

/-- the `LIMIT offset count` tail of ZRANGEBYLEX / ZREVRANGEBYLEX: absent, or exactly these three words -/
def parseLexOpts (opts : List Bytes) : Except Err (Int × Int) :=
  match opts with
  | [] => .ok (0, -1)
  | [l, o, c] =>
    if !casematch l "limit" then .error Msgs.SYNTAX_ERROR_MSG
    else match Conv.int o with
      | .error e => .error e
      | .ok off => match Conv.int c with
        | .error e => .error e
        | .ok cnt => .ok (off, cnt)
  | _ => .error Msgs.SYNTAX_ERROR_MSG

theorem body_zrangebylexGen (rev : Bool) (key : Bytes) (z : ZSet) (e : Option Int)
    (mn : LexB) (mne : Bool) (mx : LexB) (mxe : Bool) (opts : List Bytes) :
    zrangebylexGen rev mn mne mx mxe 0 opts [zsetCI key z e] =
      match parseLexOpts opts with
      | .error er => .error er
      | .ok (off, cnt) =>
        ret (Reply.bulks (limitSpec
          (if rev then (z.irangeLex mn mx (!mne) (!mxe)).reverse else z.irangeLex mn mx (!mne) (!mxe)) off cnt))
          [zsetCI key z e] := by
  unfold zrangebylexGen
  show (match parseLexOpts opts with | .error er => _ | .ok (off, cnt) => _) = _
  cases parseLexOpts opts with
  | error er => rfl
  | ok p => obtain ⟨off, cnt⟩ := p; simp only [limitItems_eq]; rfl

theorem body_zadd (ctx : Ctx) (key : Bytes) (z : ZSet) (e : Option Int) (rest : List Bytes) :
    Cmd.zadd ctx (.key 0 :: rest.map .raw) [zsetCI key z e] =
      (let f := (parseZaddFlags rest {}).1
       let elements := (parseZaddFlags rest {}).2
       if f.nx && f.xx then .error Msgs.ZADD_NX_XX_ERROR_MSG
       else if elements.isEmpty || elements.length % 2 != 0 then .error Msgs.SYNTAX_ERROR_MSG
       else if f.incr && elements.length != 2 then .error Msgs.ZADD_INCR_LEN_ERROR_MSG
       else match parseScorePairs ctx.version elements with
         | .error er => .error er
         | .ok items =>
           if f.incr then
             match items with
             | (s, m) :: _ =>
               if (f.nx && z.contains m) || (f.xx && !z.contains m) then ret .nil [zsetCI key z e]
               else zincrbyCore ctx [zsetCI key z e] 0 s m
             | [] => .error "model: bad args"
           else
             ret (.int (if f.ch then (zaddChanged f.nx f.xx z items : Int)
                        else ((zaddSet f.nx f.xx z items).len : Int) - z.len))
               (if zaddChanged f.nx f.xx z items > 0 then putZ [zsetCI key z e] 0 (zaddSet f.nx f.xx z items)
                else [zsetCI key z e])) := by
  simp only [Cmd.zadd, rawArgs_map]
  generalize parseZaddFlags rest {} = pf
  obtain ⟨f, elements⟩ := pf
  simp only []
  split
  · rfl
  · split
    · rfl
    · split
      · rfl
      · cases parseScorePairs ctx.version elements with
        | error er => rfl
        | ok items =>
          simp only []
          split
          · rfl
          · have hzs : zsetOf (ciAt [zsetCI key z e] 0) = z := rfl
            rw [hzs]
            have := zadd_fold_eq f.nx f.xx items z 0
            simp only [Nat.zero_add] at this
            simp only [this]

/-! ### the argument converters -/

theorem dec_int {b : Bytes} {n : Int} (h : Conv.int b = .ok n) : Conv.decode .int b = .ok (.int n) := by
  simp [Conv.decode, h, Except.map]
theorem dec_int_err {b : Bytes} {er : Err} (h : Conv.int b = .error er) : Conv.decode .int b = .error er := by
  simp [Conv.decode, h, Except.map]
theorem dec_float {b : Bytes} {d : Dbl} (h : Conv.float b = .ok d) : Conv.decode .float b = .ok (.flt d) := by
  simp [Conv.decode, h, Except.map]
theorem dec_float_err {b : Bytes} {er : Err} (h : Conv.float b = .error er) :
    Conv.decode .float b = .error er := by
  simp [Conv.decode, h, Except.map]
theorem dec_score {b : Bytes} {d : Dbl} {x : Bool} (h : Conv.scoreTest b = .ok (d, x)) :
    Conv.decode .scoreTest b = .ok (.score d x) := by
  simp [Conv.decode, h, Except.map]
theorem dec_score_err {b : Bytes} {er : Err} (h : Conv.scoreTest b = .error er) :
    Conv.decode .scoreTest b = .error er := by
  simp [Conv.decode, h, Except.map]
theorem dec_lex {b : Bytes} {v : LexB} {x : Bool} (h : Conv.stringTest b = .ok (v, x)) :
    Conv.decode .stringTest b = .ok (.lex v x) := by
  simp [Conv.decode, h, Except.map]
theorem dec_lex_err {b : Bytes} {er : Err} (h : Conv.stringTest b = .error er) :
    Conv.decode .stringTest b = .error er := by
  simp [Conv.decode, h, Except.map]

/-- a score bound that parses is never NaN -/
theorem scoreTest_not_nan {b : Bytes} {d : Dbl} {x : Bool} (h : Conv.scoreTest b = .ok (d, x)) :
    d.isNaN = false := by
  unfold Conv.scoreTest at h
  split at h
  rename_i excl v _
  cases hf : Conv.floatGen Msgs.INVALID_FLOAT_MSG true true true true v with
  | error _ => rw [hf] at h; cases h
  | ok d' =>
    rw [hf] at h
    simp only [Except.ok.injEq, Prod.mk.injEq] at h
    rw [← h.1]; exact Conv.floatGen_not_nan hf

theorem scoreTest_error {b : Bytes} {er : Err} (h : Conv.scoreTest b = .error er) :
    er = Msgs.INVALID_MIN_MAX_FLOAT_MSG := by
  unfold Conv.scoreTest at h
  split at h
  split at h
  · cases h
  · cases h; rfl

theorem stringTest_error {b : Bytes} {er : Err} (h : Conv.stringTest b = .error er) :
    er = Msgs.INVALID_MIN_MAX_STR_MSG := by
  unfold Conv.stringTest at h
  repeat' split at h
  all_goals first | (cases h; rfl) | cases h

theorem int_error {b : Bytes} {er : Err} (h : Conv.int b = .error er) : er = Msgs.INVALID_INT_MSG := by
  unfold Conv.int Conv.intRange at h
  repeat' split at h
  all_goals first | (cases h; rfl) | cases h

section cmds
variable (ctx : Ctx) (key : Bytes) {db : Db} (nd : NodupKeys db.dict) {z : ZSet} {e : Option Int}
  (hv : zsetView db.live key = some (z, e))
include nd hv

theorem run_zcard : ReadOnly (run "zcard" ctx [key] db) db (.int z.len) :=
  zk1_read ctx key nd "zcard" Cmd.zcard 0 rfl (by decide) [] (by show ArityOK _ 1; decide) hv rfl

theorem run_zscore (m : Bytes) :
    ReadOnly (run "zscore" ctx [key, m] db) db
      (match z.get m with | some s => .bulk (fmtScore ctx s) | none => .nil) :=
  zk1_read ctx key nd "zscore" Cmd.zscore 1 rfl (by decide) [m] (by show ArityOK _ 2; decide) hv (by
    simp only [Cmd.zscore, List.map_cons, List.map_nil]
    show (match z.get m with | some s => _ | none => _) = _
    cases z.get m <;> rfl)


theorem run_zrank (m : Bytes) :
    ReadOnly (run "zrank" ctx [key, m] db) db
      (match z.rank m with | some r => .int r | none => .nil) :=
  zk1_read ctx key nd "zrank" Cmd.zrank 1 rfl (by decide) [m] (by show ArityOK _ 2; decide) hv (by
    simp only [Cmd.zrank, List.map_cons, List.map_nil]
    show (match z.rank m with | some r => _ | none => _) = _
    cases z.rank m <;> rfl)

theorem run_zrevrank (m : Bytes) :
    ReadOnly (run "zrevrank" ctx [key, m] db) db
      (match z.rank m with | some r => .int ((z.len : Int) - 1 - r) | none => .nil) :=
  zk1_read ctx key nd "zrevrank" Cmd.zrevrank 1 rfl (by decide) [m] (by show ArityOK _ 2; decide) hv (by
    simp only [Cmd.zrevrank, List.map_cons, List.map_nil]
    show (match z.rank m with | some r => _ | none => _) = _
    cases z.rank m <;> rfl)


/-! ### ZREM -/

theorem run_zrem_some (m : Bytes) (rest : List Bytes)
    (hpos : z.len - ((m :: rest).foldl ZSet.discard z).len > 0) :
    Writes (run "zrem" ctx (key :: m :: rest) db) db key ((m :: rest).foldl ZSet.discard z) e
      (.int ((z.len - ((m :: rest).foldl ZSet.discard z).len : Nat) : Int)) :=
  zk1_write ctx key nd "zrem" Cmd.zrem 1 rfl (by decide) (m :: rest)
    (arity_var "zrem" _ 2 rfl rfl (by simp)) hv (by
      simp only [Cmd.zrem, rawArgs_map]
      rw [body_zremCore, if_pos hpos])

theorem run_zrem_none (m : Bytes) (rest : List Bytes)
    (hz0 : z.len - ((m :: rest).foldl ZSet.discard z).len = 0) :
    ReadOnly (run "zrem" ctx (key :: m :: rest) db) db (.int 0) :=
  zk1_read ctx key nd "zrem" Cmd.zrem 1 rfl (by decide) (m :: rest)
    (arity_var "zrem" _ 2 rfl rfl (by simp)) hv (by
      simp only [Cmd.zrem, rawArgs_map]
      rw [body_zremCore, if_neg (by omega)])

/-! ### ZINCRBY -/

omit hv in
theorem run_zincrby_bad (a m : Bytes) {er : Err} (ha : Conv.float a = .error er) :
    Fails (run "zincrby" ctx [key, a, m] db) db er :=
  zt2_bad1 ctx key nd "zincrby" Cmd.zincrby .float .bytes rfl rfl rfl (by decide) a m []
    (by show ArityOK _ 3; decide) (dec_float_err ha)

theorem run_zincrby_nan (a m : Bytes) {incr : Dbl} (ha : Conv.float a = .ok incr)
    (hn : (incrScore z m incr).isNaN = true) :
    Fails (run "zincrby" ctx [key, a, m] db) db Msgs.SCORE_NAN_MSG :=
  zt2_err ctx key nd "zincrby" Cmd.zincrby .float .bytes rfl rfl rfl (by decide) a m []
    (by show ArityOK _ 3; decide) (dec_float ha) (y := .raw m) rfl hv (by
      simp only [Cmd.zincrby, List.map_nil]
      rw [body_zincrbyCore, if_pos hn])

theorem run_zincrby_ok (a m : Bytes) {incr : Dbl} (ha : Conv.float a = .ok incr)
    (hn : (incrScore z m incr).isNaN = false) :
    Writes (run "zincrby" ctx [key, a, m] db) db key
      (z.add m (incrScore z m incr)).1 e
      (.bulk (fmtScore ctx (incrScore z m incr))) :=
  zt2_write ctx key nd "zincrby" Cmd.zincrby .float .bytes rfl rfl rfl (by decide) a m []
    (by show ArityOK _ 3; decide) (dec_float ha) (y := .raw m) rfl hv (by
      simp only [Cmd.zincrby, List.map_nil]
      rw [body_zincrbyCore, if_neg (by rw [hn]; decide)])

/-! ### ZCOUNT / ZLEXCOUNT -/

theorem run_zcount (a b : Bytes) {mn mx : Dbl} {mne mxe : Bool}
    (ha : Conv.scoreTest a = .ok (mn, mne)) (hb : Conv.scoreTest b = .ok (mx, mxe)) :
    ReadOnly (run "zcount" ctx [key, a, b] db) db (.int (z.zcount mn (lowerTail mne) mx (upperTail mxe))) :=
  zt2_read ctx key nd "zcount" Cmd.zcount .scoreTest .scoreTest rfl rfl rfl (by decide) a b []
    (by show ArityOK _ 3; decide) (dec_score ha) (dec_score hb) hv rfl

theorem run_zlexcount (a b : Bytes) {mn mx : LexB} {mne mxe : Bool}
    (ha : Conv.stringTest a = .ok (mn, mne)) (hb : Conv.stringTest b = .ok (mx, mxe)) :
    ReadOnly (run "zlexcount" ctx [key, a, b] db) db (.int (z.zlexcount mn mne mx mxe)) :=
  zt2_read ctx key nd "zlexcount" Cmd.zlexcount .stringTest .stringTest rfl rfl rfl (by decide) a b []
    (by show ArityOK _ 3; decide) (dec_lex ha) (dec_lex hb) hv rfl

/-! ### ZRANGE / ZREVRANGE -/

theorem run_zrange_ok (hz : z.Inv) (a b : Bytes) (rest : List Bytes) {start stop : Int}
    (ha : Conv.int a = .ok start) (hb : Conv.int b = .ok stop)
    (hall : rest.all (fun x => casematch x "withscores") = true) :
    ReadOnly (run "zrange" ctx (key :: a :: b :: rest) db) db
      (.arr (withScores ctx (rangeWindow z.byscore start stop) (!rest.isEmpty))) :=
  zt2_read ctx key nd "zrange" Cmd.zrange .int .int rfl rfl rfl (by decide) a b rest
    (arity_var "zrange" _ 3 rfl rfl (by simp)) (dec_int ha) (dec_int hb) hv (by
      show zrangeGen false ctx _ _ = _
      rw [body_zrangeGen false ctx key hz, if_pos hall]; rfl)

theorem run_zrange_syntax (hz : z.Inv) (a b : Bytes) (rest : List Bytes) {start stop : Int}
    (ha : Conv.int a = .ok start) (hb : Conv.int b = .ok stop)
    (hall : rest.all (fun x => casematch x "withscores") = false) :
    Fails (run "zrange" ctx (key :: a :: b :: rest) db) db Msgs.SYNTAX_ERROR_MSG :=
  zt2_err ctx key nd "zrange" Cmd.zrange .int .int rfl rfl rfl (by decide) a b rest
    (arity_var "zrange" _ 3 rfl rfl (by simp)) (dec_int ha) (dec_int hb) hv (by
      show zrangeGen false ctx _ _ = _
      rw [body_zrangeGen false ctx key hz, if_neg (by rw [hall]; decide)])

theorem run_zrevrange_ok (hz : z.Inv) (a b : Bytes) (rest : List Bytes) {start stop : Int}
    (ha : Conv.int a = .ok start) (hb : Conv.int b = .ok stop)
    (hall : rest.all (fun x => casematch x "withscores") = true) :
    ReadOnly (run "zrevrange" ctx (key :: a :: b :: rest) db) db
      (.arr (withScores ctx (rangeWindow z.byscore.reverse start stop) (!rest.isEmpty))) :=
  zt2_read ctx key nd "zrevrange" Cmd.zrevrange .int .int rfl rfl rfl (by decide) a b rest
    (arity_var "zrevrange" _ 3 rfl rfl (by simp)) (dec_int ha) (dec_int hb) hv (by
      show zrangeGen true ctx _ _ = _
      rw [body_zrangeGen true ctx key hz, if_pos hall]; rfl)

theorem run_zrevrange_syntax (hz : z.Inv) (a b : Bytes) (rest : List Bytes) {start stop : Int}
    (ha : Conv.int a = .ok start) (hb : Conv.int b = .ok stop)
    (hall : rest.all (fun x => casematch x "withscores") = false) :
    Fails (run "zrevrange" ctx (key :: a :: b :: rest) db) db Msgs.SYNTAX_ERROR_MSG :=
  zt2_err ctx key nd "zrevrange" Cmd.zrevrange .int .int rfl rfl rfl (by decide) a b rest
    (arity_var "zrevrange" _ 3 rfl rfl (by simp)) (dec_int ha) (dec_int hb) hv (by
      show zrangeGen true ctx _ _ = _
      rw [body_zrangeGen true ctx key hz, if_neg (by rw [hall]; decide)])

/-! ### ZRANGEBYSCORE / ZREVRANGEBYSCORE -/

theorem run_zrangebyscore_ok (a b : Bytes) (rest : List Bytes) {mn mx : Dbl} {mne mxe : Bool}
    (ha : Conv.scoreTest a = .ok (mn, mne)) (hb : Conv.scoreTest b = .ok (mx, mxe))
    {o : RbsOpts} (ho : parseRbsOpts rest {} = .ok o) :
    ReadOnly (run "zrangebyscore" ctx (key :: a :: b :: rest) db) db
      (.arr (withScores ctx (limitSpec (z.irange mn (lowerTail mne) mx (upperTail mxe) true true) o.off o.cnt)
        o.ws)) :=
  zt2_read ctx key nd "zrangebyscore" Cmd.zrangebyscore .scoreTest .scoreTest rfl rfl rfl (by decide) a b rest
    (arity_var "zrangebyscore" _ 3 rfl rfl (by simp)) (dec_score ha) (dec_score hb) hv (by
      simp only [Cmd.zrangebyscore, rawArgs_map]
      rw [body_zrangebyscoreGen, ho]; rfl)

theorem run_zrangebyscore_err (a b : Bytes) (rest : List Bytes) {mn mx : Dbl} {mne mxe : Bool}
    (ha : Conv.scoreTest a = .ok (mn, mne)) (hb : Conv.scoreTest b = .ok (mx, mxe))
    {er : Err} (ho : parseRbsOpts rest {} = .error er) :
    Fails (run "zrangebyscore" ctx (key :: a :: b :: rest) db) db er :=
  zt2_err ctx key nd "zrangebyscore" Cmd.zrangebyscore .scoreTest .scoreTest rfl rfl rfl (by decide) a b rest
    (arity_var "zrangebyscore" _ 3 rfl rfl (by simp)) (dec_score ha) (dec_score hb) hv (by
      simp only [Cmd.zrangebyscore, rawArgs_map]
      rw [body_zrangebyscoreGen, ho])

/-- note the argument order: `max` first -/
theorem run_zrevrangebyscore_ok (a b : Bytes) (rest : List Bytes) {mn mx : Dbl} {mne mxe : Bool}
    (ha : Conv.scoreTest a = .ok (mx, mxe)) (hb : Conv.scoreTest b = .ok (mn, mne))
    {o : RbsOpts} (ho : parseRbsOpts rest {} = .ok o) :
    ReadOnly (run "zrevrangebyscore" ctx (key :: a :: b :: rest) db) db
      (.arr (withScores ctx
        (limitSpec (z.irange mn (lowerTail mne) mx (upperTail mxe) true true).reverse o.off o.cnt) o.ws)) :=
  zt2_read ctx key nd "zrevrangebyscore" Cmd.zrevrangebyscore .scoreTest .scoreTest rfl rfl rfl (by decide)
    a b rest (arity_var "zrevrangebyscore" _ 3 rfl rfl (by simp)) (dec_score ha) (dec_score hb) hv (by
      simp only [Cmd.zrevrangebyscore, rawArgs_map]
      rw [body_zrangebyscoreGen, ho]; rfl)

theorem run_zrevrangebyscore_err (a b : Bytes) (rest : List Bytes) {mn mx : Dbl} {mne mxe : Bool}
    (ha : Conv.scoreTest a = .ok (mx, mxe)) (hb : Conv.scoreTest b = .ok (mn, mne))
    {er : Err} (ho : parseRbsOpts rest {} = .error er) :
    Fails (run "zrevrangebyscore" ctx (key :: a :: b :: rest) db) db er :=
  zt2_err ctx key nd "zrevrangebyscore" Cmd.zrevrangebyscore .scoreTest .scoreTest rfl rfl rfl (by decide)
    a b rest (arity_var "zrevrangebyscore" _ 3 rfl rfl (by simp)) (dec_score ha) (dec_score hb) hv (by
      simp only [Cmd.zrevrangebyscore, rawArgs_map]
      rw [body_zrangebyscoreGen, ho])

/-! ### ZRANGEBYLEX / ZREVRANGEBYLEX -/

theorem run_zrangebylex_ok (a b : Bytes) (rest : List Bytes) {mn mx : LexB} {mne mxe : Bool}
    (ha : Conv.stringTest a = .ok (mn, mne)) (hb : Conv.stringTest b = .ok (mx, mxe))
    {off cnt : Int} (ho : parseLexOpts rest = .ok (off, cnt)) :
    ReadOnly (run "zrangebylex" ctx (key :: a :: b :: rest) db) db
      (Reply.bulks (limitSpec (z.irangeLex mn mx (!mne) (!mxe)) off cnt)) :=
  zt2_read ctx key nd "zrangebylex" Cmd.zrangebylex .stringTest .stringTest rfl rfl rfl (by decide) a b rest
    (arity_var "zrangebylex" _ 3 rfl rfl (by simp)) (dec_lex ha) (dec_lex hb) hv (by
      simp only [Cmd.zrangebylex, rawArgs_map]
      rw [body_zrangebylexGen, ho]; rfl)

theorem run_zrangebylex_err (a b : Bytes) (rest : List Bytes) {mn mx : LexB} {mne mxe : Bool}
    (ha : Conv.stringTest a = .ok (mn, mne)) (hb : Conv.stringTest b = .ok (mx, mxe))
    {er : Err} (ho : parseLexOpts rest = .error er) :
    Fails (run "zrangebylex" ctx (key :: a :: b :: rest) db) db er :=
  zt2_err ctx key nd "zrangebylex" Cmd.zrangebylex .stringTest .stringTest rfl rfl rfl (by decide) a b rest
    (arity_var "zrangebylex" _ 3 rfl rfl (by simp)) (dec_lex ha) (dec_lex hb) hv (by
      simp only [Cmd.zrangebylex, rawArgs_map]
      rw [body_zrangebylexGen, ho])

/-- note the argument order: `max` first -/
theorem run_zrevrangebylex_ok (a b : Bytes) (rest : List Bytes) {mn mx : LexB} {mne mxe : Bool}
    (ha : Conv.stringTest a = .ok (mx, mxe)) (hb : Conv.stringTest b = .ok (mn, mne))
    {off cnt : Int} (ho : parseLexOpts rest = .ok (off, cnt)) :
    ReadOnly (run "zrevrangebylex" ctx (key :: a :: b :: rest) db) db
      (Reply.bulks (limitSpec (z.irangeLex mn mx (!mne) (!mxe)).reverse off cnt)) :=
  zt2_read ctx key nd "zrevrangebylex" Cmd.zrevrangebylex .stringTest .stringTest rfl rfl rfl (by decide)
    a b rest (arity_var "zrevrangebylex" _ 3 rfl rfl (by simp)) (dec_lex ha) (dec_lex hb) hv (by
      simp only [Cmd.zrevrangebylex, rawArgs_map]
      rw [body_zrangebylexGen, ho]; rfl)

theorem run_zrevrangebylex_err (a b : Bytes) (rest : List Bytes) {mn mx : LexB} {mne mxe : Bool}
    (ha : Conv.stringTest a = .ok (mx, mxe)) (hb : Conv.stringTest b = .ok (mn, mne))
    {er : Err} (ho : parseLexOpts rest = .error er) :
    Fails (run "zrevrangebylex" ctx (key :: a :: b :: rest) db) db er :=
  zt2_err ctx key nd "zrevrangebylex" Cmd.zrevrangebylex .stringTest .stringTest rfl rfl rfl (by decide)
    a b rest (arity_var "zrevrangebylex" _ 3 rfl rfl (by simp)) (dec_lex ha) (dec_lex hb) hv (by
      simp only [Cmd.zrevrangebylex, rawArgs_map]
      rw [body_zrangebylexGen, ho])

/-! ### ZREMRANGEBYRANK / BYSCORE / BYLEX: `zrem` of the members the range selects -/

theorem run_zremrange_gen (name : String) (body : Body) (t : ArgTy) (ht : simpleTy t = true)
    (hfix : (sigOf name).fixed = [.key (some .zset) .unspecified, t, t])
    (hrep : ∀ t ∈ (sigOf name).rep, t = .bytes) (har : ArityOK (sigOf name) 3)
    (a b : Bytes) {x y : Arg} (hx : Conv.decode t a = .ok x) (hy : Conv.decode t b = .ok y)
    (ms : List Bytes)
    (hbody : body ctx [.key 0, x, y] [zsetCI key z e] = zremCore [zsetCI key z e] 0 ms) :
    (z.len - (ms.foldl ZSet.discard z).len > 0 →
      Writes (runRegular (sigOf name) body ctx none [key, a, b] db) db key (ms.foldl ZSet.discard z) e
        (.int ((z.len - (ms.foldl ZSet.discard z).len : Nat) : Int))) ∧
    (z.len - (ms.foldl ZSet.discard z).len = 0 →
      ReadOnly (runRegular (sigOf name) body ctx none [key, a, b] db) db (.int 0)) := by
  constructor
  · intro hpos
    exact zt2_write ctx key nd name body t t ht ht hfix hrep a b [] har hx hy hv (by
      simp only [List.map_nil]; rw [hbody, body_zremCore, if_pos hpos])
  · intro h0
    exact zt2_read ctx key nd name body t t ht ht hfix hrep a b [] har hx hy hv (by
      simp only [List.map_nil]; rw [hbody, body_zremCore, if_neg (by omega)])

theorem run_zremrangebyrank (hz : z.Inv) (a b : Bytes) {start stop : Int}
    (ha : Conv.int a = .ok start) (hb : Conv.int b = .ok stop) :
    let ms := (rangeWindow z.byscore start stop).map Prod.snd
    (z.len - (ms.foldl ZSet.discard z).len > 0 →
      Writes (run "zremrangebyrank" ctx [key, a, b] db) db key (ms.foldl ZSet.discard z) e
        (.int ((z.len - (ms.foldl ZSet.discard z).len : Nat) : Int))) ∧
    (z.len - (ms.foldl ZSet.discard z).len = 0 →
      ReadOnly (run "zremrangebyrank" ctx [key, a, b] db) db (.int 0)) :=
  run_zremrange_gen ctx key nd hv "zremrangebyrank" Cmd.zremrangebyrank .int rfl rfl (by decide)
    (by show ArityOK _ 3; decide) a b (dec_int ha) (dec_int hb) _ (by
      simp only [Cmd.zremrangebyrank]
      have hzs : zsetOf (ciAt [zsetCI key z e] 0) = z := rfl
      rw [hzs, ← ZSet.byscore_length hz, ← slice_fixRange])

theorem run_zremrangebyscore (a b : Bytes) {mn mx : Dbl} {mne mxe : Bool}
    (ha : Conv.scoreTest a = .ok (mn, mne)) (hb : Conv.scoreTest b = .ok (mx, mxe)) :
    let ms := (z.irange mn (lowerTail mne) mx (upperTail mxe) true true).map Prod.snd
    (z.len - (ms.foldl ZSet.discard z).len > 0 →
      Writes (run "zremrangebyscore" ctx [key, a, b] db) db key (ms.foldl ZSet.discard z) e
        (.int ((z.len - (ms.foldl ZSet.discard z).len : Nat) : Int))) ∧
    (z.len - (ms.foldl ZSet.discard z).len = 0 →
      ReadOnly (run "zremrangebyscore" ctx [key, a, b] db) db (.int 0)) :=
  run_zremrange_gen ctx key nd hv "zremrangebyscore" Cmd.zremrangebyscore .scoreTest rfl rfl (by decide)
    (by show ArityOK _ 3; decide) a b (dec_score ha) (dec_score hb) _ rfl

theorem run_zremrangebylex (a b : Bytes) {mn mx : LexB} {mne mxe : Bool}
    (ha : Conv.stringTest a = .ok (mn, mne)) (hb : Conv.stringTest b = .ok (mx, mxe)) :
    let ms := z.irangeLex mn mx (!mne) (!mxe)
    (z.len - (ms.foldl ZSet.discard z).len > 0 →
      Writes (run "zremrangebylex" ctx [key, a, b] db) db key (ms.foldl ZSet.discard z) e
        (.int ((z.len - (ms.foldl ZSet.discard z).len : Nat) : Int))) ∧
    (z.len - (ms.foldl ZSet.discard z).len = 0 →
      ReadOnly (run "zremrangebylex" ctx [key, a, b] db) db (.int 0)) :=
  run_zremrange_gen ctx key nd hv "zremrangebylex" Cmd.zremrangebylex .stringTest rfl rfl (by decide)
    (by show ArityOK _ 3; decide) a b (dec_lex ha) (dec_lex hb) _ rfl

end cmds

/-! ## ZADD: the decision table -/

theorem zaddSet_len_le (nx xx : Bool) (z : ZSet) (items : List (Dbl × Bytes)) :
    (zaddSet nx xx z items).len ≤ z.len + zaddChanged nx xx z items := by
  induction items generalizing z with
  | nil => simp [zaddSet, zaddChanged]
  | cons p ps ih =>
    rw [zaddSet_cons]
    have := ih (zaddStep nx xx z p)
    simp only [zaddChanged]
    have hstep : (zaddStep nx xx z p).len ≤
        z.len + (if (zaddWrites nx xx (z.contains p.2) && (z.add p.2 p.1).2) = true then 1 else 0) := by
      unfold zaddStep
      by_cases hw : zaddWrites nx xx (z.contains p.2) = true
      · simp only [hw, if_true, Bool.true_and]
        rw [ZSet.len_add, ZSet.add_changed]
        cases hg : z.get p.2 with
        | none => simp
        | some old => simp
      · simp [hw]
    omega

/-- outcome of adding `incr` to the score of `m` (ZINCRBY, and ZADD INCR once NX / XX let it through) -/
def IncrOutcome (ctx : Ctx) (out : RunOut) (db : Db) (key : Bytes) (z : ZSet) (e : Option Int)
    (incr : Dbl) (m : Bytes) : Prop :=
  if (incrScore z m incr).isNaN = true then
    Fails out db Msgs.SCORE_NAN_MSG
  else
    Writes out db key (z.add m (incrScore z m incr)).1 e
      (.bulk (fmtScore ctx (incrScore z m incr))) ∧
    (z.add m (incrScore z m incr)).1.Inv

/-- outcome of ZADD without INCR for the parsed pairs `items` -/
def PlainOutcome (out : RunOut) (db : Db) (key : Bytes) (z : ZSet) (e : Option Int)
    (ch nx xx : Bool) (items : List (Dbl × Bytes)) : Prop :=
  (zaddSet nx xx z items).Inv ∧ out.failed = false ∧
  (∃ added : Nat,
    CardEq (fun x => x ∈ items.map Prod.snd ∧ z.get x = none ∧ xx = false) added ∧
    (zaddSet nx xx z items).len = z.len + added ∧ added ≤ zaddChanged nx xx z items ∧
    out.reply = .int (if ch then (zaddChanged nx xx z items : Int) else (added : Int))) ∧
  (zaddChanged nx xx z items = 0 → zaddSet nx xx z items = z ∧ out.db.live = db.live) ∧
  (zaddChanged nx xx z items > 0 → out.db.live = putAt db.live key (.zset (zaddSet nx xx z items)) e)

/-- the decision table of ZADD -/
def ZaddTable (ctx : Ctx) (out : RunOut) (db : Db) (key : Bytes) (z : ZSet) (e : Option Int)
    (ch nx xx incr : Bool) (elements : List Bytes) : Prop :=
  if (nx && xx) = true then Fails out db Msgs.ZADD_NX_XX_ERROR_MSG
  else if (elements.isEmpty || elements.length % 2 != 0) = true then Fails out db Msgs.SYNTAX_ERROR_MSG
  else if (incr && elements.length != 2) = true then Fails out db Msgs.ZADD_INCR_LEN_ERROR_MSG
  else
    (∀ er, parseScorePairs ctx.version elements = .error er → Fails out db er) ∧
    (∀ items, parseScorePairs ctx.version elements = .ok items →
      if incr = true then
        ∃ s m, items = [(s, m)] ∧
          if ((nx && z.contains m) || (xx && !z.contains m)) = true then ReadOnly out db .nil
          else IncrOutcome ctx out db key z e s m
      else PlainOutcome out db key z e ch nx xx items)

section zadd
variable (ctx : Ctx) (key : Bytes) {db : Db} (nd : NodupKeys db.dict) {z : ZSet} {e : Option Int}
  (hv : zsetView db.live key = some (z, e))
include nd hv

theorem incr_outcome_of_body (hz : z.Inv) (name : String) (body : Body) (raw : List Bytes) (args : List Arg)
    (happ : applyL (sigOf name) raw db.live = .ok (.ok args [ciOf db.live (some .zset) key]))
    (s : Dbl) (m : Bytes) (hs : s.isNaN = false)
    (hb : body ctx args [zsetCI key z e] = zincrbyCore ctx [zsetCI key z e] 0 s m) :
    IncrOutcome ctx (runRegular (sigOf name) body ctx none raw db) db key z e s m := by
  unfold IncrOutcome
  by_cases hn : (incrScore z m s).isNaN = true
  · rw [if_pos hn]
    exact zrun_err _ body ctx _ _ key nd hv happ (by rw [hb, body_zincrbyCore, if_pos hn])
  · rw [if_neg hn]
    refine ⟨zrun_write _ body ctx _ _ key nd hv happ (by rw [hb, body_zincrbyCore, if_neg hn]), ?_⟩
    exact ZSet.add_inv hz (by simpa using hn)

theorem zadd_core (hz : z.Inv) (a b : Bytes) (rest : List Bytes) (f : ZaddFlags) (elements : List Bytes)
    (hpf : parseZaddFlags (a :: b :: rest) {} = (f, elements)) :
    ZaddTable ctx (run "zadd" ctx (key :: a :: b :: rest) db) db key z e f.ch f.nx f.xx f.incr elements := by
  have har : ArityOK (sigOf "zadd") ((a :: b :: rest).length + 1) :=
    arity_var "zadd" _ 3 rfl rfl (by simp)
  have hb := body_zadd ctx key z e (a :: b :: rest)
  rw [hpf] at hb
  simp only [] at hb
  have happ := applyL_key1_ok (sigOf "zadd") (some .zset) 2 rfl (by decide) key (a :: b :: rest) har
    (zsetView_some hv).1 (db := db)
  unfold ZaddTable
  by_cases c1 : (f.nx && f.xx) = true
  · rw [if_pos c1]
    exact zrun_err _ Cmd.zadd ctx _ _ key nd hv happ (by rw [hb, if_pos c1])
  · rw [if_neg c1]; rw [if_neg c1] at hb
    by_cases c2 : (elements.isEmpty || elements.length % 2 != 0) = true
    · rw [if_pos c2]
      exact zrun_err _ Cmd.zadd ctx _ _ key nd hv happ (by rw [hb, if_pos c2])
    · rw [if_neg c2]; rw [if_neg c2] at hb
      by_cases c3 : (f.incr && elements.length != 2) = true
      · rw [if_pos c3]
        exact zrun_err _ Cmd.zadd ctx _ _ key nd hv happ (by rw [hb, if_pos c3])
      · rw [if_neg c3]; rw [if_neg c3] at hb
        refine ⟨fun er hp => ?_, fun items hp => ?_⟩
        · rw [hp] at hb
          exact zrun_err _ Cmd.zadd ctx _ _ key nd hv happ hb
        · rw [hp] at hb
          simp only [] at hb ⊢
          have hnn := parseScorePairs_not_nan _ _ hp
          by_cases ci : f.incr = true
          · rw [if_pos ci]; rw [if_pos ci] at hb
            -- exactly one pair
            have hl2 : elements.length = 2 := by
              have : ¬ (elements.length != 2) = true := by
                intro h; apply c3; rw [ci, h]; rfl
              simpa using this
            obtain ⟨sb, mb, rfl⟩ : ∃ sb mb, elements = [sb, mb] := by
              match elements, hl2 with
              | [x, y], _ => exact ⟨x, y, rfl⟩
            have hitems : ∃ s, items = [(s, mb)] := by
              have := (parseScorePairs_ok_iff _ _ _).mp hp
              simp only [pairsOf, List.map_cons, List.map_nil] at this
              cases items with
              | nil => simp at this
              | cons p ps =>
                cases ps with
                | cons _ _ => simp at this
                | nil =>
                  simp only [List.map_cons, List.map_nil, List.cons.injEq, Prod.mk.injEq, and_true] at this
                  exact ⟨p.1, by rw [this.2]⟩
            obtain ⟨s, rfl⟩ := hitems
            refine ⟨s, mb, rfl, ?_⟩
            simp only [] at hb
            by_cases c4 : ((f.nx && z.contains mb) || (f.xx && !z.contains mb)) = true
            · rw [if_pos c4]; rw [if_pos c4] at hb
              exact zrun_read _ Cmd.zadd ctx _ _ key nd hv happ hb
            · rw [if_neg c4]; rw [if_neg c4] at hb
              exact incr_outcome_of_body ctx key nd hv hz "zadd" Cmd.zadd _ _ happ s mb
                (hnn (s, mb) (by simp)) hb
          · rw [if_neg ci]; rw [if_neg ci] at hb
            have hinv : (zaddSet f.nx f.xx z items).Inv := zaddSet_inv hz hnn
            obtain ⟨l, hnd, hmem, hlen⟩ := zaddSet_len f.nx f.xx (by simpa using c1) z items
            have hle := zaddSet_len_le f.nx f.xx z items
            have hreply : (Reply.int (if f.ch = true then (zaddChanged f.nx f.xx z items : Int)
                else ((zaddSet f.nx f.xx z items).len : Int) - z.len)) =
                .int (if f.ch = true then (zaddChanged f.nx f.xx z items : Int) else (l.length : Int)) := by
              congr 1
              split
              · rfl
              · rw [hlen]; push_cast; omega
            by_cases c5 : zaddChanged f.nx f.xx z items > 0
            · rw [if_pos c5] at hb
              have hw := zrun_write _ Cmd.zadd ctx _ _ key nd hv happ hb
              exact ⟨hinv, hw.2.2, ⟨l.length, ⟨l, hnd, hmem, rfl⟩, hlen, by omega, hw.1.trans hreply⟩,
                fun h0 => by omega, fun _ => hw.2.1⟩
            · rw [if_neg c5] at hb
              have hr := zrun_read _ Cmd.zadd ctx _ _ key nd hv happ hb
              have h0 : zaddChanged f.nx f.xx z items = 0 := by omega
              exact ⟨hinv, hr.2.2, ⟨l.length, ⟨l, hnd, hmem, rfl⟩, hlen, by omega, hr.1.trans hreply⟩,
                fun _ => ⟨zaddSet_unchanged h0, hr.2.1⟩, fun h => by omega⟩

end zadd

/-! ## further facts used by the final statements -/

theorem rangeWindow_all {α} (l : List α) : rangeWindow l 0 (-1) = l := by
  unfold rangeWindow normIdx
  cases l with
  | nil => rfl
  | cons x xs =>
    simp only [List.length_cons]
    have h1 : (max (0:Int) (if (0:Int) < 0 then (0:Int) + ((xs.length + 1 : Nat) : Int) else 0)).toNat = 0 := by
      simp
    have h2 : (min (if (-1:Int) < 0 then (-1:Int) + ((xs.length + 1 : Nat) : Int) else -1)
        (((xs.length + 1 : Nat) : Int) - 1) + 1 -
        max (0:Int) (if (0:Int) < 0 then (0:Int) + ((xs.length + 1 : Nat) : Int) else 0)).toNat = xs.length + 1 := by
      simp only [show ((-1:Int) < 0) from by decide, if_true, Int.lt_irrefl, if_false]
      omega
    rw [h1, h2]
    simp

/-- the element at position `i` of the window is the element at position `lo + i` of the list, as long as
`lo + i ≤ hi`, where `lo = max 0 start'`, `hi = min (len - 1) stop'` and `i' = i + len` for negative `i` -/
theorem rangeWindow_getElem? {α} (l : List α) (start stop : Int) (i : Nat) :
    (rangeWindow l start stop)[i]? =
      if (max 0 (normIdx start l.length)) + i ≤ min (normIdx stop l.length) ((l.length : Int) - 1) then
        l[(max 0 (normIdx start l.length)).toNat + i]?
      else none := by
  unfold rangeWindow
  rw [List.getElem?_take]
  split
  · rename_i h
    rw [List.getElem?_drop, if_pos (by omega)]
  · rename_i h
    rw [if_neg (by omega)]

theorem get_all_none {z : ZSet} (h : ∀ x, z.get x = none) : z.bylex = [] := by
  cases hb : z.bylex with
  | nil => rfl
  | cons p ps =>
    have := h p.1
    unfold ZSet.get at this
    rw [hb] at this
    simp [List.lookup_cons] at this

/-- the members ZRANGEBYLEX selects: among the members whose score is IEEE-equal to the LOWEST score of the
set, those within the two lex bounds, in iteration order -/
def lexRange (z : ZSet) (mn : LexB) (mne : Bool) (mx : LexB) (mxe : Bool) : List Bytes :=
  match z.firstScore with
  | none => []
  | some sc =>
    (z.byscore.filter (fun p => Dbl.eq p.1 sc && (lexGe mn mne p.2 && lexLe mx mxe p.2))).map Prod.snd

theorem irangeLex_eq_lexRange {z : ZSet} (hz : z.Inv) (mn : LexB) (mne : Bool) (mx : LexB) (mxe : Bool) :
    z.irangeLex mn mx (!mne) (!mxe) = lexRange z mn mne mx mxe := irangeLex_eq_filter hz mn mne mx mxe

/-- when all scores are IEEE-equal (the only case Redis defines), the selection is a filter on the member bytes
of the whole set -/
theorem lexRange_same_score {z : ZSet} (hz : z.Inv)
    (hsame : ∀ p ∈ z.byscore, ∀ q ∈ z.byscore, Dbl.eq p.1 q.1 = true)
    (mn : LexB) (mne : Bool) (mx : LexB) (mxe : Bool) :
    lexRange z mn mne mx mxe =
      (z.byscore.filter (fun p => lexGe mn mne p.2 && lexLe mx mxe p.2)).map Prod.snd := by
  unfold lexRange ZSet.firstScore
  cases hb : z.byscore with
  | nil => rfl
  | cons x xs =>
    simp only [List.head?_cons, Option.map_some]
    congr 1
    apply List.filter_congr
    intro p hp
    rw [hsame p (by rw [hb]; exact hp) x (by rw [hb]; simp)]
    simp

theorem lexRange_nodup {z : ZSet} (hz : z.Inv) (mn : LexB) (mne : Bool) (mx : LexB) (mxe : Bool) :
    (lexRange z mn mne mx mxe).Nodup ∧ ∀ m ∈ lexRange z mn mne mx mxe, z.get m ≠ none := by
  unfold lexRange
  cases z.firstScore with
  | none => exact ⟨List.nodup_nil, fun m hm => by cases hm⟩
  | some sc => exact filter_members hz _

/-- ZREVRANK: the position in the reversed iteration order -/
theorem idxOf_reverse {l : List Bytes} (hn : l.Nodup) {m : Bytes} (hm : m ∈ l) :
    l.reverse.idxOf m = l.length - 1 - l.idxOf m := by
  have hi : l.idxOf m < l.length := List.idxOf_lt_length_iff.mpr hm
  have hj : l.length - 1 - l.idxOf m < l.reverse.length := by simp; omega
  have := List.Nodup.idxOf_getElem ((List.reverse_perm l).nodup_iff.mpr hn) (l.length - 1 - l.idxOf m) hj
  rw [← this]
  congr 1
  rw [List.getElem_reverse]
  have e : l.length - 1 - (l.length - 1 - l.idxOf m) = l.idxOf m := by omega
  simp only [e]
  exact (List.getElem_idxOf hi).symm

/-! ### the LIMIT / WITHSCORES tail of ZRANGEBYSCORE -/

theorem parseRbsOpts_nil (o : RbsOpts) : parseRbsOpts [] o = .ok o := rfl

theorem parseRbsOpts_withscores (a : Bytes) (rest : List Bytes) (o : RbsOpts)
    (h : casematch a "withscores" = true) :
    parseRbsOpts (a :: rest) o = parseRbsOpts rest { o with ws := true } := by
  conv => lhs; unfold parseRbsOpts
  simp [h]

theorem parseRbsOpts_limit (a x y : Bytes) (rest : List Bytes) (o : RbsOpts)
    (h : casematch a "limit" = true) :
    parseRbsOpts (a :: x :: y :: rest) o =
      match Conv.int x with
      | .error e => .error e
      | .ok off =>
        match Conv.int y with
        | .error e => .error e
        | .ok cnt => parseRbsOpts rest { o with off := off, cnt := cnt } := by
  have hw : casematch a "withscores" = false :=
    casematch_excl h (by rw [strBytes_eq, strBytes_eq]; decide)
  rw [parseRbsOpts]
  simp only [hw, h, Bool.false_eq_true, if_false, List.length_cons, Bool.true_and]
  rw [if_pos (by simp)]
  cases Conv.int x with
  | error _ => rfl
  | ok _ => cases Conv.int y <;> rfl

theorem parseRbsOpts_limit_short (a : Bytes) (rest : List Bytes) (o : RbsOpts)
    (h : casematch a "limit" = true) (hl : rest.length < 2) :
    parseRbsOpts (a :: rest) o = .error Msgs.SYNTAX_ERROR_MSG := by
  have hw : casematch a "withscores" = false :=
    casematch_excl h (by rw [strBytes_eq, strBytes_eq]; decide)
  have : ¬ (rest.length ≥ 2) := by omega
  unfold parseRbsOpts; simp [h, hw, this]

theorem parseRbsOpts_other (a : Bytes) (rest : List Bytes) (o : RbsOpts)
    (h1 : casematch a "withscores" = false) (h2 : casematch a "limit" = false) :
    parseRbsOpts (a :: rest) o = .error Msgs.SYNTAX_ERROR_MSG := by
  unfold parseRbsOpts; simp [h1, h2]

/-! ### `-0` -/

/-- negative zero -/
def negZero : Dbl := .fin true 0 (-1074)

theorem fmtScore_def (ctx : Ctx) (d : Dbl) :
    fmtScore ctx d = Dbl.encode (if ctx.version ≥ 7 then d.plusZero else d) false := rfl

theorem plusZero_negZero : negZero.plusZero = Dbl.zero := by decide +kernel
theorem plusZero_zero : Dbl.zero.plusZero = Dbl.zero := by decide +kernel
theorem plusZero_inf (b : Bool) : (Dbl.inf b).plusZero = .inf b := rfl
theorem plusZero_nan : Dbl.nan.plusZero = .nan := rfl

theorem encode_negZero : Dbl.encode negZero false = strBytes "-0" := by decide +kernel
theorem encode_zero : Dbl.encode Dbl.zero false = strBytes "0" := by decide +kernel

theorem fmtScore_negZero (ctx : Ctx) :
    fmtScore ctx negZero = if ctx.version ≥ 7 then strBytes "0" else strBytes "-0" := by
  rw [fmtScore_def]
  split
  · rw [plusZero_negZero, encode_zero]
  · rw [encode_negZero]

theorem fmtScore_zero (ctx : Ctx) : fmtScore ctx Dbl.zero = strBytes "0" := by
  rw [fmtScore_def]
  split
  · rw [plusZero_zero, encode_zero]
  · rw [encode_zero]


/-! ## removal of a list of members -/

/-- the members `ms` are removed from the sorted set `z` held at `key`: the reply is the number `n` of members of
`ms` that are present (each counted once); the resulting set `z'` keeps the invariant, the other members, their
scores and their order; nothing changes when `n = 0` -/
def Removes (out : RunOut) (db : Db) (key : Bytes) (z : ZSet) (e : Option Int) (ms : List Bytes) : Prop :=
  ∃ (n : Nat) (z' : ZSet),
    CardEq (fun x => x ∈ ms ∧ z.get x ≠ none) n ∧
    z'.Inv ∧ (∀ x, z'.get x = if x ∈ ms then none else z.get x) ∧
    z'.byscore = z.byscore.filter (fun p => !ms.contains p.2) ∧
    (n = 0 → ReadOnly out db (.int 0)) ∧
    (n > 0 → Writes out db key z' e (.int n))

theorem removes_of_cases {out : RunOut} {db : Db} {key : Bytes} {z : ZSet} {e : Option Int} (hz : z.Inv)
    (ms : List Bytes)
    (h : (z.len - (ms.foldl ZSet.discard z).len > 0 →
        Writes out db key (ms.foldl ZSet.discard z) e (.int ((z.len - (ms.foldl ZSet.discard z).len : Nat) : Int))) ∧
      (z.len - (ms.foldl ZSet.discard z).len = 0 → ReadOnly out db (.int 0))) :
    Removes out db key z e ms :=
  ⟨z.len - (ms.foldl ZSet.discard z).len, ms.foldl ZSet.discard z, removed_card ms hz,
    foldl_discard_inv ms hz, foldl_discard_get ms z, foldl_discard_byscore ms hz, h.2, h.1⟩

/-- a duplicate-free list of present members: the reply is its length -/
theorem Removes.reply_length {out : RunOut} {db : Db} {key : Bytes} {z : ZSet} {e : Option Int} {ms : List Bytes}
    (h : Removes out db key z e ms) (hn : ms.Nodup) (hp : ∀ m ∈ ms, z.get m ≠ none) :
    out.reply = .int ms.length := by
  obtain ⟨n, z', hc, _, _, _, h0, h1⟩ := h
  have : n = ms.length :=
    CardEq.unique hc ⟨ms, hn, fun x => ⟨fun h => ⟨h, hp x h⟩, fun h => h.1⟩, rfl⟩
  subst this
  by_cases hl : ms.length = 0
  · rw [(h0 hl).1, hl]; rfl
  · exact (h1 (by omega)).1

/-- all members removed: the key is deleted -/
theorem Removes.deleted {out : RunOut} {db : Db} {key : Bytes} {z : ZSet} {e : Option Int} {ms : List Bytes}
    (h : Removes out db key z e ms) (hall : ∀ x, z.get x ≠ none → x ∈ ms) (hne : z.bylex ≠ []) :
    out.db.live key = none := by
  obtain ⟨n, z', hc, _, hg, _, h0, h1⟩ := h
  have hpos : n > 0 := by
    apply hc.pos.mpr
    cases hb : z.bylex with
    | nil => exact absurd hb hne
    | cons p ps =>
      have hgp : z.get p.1 ≠ none := by
        unfold ZSet.get; rw [hb]; simp [List.lookup_cons]
      exact ⟨p.1, hall _ hgp, hgp⟩
  apply (h1 hpos).deleted
  apply get_all_none
  intro x
  rw [hg]
  split
  · rfl
  · rename_i hx
    cases hgx : z.get x with
    | none => rfl
    | some s => exact absurd (hall x (by rw [hgx]; simp)) hx


/-! ## argument and type errors, generically -/

/-- commands `(Key(ZSet), T, T), (bytes,)?`: a bad first bound, a bad second bound, a key of another type — in
this order of precedence -/
theorem zt2_errors (ctx : Ctx) (key : Bytes) {db : Db} (nd : NodupKeys db.dict) (name : String) (body : Body)
    (t : ArgTy) (ht : simpleTy t = true)
    (hfix : (sigOf name).fixed = [.key (some .zset) .unspecified, t, t])
    (hrep : ∀ t ∈ (sigOf name).rep, t = .bytes) (a b : Bytes) (rest : List Bytes)
    (har : ArityOK (sigOf name) (rest.length + 3)) :
    (∀ er, Conv.decode t a = .error er →
      Fails (runRegular (sigOf name) body ctx none (key :: a :: b :: rest) db) db er) ∧
    (∀ x er, Conv.decode t a = .ok x → Conv.decode t b = .error er →
      Fails (runRegular (sigOf name) body ctx none (key :: a :: b :: rest) db) db er) ∧
    (∀ x y, Conv.decode t a = .ok x → Conv.decode t b = .ok y → zsetView db.live key = none →
      Fails (runRegular (sigOf name) body ctx none (key :: a :: b :: rest) db) db Msgs.WRONGTYPE_MSG) :=
  ⟨fun er h => zt2_bad1 ctx key nd name body t t ht ht hfix hrep a b rest har h,
   fun x er h1 h2 => zt2_bad2 ctx key nd name body t t ht ht hfix hrep a b rest har h1 h2,
   fun x y h1 h2 hv => zt2_wrongtype ctx key nd name body t t ht ht hfix hrep a b rest har h1 h2 hv⟩

theorem decode_score_cases (a : Bytes) :
    (∀ er, Conv.scoreTest a = .error er → Conv.decode .scoreTest a = .error Msgs.INVALID_MIN_MAX_FLOAT_MSG) ∧
    (∀ p, Conv.scoreTest a = .ok p → Conv.decode .scoreTest a = .ok (.score p.1 p.2)) :=
  ⟨fun er h => by rw [dec_score_err h, scoreTest_error h], fun p h => dec_score (d := p.1) (x := p.2) h⟩

theorem decode_lex_cases (a : Bytes) :
    (∀ er, Conv.stringTest a = .error er → Conv.decode .stringTest a = .error Msgs.INVALID_MIN_MAX_STR_MSG) ∧
    (∀ p, Conv.stringTest a = .ok p → Conv.decode .stringTest a = .ok (.lex p.1 p.2)) :=
  ⟨fun er h => by rw [dec_lex_err h, stringTest_error h], fun p h => dec_lex (v := p.1) (x := p.2) h⟩

theorem decode_int_cases (a : Bytes) :
    (∀ er, Conv.int a = .error er → Conv.decode .int a = .error Msgs.INVALID_INT_MSG) ∧
    (∀ n, Conv.int a = .ok n → Conv.decode .int a = .ok (.int n)) :=
  ⟨fun er h => by rw [dec_int_err h, int_error h], fun n h => dec_int h⟩


/-- when the members of the pairs are distinct, every pair is judged against the ORIGINAL set: CH counts the pairs
that are written and whose member is new or gets a score that is not IEEE-equal to its old one -/
theorem zaddChanged_nodup (nx xx : Bool) (z : ZSet) (items : List (Dbl × Bytes))
    (hn : (items.map Prod.snd).Nodup) :
    zaddChanged nx xx z items =
      (items.filter (fun p => zaddWrites nx xx (z.contains p.2) && (z.add p.2 p.1).2)).length := by
  induction items generalizing z with
  | nil => rfl
  | cons p ps ih =>
    rw [List.map_cons, List.nodup_cons] at hn
    simp only [zaddChanged]
    rw [ih _ hn.2, List.filter_cons]
    have hcongr : ps.filter (fun q => zaddWrites nx xx ((zaddStep nx xx z p).contains q.2) &&
          ((zaddStep nx xx z p).add q.2 q.1).2) =
        ps.filter (fun q => zaddWrites nx xx (z.contains q.2) && (z.add q.2 q.1).2) := by
      apply List.filter_congr
      intro q hq
      have hne : q.2 ≠ p.2 := by
        intro e; exact hn.1 (e ▸ List.mem_map.mpr ⟨q, hq, rfl⟩)
      have hg := get_zaddStep_other nx xx z p hne
      rw [contains_eq, contains_eq, ZSet.add_changed, ZSet.add_changed, hg]
    rw [hcongr]
    split <;> simp <;> omega


end FR.ZCmd
