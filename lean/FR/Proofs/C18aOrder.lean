import FR.Proofs.C18aExact
/-!
# C18a helper — the order (`lt`, `eq`, `le`, `pyMax`, `pyMin`) and the 64-bit image (`toBits`, `ofBits`)
-/
namespace FR.C18a
open FR FR.C18f FR.DumpRound

/-! ### order -/

set_option exponentiation.threshold 1100 in
/-- `scaled` is the value times `2^1074` (for exponents in range) -/
theorem scaled_cast (n : Bool) (m : Nat) (e : Int) (he : -1074 ≤ e) :
    ((Dbl.scaled (.fin n m e) : Int) : ℚ) = Dbl.val (.fin n m e) * (2 : ℚ) ^ 1074 := by
  rw [scaled_fin, val_fin]
  have h1 : (2 : ℚ) ^ e * (2 : ℚ) ^ 1074 = (2 : ℚ) ^ (e + 1074).toNat := by
    rw [← zpow_natCast, ← zpow_natCast, ← zpow_add₀ (by norm_num)]
    congr 1; omega
  rw [mul_assoc, mul_assoc, h1]
  push_cast
  cases n <;> simp

theorem two_pow_1074_pos : (0 : ℚ) < (2 : ℚ) ^ 1074 := by positivity

theorem lt_fin_iff (n1 : Bool) (m1 : Nat) (e1 : Int) (n2 : Bool) (m2 : Nat) (e2 : Int)
    (h1 : -1074 ≤ e1) (h2 : -1074 ≤ e2) :
    Dbl.lt (.fin n1 m1 e1) (.fin n2 m2 e2) = true ↔ Dbl.val (.fin n1 m1 e1) < Dbl.val (.fin n2 m2 e2) := by
  show decide ((Dbl.fin n1 m1 e1).scaled < (Dbl.fin n2 m2 e2).scaled) = true ↔ _
  rw [decide_eq_true_eq, ← @Int.cast_lt ℚ, scaled_cast _ _ _ h1, scaled_cast _ _ _ h2]
  exact mul_lt_mul_iff_of_pos_right two_pow_1074_pos

theorem eq_fin_iff (n1 : Bool) (m1 : Nat) (e1 : Int) (n2 : Bool) (m2 : Nat) (e2 : Int)
    (h1 : -1074 ≤ e1) (h2 : -1074 ≤ e2) :
    Dbl.eq (.fin n1 m1 e1) (.fin n2 m2 e2) = true ↔ Dbl.val (.fin n1 m1 e1) = Dbl.val (.fin n2 m2 e2) := by
  show decide ((Dbl.fin n1 m1 e1).scaled = (Dbl.fin n2 m2 e2).scaled) = true ↔ _
  rw [decide_eq_true_eq, ← @Int.cast_inj ℚ, scaled_cast _ _ _ h1, scaled_cast _ _ _ h2]
  exact mul_left_inj' two_pow_1074_pos.ne'

theorem le_fin_iff (n1 : Bool) (m1 : Nat) (e1 : Int) (n2 : Bool) (m2 : Nat) (e2 : Int)
    (h1 : -1074 ≤ e1) (h2 : -1074 ≤ e2) :
    Dbl.le (.fin n1 m1 e1) (.fin n2 m2 e2) = true ↔ Dbl.val (.fin n1 m1 e1) ≤ Dbl.val (.fin n2 m2 e2) := by
  unfold Dbl.le
  rw [Bool.or_eq_true, lt_fin_iff _ _ _ _ _ _ h1 h2, eq_fin_iff _ _ _ _ _ _ h1 h2]
  exact le_iff_lt_or_eq.symm

/-- two canonical finite doubles with the same value are the same double, up to the sign of zero -/
theorem val_inj {n1 n2 : Bool} {m1 m2 : Nat} {e1 e2 : Int} (w1 : Dbl.WF (.fin n1 m1 e1)) (w2 : Dbl.WF (.fin n2 m2 e2))
    (h : Dbl.val (.fin n1 m1 e1) = Dbl.val (.fin n2 m2 e2)) :
    m1 = m2 ∧ e1 = e2 ∧ (m1 ≠ 0 → n1 = n2) := by
  by_cases hm : m1 = 0
  · subst hm
    have : m2 = 0 := (val_eq_zero_iff n2 m2 e2).mp (by rw [← h]; exact (val_eq_zero_iff n1 0 e1).mpr rfl)
    subst this
    exact ⟨rfl, by rw [w1.2.2.2.2 rfl, w2.2.2.2.2 rfl], fun h => absurd rfl h⟩
  · have hr1 := RN_val_of_ne false n1 m1 e1 w1 hm
    have hm2 : m2 ≠ 0 := fun h2 => by
      subst h2
      exact hm ((val_eq_zero_iff n1 m1 e1).mp (by rw [h]; exact (val_eq_zero_iff n2 0 e2).mpr rfl))
    have hr2 := RN_val_of_ne false n2 m2 e2 w2 hm2
    rw [h, hr2] at hr1
    injection hr1 with a b c
    exact ⟨b.symm, c.symm, fun _ => a.symm⟩

theorem pyMax_cases (a b : Dbl) : Dbl.pyMax a b = a ∨ Dbl.pyMax a b = b := by
  unfold Dbl.pyMax; split
  · exact Or.inr rfl
  · exact Or.inl rfl

theorem pyMin_cases (a b : Dbl) : Dbl.pyMin a b = a ∨ Dbl.pyMin a b = b := by
  unfold Dbl.pyMin; split
  · exact Or.inr rfl
  · exact Or.inl rfl

theorem le_refl' {a : Dbl} (h : a.isNaN = false) : Dbl.le a a = true := by
  unfold Dbl.le; rw [Dbl.eq_refl h, Bool.or_true]

theorem le_of_not_lt {a b : Dbl} (ha : a.isNaN = false) (hb : b.isNaN = false) (h : Dbl.lt a b = false) :
    Dbl.le b a = true := by
  unfold Dbl.le
  rcases Dbl.trichotomy ha hb with ⟨h1, _, _⟩ | ⟨_, h2, _⟩ | ⟨_, _, h3⟩
  · rw [h1] at h; cases h
  · rw [Dbl.eq_symm h2, Bool.or_true]
  · rw [h3, Bool.true_or]

/-- `pyMax` is an upper bound of both arguments (no NaN) -/
theorem pyMax_ge {a b : Dbl} (ha : a.isNaN = false) (hb : b.isNaN = false) :
    Dbl.le a (Dbl.pyMax a b) = true ∧ Dbl.le b (Dbl.pyMax a b) = true := by
  unfold Dbl.pyMax
  cases h : Dbl.lt a b
  · simp only [Bool.false_eq_true, if_false]
    exact ⟨le_refl' ha, le_of_not_lt ha hb h⟩
  · simp only [if_true]
    refine ⟨?_, le_refl' hb⟩
    unfold Dbl.le; rw [h, Bool.true_or]

theorem pyMin_le {a b : Dbl} (ha : a.isNaN = false) (hb : b.isNaN = false) :
    Dbl.le (Dbl.pyMin a b) a = true ∧ Dbl.le (Dbl.pyMin a b) b = true := by
  unfold Dbl.pyMin
  cases h : Dbl.lt b a
  · simp only [Bool.false_eq_true, if_false]
    exact ⟨le_refl' ha, le_of_not_lt hb ha h⟩
  · simp only [if_true]
    refine ⟨?_, le_refl' hb⟩
    unfold Dbl.le; rw [h, Bool.true_or]

theorem pyMax_val (n1 : Bool) (m1 : Nat) (e1 : Int) (n2 : Bool) (m2 : Nat) (e2 : Int)
    (h1 : -1074 ≤ e1) (h2 : -1074 ≤ e2) :
    Dbl.val (Dbl.pyMax (.fin n1 m1 e1) (.fin n2 m2 e2)) = max (Dbl.val (.fin n1 m1 e1)) (Dbl.val (.fin n2 m2 e2)) := by
  unfold Dbl.pyMax
  have := lt_fin_iff n1 m1 e1 n2 m2 e2 h1 h2
  split
  · rename_i h; rw [max_eq_right (this.mp h).le]
  · rename_i h; rw [max_eq_left (not_lt.mp (fun hh => h (this.mpr hh)))]

theorem pyMin_val (n1 : Bool) (m1 : Nat) (e1 : Int) (n2 : Bool) (m2 : Nat) (e2 : Int)
    (h1 : -1074 ≤ e1) (h2 : -1074 ≤ e2) :
    Dbl.val (Dbl.pyMin (.fin n1 m1 e1) (.fin n2 m2 e2)) = min (Dbl.val (.fin n1 m1 e1)) (Dbl.val (.fin n2 m2 e2)) := by
  unfold Dbl.pyMin
  have := lt_fin_iff n2 m2 e2 n1 m1 e1 h2 h1
  split
  · rename_i h; rw [min_eq_right (this.mp h).le]
  · rename_i h; rw [min_eq_left (not_lt.mp (fun hh => h (this.mpr hh)))]

/-! ### bits -/

/-- the three fields of a 64-bit pattern -/
def fSign (b : UInt64) : Bool := decide (b.toNat / 2 ^ 63 = 1)
def fExp (b : UInt64) : Nat := b.toNat / 2 ^ 52 % 2048
def fFrac (b : UInt64) : Nat := b.toNat % 2 ^ 52

def pack (s : Bool) (ex fr : Nat) : UInt64 :=
  (if s then (0x8000000000000000 : UInt64) else 0) ||| (UInt64.ofNat ex <<< 52) ||| UInt64.ofNat fr

theorem fExp_lt (b : UInt64) : fExp b < 2048 := Nat.mod_lt _ (by decide)
theorem fFrac_lt (b : UInt64) : fFrac b < 2 ^ 52 := Nat.mod_lt _ (by decide)

/-- every pattern is the packing of its three fields -/
theorem pack_fields (b : UInt64) : pack (fSign b) (fExp b) (fFrac b) = b := by
  apply UInt64.toNat_inj.mp
  unfold pack
  rw [bitsNat _ _ _ (fExp_lt b) (fFrac_lt b)]
  unfold fSign fExp fFrac
  have hb : b.toNat < 2 ^ 64 := b.toNat_lt
  generalize b.toNat = N at *
  by_cases h : N / 2 ^ 63 = 1
  · simp only [h, decide_true, if_true]; omega
  · simp only [h, decide_false, Bool.false_eq_true, if_false]; omega

theorem ofBits_fields (b : UInt64) :
    Dbl.ofBits b =
      if fExp b == 0x7FF then (if fFrac b == 0 then .inf (fSign b) else .nan)
      else if fExp b == 0 then .fin (fSign b) (fFrac b) (-1074)
      else .fin (fSign b) (fFrac b + Dbl.pow2 52) ((fExp b : Int) - 1075) := by
  conv_lhs => rw [← pack_fields b]
  exact ofBits_pack _ _ _ (fExp_lt b) (fFrac_lt b)

theorem toBits_pack_inf (s : Bool) : Dbl.toBits (.inf s) = pack s 0x7FF 0 := by cases s <;> decide

/-- `toBits ∘ ofBits` is the identity on every pattern that is not a NaN -/
theorem toBits_ofBits (b : UInt64) (h : (Dbl.ofBits b).isNaN = false) : Dbl.toBits (Dbl.ofBits b) = b := by
  have hp := pack_fields b
  have hfr := fFrac_lt b
  have hex := fExp_lt b
  rw [ofBits_fields] at h ⊢
  generalize fSign b = s at *
  generalize fExp b = ex at *
  generalize fFrac b = fr at *
  by_cases c1 : ex = 0x7FF
  · have hc1 : (ex == 0x7FF) = true := by simpa using c1
    rw [hc1] at h ⊢
    simp only [if_true] at h ⊢
    by_cases c2 : fr = 0
    · have hc2 : (fr == 0) = true := by simpa using c2
      rw [hc2] at h ⊢
      simp only [if_true]
      rw [toBits_pack_inf, ← hp, c1, c2]
    · have hc2 : (fr == 0) = false := by simpa using c2
      rw [hc2] at h
      cases h
  · have hc1 : (ex == 0x7FF) = false := by simpa using c1
    rw [hc1]
    simp only [Bool.false_eq_true, if_false]
    by_cases c3 : ex = 0
    · have hc3 : (ex == 0) = true := by simpa using c3
      rw [hc3]
      simp only [if_true]
      unfold Dbl.toBits
      simp only [pow2_52, hfr, if_true]
      rw [← hp, c3]
      unfold pack
      have hz : (UInt64.ofNat 0 <<< 52) = 0 := by decide
      rw [hz, UInt64.or_zero]
    · have hc3 : (ex == 0) = false := by simpa using c3
      rw [hc3]
      simp only [Bool.false_eq_true, if_false]
      unfold Dbl.toBits
      simp only [pow2_52]
      have hm : ¬ fr + 2 ^ 52 < 2 ^ 52 := by omega
      simp only [hm, if_false]
      have e1 : ((ex : Int) - 1075 + 1075).toNat = ex := by omega
      have e2 : fr + 2 ^ 52 - 2 ^ 52 = fr := by omega
      rw [e1, e2, ← hp]
      rfl

/-- the NaN patterns: exponent field all ones, non-zero fraction; all of them collapse to the one NaN of the model,
whose image is the quiet NaN `0x7FF8000000000000` -/
theorem ofBits_nan_iff (b : UInt64) : Dbl.ofBits b = .nan ↔ fExp b = 0x7FF ∧ fFrac b ≠ 0 := by
  rw [ofBits_fields]
  by_cases c1 : fExp b = 0x7FF
  · have hc1 : (fExp b == 0x7FF) = true := by simpa using c1
    rw [hc1]
    simp only [if_true]
    by_cases c2 : fFrac b = 0
    · have hc2 : (fFrac b == 0) = true := by simpa using c2
      rw [hc2]; simp [c2]
    · have hc2 : (fFrac b == 0) = false := by simpa using c2
      rw [hc2]; simp [c1, c2]
  · have hc1 : (fExp b == 0x7FF) = false := by simpa using c1
    rw [hc1]
    simp only [Bool.false_eq_true, if_false]
    constructor
    · intro h; split at h <;> cases h
    · rintro ⟨h, _⟩; exact absurd h c1

theorem toBits_injective {a b : Dbl} (ha : Dbl.WF a) (hb : Dbl.WF b) (h : Dbl.toBits a = Dbl.toBits b) : a = b := by
  rw [← ofBits_toBits ((wf_iff_canon a).mp ha), ← ofBits_toBits ((wf_iff_canon b).mp hb), h]

end FR.C18a
