import FR.Proofs.Runner
/-!
# The `CommandItem` discipline of the real command table

Every body of `Cmd.regular`
* returns only `CommandItem`s satisfying `expMod → modified` (`CI.ExpModSound`), provided its input
  items do (`regular_sound`, hence `regular_expModSound`);
* signals errors only through `.error`, never through an `.ok` reply that is an error reply
  (`regular_reply_not_err`).

Both facts are proved together, as the compositional invariant `Body.Good`.  The invariant carries a
switch `S : Prop`: the soundness of the `CommandItem`s is assumed and concluded only under `S`, the
statement about the reply is unconditional.  `S := True` gives the first fact, `S := False` the second
(for arbitrary input `CommandItem`s).
-/
namespace FR

/-- every item of the list satisfies `expMod → modified` -/
def CIs.Sound (cis : List CI) : Prop := ∀ c ∈ cis, c.ExpModSound

/-- `CIs.Sound` under the switch `S` -/
def CIs.SoundIf (S : Prop) (cis : List CI) : Prop := S → CIs.Sound cis

/-- the outcome of a body: sound items (under `S`) and a non-error reply, whenever it is `.ok` -/
def Out.Good (S : Prop) (r : Except Err BodyOut) : Prop :=
  ∀ o, r = .ok o → CIs.SoundIf S o.cis ∧ o.reply.isErr = false

/-- the compositional invariant -/
def Body.Good (body : Body) : Prop :=
  ∀ (S : Prop) ctx args cis, CIs.SoundIf S cis → Out.Good S (body ctx args cis)

/-! ## closure lemmas -/

theorem CIs.Sound.of_clean {cis : List CI} (h : ∀ c ∈ cis, c.Clean) : CIs.Sound cis :=
  fun c hc => (h c hc).sound

theorem CIs.Sound.set {cis : List CI} (h : CIs.Sound cis) {c : CI} (hc : c.ExpModSound) (k : Nat) :
    CIs.Sound (cis.set k c) := by
  intro c' hc'
  rcases List.mem_or_eq_of_mem_set hc' with h' | rfl
  · exact h c' h'
  · exact hc

theorem CIs.SoundIf.set {S : Prop} {cis : List CI} (h : CIs.SoundIf S cis) {c : CI} (hc : c.ExpModSound)
    (k : Nat) : CIs.SoundIf S (cis.set k c) := fun hS => (h hS).set hc k

/-- an item whose `modified` flag is set is sound; every item stored by a body is of this form -/
theorem CI.mk_modified_sound (k : Bytes) (v : Option Value) (e : Option Int) (x : Bool) :
    CI.ExpModSound ⟨k, v, e, true, x⟩ := fun _ => rfl

theorem Out.good_error {S : Prop} (e : Err) : Out.Good S (.error e) := by
  intro o h; cases h

theorem Out.good_ok_iff {S : Prop} (o : BodyOut) :
    Out.Good S (.ok o) ↔ CIs.SoundIf S o.cis ∧ o.reply.isErr = false := by
  constructor
  · intro h; exact h o rfl
  · intro h o' ho; cases ho; exact h

theorem Out.good_ret_iff {S : Prop} (r : Reply) (cis : List CI) :
    Out.Good S (ret r cis) ↔ CIs.SoundIf S cis ∧ r.isErr = false := Out.good_ok_iff _

theorem Out.good_ite {S : Prop} {c : Prop} [Decidable c] {a b : Except Err BodyOut} (ha : Out.Good S a)
    (hb : Out.Good S b) : Out.Good S (if c then a else b) := by
  split <;> assumption

theorem Reply.isErr_nil : Reply.nil.isErr = false := rfl
theorem Reply.isErr_int (n : Int) : (Reply.int n).isErr = false := rfl
theorem Reply.isErr_bulk (b : Bytes) : (Reply.bulk b).isErr = false := rfl
theorem Reply.isErr_status (b : Bytes) : (Reply.status b).isErr = false := rfl
theorem Reply.isErr_arr (xs : List Reply) : (Reply.arr xs).isErr = false := rfl
theorem Reply.isErr_ok : Reply.ok.isErr = false := rfl

theorem Reply.ofOptBulk_not_err (x : Option Bytes) : (Reply.ofOptBulk x).isErr = false := by
  cases x <;> rfl

theorem Reply.bulks_not_err (l : List Bytes) : (Reply.bulks l).isErr = false := rfl

theorem Cmd.scanReply_not_err {α} {elems : List α} {keyOf : α → Bytes} {tn : Bytes → Bytes} {at_ : Bool}
    {cursor : Int} {opts : List Bytes} {render : List α → List Reply} {r : Reply}
    (h : Cmd.scanReply elems keyOf tn at_ cursor opts render = .ok r) : r.isErr = false := by
  unfold Cmd.scanReply at h
  repeat' split at h
  all_goals first | (cases h; done) | (cases h; rfl)

/-- the closing step of every case: the outcome is an error, or a `ret` of a list built with `set` -/
macro "good_close" : tactic => `(tactic|
  simp (config := { failIfUnchanged := false }) only
    [Out.good_error, Out.good_ret_iff, Out.good_ok_iff, CIs.SoundIf.set,
     CI.setValue_sound, CI.setExpire_sound, CI.update_sound, CI.updated_sound,
     CI.mk_modified_sound, Reply.isErr_nil, Reply.isErr_int, Reply.isErr_bulk, Reply.isErr_status,
     Reply.isErr_arr, Reply.isErr_ok, Reply.ofOptBulk_not_err, Reply.bulks_not_err,
     and_self, true_and, and_true, *])

/-- split every `match`/`if` of the body (zeta-reducing `let`s on the way) -/
macro "body_cases" : tactic => `(tactic| repeat' (first | split | (dsimp only; split)))

/-- the generic proof of `Body.Good` for a body that only uses the setters -/
macro "good_body" : tactic => `(tactic|
  (body_cases; all_goals (good_close; try exact Cmd.scanReply_not_err (by assumption))))

namespace Cmd
variable {S : Prop}

/-! ## Strings -/

theorem append_good : Body.Good append := by
  intro S ctx args cis hs
  unfold append
  good_body

theorem bitcount_good : Body.Good bitcount := by
  intro S ctx args cis hs
  unfold bitcount
  good_body

theorem incrbyCore_good {cis : List CI} (hs : CIs.SoundIf S cis) (k : Nat) (a : Int) :
    Out.Good S (incrbyCore cis k a) := by
  unfold incrbyCore
  good_body

theorem incrby_good : Body.Good incrby := by
  intro S ctx args cis hs
  have hcore := @incrbyCore_good
  unfold incrby
  good_body

theorem decrby_good : Body.Good decrby := by
  intro S ctx args cis hs
  have hcore := @incrbyCore_good
  unfold decrby
  good_body

theorem incr_good : Body.Good incr := by
  intro S ctx args cis hs
  have hcore := @incrbyCore_good
  unfold incr
  good_body

theorem decr_good : Body.Good decr := by
  intro S ctx args cis hs
  have hcore := @incrbyCore_good
  unfold decr
  good_body

theorem incrbyfloat_good : Body.Good incrbyfloat := by
  intro S ctx args cis hs
  unfold incrbyfloat
  good_body

theorem get_good : Body.Good get := by
  intro S ctx args cis hs
  unfold get
  good_body

theorem getbit_good : Body.Good getbit := by
  intro S ctx args cis hs
  unfold getbit
  good_body

theorem setbit_good : Body.Good setbit := by
  intro S ctx args cis hs
  unfold setbit
  good_body

theorem getrange_good : Body.Good getrange := by
  intro S ctx args cis hs
  unfold getrange
  good_body

theorem getset_good : Body.Good getset := by
  intro S ctx args cis hs
  unfold getset
  good_body

theorem mget_good : Body.Good mget := by
  intro S ctx args cis hs
  unfold mget
  good_body

theorem msetCore_sound (ps : List (Nat × Bytes)) {cis : List CI} (hs : CIs.SoundIf S cis) :
    CIs.SoundIf S (msetCore cis ps) := by
  unfold msetCore
  induction ps generalizing cis with
  | nil => exact hs
  | cons p ps ih => exact ih (hs.set (CI.setValue_sound _ _) _)

theorem mset_good : Body.Good mset := by
  intro S ctx args cis hs
  have hcore := @msetCore_sound
  unfold mset
  good_body

theorem msetnx_good : Body.Good msetnx := by
  intro S ctx args cis hs
  have hcore := @msetCore_sound
  unfold msetnx
  good_body

theorem set_good : Body.Good set := by
  intro S ctx args cis hs
  unfold set
  split
  · split
    · good_close
    · dsimp only
      refine Out.good_ite ?_ (Out.good_ite ?_ (Out.good_ite ?_ ?_))
      all_goals good_body
  · good_close

theorem setex_good : Body.Good setex := by
  intro S ctx args cis hs
  unfold setex
  good_body

theorem psetex_good : Body.Good psetex := by
  intro S ctx args cis hs
  unfold psetex
  good_body

theorem setnx_good : Body.Good setnx := by
  intro S ctx args cis hs
  unfold setnx
  good_body

theorem setrange_good : Body.Good setrange := by
  intro S ctx args cis hs
  unfold setrange
  good_body

theorem strlen_good : Body.Good strlen := by
  intro S ctx args cis hs
  unfold strlen
  good_body

/-! ## Keys -/

theorem deleteCore_sound (ks : List Nat) {cis : List CI} (hs : CIs.SoundIf S cis) :
    CIs.SoundIf S (deleteCore cis ks).1 := by
  unfold deleteCore
  generalize (0 : Int) = n
  generalize ([] : List Bytes) = done
  induction ks generalizing cis n done with
  | nil => exact hs
  | cons k ks ih =>
    simp only [List.foldl_cons]
    split
    · exact ih (hs.set (CI.setValue_sound _ _) _) _ _
    · exact ih hs _ _

theorem del_good : Body.Good del := by
  intro S ctx args cis hs
  have h := deleteCore_sound (keyIdxs args) hs
  unfold del
  split
  rename_i heq
  rw [heq] at h
  good_close

theorem exists__good : Body.Good exists_ := by
  intro S ctx args cis hs
  unfold exists_
  good_body

theorem expireatCore_good (ctx : Ctx) {cis : List CI} (hs : CIs.SoundIf S cis) (k : Nat) (ts : Int) :
    Out.Good S (expireatCore ctx cis k ts) := by
  unfold expireatCore
  good_body

theorem expire_good : Body.Good expire := by
  intro S ctx args cis hs
  have hcore0 := @expireatCore_good
  unfold expire
  good_body

theorem expireat_good : Body.Good expireat := by
  intro S ctx args cis hs
  have hcore0 := @expireatCore_good
  unfold expireat
  good_body

theorem pexpire_good : Body.Good pexpire := by
  intro S ctx args cis hs
  have hcore0 := @expireatCore_good
  unfold pexpire
  good_body

theorem pexpireat_good : Body.Good pexpireat := by
  intro S ctx args cis hs
  have hcore0 := @expireatCore_good
  unfold pexpireat
  good_body

theorem ttlCore_good (ctx : Ctx) {cis : List CI} (hs : CIs.SoundIf S cis) (k : Nat) (sc : Int) :
    Out.Good S (ttlCore ctx cis k sc) := by
  unfold ttlCore
  good_body

theorem ttl_good : Body.Good ttl := by
  intro S ctx args cis hs
  have hcore0 := @ttlCore_good
  unfold ttl
  good_body

theorem pttl_good : Body.Good pttl := by
  intro S ctx args cis hs
  have hcore0 := @ttlCore_good
  unfold pttl
  good_body

theorem type__good : Body.Good type_ := by
  intro S ctx args cis hs
  unfold type_
  good_body

theorem persist_good : Body.Good persist := by
  intro S ctx args cis hs
  unfold persist
  good_body

theorem renameCore_sound {cis : List CI} (hs : CIs.SoundIf S cis) (k nk : Nat) :
    CIs.SoundIf S (renameCore cis k nk) := by
  unfold renameCore
  dsimp only
  split
  · exact (hs.set (CI.setExpire_sound _ _) _).set (CI.setValue_sound _ _) _
  · exact hs

theorem rename_good : Body.Good rename := by
  intro S ctx args cis hs
  have hcore0 := @renameCore_sound
  unfold rename
  good_body

theorem renamenx_good : Body.Good renamenx := by
  intro S ctx args cis hs
  have hcore0 := @renameCore_sound
  unfold renamenx
  good_body

theorem dump_good : Body.Good dump := by
  intro S ctx args cis hs
  unfold dump
  good_body

theorem restore_good : Body.Good restore := by
  intro S ctx args cis hs
  unfold restore
  good_body

/-! ## Hashes -/

theorem hdel_good : Body.Good hdel := by
  intro S ctx args cis hs
  unfold hdel
  good_body

theorem hexists_good : Body.Good hexists := by
  intro S ctx args cis hs
  unfold hexists
  good_body

theorem hget_good : Body.Good hget := by
  intro S ctx args cis hs
  unfold hget
  good_body

theorem hgetall_good : Body.Good hgetall := by
  intro S ctx args cis hs
  unfold hgetall
  good_body

theorem hincrby_good : Body.Good hincrby := by
  intro S ctx args cis hs
  unfold hincrby
  good_body

theorem hincrbyfloat_good : Body.Good hincrbyfloat := by
  intro S ctx args cis hs
  unfold hincrbyfloat
  good_body

theorem hkeys_good : Body.Good hkeys := by
  intro S ctx args cis hs
  unfold hkeys
  good_body

theorem hvals_good : Body.Good hvals := by
  intro S ctx args cis hs
  unfold hvals
  good_body

theorem hlen_good : Body.Good hlen := by
  intro S ctx args cis hs
  unfold hlen
  good_body

theorem hmget_good : Body.Good hmget := by
  intro S ctx args cis hs
  unfold hmget
  good_body

theorem hset_good : Body.Good hset := by
  intro S ctx args cis hs
  unfold hset
  good_body

theorem hmset_good : Body.Good hmset := by
  intro S ctx args cis hs
  have h := hset_good S ctx args cis hs
  unfold hmset
  split
  · rename_i o heq
    rw [heq, Out.good_ok_iff] at h
    rw [Out.good_ok_iff]
    exact ⟨h.1, rfl⟩
  · exact Out.good_error _

theorem hsetnx_good : Body.Good hsetnx := by
  intro S ctx args cis hs
  have hcore : ∀ ctx args cis, CIs.SoundIf S cis → Out.Good S (hset ctx args cis) := hset_good S
  unfold hsetnx
  good_body

theorem hstrlen_good : Body.Good hstrlen := by
  intro S ctx args cis hs
  unfold hstrlen
  good_body

theorem hscan_good : Body.Good hscan := by
  intro S ctx args cis hs
  unfold hscan
  good_body

/-! ## Lists -/

theorem setList_sound {cis : List CI} (hs : CIs.SoundIf S cis) (k : Nat) (l : List Bytes) :
    CIs.SoundIf S (setList cis k l) := hs.set (CI.mk_modified_sound _ _ _ _) _

theorem lindex_good : Body.Good lindex := by
  intro S ctx args cis hs
  have hcore0 := @setList_sound
  unfold lindex
  good_body

theorem linsert_good : Body.Good linsert := by
  intro S ctx args cis hs
  have hcore0 := @setList_sound
  unfold linsert
  good_body

theorem llen_good : Body.Good llen := by
  intro S ctx args cis hs
  have hcore0 := @setList_sound
  unfold llen
  good_body

theorem lpush_good : Body.Good lpush := by
  intro S ctx args cis hs
  have hcore0 := @setList_sound
  unfold lpush
  good_body

theorem rpush_good : Body.Good rpush := by
  intro S ctx args cis hs
  have hcore0 := @setList_sound
  unfold rpush
  good_body

theorem lpushx_good : Body.Good lpushx := by
  intro S ctx args cis hs
  have hcore : ∀ ctx args cis, CIs.SoundIf S cis → Out.Good S (lpush ctx args cis) := lpush_good S
  unfold lpushx
  good_body

theorem rpushx_good : Body.Good rpushx := by
  intro S ctx args cis hs
  have hcore : ∀ ctx args cis, CIs.SoundIf S cis → Out.Good S (rpush ctx args cis) := rpush_good S
  unfold rpushx
  good_body

theorem lrange_good : Body.Good lrange := by
  intro S ctx args cis hs
  have hcore0 := @setList_sound
  unfold lrange
  good_body

theorem lrem_good : Body.Good lrem := by
  intro S ctx args cis hs
  have hcore0 := @setList_sound
  unfold lrem
  good_body

theorem lset_good : Body.Good lset := by
  intro S ctx args cis hs
  have hcore0 := @setList_sound
  unfold lset
  good_body

theorem ltrim_good : Body.Good ltrim := by
  intro S ctx args cis hs
  have hcore0 := @setList_sound
  unfold ltrim
  good_body

theorem listPop_good (left : Bool) : Body.Good (listPop left) := by
  intro S ctx args cis hs
  have hcore := @setList_sound
  unfold listPop
  good_body

theorem lpop_good : Body.Good lpop := listPop_good true
theorem rpop_good : Body.Good rpop := listPop_good false

theorem moveCore_good {cis : List CI} (hs : CIs.SoundIf S cis) (s d : Nat) (fl tl : Bool) :
    Out.Good S (moveCore cis s d fl tl) := by
  have hcore := @setList_sound
  unfold moveCore
  good_body

theorem rpoplpush_good : Body.Good rpoplpush := by
  intro S ctx args cis hs
  have hcore0 := @moveCore_good
  unfold rpoplpush
  good_body

theorem lmove_good : Body.Good lmove := by
  intro S ctx args cis hs
  have hcore0 := @moveCore_good
  unfold lmove
  good_body

/-! ## Sets -/

theorem putSet_sound {cis : List CI} (hs : CIs.SoundIf S cis) (k : Nat) (s : List Bytes) :
    CIs.SoundIf S (putSet cis k s) := hs.set (CI.mk_modified_sound _ _ _ _) _

theorem saddCore_sound {cis : List CI} (hs : CIs.SoundIf S cis) (k : Nat) (ms : List Bytes) :
    CIs.SoundIf S (saddCore cis k ms).1 := putSet_sound hs _ _

theorem sadd_good : Body.Good sadd := by
  intro S ctx args cis hs
  unfold sadd
  split
  · rename_i k ms
    have h := saddCore_sound hs k (rawArgs ms)
    split
    rename_i heq
    rw [heq] at h
    good_close
  · good_close

theorem pfadd_good : Body.Good pfadd := by
  intro S ctx args cis hs
  unfold pfadd
  split
  · rename_i k ms
    have h := saddCore_sound hs k (rawArgs ms)
    split
    rename_i heq
    rw [heq] at h
    good_close
  · good_close

theorem scard_good : Body.Good scard := by
  intro S ctx args cis hs
  unfold scard
  good_body

theorem setopRead_good (op : SetOp) : Body.Good (setopRead op) := by
  intro S ctx args cis hs
  unfold setopRead
  good_body

theorem setopStore_good (op : SetOp) : Body.Good (setopStore op) := by
  intro S ctx args cis hs
  unfold setopStore
  good_body

theorem sdiff_good : Body.Good sdiff := setopRead_good _
theorem sinter_good : Body.Good sinter := setopRead_good _
theorem sunion_good : Body.Good sunion := setopRead_good _
theorem sdiffstore_good : Body.Good sdiffstore := setopStore_good _
theorem sinterstore_good : Body.Good sinterstore := setopStore_good _
theorem sunionstore_good : Body.Good sunionstore := setopStore_good _

theorem sismember_good : Body.Good sismember := by
  intro S ctx args cis hs
  unfold sismember
  good_body

theorem smismember_good : Body.Good smismember := by
  intro S ctx args cis hs
  unfold smismember
  good_body

theorem smembers_good : Body.Good smembers := by
  intro S ctx args cis hs
  unfold smembers
  good_body

theorem smove_good : Body.Good smove := by
  intro S ctx args cis hs
  have hcore0 := @putSet_sound
  unfold smove
  good_body

theorem srandCore_not_err {ctx : Ctx} {s : List Bytes} {count : Option Int} {r : Reply} {u : Nat}
    {p : List Bytes} (h : srandCore ctx s count = some (r, u, p)) : r.isErr = false := by
  unfold srandCore at h
  repeat' (first | split at h | (dsimp only at h; split at h))
  all_goals first | (cases h; done) | (cases h; rfl)

theorem srandmember_good : Body.Good srandmember := by
  intro S ctx args cis hs
  unfold srandmember
  body_cases
  all_goals good_close
  all_goals exact srandCore_not_err (by assumption)

theorem spop_good : Body.Good spop := by
  intro S ctx args cis hs
  have hcore := @putSet_sound
  unfold spop
  body_cases
  all_goals good_close
  all_goals exact srandCore_not_err (by assumption)

theorem srem_good : Body.Good srem := by
  intro S ctx args cis hs
  have hcore0 := @putSet_sound
  unfold srem
  good_body

theorem sscan_good : Body.Good sscan := by
  intro S ctx args cis hs
  unfold sscan
  good_body

theorem pfcount_good : Body.Good pfcount := by
  intro S ctx args cis hs
  unfold pfcount
  good_body

theorem pfmerge_good : Body.Good pfmerge := by
  intro S ctx args cis hs
  unfold pfmerge
  good_body

/-! ## Sorted sets -/

theorem putZ_sound {cis : List CI} (hs : CIs.SoundIf S cis) (k : Nat) (z : ZSet) :
    CIs.SoundIf S (putZ cis k z) := hs.set (CI.mk_modified_sound _ _ _ _) _

theorem zincrbyCore_good (ctx : Ctx) {cis : List CI} (hs : CIs.SoundIf S cis) (k : Nat) (incr : Dbl) (m : Bytes) :
    Out.Good S (zincrbyCore ctx cis k incr m) := by
  have hcore := @putZ_sound
  unfold zincrbyCore
  good_body

theorem zadd_good : Body.Good zadd := by
  intro S ctx args cis hs
  have hcore0 := @putZ_sound
  have hcore1 := @zincrbyCore_good
  unfold zadd
  good_body

theorem zcard_good : Body.Good zcard := by
  intro S ctx args cis hs
  unfold zcard
  good_body

theorem zcount_good : Body.Good zcount := by
  intro S ctx args cis hs
  unfold zcount
  good_body

theorem zincrby_good : Body.Good zincrby := by
  intro S ctx args cis hs
  have hcore0 := @zincrbyCore_good
  unfold zincrby
  good_body

theorem zlexcount_good : Body.Good zlexcount := by
  intro S ctx args cis hs
  unfold zlexcount
  good_body

theorem zrangeGen_good (rev : Bool) : Body.Good (zrangeGen rev) := by
  intro S ctx args cis hs
  unfold zrangeGen
  good_body

theorem zrange_good : Body.Good zrange := zrangeGen_good _
theorem zrevrange_good : Body.Good zrevrange := zrangeGen_good _

theorem zrangebylexGen_good (rev : Bool) (mn : LexB) (mne : Bool) (mx : LexB) (mxe : Bool) (k : Nat)
    (opts : List Bytes) {cis : List CI} (hs : CIs.SoundIf S cis) :
    Out.Good S (zrangebylexGen rev mn mne mx mxe k opts cis) := by
  unfold zrangebylexGen
  good_body

theorem zrangebylex_good : Body.Good zrangebylex := by
  intro S ctx args cis hs
  have hcore0 := @zrangebylexGen_good
  unfold zrangebylex
  good_body

theorem zrevrangebylex_good : Body.Good zrevrangebylex := by
  intro S ctx args cis hs
  have hcore0 := @zrangebylexGen_good
  unfold zrevrangebylex
  good_body

theorem zrangebyscoreGen_good (rev : Bool) (ctx : Ctx) (mn : Dbl) (mne : Bool) (mx : Dbl) (mxe : Bool)
    (k : Nat) (opts : List Bytes) {cis : List CI} (hs : CIs.SoundIf S cis) :
    Out.Good S (zrangebyscoreGen rev ctx mn mne mx mxe k opts cis) := by
  unfold zrangebyscoreGen
  good_body

theorem zrangebyscore_good : Body.Good zrangebyscore := by
  intro S ctx args cis hs
  have hcore0 := @zrangebyscoreGen_good
  unfold zrangebyscore
  good_body

theorem zrevrangebyscore_good : Body.Good zrevrangebyscore := by
  intro S ctx args cis hs
  have hcore0 := @zrangebyscoreGen_good
  unfold zrevrangebyscore
  good_body

theorem zrank_good : Body.Good zrank := by
  intro S ctx args cis hs
  unfold zrank
  good_body

theorem zrevrank_good : Body.Good zrevrank := by
  intro S ctx args cis hs
  unfold zrevrank
  good_body

theorem zremCore_good {cis : List CI} (hs : CIs.SoundIf S cis) (k : Nat) (ms : List Bytes) :
    Out.Good S (zremCore cis k ms) := by
  have hcore := @putZ_sound
  unfold zremCore
  good_body

theorem zrem_good : Body.Good zrem := by
  intro S ctx args cis hs
  have hcore0 := @zremCore_good
  unfold zrem
  good_body

theorem zremrangebylex_good : Body.Good zremrangebylex := by
  intro S ctx args cis hs
  have hcore0 := @zremCore_good
  unfold zremrangebylex
  good_body

theorem zremrangebyscore_good : Body.Good zremrangebyscore := by
  intro S ctx args cis hs
  have hcore0 := @zremCore_good
  unfold zremrangebyscore
  good_body

theorem zremrangebyrank_good : Body.Good zremrangebyrank := by
  intro S ctx args cis hs
  have hcore0 := @zremCore_good
  unfold zremrangebyrank
  good_body

theorem zscan_good : Body.Good zscan := by
  intro S ctx args cis hs
  unfold zscan
  good_body

theorem zscore_good : Body.Good zscore := by
  intro S ctx args cis hs
  unfold zscore
  good_body

/-! ## The table -/

set_option maxHeartbeats 400000 in
theorem regular_good (name : String) (body : Body) (h : regular name = some body) : Body.Good body := by
  unfold regular at h
  split at h
  · cases h; exact append_good
  · cases h; exact bitcount_good
  · cases h; exact decr_good
  · cases h; exact decrby_good
  · cases h; exact incr_good
  · cases h; exact incrby_good
  · cases h; exact incrbyfloat_good
  · cases h; exact get_good
  · cases h; exact getbit_good
  · cases h; exact setbit_good
  · cases h; exact getrange_good
  · cases h; exact getrange_good
  · cases h; exact getset_good
  · cases h; exact mget_good
  · cases h; exact mset_good
  · cases h; exact msetnx_good
  · cases h; exact set_good
  · cases h; exact setex_good
  · cases h; exact psetex_good
  · cases h; exact setnx_good
  · cases h; exact setrange_good
  · cases h; exact strlen_good
  · cases h; exact del_good
  · cases h; exact del_good
  · cases h; exact exists__good
  · cases h; exact expire_good
  · cases h; exact expireat_good
  · cases h; exact pexpire_good
  · cases h; exact pexpireat_good
  · cases h; exact ttl_good
  · cases h; exact pttl_good
  · cases h; exact type__good
  · cases h; exact persist_good
  · cases h; exact rename_good
  · cases h; exact renamenx_good
  · cases h; exact dump_good
  · cases h; exact restore_good
  · cases h; exact hdel_good
  · cases h; exact hexists_good
  · cases h; exact hget_good
  · cases h; exact hgetall_good
  · cases h; exact hincrby_good
  · cases h; exact hincrbyfloat_good
  · cases h; exact hkeys_good
  · cases h; exact hlen_good
  · cases h; exact hmget_good
  · cases h; exact hmset_good
  · cases h; exact hscan_good
  · cases h; exact hset_good
  · cases h; exact hsetnx_good
  · cases h; exact hstrlen_good
  · cases h; exact hvals_good
  · cases h; exact lindex_good
  · cases h; exact linsert_good
  · cases h; exact llen_good
  · cases h; exact lmove_good
  · cases h; exact lpop_good
  · cases h; exact lpush_good
  · cases h; exact lpushx_good
  · cases h; exact lrange_good
  · cases h; exact lrem_good
  · cases h; exact lset_good
  · cases h; exact ltrim_good
  · cases h; exact rpop_good
  · cases h; exact rpoplpush_good
  · cases h; exact rpush_good
  · cases h; exact rpushx_good
  · cases h; exact sadd_good
  · cases h; exact scard_good
  · cases h; exact sdiff_good
  · cases h; exact sdiffstore_good
  · cases h; exact sinter_good
  · cases h; exact sinterstore_good
  · cases h; exact sismember_good
  · cases h; exact smismember_good
  · cases h; exact smembers_good
  · cases h; exact smove_good
  · cases h; exact spop_good
  · cases h; exact srandmember_good
  · cases h; exact srem_good
  · cases h; exact sscan_good
  · cases h; exact sunion_good
  · cases h; exact sunionstore_good
  · cases h; exact pfadd_good
  · cases h; exact pfcount_good
  · cases h; exact pfmerge_good
  · cases h; exact zadd_good
  · cases h; exact zcard_good
  · cases h; exact zcount_good
  · cases h; exact zincrby_good
  · cases h; exact zlexcount_good
  · cases h; exact zrange_good
  · cases h; exact zrevrange_good
  · cases h; exact zrangebylex_good
  · cases h; exact zrevrangebylex_good
  · cases h; exact zrangebyscore_good
  · cases h; exact zrevrangebyscore_good
  · cases h; exact zrank_good
  · cases h; exact zrevrank_good
  · cases h; exact zrem_good
  · cases h; exact zremrangebylex_good
  · cases h; exact zremrangebyscore_good
  · cases h; exact zremrangebyrank_good
  · cases h; exact zscan_good
  · cases h; exact zscore_good
  · cases h

end Cmd

/-! ## Final statements -/

/-- every body of the table maps sound `CommandItem`s to sound `CommandItem`s -/
theorem regular_sound : ∀ name body, Cmd.regular name = some body →
    ∀ ctx args cis o, CIs.Sound cis → body ctx args cis = .ok o → CIs.Sound o.cis :=
  fun name body h ctx args cis o hs ho =>
    (Cmd.regular_good name body h True ctx args cis (fun _ => hs) o ho).1 trivial

/-- the hypothesis of C06/C09 holds for EVERY body of the command table -/
theorem regular_expModSound : ∀ name body, Cmd.regular name = some body → Body.ExpModSound body :=
  fun name body h ctx args cis o hc ho =>
    regular_sound name body h ctx args cis o (CIs.Sound.of_clean hc) ho

/-- bodies signal errors only through `.error`, never through an `.ok` reply that is an error reply -/
theorem regular_reply_not_err : ∀ name body, Cmd.regular name = some body →
    ∀ ctx args cis o, body ctx args cis = .ok o → o.reply.isErr = false :=
  fun name body h ctx args cis o ho =>
    (Cmd.regular_good name body h False ctx args cis (fun hf => hf.elim) o ho).2

/-! ## `missing_return` short-circuits and the `failed` flag -/

theorem Sig.missingReply_not_err (mr : MissingRet) : (Sig.missingReply mr).isErr = false := by
  cases mr <;> rfl

theorem Sig.pass1_short_not_err (l : List (Bytes × ArgTy)) (db : Db) (acc : List Arg) {r : Reply}
    (h : (Sig.pass1 db l acc).2 = .ok (.inl r)) : r.isErr = false := by
  induction l generalizing db acc with
  | nil => simp [Sig.pass1] at h
  | cons x rest ih =>
    obtain ⟨b, t⟩ := x
    cases t
    case key ty mr =>
      simp only [Sig.pass1] at h
      split at h
      · split at h
        · simp only [Except.ok.injEq, Sum.inl.injEq] at h
          subst h
          exact Sig.missingReply_not_err mr
        · exact ih _ _ h
      · exact ih _ _ h
    all_goals
      simp only [Sig.pass1] at h
      split at h
      · cases h
      · exact ih _ _ h

/-- the reply of a `missing_return` short-circuit is never an error reply -/
theorem Sig.apply_short_not_err (s : Sig) (raw : List Bytes) (db : Db) {r : Reply}
    (h : (s.apply raw db).2 = .ok (.short r)) : r.isErr = false := by
  unfold Sig.apply at h
  split at h
  · cases h
  · split at h
    · cases h
    · simp only at h
      split at h
      · cases h
      · rename_i db1 r' heq
        simp only [Except.ok.injEq, Sig.Applied.short.injEq] at h
        subst h
        refine Sig.pass1_short_not_err (raw.zip (s.types raw.length)) db [] ?_
        rw [heq]
      · split at h <;> cases h

/-- for a body that never returns an error reply, the reply of `runRegular` is an error reply exactly
on the error paths -/
theorem runRegular_isErr_iff_failed (sig : Sig) (body : Body)
    (hb : ∀ ctx args cis o, body ctx args cis = .ok o → o.reply.isErr = false)
    (ctx : Ctx) (gate : Option Err) (raw : List Bytes) (db : Db) :
    (runRegular sig body ctx gate raw db).reply.isErr = true ↔
      (runRegular sig body ctx gate raw db).failed = true := by
  rw [runRegular_eq]
  have hshort := fun r => Sig.apply_short_not_err sig raw db (r := r)
  revert hshort
  generalize sig.apply raw db = r
  obtain ⟨db1, x⟩ := r
  simp only
  intro hshort
  cases x with
  | error e => simp [runTail, Reply.isErr]
  | ok ap =>
    cases ap with
    | short r => simp [runTail, hshort r rfl]
    | ok args cis =>
      cases gate with
      | some e => simp [runTail, Reply.isErr]
      | none =>
        simp only [runTail]
        cases hbd : body ctx args cis with
        | error e => simp [Reply.isErr]
        | ok o => simp [hb ctx args cis o hbd]

end FR
