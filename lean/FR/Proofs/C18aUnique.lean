import FR.Proofs.C18aCmd
/-!
# C18a helper — `Dbl.RN` is THE round-to-nearest-even function

The model-independent definition: a well-formed finite double `d` is a round-to-nearest-even result for `q` when it has
the sign of `q`, no well-formed double is closer to `q`, and if another one is equally close then the significand of `d`
is even.  `RN_tie_even'`: `RN` satisfies the tie rule in this form; `RNE_unique`: any such `d` equals `RN q` (below the
overflow threshold).
-/
namespace FR.C18a
open FR FR.C18f FR.DumpRound

/-- in a tie between `M · 2^e` and another candidate `m' · 2^e'`, `X` is a half-integer -/
theorem tie_of_core (x : ℚ) (e : Int) (M : Nat) (h52 : e ≠ -1074 → (2 : ℚ) ^ 52 ≤ x / (2 : ℚ) ^ e)
    (hM : |(M : ℚ) - x / (2 : ℚ) ^ e| ≤ 1 / 2) (m' : Nat) (e' : Int) (hm' : m' < 2 ^ 53) (he' : -1074 ≤ e')
    (hne : (m' : ℚ) * (2 : ℚ) ^ e' ≠ (M : ℚ) * (2 : ℚ) ^ e)
    (heq : |(m' : ℚ) * (2 : ℚ) ^ e' - x| = |(M : ℚ) * (2 : ℚ) ^ e - x|) :
    |(M : ℚ) - x / (2 : ℚ) ^ e| = 1 / 2 := by
  have hP : (0 : ℚ) < (2 : ℚ) ^ e := two_zpow_pos e
  have e1 : (M : ℚ) * (2 : ℚ) ^ e - x = ((M : ℚ) - x / (2 : ℚ) ^ e) * (2 : ℚ) ^ e := by field_simp
  have e2 : (m' : ℚ) * (2 : ℚ) ^ e' - x = ((m' : ℚ) * (2 : ℚ) ^ (e' - e) - x / (2 : ℚ) ^ e) * (2 : ℚ) ^ e := by
    rw [zpow_sub₀ (by norm_num)]; field_simp
  have e3 : (m' : ℚ) * (2 : ℚ) ^ e' = ((m' : ℚ) * (2 : ℚ) ^ (e' - e)) * (2 : ℚ) ^ e := by
    rw [zpow_sub₀ (by norm_num)]; field_simp
  rw [e1, e2, abs_mul, abs_mul, abs_of_pos hP] at heq
  have heq' := mul_right_cancel₀ hP.ne' heq
  have hne' : (m' : ℚ) * (2 : ℚ) ^ (e' - e) ≠ (M : ℚ) := by
    intro h; apply hne; rw [e3, h]
  generalize x / (2 : ℚ) ^ e = X at *
  by_cases hge : e ≤ e'
  · have hk : e' - e = ((e' - e).toNat : Int) := by omega
    rw [hk, zpow_natCast] at heq' hne'
    have hKM : (m' * 2 ^ (e' - e).toNat : Nat) ≠ M := by
      intro h; apply hne'; rw [← h]; push_cast; ring
    have h1 : (1 : ℚ) ≤ |((m' * 2 ^ (e' - e).toNat : Nat) : ℚ) - (M : ℚ)| := by
      have : (1 : Int) ≤ |((m' * 2 ^ (e' - e).toNat : Nat) : Int) - (M : Int)| :=
        Int.one_le_abs (sub_ne_zero.mpr (by exact_mod_cast hKM))
      exact_mod_cast this
    have h2 : |((m' * 2 ^ (e' - e).toNat : Nat) : ℚ) - (M : ℚ)| ≤
        |((m' * 2 ^ (e' - e).toNat : Nat) : ℚ) - X| + |(M : ℚ) - X| := by
      have := abs_sub_le ((m' * 2 ^ (e' - e).toNat : Nat) : ℚ) X (M : ℚ)
      rwa [abs_sub_comm X (M : ℚ)] at this
    have h3 : ((m' * 2 ^ (e' - e).toNat : Nat) : ℚ) = (m' : ℚ) * (2 : ℚ) ^ (e' - e).toNat := by push_cast; ring
    rw [h3, heq'] at h2
    rw [h3] at h1
    linarith
  · exfalso
    have hX := h52 (by omega)
    have hk : e' - e = -((e - e').toNat : Int) := by omega
    have hW : (m' : ℚ) * (2 : ℚ) ^ (e' - e) < (2 : ℚ) ^ 52 := by
      have h1 : (2 : ℚ) ^ 1 ≤ (2 : ℚ) ^ (e - e').toNat := pow_le_pow_right₀ (by norm_num) (by omega)
      rw [hk, zpow_neg, zpow_natCast, ← div_eq_mul_inv]
      generalize (2 : ℚ) ^ (e - e').toNat = P at *
      have hPp : (0 : ℚ) < P := by linarith
      rw [div_lt_iff₀ hPp]
      have h2 : (m' : ℚ) < (2 : ℚ) ^ 53 := by exact_mod_cast hm'
      have h3 : (2 : ℚ) ^ 52 * (2 : ℚ) ^ 1 ≤ (2 : ℚ) ^ 52 * P := mul_le_mul_of_nonneg_left h1 (by positivity)
      have h4 : (2 : ℚ) ^ 52 * (2 : ℚ) ^ 1 = (2 : ℚ) ^ 53 := by norm_num
      linarith
    generalize (m' : ℚ) * (2 : ℚ) ^ (e' - e) = W at *
    have := int_nearest X (M : Int) ((2 : Int) ^ 52) (by simpa using hM)
    have hc : (((2 : Int) ^ 52 : Int) : ℚ) = (2 : ℚ) ^ 52 := by norm_cast
    rw [hc] at this
    have h4 : |(2 : ℚ) ^ 52 - X| = X - (2 : ℚ) ^ 52 := by
      rw [abs_sub_comm, abs_of_nonneg (by linarith)]
    have h5 : |W - X| = X - W := by
      rw [abs_sub_comm, abs_of_nonneg (by linarith)]
    have h6 : (((M : Int) : ℚ)) = (M : ℚ) := by norm_cast
    rw [h4, h6] at this
    rw [h5] at heq'
    linarith

/-- TIES TO EVEN, in the form of the definition: if another candidate is equally close to `|q|`, the significand is even -/
theorem roundAbs_tie_even' (neg : Bool) (q : ℚ) (hq : q ≠ 0) {n : Bool} {m : Nat} {e' : Int}
    (h : roundAbs neg q = .fin n m e') (m' : Nat) (e'' : Int) (hm' : m' < 2 ^ 53) (he'' : -1074 ≤ e'')
    (hne : (m' : ℚ) * (2 : ℚ) ^ e'' ≠ (m : ℚ) * (2 : ℚ) ^ e')
    (heq : |(m' : ℚ) * (2 : ℚ) ^ e'' - abs q| = |(m : ℚ) * (2 : ℚ) ^ e' - abs q|) : m % 2 = 0 := by
  obtain ⟨_, e, M, _, hv, hX52, hhalf, hc, htie⟩ := roundAbs_fin_core neg q hq h
  rw [hv] at hne heq
  have := htie (tie_of_core |q| e M hX52 hhalf m' e'' hm' he'' hne heq)
  rcases hc with ⟨rfl, _⟩ | rfl
  · exact this
  · decide

/-- magnitude form of the distance, for either sign -/
theorem abs_val_sub' (n : Bool) (m : Nat) (e : Int) (q : ℚ) :
    |Dbl.val (.fin n m e) - q| = |(m : ℚ) * (2 : ℚ) ^ e - (if n then -q else q)| := by
  rw [val_fin]
  cases n
  · simp
  · simp only [if_true]
    rw [← abs_neg]; congr 1; ring

theorem val_eq_iff_mag (n : Bool) (m1 m2 : Nat) (e1 e2 : Int) :
    Dbl.val (.fin n m1 e1) = Dbl.val (.fin n m2 e2) ↔ (m1 : ℚ) * (2 : ℚ) ^ e1 = (m2 : ℚ) * (2 : ℚ) ^ e2 := by
  rw [val_fin, val_fin, mul_assoc, mul_assoc]
  exact mul_right_inj' (sgn_ne_zero n)

/-- **TIES TO EVEN** for `RN`, definition form: if another well-formed double is as close to `q` as the result, the result's
significand is even -/
theorem RN_tie_even' (z : Bool) (q : ℚ) {n : Bool} {m : Nat} {e : Int} (h : Dbl.RN z q = .fin n m e)
    (n' : Bool) (m' : Nat) (e' : Int) (hwf : Dbl.WF (.fin n' m' e'))
    (hne : Dbl.val (.fin n' m' e') ≠ Dbl.val (.fin n m e))
    (heq : |Dbl.val (.fin n' m' e') - q| = |Dbl.val (.fin n m e) - q|) : m % 2 = 0 := by
  by_cases hq : q = 0
  · subst hq
    rw [RN_zero] at h
    injection h with h1 h2 h3
    subst h2; rfl
  · have h' := h
    rw [RN_of_ne hq] at h
    obtain ⟨hn, _⟩ := roundAbs_fin_core _ q hq h
    subst hn
    -- same-sign candidates
    have same : ∀ (m' : Nat) (e' : Int), m' < 2 ^ 53 → -1074 ≤ e' →
        Dbl.val (.fin (decide (q < 0)) m' e') ≠ Dbl.val (.fin (decide (q < 0)) m e) →
        |Dbl.val (.fin (decide (q < 0)) m' e') - q| = |Dbl.val (.fin (decide (q < 0)) m e) - q| → m % 2 = 0 := by
      intro m' e' hm' he' hne heq
      rw [abs_val_sub, abs_val_sub] at heq
      exact roundAbs_tie_even' _ q hq h m' e' hm' he' (fun hh => hne ((val_eq_iff_mag _ _ _ _ _).mpr hh)) heq
    by_cases hs : n' = decide (q < 0)
    · subst hs
      exact same m' e' hwf.1 hwf.2.1 hne heq
    · -- opposite sign: only a zero can tie, and then the zero of the right sign ties as well
      have h0 := FR.C18a.RN_nearest z q h' (decide (q < 0)) 0 (-1074) (wf_zero_signed _)
      have hz : Dbl.val (.fin (decide (q < 0)) 0 (-1074)) = 0 := (val_eq_zero_iff _ _ _).mpr rfl
      rw [hz, zero_sub, abs_neg] at h0
      obtain ⟨v1, v2⟩ := val_sign n' m' e'
      have hv0 : Dbl.val (.fin n' m' e') = 0 := by
        by_cases hlt : q < 0
        · have hn' : n' = false := by cases n' <;> simp_all
          have := v2 hn'
          rw [abs_of_neg hlt] at h0
          rw [abs_of_nonneg (by linarith : (0 : ℚ) ≤ Dbl.val (.fin n' m' e') - q)] at heq
          linarith
        · have hn' : n' = true := by cases n' <;> simp_all
          have := v1 hn'
          have hq0 : 0 ≤ q := not_lt.mp hlt
          rw [abs_of_nonneg hq0] at h0
          rw [abs_sub_comm, abs_of_nonneg (by linarith : (0 : ℚ) ≤ q - Dbl.val (.fin n' m' e'))] at heq
          linarith
      rw [hv0] at hne heq
      exact same 0 (-1074) (by decide) (by decide) (by rw [hz]; exact hne) (by rw [hz]; exact heq)

/-! ### uniqueness -/

/-- the gap above a well-formed magnitude: the next well-formed magnitude is at least one unit in the last place away -/
theorem gap_above {n : Bool} {m m0 : Nat} {e e0 : Int} (w : Dbl.WF (.fin n m e)) (w0 : Dbl.WF (.fin n m0 e0))
    (h : (m : ℚ) * (2 : ℚ) ^ e < (m0 : ℚ) * (2 : ℚ) ^ e0) :
    ((m + 1 : Nat) : ℚ) * (2 : ℚ) ^ e ≤ (m0 : ℚ) * (2 : ℚ) ^ e0 := by
  have hP : (0 : ℚ) < (2 : ℚ) ^ e := two_zpow_pos e
  by_cases hge : e ≤ e0
  · obtain ⟨k, hk⟩ : ∃ k : Nat, e0 = e + (k : Int) := ⟨(e0 - e).toNat, by omega⟩
    subst hk
    rw [zpow_split, ← mul_assoc] at h ⊢
    have h1 : (m : ℚ) < (m0 : ℚ) * (2 : ℚ) ^ k := lt_of_mul_lt_mul_right h hP.le
    have h2 : m < m0 * 2 ^ k := by exact_mod_cast h1
    have h3 : ((m + 1 : Nat) : ℚ) ≤ (m0 : ℚ) * (2 : ℚ) ^ k := by exact_mod_cast h2
    exact mul_le_mul_of_nonneg_right h3 hP.le
  · exfalso
    have hm : 2 ^ 52 ≤ m := by
      rcases w.2.2.2.1 with h | h
      · exact h
      · have := w0.2.1; omega
    obtain ⟨k, hk⟩ : ∃ k : Nat, e = e0 + ((k + 1 : Nat) : Int) := ⟨(e - e0).toNat - 1, by omega⟩
    subst hk
    rw [zpow_split] at h
    have hP0 : (0 : ℚ) < (2 : ℚ) ^ e0 := two_zpow_pos e0
    have h1 : (m : ℚ) * (2 : ℚ) ^ (k + 1) < (m0 : ℚ) := by
      rw [← mul_assoc] at h; exact lt_of_mul_lt_mul_right h hP0.le
    have h2 : m * 2 ^ (k + 1) < m0 := by exact_mod_cast h1
    have h3 : 2 ^ 52 * 2 ^ 1 ≤ m * 2 ^ (k + 1) :=
      Nat.mul_le_mul hm (Nat.pow_le_pow_right (by decide) (by omega))
    have := w0.1
    omega

/-- two distinct well-formed magnitudes of which BOTH are nearest to `t` cannot both have an even significand -/
theorem no_two_even {n : Bool} {m m0 : Nat} {e e0 : Int} (t : ℚ) (w : Dbl.WF (.fin n m e)) (w0 : Dbl.WF (.fin n m0 e0))
    (hlt : (m : ℚ) * (2 : ℚ) ^ e < (m0 : ℚ) * (2 : ℚ) ^ e0)
    (heq : |(m : ℚ) * (2 : ℚ) ^ e - t| = |(m0 : ℚ) * (2 : ℚ) ^ e0 - t|)
    (hnear : ∀ m' e', Dbl.WF (.fin n m' e') → |(m : ℚ) * (2 : ℚ) ^ e - t| ≤ |(m' : ℚ) * (2 : ℚ) ^ e' - t|)
    (hev : m % 2 = 0) (hev0 : m0 % 2 = 0) : False := by
  have hgap := gap_above w w0 hlt
  have hwf1 : Dbl.WF (.fin n (m + 1) e) := by
    obtain ⟨a, b, c, d, _⟩ := w
    refine ⟨by omega, b, c, ?_, fun h => by omega⟩
    rcases d with d | d
    · exact Or.inl (by omega)
    · exact Or.inr d
  rcases lt_or_eq_of_le hgap with hl | he
  · have := hnear (m + 1) e hwf1
    have hP : (0 : ℚ) < (2 : ℚ) ^ e := two_zpow_pos e
    have hc : (m : ℚ) * (2 : ℚ) ^ e < ((m + 1 : Nat) : ℚ) * (2 : ℚ) ^ e := by
      push_cast; nlinarith
    generalize (m : ℚ) * (2 : ℚ) ^ e = a at *
    generalize (m0 : ℚ) * (2 : ℚ) ^ e0 = b at *
    generalize ((m + 1 : Nat) : ℚ) * (2 : ℚ) ^ e = c at *
    rcases abs_cases (a - t) with ⟨h1, _⟩ | ⟨h1, _⟩ <;> rcases abs_cases (b - t) with ⟨h2, _⟩ | ⟨h2, _⟩ <;>
      rcases abs_cases (c - t) with ⟨h3, _⟩ | ⟨h3, _⟩ <;> rw [h1, h2] at heq <;> rw [h1, h3] at this <;> linarith
  · have hv : Dbl.val (.fin n (m + 1) e) = Dbl.val (.fin n m0 e0) := (val_eq_iff_mag _ _ _ _ _).mpr he
    obtain ⟨h1, _, _⟩ := val_inj hwf1 w0 hv
    omega

/-- **UNIQUENESS**: a well-formed finite double with the sign of `q` (sign bit `n` for `q = 0`), nearest to `q` among the
well-formed doubles, with an even significand whenever another one is equally near, IS `RN q` — provided `|q|` is below
the overflow threshold -/
theorem RNE_unique (q : ℚ) (n : Bool) (m : Nat) (e : Int) (hwf : Dbl.WF (.fin n m e))
    (hsign : q ≠ 0 → n = decide (q < 0)) (hovf : |q| < (2 : ℚ) ^ 1024 - (2 : ℚ) ^ 970)
    (hnear : ∀ n' m' e', Dbl.WF (.fin n' m' e') → |Dbl.val (.fin n m e) - q| ≤ |Dbl.val (.fin n' m' e') - q|)
    (htie : ∀ n' m' e', Dbl.WF (.fin n' m' e') → Dbl.val (.fin n' m' e') ≠ Dbl.val (.fin n m e) →
      |Dbl.val (.fin n' m' e') - q| = |Dbl.val (.fin n m e) - q| → m % 2 = 0) :
    Dbl.RN n q = .fin n m e := by
  have hfin := (RN_isFinite_iff n q).mpr hovf
  have hw := RN_wf n q
  have hsb := RN_signBit n q
  cases hr : Dbl.RN n q with
  | nan => rw [hr] at hfin; cases hfin
  | inf s => rw [hr] at hfin; cases hfin
  | fin n0 m0 e0 =>
    rw [hr] at hw hsb
    have hn0 : n0 = n := by
      have : n0 = if q = 0 then n else decide (q < 0) := hsb
      rw [this]
      split
      · rfl
      · rename_i h; exact (hsign h).symm
    subst hn0
    have hd1 := hnear n0 m0 e0 hw
    have hd2 := FR.C18a.RN_nearest n0 q hr n0 m e hwf
    have hdist := le_antisymm hd1 hd2
    by_cases hv : Dbl.val (.fin n0 m0 e0) = Dbl.val (.fin n0 m e)
    · obtain ⟨h1, h2, _⟩ := val_inj hw hwf hv
      subst h1 h2; rfl
    · exfalso
      have ev := htie n0 m0 e0 hw hv hdist.symm
      have ev0 := RN_tie_even' n0 q hr n0 m e hwf (fun h => hv h.symm) hdist
      rw [abs_val_sub', abs_val_sub'] at hdist
      have hmag : (m0 : ℚ) * (2 : ℚ) ^ e0 ≠ (m : ℚ) * (2 : ℚ) ^ e := fun h => hv ((val_eq_iff_mag _ _ _ _ _).mpr h)
      rcases lt_or_gt_of_ne hmag with hlt | hgt
      · refine no_two_even (if n0 then -q else q) hw hwf hlt hdist.symm (fun m' e' w' => ?_) ev0 ev
        have := FR.C18a.RN_nearest n0 q hr n0 m' e' w'
        rwa [abs_val_sub', abs_val_sub'] at this
      · refine no_two_even (if n0 then -q else q) hwf hw hgt hdist (fun m' e' w' => ?_) ev ev0
        have := hnear n0 m' e' w'
        rwa [abs_val_sub', abs_val_sub'] at this

/-- MODEL-INDEPENDENT DEFINITION: `d` is a correct IEEE-754 round-to-nearest-even result for the rational `q`.
Finite `d`: well-formed, `|q|` below the overflow threshold `2^1024 − 2^970`, the sign of `q` (any sign bit when `q = 0`),
no well-formed double is closer to `q`, and if another value is equally close the significand of `d` is even.
Infinite `d`: `|q|` at or above the threshold, the sign of `q`.  Never the NaN. -/
def _root_.FR.Dbl.IsRNE (q : ℚ) : Dbl → Prop
  | .fin n m e => Dbl.WF (.fin n m e) ∧ |q| < (2 : ℚ) ^ 1024 - (2 : ℚ) ^ 970 ∧ (q ≠ 0 → n = decide (q < 0)) ∧
      (∀ n' m' e', Dbl.WF (.fin n' m' e') → |Dbl.val (.fin n m e) - q| ≤ |Dbl.val (.fin n' m' e') - q|) ∧
      (∀ n' m' e', Dbl.WF (.fin n' m' e') → Dbl.val (.fin n' m' e') ≠ Dbl.val (.fin n m e) →
        |Dbl.val (.fin n' m' e') - q| = |Dbl.val (.fin n m e) - q| → m % 2 = 0)
  | .inf n => (2 : ℚ) ^ 1024 - (2 : ℚ) ^ 970 ≤ |q| ∧ n = decide (q < 0)
  | .nan => False

theorem RN_isRNE (z : Bool) (q : ℚ) : Dbl.IsRNE q (Dbl.RN z q) := by
  cases hr : Dbl.RN z q with
  | nan => have := RN_not_nan z q; rw [hr] at this; cases this
  | inf n => exact (RN_eq_inf_iff z q n).mp hr
  | fin n m e =>
    have hw := RN_wf z q
    have hf := (RN_isFinite_iff z q).mp (by rw [hr]; rfl)
    have hs := RN_signBit z q
    rw [hr] at hw hs
    refine ⟨hw, hf, fun hq => ?_, fun n' m' e' w' => FR.C18a.RN_nearest z q hr n' m' e' w',
      fun n' m' e' w' hne heq => RN_tie_even' z q hr n' m' e' w' hne heq⟩
    have : n = if q = 0 then z else decide (q < 0) := hs
    rw [if_neg hq] at this
    exact this

theorem isRNE_iff (q : ℚ) (d : Dbl) : Dbl.IsRNE q d ↔ d = Dbl.RN d.signBit q := by
  constructor
  · intro h
    cases d with
    | nan => exact h.elim
    | inf n => exact ((RN_eq_inf_iff _ q n).mpr h).symm
    | fin n m e =>
      obtain ⟨h1, h2, h3, h4, h5⟩ := h
      exact (RNE_unique q n m e h1 h3 h2 h4 h5).symm
  · intro h
    rw [h]; exact RN_isRNE _ _

end FR.C18a
