import FR.Proofs.Discipline
import FR.Proofs.WatchSys
/-!
# The keys a command notifies are among its key arguments

Helper lemmas for `FR/Props/C06k.lean`.

* `keyArgs sig raw` — the raw arguments standing at the positions which the signature declares as keys
  (fixed and repeated part).
* `Sig.apply` creates exactly one `CommandItem` per key argument, in order, carrying that argument as its `key`
  (`apply_keys`).
* `writebackPure` notifies exactly the keys of the modified items, in order (`writebackPure_notified`).
* the discipline `Body.KK` ("keys kept": the body returns a list of items with the same `key` at the same index
  as the list it was given) is proved for every entry of `Cmd.regular` (`regular_kk`), by the same automation that
  proves `regular_sound` in `FR/Proofs/Discipline.lean`.
* `Body.ReadOnly` (the body returns the very items it was given) for the read commands (`readNames`).
* system level: `processCommand_flag_of_run` (the prologue and epilogue of `_process_command` do not touch the watch
  state), the invariant `FlagInv` pushed through every special body (`flag_*`, tactic `fpres`), `special_kk` (the
  special bodies hand back items with the keys they were given), the runner `runWith_flag`, the dispatch `special_flag`
  with `SpecialAvoids`, and the harmless events / histories (`Harmless`, `HarmlessRun`, `history_harmless`).
* `argsOf` / `apply_args`: the converted arguments are a function of the signature and the raw arguments alone.
-/
namespace FR.NotifyKeys
open FR

/-! ## 1. key arguments -/

/-- the argument type is a key type -/
def isKey : ArgTy → Bool
  | .key _ _ => true
  | _ => false

/-- the first components of the pairs whose type is a key type -/
def keysOfZip (l : List (Bytes × ArgTy)) : List Bytes := (l.filter fun p => isKey p.2).map Prod.fst

/-- THE KEY ARGUMENTS of a request: the raw arguments at the positions that `sig` declares as keys. -/
def keyArgs (sig : Sig) (raw : List Bytes) : List Bytes := keysOfZip (raw.zip (sig.types raw.length))

/-- what `pass2` makes `CommandItem`s of -/
def keysOfA : List (Arg × ArgTy) → List Bytes
  | [] => []
  | (.raw k, .key _ _) :: rest => k :: keysOfA rest
  | _ :: rest => keysOfA rest

theorem keysOfZip_nil : keysOfZip [] = [] := rfl

theorem keysOfZip_cons_key (b : Bytes) (ty : Option Ty) (mr : MissingRet) (rest : List (Bytes × ArgTy)) :
    keysOfZip ((b, .key ty mr) :: rest) = b :: keysOfZip rest := rfl

theorem keysOfZip_cons_other (b : Bytes) (t : ArgTy) (h : isKey t = false) (rest : List (Bytes × ArgTy)) :
    keysOfZip ((b, t) :: rest) = keysOfZip rest := by
  simp [keysOfZip, h]

theorem keysOfA_cons_other (a : Arg) (t : ArgTy) (h : isKey t = false) (rest : List (Arg × ArgTy)) :
    keysOfA ((a, t) :: rest) = keysOfA rest := by
  cases t <;> cases a <;> first | rfl | (cases h)

theorem zip_map_snd_zip {α β γ : Type} (as : List α) (raw : List β) (tys : List γ)
    (h : as.length = (raw.zip tys).length) : as.zip ((raw.zip tys).map Prod.snd) = as.zip tys := by
  induction as generalizing raw tys with
  | nil => rfl
  | cons a as ih =>
    cases raw with
    | nil => cases h
    | cons r raw =>
      cases tys with
      | nil => cases h
      | cons t tys =>
        simp only [List.zip_cons_cons, List.map_cons]
        rw [ih raw tys (by simpa using h)]

/-- `pass1` keeps the number of arguments and leaves the key arguments as they are -/
theorem pass1_keys (l : List (Bytes × ArgTy)) (db : Db) (acc : List Arg) {args : List Arg}
    (h : (Sig.pass1 db l acc).2 = .ok (.inr args)) :
    ∃ as, args = acc.reverse ++ as ∧ as.length = l.length ∧ keysOfA (as.zip (l.map Prod.snd)) = keysOfZip l := by
  induction l generalizing db acc with
  | nil =>
    simp only [Sig.pass1, Except.ok.injEq, Sum.inr.injEq] at h
    exact ⟨[], by simp [h], rfl, rfl⟩
  | cons x rest ih =>
    obtain ⟨b, t⟩ := x
    cases t
    case key ty mr =>
      simp only [Sig.pass1] at h
      have fin : ∀ db', (Sig.pass1 db' rest (.raw b :: acc)).2 = .ok (.inr args) →
          ∃ as, args = acc.reverse ++ as ∧ as.length = ((b, ArgTy.key ty mr) :: rest).length ∧
            keysOfA (as.zip ((((b, ArgTy.key ty mr) :: rest)).map Prod.snd)) = keysOfZip ((b, .key ty mr) :: rest) := by
        intro db' h'
        obtain ⟨as, e, hl, hk⟩ := ih _ _ h'
        refine ⟨.raw b :: as, ?_, by simp [hl], ?_⟩
        · rw [e]; simp
        · simp only [List.map_cons, List.zip_cons_cons, keysOfA, keysOfZip_cons_key, hk]
      split at h
      · split at h
        · cases h
        · exact fin _ h
      · exact fin _ h
    all_goals
      simp only [Sig.pass1] at h
      split at h
      · cases h
      · rename_i a _
        obtain ⟨as, e, hl, hk⟩ := ih _ _ h
        refine ⟨a :: as, ?_, by simp [hl], ?_⟩
        · rw [e]; simp
        · simp only [List.map_cons, List.zip_cons_cons]
          rw [keysOfA_cons_other _ _ rfl, keysOfZip_cons_other _ _ rfl, hk]

/-- `pass2` appends one `CommandItem` per key argument, in order, with that argument as its key -/
theorem pass2_keys (l : List (Arg × ArgTy)) (db : Db) (accA : List Arg) (accC : List CI)
    {args : List Arg} {cis : List CI} (h : (Sig.pass2 db l accA accC).2 = .ok (args, cis)) :
    cis.map CI.key = accC.reverse.map CI.key ++ keysOfA l := by
  induction l generalizing db accA accC with
  | nil =>
    simp only [Sig.pass2, Except.ok.injEq, Prod.mk.injEq] at h
    simp [← h.2, keysOfA]
  | cons x rest ih =>
    obtain ⟨a, t⟩ := x
    unfold Sig.pass2 at h
    split at h
    · rename_i ty mr k
      generalize db.get k = g at h
      obtain ⟨db', item⟩ := g
      simp only at h
      have fin : ∀ (c0 : CI) accA', c0.key = k → (Sig.pass2 db' rest accA' (c0 :: accC)).2 = .ok (args, cis) →
          cis.map CI.key = accC.reverse.map CI.key ++ keysOfA ((Arg.raw k, ArgTy.key ty mr) :: rest) := by
        intro c0 accA' hk h'
        rw [ih _ _ _ h']
        simp [keysOfA, hk]
      split at h
      · split at h
        · cases h
        · exact fin _ _ rfl h
      · exact fin _ _ rfl h
      · exact fin _ _ rfl h
      · exact fin _ _ rfl h
    · rename_i hne
      rw [ih _ _ _ h]
      congr 1
      cases a <;> cases t <;> first | rfl | (exact (hne _ _ _ rfl rfl).elim)

/-- `Signature.apply` creates one `CommandItem` per key argument, in argument order, keyed by that argument -/
theorem apply_keys (s : Sig) (raw : List Bytes) (db : Db) {args : List Arg} {cis : List CI}
    (h : (s.apply raw db).2 = .ok (.ok args cis)) : cis.map CI.key = keyArgs s raw := by
  unfold Sig.apply at h
  split at h
  · cases h
  · split at h
    · cases h
    · simp only at h
      split at h
      · cases h
      · cases h
      · rename_i db1 args1 heq
        split at h
        · cases h
        · rename_i db2 args' cis' heq2
          simp only [Except.ok.injEq, Sig.Applied.ok.injEq] at h
          obtain ⟨rfl, rfl⟩ := h
          obtain ⟨as, e, hl, hk⟩ := pass1_keys (raw.zip (s.types raw.length)) db [] (args := args1) (by rw [heq])
          simp only [List.reverse_nil, List.nil_append] at e
          subst e
          have h2 := pass2_keys (args1.zip (s.types raw.length)) db1 [] [] (args := args') (cis := cis')
            (by rw [heq2])
          simp only [List.reverse_nil, List.map_nil, List.nil_append] at h2
          rw [h2]
          unfold keyArgs
          rw [← hk]
          rw [zip_map_snd_zip _ _ _ hl]

/-! ## 2. what the write-back notifies -/

/-- the write-back notifies exactly the keys of the modified items, in order -/
theorem writebackPure_notified (db : Db) (cis : List CI) :
    (writebackPure db cis).2 = (cis.filter fun c => c.modified).map CI.key := by
  induction cis generalizing db with
  | nil => rfl
  | cons c cs ih =>
    rw [writebackPure_cons]
    simp only [ih, List.filter_cons]
    cases c.modified <;> simp

theorem writebackPure_sublist (db : Db) (cis : List CI) : (writebackPure db cis).2.Sublist (cis.map CI.key) := by
  rw [writebackPure_notified]
  exact List.filter_sublist.map _

/-! ## 3. the discipline "keys kept" -/

/-- the keys of the items are `K`, position by position -/
def KKeys (K : List Bytes) (cis : List CI) : Prop := cis.map CI.key = K

/-- the outcome of a body: items with the keys `K`, whenever it is `.ok` -/
def Out.KK (K : List Bytes) (r : Except Err BodyOut) : Prop := ∀ o, r = .ok o → KKeys K o.cis

/-- the compositional invariant: the body returns as many items as it was given, with the same `key` at the same
index (it only replaces an item by a modified copy of the item at that index) -/
def Body.KK (body : Body) : Prop := ∀ (K : List Bytes) ctx args cis, KKeys K cis → Out.KK K (body ctx args cis)

/-- the final form of the discipline -/
def Body.KeepsKeys (body : Body) : Prop :=
  ∀ ctx args cis o, body ctx args cis = .ok o → o.cis.map CI.key = cis.map CI.key

theorem ciAt_key_of_lt {cis : List CI} {k : Nat} (h : k < cis.length) : (ciAt cis k).key = (cis.map CI.key)[k]'(by simpa using h) := by
  simp [ciAt, List.getD_eq_getElem?_getD, List.getElem?_eq_getElem h]

/-- storing at index `k` an item that carries the key of the item at index `k` keeps the keys -/
theorem KKeys.set {K : List Bytes} {cis : List CI} (h : KKeys K cis) {c : CI} (k : Nat)
    (hc : c.key = (ciAt cis k).key) : KKeys K (cis.set k c) := by
  unfold KKeys at h ⊢
  rw [List.map_set]
  by_cases hk : k < cis.length
  · rw [hc, ciAt_key_of_lt hk, List.set_getElem_self, h]
  · rw [List.set_eq_of_length_le (by simpa using hk), h]

/-- the same, the key compared with the one of ANOTHER list that has the same keys -/
theorem KKeys.set_of {K : List Bytes} {cis cis0 : List CI} (h : KKeys K cis) (h0 : KKeys K cis0) {c : CI} (k : Nat)
    (hc : c.key = (ciAt cis0 k).key) : KKeys K (cis.set k c) := by
  refine h.set k ?_
  rw [hc]
  unfold ciAt
  have e : cis.map CI.key = cis0.map CI.key := h.trans h0.symm
  have := congrArg (fun l => l[k]?) e
  simp only [List.getElem?_map] at this
  simp only [List.getD_eq_getElem?_getD]
  cases h1 : cis[k]? <;> cases h2 : cis0[k]? <;> simp_all

/-- the form of `KKeys.set` that `simp` can use as a conditional rewrite rule -/
theorem KKeys.set_simp {K : List Bytes} {cis : List CI} {c : CI} {k : Nat} (h : KKeys K cis)
    (hc : (c.key = (ciAt cis k).key) = True) : KKeys K (cis.set k c) := h.set k (of_eq_true hc)

theorem CI.setValue_key (c : CI) (v : Option Value) : (c.setValue v).key = c.key := rfl
theorem CI.setExpire_key (c : CI) (e : Option Int) : (c.setExpire e).key = c.key := rfl
theorem CI.update_key (c : CI) (v : Value) : (c.update v).key = c.key := rfl
theorem CI.updated_key (c : CI) : c.updated.key = c.key := rfl

theorem Out.kk_error {K : List Bytes} (e : Err) : Out.KK K (.error e) := by
  intro o h; cases h

theorem Out.kk_ok_iff {K : List Bytes} (o : BodyOut) : Out.KK K (.ok o) ↔ KKeys K o.cis := by
  constructor
  · intro h; exact h o rfl
  · intro h o' ho; cases ho; exact h

theorem Out.kk_ret_iff {K : List Bytes} (r : Reply) (cis : List CI) : Out.KK K (ret r cis) ↔ KKeys K cis :=
  Out.kk_ok_iff _

theorem Out.kk_ite {K : List Bytes} {c : Prop} [Decidable c] {a b : Except Err BodyOut} (ha : Out.KK K a)
    (hb : Out.KK K b) : Out.KK K (if c then a else b) := by
  split <;> assumption

/-- the closing step of every case: the outcome is an error, or a `ret` of a list built with `set` -/
macro "kk_close" : tactic => `(tactic|
  simp (config := { failIfUnchanged := false }) only
    [Out.kk_error, Out.kk_ret_iff, Out.kk_ok_iff, KKeys.set_simp, CI.setValue_key, CI.setExpire_key, CI.update_key,
     CI.updated_key, and_self, true_and, and_true, *])

/-- the generic proof of `Body.KK` for a body that only uses the setters -/
macro "kk_body" : tactic => `(tactic| (body_cases; all_goals kk_close))

namespace Cmd
open FR.Cmd
variable {K : List Bytes}

/-! ## Strings -/

theorem append_kk : Body.KK append := by
  intro K ctx args cis hs
  unfold append
  kk_body

theorem bitcount_kk : Body.KK bitcount := by
  intro K ctx args cis hs
  unfold bitcount
  kk_body

theorem incrbyCore_kk {cis : List CI} (hs : KKeys K cis) (k : Nat) (a : Int) :
    Out.KK K (incrbyCore cis k a) := by
  unfold incrbyCore
  kk_body

theorem incrby_kk : Body.KK incrby := by
  intro K ctx args cis hs
  have hcore := @incrbyCore_kk
  unfold incrby
  kk_body

theorem decrby_kk : Body.KK decrby := by
  intro K ctx args cis hs
  have hcore := @incrbyCore_kk
  unfold decrby
  kk_body

theorem incr_kk : Body.KK incr := by
  intro K ctx args cis hs
  have hcore := @incrbyCore_kk
  unfold incr
  kk_body

theorem decr_kk : Body.KK decr := by
  intro K ctx args cis hs
  have hcore := @incrbyCore_kk
  unfold decr
  kk_body

theorem incrbyfloat_kk : Body.KK incrbyfloat := by
  intro K ctx args cis hs
  unfold incrbyfloat
  kk_body

theorem get_kk : Body.KK Cmd.get := by
  intro K ctx args cis hs
  unfold Cmd.get
  kk_body

theorem getbit_kk : Body.KK getbit := by
  intro K ctx args cis hs
  unfold getbit
  kk_body

theorem setbit_kk : Body.KK setbit := by
  intro K ctx args cis hs
  unfold setbit
  kk_body

theorem getrange_kk : Body.KK getrange := by
  intro K ctx args cis hs
  unfold getrange
  kk_body

theorem getset_kk : Body.KK getset := by
  intro K ctx args cis hs
  unfold getset
  kk_body

theorem mget_kk : Body.KK mget := by
  intro K ctx args cis hs
  unfold mget
  kk_body

theorem msetCore_kk (ps : List (Nat × Bytes)) {cis : List CI} (hs : KKeys K cis) :
    KKeys K (msetCore cis ps) := by
  unfold msetCore
  induction ps generalizing cis with
  | nil => exact hs
  | cons p ps ih => exact ih (hs.set _ rfl)

theorem mset_kk : Body.KK mset := by
  intro K ctx args cis hs
  have hcore := @msetCore_kk
  unfold mset
  kk_body

theorem msetnx_kk : Body.KK msetnx := by
  intro K ctx args cis hs
  have hcore := @msetCore_kk
  unfold msetnx
  kk_body

theorem set_kk : Body.KK Cmd.set := by
  intro K ctx args cis hs
  unfold Cmd.set
  split
  · split
    · kk_close
    · dsimp only
      refine Out.kk_ite ?_ (Out.kk_ite ?_ (Out.kk_ite ?_ ?_))
      all_goals kk_body
  · kk_close

theorem setex_kk : Body.KK setex := by
  intro K ctx args cis hs
  unfold setex
  kk_body

theorem psetex_kk : Body.KK psetex := by
  intro K ctx args cis hs
  unfold psetex
  kk_body

theorem setnx_kk : Body.KK setnx := by
  intro K ctx args cis hs
  unfold setnx
  kk_body

theorem setrange_kk : Body.KK setrange := by
  intro K ctx args cis hs
  unfold setrange
  kk_body

theorem strlen_kk : Body.KK strlen := by
  intro K ctx args cis hs
  unfold strlen
  kk_body

/-! ## Keys -/

theorem deleteCore_kk (ks : List Nat) {cis : List CI} (hs : KKeys K cis) :
    KKeys K (deleteCore cis ks).1 := by
  unfold deleteCore
  generalize (0 : Int) = n
  generalize ([] : List Bytes) = done
  induction ks generalizing cis n done with
  | nil => exact hs
  | cons k ks ih =>
    simp only [List.foldl_cons]
    split
    · exact ih (hs.set k (c := (ciAt cis k).setValue none) rfl) _ _
    · exact ih hs _ _

theorem del_kk : Body.KK del := by
  intro K ctx args cis hs
  have h := deleteCore_kk (keyIdxs args) hs
  unfold del
  split
  rename_i heq
  rw [heq] at h
  kk_close

theorem exists__kk : Body.KK exists_ := by
  intro K ctx args cis hs
  unfold exists_
  kk_body

theorem expireatCore_kk (ctx : Ctx) {cis : List CI} (hs : KKeys K cis) (k : Nat) (ts : Int) :
    Out.KK K (expireatCore ctx cis k ts) := by
  unfold expireatCore
  kk_body

theorem expire_kk : Body.KK expire := by
  intro K ctx args cis hs
  have hcore0 := @expireatCore_kk
  unfold expire
  kk_body

theorem expireat_kk : Body.KK expireat := by
  intro K ctx args cis hs
  have hcore0 := @expireatCore_kk
  unfold expireat
  kk_body

theorem pexpire_kk : Body.KK pexpire := by
  intro K ctx args cis hs
  have hcore0 := @expireatCore_kk
  unfold pexpire
  kk_body

theorem pexpireat_kk : Body.KK pexpireat := by
  intro K ctx args cis hs
  have hcore0 := @expireatCore_kk
  unfold pexpireat
  kk_body

theorem ttlCore_kk (ctx : Ctx) {cis : List CI} (hs : KKeys K cis) (k : Nat) (sc : Int) :
    Out.KK K (ttlCore ctx cis k sc) := by
  unfold ttlCore
  kk_body

theorem ttl_kk : Body.KK ttl := by
  intro K ctx args cis hs
  have hcore0 := @ttlCore_kk
  unfold ttl
  kk_body

theorem pttl_kk : Body.KK pttl := by
  intro K ctx args cis hs
  have hcore0 := @ttlCore_kk
  unfold pttl
  kk_body

theorem type__kk : Body.KK type_ := by
  intro K ctx args cis hs
  unfold type_
  kk_body

theorem persist_kk : Body.KK persist := by
  intro K ctx args cis hs
  unfold persist
  kk_body

theorem renameCore_kk {cis : List CI} (hs : KKeys K cis) (k nk : Nat) :
    KKeys K (renameCore cis k nk) := by
  unfold renameCore
  dsimp only
  split
  · exact (hs.set nk (c := ((ciAt cis nk).setValue (ciAt cis k).val).setExpire (ciAt cis k).expireat) rfl).set_of hs k
      (c := (ciAt cis k).setValue none) rfl
  · exact hs

theorem rename_kk : Body.KK rename := by
  intro K ctx args cis hs
  have hcore0 := @renameCore_kk
  unfold rename
  kk_body

theorem renamenx_kk : Body.KK renamenx := by
  intro K ctx args cis hs
  have hcore0 := @renameCore_kk
  unfold renamenx
  kk_body

theorem dump_kk : Body.KK dump := by
  intro K ctx args cis hs
  unfold dump
  kk_body

theorem restore_kk : Body.KK restore := by
  intro K ctx args cis hs
  unfold restore
  kk_body

/-! ## Hashes -/

theorem hdel_kk : Body.KK hdel := by
  intro K ctx args cis hs
  unfold hdel
  kk_body

theorem hexists_kk : Body.KK hexists := by
  intro K ctx args cis hs
  unfold hexists
  kk_body

theorem hget_kk : Body.KK hget := by
  intro K ctx args cis hs
  unfold hget
  kk_body

theorem hgetall_kk : Body.KK hgetall := by
  intro K ctx args cis hs
  unfold hgetall
  kk_body

theorem hincrby_kk : Body.KK hincrby := by
  intro K ctx args cis hs
  unfold hincrby
  kk_body

theorem hincrbyfloat_kk : Body.KK hincrbyfloat := by
  intro K ctx args cis hs
  unfold hincrbyfloat
  kk_body

theorem hkeys_kk : Body.KK hkeys := by
  intro K ctx args cis hs
  unfold hkeys
  kk_body

theorem hvals_kk : Body.KK hvals := by
  intro K ctx args cis hs
  unfold hvals
  kk_body

theorem hlen_kk : Body.KK hlen := by
  intro K ctx args cis hs
  unfold hlen
  kk_body

theorem hmget_kk : Body.KK hmget := by
  intro K ctx args cis hs
  unfold hmget
  kk_body

theorem hset_kk : Body.KK hset := by
  intro K ctx args cis hs
  unfold hset
  kk_body

theorem hmset_kk : Body.KK hmset := by
  intro K ctx args cis hs
  have h := hset_kk K ctx args cis hs
  unfold hmset
  split
  · rename_i o heq
    rw [heq, Out.kk_ok_iff] at h
    rw [Out.kk_ok_iff]
    exact h
  · exact Out.kk_error _

theorem hsetnx_kk : Body.KK hsetnx := by
  intro K ctx args cis hs
  have hcore : ∀ ctx args cis, KKeys K cis → Out.KK K (hset ctx args cis) := hset_kk K
  unfold hsetnx
  kk_body

theorem hstrlen_kk : Body.KK hstrlen := by
  intro K ctx args cis hs
  unfold hstrlen
  kk_body

theorem hscan_kk : Body.KK hscan := by
  intro K ctx args cis hs
  unfold hscan
  kk_body

/-! ## Lists -/

theorem setList_kk {cis : List CI} (hs : KKeys K cis) (k : Nat) (l : List Bytes) :
    KKeys K (setList cis k l) := hs.set _ rfl

theorem lindex_kk : Body.KK lindex := by
  intro K ctx args cis hs
  have hcore0 := @setList_kk
  unfold lindex
  kk_body

theorem linsert_kk : Body.KK linsert := by
  intro K ctx args cis hs
  have hcore0 := @setList_kk
  unfold linsert
  kk_body

theorem llen_kk : Body.KK llen := by
  intro K ctx args cis hs
  have hcore0 := @setList_kk
  unfold llen
  kk_body

theorem lpush_kk : Body.KK lpush := by
  intro K ctx args cis hs
  have hcore0 := @setList_kk
  unfold lpush
  kk_body

theorem rpush_kk : Body.KK rpush := by
  intro K ctx args cis hs
  have hcore0 := @setList_kk
  unfold rpush
  kk_body

theorem lpushx_kk : Body.KK lpushx := by
  intro K ctx args cis hs
  have hcore : ∀ ctx args cis, KKeys K cis → Out.KK K (lpush ctx args cis) := lpush_kk K
  unfold lpushx
  kk_body

theorem rpushx_kk : Body.KK rpushx := by
  intro K ctx args cis hs
  have hcore : ∀ ctx args cis, KKeys K cis → Out.KK K (rpush ctx args cis) := rpush_kk K
  unfold rpushx
  kk_body

theorem lrange_kk : Body.KK lrange := by
  intro K ctx args cis hs
  have hcore0 := @setList_kk
  unfold lrange
  kk_body

theorem lrem_kk : Body.KK lrem := by
  intro K ctx args cis hs
  have hcore0 := @setList_kk
  unfold lrem
  kk_body

theorem lset_kk : Body.KK lset := by
  intro K ctx args cis hs
  have hcore0 := @setList_kk
  unfold lset
  kk_body

theorem ltrim_kk : Body.KK ltrim := by
  intro K ctx args cis hs
  have hcore0 := @setList_kk
  unfold ltrim
  kk_body

theorem listPop_kk (left : Bool) : Body.KK (listPop left) := by
  intro K ctx args cis hs
  have hcore := @setList_kk
  unfold listPop
  kk_body

theorem lpop_kk : Body.KK lpop := listPop_kk true
theorem rpop_kk : Body.KK rpop := listPop_kk false

theorem moveCore_kk {cis : List CI} (hs : KKeys K cis) (s d : Nat) (fl tl : Bool) :
    Out.KK K (moveCore cis s d fl tl) := by
  have hcore := @setList_kk
  unfold moveCore
  kk_body

theorem rpoplpush_kk : Body.KK rpoplpush := by
  intro K ctx args cis hs
  have hcore0 := @moveCore_kk
  unfold rpoplpush
  kk_body

theorem lmove_kk : Body.KK lmove := by
  intro K ctx args cis hs
  have hcore0 := @moveCore_kk
  unfold lmove
  kk_body

/-! ## Sets -/

theorem putSet_kk {cis : List CI} (hs : KKeys K cis) (k : Nat) (s : List Bytes) :
    KKeys K (putSet cis k s) := hs.set _ rfl

theorem saddCore_kk {cis : List CI} (hs : KKeys K cis) (k : Nat) (ms : List Bytes) :
    KKeys K (saddCore cis k ms).1 := putSet_kk hs _ _

theorem sadd_kk : Body.KK sadd := by
  intro K ctx args cis hs
  unfold sadd
  split
  · rename_i k ms
    have h := saddCore_kk hs k (rawArgs ms)
    split
    rename_i heq
    rw [heq] at h
    kk_close
  · kk_close

theorem pfadd_kk : Body.KK pfadd := by
  intro K ctx args cis hs
  unfold pfadd
  split
  · rename_i k ms
    have h := saddCore_kk hs k (rawArgs ms)
    split
    rename_i heq
    rw [heq] at h
    kk_close
  · kk_close

theorem scard_kk : Body.KK scard := by
  intro K ctx args cis hs
  unfold scard
  kk_body

theorem setopRead_kk (op : SetOp) : Body.KK (setopRead op) := by
  intro K ctx args cis hs
  unfold setopRead
  kk_body

theorem setopStore_kk (op : SetOp) : Body.KK (setopStore op) := by
  intro K ctx args cis hs
  unfold setopStore
  kk_body

theorem sdiff_kk : Body.KK sdiff := setopRead_kk _
theorem sinter_kk : Body.KK sinter := setopRead_kk _
theorem sunion_kk : Body.KK sunion := setopRead_kk _
theorem sdiffstore_kk : Body.KK sdiffstore := setopStore_kk _
theorem sinterstore_kk : Body.KK sinterstore := setopStore_kk _
theorem sunionstore_kk : Body.KK sunionstore := setopStore_kk _

theorem sismember_kk : Body.KK sismember := by
  intro K ctx args cis hs
  unfold sismember
  kk_body

theorem smismember_kk : Body.KK smismember := by
  intro K ctx args cis hs
  unfold smismember
  kk_body

theorem smembers_kk : Body.KK smembers := by
  intro K ctx args cis hs
  unfold smembers
  kk_body

theorem smove_kk : Body.KK smove := by
  intro K ctx args cis hs
  have hcore0 := @putSet_kk
  unfold smove
  kk_body

theorem srandmember_kk : Body.KK srandmember := by
  intro K ctx args cis hs
  unfold srandmember
  body_cases
  all_goals kk_close

theorem spop_kk : Body.KK spop := by
  intro K ctx args cis hs
  have hcore := @putSet_kk
  unfold spop
  body_cases
  all_goals kk_close

theorem srem_kk : Body.KK srem := by
  intro K ctx args cis hs
  have hcore0 := @putSet_kk
  unfold srem
  kk_body

theorem sscan_kk : Body.KK sscan := by
  intro K ctx args cis hs
  unfold sscan
  kk_body

theorem pfcount_kk : Body.KK pfcount := by
  intro K ctx args cis hs
  unfold pfcount
  kk_body

theorem pfmerge_kk : Body.KK pfmerge := by
  intro K ctx args cis hs
  unfold pfmerge
  kk_body

/-! ## Sorted sets -/

theorem putZ_kk {cis : List CI} (hs : KKeys K cis) (k : Nat) (z : ZSet) :
    KKeys K (putZ cis k z) := hs.set _ rfl

theorem zincrbyCore_kk (ctx : Ctx) {cis : List CI} (hs : KKeys K cis) (k : Nat) (incr : Dbl) (m : Bytes) :
    Out.KK K (zincrbyCore ctx cis k incr m) := by
  have hcore := @putZ_kk
  unfold zincrbyCore
  kk_body

theorem zadd_kk : Body.KK zadd := by
  intro K ctx args cis hs
  have hcore0 := @putZ_kk
  have hcore1 := @zincrbyCore_kk
  unfold zadd
  kk_body

theorem zcard_kk : Body.KK zcard := by
  intro K ctx args cis hs
  unfold zcard
  kk_body

theorem zcount_kk : Body.KK zcount := by
  intro K ctx args cis hs
  unfold zcount
  kk_body

theorem zincrby_kk : Body.KK zincrby := by
  intro K ctx args cis hs
  have hcore0 := @zincrbyCore_kk
  unfold zincrby
  kk_body

theorem zlexcount_kk : Body.KK zlexcount := by
  intro K ctx args cis hs
  unfold zlexcount
  kk_body

theorem zrangeGen_kk (rev : Bool) : Body.KK (zrangeGen rev) := by
  intro K ctx args cis hs
  unfold zrangeGen
  kk_body

theorem zrange_kk : Body.KK zrange := zrangeGen_kk _
theorem zrevrange_kk : Body.KK zrevrange := zrangeGen_kk _

theorem zrangebylexGen_kk (rev : Bool) (mn : LexB) (mne : Bool) (mx : LexB) (mxe : Bool) (k : Nat)
    (opts : List Bytes) {cis : List CI} (hs : KKeys K cis) :
    Out.KK K (zrangebylexGen rev mn mne mx mxe k opts cis) := by
  unfold zrangebylexGen
  kk_body

theorem zrangebylex_kk : Body.KK zrangebylex := by
  intro K ctx args cis hs
  have hcore0 := @zrangebylexGen_kk
  unfold zrangebylex
  kk_body

theorem zrevrangebylex_kk : Body.KK zrevrangebylex := by
  intro K ctx args cis hs
  have hcore0 := @zrangebylexGen_kk
  unfold zrevrangebylex
  kk_body

theorem zrangebyscoreGen_kk (rev : Bool) (ctx : Ctx) (mn : Dbl) (mne : Bool) (mx : Dbl) (mxe : Bool)
    (k : Nat) (opts : List Bytes) {cis : List CI} (hs : KKeys K cis) :
    Out.KK K (zrangebyscoreGen rev ctx mn mne mx mxe k opts cis) := by
  unfold zrangebyscoreGen
  kk_body

theorem zrangebyscore_kk : Body.KK zrangebyscore := by
  intro K ctx args cis hs
  have hcore0 := @zrangebyscoreGen_kk
  unfold zrangebyscore
  kk_body

theorem zrevrangebyscore_kk : Body.KK zrevrangebyscore := by
  intro K ctx args cis hs
  have hcore0 := @zrangebyscoreGen_kk
  unfold zrevrangebyscore
  kk_body

theorem zrank_kk : Body.KK zrank := by
  intro K ctx args cis hs
  unfold zrank
  kk_body

theorem zrevrank_kk : Body.KK zrevrank := by
  intro K ctx args cis hs
  unfold zrevrank
  kk_body

theorem zremCore_kk {cis : List CI} (hs : KKeys K cis) (k : Nat) (ms : List Bytes) :
    Out.KK K (zremCore cis k ms) := by
  have hcore := @putZ_kk
  unfold zremCore
  kk_body

theorem zrem_kk : Body.KK zrem := by
  intro K ctx args cis hs
  have hcore0 := @zremCore_kk
  unfold zrem
  kk_body

theorem zremrangebylex_kk : Body.KK zremrangebylex := by
  intro K ctx args cis hs
  have hcore0 := @zremCore_kk
  unfold zremrangebylex
  kk_body

theorem zremrangebyscore_kk : Body.KK zremrangebyscore := by
  intro K ctx args cis hs
  have hcore0 := @zremCore_kk
  unfold zremrangebyscore
  kk_body

theorem zremrangebyrank_kk : Body.KK zremrangebyrank := by
  intro K ctx args cis hs
  have hcore0 := @zremCore_kk
  unfold zremrangebyrank
  kk_body

theorem zscan_kk : Body.KK zscan := by
  intro K ctx args cis hs
  unfold zscan
  kk_body

theorem zscore_kk : Body.KK zscore := by
  intro K ctx args cis hs
  unfold zscore
  kk_body

/-! ## The table -/

set_option maxHeartbeats 400000 in
theorem regular_kk (name : String) (body : Body) (h : regular name = some body) : Body.KK body := by
  unfold regular at h
  split at h
  · cases h; exact append_kk
  · cases h; exact bitcount_kk
  · cases h; exact decr_kk
  · cases h; exact decrby_kk
  · cases h; exact incr_kk
  · cases h; exact incrby_kk
  · cases h; exact incrbyfloat_kk
  · cases h; exact get_kk
  · cases h; exact getbit_kk
  · cases h; exact setbit_kk
  · cases h; exact getrange_kk
  · cases h; exact getrange_kk
  · cases h; exact getset_kk
  · cases h; exact mget_kk
  · cases h; exact mset_kk
  · cases h; exact msetnx_kk
  · cases h; exact set_kk
  · cases h; exact setex_kk
  · cases h; exact psetex_kk
  · cases h; exact setnx_kk
  · cases h; exact setrange_kk
  · cases h; exact strlen_kk
  · cases h; exact del_kk
  · cases h; exact del_kk
  · cases h; exact exists__kk
  · cases h; exact expire_kk
  · cases h; exact expireat_kk
  · cases h; exact pexpire_kk
  · cases h; exact pexpireat_kk
  · cases h; exact ttl_kk
  · cases h; exact pttl_kk
  · cases h; exact type__kk
  · cases h; exact persist_kk
  · cases h; exact rename_kk
  · cases h; exact renamenx_kk
  · cases h; exact dump_kk
  · cases h; exact restore_kk
  · cases h; exact hdel_kk
  · cases h; exact hexists_kk
  · cases h; exact hget_kk
  · cases h; exact hgetall_kk
  · cases h; exact hincrby_kk
  · cases h; exact hincrbyfloat_kk
  · cases h; exact hkeys_kk
  · cases h; exact hlen_kk
  · cases h; exact hmget_kk
  · cases h; exact hmset_kk
  · cases h; exact hscan_kk
  · cases h; exact hset_kk
  · cases h; exact hsetnx_kk
  · cases h; exact hstrlen_kk
  · cases h; exact hvals_kk
  · cases h; exact lindex_kk
  · cases h; exact linsert_kk
  · cases h; exact llen_kk
  · cases h; exact lmove_kk
  · cases h; exact lpop_kk
  · cases h; exact lpush_kk
  · cases h; exact lpushx_kk
  · cases h; exact lrange_kk
  · cases h; exact lrem_kk
  · cases h; exact lset_kk
  · cases h; exact ltrim_kk
  · cases h; exact rpop_kk
  · cases h; exact rpoplpush_kk
  · cases h; exact rpush_kk
  · cases h; exact rpushx_kk
  · cases h; exact sadd_kk
  · cases h; exact scard_kk
  · cases h; exact sdiff_kk
  · cases h; exact sdiffstore_kk
  · cases h; exact sinter_kk
  · cases h; exact sinterstore_kk
  · cases h; exact sismember_kk
  · cases h; exact smismember_kk
  · cases h; exact smembers_kk
  · cases h; exact smove_kk
  · cases h; exact spop_kk
  · cases h; exact srandmember_kk
  · cases h; exact srem_kk
  · cases h; exact sscan_kk
  · cases h; exact sunion_kk
  · cases h; exact sunionstore_kk
  · cases h; exact pfadd_kk
  · cases h; exact pfcount_kk
  · cases h; exact pfmerge_kk
  · cases h; exact zadd_kk
  · cases h; exact zcard_kk
  · cases h; exact zcount_kk
  · cases h; exact zincrby_kk
  · cases h; exact zlexcount_kk
  · cases h; exact zrange_kk
  · cases h; exact zrevrange_kk
  · cases h; exact zrangebylex_kk
  · cases h; exact zrevrangebylex_kk
  · cases h; exact zrangebyscore_kk
  · cases h; exact zrevrangebyscore_kk
  · cases h; exact zrank_kk
  · cases h; exact zrevrank_kk
  · cases h; exact zrem_kk
  · cases h; exact zremrangebylex_kk
  · cases h; exact zremrangebyscore_kk
  · cases h; exact zremrangebyrank_kk
  · cases h; exact zscan_kk
  · cases h; exact zscore_kk
  · cases h

end Cmd

/-- EVERY body of the command table keeps the keys of its `CommandItem`s -/
theorem regular_keepsKeys : ∀ name body, Cmd.regular name = some body → Body.KeepsKeys body :=
  fun name body h ctx args cis o ho => Cmd.regular_kk name body h (cis.map CI.key) ctx args cis rfl o ho

/-! ## 4. the generic runner -/

/-- THE NOTIFIED KEYS ARE KEY ARGUMENTS, in argument order: for a body that keeps the keys of its items, the list of
keys for which `runRegular` calls `notify_watch` is a sublist of the key arguments of the request. -/
theorem runRegular_notified_sublist (sig : Sig) (body : Body) (hb : Body.KeepsKeys body) (ctx : Ctx)
    (gate : Option Err) (raw : List Bytes) (db : Db) :
    (runRegular sig body ctx gate raw db).notified.Sublist (keyArgs sig raw) := by
  rw [runRegular_eq]
  have hk := fun args cis => apply_keys sig raw db (args := args) (cis := cis)
  revert hk
  generalize sig.apply raw db = r
  obtain ⟨db1, x⟩ := r
  intro hk
  cases x with
  | error e => exact List.nil_sublist _
  | ok ap =>
    cases ap with
    | short r => exact List.nil_sublist _
    | ok args cis =>
      have hk := hk args cis rfl
      cases gate with
      | some e => exact List.nil_sublist _
      | none =>
        simp only [runTail]
        cases hbd : body ctx args cis with
        | error e => simp only; rw [← hk]; exact writebackPure_sublist db1 cis
        | ok o =>
          simp only
          rw [← hk, ← hb ctx args cis o hbd]
          exact writebackPure_sublist db1 o.cis

theorem runRegular_notified_mem (sig : Sig) (body : Body) (hb : Body.KeepsKeys body) (ctx : Ctx)
    (gate : Option Err) (raw : List Bytes) (db : Db) :
    ∀ k ∈ (runRegular sig body ctx gate raw db).notified, k ∈ keyArgs sig raw :=
  fun _ hk => (runRegular_notified_sublist sig body hb ctx gate raw db).subset hk

/-- a body that returns the very items it was given notifies nothing -/
def Body.ReadOnly (body : Body) : Prop := ∀ ctx args cis o, body ctx args cis = .ok o → o.cis = cis

theorem runRegular_readOnly (sig : Sig) (body : Body) (hb : Body.ReadOnly body) (ctx : Ctx)
    (gate : Option Err) (raw : List Bytes) (db : Db) : (runRegular sig body ctx gate raw db).notified = [] := by
  rw [runRegular_eq]
  have hk := fun args cis => Sig.apply_clean sig raw db (args := args) (cis := cis)
  revert hk
  generalize sig.apply raw db = r
  obtain ⟨db1, x⟩ := r
  intro hk
  cases x with
  | error e => rfl
  | ok ap =>
    cases ap with
    | short r => rfl
    | ok args cis =>
      have hk := hk args cis rfl
      cases gate with
      | some e => rfl
      | none =>
        simp only [runTail]
        cases hbd : body ctx args cis with
        | error e => simp only; rw [writebackPure_clean hk]
        | ok o => simp only; rw [hb ctx args cis o hbd, writebackPure_clean hk]

/-! ## 5. the read commands -/

/-- the outcome of a read-only body: the items it was given -/
def Out.RO (cis : List CI) (r : Except Err BodyOut) : Prop := ∀ o, r = .ok o → o.cis = cis

theorem Out.ro_error {cis : List CI} (e : Err) : Out.RO cis (.error e) := by
  intro o h; cases h

theorem Out.ro_ok_iff {cis : List CI} (o : BodyOut) : Out.RO cis (.ok o) ↔ o.cis = cis := by
  constructor
  · intro h; exact h o rfl
  · intro h o' ho; cases ho; exact h

theorem Out.ro_ret_iff {cis : List CI} (r : Reply) (cis' : List CI) : Out.RO cis (ret r cis') ↔ cis' = cis :=
  Out.ro_ok_iff _

theorem Body.readOnly_iff (body : Body) : Body.ReadOnly body ↔ ∀ ctx args cis, Out.RO cis (body ctx args cis) :=
  ⟨fun h ctx args cis o ho => h ctx args cis o ho, fun h ctx args cis o ho => h ctx args cis o ho⟩

macro "ro_close" : tactic => `(tactic|
  simp (config := { failIfUnchanged := false }) only [Out.ro_error, Out.ro_ret_iff, Out.ro_ok_iff, *])

macro "ro_body" : tactic => `(tactic| (body_cases; all_goals ro_close))

namespace Cmd
open FR.Cmd

theorem bitcount_ro : Body.ReadOnly bitcount := by
  rw [Body.readOnly_iff]; intro ctx args cis
  unfold bitcount
  ro_body

theorem get_ro : Body.ReadOnly Cmd.get := by
  rw [Body.readOnly_iff]; intro ctx args cis
  unfold Cmd.get
  ro_body

theorem getbit_ro : Body.ReadOnly getbit := by
  rw [Body.readOnly_iff]; intro ctx args cis
  unfold getbit
  ro_body

theorem getrange_ro : Body.ReadOnly getrange := by
  rw [Body.readOnly_iff]; intro ctx args cis
  unfold getrange
  ro_body

theorem mget_ro : Body.ReadOnly mget := by
  rw [Body.readOnly_iff]; intro ctx args cis
  unfold mget
  ro_body

theorem strlen_ro : Body.ReadOnly strlen := by
  rw [Body.readOnly_iff]; intro ctx args cis
  unfold strlen
  ro_body

theorem exists__ro : Body.ReadOnly exists_ := by
  rw [Body.readOnly_iff]; intro ctx args cis
  unfold exists_
  ro_body

theorem type__ro : Body.ReadOnly type_ := by
  rw [Body.readOnly_iff]; intro ctx args cis
  unfold type_
  ro_body

theorem dump_ro : Body.ReadOnly dump := by
  rw [Body.readOnly_iff]; intro ctx args cis
  unfold dump
  ro_body

theorem hexists_ro : Body.ReadOnly hexists := by
  rw [Body.readOnly_iff]; intro ctx args cis
  unfold hexists
  ro_body

theorem hget_ro : Body.ReadOnly hget := by
  rw [Body.readOnly_iff]; intro ctx args cis
  unfold hget
  ro_body

theorem hgetall_ro : Body.ReadOnly hgetall := by
  rw [Body.readOnly_iff]; intro ctx args cis
  unfold hgetall
  ro_body

theorem hkeys_ro : Body.ReadOnly hkeys := by
  rw [Body.readOnly_iff]; intro ctx args cis
  unfold hkeys
  ro_body

theorem hvals_ro : Body.ReadOnly hvals := by
  rw [Body.readOnly_iff]; intro ctx args cis
  unfold hvals
  ro_body

theorem hlen_ro : Body.ReadOnly hlen := by
  rw [Body.readOnly_iff]; intro ctx args cis
  unfold hlen
  ro_body

theorem hmget_ro : Body.ReadOnly hmget := by
  rw [Body.readOnly_iff]; intro ctx args cis
  unfold hmget
  ro_body

theorem hstrlen_ro : Body.ReadOnly hstrlen := by
  rw [Body.readOnly_iff]; intro ctx args cis
  unfold hstrlen
  ro_body

theorem hscan_ro : Body.ReadOnly hscan := by
  rw [Body.readOnly_iff]; intro ctx args cis
  unfold hscan
  ro_body

theorem lindex_ro : Body.ReadOnly lindex := by
  rw [Body.readOnly_iff]; intro ctx args cis
  unfold lindex
  ro_body

theorem llen_ro : Body.ReadOnly llen := by
  rw [Body.readOnly_iff]; intro ctx args cis
  unfold llen
  ro_body

theorem lrange_ro : Body.ReadOnly lrange := by
  rw [Body.readOnly_iff]; intro ctx args cis
  unfold lrange
  ro_body

theorem scard_ro : Body.ReadOnly scard := by
  rw [Body.readOnly_iff]; intro ctx args cis
  unfold scard
  ro_body

theorem sismember_ro : Body.ReadOnly sismember := by
  rw [Body.readOnly_iff]; intro ctx args cis
  unfold sismember
  ro_body

theorem smismember_ro : Body.ReadOnly smismember := by
  rw [Body.readOnly_iff]; intro ctx args cis
  unfold smismember
  ro_body

theorem smembers_ro : Body.ReadOnly smembers := by
  rw [Body.readOnly_iff]; intro ctx args cis
  unfold smembers
  ro_body

theorem srandmember_ro : Body.ReadOnly srandmember := by
  rw [Body.readOnly_iff]; intro ctx args cis
  unfold srandmember
  ro_body

theorem sscan_ro : Body.ReadOnly sscan := by
  rw [Body.readOnly_iff]; intro ctx args cis
  unfold sscan
  ro_body

theorem pfcount_ro : Body.ReadOnly pfcount := by
  rw [Body.readOnly_iff]; intro ctx args cis
  unfold pfcount
  ro_body

theorem zcard_ro : Body.ReadOnly zcard := by
  rw [Body.readOnly_iff]; intro ctx args cis
  unfold zcard
  ro_body

theorem zcount_ro : Body.ReadOnly zcount := by
  rw [Body.readOnly_iff]; intro ctx args cis
  unfold zcount
  ro_body

theorem zlexcount_ro : Body.ReadOnly zlexcount := by
  rw [Body.readOnly_iff]; intro ctx args cis
  unfold zlexcount
  ro_body

theorem zrank_ro : Body.ReadOnly zrank := by
  rw [Body.readOnly_iff]; intro ctx args cis
  unfold zrank
  ro_body

theorem zrevrank_ro : Body.ReadOnly zrevrank := by
  rw [Body.readOnly_iff]; intro ctx args cis
  unfold zrevrank
  ro_body

theorem zscan_ro : Body.ReadOnly zscan := by
  rw [Body.readOnly_iff]; intro ctx args cis
  unfold zscan
  ro_body

theorem zscore_ro : Body.ReadOnly zscore := by
  rw [Body.readOnly_iff]; intro ctx args cis
  unfold zscore
  ro_body

theorem ttlCore_ro (ctx : Ctx) (cis : List CI) (k : Nat) (sc : Int) : Out.RO cis (ttlCore ctx cis k sc) := by
  unfold ttlCore
  ro_body

theorem ttl_ro : Body.ReadOnly ttl := by
  rw [Body.readOnly_iff]; intro ctx args cis
  have hcore := ttlCore_ro
  unfold ttl
  ro_body

theorem pttl_ro : Body.ReadOnly pttl := by
  rw [Body.readOnly_iff]; intro ctx args cis
  have hcore := ttlCore_ro
  unfold pttl
  ro_body

theorem setopRead_ro (op : SetOp) : Body.ReadOnly (setopRead op) := by
  rw [Body.readOnly_iff]; intro ctx args cis
  unfold setopRead
  ro_body

theorem sdiff_ro : Body.ReadOnly sdiff := setopRead_ro _
theorem sinter_ro : Body.ReadOnly sinter := setopRead_ro _
theorem sunion_ro : Body.ReadOnly sunion := setopRead_ro _

theorem zrangeGen_ro (rev : Bool) : Body.ReadOnly (zrangeGen rev) := by
  rw [Body.readOnly_iff]; intro ctx args cis
  unfold zrangeGen
  ro_body

theorem zrange_ro : Body.ReadOnly zrange := zrangeGen_ro _
theorem zrevrange_ro : Body.ReadOnly zrevrange := zrangeGen_ro _

theorem zrangebylexGen_ro (rev : Bool) (mn : LexB) (mne : Bool) (mx : LexB) (mxe : Bool) (k : Nat)
    (opts : List Bytes) (cis : List CI) : Out.RO cis (zrangebylexGen rev mn mne mx mxe k opts cis) := by
  unfold zrangebylexGen
  ro_body

theorem zrangebyscoreGen_ro (rev : Bool) (ctx : Ctx) (mn : Dbl) (mne : Bool) (mx : Dbl) (mxe : Bool)
    (k : Nat) (opts : List Bytes) (cis : List CI) : Out.RO cis (zrangebyscoreGen rev ctx mn mne mx mxe k opts cis) := by
  unfold zrangebyscoreGen
  ro_body

theorem zrangebylex_ro : Body.ReadOnly zrangebylex := by
  rw [Body.readOnly_iff]; intro ctx args cis
  have hcore := zrangebylexGen_ro
  unfold zrangebylex
  ro_body

theorem zrevrangebylex_ro : Body.ReadOnly zrevrangebylex := by
  rw [Body.readOnly_iff]; intro ctx args cis
  have hcore := zrangebylexGen_ro
  unfold zrevrangebylex
  ro_body

theorem zrangebyscore_ro : Body.ReadOnly zrangebyscore := by
  rw [Body.readOnly_iff]; intro ctx args cis
  have hcore := zrangebyscoreGen_ro
  unfold zrangebyscore
  ro_body

theorem zrevrangebyscore_ro : Body.ReadOnly zrevrangebyscore := by
  rw [Body.readOnly_iff]; intro ctx args cis
  have hcore := zrangebyscoreGen_ro
  unfold zrevrangebyscore
  ro_body

end Cmd

/-- the names of the read commands of the table -/
def readNames : List String :=
  ["bitcount", "get", "getbit", "getrange", "substr", "mget", "strlen", "exists", "ttl", "pttl", "type", "dump", "hexists", "hget", "hgetall", "hkeys", "hvals", "hlen", "hmget", "hstrlen", "hscan", "lindex", "llen", "lrange", "scard", "sdiff", "sinter", "sunion", "sismember", "smismember", "smembers", "srandmember", "sscan", "pfcount", "zcard", "zcount", "zlexcount", "zrange", "zrevrange", "zrangebylex", "zrevrangebylex", "zrangebyscore", "zrevrangebyscore", "zrank", "zrevrank", "zscan", "zscore"]

/-- every read command of the table returns the very items it was given -/
theorem regular_readOnly (name : String) (hn : name ∈ readNames) (body : Body)
    (h : Cmd.regular name = some body) : Body.ReadOnly body := by
  simp only [readNames, List.mem_cons, List.not_mem_nil, or_false] at hn
  rcases hn with rfl | rfl | rfl | rfl | rfl | rfl | rfl | rfl | rfl | rfl | rfl | rfl | rfl | rfl | rfl | rfl | rfl | rfl | rfl | rfl | rfl | rfl | rfl | rfl | rfl | rfl | rfl | rfl | rfl | rfl | rfl | rfl | rfl | rfl | rfl | rfl | rfl | rfl | rfl | rfl | rfl | rfl | rfl | rfl | rfl | rfl | rfl
  · cases h; exact Cmd.bitcount_ro
  · cases h; exact Cmd.get_ro
  · cases h; exact Cmd.getbit_ro
  · cases h; exact Cmd.getrange_ro
  · cases h; exact Cmd.getrange_ro
  · cases h; exact Cmd.mget_ro
  · cases h; exact Cmd.strlen_ro
  · cases h; exact Cmd.exists__ro
  · cases h; exact Cmd.ttl_ro
  · cases h; exact Cmd.pttl_ro
  · cases h; exact Cmd.type__ro
  · cases h; exact Cmd.dump_ro
  · cases h; exact Cmd.hexists_ro
  · cases h; exact Cmd.hget_ro
  · cases h; exact Cmd.hgetall_ro
  · cases h; exact Cmd.hkeys_ro
  · cases h; exact Cmd.hvals_ro
  · cases h; exact Cmd.hlen_ro
  · cases h; exact Cmd.hmget_ro
  · cases h; exact Cmd.hstrlen_ro
  · cases h; exact Cmd.hscan_ro
  · cases h; exact Cmd.lindex_ro
  · cases h; exact Cmd.llen_ro
  · cases h; exact Cmd.lrange_ro
  · cases h; exact Cmd.scard_ro
  · cases h; exact Cmd.sdiff_ro
  · cases h; exact Cmd.sinter_ro
  · cases h; exact Cmd.sunion_ro
  · cases h; exact Cmd.sismember_ro
  · cases h; exact Cmd.smismember_ro
  · cases h; exact Cmd.smembers_ro
  · cases h; exact Cmd.srandmember_ro
  · cases h; exact Cmd.sscan_ro
  · cases h; exact Cmd.pfcount_ro
  · cases h; exact Cmd.zcard_ro
  · cases h; exact Cmd.zcount_ro
  · cases h; exact Cmd.zlexcount_ro
  · cases h; exact Cmd.zrange_ro
  · cases h; exact Cmd.zrevrange_ro
  · cases h; exact Cmd.zrangebylex_ro
  · cases h; exact Cmd.zrevrangebylex_ro
  · cases h; exact Cmd.zrangebyscore_ro
  · cases h; exact Cmd.zrevrangebyscore_ro
  · cases h; exact Cmd.zrank_ro
  · cases h; exact Cmd.zrevrank_ro
  · cases h; exact Cmd.zscan_ro
  · cases h; exact Cmd.zscore_ro
open FR.WatchSys FR.M

/-! ## 6. system level: one request -/

/-- the keys a regular command notifies in the system model are key arguments of the request, in order -/
theorem regularOut_notified_sublist (s : Sys) (c' : Nat) (sig : Sig) (body : Body)
    (hreg : Cmd.regular sig.name = some body) (raw : List Bytes) (fs : Bool) :
    (s.regularOut c' sig body raw fs).notified.Sublist (keyArgs sig raw) := by
  unfold Sys.regularOut
  exact runRegular_notified_sublist sig body (regular_keepsKeys _ _ hreg) _ _ _ _

/-- a read command notifies nothing -/
theorem regularOut_read_notified (s : Sys) (c' : Nat) (sig : Sig) (body : Body)
    (hreg : Cmd.regular sig.name = some body) (hr : sig.name ∈ readNames) (raw : List Bytes) (fs : Bool) :
    (s.regularOut c' sig body raw fs).notified = [] := by
  unfold Sys.regularOut
  exact runRegular_readOnly sig body (regular_readOnly _ hr _ hreg) _ _ _ _

section
variable {c c' : Nat} {W : List (Nat × Bytes)} {b : Bool} {d0 : Nat}

/-- `_process_command` keeps the watch list and the flag of `c` (and the database selected by `c'`) whenever the
command runner does: the prologue (clean-up of closed sockets, clock refresh), the arity check, the queueing inside
MULTI and the reply do not touch them.  EXEC is excluded (its arity-error path clears the watches). -/
theorem processCommand_flag_of_run (mode : Mode) (nameB : Bytes) (args : List Bytes)
    (hrun : ∀ sig, lookupSig nameB = some sig →
      sig.name ≠ "exec" ∧ Pres (FlagInv c c' W b d0) (runCommand mode c' sig args false)) :
    Pres (FlagInv c c' W b d0) (processCommand mode c' (nameB :: args)) := by
  rw [processCommand_cons]
  refine Pres.bind (fun _ h => h) (fun conn => ?_)
  have hmc : ∀ f : Conn → Conn, (∀ y, (f y).id = y.id) → (∀ y, (f y).watches = y.watches) →
      (∀ y, (f y).watchNotified = y.watchNotified) → (∀ y, (f y).db = y.db) →
      Pres (FlagInv c c' W b d0) (modifyConn c' f) := fun f => flag_modifyConn c' f
  split
  · repeat' first
      | with_reducible exact flag_emit _ _
      | with_reducible exact Pres.pure _
      | with_reducible exact hmc _ (fun _ => rfl) (fun _ => rfl) (fun _ => rfl) (fun _ => rfl)
      | with_reducible refine Pres.bind ?_ (fun _ => ?_)
      | split
  · rename_i sig hl
    obtain ⟨hne', hrun⟩ := hrun sig hl
    refine Pres.bind flag_cleanupClosed (fun _ => ?_)
    refine Pres.bind flag_nextClock (fun now => ?_)
    refine Pres.bind (fun s h => h.frame rfl rfl) (fun _ => ?_)
    have hne : (sig.name == "exec") = false := by
      cases he : sig.name == "exec" with
      | false => rfl
      | true => exact absurd (eq_of_beq he) hne'
    simp only [hne, Bool.false_eq_true, if_false]
    repeat' first
      | with_reducible exact flag_emit _ _
      | with_reducible exact Pres.pure _
      | with_reducible exact hrun
      | with_reducible exact hmc _ (fun _ => rfl) (fun _ => rfl) (fun _ => rfl) (fun _ => rfl)
      | with_reducible refine Pres.get_bind (fun s hs => ?_)
      | with_reducible refine Pres.bind ?_ (fun _ => ?_)
      | split
      | with_reducible refine Pres.at_of_pres ?_ ‹_›

/-- the runner of a REGULAR command of `c'` that notifies no key watched by `c` in the database selected by `c'` -/
theorem runCommand_regular_flag (mode : Mode) (sig : Sig) (body : Body) (hreg : Cmd.regular sig.name = some body)
    (args : List Bytes)
    (H : ∀ u : Sys, (u.conn c').db = d0 → ∀ key ∈ (u.regularOut c' sig body args false).notified, (d0, key) ∉ W) :
    Pres (FlagInv c c' W b d0) (runCommand mode c' sig args false) := by
  rw [runCommand_not_script mode c' sig args false (regular_not_script hreg)]
  intro s h
  -- refused in subscriber mode: a pure error reply, the state is unchanged
  cases hr : s.refuses c' sig with
  | true => rw [runWith_refused _ mode c' sig args false hr]; exact h
  | false =>
  have hf := runWith_regular_flag (special (runInner mode c')) mode c' sig args false hreg s
  have hdbs : (runWith (special (runInner mode c')) mode c' sig args false s).2.srv.closedSockets
      = s.srv.closedSockets := by
    rw [runWith_regular_run _ mode c' sig args false hreg s hr]
    unfold Sys.afterRegular
    rw [(forM_notify_srv _ _ _).2.2, Sys.faultS_srv]
  refine ⟨hdbs ▸ h.opened, (hf c).1.trans h.watches, ?_, ?_⟩
  · rw [(hf c).2, h.flag]
    have : ((s.regularOut c' sig body args false).notified.any fun key =>
        (s.conn c).watches.contains ((s.conn c').db, key)) = false := by
      rw [List.any_eq_false]
      intro key hk hcon
      rw [h.watches, h.db] at hcon
      exact H s h.db key hk (List.contains_iff_mem.1 hcon)
    rw [this, Bool.or_false]
  · have hd : ∀ (ks : List Bytes) (d' : Nat) (u : Sys), ((ks.forM (notifyWatch d') u).2.conn c').db = (u.conn c').db :=
      fun ks d' u => forM_notifyWatch_pred (fun y => y.db = (u.conn c').db)
        (fun d'' key y hy => by rw [notifyFn_eq]; exact hy) d' ks c' u rfl
    rw [runWith_regular_run _ mode c' sig args false hreg s hr]
    unfold Sys.afterRegular
    rw [hd]
    simp only [Sys.conn_def, Sys.faultS_srv]
    exact h.db

end

/-! ## 7. the special commands: which keys they may notify

`FlagInv c c' W b d0` (from `FR/Proofs/WatchSys.lean`) freezes, of connection `c`: not closed, watch list `W`, flag `b`
(and the database `d0` selected by `c'`).  A statement `Pres (FlagInv c c' W b d0) m` under a hypothesis "`(d, k) ∉ W`
for the pairs in `P`" therefore reads: `m` MAY NOTIFY ONLY THE PAIRS IN `P` — a connection that watches none of them
keeps its watch list and its flag through `m`. -/

section
variable {c c' : Nat} {W : List (Nat × Bytes)} {b : Bool} {d0 : Nat}
local notation "FI" => FlagInv c c' W b d0

theorem flag_getConn (x : Nat) : Pres FI (getConn x) := fun _ h => h
theorem flag_get : Pres FI (MonadState.get : M Sys) := fun _ h => h
theorem flag_getDb (i : Nat) : Pres FI (getDb i) := fun _ h => h
theorem flag_setDb (i : Nat) (db : Db) : Pres FI (setDb i db) := fun _ h => h.frame rfl rfl
theorem flag_fault (msg : String) : Pres FI (M.fault msg) := by
  intro s h
  show FI (if s.fault.isNone then { s with fault := some msg } else s)
  split
  · exact h.frame rfl rfl
  · exact h
theorem flag_modify_frame (g : Sys → Sys) (h1 : ∀ s, (g s).srv.closedSockets = s.srv.closedSockets)
    (h2 : ∀ s, (g s).srv.conns = s.srv.conns) : Pres FI (modify g) :=
  fun s h => h.frame (h1 s) (h2 s)
theorem okR_flag (r : Reply) (cis : List CI) : Pres FI (okR r cis) := Pres.pure _

/-- `notify_watch(key)` of database `d` for a pair that `c` does not watch -/
theorem flag_notifyWatch (d : Nat) (k : Bytes) (hk : (d, k) ∉ W) : Pres FI (notifyWatch d k) := by
  intro s h
  have e : ∀ x, ((notifyWatch d k s).2.conn x) = notifyFn d k (s.conn x) := fun x => by
    rw [notifyWatch_run]
    exact Sys.conn_mapConns s _ x (notifyFn_id d k) (notifyFn_default d k x)
  refine ⟨h.opened, ?_, ?_, ?_⟩
  · rw [e, notifyFn_eq]; exact h.watches
  · rw [e, notifyFn_eq]
    show ((s.conn c).watchNotified || (s.conn c).watches.contains (d, k)) = b
    have : (s.conn c).watches.contains (d, k) = false := by
      rw [h.watches]
      cases hc : W.contains (d, k) with
      | false => rfl
      | true => exact absurd (List.contains_iff_mem.1 hc) hk
    rw [this, Bool.or_false]; exact h.flag
  · rw [e, notifyFn_eq]; exact h.db

syntax "flag_leaf" : tactic
macro_rules | `(tactic| flag_leaf) => `(tactic| first
  | with_reducible exact Pres.pure _
  | with_reducible exact flag_getConn _
  | with_reducible exact flag_emit _ _
  | with_reducible exact flag_fault _
  | with_reducible exact flag_nextClock
  | with_reducible exact flag_getDb _
  | with_reducible exact flag_setDb _ _
  | with_reducible exact okR_flag _ _
  | with_reducible exact flag_get
  | ((with_reducible refine flag_notifyWatch _ _ ?_); first | assumption | (apply_assumption <;> first | rfl | assumption))
  | ((with_reducible refine flag_modifyConn _ _ ?_ ?_ ?_ ?_) <;> (intro _; rfl))
  | ((with_reducible refine flag_modify_frame _ ?_ ?_) <;> first | exact fun _ => rfl | (intro _; split <;> rfl))
  | with_reducible assumption
  | pres_hyp)

syntax "flag_step" : tactic
macro_rules | `(tactic| flag_step) => `(tactic| first
  | flag_leaf
  | ((with_reducible refine Pres.get_bind (fun s hs => ?_)); exact hs)
  | (with_reducible refine Pres.at_set_bind (FlagInv.frame ‹_› rfl rfl) ?_)
  | (with_reducible refine Pres.get_bind (fun s hs => ?_))
  | (with_reducible refine Pres.bind ?_ (fun _ => ?_))
  | (with_reducible refine Pres.forM (fun _ => ?_))
  | (with_reducible refine Pres.forIn (fun _ _ => ?_) _)
  | (with_reducible refine Pres.mapM (fun _ => ?_))
  | (with_reducible refine Pres.map _ ?_)
  | split
  | (with_reducible refine Pres.at_of_pres ?_ ‹_›)
  | (simp only []))

syntax "fpres" : tactic
macro_rules | `(tactic| fpres) => `(tactic| repeat' flag_step)

/-- the write-back of a list of items notifies at most their keys (exactly the keys of the modified ones) -/
theorem flag_writebackAll (d : Nat) (cis : List CI) (h : ∀ ci ∈ cis, (d, ci.key) ∉ W) :
    Pres FI (writebackAll d cis) := by
  unfold writebackAll
  induction cis with
  | nil => exact Pres.pure _
  | cons ci cis ih =>
    rw [forM_cons_eq]
    have h1 := h ci (by simp)
    refine Pres.bind ?_ (fun _ => ih (fun ci' hc => h ci' (by simp [hc])))
    fpres

/-- the write-back of one item notifies at most the key of that item -/
theorem flag_writebackOne (d : Nat) (ci : CI) (h : (d, ci.key) ∉ W) : Pres FI (writebackAll d [ci]) :=
  flag_writebackAll d [ci] (fun ci' hc => by rw [List.mem_singleton.1 hc]; exact h)

theorem flag_liveKeys (d : Nat) : Pres FI (liveKeys d) := by
  unfold liveKeys; fpres

theorem flag_lookupKey (d : Nat) (key pattern : Bytes) : Pres FI (lookupKey d key pattern) := by
  unfold lookupKey; fpres

macro_rules | `(tactic| flag_leaf) => `(tactic| first
  | with_reducible exact flag_liveKeys _
  | with_reducible exact flag_lookupKey _ _ _
  | ((with_reducible refine flag_writebackOne _ _ ?_); first | assumption | (apply_assumption <;> first | rfl | assumption))
  | ((with_reducible refine flag_writebackAll _ _ ?_);
      (intro ci hci; simp only [List.mem_cons, List.mem_singleton, List.not_mem_nil, or_false] at hci;
       rcases hci with hci | hci <;> rw [hci] <;> assumption)))

/-- `Database.clear` of database `d` (FLUSHDB) notifies only keys of database `d` -/
theorem flag_clearDb (d : Nat) (h : ∀ k, (d, k) ∉ W) : Pres FI (clearDb d) := by
  unfold clearDb
  refine Pres.bind (flag_liveKeys d) (fun ks => ?_)
  refine Pres.bind (Pres.forM (fun k => flag_notifyWatch d k (h k))) (fun _ => ?_)
  fpres

/-- FLUSHALL notifies only keys of the databases 0 … 15 -/
theorem flag_flushall (h : ∀ p ∈ W, 16 ≤ p.1) : Pres FI ((List.range 16).forM clearDb) := by
  have key : ∀ l : List Nat, (∀ d ∈ l, d < 16) → Pres FI (l.forM clearDb) := by
    intro l
    induction l with
    | nil => intro _; exact Pres.pure _
    | cons d ds ih =>
      intro hl
      rw [forM_cons_eq]
      refine Pres.bind (flag_clearDb d (fun k hk => ?_)) (fun _ => ih (fun d' hd' => hl d' (by simp [hd'])))
      have := h _ hk
      have := hl d (by simp)
      simp only at *
      omega
  exact key _ (fun d hd => List.mem_range.1 hd)

/-- one pass of BLPOP / BRPOP over `keys` in database `d` notifies only `(d, k)` for `k ∈ keys` -/
theorem flag_bpopPass (d : Nat) (left first : Bool) (keys : List Bytes) (h : ∀ k ∈ keys, (d, k) ∉ W) :
    Pres FI (bpopPass d left first keys) := by
  induction keys with
  | nil => unfold bpopPass; fpres
  | cons k rest ih =>
    have h1 : (d, k) ∉ W := h k (by simp)
    have ih' := ih (fun k' hk' => h k' (by simp [hk']))
    unfold bpopPass; fpres

/-- one pass of BRPOPLPUSH notifies only `(d, src)` and `(d, dst)` -/
theorem flag_brpoplpushPass (d : Nat) (src dst : Bytes) (first : Bool) (h1 : (d, src) ∉ W) (h2 : (d, dst) ∉ W) :
    Pres FI (brpoplpushPass d src dst first) := by
  unfold brpoplpushPass; fpres

/-- `_blocking` (synchronous front-end) notifies what its pass notifies -/
theorem flag_blocking (x : Nat) (park : Bool) (kind : String) (keys : List Bytes) (timeout : Int)
    (pass : Bool → M (Except Err (Option Reply))) (hpass : ∀ first, Pres FI (pass first)) :
    Pres FI (blocking x park kind keys timeout pass) := by
  have h1 := hpass true
  unfold blocking; fpres

theorem flag_blockingAsync (x : Nat) (kind : String) (keys : List Bytes)
    (pass : Bool → M (Except Err (Option Reply))) (hpass : ∀ first, Pres FI (pass first)) :
    Pres FI (blockingAsync x kind keys pass) := by
  have h1 := hpass true
  unfold blockingAsync; fpres

/-- MOVE itself calls `notify_watch` only for the key in the TARGET database (the source key is notified by the
write-back of its `CommandItem`, a declared key argument) -/
theorem flag_moveCmd (d : Nat) (args : List Arg) (cis : List CI)
    (h : ∀ k dst, args = [.key k, .int dst] → (dst.toNat, (ciAt cis k).key) ∉ W) :
    Pres FI (moveCmd d args cis) := by
  unfold moveCmd
  split
  · rename_i kk dst
    have h1 := h kk dst rfl
    extract_lets key
    fpres
  · fpres

/-- SORT notifies only the STORE destination (an option, not a declared key), in the selected database -/
theorem flag_sortCmd (x d : Nat) (args : List Arg) (cis : List CI)
    (h : ∀ k rest o dst, args = .key k :: rest → parseSortOpts (Cmd.rawArgs rest) {} = .ok o → o.store = some dst →
      (d, dst) ∉ W) :
    Pres FI (sortCmd x d args cis) := by
  unfold sortCmd
  split
  · rename_i kk rest
    have h := h kk rest
    extract_lets key wrong out x keyed err le jp
    split
    · fpres
    · have hjp : ∀ x, Pres FI (jp x) := by
        intro items?
        simp -zeta only [jp]
        split
        · fpres
        · rename_i o ho
          have h := fun dst => h o dst rfl ho
          split
          · fpres
          · extract_lets n start stop stop' gets sortby jp2
            have hjp2 : ∀ x, Pres FI (jp2 x) := by
              intro sorted?
              simp -zeta only [jp2]
              fpres
            clear_value jp2
            fpres
      clear_value jp
      simp only []
      split
      · fpres
      · fpres
      · fpres
      · refine Pres.get_bind (fun st hs => ?_)
        split
        · split
          · exact Pres.at_set_bind (hs.frame rfl rfl) (by fpres)
          · refine Pres.at_of_pres ?_ hs; fpres
        · refine Pres.at_of_pres ?_ hs; fpres
      · fpres
  · fpres

/-- ZUNIONSTORE / ZINTERSTORE call `notify_watch` for nothing themselves (the destination is a declared key argument
and is notified by the write-back of its `CommandItem`) -/
theorem flag_zunioninter (u : Bool) (d : Nat) (args : List Arg) (cis : List CI) :
    Pres FI (zunioninter u d args cis) := by
  unfold zunioninter
  split
  · fpres
    all_goals
      refine Pres.loop_pure (fun b => b.2.2.2.2) _ (fun b => ?_) _
      repeat' split
      all_goals
        refine ⟨_, rfl, fun b' h => ?_⟩
        first
          | (cases h; done)
          | (have h := ForInStep.yield.inj h; subst h; simp_all <;> omega)
  · fpres

/-- SWAPDB `a b` notifies only keys of the databases `a` and `b` -/
theorem flag_swapdbCmd (args : List Arg) (cis : List CI)
    (h : ∀ i1 i2, args = [.int i1, .int i2] → ∀ k, (i1.toNat, k) ∉ W ∧ (i2.toNat, k) ∉ W) :
    Pres FI (swapdbCmd args cis) := by
  unfold swapdbCmd
  split
  · rename_i i1 i2
    have h1 := fun k => (h i1 i2 rfl k).1
    have h2 := fun k => (h i1 i2 rfl k).2
    fpres
  · fpres

end
/-! ## 8. the special bodies hand back items with the keys they were given -/

/-- a `special` function returns `CommandItem`s with the same keys, index by index, as the ones it was given -/
def SpecialKK (sp : SpecialFn) : Prop :=
  ∀ mode c' name args cis (s : Sys) x cis', ∀ {K : List Bytes}, KKeys K cis → (sp mode c' name args cis s).1 = .ok (x, cis') →
    KKeys K cis'

variable {K : List Bytes}

/-- the items of an `.ok` outcome have the keys `K` -/
def OutKK (K : List Bytes) {ρ : Type} (r : Except Err (ρ × List CI)) : Prop := ∀ x cis', r = .ok (x, cis') → KKeys K cis'

theorem outKK_error {ρ : Type} (e : Err) : OutKK K (.error e : Except Err (ρ × List CI)) := by
  intro x cis' h; cases h

theorem outKK_ok {ρ : Type} (x : ρ) {cis : List CI} (h : KKeys K cis) : OutKK K (.ok (x, cis)) := by
  intro x' cis' h'; cases h'; exact h

/-- close a goal `Q a` -/
syntax "kk_ret_val" : tactic
macro_rules | `(tactic| kk_ret_val) => `(tactic| first
  | exact outKK_error _
  | exact outKK_ok _ ‹_›
  | exact outKK_ok _ (KKeys.set ‹_› _ rfl))

syntax "kk_ret_leaf" : tactic
macro_rules | `(tactic| kk_ret_leaf) => `(tactic| first
  | ((with_reducible refine Ret.pure ?_); kk_ret_val)
  | with_reducible assumption)

syntax "kk_ret_step" : tactic
macro_rules | `(tactic| kk_ret_step) => `(tactic| first
  | kk_ret_leaf
  | (with_reducible refine Ret.bind (fun _ => ?_))
  | split
  | (simp only []))

syntax "kk_ret" : tactic
macro_rules | `(tactic| kk_ret) => `(tactic| repeat' kk_ret_step)

section RetKK
variable {cis : List CI} (hs : KKeys K cis)
include hs

theorem selectCmd_kkret (c' : Nat) (args : List Arg) : Ret (OutKK K) (selectCmd c' args cis) := by
  unfold selectCmd okR; kk_ret

theorem swapdbCmd_kkret (args : List Arg) : Ret (OutKK K) (swapdbCmd args cis) := by
  unfold swapdbCmd okR; kk_ret

theorem moveCmd_kkret (d' : Nat) (args : List Arg) : Ret (OutKK K) (moveCmd d' args cis) := by
  unfold moveCmd; kk_ret

theorem randomkeyCmd_kkret (d' : Nat) : Ret (OutKK K) (randomkeyCmd d' cis) := by
  unfold randomkeyCmd okR; kk_ret

theorem scanCmd_kkret (d' : Nat) (args : List Arg) : Ret (OutKK K) (scanCmd d' args cis) := by
  unfold scanCmd okR; kk_ret

theorem multiCmd_kkret (c' : Nat) : Ret (OutKK K) (multiCmd c' cis) := by
  unfold multiCmd okR; kk_ret

theorem discardCmd_kkret (c' : Nat) : Ret (OutKK K) (discardCmd c' cis) := by
  unfold discardCmd okR; kk_ret

theorem execCmd_kkret (inner : Inner) (c' : Nat) : Ret (OutKK K) (execCmd inner c' cis) := by
  unfold execCmd okR; kk_ret

theorem watchCmd_kkret (c' d' : Nat) (args : List Arg) : Ret (OutKK K) (watchCmd c' d' args cis) := by
  unfold watchCmd okR; kk_ret


theorem scriptCmd_kkret (inner : Inner) (c' : Nat) (name : String) (args : List Arg) :
    Ret (OutKK K) (scriptCmd inner c' name args cis) := by
  unfold scriptCmd
  refine Ret.bind (fun _ => Ret.pure ?_)
  intro x cis' h
  cases h
  exact hs

theorem sortCmd_kkret (c' d' : Nat) (args : List Arg) : Ret (OutKK K) (sortCmd c' d' args cis) := by
  unfold sortCmd
  split
  · extract_lets key wrong out x keyed err le jp
    split
    · kk_ret
    · have hjp : ∀ x, Ret (OutKK K) (jp x) := by
        intro items?
        simp -zeta only [jp]
        split
        · kk_ret
        · split
          · kk_ret
          · extract_lets n start stop stop' gets sortby jp2
            have hjp2 : ∀ x, Ret (OutKK K) (jp2 x) := by
              intro sorted?
              simp -zeta only [jp2]
              kk_ret
            clear_value jp2
            kk_ret
            all_goals exact hjp2 _
      clear_value jp
      simp only []
      kk_ret
      all_goals exact hjp _
  · kk_ret


/-- the early-return slot of a loop state holds only outcomes whose items have the keys `K` -/
def SlotKK (K : List Bytes) {ρ σ : Type} (b : Option (Except Err (ρ × List CI)) × σ) : Prop := ∀ r, b.1 = some r → OutKK K r

omit hs in
theorem slotKK_none {ρ σ : Type} (x : σ) : SlotKK K ((none, x) : Option (Except Err (ρ × List CI)) × σ) := by
  intro r h; cases h

omit hs in
theorem slotKK_err {ρ σ : Type} (e : Err) (x : σ) :
    SlotKK K ((some (.error e), x) : Option (Except Err (ρ × List CI)) × σ) := by
  intro r h; cases h; exact outKK_error e

macro_rules | `(tactic| kk_ret_val) => `(tactic| first
  | exact slotKK_none _
  | exact slotKK_err _ _
  | exact ‹SlotKK K _› _ ‹_›)

macro_rules | `(tactic| kk_ret_step) => `(tactic| first
  | (with_reducible refine Ret.bindV (SlotKK K) (Ret.forIn (SlotKK K) (slotKK_none _) (fun _ _ _ => ?_)) (fun _ _ => ?_))
  | (with_reducible refine Ret.bindV (SlotKK K) (Ret.loop_pure (SlotKK K) (fun b => b.2.2.2.2) _ (fun _ => ?_) _ (slotKK_none _)) (fun _ _ => ?_)))

theorem zunioninter_kkret (u : Bool) (d' : Nat) (args : List Arg) : Ret (OutKK K) (zunioninter u d' args cis) := by
  unfold zunioninter
  kk_ret
  all_goals
    refine ⟨_, rfl, fun _ => ?_, fun b' h => ?_⟩
    · first | exact slotKK_none _ | exact slotKK_err _ _
    · first
        | (cases h; done)
        | (have h := ForInStep.yield.inj h; subst h; simp_all <;> omega)


macro_rules | `(tactic| kk_ret_leaf) => `(tactic| first
  | with_reducible exact selectCmd_kkret ‹_› _ _
  | with_reducible exact swapdbCmd_kkret ‹_› _
  | with_reducible exact moveCmd_kkret ‹_› _ _
  | with_reducible exact randomkeyCmd_kkret ‹_› _
  | with_reducible exact scanCmd_kkret ‹_› _ _
  | with_reducible exact multiCmd_kkret ‹_› _
  | with_reducible exact discardCmd_kkret ‹_› _
  | with_reducible exact execCmd_kkret ‹_› _ _
  | with_reducible exact watchCmd_kkret ‹_› _ _ _
  | with_reducible exact scriptCmd_kkret ‹_› _ _ _ _)

macro_rules | `(tactic| kk_ret_val) => `(tactic| exact outKK_ok _ (‹OutKK K _› _ _ rfl))

macro_rules | `(tactic| kk_ret_step) => `(tactic| first
  | (with_reducible refine Ret.bindV (OutKK K) (sortCmd_kkret ‹_› _ _ _) (fun _ _ => ?_))
  | (with_reducible refine Ret.bindV (OutKK K) (zunioninter_kkret ‹_› _ _ _) (fun _ _ => ?_)))

theorem special_kkret (inner : Inner) (mode : Mode) (c' : Nat) (name : String) (args : List Arg) :
    Ret (OutKK K) (special inner mode c' name args cis) := by
  unfold special okR
  simp only []
  refine Ret.bind (fun conn => ?_)
  split
  all_goals kk_ret

omit hs in
/-- every instance of `special` returns `CommandItem`s with the keys it was given -/
theorem special_kk (inner : Inner) : SpecialKK (special inner) :=
  fun mode c' name args _ s x cis' _ hs h => special_kkret hs inner mode c' name args s x cis' h

end RetKK

/-! ## 9. the runner for a special command, and the dispatch -/

section
variable {c c' : Nat} {W : List (Nat × Bytes)} {b : Bool} {d0 : Nat}
local notation "FI" => FlagInv c c' W b d0

theorem flag_getConn_db : ∀ s, FI s → FI (getConn c' s).2 ∧ (getConn c' s).1.db = d0 :=
  fun s h => ⟨h, by rw [getConn_run]; exact h.db⟩

/-- the runner of a REGULAR command, for any `special` function and any `from_script` -/
theorem runWith_regular_pres (sp : SpecialFn) (mode : Mode) (sig : Sig) (body : Body)
    (hreg : Cmd.regular sig.name = some body) (args : List Bytes) (fs : Bool)
    (H : ∀ u : Sys, (u.conn c').db = d0 → ∀ key ∈ (u.regularOut c' sig body args fs).notified, (d0, key) ∉ W) :
    Pres FI (runWith sp mode c' sig args fs) := by
  intro s h
  -- refused in subscriber mode: a pure error reply, the state is unchanged
  cases hr : s.refuses c' sig with
  | true => rw [runWith_refused _ mode c' sig args fs hr]; exact h
  | false =>
  have hf := runWith_regular_flag sp mode c' sig args fs hreg s
  have hdbs : (runWith sp mode c' sig args fs s).2.srv.closedSockets = s.srv.closedSockets := by
    rw [runWith_regular_run _ mode c' sig args fs hreg s hr]
    unfold Sys.afterRegular
    rw [(forM_notify_srv _ _ _).2.2, Sys.faultS_srv]
  refine ⟨hdbs ▸ h.opened, (hf c).1.trans h.watches, ?_, ?_⟩
  · rw [(hf c).2, h.flag]
    have : ((s.regularOut c' sig body args fs).notified.any fun key =>
        (s.conn c).watches.contains ((s.conn c').db, key)) = false := by
      rw [List.any_eq_false]
      intro key hk hcon
      rw [h.watches, h.db] at hcon
      exact H s h.db key hk (List.contains_iff_mem.1 hcon)
    rw [this, Bool.or_false]
  · have hd : ∀ (ks : List Bytes) (d' : Nat) (u : Sys), ((ks.forM (notifyWatch d') u).2.conn c').db = (u.conn c').db :=
      fun ks d' u => forM_notifyWatch_pred (fun y => y.db = (u.conn c').db)
        (fun d'' key y hy => by rw [notifyFn_eq]; exact hy) d' ks c' u rfl
    rw [runWith_regular_run _ mode c' sig args fs hreg s hr]
    unfold Sys.afterRegular
    rw [hd]
    simp only [Sys.conn_def, Sys.faultS_srv]
    exact h.db

/-- `_run_command` of ANY command of connection `c'` (regular or special, directly or from a script).  The write-back
of the `CommandItem`s notifies only KEY ARGUMENTS of the request (`special_kk`: also the special bodies hand back
items with the keys they were given); beyond that only what the special body itself notifies (`hsp`). -/
theorem runWith_flag (sp : SpecialFn) (hkk : SpecialKK sp) (mode : Mode) (sig : Sig) (raw : List Bytes) (fs : Bool)
    (hkeys : ∀ k ∈ keyArgs sig raw, (d0, k) ∉ W)
    (hsp : Cmd.regular sig.name = none → ∀ args cis, (∃ db, (sig.apply raw db).2 = .ok (.ok args cis)) →
      Pres FI (sp mode c' sig.name args cis)) :
    Pres FI (runWith sp mode c' sig raw fs) := by
  cases hreg : Cmd.regular sig.name with
  | some body =>
    refine runWith_regular_pres sp mode sig body hreg raw fs (fun u _ key hk => hkeys key ?_)
    exact (regularOut_notified_sublist u c' sig body hreg raw fs).subset hk
  | none =>
    unfold runWith
    refine Pres.bindV (fun conn => conn.db = d0) flag_getConn_db (fun conn hdb => ?_)
    subst hdb
    -- a subscribed connection is refused before the arguments are looked at: a pure error reply
    split
    · exact Pres.pure _
    refine Pres.bind (flag_getDb _) (fun db => ?_)
    simp only [hreg]
    have hk := fun args cis => apply_keys sig raw db (args := args) (cis := cis)
    revert hk
    have hex := fun args cis (h : (sig.apply raw db).2 = .ok (.ok args cis)) =>
      hsp hreg args cis ⟨db, h⟩
    revert hex
    generalize sig.apply raw db = r
    obtain ⟨db', res⟩ := r
    intro hex hk
    dsimp only
    refine Pres.bind (flag_setDb _ _) (fun _ => ?_)
    split
    · fpres
    · fpres
    · rename_i args cis
      have hk := hk args cis rfl
      have hwb : ∀ cis' : List CI, KKeys (keyArgs sig raw) cis' →
          Pres (FlagInv c c' W b conn.db) (writebackAll conn.db cis') := by
        intro cis' hc
        refine flag_writebackAll _ _ (fun ci hci => hkeys _ ?_)
        rw [← hc]
        exact List.mem_map_of_mem hci
      split
      · fpres
      · refine Pres.bindV (fun r => ∀ x cis', r = .ok (x, cis') → KKeys (keyArgs sig raw) cis')
          (fun u hu => ⟨hex args cis rfl u hu, fun x cis' hr => hkk _ _ _ _ _ _ _ _ hk hr⟩) (fun r hr => ?_)
        split
        · have := hwb cis hk
          fpres
        · rename_i r' cis'
          have := hwb cis' (hr _ _ rfl)
          fpres

theorem flag_randomkeyCmd (d : Nat) (cis : List CI) : Pres FI (randomkeyCmd d cis) := by
  unfold randomkeyCmd okR
  refine Pres.bind (flag_liveKeys d) (fun ks => ?_)
  split
  · fpres
  · refine Pres.get_bind (fun s hs => ?_)
    split
    · split
      · exact Pres.at_set_bind (hs.frame rfl rfl) (Pres.pure _)
      · refine Pres.at_of_pres ?_ hs; fpres
    · refine Pres.at_of_pres ?_ hs; fpres

theorem flag_scanCmd (d : Nat) (args : List Arg) (cis : List CI) : Pres FI (scanCmd d args cis) := by
  unfold scanCmd okR; fpres

theorem flag_multiCmd (cis : List CI) : Pres FI (multiCmd c' cis) := by
  unfold multiCmd okR; fpres

theorem flag_subscribeGen (pattern : Bool) (names : List Bytes) : Pres FI (subscribeGen c' pattern names) := by
  unfold subscribeGen; fpres

theorem flag_unsubscribeGen (pattern : Bool) (names : List Bytes) : Pres FI (unsubscribeGen c' pattern names) := by
  unfold unsubscribeGen; fpres

theorem flag_publish (ch msg : Bytes) : Pres FI (publish ch msg) := by
  unfold publish; fpres

macro_rules | `(tactic| flag_leaf) => `(tactic| first
  | with_reducible exact flag_randomkeyCmd _ _
  | with_reducible exact flag_scanCmd _ _ _
  | with_reducible exact flag_multiCmd _
  | with_reducible exact flag_subscribeGen _ _
  | with_reducible exact flag_unsubscribeGen _ _
  | with_reducible exact flag_publish _ _
  | with_reducible exact flag_zunioninter _ _ _ _)

theorem flag_brpoplpushPass' (d : Nat) (src dst : Bytes) (first : Bool) (h : (d, src) ∉ W ∧ (d, dst) ∉ W) :
    Pres FI (brpoplpushPass d src dst first) := flag_brpoplpushPass d src dst first h.1 h.2

/-- the special commands that act on the watch state or the selected database of the connection issuing them, or
run nested commands: they are outside the scope of `special_flag` -/
def touchy : List String := ["select", "exec", "discard", "watch", "unwatch", "eval", "evalsha", "script"]

/-- WHAT THE SPECIAL COMMANDS MAY NOTIFY beyond their key arguments.  `SpecialAvoids W d0 name args cis`: the watch
list `W` contains none of the pairs that the special command `name`, run with the converted arguments `args` and the
items `cis` on the selected database `d0`, may pass to `notify_watch` itself:
MOVE — the key in the TARGET database;  SORT — the STORE destination (an option, not a declared key);
FLUSHDB — every key of the selected database;  FLUSHALL — every key of the databases 0…15;
SWAPDB a b — every key of `a` and of `b`;  BLPOP / BRPOP — the listed keys (plain arguments, not declared keys);
BRPOPLPUSH — source and destination (likewise).  All other special commands notify nothing themselves. -/
structure SpecialAvoids (W : List (Nat × Bytes)) (d0 : Nat) (name : String) (args : List Arg) (cis : List CI) : Prop where
  move : name = "move" → ∀ k dst, args = [.key k, .int dst] → (dst.toNat, (ciAt cis k).key) ∉ W
  sort : name = "sort" → ∀ k rest o dst, args = .key k :: rest →
    parseSortOpts (Cmd.rawArgs rest) {} = .ok o → o.store = some dst → (d0, dst) ∉ W
  flushdb : name = "flushdb" → ∀ k, (d0, k) ∉ W
  flushall : name = "flushall" → ∀ p ∈ W, 16 ≤ p.1
  swapdb : name = "swapdb" → ∀ i1 i2, args = [.int i1, .int i2] → ∀ k, (i1.toNat, k) ∉ W ∧ (i2.toNat, k) ∉ W
  bpop : name = "blpop" ∨ name = "brpop" → ∀ k ∈ (Cmd.rawArgs args).dropLast, (d0, k) ∉ W
  brpoplpush : name = "brpoplpush" → ∀ src dst t, args = [.raw src, .raw dst, .int t] → (d0, src) ∉ W ∧ (d0, dst) ∉ W

/-- THE DISPATCH.  Every special command other than the `touchy` ones keeps the watch list and the flag of a
connection `c` whose watch list avoids what the command may notify (`SpecialAvoids`). -/
theorem special_flag (inner : Inner) (mode : Mode) (name : String) (args : List Arg) (cis : List CI)
    (hname : name ∉ touchy) (hav : SpecialAvoids W d0 name args cis) :
    Pres (FlagInv c c' W b d0) (special inner mode c' name args cis) := by
  obtain ⟨hmove, hsort, hflushdb, hflushall, hswap, hbpop, hbrpl⟩ := hav
  unfold special
  simp only []
  refine Pres.bindV (fun conn => conn.db = d0) flag_getConn_db (fun conn hdb => ?_)
  subst hdb
  split
  all_goals first
    | (exfalso; exact hname (by decide))
    | exact flag_moveCmd _ _ _ (hmove rfl)
    | (refine Pres.bind (flag_sortCmd _ _ _ _ (hsort rfl)) (fun _ => ?_); fpres)
    | (have h1 := flag_clearDb (c := c) (c' := c') (W := W) (b := b) (d0 := conn.db) conn.db (hflushdb rfl); fpres)
    | (have h1 := flag_flushall (c := c) (c' := c') (W := W) (b := b) (d0 := conn.db) (hflushall rfl); fpres)
    | exact flag_swapdbCmd _ _ (hswap rfl)
    | (have hb := fun x park kind keys t => flag_blocking (c := c) (c' := c') (W := W) (b := b) (d0 := conn.db)
          x park kind keys t _ (fun first => flag_bpopPass conn.db ("blpop" == "blpop") first _ (hbpop (.inl rfl)))
       have hb' := fun x kind keys => flag_blockingAsync (c := c) (c' := c') (W := W) (b := b) (d0 := conn.db)
          x kind keys _ (fun first => flag_bpopPass conn.db ("blpop" == "blpop") first _ (hbpop (.inl rfl)))
       fpres)
    | (have hb := fun x park kind keys t => flag_blocking (c := c) (c' := c') (W := W) (b := b) (d0 := conn.db)
          x park kind keys t _ (fun first => flag_bpopPass conn.db ("brpop" == "blpop") first _ (hbpop (.inr rfl)))
       have hb' := fun x kind keys => flag_blockingAsync (c := c) (c' := c') (W := W) (b := b) (d0 := conn.db)
          x kind keys _ (fun first => flag_bpopPass conn.db ("brpop" == "blpop") first _ (hbpop (.inr rfl)))
       fpres)
    | (have hb := hbrpl rfl
       repeat' first
         | (with_reducible exact flag_blocking _ _ _ _ _ _ (fun _ => flag_brpoplpushPass' _ _ _ _ (hb _ _ _ rfl)))
         | (with_reducible exact flag_blockingAsync _ _ _ _ (fun _ => flag_brpoplpushPass' _ _ _ _ (hb _ _ _ rfl)))
         | flag_step)
    | fpres

theorem not_touchy_not_script {n : String} (h : n ∉ touchy) : n ∉ scriptNames := by
  intro hm
  apply h
  simp only [scriptNames, List.mem_cons, List.not_mem_nil, or_false] at hm
  rcases hm with h | h | h <;> rw [h] <;> decide

/-- `_run_command` of any command other than the `touchy` ones -/
theorem runCommand_flag (mode : Mode) (sig : Sig) (raw : List Bytes) (hname : sig.name ∉ touchy)
    (hkeys : ∀ k ∈ keyArgs sig raw, (d0, k) ∉ W)
    (hsp : Cmd.regular sig.name = none → ∀ args cis, (∃ db, (sig.apply raw db).2 = .ok (.ok args cis)) →
      SpecialAvoids W d0 sig.name args cis) :
    Pres FI (runCommand mode c' sig raw false) := by
  rw [runCommand_not_script mode c' sig raw false (not_touchy_not_script hname)]
  exact runWith_flag _ (special_kk _) mode sig raw false hkeys
    (fun hreg args cis hex => special_flag _ mode sig.name args cis hname (hsp hreg args cis hex))

end
/-! ## 10. requests that cannot set the flag of `c`, and histories of them -/

/-- THE REQUESTS ALLOWED between WATCH and EXEC.  A request of connection `c'` with the fields `fields` is *harmless*
for the watch list `W` when, `d'` being the database selected by `c'`,
* it is empty, or names no command (answered "unknown command"), or
* it names a REGULAR command (one of the bodies of `Cmd.regular`) which is a read command (`readNames`), or none of
  whose KEY ARGUMENTS `k` makes `(d', k)` a member of `W`, or
* it names a SPECIAL command other than the `touchy` ones (SELECT, EXEC, DISCARD, WATCH, UNWATCH, EVAL, EVALSHA,
  SCRIPT), none of whose key arguments `k` makes `(d', k)` a member of `W`, and `W` avoids what the command may
  notify beyond its key arguments (`SpecialAvoids`, for the converted arguments `Signature.apply` produces). -/
def HarmlessReq (W : List (Nat × Bytes)) (d' : Nat) : List Bytes → Prop
  | [] => True
  | nameB :: args =>
    match lookupSig nameB with
    | none => True
    | some sig =>
      ((Cmd.regular sig.name).isSome = true ∧
        (sig.name ∈ readNames ∨ ∀ k ∈ keyArgs sig args, (d', k) ∉ W)) ∨
      (Cmd.regular sig.name = none ∧ sig.name ∉ touchy ∧ (∀ k ∈ keyArgs sig args, (d', k) ∉ W) ∧
        ∀ cargs cis, (∃ db, (sig.apply args db).2 = .ok (.ok cargs cis)) → SpecialAvoids W d' sig.name cargs cis)

/-- THE EVENTS ALLOWED between WATCH and EXEC (for connection `c`, in state `s`): harmless requests of ANY connection
(also of `c` itself, also queued inside a MULTI; regular commands and the special commands that are not `touchy`), a change of the emulated version, (dis)connection of the server, a new
socket, and `close` / `gc` of another connection. -/
def Harmless (c : Nat) (s : Sys) : Ev → Prop
  | .request _ c' fields _ _ => HarmlessReq (s.conn c).watches (s.conn c').db fields
  | .version _ => True
  | .conn _ => True
  | .open _ => True
  | .close c' => c' ≠ c
  | .gc c' => c' ≠ c
  | _ => False

/-- every event of the history is harmless for `c` in the state it is run from -/
def HarmlessRun (c : Nat) : Sys → List Ev → Prop
  | _, [] => True
  | s, e :: es => Harmless c s e ∧ HarmlessRun c (stepEv s e) es

/-- what a harmless history keeps of `c`: not closed, the watch list, the flag -/
structure Calm (c : Nat) (W : List (Nat × Bytes)) (b : Bool) (s : Sys) : Prop where
  opened : c ∉ s.srv.closedSockets
  watches : (s.conn c).watches = W
  flag : (s.conn c).watchNotified = b

theorem Calm.frame {c : Nat} {W : List (Nat × Bytes)} {b : Bool} {u u' : Sys} (h : Calm c W b u)
    (h1 : u'.srv.closedSockets = u.srv.closedSockets) (h2 : u'.srv.conns = u.srv.conns) : Calm c W b u' := by
  have e : u'.conn c = u.conn c := by simp only [Sys.conn_def, h2]
  exact ⟨h1 ▸ h.opened, e ▸ h.watches, e ▸ h.flag⟩

/-- a harmless request keeps the watch list and the flag of `c` -/
theorem processCommand_harmless (mode : Mode) (c c' : Nat) (fields : List Bytes) (s : Sys)
    (hopen : c ∉ s.srv.closedSockets) (hh : HarmlessReq (s.conn c).watches (s.conn c').db fields) :
    c ∉ (processCommand mode c' fields s).2.srv.closedSockets ∧
    ((processCommand mode c' fields s).2.conn c).watches = (s.conn c).watches ∧
    ((processCommand mode c' fields s).2.conn c).watchNotified = (s.conn c).watchNotified := by
  cases fields with
  | nil => exact ⟨hopen, rfl, rfl⟩
  | cons nameB args =>
    have h0 : FlagInv c c' (s.conn c).watches (s.conn c).watchNotified (s.conn c').db s := ⟨hopen, rfl, rfl, rfl⟩
    have := processCommand_flag_of_run (c := c) (c' := c') (W := (s.conn c).watches) (b := (s.conn c).watchNotified)
      (d0 := (s.conn c').db) mode nameB args (by
        intro sig hl
        simp only [HarmlessReq, hl] at hh
        rcases hh with hh | ⟨_, hnt, hk, hsp⟩
        · cases hb : Cmd.regular sig.name with
          | none => rw [hb] at hh; exact absurd hh.1 (by simp)
          | some body =>
            have hne : sig.name ≠ "exec" := by
              intro he
              rw [he] at hb
              cases hb
            refine ⟨hne, runCommand_regular_flag mode sig body hb args ?_⟩
            intro u _ key hk
            rcases hh.2 with hr | hk'
            · rw [regularOut_read_notified u c' sig body hb hr] at hk; cases hk
            · exact hk' key ((regularOut_notified_sublist u c' sig body hb args false).subset hk)
        · have hne : sig.name ≠ "exec" := fun he => hnt (by rw [he]; decide)
          exact ⟨hne, runCommand_flag mode sig args hnt hk (fun _ => hsp)⟩) s h0
    exact ⟨this.opened, this.watches, this.flag⟩

/-- ONE HARMLESS EVENT keeps `c` open, its watch list and its flag -/
theorem stepEv_harmless {c : Nat} {W : List (Nat × Bytes)} {b : Bool} (s : Sys) (e : Ev) (h : Calm c W b s)
    (hh : Harmless c s e) : Calm c W b (stepEv s e) := by
  have h0 : Calm c W b s.beginEvent := h.frame rfl rfl
  unfold stepEv
  cases e with
  | version v => exact h.frame rfl rfl
  | «open» c' =>
    refine ⟨h.opened, ?_, ?_⟩
    · show ((openConn c' s.beginEvent).2.conn c).watches = W
      rw [openConn_conn]; exact h0.watches
    · show ((openConn c' s.beginEvent).2.conn c).watchNotified = b
      rw [openConn_conn]; exact h0.flag
  | close c' =>
    have hne : c' ≠ c := hh
    show Calm c W b (closeConn c' s.beginEvent).2
    rw [closeConn_run]
    have e1 : (({ s.beginEvent with srv := { s.beginEvent.srv with
        closedSockets := s.beginEvent.srv.closedSockets ++ [c'] } } : Sys).updConn c'
          fun x => { x with closed := true }).conn c = s.conn c :=
      Sys.conn_updConn_ne _ (Ne.symm hne) (fun _ => rfl)
    refine ⟨?_, by rw [e1]; exact h.watches, by rw [e1]; exact h.flag⟩
    show c ∉ s.srv.closedSockets ++ [c']
    simp only [List.mem_append, List.mem_singleton, not_or]
    exact ⟨h.opened, fun e => hne e.symm⟩
  | gc c' =>
    have hne : c' ≠ c := hh
    refine ⟨?_, ?_, ?_⟩
    · show c ∉ s.srv.closedSockets.filter (· != c')
      exact fun hm => h.opened (List.mem_filter.1 hm).1
    · show ((gcConn c' s.beginEvent).2.conn c).watches = W
      rw [gcConn_conn_other c' c _ (Ne.symm hne)]; exact h0.watches
    · show ((gcConn c' s.beginEvent).2.conn c).watchNotified = b
      rw [gcConn_conn_other c' c _ (Ne.symm hne)]; exact h0.flag
  | conn up => exact h.frame rfl rfl
  | request mode c' fields clocks picks =>
    have hs : Calm c W b (s.beginEvent.withHints clocks picks) := h.frame rfl rfl
    have := processCommand_harmless mode c c' fields (s.beginEvent.withHints clocks picks) hs.opened hh
    exact ⟨this.1, this.2.1.trans hs.watches, this.2.2.trans hs.flag⟩
  | send mode c' data clocks picks => exact hh.elim
  | wake c' clocks => exact hh.elim
  | timeout c' => exact hh.elim
  | awake mode c' clocks picks => exact hh.elim
  | atimeout mode c' clocks picks => exact hh.elim

/-- A HARMLESS HISTORY keeps `c` open, its watch list and its flag -/
theorem history_harmless {c : Nat} {W : List (Nat × Bytes)} {b : Bool} (evs : List Ev) (s : Sys) (h : Calm c W b s)
    (hh : HarmlessRun c s evs) : Calm c W b (evs.foldl stepEv s) := by
  induction evs generalizing s with
  | nil => exact h
  | cons e es ih => exact ih _ (stepEv_harmless s e h hh.1) hh.2

/-! ## 11. the converted arguments do not depend on the database -/

/-- what the first pass of `Signature.apply` makes of the raw arguments -/
def conv1 : List (Bytes × ArgTy) → Option (List Arg)
  | [] => some []
  | (b, t) :: rest =>
    match Conv.decode t b with
    | .error _ => none
    | .ok a => (conv1 rest).map (a :: ·)

/-- what the second pass makes of them: the key arguments are replaced by the index of their `CommandItem` -/
def conv2 : List (Arg × ArgTy) → Nat → List Arg
  | [], _ => []
  | (.raw _, .key _ _) :: rest, n => .key n :: conv2 rest (n + 1)
  | (a, _) :: rest, n => a :: conv2 rest n

/-- THE CONVERTED ARGUMENTS of a request, as a function of the signature and the raw arguments alone -/
def argsOf (sig : Sig) (raw : List Bytes) : Option (List Arg) :=
  (conv1 (raw.zip (sig.types raw.length))).map fun as => conv2 (as.zip (sig.types raw.length)) 0

theorem pass1_conv (l : List (Bytes × ArgTy)) (db : Db) (acc : List Arg) {args : List Arg}
    (h : (Sig.pass1 db l acc).2 = .ok (.inr args)) : ∃ as, args = acc.reverse ++ as ∧ conv1 l = some as := by
  induction l generalizing db acc with
  | nil =>
    simp only [Sig.pass1, Except.ok.injEq, Sum.inr.injEq] at h
    exact ⟨[], by simp [h], rfl⟩
  | cons x rest ih =>
    obtain ⟨b, t⟩ := x
    cases t
    case key ty mr =>
      simp only [Sig.pass1] at h
      have fin : ∀ db', (Sig.pass1 db' rest (.raw b :: acc)).2 = .ok (.inr args) →
          ∃ as, args = acc.reverse ++ as ∧ conv1 ((b, ArgTy.key ty mr) :: rest) = some as := by
        intro db' h'
        obtain ⟨as, e, hk⟩ := ih _ _ h'
        refine ⟨.raw b :: as, by rw [e]; simp, ?_⟩
        simp only [conv1, Conv.decode, hk, Option.map_some]
      split at h
      · split at h
        · cases h
        · exact fin _ h
      · exact fin _ h
    all_goals
      simp only [Sig.pass1] at h
      split at h
      · cases h
      · rename_i a hdec
        obtain ⟨as, e, hk⟩ := ih _ _ h
        refine ⟨a :: as, by rw [e]; simp, ?_⟩
        simp only [conv1, hdec, hk, Option.map_some]

theorem pass2_conv (l : List (Arg × ArgTy)) (db : Db) (accA : List Arg) (accC : List CI)
    {args : List Arg} {cis : List CI} (h : (Sig.pass2 db l accA accC).2 = .ok (args, cis)) :
    args = accA.reverse ++ conv2 l accC.length := by
  induction l generalizing db accA accC with
  | nil =>
    simp only [Sig.pass2, Except.ok.injEq, Prod.mk.injEq] at h
    simp [← h.1, conv2]
  | cons x rest ih =>
    obtain ⟨a, t⟩ := x
    unfold Sig.pass2 at h
    split at h
    · rename_i ty mr k
      generalize db.get k = g at h
      obtain ⟨db', item⟩ := g
      simp only at h
      have fin : ∀ (c0 : CI), (Sig.pass2 db' rest (.key accC.length :: accA) (c0 :: accC)).2 = .ok (args, cis) →
          args = accA.reverse ++ conv2 ((Arg.raw k, ArgTy.key ty mr) :: rest) accC.length := by
        intro c0 h'
        rw [ih _ _ _ h']
        simp [conv2]
      split at h
      · split at h
        · cases h
        · exact fin _ h
      · exact fin _ h
      · exact fin _ h
      · exact fin _ h
    · rename_i hne
      rw [ih _ _ _ h]
      have : conv2 ((a, t) :: rest) accC.length = a :: conv2 rest accC.length := by
        cases a <;> cases t <;> first | rfl | (exact (hne _ _ _ rfl rfl).elim)
      rw [this]
      simp

/-- the converted arguments `Signature.apply` hands to the body are `argsOf sig raw`, whatever the database -/
theorem apply_args (s : Sig) (raw : List Bytes) (db : Db) {args : List Arg} {cis : List CI}
    (h : (s.apply raw db).2 = .ok (.ok args cis)) : argsOf s raw = some args := by
  unfold Sig.apply at h
  split at h
  · cases h
  · split at h
    · cases h
    · simp only at h
      split at h
      · cases h
      · cases h
      · rename_i db1 args1 heq
        split at h
        · cases h
        · rename_i db2 args' cis' heq2
          simp only [Except.ok.injEq, Sig.Applied.ok.injEq] at h
          obtain ⟨rfl, rfl⟩ := h
          obtain ⟨as, e, hk⟩ := pass1_conv (raw.zip (s.types raw.length)) db [] (args := args1) (by rw [heq])
          simp only [List.reverse_nil, List.nil_append] at e
          subst e
          have h2 := pass2_conv (args1.zip (s.types raw.length)) db1 [] [] (args := args') (cis := cis')
            (by rw [heq2])
          simp only [List.reverse_nil, List.nil_append, List.length_nil] at h2
          unfold argsOf
          rw [hk, Option.map_some, h2]

end FR.NotifyKeys
