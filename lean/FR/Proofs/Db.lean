import FR.Cmd.Run
/-!
# Helper lemmas about `Db` (lazy expiry) and the purge quotient

`NodupKeys` : a Python dict has unique keys.  Every database operation of the model preserves it, and
every operation respects the quotient "equal after `purge`" (lazy deletion is unobservable).
-/
namespace FR

/-- a Python dict has unique keys -/
def NodupKeys (d : Dict) : Prop := (d.map Prod.fst).Nodup

instance (d : Dict) : Decidable (NodupKeys d) := by unfold NodupKeys; infer_instance

/-- no stored value is an empty collection -/
def NoEmpty (d : Dict) : Prop := ∀ p ∈ d, p.2.value.isEmptyColl = false

namespace Db

/-! ## List level -/

theorem lookup_none_iff {d : Dict} {k : Bytes} : d.lookup k = none ↔ ∀ q ∈ d, q.1 ≠ k := by
  induction d with
  | nil => simp
  | cons x xs ih =>
    obtain ⟨k', it⟩ := x
    by_cases h : k = k'
    · subst h; simp
    · have h' : (k == k') = false := by simpa using h
      simp only [List.lookup_cons, h', ih, List.mem_cons, forall_eq_or_imp]
      constructor
      · intro hh; exact ⟨fun e => h e.symm, hh⟩
      · intro hh; exact hh.2

theorem lookup_some_mem {d : Dict} {k : Bytes} {it : Item} (h : d.lookup k = some it) : (k, it) ∈ d := by
  induction d with
  | nil => simp at h
  | cons x xs ih =>
    obtain ⟨k', it'⟩ := x
    by_cases hk : k = k'
    · subst hk; simp at h; subst h; simp
    · have h' : (k == k') = false := by simpa using hk
      simp only [List.lookup_cons, h'] at h
      exact List.mem_cons_of_mem _ (ih h)

theorem nodup_cons {x : Bytes × Item} {xs : Dict} :
    NodupKeys (x :: xs) ↔ (∀ q ∈ xs, q.1 ≠ x.1) ∧ NodupKeys xs := by
  unfold NodupKeys
  rw [List.map_cons, List.nodup_cons]
  constructor
  · rintro ⟨h1, h2⟩
    exact ⟨fun q hq e => h1 (List.mem_map.2 ⟨q, hq, e⟩), h2⟩
  · rintro ⟨h1, h2⟩
    refine ⟨fun hm => ?_, h2⟩
    obtain ⟨q, hq, e⟩ := List.mem_map.1 hm
    exact h1 q hq e

/-- with unique keys, `lookup` finds the only entry of that key -/
theorem nodup_unique {d : Dict} {k : Bytes} {it : Item} (nd : NodupKeys d) (h : d.lookup k = some it) :
    ∀ q ∈ d, q.1 = k → q = (k, it) := by
  induction d with
  | nil => simp at h
  | cons x xs ih =>
    obtain ⟨k', it'⟩ := x
    rw [nodup_cons] at nd
    by_cases hk : k = k'
    · subst hk
      simp at h; subst h
      intro q hq hqk
      rcases List.mem_cons.1 hq with rfl | hq
      · rfl
      · exact absurd hqk (nd.1 q hq)
    · have h' : (k == k') = false := by simpa using hk
      simp only [List.lookup_cons, h'] at h
      intro q hq hqk
      rcases List.mem_cons.1 hq with rfl | hq
      · exact absurd hqk.symm hk
      · exact ih nd.2 h q hq hqk

theorem nodup_sublist {d d' : Dict} (h : d'.Sublist d) (nd : NodupKeys d) : NodupKeys d' :=
  List.Nodup.sublist (h.map Prod.fst) nd

theorem nodup_filter {d : Dict} (p : Bytes × Item → Bool) (nd : NodupKeys d) : NodupKeys (d.filter p) :=
  nodup_sublist List.filter_sublist nd

theorem nodup_erase {d : Dict} (k : Bytes) (nd : NodupKeys d) : NodupKeys (erase d k) :=
  nodup_filter _ nd

theorem lookup_filter {d : Dict} (p : Bytes × Item → Bool) (k : Bytes) (nd : NodupKeys d) :
    (d.filter p).lookup k =
      match d.lookup k with
      | none => none
      | some it => if p (k, it) then some it else none := by
  induction d with
  | nil => simp
  | cons x xs ih =>
    obtain ⟨k', it'⟩ := x
    rw [nodup_cons] at nd
    by_cases hk : k = k'
    · subst hk
      simp only [List.lookup_cons, beq_self_eq_true, List.filter_cons]
      by_cases hp : p (k, it') = true
      · simp [hp]
      · simp only [hp, if_false, Bool.false_eq_true]
        rw [lookup_none_iff]
        intro q hq
        exact nd.1 q (List.mem_filter.1 hq).1
    · have h' : (k == k') = false := by simpa using hk
      simp only [List.lookup_cons, h', List.filter_cons]
      by_cases hp : p (k', it') = true
      · simp only [hp, if_true, List.lookup_cons, h']; exact ih nd.2
      · simp only [hp, if_false, Bool.false_eq_true]; exact ih nd.2

theorem erase_filter_comm (p : Bytes × Item → Bool) (d : Dict) (k : Bytes) :
    erase (d.filter p) k = (erase d k).filter p := by
  unfold erase
  simp only [List.filter_filter]
  congr 1; funext q; exact Bool.and_comm _ _

theorem erase_of_lookup_none {d : Dict} {k : Bytes} (h : d.lookup k = none) : erase d k = d := by
  rw [lookup_none_iff] at h
  unfold erase
  rw [List.filter_eq_self]
  intro q hq; simpa using h q hq

theorem erase_erase (d : Dict) (k : Bytes) : erase (erase d k) k = erase d k := by
  unfold erase; simp [List.filter_filter]

theorem lookup_erase_self (d : Dict) (k : Bytes) : (erase d k).lookup k = none := by
  rw [lookup_none_iff]; intro q hq
  have := (List.mem_filter.1 hq).2
  simpa using this

theorem lookup_erase_ne {d : Dict} {k k' : Bytes} (h : k ≠ k') : (erase d k').lookup k = d.lookup k := by
  induction d with
  | nil => rfl
  | cons x xs ih =>
    obtain ⟨k2, it2⟩ := x
    unfold erase at ih ⊢
    simp only [List.filter_cons]
    by_cases h2 : k2 = k'
    · subst h2
      have : (k == k2) = false := by simpa using h
      simp [List.lookup_cons, this, ih]
    · have : (k2 != k') = true := by simpa using h2
      simp only [this, if_true, List.lookup_cons, ih]

theorem mem_erase {d : Dict} {k : Bytes} {q : Bytes × Item} (h : q ∈ erase d k) : q ∈ d :=
  (List.mem_filter.1 h).1

/-! ### `setRaw` -/

theorem any_key_iff {d : Dict} {k : Bytes} : d.any (fun p => p.1 == k) = true ↔ ∃ q ∈ d, q.1 = k := by
  rw [List.any_eq_true]
  constructor
  · rintro ⟨q, hq, e⟩; exact ⟨q, hq, by simpa using e⟩
  · rintro ⟨q, hq, e⟩; exact ⟨q, hq, by simpa using e⟩

theorem any_key_false_iff {d : Dict} {k : Bytes} : d.any (fun p => p.1 == k) = false ↔ ∀ q ∈ d, q.1 ≠ k := by
  rw [← Bool.not_eq_true, any_key_iff]
  constructor
  · intro h q hq e; exact h ⟨q, hq, e⟩
  · rintro h ⟨q, hq, e⟩; exact h q hq e

theorem map_fst_setRaw_map (d : Dict) (k : Bytes) (it : Item) :
    (d.map (fun p => if p.1 == k then (k, it) else p)).map Prod.fst = d.map Prod.fst := by
  rw [List.map_map]
  apply List.map_congr_left
  intro q _
  simp only [Function.comp]
  by_cases h : q.1 = k
  · simp [h]
  · have : (q.1 == k) = false := by simpa using h
    simp [this]

theorem nodup_setRaw {d : Dict} (k : Bytes) (it : Item) (nd : NodupKeys d) : NodupKeys (setRaw d k it) := by
  unfold setRaw
  split
  · unfold NodupKeys; rw [map_fst_setRaw_map]; exact nd
  · rename_i h
    have h := any_key_false_iff.1 (Bool.not_eq_true _ ▸ h)
    unfold NodupKeys at nd ⊢
    rw [List.map_append, List.nodup_append]
    refine ⟨nd, by simp, ?_⟩
    intro a ha b hb
    have hb : b = k := by simpa using hb
    subst hb
    obtain ⟨q, hq, rfl⟩ := List.mem_map.1 ha
    exact h q hq

theorem mem_setRaw {d : Dict} {k : Bytes} {it : Item} {q : Bytes × Item} (h : q ∈ setRaw d k it) :
    q ∈ d ∨ q = (k, it) := by
  unfold setRaw at h
  split at h
  · obtain ⟨q', hq', rfl⟩ := List.mem_map.1 h
    split
    · right; rfl
    · left; exact hq'
  · rcases List.mem_append.1 h with h | h
    · left; exact h
    · right; simpa using h

theorem filter_map_set {d : Dict} (p : Bytes × Item → Bool) (k : Bytes) (it : Item)
    (h : ∀ q ∈ d, q.1 = k → p q = true) :
    (d.map (fun q => if q.1 == k then (k, it) else q)).filter p =
      ((d.filter p).map (fun q => if q.1 == k then (k, it) else q)).filter p := by
  induction d with
  | nil => rfl
  | cons x xs ih =>
    have ih := ih (fun q hq => h q (List.mem_cons_of_mem _ hq))
    by_cases hx : x.1 = k
    · have hp := h x (by simp) hx
      have hx' : (x.1 == k) = true := by simpa using hx
      simp only [List.filter_cons, hp, if_true, List.map_cons, hx']
      rw [ih]
    · have hx' : (x.1 == k) = false := by simpa using hx
      by_cases hp : p x = true
      · simp only [List.filter_cons, hp, if_true, List.map_cons, hx', if_false, Bool.false_eq_true]
        rw [ih]
      · simp only [List.filter_cons, hp, if_false, List.map_cons, hx', Bool.false_eq_true]
        rw [ih]

/-- filtering commutes with `setRaw` provided every entry of that key passes the filter -/
theorem filter_setRaw {d : Dict} (p : Bytes × Item → Bool) (k : Bytes) (it : Item)
    (h : ∀ q ∈ d, q.1 = k → p q = true) :
    (setRaw d k it).filter p = (setRaw (d.filter p) k it).filter p := by
  have hany : (d.filter p).any (fun q => q.1 == k) = d.any (fun q => q.1 == k) := by
    rw [Bool.eq_iff_iff, any_key_iff, any_key_iff]
    constructor
    · rintro ⟨q, hq, e⟩; exact ⟨q, (List.mem_filter.1 hq).1, e⟩
    · rintro ⟨q, hq, e⟩; exact ⟨q, List.mem_filter.2 ⟨hq, h q hq e⟩, e⟩
  unfold setRaw
  rw [hany]
  split
  · exact filter_map_set p k it h
  · simp only [List.filter_append, List.filter_filter, Bool.and_self]

theorem lookup_map_set_ne {d : Dict} {k k' : Bytes} (it : Item) (h : k ≠ k') :
    (d.map (fun q => if q.1 == k' then (k', it) else q)).lookup k = d.lookup k := by
  have hb : (k == k') = false := by simpa using h
  induction d with
  | nil => rfl
  | cons x xs ih =>
    obtain ⟨k2, it2⟩ := x
    simp only [List.map_cons]
    by_cases h2 : k2 = k'
    · subst h2; simp only [beq_self_eq_true, if_true, List.lookup_cons, hb, ih]
    · have : (k2 == k') = false := by simpa using h2
      simp only [this, if_false, Bool.false_eq_true, List.lookup_cons, ih]

theorem lookup_setRaw_ne {d : Dict} {k k' : Bytes} (it : Item) (h : k ≠ k') :
    (setRaw d k' it).lookup k = d.lookup k := by
  have hb : (k == k') = false := by simpa using h
  unfold setRaw
  split
  · exact lookup_map_set_ne it h
  · rw [List.lookup_append]
    simp [List.lookup_cons, hb]

/-! ## `Db` level -/

@[simp] theorem purge_time (db : Db) : (purge db).time = db.time := rfl
@[simp] theorem purge_dict (db : Db) : (purge db).dict = db.dict.filter (fun p => !db.expired p.2) := rfl

theorem expired_time {a b : Db} (h : a.time = b.time) : a.expired = b.expired := by
  funext it; unfold expired; rw [h]

theorem get_time (db : Db) (k : Bytes) : (db.get k).1.time = db.time := by
  unfold get; split
  · rfl
  · split <;> rfl

theorem get_nodup {db : Db} (k : Bytes) (nd : NodupKeys db.dict) : NodupKeys (db.get k).1.dict := by
  unfold get; split
  · exact nd
  · split
    · exact nodup_erase k nd
    · exact nd

/-- the result of a lazy lookup is the lookup in the purged database -/
theorem get_result {db : Db} (k : Bytes) (nd : NodupKeys db.dict) :
    (db.get k).2 = (purge db).dict.lookup k := by
  rw [purge_dict, lookup_filter _ k nd]
  unfold get
  cases h : db.dict.lookup k with
  | none => rfl
  | some it =>
    simp only
    by_cases he : db.expired it = true <;> simp [he]

/-- lazy deletion is invisible after `purge` -/
theorem get_purge {db : Db} (k : Bytes) (nd : NodupKeys db.dict) : purge (db.get k).1 = purge db := by
  unfold get
  cases h : db.dict.lookup k with
  | none => rfl
  | some it =>
    simp only
    by_cases he : db.expired it = true
    · simp only [he, if_true]
      unfold purge
      simp only [Db.mk.injEq, and_true]
      show (erase db.dict k).filter (fun p => !db.expired p.2) = _
      rw [← erase_filter_comm]
      apply erase_of_lookup_none
      rw [lookup_filter _ k nd, h]
      simp [he]
    · simp [he]

theorem get_mem {db : Db} {k : Bytes} {it : Item} (h : (db.get k).2 = some it) : (k, it) ∈ db.dict := by
  unfold get at h
  cases h' : db.dict.lookup k with
  | none => simp [h'] at h
  | some it' =>
    simp only [h'] at h
    split at h
    · simp at h
    · simp at h; subst h; exact lookup_some_mem h'

theorem get_dict_sub {db : Db} {k : Bytes} {q : Bytes × Item} (h : q ∈ (db.get k).1.dict) : q ∈ db.dict := by
  unfold get at h
  split at h
  · exact h
  · split at h
    · exact mem_erase h
    · exact h

/-- after `get k`, every remaining entry of key `k` is live -/
theorem get_live {db : Db} (k : Bytes) (nd : NodupKeys db.dict) :
    ∀ q ∈ (db.get k).1.dict, q.1 = k → (!(db.get k).1.expired q.2) = true := by
  have ht : (db.get k).1.expired = db.expired := expired_time (get_time db k)
  rw [ht]
  unfold get
  cases h : db.dict.lookup k with
  | none =>
    simp only
    intro q hq e; exact absurd e (lookup_none_iff.1 h q hq)
  | some it =>
    simp only
    by_cases he : db.expired it = true
    · simp only [he, if_true]
      intro q hq e
      have := lookup_none_iff.1 (lookup_erase_self db.dict k) q hq
      exact absurd e this
    · simp only [he, if_false, Bool.false_eq_true]
      intro q hq e
      have := nodup_unique nd h q hq e
      subst this
      simpa using he

theorem purge_idem (db : Db) : purge (purge db) = purge db := by
  unfold purge
  simp only [Db.mk.injEq, and_true, List.filter_filter]
  congr 1; funext q
  show (!db.expired q.2 && !db.expired q.2) = _
  exact Bool.and_self _

theorem purge_nodup {db : Db} (nd : NodupKeys db.dict) : NodupKeys (purge db).dict :=
  nodup_filter _ nd

/-- `pop` is plain deletion -/
theorem pop_eq (db : Db) (k : Bytes) : db.pop k = { db with dict := erase db.dict k } := by
  unfold pop get
  cases h : db.dict.lookup k with
  | none => simp only; rw [erase_of_lookup_none h]
  | some it =>
    simp only
    by_cases he : db.expired it = true
    · simp only [he, if_true]
    · simp only [he, if_false, Bool.false_eq_true]

theorem pop_time (db : Db) (k : Bytes) : (db.pop k).time = db.time := by rw [pop_eq]

theorem pop_nodup {db : Db} (k : Bytes) (nd : NodupKeys db.dict) : NodupKeys (db.pop k).dict := by
  rw [pop_eq]; exact nodup_erase k nd

theorem pop_purge (db : Db) (k : Bytes) :
    purge (db.pop k) = { purge db with dict := erase (purge db).dict k } := by
  rw [pop_eq]
  unfold purge
  simp only [Db.mk.injEq, and_true]
  exact (erase_filter_comm _ _ _).symm

theorem put_time (db : Db) (k : Bytes) (v : Value) (e : Option Int) : (db.put k v e).time = db.time := by
  unfold put; exact get_time db k

theorem put_nodup {db : Db} (k : Bytes) (v : Value) (e : Option Int) (nd : NodupKeys db.dict) :
    NodupKeys (db.put k v e).dict := by
  unfold put; exact nodup_setRaw _ _ (get_nodup k nd)

/-- `setRaw` commutes with `purge` when every entry of that key is live -/
theorem setRaw_purge {db : Db} (k : Bytes) (it : Item)
    (h : ∀ q ∈ db.dict, q.1 = k → (!db.expired q.2) = true) :
    purge { db with dict := setRaw db.dict k it } =
      purge { purge db with dict := setRaw (purge db).dict k it } := by
  unfold purge
  simp only [Db.mk.injEq, and_true]
  exact filter_setRaw (fun p => !db.expired p.2) k it h

theorem put_purge {db : Db} (k : Bytes) (v : Value) (e : Option Int) (nd : NodupKeys db.dict) :
    purge (db.put k v e) = purge { purge db with dict := setRaw (purge db).dict k ⟨v, e⟩ } := by
  unfold put
  simp only
  rw [setRaw_purge k ⟨v, e⟩ (get_live k nd), get_purge k nd]

/-! ## The purge quotient -/

/-- two databases with unique keys that agree after `purge` -/
structure Sim (a b : Db) : Prop where
  nd1 : NodupKeys a.dict
  nd2 : NodupKeys b.dict
  eq : purge a = purge b

theorem Sim.time {a b : Db} (h : Sim a b) : a.time = b.time := by
  have := congrArg Db.time h.eq
  simpa using this

theorem Sim.refl {a : Db} (nd : NodupKeys a.dict) : Sim a a := ⟨nd, nd, rfl⟩
theorem Sim.symm {a b : Db} (h : Sim a b) : Sim b a := ⟨h.nd2, h.nd1, h.eq.symm⟩
theorem Sim.trans {a b c : Db} (h : Sim a b) (h' : Sim b c) : Sim a c := ⟨h.nd1, h'.nd2, h.eq.trans h'.eq⟩

theorem Sim.purge_right {a : Db} (nd : NodupKeys a.dict) : Sim a (purge a) :=
  ⟨nd, purge_nodup nd, (purge_idem a).symm⟩

theorem Sim.get {a b : Db} (h : Sim a b) (k : Bytes) :
    (a.get k).2 = (b.get k).2 ∧ Sim (a.get k).1 (b.get k).1 := by
  refine ⟨?_, get_nodup k h.nd1, get_nodup k h.nd2, ?_⟩
  · rw [get_result k h.nd1, get_result k h.nd2, h.eq]
  · rw [get_purge k h.nd1, get_purge k h.nd2, h.eq]

theorem Sim.pop {a b : Db} (h : Sim a b) (k : Bytes) : Sim (a.pop k) (b.pop k) := by
  refine ⟨pop_nodup k h.nd1, pop_nodup k h.nd2, ?_⟩
  rw [pop_purge, pop_purge, h.eq]

theorem Sim.put {a b : Db} (h : Sim a b) (k : Bytes) (v : Value) (e : Option Int) :
    Sim (a.put k v e) (b.put k v e) := by
  refine ⟨put_nodup k v e h.nd1, put_nodup k v e h.nd2, ?_⟩
  rw [put_purge k v e h.nd1, put_purge k v e h.nd2, h.eq]

/-- the dead `expMod ∧ ¬modified` branch of `writeback` -/
theorem Sim.setAfterGet {a b : Db} (h : Sim a b) (k : Bytes) (it : Item) :
    Sim { (a.get k).1 with dict := setRaw (a.get k).1.dict k it }
        { (b.get k).1 with dict := setRaw (b.get k).1.dict k it } := by
  refine ⟨nodup_setRaw _ _ (get_nodup k h.nd1), nodup_setRaw _ _ (get_nodup k h.nd2), ?_⟩
  rw [setRaw_purge k it (get_live k h.nd1), setRaw_purge k it (get_live k h.nd2),
    get_purge k h.nd1, get_purge k h.nd2, h.eq]

end Db

/-! ## `writeback` -/
namespace CI

theorem writeback_nodup (c : CI) {db : Db} (nd : NodupKeys db.dict) : NodupKeys (c.writeback db).1.dict := by
  unfold writeback
  split
  · split
    · exact Db.pop_nodup _ nd
    · split
      · exact Db.pop_nodup _ nd
      · exact Db.put_nodup _ _ _ nd
  · split
    · split
      · rename_i db' it heq
        have : db' = (db.get c.key).1 := by rw [heq]
        subst this
        exact Db.nodup_setRaw _ _ (Db.get_nodup _ nd)
      · rename_i db' heq
        have : db' = (db.get c.key).1 := by rw [heq]
        subst this
        exact Db.get_nodup _ nd
    · exact nd

theorem writeback_time (c : CI) (db : Db) : (c.writeback db).1.time = db.time := by
  unfold writeback
  split
  · split
    · exact Db.pop_time _ _
    · split
      · exact Db.pop_time _ _
      · exact Db.put_time _ _ _ _
  · split
    · split
      · rename_i db' it heq
        have : db' = (db.get c.key).1 := by rw [heq]
        subst this
        exact Db.get_time _ _
      · rename_i db' heq
        have : db' = (db.get c.key).1 := by rw [heq]
        subst this
        exact Db.get_time _ _
    · rfl

/-- `notify_watch` is called exactly when the item is `modified` -/
theorem writeback_flag (c : CI) (db : Db) : (c.writeback db).2 = c.modified := by
  unfold writeback
  split
  · rename_i h; rw [h]
    split
    · rfl
    · split <;> rfl
  · rename_i h
    have h : c.modified = false := by simpa using h
    rw [h]
    split
    · split <;> rfl
    · rfl

theorem writeback_unmodified {c : CI} (h1 : c.modified = false) (h2 : c.expMod = false) (db : Db) :
    c.writeback db = (db, false) := by
  unfold writeback; simp [h1, h2]

/-- `writeback` respects the purge quotient -/
theorem writeback_sim (c : CI) {a b : Db} (h : Db.Sim a b) :
    Db.Sim (c.writeback a).1 (c.writeback b).1 ∧ (c.writeback a).2 = (c.writeback b).2 := by
  refine ⟨?_, by rw [writeback_flag, writeback_flag]⟩
  unfold writeback
  split
  · split
    · exact h.pop _
    · split
      · exact h.pop _
      · exact h.put _ _ _
  · split
    · have hg := h.get c.key
      have hs := fun it => h.setAfterGet c.key it
      revert hg hs
      generalize a.get c.key = ra
      generalize b.get c.key = rb
      obtain ⟨a', ia⟩ := ra
      obtain ⟨b', ib⟩ := rb
      simp only
      rintro ⟨rfl, hs'⟩ hs
      cases ia with
      | none => exact hs'
      | some it => exact hs _
    · exact h

theorem writeback_noEmpty (c : CI) {db : Db} (ne : NoEmpty db.dict) : NoEmpty (c.writeback db).1.dict := by
  have hpop : ∀ k, NoEmpty (db.pop k).dict := by
    intro k q hq; rw [Db.pop_eq] at hq; exact ne q (Db.mem_erase hq)
  unfold writeback
  split
  · split
    · exact hpop _
    · split
      · exact hpop _
      · rename_i v hv
        intro q hq
        unfold Db.put at hq
        rcases Db.mem_setRaw hq with hq | rfl
        · exact ne q (Db.get_dict_sub hq)
        · simpa using hv
  · split
    · split
      · rename_i db' it heq
        have e1 : db' = (db.get c.key).1 := by rw [heq]
        have e2 : (db.get c.key).2 = some it := by rw [heq]
        subst e1
        intro q hq
        rcases Db.mem_setRaw hq with hq | rfl
        · exact ne q (Db.get_dict_sub hq)
        · exact ne (c.key, it) (Db.get_mem e2)  -- same value, new deadline
      · rename_i db' heq
        have e1 : db' = (db.get c.key).1 := by rw [heq]
        subst e1
        intro q hq; exact ne q (Db.get_dict_sub hq)
    · exact ne

end CI

end FR
