import FR.Proofs.Runner
import FR.Proofs.System
import FR.Proofs.Decimal
/-!
# Helper lemmas for the TTL rules (C07, second half)

* `Db.live` after `put` / `pop` / `CI.writeback` / `writebackPure` (exact formula `wbFold`)
* `Sig.apply` as a pure function of the live view (`applyL`)
* `runRegular` at the live level (`run_ok`, `run_err`)
* the shapes of `applyL` for the real signatures
-/
namespace FR.Ttl
open FR FR.Db

/-! ## A. the live entry after the database operations -/

/-- an entry is visible unless its deadline lies strictly before the clock `t` -/
def keepLive (t : Int) (it : Item) : Option Item :=
  match it.expireat with
  | none => some it
  | some e => if e < t then none else some it

theorem keepLive_eq (db : Db) (it : Item) :
    keepLive db.time it = if db.expired it then none else some it := by
  unfold keepLive Db.expired
  cases it.expireat with
  | none => simp
  | some e => by_cases h : e < db.time <;> simp [h]

theorem keepLive_none (t : Int) (v : Value) : keepLive t ⟨v, none⟩ = some ⟨v, none⟩ := rfl

theorem keepLive_future {t e : Int} (v : Value) (h : t ≤ e) : keepLive t ⟨v, some e⟩ = some ⟨v, some e⟩ := by
  unfold keepLive
  have : ¬ e < t := by omega
  simp [this]

theorem lookup_map_set_self (d : Dict) (k : Bytes) (it : Item) (h : d.any (fun p => p.1 == k) = true) :
    (d.map (fun q => if q.1 == k then (k, it) else q)).lookup k = some it := by
  induction d with
  | nil => simp at h
  | cons x xs ih =>
    obtain ⟨k2, it2⟩ := x
    simp only [List.map_cons]
    by_cases h2 : k2 = k
    · subst h2; simp
    · have hb : (k2 == k) = false := by simpa using h2
      have hb' : (k == k2) = false := by simpa using (Ne.symm h2)
      simp only [hb, if_false, Bool.false_eq_true, List.lookup_cons, hb']
      apply ih
      simpa [List.any_cons, hb] using h

theorem lookup_setRaw_self (d : Dict) (k : Bytes) (it : Item) : (setRaw d k it).lookup k = some it := by
  unfold setRaw
  split
  · rename_i h; exact lookup_map_set_self d k it h
  · rename_i h
    have h : d.any (fun p => p.1 == k) = false := Bool.not_eq_true _ ▸ h
    have hn : d.lookup k = none := lookup_none_iff.2 (any_key_false_iff.1 h)
    rw [List.lookup_append, hn]
    simp

/-- the live entry of `k` after `d[k] = it` when every stored entry of `k` is live -/
theorem live_setRaw_self {db : Db} (nd : NodupKeys db.dict) (k : Bytes) (it : Item)
    (h : ∀ q ∈ db.dict, q.1 = k → (!db.expired q.2) = true) :
    Db.live { db with dict := setRaw db.dict k it } k = keepLive db.time it := by
  unfold Db.live
  rw [setRaw_purge k it h]
  show (List.filter (fun p => !db.expired p.2) (setRaw (purge db).dict k it)).lookup k = _
  rw [lookup_filter _ k (nodup_setRaw k it (purge_nodup nd)), lookup_setRaw_self, keepLive_eq]
  simp only
  cases db.expired it <;> simp

theorem live_put_self {db : Db} (nd : NodupKeys db.dict) (k : Bytes) (v : Value) (e : Option Int) :
    (db.put k v e).live k = keepLive db.time ⟨v, e⟩ := by
  unfold Db.put
  simp only
  have h := live_setRaw_self (get_nodup k nd) k ⟨v, e⟩ (get_live k nd)
  rw [get_time] at h
  rw [← h, get_time]

theorem live_pop_self (db : Db) (k : Bytes) : (db.pop k).live k = none := by
  unfold Db.live; rw [pop_purge]; exact lookup_erase_self _ k

theorem get_snd_live {db : Db} (nd : NodupKeys db.dict) (k : Bytes) : (db.get k).2 = db.live k :=
  get_result k nd

/-- effect of one written-back `CommandItem` on the live entry of its own key -/
def wbLive (t : Int) (c : CI) (cur : Option Item) : Option Item :=
  if c.modified then
    match c.val with
    | none => none
    | some v => if v.isEmptyColl then none else keepLive t ⟨v, c.expireat⟩
  else if c.expMod then cur.bind fun it => keepLive t { it with expireat := c.expireat }
  else cur

theorem writeback_live_self (c : CI) {db : Db} (nd : NodupKeys db.dict) :
    (c.writeback db).1.live c.key = wbLive db.time c (db.live c.key) := by
  obtain ⟨key, val, ex, m, em⟩ := c
  cases m with
  | true =>
    cases val with
    | none => simp only [CI.writeback, wbLive, if_true]; exact live_pop_self _ _
    | some v =>
      simp only [CI.writeback, wbLive, if_true]
      cases hv : v.isEmptyColl
      · simp only [Bool.false_eq_true, if_false]; exact live_put_self nd _ _ _
      · simp only [if_true]; exact live_pop_self _ _
  | false =>
    cases em with
    | false => simp only [CI.writeback, wbLive, Bool.false_eq_true, if_false]
    | true =>
      simp only [CI.writeback, wbLive, Bool.false_eq_true, if_false, if_true]
      have hg := get_snd_live nd key
      have hl := live_setRaw_self (get_nodup key nd) key
      have hl' := fun it => hl it (get_live key nd)
      have hlg := live_get nd key key
      have ht := get_time db key
      revert hg hl' hlg ht
      generalize db.get key = g
      obtain ⟨db', r⟩ := g
      simp only
      intro hg hl' hlg ht
      cases r with
      | some it => simp only; rw [hl', ← hg, ht]; rfl
      | none => simp only; rw [hlg, ← hg]; rfl

/-- effect of a list of `CommandItem`s, written back in order, on the live entry of `k` -/
def wbFold (t : Int) (k : Bytes) (cis : List CI) (cur : Option Item) : Option Item :=
  cis.foldl (fun cur c => if c.key = k then wbLive t c cur else cur) cur

theorem wbFold_nil (t k cur) : wbFold t k [] cur = cur := rfl
theorem wbFold_cons (t k) (c : CI) (cs cur) :
    wbFold t k (c :: cs) cur = wbFold t k cs (if c.key = k then wbLive t c cur else cur) := rfl

theorem writebackPure_live_eq (cis : List CI) {db : Db} (nd : NodupKeys db.dict) (k : Bytes) :
    (writebackPure db cis).1.live k = wbFold db.time k cis (db.live k) := by
  induction cis generalizing db with
  | nil => rfl
  | cons c cs ih =>
    rw [writebackPure_cons, wbFold_cons]
    simp only
    rw [ih (c.writeback_nodup nd), c.writeback_time]
    congr 1
    by_cases h : c.key = k
    · subst h; simp only [if_true]; exact writeback_live_self c nd
    · simp only [h, if_false]; exact c.writeback_live_ne nd (Ne.symm h)

theorem wbLive_clean {c : CI} (h : c.Clean) (t cur) : wbLive t c cur = cur := by
  unfold wbLive; simp [h.1, h.2]

theorem wbFold_other (t : Int) (k : Bytes) (cis : List CI) (cur : Option Item)
    (h : ∀ c ∈ cis, c.key = k → c.Clean) : wbFold t k cis cur = cur := by
  induction cis generalizing cur with
  | nil => rfl
  | cons c cs ih =>
    rw [wbFold_cons, ih _ (fun c' hc' => h c' (by simp [hc']))]
    split
    · rename_i hk; exact wbLive_clean (h c (by simp) hk) _ _
    · rfl

theorem live_eq_fun {db out : Db} (r : Reads db out) : out.live = db.live :=
  funext (live_eq_of_purge r.eq)

/-! ## B. `Signature.apply` as a pure function of the live view -/

theorem live_get_fun {db : Db} (nd : NodupKeys db.dict) (k' : Bytes) : (db.get k').1.live = db.live :=
  funext (live_get nd k')

def pass1L (live : Bytes → Option Item) : List (Bytes × ArgTy) → List Arg → Except Err (Sum Reply (List Arg))
  | [], acc => .ok (.inr acc.reverse)
  | (b, t) :: rest, acc =>
    match t with
    | .key _ mr =>
      if mr != .unspecified then
        match live b with
        | none => .ok (.inl (Sig.missingReply mr))
        | some _ => pass1L live rest (.raw b :: acc)
      else pass1L live rest (.raw b :: acc)
    | _ =>
      match Conv.decode t b with
      | .error e => .error e
      | .ok a => pass1L live rest (a :: acc)

def pass2L (live : Bytes → Option Item) : List (Arg × ArgTy) → List Arg → List CI → Except Err (List Arg × List CI)
  | [], accA, accC => .ok (accA.reverse, accC.reverse)
  | (a, t) :: rest, accA, accC =>
    match t, a with
    | .key ty _, .raw k =>
      match ty, live k with
      | some ty, some it =>
        if it.value.ty != ty then .error Msgs.WRONGTYPE_MSG
        else pass2L live rest (.key accC.length :: accA) (⟨k, some it.value, it.expireat, false, false⟩ :: accC)
      | some ty, none =>
        pass2L live rest (.key accC.length :: accA) (⟨k, ty.default, none, false, false⟩ :: accC)
      | none, some it =>
        pass2L live rest (.key accC.length :: accA) (⟨k, some it.value, it.expireat, false, false⟩ :: accC)
      | none, none =>
        pass2L live rest (.key accC.length :: accA) (⟨k, none, none, false, false⟩ :: accC)
    | _, _ => pass2L live rest (a :: accA) accC

/-- `Signature.apply` on the live view -/
def applyL (live : Bytes → Option Item) (s : Sig) (raw : List Bytes) : Except Err Sig.Applied :=
  if !s.checkArity raw.length then .error s.wrongArgs
  else if !s.rep.isEmpty && (raw.length - s.fixed.length) % s.rep.length != 0 then .error s.wrongArgs
  else
    match pass1L live (raw.zip (s.types raw.length)) [] with
    | .error e => .error e
    | .ok (.inl r) => .ok (.short r)
    | .ok (.inr args) =>
      match pass2L live (args.zip (s.types raw.length)) [] [] with
      | .error e => .error e
      | .ok (args', cis) => .ok (.ok args' cis)

theorem pass1_eq (l : List (Bytes × ArgTy)) {db : Db} (nd : NodupKeys db.dict) (acc : List Arg) :
    (Sig.pass1 db l acc).2 = pass1L db.live l acc := by
  induction l generalizing db acc with
  | nil => rfl
  | cons x rest ih =>
    obtain ⟨b, t⟩ := x
    cases t
    case key ty mr =>
      simp only [Sig.pass1, pass1L]
      split
      · have hg := get_snd_live nd b
        have hn := get_nodup b nd
        have hl := live_get_fun nd b
        revert hg hn hl
        generalize db.get b = g
        obtain ⟨db', r⟩ := g
        simp only
        intro hg hn hl
        rw [← hg]
        cases r with
        | none => rfl
        | some it => simp only; rw [ih hn, hl]
      · exact ih nd _
    all_goals
      simp only [Sig.pass1, pass1L]
      generalize Conv.decode _ b = dc
      cases dc with
      | error e => rfl
      | ok a => exact ih nd _

theorem pass2_eq (l : List (Arg × ArgTy)) {db : Db} (nd : NodupKeys db.dict) (accA : List Arg) (accC : List CI) :
    (Sig.pass2 db l accA accC).2 = pass2L db.live l accA accC := by
  induction l generalizing db accA accC with
  | nil => rfl
  | cons x rest ih =>
    obtain ⟨a, t⟩ := x
    unfold Sig.pass2 pass2L
    split
    · rename_i ty mr k
      have hg := get_snd_live nd k
      have hn := get_nodup k nd
      have hl := live_get_fun nd k
      revert hg hn hl
      generalize db.get k = g
      obtain ⟨db', r⟩ := g
      simp only
      intro hg hn hl
      rw [← hg]
      cases ty <;> cases r <;> simp only
      · rw [ih hn, hl]
      · rw [ih hn, hl]
      · rw [ih hn, hl]
      · split
        · rfl
        · rw [ih hn, hl]
    · rename_i hne
      split
      · rename_i ty mr k; exact (hne ty mr k rfl rfl).elim
      · exact ih nd _ _

theorem apply_eq (s : Sig) (raw : List Bytes) {db : Db} (nd : NodupKeys db.dict) :
    (s.apply raw db).2 = applyL db.live s raw := by
  unfold Sig.apply applyL
  split
  · rfl
  · split
    · rfl
    · simp only
      have h1 := pass1_eq (raw.zip (s.types raw.length)) nd []
      have r1 := Sig.pass1_reads (raw.zip (s.types raw.length)) nd []
      revert h1 r1
      generalize Sig.pass1 db (raw.zip (s.types raw.length)) [] = g
      obtain ⟨db1, x⟩ := g
      simp only
      intro h1 r1
      rw [← h1]
      cases x with
      | error e => rfl
      | ok sm =>
        cases sm with
        | inl r => rfl
        | inr args =>
          simp only
          have h2 := pass2_eq (args.zip (s.types raw.length)) r1.nd [] []
          rw [live_eq_fun r1] at h2
          revert h2
          generalize Sig.pass2 db1 (args.zip (s.types raw.length)) [] [] = g2
          obtain ⟨db2, y⟩ := g2
          simp only
          intro h2
          rw [← h2]
          cases y with
          | error e => rfl
          | ok pr => rfl

/-! ## C. `runRegular` at the live level -/

/-- the command ran: reply of the body; the live entry of every key is the old one transformed by the
returned `CommandItem`s of that key, in order -/
theorem run_ok (sig : Sig) (body : Body) (ctx : Ctx) (raw : List Bytes) {db : Db} (nd : NodupKeys db.dict)
    {args : List Arg} {cis : List CI} {o : BodyOut}
    (ha : applyL db.live sig raw = .ok (.ok args cis)) (hb : body ctx args cis = .ok o) :
    (runRegular sig body ctx none raw db).reply = o.reply ∧
    (runRegular sig body ctx none raw db).failed = false ∧
    ∀ k, (runRegular sig body ctx none raw db).db.live k = wbFold db.time k o.cis (db.live k) := by
  rw [runRegular_eq]
  have he := apply_eq sig raw nd
  have hr := Sig.apply_reads sig raw nd
  rw [ha] at he
  revert he hr
  generalize sig.apply raw db = g
  obtain ⟨db1, x⟩ := g
  simp only
  intro he hr
  subst he
  simp only [runTail, hb]
  refine ⟨trivial, trivial, fun k => ?_⟩
  rw [writebackPure_live_eq _ hr.nd, live_eq_fun hr]
  have : db1.time = db.time := by
    have := congrArg Db.time hr.eq
    simpa using this
  rw [this]

/-- the body raised: error reply, nothing is written -/
theorem run_body_err (sig : Sig) (body : Body) (ctx : Ctx) (raw : List Bytes) {db : Db} (nd : NodupKeys db.dict)
    {args : List Arg} {cis : List CI} {e : Err}
    (ha : applyL db.live sig raw = .ok (.ok args cis)) (hb : body ctx args cis = .error e) :
    (runRegular sig body ctx none raw db).reply = .err (strBytes e) ∧
    (runRegular sig body ctx none raw db).failed = true ∧
    Db.purge (runRegular sig body ctx none raw db).db = Db.purge db := by
  have hf : (runRegular sig body ctx none raw db).failed = true := by
    rw [runRegular_failed_iff]
    refine Or.inr ⟨args, cis, ?_, Or.inr ⟨e, hb⟩⟩
    rw [apply_eq sig raw nd, ha]
  refine ⟨?_, hf, (runRegular_failed sig body ctx none raw nd hf).1.eq⟩
  rw [runRegular_eq]
  have he := apply_eq sig raw nd
  rw [ha] at he
  revert he
  generalize sig.apply raw db = g
  obtain ⟨db1, x⟩ := g
  simp only
  intro he
  subst he
  simp only [runTail, hb]

/-- `Signature.apply` refused the arguments: error reply, nothing is written -/
theorem run_apply_err (sig : Sig) (body : Body) (ctx : Ctx) (raw : List Bytes) {db : Db} (nd : NodupKeys db.dict)
    {e : Err} (ha : applyL db.live sig raw = .error e) :
    (runRegular sig body ctx none raw db).reply = .err (strBytes e) ∧
    (runRegular sig body ctx none raw db).failed = true ∧
    Db.purge (runRegular sig body ctx none raw db).db = Db.purge db := by
  have hf : (runRegular sig body ctx none raw db).failed = true := by
    rw [runRegular_failed_iff]
    refine Or.inl ⟨e, ?_⟩
    rw [apply_eq sig raw nd, ha]
  refine ⟨?_, hf, (runRegular_failed sig body ctx none raw nd hf).1.eq⟩
  rw [runRegular_eq]
  have he := apply_eq sig raw nd
  rw [ha] at he
  revert he
  generalize sig.apply raw db = g
  obtain ⟨db1, x⟩ := g
  simp only
  intro he
  subst he
  rfl

theorem live_of_purge_eq {a b : Db} (h : Db.purge a = Db.purge b) (k : Bytes) : a.live k = b.live k :=
  live_eq_of_purge h k

/-! ## D. `applyL` for signatures whose only key is the first argument -/

def isKey : ArgTy → Bool
  | .key _ _ => true
  | _ => false

/-- convert the non-key arguments left to right; the first failure wins -/
def decodeAll : List (Bytes × ArgTy) → Except Err (List Arg)
  | [] => .ok []
  | (b, t) :: rest =>
    match Conv.decode t b with
    | .error e => .error e
    | .ok a =>
      match decodeAll rest with
      | .error e => .error e
      | .ok as => .ok (a :: as)

theorem decodeAll_length : ∀ (l : List (Bytes × ArgTy)) {as : List Arg}, decodeAll l = .ok as → as.length = l.length
  | [], as, h => by simp only [decodeAll, Except.ok.injEq] at h; subst h; rfl
  | (b, t) :: rest, as, h => by
    simp only [decodeAll] at h
    cases hd : Conv.decode t b with
    | error e => rw [hd] at h; cases h
    | ok a =>
      rw [hd] at h
      simp only at h
      cases hr : decodeAll rest with
      | error e => rw [hr] at h; cases h
      | ok as' =>
        rw [hr] at h
        simp only [Except.ok.injEq] at h
        subst h
        simp [decodeAll_length rest hr]

theorem pass1L_nonkey (live : Bytes → Option Item) (l : List (Bytes × ArgTy)) (acc : List Arg)
    (hl : ∀ p ∈ l, isKey p.2 = false) :
    pass1L live l acc =
      match decodeAll l with
      | .error e => .error e
      | .ok as => .ok (.inr (acc.reverse ++ as)) := by
  induction l generalizing acc with
  | nil => simp [pass1L, decodeAll]
  | cons x rest ih =>
    obtain ⟨b, t⟩ := x
    have ih := fun acc => ih acc (fun p hp => hl p (List.mem_cons_of_mem _ hp))
    have ht := hl (b, t) (by simp)
    cases t
    case key ty mr => simp [isKey] at ht
    all_goals
      simp only [pass1L, decodeAll]
      generalize Conv.decode _ b = dc
      cases dc with
      | error e => rfl
      | ok a =>
        simp only
        rw [ih]
        cases decodeAll rest with
        | error e => rfl
        | ok as => simp

theorem pass2L_nonkey (live : Bytes → Option Item) (l : List (Arg × ArgTy)) (accA : List Arg) (accC : List CI)
    (hl : ∀ p ∈ l, isKey p.2 = false) :
    pass2L live l accA accC = .ok (accA.reverse ++ l.map Prod.fst, accC.reverse) := by
  induction l generalizing accA with
  | nil => simp [pass2L]
  | cons x rest ih =>
    obtain ⟨a, t⟩ := x
    have ih := fun accA => ih accA (fun p hp => hl p (List.mem_cons_of_mem _ hp))
    have ht := hl (a, t) (by simp)
    unfold pass2L
    split
    · simp [isKey] at ht
    · rw [ih]; simp

def ciOf (ty : Option Ty) (k : Bytes) (item : Option Item) : CI :=
  match item with
  | some it => ⟨k, some it.value, it.expireat, false, false⟩
  | none => ⟨k, ty.bind Ty.default, none, false, false⟩

/-- the look-up of the single key: type check, then the `CommandItem` -/
def keyStep (ty : Option Ty) (k : Bytes) (item : Option Item) (as : List Arg) : Except Err Sig.Applied :=
  match ty, item with
  | some ty', some it =>
    if it.value.ty != ty' then .error Msgs.WRONGTYPE_MSG else .ok (.ok (.key 0 :: as) [ciOf ty k item])
  | _, _ => .ok (.ok (.key 0 :: as) [ciOf ty k item])

theorem types_tail (s : Sig) (t0 : ArgTy) (ftl : List ArgTy) (hfix : s.fixed = t0 :: ftl) (n : Nat) :
    s.types n = t0 :: (ftl ++ (List.range (n - s.fixed.length)).map (fun i => s.rep.getD (i % s.rep.length) .bytes)) := by
  unfold Sig.types; rw [hfix]; rfl

theorem getD_nonkey (rep : List ArgTy) (h2 : ∀ t ∈ rep, isKey t = false) (i : Nat) :
    isKey (rep.getD i .bytes) = false := by
  rw [List.getD_eq_getElem?_getD]
  cases h : rep[i]? with
  | none => rfl
  | some t => exact h2 t (List.mem_of_getElem? h)

theorem applyL_keyFirst (live : Bytes → Option Item) (s : Sig) (ty : Option Ty) (ftl : List ArgTy)
    (hfix : s.fixed = .key ty .unspecified :: ftl) (h1 : ∀ t ∈ ftl, isKey t = false)
    (h2 : ∀ t ∈ s.rep, isKey t = false) (k : Bytes) (rest : List Bytes)
    (har : s.checkArity (rest.length + 1) = true)
    (hrep : (!s.rep.isEmpty && (rest.length + 1 - s.fixed.length) % s.rep.length != 0) = false) :
    applyL live s (k :: rest) =
      match decodeAll (rest.zip (s.types (rest.length + 1)).tail) with
      | .error e => .error e
      | .ok as => keyStep ty k (live k) as := by
  unfold applyL
  simp only [List.length_cons, har, hrep, Bool.not_true, Bool.false_eq_true, if_false]
  rw [types_tail s _ ftl hfix]
  simp only [List.zip_cons_cons, List.tail_cons]
  generalize htl : ftl ++ (List.range (rest.length + 1 - s.fixed.length)).map
    (fun i => s.rep.getD (i % s.rep.length) .bytes) = tl
  have hnk : ∀ t ∈ tl, isKey t = false := by
    intro t ht
    rw [← htl] at ht
    rcases List.mem_append.1 ht with ht | ht
    · exact h1 t ht
    · obtain ⟨i, _, rfl⟩ := List.mem_map.1 ht
      exact getD_nonkey _ h2 _
  have hz : ∀ {α} (l : List α), ∀ p ∈ l.zip tl, isKey p.2 = false :=
    fun l p hp => hnk p.2 (List.of_mem_zip hp).2
  simp only [pass1L, bne_self_eq_false, Bool.false_eq_true, if_false]
  rw [pass1L_nonkey live _ _ (hz rest)]
  cases hd : decodeAll (rest.zip tl) with
  | error e => rfl
  | ok as =>
    have hlen := decodeAll_length _ hd
    have hfst : (as.zip tl).map Prod.fst = as := by
      apply List.map_fst_zip
      rw [hlen, List.length_zip]; omega
    simp only [List.reverse_cons, List.reverse_nil, List.nil_append, List.singleton_append, List.zip_cons_cons]
    unfold pass2L keyStep
    simp only [List.length_nil]
    cases ty <;> cases live k <;> simp only [pass2L_nonkey live _ _ _ (hz as), hfst] <;> try rfl
    rename_i ty' it
    by_cases hty : (it.value.ty != ty') = true
    · simp only [hty, if_true]
    · simp only [hty]; rfl

/-! ## E. general deadline rules for arbitrary bodies -/

theorem live_mem {db : Db} {k : Bytes} {it : Item} (h : db.live k = some it) :
    (k, it) ∈ db.dict ∧ db.expired it = false := by
  unfold Db.live at h
  have hm := lookup_some_mem h
  rw [purge_dict, List.mem_filter] at hm
  exact ⟨hm.1, by simpa using hm.2⟩

theorem keepLive_of_live {db : Db} {k : Bytes} {it : Item} (h : db.live k = some it) (v : Value) :
    keepLive db.time ⟨v, it.expireat⟩ = some ⟨v, it.expireat⟩ := by
  have he := (live_mem h).2
  unfold Db.expired at he
  unfold keepLive
  cases hx : it.expireat with
  | none => rfl
  | some e => rw [hx] at he; simp only at he ⊢; simp only [decide_eq_false_iff_not] at he; simp [he]

/-- the deadline recorded in the live entry (`none`: no entry, or no deadline) -/
def deadline (db : Db) (k : Bytes) : Option Int := (db.live k).bind (·.expireat)

theorem keepLive_deadline (db : Db) (k : Bytes) (v : Value) :
    keepLive db.time ⟨v, deadline db k⟩ = some ⟨v, deadline db k⟩ := by
  unfold deadline
  cases h : db.live k with
  | none => rfl
  | some it => exact keepLive_of_live h v

/-- a `CommandItem` as `Signature.apply` builds it from the live view -/
def FromLive (live : Bytes → Option Item) (c : CI) : Prop := ∃ ty, c = ciOf ty c.key (live c.key)

theorem ciOf_key (ty k item) : (ciOf ty k item).key = k := by cases item <;> rfl
theorem ciOf_expireat (ty k item) : (ciOf ty k item).expireat = item.bind (·.expireat) := by cases item <;> rfl
theorem ciOf_clean (ty k item) : (ciOf ty k item).Clean := by cases item <;> exact ⟨rfl, rfl⟩
theorem fromLive_ciOf (live ty k) : FromLive live (ciOf ty k (live k)) := ⟨ty, by rw [ciOf_key]⟩

theorem FromLive.expireat {db : Db} {c : CI} (h : FromLive db.live c) : c.expireat = deadline db c.key := by
  obtain ⟨ty, h⟩ := h; rw [h, ciOf_expireat, ciOf_key]; rfl
theorem FromLive.clean {live} {c : CI} (h : FromLive live c) : c.Clean := by
  obtain ⟨ty, h⟩ := h; rw [h]; exact ciOf_clean _ _ _

theorem pass2L_fromLive (live : Bytes → Option Item) (l : List (Arg × ArgTy)) (accA : List Arg) (accC : List CI)
    (hacc : ∀ c ∈ accC, FromLive live c) {args : List Arg} {cis : List CI}
    (h : pass2L live l accA accC = .ok (args, cis)) : ∀ c ∈ cis, FromLive live c := by
  induction l generalizing accA accC with
  | nil =>
    simp only [pass2L, Except.ok.injEq, Prod.mk.injEq] at h
    intro c hc; rw [← h.2] at hc; exact hacc c (List.mem_reverse.1 hc)
  | cons x rest ih =>
    obtain ⟨a, t⟩ := x
    unfold pass2L at h
    have hcons : ∀ (c0 : CI), FromLive live c0 → ∀ c ∈ c0 :: accC, FromLive live c := by
      intro c0 h0 c hc
      rcases List.mem_cons.1 hc with rfl | hc
      · exact h0
      · exact hacc c hc
    split at h
    · rename_i ty mr k
      have hk := fromLive_ciOf live ty k
      cases ty <;> cases hl : live k <;> rw [hl] at h hk <;> simp only at h
      · exact ih _ _ (hcons _ hk) h
      · exact ih _ _ (hcons _ hk) h
      · exact ih _ _ (hcons _ hk) h
      · split at h
        · cases h
        · exact ih _ _ (hcons _ hk) h
    · exact ih _ _ hacc h

theorem applyL_fromLive {live : Bytes → Option Item} {s : Sig} {raw : List Bytes} {args : List Arg} {cis : List CI}
    (h : applyL live s raw = .ok (.ok args cis)) : ∀ c ∈ cis, FromLive live c := by
  unfold applyL at h
  split at h
  · cases h
  · split at h
    · cases h
    · split at h
      · cases h
      · cases h
      · split at h
        · cases h
        · rename_i heq
          simp only [Except.ok.injEq, Sig.Applied.ok.injEq] at h
          obtain ⟨rfl, rfl⟩ := h
          exact pass2L_fromLive live _ [] [] (by simp) heq


/-- `cis'` differs from `cis` by in-place modifications only: same keys, same deadlines, deadline never assigned -/
def InPlace (cis cis' : List CI) : Prop :=
  cis'.length = cis.length ∧
  ∀ i, (ciAt cis' i).key = (ciAt cis i).key ∧ (ciAt cis' i).expireat = (ciAt cis i).expireat ∧
    (ciAt cis' i).expMod = (ciAt cis i).expMod

theorem InPlace.refl (cis : List CI) : InPlace cis cis := ⟨rfl, fun _ => ⟨rfl, rfl, rfl⟩⟩

theorem InPlace.trans {a b c : List CI} (h1 : InPlace a b) (h2 : InPlace b c) : InPlace a c :=
  ⟨h2.1.trans h1.1, fun i => ⟨(h2.2 i).1.trans (h1.2 i).1, (h2.2 i).2.1.trans (h1.2 i).2.1,
    (h2.2 i).2.2.trans (h1.2 i).2.2⟩⟩

theorem ciAt_set (cis : List CI) (i j : Nat) (c : CI) :
    ciAt (cis.set i c) j = if i = j ∧ i < cis.length then c else ciAt cis j := by
  unfold ciAt
  simp only [List.getD_eq_getElem?_getD, List.getElem?_set]
  by_cases h : i = j
  · subst h
    by_cases h' : i < cis.length
    · simp [h']
    · simp [h']
  · simp [h]

/-- replacing item `i` by a copy with another value is an in-place modification -/
theorem InPlace.set (cis : List CI) (i : Nat) (c : CI) (hk : c.key = (ciAt cis i).key)
    (he : c.expireat = (ciAt cis i).expireat) (hm : c.expMod = (ciAt cis i).expMod) :
    InPlace cis (cis.set i c) := by
  refine ⟨List.length_set, fun j => ?_⟩
  rw [ciAt_set]
  split
  · rename_i h; obtain ⟨rfl, _⟩ := h; exact ⟨hk, he, hm⟩
  · exact ⟨rfl, rfl, rfl⟩

theorem InPlace.set_update (cis : List CI) (i : Nat) (v : Value) :
    InPlace cis (cis.set i ((ciAt cis i).update v)) := InPlace.set cis i _ rfl rfl rfl

theorem mem_ciAt {cis : List CI} {c : CI} (h : c ∈ cis) : ∃ i, i < cis.length ∧ ciAt cis i = c := by
  obtain ⟨i, hi, rfl⟩ := List.mem_iff_getElem.1 h
  exact ⟨i, hi, by simp [ciAt, List.getD_eq_getElem?_getD, hi]⟩

/-- fold invariant: the entry is gone or carries the deadline `e0` -/
theorem wbFold_keeps (t : Int) (k : Bytes) (e0 : Option Int) (cis : List CI) (cur : Option Item)
    (hcur : ∀ it, cur = some it → it.expireat = e0)
    (h : ∀ c ∈ cis, c.key = k → c.expMod = false ∧ c.expireat = e0) :
    ∀ it, wbFold t k cis cur = some it → it.expireat = e0 := by
  induction cis generalizing cur with
  | nil => exact hcur
  | cons c cs ih =>
    rw [wbFold_cons]
    apply ih _ _ (fun c' hc' => h c' (by simp [hc']))
    split
    · rename_i hk
      obtain ⟨h1, h2⟩ := h c (by simp) hk
      intro it
      unfold wbLive
      rw [h1]
      split
      · split
        · intro hh; cases hh
        · split
          · intro hh; cases hh
          · intro hh
            unfold keepLive at hh
            simp only at hh
            split at hh
            · cases hh; exact h2
            · split at hh
              · cases hh
              · cases hh; exact h2
      · simp only [Bool.false_eq_true, if_false]; exact hcur it
    · exact hcur

/-- GENERAL RULE (in place): a body that only modifies values in place leaves every deadline as it was,
for every key that still exists afterwards (a created key has no deadline) -/
theorem inplace_keeps (sig : Sig) (body : Body) (ctx : Ctx) (raw : List Bytes) {db : Db} (nd : NodupKeys db.dict)
    {args : List Arg} {cis : List CI} {o : BodyOut}
    (ha : applyL db.live sig raw = .ok (.ok args cis)) (hb : body ctx args cis = .ok o)
    (hip : InPlace cis o.cis) (k : Bytes) (it : Item)
    (hl : (runRegular sig body ctx none raw db).db.live k = some it) :
    it.expireat = deadline db k := by
  rw [(run_ok sig body ctx raw nd ha hb).2.2 k] at hl
  refine wbFold_keeps db.time k (deadline db k) o.cis (db.live k) ?_ ?_ it hl
  · intro it' h'; unfold deadline; rw [h']; rfl
  · intro c hc hk
    obtain ⟨i, hi, rfl⟩ := mem_ciAt hc
    have hfl := applyL_fromLive ha
    have hi' : i < cis.length := hip.1 ▸ hi
    have hmem : ciAt cis i ∈ cis := by
      simp only [ciAt, List.getD_eq_getElem?_getD, hi', List.getElem?_eq_getElem, Option.getD_some]
      exact List.getElem_mem hi'
    obtain ⟨h1, h2, h3⟩ := hip.2 i
    refine ⟨h3.trans (hfl _ hmem).clean.2, ?_⟩
    rw [h2, (hfl _ hmem).expireat, ← h1, hk]

theorem wbFold_set_clean (t : Int) (k : Bytes) (cis : List CI) (hc : ∀ c ∈ cis, c.Clean) (i : Nat)
    (hi : i < cis.length) (c' : CI) (cur : Option Item) :
    wbFold t k (cis.set i c') cur = if c'.key = k then wbLive t c' cur else cur := by
  induction cis generalizing i cur with
  | nil => simp at hi
  | cons c cs ih =>
    cases i with
    | zero =>
      simp only [List.set_cons_zero, wbFold_cons]
      exact wbFold_other _ _ _ _ (fun c'' hc'' _ => hc c'' (by simp [hc'']))
    | succ j =>
      simp only [List.set_cons_succ, wbFold_cons]
      have : (if c.key = k then wbLive t c cur else cur) = cur := by
        split
        · exact wbLive_clean (hc c (by simp)) _ _
        · rfl
      rw [this]
      exact ih (fun c'' hc'' => hc c'' (by simp [hc''])) j (by simpa using hi) cur

/-- GENERAL RULE (one item written): if the body returns the applied items with item `i` replaced by `c'`,
the live entry of that key is `wbLive c'` of the old one and every other key is untouched -/
theorem one_item (sig : Sig) (body : Body) (ctx : Ctx) (raw : List Bytes) {db : Db} (nd : NodupKeys db.dict)
    {args : List Arg} {cis : List CI} {o : BodyOut}
    (ha : applyL db.live sig raw = .ok (.ok args cis)) (hb : body ctx args cis = .ok o)
    (i : Nat) (hi : i < cis.length) (c' : CI) (ho : o.cis = cis.set i c') (k : Bytes) :
    (runRegular sig body ctx none raw db).db.live k =
      if c'.key = k then wbLive db.time c' (db.live k) else db.live k := by
  rw [(run_ok sig body ctx raw nd ha hb).2.2 k, ho]
  exact wbFold_set_clean _ _ _ (fun c hc => (applyL_fromLive ha c hc).clean) i hi c' _

/-- GENERAL RULE (value setter): the item produced by `CommandItem.value = v` loses its deadline -/
theorem setter_clears (sig : Sig) (body : Body) (ctx : Ctx) (raw : List Bytes) {db : Db} (nd : NodupKeys db.dict)
    {args : List Arg} {cis : List CI} {o : BodyOut}
    (ha : applyL db.live sig raw = .ok (.ok args cis)) (hb : body ctx args cis = .ok o)
    (i : Nat) (hi : i < cis.length) (v : Value) (hv : v.isEmptyColl = false)
    (ho : o.cis = cis.set i ((ciAt cis i).setValue (some v))) :
    (runRegular sig body ctx none raw db).db.live (ciAt cis i).key = some ⟨v, none⟩ := by
  rw [one_item sig body ctx raw nd ha hb i hi _ ho]
  simp [CI.setValue, wbLive, hv, keepLive]

/-- GENERAL RULE (`update`): the item produced by an in-place update keeps the deadline -/
theorem update_keeps (sig : Sig) (body : Body) (ctx : Ctx) (raw : List Bytes) {db : Db} (nd : NodupKeys db.dict)
    {args : List Arg} {cis : List CI} {o : BodyOut}
    (ha : applyL db.live sig raw = .ok (.ok args cis)) (hb : body ctx args cis = .ok o)
    (i : Nat) (hi : i < cis.length) (v : Value) (hv : v.isEmptyColl = false)
    (ho : o.cis = cis.set i ((ciAt cis i).update v)) :
    (runRegular sig body ctx none raw db).db.live (ciAt cis i).key =
      some ⟨v, deadline db (ciAt cis i).key⟩ := by
  rw [one_item sig body ctx raw nd ha hb i hi _ ho]
  have hmem : ciAt cis i ∈ cis := by
    simp only [ciAt, List.getD_eq_getElem?_getD, hi, List.getElem?_eq_getElem, Option.getD_some]
    exact List.getElem_mem hi
  have hfl := applyL_fromLive ha _ hmem
  simp only [CI.update, if_true, wbLive, hv, Bool.false_eq_true, if_false]
  rw [hfl.expireat]
  exact keepLive_deadline db _ v


/-! ## F. the concrete commands -/

/-- run the regular command `name` with its real signature and body (no gate refusal) -/
def run (name : String) (ctx : Ctx) (raw : List Bytes) (db : Db) : RunOut :=
  match SigTable.find name, Cmd.regular name with
  | some sig, some body => runRegular sig body ctx none raw db
  | _, _ => default

abbrev K : ArgTy := .key none .unspecified

theorem truthy_ciOf (ty : Option Ty) (k : Bytes) (it : Item) :
    (ciOf ty k (some it)).truthy = !it.value.isEmptyColl := by
  obtain ⟨v, e⟩ := it
  cases v <;> rfl

theorem truthy_ciOf_none (k : Bytes) : (ciOf none k none).truthy = false := rfl

theorem applyL_K (live : Bytes → Option Item) (n : String) (ns : Bool) (a b : Nat) (c : Bool) (k : Bytes) :
    applyL live ⟨n, [K], [], ns, a, b, c⟩ [k] = .ok (.ok [.key 0] [ciOf none k (live k)]) := by
  rw [applyL_keyFirst live _ none [] rfl (by simp) (by simp) k [] rfl rfl]
  simp [decodeAll, keyStep]

theorem applyL_KI (live : Bytes → Option Item) (n : String) (ns : Bool) (a b : Nat) (c : Bool) (k sb : Bytes) :
    applyL live ⟨n, [K, .int], [], ns, a, b, c⟩ [k, sb] =
      match Conv.int sb with
      | .error e => .error e
      | .ok s => .ok (.ok [.key 0, .int s] [ciOf none k (live k)]) := by
  rw [applyL_keyFirst live _ none [.int] rfl (by simp [isKey]) (by simp) k [sb] rfl rfl]
  simp only [Sig.types, List.length_cons, List.length_nil, List.range_zero, List.map_nil, List.append_nil,
    List.tail_cons, List.zip_cons_cons, List.zip_nil_right, decodeAll, Conv.decode, Nat.sub_self, Nat.reduceAdd]
  cases Conv.int sb <;> simp [Except.map, keyStep]

/-- what TTL (`scale = 1`) / PTTL (`scale = 1000`) answer for a live view entry -/
def ttlAnswer (now : Int) (scale : Int) (item : Option Item) : Reply :=
  match item with
  | none => .int (-2)
  | some it =>
    if it.value.isEmptyColl then .int (-2)
    else match it.expireat with
      | none => .int (-1)
      | some e => .int (roundHalfUp ((e - now) * scale) TICKS)

theorem ttlCore_eq (ctx : Ctx) (k : Bytes) (item : Option Item) (scale : Int) :
    Cmd.ttlCore ctx [ciOf none k item] 0 scale = ret (ttlAnswer ctx.time scale item) [ciOf none k item] := by
  unfold Cmd.ttlCore ttlAnswer
  cases item with
  | none => rfl
  | some it =>
    simp only [ciAt, List.getD_cons_zero, truthy_ciOf]
    cases it.value.isEmptyColl
    · simp only [Bool.not_false, Bool.not_true, Bool.false_eq_true, if_false]
      cases h : it.expireat <;> simp [ciOf, h]
    · simp

theorem run_clean (sig : Sig) (body : Body) (ctx : Ctx) (raw : List Bytes) {db : Db} (nd : NodupKeys db.dict)
    {args : List Arg} {cis : List CI} {o : BodyOut}
    (ha : applyL db.live sig raw = .ok (.ok args cis)) (hb : body ctx args cis = .ok o) (hc : o.cis = cis) :
    Db.purge (runRegular sig body ctx none raw db).db = Db.purge db := by
  rw [runRegular_eq]
  have he := apply_eq sig raw nd
  have hr := Sig.apply_reads sig raw nd
  rw [ha] at he
  revert he hr
  generalize sig.apply raw db = g
  obtain ⟨db1, x⟩ := g
  simp only
  intro he hr
  subst he
  simp only [runTail, hb, hc]
  rw [writebackPure_clean (fun c hc' => (applyL_fromLive ha c hc').clean)]
  exact hr.eq

theorem ttl_gen (n : String) (body : Body) (scale : Int)
    (hbody : ∀ ctx cis, body ctx [.key 0] cis = Cmd.ttlCore ctx cis 0 scale)
    (ctx : Ctx) (k : Bytes) {db : Db} (nd : NodupKeys db.dict) :
    (runRegular ⟨n, [K], [], false, 1, 0, false⟩ body ctx none [k] db).reply = ttlAnswer ctx.time scale (db.live k) ∧
    Db.purge (runRegular ⟨n, [K], [], false, 1, 0, false⟩ body ctx none [k] db).db = Db.purge db := by
  have ha := applyL_K db.live n false 1 0 false k
  have hb : body ctx [.key 0] [ciOf none k (db.live k)] = .ok ⟨ttlAnswer ctx.time scale (db.live k), [ciOf none k (db.live k)], 0⟩ := by
    rw [hbody, ttlCore_eq]; rfl
  exact ⟨(run_ok _ body ctx [k] nd ha hb).1, run_clean _ body ctx [k] nd ha hb rfl⟩

theorem ttl_spec (ctx : Ctx) (k : Bytes) {db : Db} (nd : NodupKeys db.dict) :
    (run "ttl" ctx [k] db).reply = ttlAnswer ctx.time 1 (db.live k) ∧
    Db.purge (run "ttl" ctx [k] db).db = Db.purge db :=
  ttl_gen "ttl" Cmd.ttl 1 (fun _ _ => rfl) ctx k nd

theorem pttl_spec (ctx : Ctx) (k : Bytes) {db : Db} (nd : NodupKeys db.dict) :
    (run "pttl" ctx [k] db).reply = ttlAnswer ctx.time 1000 (db.live k) ∧
    Db.purge (run "pttl" ctx [k] db).db = Db.purge db :=
  ttl_gen "pttl" Cmd.pttl 1000 (fun _ _ => rfl) ctx k nd

theorem roundHalfUp_nonneg {num den : Int} (hn : 0 ≤ num) (hd : 0 < den) : 0 ≤ roundHalfUp num den := by
  unfold roundHalfUp
  exact Int.ediv_nonneg (by omega) (by omega)

/-- `roundHalfUp num den` is the integer `q` with `q ≤ num/den + 1/2 < q + 1` (nearest, ties UP) -/
theorem roundHalfUp_iff {num den : Int} (hd : 0 < den) (q : Int) :
    roundHalfUp num den = q ↔ 2 * den * q ≤ 2 * num + den ∧ 2 * num + den < 2 * den * (q + 1) := by
  unfold roundHalfUp
  have hb : 0 < 2 * den := by omega
  have h1 : ∀ x : Int, x ≤ (2 * num + den) / (2 * den) ↔ x * (2 * den) ≤ 2 * num + den :=
    fun x => Int.le_ediv_iff_mul_le hb
  have h2 : ∀ x : Int, (2 * num + den) / (2 * den) < x ↔ 2 * num + den < x * (2 * den) :=
    fun x => Int.ediv_lt_iff_lt_mul hb
  rw [Int.mul_comm (2 * den) q, Int.mul_comm (2 * den) (q + 1), ← h1, ← h2]
  omega

theorem live_deadline_ge {db : Db} {k : Bytes} {it : Item} {e : Int} (h : db.live k = some it)
    (he : it.expireat = some e) : db.time ≤ e := by
  have := (live_mem h).2
  unfold Db.expired at this
  rw [he] at this
  simp only [decide_eq_false_iff_not] at this
  omega

/-- the three cases of the TTL answer, for a database without stored empty collections -/
theorem ttlAnswer_cases {db : Db} (k : Bytes) (now scale : Int) (hnow : now = db.time) (hs : 0 < scale)
    (hne : ∀ it, db.live k = some it → it.value.isEmptyColl = false) :
    (ttlAnswer now scale (db.live k) = .int (-2) ↔ db.live k = none) ∧
    (ttlAnswer now scale (db.live k) = .int (-1) ↔ ∃ it, db.live k = some it ∧ it.expireat = none) ∧
    (∀ it e, db.live k = some it → it.expireat = some e →
      ttlAnswer now scale (db.live k) = .int (roundHalfUp ((e - now) * scale) TICKS) ∧
      0 ≤ roundHalfUp ((e - now) * scale) TICKS) := by
  have hpos : ∀ it e, db.live k = some it → it.expireat = some e →
      0 ≤ roundHalfUp ((e - now) * scale) TICKS := by
    intro it e h he
    have := live_deadline_ge h he
    apply roundHalfUp_nonneg
    · apply Int.mul_nonneg <;> omega
    · decide
  cases h : db.live k with
  | none => simp [ttlAnswer]
  | some it =>
    have hv := hne it h
    cases he : it.expireat with
    | none =>
      simp only [ttlAnswer, hv, he, Bool.false_eq_true, if_false]
      refine ⟨by simp, by simp [he], ?_⟩
      intro it' e h1 h2; cases h1; rw [he] at h2; cases h2
    | some e =>
      have := hpos it e h he
      simp only [ttlAnswer, hv, he, Bool.false_eq_true, if_false]
      refine ⟨?_, ?_, ?_⟩
      · simp only [Reply.int.injEq, reduceCtorEq, iff_false]; omega
      · simp only [Reply.int.injEq, Option.some.injEq, exists_eq_left', he, reduceCtorEq, iff_false]; omega
      · intro it' e' h1 h2; cases h1; rw [he] at h2; cases h2; exact ⟨rfl, this⟩

/-! ### EXPIRE / PEXPIRE / EXPIREAT / PEXPIREAT -/

theorem ciOf_setExpire_live (t : Int) (k : Bytes) (it : Item) (e : Option Int) (cur : Option Item)
    (hv : it.value.isEmptyColl = false) :
    wbLive t ((ciOf none k (some it)).setExpire e) cur = keepLive t ⟨it.value, e⟩ := by
  simp [wbLive, CI.setExpire, ciOf, hv]

theorem ciOf_setValue_none (t : Int) (k : Bytes) (item : Option Item) (cur : Option Item) :
    wbLive t ((ciOf none k item).setValue none) cur = none := by
  simp [wbLive, CI.setValue]

theorem expireMsBad_iff (ms b : Int) :
    Cmd.expireMsBad ms b = true ↔ (ms + b ≥ 2 ^ 63 ∨ ms < -(2 ^ 63)) := by
  simp [Cmd.expireMsBad]

/-- the common part of the four commands: the body refuses when `bad now s` (with the invalid-expire error, before
anything else), and otherwise is `_expireat` with the instant `ts` -/
theorem expire_gen (n : String) (body : Body) (bad : Int → Int → Bool) (ts : Int → Int → Int)
    (hbody : ∀ ctx s cis, body ctx [.key 0, .int s] cis =
      if bad ctx.time s then .error (Msgs.fmt1 Msgs.INVALID_EXPIRE_MSG n)
      else Cmd.expireatCore ctx cis 0 (ts ctx.time s))
    (ctx : Ctx) (k sb : Bytes) (s : Int) (hs : Conv.int sb = .ok s) {db : Db} (nd : NodupKeys db.dict)
    (hctx : ctx.time = db.time) :
    let out := runRegular ⟨n, [K, .int], [], false, 2, 0, false⟩ body ctx none [k, sb] db
    (bad db.time s = true →
      out.reply = .err (strBytes (Msgs.fmt1 Msgs.INVALID_EXPIRE_MSG n)) ∧ Db.purge out.db = Db.purge db) ∧
    (bad db.time s = false →
      (db.live k = none → out.reply = .int 0 ∧ Db.purge out.db = Db.purge db) ∧
      (∀ it, db.live k = some it → it.value.isEmptyColl = false →
        out.reply = .int 1 ∧
        out.db.live k = (if ts db.time s ≤ db.time then none else some ⟨it.value, some (ts db.time s)⟩) ∧
        ∀ k', k' ≠ k → out.db.live k' = db.live k')) := by
  intro out
  have ha : applyL db.live ⟨n, [K, .int], [], false, 2, 0, false⟩ [k, sb] =
      .ok (.ok [.key 0, .int s] [ciOf none k (db.live k)]) := by
    rw [applyL_KI, hs]
  refine ⟨fun hbad => ?_, fun hgood => ⟨fun hl => ?_, fun it hl hv => ?_⟩⟩
  · have hb : body ctx [.key 0, .int s] [ciOf none k (db.live k)] =
        .error (Msgs.fmt1 Msgs.INVALID_EXPIRE_MSG n) := by
      rw [hbody, hctx, hbad]; rfl
    have := run_body_err _ body ctx _ nd ha hb
    exact ⟨this.1, this.2.2⟩
  · have hb : body ctx [.key 0, .int s] [ciOf none k (db.live k)] = .ok ⟨.int 0, [ciOf none k (db.live k)], 0⟩ := by
      rw [hbody, hctx, hgood, hl]; rfl
    exact ⟨(run_ok _ body ctx _ nd ha hb).1, run_clean _ body ctx _ nd ha hb rfl⟩
  · by_cases hpast : ts db.time s ≤ db.time
    · have hb : body ctx [.key 0, .int s] [ciOf none k (db.live k)] =
          .ok ⟨.int 1, [ciOf none k (db.live k)].set 0 ((ciOf none k (db.live k)).setValue none), 0⟩ := by
        rw [hbody, hctx, hgood, hl]
        simp only [Cmd.expireatCore, ciAt, List.getD_cons_zero, truthy_ciOf, hv, hctx, hpast]
        rfl
      refine ⟨(run_ok _ body ctx _ nd ha hb).1, ?_, fun k' hk' => ?_⟩
      · rw [one_item _ body ctx _ nd ha hb 0 (by simp) _ rfl k]
        simp [CI.setValue, ciOf_key, wbLive, hpast]
      · rw [one_item _ body ctx _ nd ha hb 0 (by simp) _ rfl k']
        simp [CI.setValue, ciOf_key, Ne.symm hk']
    · have hb : body ctx [.key 0, .int s] [ciOf none k (db.live k)] =
          .ok ⟨.int 1, [ciOf none k (db.live k)].set 0 ((ciOf none k (db.live k)).setExpire (some (ts db.time s))), 0⟩ := by
        rw [hbody, hctx, hgood, hl]
        simp only [Cmd.expireatCore, ciAt, List.getD_cons_zero, truthy_ciOf, hv, hctx, hpast]
        rfl
      refine ⟨(run_ok _ body ctx _ nd ha hb).1, ?_, fun k' hk' => ?_⟩
      · rw [one_item _ body ctx _ nd ha hb 0 (by simp) _ rfl k]
        simp only [CI.setExpire, ciOf_key, if_true, hpast, if_false]
        rw [hl]
        simp only [wbLive, ciOf, if_true, hv, Bool.false_eq_true, if_false]
        exact keepLive_future _ (by omega)
      · rw [one_item _ body ctx _ nd ha hb 0 (by simp) _ rfl k']
        simp [CI.setExpire, ciOf_key, Ne.symm hk']

/-- the refusal condition of EXPIRE (`n` seconds) / PEXPIRE (`n` ms) / EXPIREAT (`n` s, absolute): the deadline in
milliseconds is not a signed 64-bit number.  `now / TICKS_MS` is `int(self._db.time * 1000)`. -/
def expireOverflow (now n : Int) : Prop := n * 1000 + now / TICKS_MS ≥ 2 ^ 63 ∨ n * 1000 < -(2 ^ 63)
def pexpireOverflow (now n : Int) : Prop := n + now / TICKS_MS ≥ 2 ^ 63 ∨ n < -(2 ^ 63)
def expireatOverflow (n : Int) : Prop := n * 1000 ≥ 2 ^ 63 ∨ n * 1000 < -(2 ^ 63)

instance (now n : Int) : Decidable (expireOverflow now n) := by unfold expireOverflow; exact inferInstance
instance (now n : Int) : Decidable (pexpireOverflow now n) := by unfold pexpireOverflow; exact inferInstance
instance (n : Int) : Decidable (expireatOverflow n) := by unfold expireatOverflow; exact inferInstance

theorem expire_spec (ctx : Ctx) (k sb : Bytes) (s : Int) (hs : Conv.int sb = .ok s) {db : Db}
    (nd : NodupKeys db.dict) (hctx : ctx.time = db.time) :
    let out := run "expire" ctx [k, sb] db
    (expireOverflow db.time s →
      out.reply = .err (strBytes (Msgs.fmt1 Msgs.INVALID_EXPIRE_MSG "expire")) ∧ Db.purge out.db = Db.purge db) ∧
    (¬ expireOverflow db.time s →
      (db.live k = none → out.reply = .int 0 ∧ Db.purge out.db = Db.purge db) ∧
      (∀ it, db.live k = some it → it.value.isEmptyColl = false →
        out.reply = .int 1 ∧
        out.db.live k = (if db.time + s * TICKS ≤ db.time then none else some ⟨it.value, some (db.time + s * TICKS)⟩) ∧
        ∀ k', k' ≠ k → out.db.live k' = db.live k')) := by
  have h := expire_gen "expire" Cmd.expire (fun t s => Cmd.expireMsBad (s * 1000) (t / TICKS_MS))
    (fun t s => t + s * TICKS) (fun _ _ _ => rfl) ctx k sb s hs nd hctx
  refine ⟨fun hb => h.1 ((expireMsBad_iff _ _).2 hb), fun hg => h.2 ?_⟩
  cases hc : Cmd.expireMsBad (s * 1000) (db.time / TICKS_MS)
  · rfl
  · exact absurd ((expireMsBad_iff _ _).1 hc) hg

theorem pexpire_spec (ctx : Ctx) (k sb : Bytes) (s : Int) (hs : Conv.int sb = .ok s) {db : Db}
    (nd : NodupKeys db.dict) (hctx : ctx.time = db.time) :
    let out := run "pexpire" ctx [k, sb] db
    (pexpireOverflow db.time s →
      out.reply = .err (strBytes (Msgs.fmt1 Msgs.INVALID_EXPIRE_MSG "pexpire")) ∧ Db.purge out.db = Db.purge db) ∧
    (¬ pexpireOverflow db.time s →
      (db.live k = none → out.reply = .int 0 ∧ Db.purge out.db = Db.purge db) ∧
      (∀ it, db.live k = some it → it.value.isEmptyColl = false →
        out.reply = .int 1 ∧
        out.db.live k = (if db.time + s * TICKS_MS ≤ db.time then none else some ⟨it.value, some (db.time + s * TICKS_MS)⟩) ∧
        ∀ k', k' ≠ k → out.db.live k' = db.live k')) := by
  have h := expire_gen "pexpire" Cmd.pexpire (fun t s => Cmd.expireMsBad s (t / TICKS_MS))
    (fun t s => t + s * TICKS_MS) (fun _ _ _ => rfl) ctx k sb s hs nd hctx
  refine ⟨fun hb => h.1 ((expireMsBad_iff _ _).2 hb), fun hg => h.2 ?_⟩
  cases hc : Cmd.expireMsBad s (db.time / TICKS_MS)
  · rfl
  · exact absurd ((expireMsBad_iff _ _).1 hc) hg

theorem expireat_spec (ctx : Ctx) (k sb : Bytes) (s : Int) (hs : Conv.int sb = .ok s) {db : Db}
    (nd : NodupKeys db.dict) (hctx : ctx.time = db.time) :
    let out := run "expireat" ctx [k, sb] db
    (expireatOverflow s →
      out.reply = .err (strBytes (Msgs.fmt1 Msgs.INVALID_EXPIRE_MSG "expireat")) ∧ Db.purge out.db = Db.purge db) ∧
    (¬ expireatOverflow s →
      (db.live k = none → out.reply = .int 0 ∧ Db.purge out.db = Db.purge db) ∧
      (∀ it, db.live k = some it → it.value.isEmptyColl = false →
        out.reply = .int 1 ∧
        out.db.live k = (if s * TICKS ≤ db.time then none else some ⟨it.value, some (s * TICKS)⟩) ∧
        ∀ k', k' ≠ k → out.db.live k' = db.live k')) := by
  have h := expire_gen "expireat" Cmd.expireat (fun _ s => Cmd.expireMsBad (s * 1000) 0)
    (fun _ s => s * TICKS) (fun _ _ _ => rfl) ctx k sb s hs nd hctx
  have hiff : Cmd.expireMsBad (s * 1000) 0 = true ↔ expireatOverflow s := by
    rw [expireMsBad_iff, Int.add_zero]; rfl
  refine ⟨fun hb => h.1 (hiff.2 hb), fun hg => h.2 ?_⟩
  cases hc : Cmd.expireMsBad (s * 1000) 0
  · rfl
  · exact absurd (hiff.1 hc) hg

theorem pexpireat_spec (ctx : Ctx) (k sb : Bytes) (s : Int) (hs : Conv.int sb = .ok s) {db : Db}
    (nd : NodupKeys db.dict) (hctx : ctx.time = db.time) :
    let out := run "pexpireat" ctx [k, sb] db
    (db.live k = none → out.reply = .int 0 ∧ Db.purge out.db = Db.purge db) ∧
    (∀ it, db.live k = some it → it.value.isEmptyColl = false →
      out.reply = .int 1 ∧
      out.db.live k = (if s * TICKS_MS ≤ db.time then none else some ⟨it.value, some (s * TICKS_MS)⟩) ∧
      ∀ k', k' ≠ k → out.db.live k' = db.live k') :=
  (expire_gen "pexpireat" Cmd.pexpireat (fun _ _ => false) (fun _ s => s * TICKS_MS) (fun _ _ _ => rfl)
    ctx k sb s hs nd hctx).2 rfl

/-! ### PERSIST -/

theorem persist_gen (n : String) (ctx : Ctx) (k : Bytes) {db : Db} (nd : NodupKeys db.dict) :
    let out := runRegular ⟨n, [K], [], false, 1, 0, false⟩ Cmd.persist ctx none [k] db
    (deadline db k = none → out.reply = .int 0 ∧ Db.purge out.db = Db.purge db) ∧
    (∀ it e, db.live k = some it → it.expireat = some e → it.value.isEmptyColl = false →
      out.reply = .int 1 ∧ out.db.live k = some ⟨it.value, none⟩ ∧
      ∀ k', k' ≠ k → out.db.live k' = db.live k') := by
  intro out
  have ha := applyL_K db.live n false 1 0 false k
  refine ⟨fun hd => ?_, fun it e hl he hv => ?_⟩
  · have hb : Cmd.persist ctx [.key 0] [ciOf none k (db.live k)] = .ok ⟨.int 0, [ciOf none k (db.live k)], 0⟩ := by
      simp only [Cmd.persist, ciAt, List.getD_cons_zero, ciOf_expireat]
      unfold deadline at hd
      rw [hd]; rfl
    exact ⟨(run_ok _ Cmd.persist ctx _ nd ha hb).1, run_clean _ Cmd.persist ctx _ nd ha hb rfl⟩
  · have hb : Cmd.persist ctx [.key 0] [ciOf none k (db.live k)] =
        .ok ⟨.int 1, [ciOf none k (db.live k)].set 0 ((ciOf none k (db.live k)).setExpire none), 0⟩ := by
      simp only [Cmd.persist, ciAt, List.getD_cons_zero, ciOf_expireat, hl, Option.bind_some, he]
      rfl
    refine ⟨(run_ok _ Cmd.persist ctx _ nd ha hb).1, ?_, fun k' hk' => ?_⟩
    · rw [one_item _ Cmd.persist ctx _ nd ha hb 0 (by simp) _ rfl k]
      simp only [CI.setExpire, ciOf_key, if_true]
      rw [hl]
      simp only [wbLive, ciOf, if_true, hv, Bool.false_eq_true, if_false]
      rfl
    · rw [one_item _ Cmd.persist ctx _ nd ha hb 0 (by simp) _ rfl k']
      simp [CI.setExpire, ciOf_key, Ne.symm hk']

theorem persist_spec (ctx : Ctx) (k : Bytes) {db : Db} (nd : NodupKeys db.dict) :
    let out := run "persist" ctx [k] db
    (deadline db k = none → out.reply = .int 0 ∧ Db.purge out.db = Db.purge db) ∧
    (∀ it e, db.live k = some it → it.expireat = some e → it.value.isEmptyColl = false →
      out.reply = .int 1 ∧ out.db.live k = some ⟨it.value, none⟩ ∧
      ∀ k', k' ≠ k → out.db.live k' = db.live k') :=
  persist_gen "persist" ctx k nd


/-! ### SETEX / PSETEX -/

theorem applyL_KIB (live : Bytes → Option Item) (n : String) (ns : Bool) (a b : Nat) (c : Bool) (k sb v : Bytes) :
    applyL live ⟨n, [K, .int, .bytes], [], ns, a, b, c⟩ [k, sb, v] =
      match Conv.int sb with
      | .error e => .error e
      | .ok s => .ok (.ok [.key 0, .int s, .raw v] [ciOf none k (live k)]) := by
  rw [applyL_keyFirst live _ none [.int, .bytes] rfl (by simp [isKey]) (by simp) k [sb, v] rfl rfl]
  simp only [Sig.types, List.length_cons, List.length_nil, List.range_zero, List.map_nil, List.append_nil,
    List.tail_cons, List.zip_cons_cons, List.zip_nil_right, decodeAll, Conv.decode, Nat.sub_self, Nat.reduceAdd]
  cases Conv.int sb <;> simp [Except.map, keyStep]

theorem setex_gen (n : String) (body : Body) (unit : Int) (hu : 0 < unit)
    (hbody : ∀ ctx s v cis, body ctx [.key 0, .int s, .raw v] cis =
      if s ≤ 0 ∨ ctx.time + s * unit ≥ 2 ^ 63 * TICKS_MS then .error (Msgs.fmt1 Msgs.INVALID_EXPIRE_MSG n)
      else ret .ok (cis.set 0 (((ciAt cis 0).setValue (some (.str v))).setExpire (some (ctx.time + s * unit)))))
    (ctx : Ctx) (k sb v : Bytes) (s : Int) (hs : Conv.int sb = .ok s) {db : Db} (nd : NodupKeys db.dict)
    (hctx : ctx.time = db.time) :
    let out := runRegular ⟨n, [K, .int, .bytes], [], false, 3, 0, false⟩ body ctx none [k, sb, v] db
    ((s ≤ 0 ∨ db.time + s * unit ≥ 2 ^ 63 * TICKS_MS) →
      out.reply = .err (strBytes (Msgs.fmt1 Msgs.INVALID_EXPIRE_MSG n)) ∧ Db.purge out.db = Db.purge db) ∧
    (¬ (s ≤ 0 ∨ db.time + s * unit ≥ 2 ^ 63 * TICKS_MS) →
      out.reply = .ok ∧ out.db.live k = some ⟨.str v, some (db.time + s * unit)⟩ ∧
      ∀ k', k' ≠ k → out.db.live k' = db.live k') := by
  intro out
  have ha : applyL db.live ⟨n, [K, .int, .bytes], [], false, 3, 0, false⟩ [k, sb, v] =
      .ok (.ok [.key 0, .int s, .raw v] [ciOf none k (db.live k)]) := by
    rw [applyL_KIB, hs]
  refine ⟨fun hbad => ?_, fun hgood => ?_⟩
  · have hb : body ctx [.key 0, .int s, .raw v] [ciOf none k (db.live k)] =
        .error (Msgs.fmt1 Msgs.INVALID_EXPIRE_MSG n) := by
      rw [hbody, hctx, if_pos hbad]
    have := run_body_err _ body ctx _ nd ha hb
    exact ⟨this.1, this.2.2⟩
  · have hb : body ctx [.key 0, .int s, .raw v] [ciOf none k (db.live k)] =
        .ok ⟨.ok, [ciOf none k (db.live k)].set 0
          (((ciOf none k (db.live k)).setValue (some (.str v))).setExpire (some (db.time + s * unit))), 0⟩ := by
      rw [hbody, hctx, if_neg hgood]; rfl
    refine ⟨(run_ok _ body ctx _ nd ha hb).1, ?_, fun k' hk' => ?_⟩
    · rw [one_item _ body ctx _ nd ha hb 0 (by simp) _ rfl k]
      simp only [CI.setExpire, CI.setValue, ciOf_key, if_true, wbLive, Value.isEmptyColl, Bool.false_eq_true, if_false]
      apply keepLive_future
      have : 0 < s := by omega
      have := Int.mul_pos this hu
      omega
    · rw [one_item _ body ctx _ nd ha hb 0 (by simp) _ rfl k']
      simp [CI.setExpire, CI.setValue, ciOf_key, Ne.symm hk']

theorem setex_spec (ctx : Ctx) (k sb v : Bytes) (s : Int) (hs : Conv.int sb = .ok s) {db : Db}
    (nd : NodupKeys db.dict) (hctx : ctx.time = db.time) :
    let out := run "setex" ctx [k, sb, v] db
    ((s ≤ 0 ∨ db.time + s * TICKS ≥ 2 ^ 63 * TICKS_MS) →
      out.reply = .err (strBytes (Msgs.fmt1 Msgs.INVALID_EXPIRE_MSG "setex")) ∧ Db.purge out.db = Db.purge db) ∧
    (¬ (s ≤ 0 ∨ db.time + s * TICKS ≥ 2 ^ 63 * TICKS_MS) →
      out.reply = .ok ∧ out.db.live k = some ⟨.str v, some (db.time + s * TICKS)⟩ ∧
      ∀ k', k' ≠ k → out.db.live k' = db.live k') :=
  setex_gen "setex" Cmd.setex TICKS (by decide) (fun _ _ _ _ => rfl) ctx k sb v s hs nd hctx

theorem psetex_spec (ctx : Ctx) (k sb v : Bytes) (s : Int) (hs : Conv.int sb = .ok s) {db : Db}
    (nd : NodupKeys db.dict) (hctx : ctx.time = db.time) :
    let out := run "psetex" ctx [k, sb, v] db
    ((s ≤ 0 ∨ db.time + s * TICKS_MS ≥ 2 ^ 63 * TICKS_MS) →
      out.reply = .err (strBytes (Msgs.fmt1 Msgs.INVALID_EXPIRE_MSG "psetex")) ∧ Db.purge out.db = Db.purge db) ∧
    (¬ (s ≤ 0 ∨ db.time + s * TICKS_MS ≥ 2 ^ 63 * TICKS_MS) →
      out.reply = .ok ∧ out.db.live k = some ⟨.str v, some (db.time + s * TICKS_MS)⟩ ∧
      ∀ k', k' ≠ k → out.db.live k' = db.live k') :=
  setex_gen "psetex" Cmd.psetex TICKS_MS (by decide) (fun _ _ _ _ => rfl) ctx k sb v s hs nd hctx


/-! ### SET (all option combinations), GETSET -/

theorem decodeAll_bytes : ∀ (rest : List Bytes) (tl : List ArgTy), (∀ t ∈ tl, t = ArgTy.bytes) →
    rest.length ≤ tl.length → decodeAll (rest.zip tl) = .ok (rest.map .raw)
  | [], _, _, _ => rfl
  | b :: rest, [], _, h => by simp at h
  | b :: rest, t :: tl, ht, h => by
    have : t = .bytes := ht t (by simp)
    subst this
    simp only [List.zip_cons_cons, decodeAll, Conv.decode, List.map_cons]
    rw [decodeAll_bytes rest tl (fun t h' => ht t (by simp [h'])) (by simpa using h)]

theorem rawArgs_map_raw (l : List Bytes) : Cmd.rawArgs (l.map .raw) = l := by
  induction l with
  | nil => rfl
  | cons b rest ih => simp [Cmd.rawArgs, ih]

theorem bytes_tail (m : Nat) : ∀ t ∈ ArgTy.bytes :: (List.range m).map (fun i => [ArgTy.bytes].getD (i % 1) .bytes),
    t = ArgTy.bytes := by
  intro t ht
  rcases List.mem_cons.1 ht with rfl | ht
  · rfl
  · obtain ⟨i, _, rfl⟩ := List.mem_map.1 ht
    simp [Nat.mod_one]

/-- `Signature.apply` for `(Key(ty), bytes, *bytes)` signatures -/
theorem applyL_KBs (live : Bytes → Option Item) (n : String) (ty : Option Ty) (ns : Bool) (a b : Nat) (c : Bool)
    (k v : Bytes) (rest : List Bytes) :
    applyL live ⟨n, [.key ty .unspecified, .bytes], [.bytes], ns, a, b, c⟩ (k :: v :: rest) =
      keyStep ty k (live k) (.raw v :: rest.map .raw) := by
  rw [applyL_keyFirst live _ ty [.bytes] rfl (by simp [isKey]) (by simp [isKey]) k (v :: rest)
    (by simp [Sig.checkArity]) (by simp [Nat.mod_one])]
  have : (Sig.types ⟨n, [.key ty .unspecified, .bytes], [.bytes], ns, a, b, c⟩ ((v :: rest).length + 1)).tail =
      ArgTy.bytes :: (List.range rest.length).map (fun i => [ArgTy.bytes].getD (i % 1) .bytes) := by
    simp [Sig.types]
  rw [this, decodeAll_bytes (v :: rest) _ (bytes_tail _) (by simp)]
  rfl

/-- the deadline SET leaves: PX, else EX, else the old one under KEEPTTL, else none -/
def setDeadline (t : Int) (o : Cmd.SetOpts) (old : Option Int) : Option Int :=
  match o.px with
  | some px => some (t + px * TICKS_MS)
  | none =>
    match o.ex with
    | some ex => some (t + ex * TICKS)
    | none => if o.keepttl then old else none

/-- the options record only positive EX / PX values -/
theorem parseSetOpts_pos (t : Int) (l : List Bytes) (o0 o : Cmd.SetOpts)
    (h : Cmd.parseSetOpts t l o0 = .ok o)
    (h0 : (∀ ex, o0.ex = some ex → 0 < ex) ∧ (∀ px, o0.px = some px → 0 < px)) :
    (∀ ex, o.ex = some ex → 0 < ex) ∧ (∀ px, o.px = some px → 0 < px) := by
  fun_induction Cmd.parseSetOpts t l o0
  case case1 => cases h; exact h0
  all_goals try (cases h; done)
  all_goals rename_i ih
  all_goals try (exact ih h h0)
  all_goals
    apply ih h
    simp only
    refine ⟨fun ex' hex' => ?_, fun px' hpx' => ?_⟩
    all_goals first | exact h0.1 _ hex' | exact h0.2 _ hpx' | (simp only [Option.some.injEq] at *; omega)

/-- the two syntax refusals of SET that depend on the option combination -/
def setSyntaxBad (ctx : Ctx) (o : Cmd.SetOpts) : Bool :=
  (o.xx && o.nx ||
    decide ((((if o.px.isSome = true then 1 else 0) + if o.ex.isSome = true then 1 else 0) +
      if o.keepttl = true then 1 else 0) > 1)) ||
  (o.nx && o.get && decide (ctx.version < 7))

/-- SET … GET on a key that holds a non-string -/
def setWrong (o : Cmd.SetOpts) (c : CI) : Bool :=
  o.get && match c.val with
    | none => false
    | some (Value.str _) => false
    | some _ => true

/-- NX on an existing key / XX on a missing key: nothing is written -/
def setSkips (o : Cmd.SetOpts) (c : CI) : Bool := (o.nx && c.truthy) || (o.xx && !c.truthy)

def setOld (o : Cmd.SetOpts) (c : CI) : Reply :=
  if o.get = true then
    match c.val with
    | some (Value.str b) => Reply.bulk b
    | _ => Reply.nil
  else Reply.nil

/-- the `CommandItem` SET writes -/
def setFinal (t : Int) (o : Cmd.SetOpts) (c : CI) (v : Bytes) : CI :=
  let c1 := if (!o.keepttl) = true then c.setValue (some (Value.str v)) else c.update (Value.str v)
  let c2 := match o.ex with | some ex => c1.setExpire (some (t + ex * TICKS)) | none => c1
  match o.px with | some px => c2.setExpire (some (t + px * TICKS_MS)) | none => c2

theorem setFinal_spec (t : Int) (o : Cmd.SetOpts) (c : CI) (v : Bytes) :
    (setFinal t o c v).key = c.key ∧ (setFinal t o c v).modified = true ∧
    (setFinal t o c v).val = some (.str v) ∧ (setFinal t o c v).expireat = setDeadline t o c.expireat := by
  unfold setFinal setDeadline
  cases o.px <;> cases o.ex <;> cases o.keepttl <;> simp [CI.setValue, CI.update, CI.setExpire]

set_option linter.unusedSimpArgs false in
theorem set_body (ctx : Ctx) (v : Bytes) (opts : List Bytes) (c : CI) (o : Cmd.SetOpts)
    (hp : Cmd.parseSetOpts ctx.time opts {} = .ok o) (hsyn : setSyntaxBad ctx o = false)
    (hw : setWrong o c = false) :
    Cmd.set ctx (.key 0 :: .raw v :: opts.map .raw) [c] =
      if setSkips o c then ret (setOld o c) [c]
      else ret (if o.get then setOld o c else .ok) ([c].set 0 (setFinal ctx.time o c v)) := by
  simp only [setSyntaxBad, Bool.or_eq_false_iff] at hsyn
  cases hs : setSkips o c
  · have hs' := hs
    simp only [setSkips, Bool.or_eq_false_iff] at hs'
    obtain ⟨key, val, ex, m, em⟩ := c
    rcases val with _ | (b | l | s | h | z) <;> cases hg : o.get <;>
      (have h3 := hsyn.2; rw [hg] at h3) <;>
      simp only [setWrong, hg, Bool.true_and, Bool.false_and] at hw <;> (try (cases hw; done)) <;>
      simp only [Cmd.set, h3, rawArgs_map_raw, hp, ciAt, List.getD_cons_zero, hsyn.1.1, hsyn.1.2, hg, hs'.1, hs'.2,
        Bool.false_eq_true, if_false, Bool.and_false, Bool.false_and, Bool.true_and, Bool.or_false, Bool.false_or,
        setOld, if_true] <;>
      (unfold setFinal; cases o.px <;> cases o.ex <;> rfl)
  · have hs' := hs
    simp only [setSkips, Bool.or_eq_true] at hs'
    obtain ⟨key, val, ex, m, em⟩ := c
    rcases val with _ | (b | l | s | h | z) <;> cases hg : o.get <;>
      (have h3 := hsyn.2; rw [hg] at h3) <;>
      simp only [setWrong, hg, Bool.true_and, Bool.false_and] at hw <;> (try (cases hw; done)) <;>
      simp only [Cmd.set, h3, rawArgs_map_raw, hp, ciAt, List.getD_cons_zero, hsyn.1.1, hsyn.1.2, hg,
        Bool.false_eq_true, if_false, Bool.and_false, Bool.false_and, Bool.true_and, Bool.or_false, Bool.false_or,
        setOld, if_true] <;>
      (rcases hs' with h1 | h2
       · simp only [h1, if_true]
       · simp only [h2, if_true]; split <;> rfl)

/-- SET with any options that pass the syntax checks -/
theorem set_spec (ctx : Ctx) (k v : Bytes) (opts : List Bytes) {db : Db} (nd : NodupKeys db.dict)
    (hctx : ctx.time = db.time) (o : Cmd.SetOpts)
    (hp : Cmd.parseSetOpts ctx.time opts {} = .ok o) (hsyn : setSyntaxBad ctx o = false)
    (hw : setWrong o (ciOf none k (db.live k)) = false) :
    let out := run "set" ctx (k :: v :: opts) db
    (setSkips o (ciOf none k (db.live k)) = true →
      out.reply = setOld o (ciOf none k (db.live k)) ∧ Db.purge out.db = Db.purge db) ∧
    (setSkips o (ciOf none k (db.live k)) = false →
      out.reply = (if o.get then setOld o (ciOf none k (db.live k)) else .ok) ∧
      out.db.live k = some ⟨.str v, setDeadline db.time o (deadline db k)⟩ ∧
      ∀ k', k' ≠ k → out.db.live k' = db.live k') := by
  intro out
  have ha : applyL db.live ⟨"set", [K, .bytes], [.bytes], false, 2, 0, true⟩ (k :: v :: opts) =
      .ok (.ok (.key 0 :: .raw v :: opts.map .raw) [ciOf none k (db.live k)]) := by
    rw [applyL_KBs]; simp [keyStep]
  have hbody := set_body ctx v opts (ciOf none k (db.live k)) o hp hsyn hw
  refine ⟨fun hs => ?_, fun hs => ?_⟩
  · rw [hs] at hbody
    exact ⟨(run_ok _ Cmd.set ctx _ nd ha hbody).1, run_clean _ Cmd.set ctx _ nd ha hbody rfl⟩
  · rw [hs, hctx] at hbody
    obtain ⟨f1, f2, f3, f4⟩ := setFinal_spec db.time o (ciOf none k (db.live k)) v
    have hpos := parseSetOpts_pos ctx.time opts {} o hp ⟨fun _ h => (by cases h), fun _ h => (by cases h)⟩
    refine ⟨(run_ok _ Cmd.set ctx _ nd ha hbody).1, ?_, fun k' hk' => ?_⟩
    · show (runRegular ⟨"set", [K, .bytes], [.bytes], false, 2, 0, true⟩ Cmd.set ctx none (k :: v :: opts) db).db.live k = _
      rw [one_item _ Cmd.set ctx _ nd ha hbody 0 (by simp) _ rfl k]
      simp only [f1, ciOf_key, if_true, wbLive, f2, f3, Value.isEmptyColl, Bool.false_eq_true, if_false, f4,
        ciOf_expireat]
      show keepLive db.time ⟨.str v, setDeadline db.time o (deadline db k)⟩ = _
      unfold setDeadline
      cases hpx : o.px with
      | some px =>
        have := hpos.2 px hpx
        exact keepLive_future _ (by have := Int.mul_pos this (show (0:Int) < TICKS_MS by decide); omega)
      | none =>
        cases hex : o.ex with
        | some ex =>
          have := hpos.1 ex hex
          exact keepLive_future _ (by have := Int.mul_pos this (show (0:Int) < TICKS by decide); omega)
        | none =>
          simp only
          split
          · exact keepLive_deadline db k _
          · rfl
    · show (runRegular ⟨"set", [K, .bytes], [.bytes], false, 2, 0, true⟩ Cmd.set ctx none (k :: v :: opts) db).db.live k' = _
      rw [one_item _ Cmd.set ctx _ nd ha hbody 0 (by simp) _ rfl k']
      simp [f1, ciOf_key, Ne.symm hk']


theorem casematch_excl {a : Bytes} {s s' : String} (h : casematch a s = true) (hne : strBytes s ≠ strBytes s') :
    casematch a s' = false := by
  unfold casematch at h ⊢
  have : casenorm a = strBytes s := by simpa using h
  rw [this]
  simpa using hne

/-- option parsing of `EX n` -/
theorem parse_ex (t : Int) (tok sb : Bytes) (s : Int) (htok : casematch tok "ex" = true) (hs : Conv.int sb = .ok s) :
    Cmd.parseSetOpts t [tok, sb] {} =
      if s ≤ 0 ∨ t + s * TICKS ≥ 2 ^ 63 * TICKS_MS then .error (Msgs.fmt1 Msgs.INVALID_EXPIRE_MSG "set")
      else .ok { ex := some s } := by
  have h1 := casematch_excl (s' := "nx") htok (by rw [strBytes_eq, strBytes_eq]; decide)
  have h2 := casematch_excl (s' := "xx") htok (by rw [strBytes_eq, strBytes_eq]; decide)
  simp only [Cmd.parseSetOpts, h1, h2, htok, hs, Bool.false_eq_true, if_false, List.isEmpty_cons, Bool.not_false,
    Bool.and_self, if_true]

theorem parse_px (t : Int) (tok sb : Bytes) (s : Int) (htok : casematch tok "px" = true) (hs : Conv.int sb = .ok s) :
    Cmd.parseSetOpts t [tok, sb] {} =
      if s ≤ 0 ∨ t + s * TICKS_MS ≥ 2 ^ 63 * TICKS_MS then .error (Msgs.fmt1 Msgs.INVALID_EXPIRE_MSG "set")
      else .ok { px := some s } := by
  have h1 := casematch_excl (s' := "nx") htok (by rw [strBytes_eq, strBytes_eq]; decide)
  have h2 := casematch_excl (s' := "xx") htok (by rw [strBytes_eq, strBytes_eq]; decide)
  have h3 := casematch_excl (s' := "ex") htok (by rw [strBytes_eq, strBytes_eq]; decide)
  simp only [Cmd.parseSetOpts, h1, h2, h3, htok, hs, Bool.false_eq_true, if_false, List.isEmpty_cons, Bool.not_false,
    Bool.and_self, if_true, Bool.false_and]

theorem parse_keepttl (t : Int) (tok : Bytes) (htok : casematch tok "keepttl" = true) :
    Cmd.parseSetOpts t [tok] {} = .ok { keepttl := true } := by
  have h1 := casematch_excl (s' := "nx") htok (by rw [strBytes_eq, strBytes_eq]; decide)
  have h2 := casematch_excl (s' := "xx") htok (by rw [strBytes_eq, strBytes_eq]; decide)
  have h3 := casematch_excl (s' := "ex") htok (by rw [strBytes_eq, strBytes_eq]; decide)
  have h4 := casematch_excl (s' := "px") htok (by rw [strBytes_eq, strBytes_eq]; decide)
  simp only [Cmd.parseSetOpts, h1, h2, h3, h4, htok, Bool.false_eq_true, if_false, if_true, Bool.false_and]

/-- SET k v : the value is replaced and the deadline removed -/
theorem set_plain (ctx : Ctx) (k v : Bytes) {db : Db} (nd : NodupKeys db.dict) (hctx : ctx.time = db.time) :
    let out := run "set" ctx [k, v] db
    out.reply = .ok ∧ out.db.live k = some ⟨.str v, none⟩ ∧ ∀ k', k' ≠ k → out.db.live k' = db.live k' :=
  (set_spec ctx k v [] nd hctx {} rfl rfl rfl).2 rfl

/-- SET k v KEEPTTL : the value is replaced, the deadline stays -/
theorem set_keepttl (ctx : Ctx) (k v tok : Bytes) (htok : casematch tok "keepttl" = true) {db : Db}
    (nd : NodupKeys db.dict) (hctx : ctx.time = db.time) :
    let out := run "set" ctx [k, v, tok] db
    out.reply = .ok ∧ out.db.live k = some ⟨.str v, deadline db k⟩ ∧ ∀ k', k' ≠ k → out.db.live k' = db.live k' :=
  (set_spec ctx k v [tok] nd hctx { keepttl := true } (parse_keepttl _ tok htok) rfl rfl).2 rfl

/-- SET k v EX n -/
theorem set_ex (ctx : Ctx) (k v tok sb : Bytes) (s : Int) (htok : casematch tok "ex" = true)
    (hs : Conv.int sb = .ok s) {db : Db} (nd : NodupKeys db.dict) (hctx : ctx.time = db.time) :
    let out := run "set" ctx [k, v, tok, sb] db
    ((s ≤ 0 ∨ db.time + s * TICKS ≥ 2 ^ 63 * TICKS_MS) →
      out.reply = .err (strBytes (Msgs.fmt1 Msgs.INVALID_EXPIRE_MSG "set")) ∧ Db.purge out.db = Db.purge db) ∧
    (¬ (s ≤ 0 ∨ db.time + s * TICKS ≥ 2 ^ 63 * TICKS_MS) →
      out.reply = .ok ∧ out.db.live k = some ⟨.str v, some (db.time + s * TICKS)⟩ ∧
      ∀ k', k' ≠ k → out.db.live k' = db.live k') := by
  intro out
  have hp := parse_ex ctx.time tok sb s htok hs
  rw [hctx] at hp
  refine ⟨fun hbad => ?_, fun hgood => ?_⟩
  · rw [if_pos hbad] at hp
    have ha : applyL db.live ⟨"set", [K, .bytes], [.bytes], false, 2, 0, true⟩ [k, v, tok, sb] =
        .ok (.ok (.key 0 :: .raw v :: [tok, sb].map .raw) [ciOf none k (db.live k)]) := by
      rw [applyL_KBs]; simp [keyStep]
    have hb : Cmd.set ctx (.key 0 :: .raw v :: [tok, sb].map .raw) [ciOf none k (db.live k)] =
        .error (Msgs.fmt1 Msgs.INVALID_EXPIRE_MSG "set") := by
      simp only [Cmd.set, rawArgs_map_raw, hctx, hp]
    have := run_body_err _ Cmd.set ctx _ nd ha hb
    exact ⟨this.1, this.2.2⟩
  · rw [if_neg hgood, ← hctx] at hp
    exact (set_spec ctx k v [tok, sb] nd hctx { ex := some s } hp rfl rfl).2 rfl

/-- SET k v PX n -/
theorem set_px (ctx : Ctx) (k v tok sb : Bytes) (s : Int) (htok : casematch tok "px" = true)
    (hs : Conv.int sb = .ok s) {db : Db} (nd : NodupKeys db.dict) (hctx : ctx.time = db.time) :
    let out := run "set" ctx [k, v, tok, sb] db
    ((s ≤ 0 ∨ db.time + s * TICKS_MS ≥ 2 ^ 63 * TICKS_MS) →
      out.reply = .err (strBytes (Msgs.fmt1 Msgs.INVALID_EXPIRE_MSG "set")) ∧ Db.purge out.db = Db.purge db) ∧
    (¬ (s ≤ 0 ∨ db.time + s * TICKS_MS ≥ 2 ^ 63 * TICKS_MS) →
      out.reply = .ok ∧ out.db.live k = some ⟨.str v, some (db.time + s * TICKS_MS)⟩ ∧
      ∀ k', k' ≠ k → out.db.live k' = db.live k') := by
  intro out
  have hp := parse_px ctx.time tok sb s htok hs
  rw [hctx] at hp
  refine ⟨fun hbad => ?_, fun hgood => ?_⟩
  · rw [if_pos hbad] at hp
    have ha : applyL db.live ⟨"set", [K, .bytes], [.bytes], false, 2, 0, true⟩ [k, v, tok, sb] =
        .ok (.ok (.key 0 :: .raw v :: [tok, sb].map .raw) [ciOf none k (db.live k)]) := by
      rw [applyL_KBs]; simp [keyStep]
    have hb : Cmd.set ctx (.key 0 :: .raw v :: [tok, sb].map .raw) [ciOf none k (db.live k)] =
        .error (Msgs.fmt1 Msgs.INVALID_EXPIRE_MSG "set") := by
      simp only [Cmd.set, rawArgs_map_raw, hctx, hp]
    have := run_body_err _ Cmd.set ctx _ nd ha hb
    exact ⟨this.1, this.2.2⟩
  · rw [if_neg hgood, ← hctx] at hp
    exact (set_spec ctx k v [tok, sb] nd hctx { px := some s } hp rfl rfl).2 rfl


/-! ### GETSET -/

theorem applyL_TB (live : Bytes → Option Item) (n : String) (ty : Option Ty) (ns : Bool) (a b : Nat) (c : Bool)
    (k v : Bytes) :
    applyL live ⟨n, [.key ty .unspecified, .bytes], [], ns, a, b, c⟩ [k, v] = keyStep ty k (live k) [.raw v] := by
  rw [applyL_keyFirst live _ ty [.bytes] rfl (by simp [isKey]) (by simp) k [v] rfl rfl]
  simp [Sig.types, decodeAll, Conv.decode]

theorem keyStep_ok (ty : Ty) (k : Bytes) (item : Option Item) (as : List Arg)
    (h : ∀ it, item = some it → it.value.ty = ty) :
    keyStep (some ty) k item as = .ok (.ok (.key 0 :: as) [ciOf (some ty) k item]) := by
  unfold keyStep
  cases item with
  | none => rfl
  | some it => simp [h it rfl]

theorem keyStep_wrong (ty : Ty) (k : Bytes) (it : Item) (as : List Arg) (h : it.value.ty ≠ ty) :
    keyStep (some ty) k (some it) as = .error Msgs.WRONGTYPE_MSG := by
  unfold keyStep
  simp [h]

theorem getset_spec (ctx : Ctx) (k v : Bytes) {db : Db} (nd : NodupKeys db.dict) :
    let out := run "getset" ctx [k, v] db
    (∀ it, db.live k = some it → it.value.ty ≠ .str →
      out.reply = .err (strBytes Msgs.WRONGTYPE_MSG) ∧ Db.purge out.db = Db.purge db) ∧
    ((∀ it, db.live k = some it → it.value.ty = .str) →
      out.reply = (match db.live k with | some ⟨.str b, _⟩ => .bulk b | _ => .nil) ∧
      out.db.live k = some ⟨.str v, none⟩ ∧ ∀ k', k' ≠ k → out.db.live k' = db.live k') := by
  intro out
  refine ⟨fun it hl hty => ?_, fun hty => ?_⟩
  · have ha : applyL db.live ⟨"getset", [.key (some .str) .unspecified, .bytes], [], false, 2, 0, false⟩ [k, v] =
        .error Msgs.WRONGTYPE_MSG := by
      rw [applyL_TB, hl, keyStep_wrong _ _ _ _ hty]
    have := run_apply_err _ Cmd.getset ctx _ nd ha
    exact ⟨this.1, this.2.2⟩
  · have ha : applyL db.live ⟨"getset", [.key (some .str) .unspecified, .bytes], [], false, 2, 0, false⟩ [k, v] =
        .ok (.ok [.key 0, .raw v] [ciOf (some .str) k (db.live k)]) := by
      rw [applyL_TB, keyStep_ok _ _ _ _ hty]
    have hb : Cmd.getset ctx [.key 0, .raw v] [ciOf (some .str) k (db.live k)] =
        .ok ⟨(match db.live k with | some ⟨.str b, _⟩ => .bulk b | _ => .nil),
          [ciOf (some .str) k (db.live k)].set 0 ((ciOf (some .str) k (db.live k)).setValue (some (.str v))), 0⟩ := by
      simp only [Cmd.getset, ciAt, List.getD_cons_zero, ret]
      cases hl : db.live k with
      | none => rfl
      | some it =>
        obtain ⟨val, e⟩ := it
        cases val <;> first | rfl | (have := hty _ hl; simp [Value.ty] at this)
    refine ⟨(run_ok _ Cmd.getset ctx _ nd ha hb).1, ?_, fun k' hk' => ?_⟩
    · exact (one_item _ Cmd.getset ctx _ nd ha hb 0 (by simp) _ rfl k).trans
        (by simp [CI.setValue, ciOf_key, wbLive, keepLive, Value.isEmptyColl])
    · exact (one_item _ Cmd.getset ctx _ nd ha hb 0 (by simp) _ rfl k').trans
        (by simp [CI.setValue, ciOf_key, Ne.symm hk'])


/-! ### in-place commands keep the deadline -/

theorem InPlace.of_ret {cis cis' : List CI} {r : Reply} {o : BodyOut} (h : ret r cis' = .ok o)
    (hip : InPlace cis cis') : InPlace cis o.cis := by
  simp only [ret, Except.ok.injEq] at h; subst h; exact hip

theorem InPlace.setList (cis : List CI) (k : Nat) (l : List Bytes) : InPlace cis (Cmd.setList cis k l) :=
  InPlace.set cis k _ rfl rfl rfl
theorem InPlace.putSet (cis : List CI) (k : Nat) (l : List Bytes) : InPlace cis (Cmd.putSet cis k l) :=
  InPlace.set cis k _ rfl rfl rfl
theorem InPlace.putZ (cis : List CI) (k : Nat) (z : ZSet) : InPlace cis (Cmd.putZ cis k z) :=
  InPlace.set cis k _ rfl rfl rfl

/-- closes `body … = .ok o → InPlace cis o.cis` after the body has been unfolded and split -/
macro "inplace_close" h:ident : tactic => `(tactic| first
  | contradiction
  | exact InPlace.of_ret $h (InPlace.refl _)
  | exact InPlace.of_ret $h (InPlace.set_update _ _ _)
  | exact InPlace.of_ret $h (InPlace.setList _ _ _)
  | exact InPlace.of_ret $h (InPlace.putSet _ _ _)
  | exact InPlace.of_ret $h (InPlace.putZ _ _ _)
  | exact InPlace.of_ret $h (InPlace.set _ _ _ rfl rfl rfl))

macro "inplace_auto" h:ident : tactic => `(tactic|
  repeat' (first | inplace_close $h | ((try simp only at $h:ident); split at $h:ident)))

theorem append_inplace (ctx : Ctx) (args : List Arg) (cis : List CI) (o : BodyOut)
    (h : Cmd.append ctx args cis = .ok o) : InPlace cis o.cis := by
  unfold Cmd.append at h
  inplace_auto h

theorem incrbyCore_inplace (cis : List CI) (k : Nat) (a : Int) (o : BodyOut)
    (h : Cmd.incrbyCore cis k a = .ok o) : InPlace cis o.cis := by
  unfold Cmd.incrbyCore at h
  inplace_auto h

theorem incrby_inplace (ctx : Ctx) (args : List Arg) (cis : List CI) (o : BodyOut)
    (h : Cmd.incrby ctx args cis = .ok o) : InPlace cis o.cis := by
  unfold Cmd.incrby at h
  split at h
  · exact incrbyCore_inplace _ _ _ _ h
  · inplace_close h

theorem setrange_inplace (ctx : Ctx) (args : List Arg) (cis : List CI) (o : BodyOut)
    (h : Cmd.setrange ctx args cis = .ok o) : InPlace cis o.cis := by
  unfold Cmd.setrange at h
  inplace_auto h

theorem setbit_inplace (ctx : Ctx) (args : List Arg) (cis : List CI) (o : BodyOut)
    (h : Cmd.setbit ctx args cis = .ok o) : InPlace cis o.cis := by
  unfold Cmd.setbit at h
  inplace_auto h

theorem lpush_inplace (ctx : Ctx) (args : List Arg) (cis : List CI) (o : BodyOut)
    (h : Cmd.lpush ctx args cis = .ok o) : InPlace cis o.cis := by
  unfold Cmd.lpush at h
  inplace_auto h

theorem rpush_inplace (ctx : Ctx) (args : List Arg) (cis : List CI) (o : BodyOut)
    (h : Cmd.rpush ctx args cis = .ok o) : InPlace cis o.cis := by
  unfold Cmd.rpush at h
  inplace_auto h

theorem sadd_inplace (ctx : Ctx) (args : List Arg) (cis : List CI) (o : BodyOut)
    (h : Cmd.sadd ctx args cis = .ok o) : InPlace cis o.cis := by
  unfold Cmd.sadd Cmd.saddCore at h
  inplace_auto h

theorem hset_inplace (ctx : Ctx) (args : List Arg) (cis : List CI) (o : BodyOut)
    (h : Cmd.hset ctx args cis = .ok o) : InPlace cis o.cis := by
  unfold Cmd.hset at h
  inplace_auto h

theorem zincrbyCore_inplace (ctx : Ctx) (cis : List CI) (k : Nat) (d : Dbl) (m : Bytes) (o : BodyOut)
    (h : Cmd.zincrbyCore ctx cis k d m = .ok o) : InPlace cis o.cis := by
  unfold Cmd.zincrbyCore at h
  inplace_auto h

theorem ite_inplace {c : Prop} [Decidable c] {cis a b : List CI} (ha : InPlace cis a) (hb : InPlace cis b) :
    InPlace cis (if c then a else b) := by split <;> assumption

theorem zadd_inplace (ctx : Ctx) (args : List Arg) (cis : List CI) (o : BodyOut)
    (h : Cmd.zadd ctx args cis = .ok o) : InPlace cis o.cis := by
  unfold Cmd.zadd at h
  repeat' (first
    | inplace_close h
    | exact zincrbyCore_inplace _ _ _ _ _ _ h
    | exact InPlace.of_ret h (ite_inplace (InPlace.putZ _ _ _) (InPlace.refl _))
    | ((try simp only at h); split at h))

theorem pfmerge_inplace (ctx : Ctx) (args : List Arg) (cis : List CI) (o : BodyOut)
    (h : Cmd.pfmerge ctx args cis = .ok o) : InPlace cis o.cis := by
  unfold Cmd.pfmerge at h
  inplace_auto h

theorem listPop_inplace (left : Bool) (ctx : Ctx) (args : List Arg) (cis : List CI) (o : BodyOut)
    (h : Cmd.listPop left ctx args cis = .ok o) : InPlace cis o.cis := by
  unfold Cmd.listPop at h
  inplace_auto h


theorem run_short (sig : Sig) (body : Body) (ctx : Ctx) (raw : List Bytes) {db : Db} (nd : NodupKeys db.dict)
    {r : Reply} (ha : applyL db.live sig raw = .ok (.short r)) :
    (runRegular sig body ctx none raw db).reply = r ∧
    Db.purge (runRegular sig body ctx none raw db).db = Db.purge db := by
  rw [runRegular_eq]
  have he := apply_eq sig raw nd
  have hr := Sig.apply_reads sig raw nd
  rw [ha] at he
  revert he hr
  generalize sig.apply raw db = g
  obtain ⟨db1, x⟩ := g
  simp only
  intro he hr
  subst he
  exact ⟨rfl, hr.eq⟩

/-- GENERAL RULE (in place), for arbitrary arguments: a body whose every successful run is an in-place
modification never changes a deadline — whatever the arguments, whatever the outcome -/
theorem inplace_body_keeps (sig : Sig) (body : Body)
    (hip : ∀ ctx args cis o, body ctx args cis = .ok o → InPlace cis o.cis)
    (ctx : Ctx) (raw : List Bytes) {db : Db} (nd : NodupKeys db.dict) (k : Bytes) (it : Item)
    (hl : (runRegular sig body ctx none raw db).db.live k = some it) :
    it.expireat = deadline db k := by
  have hsame : Db.purge (runRegular sig body ctx none raw db).db = Db.purge db → it.expireat = deadline db k := by
    intro hp
    rw [live_eq_of_purge hp k] at hl
    unfold deadline; rw [hl]; rfl
  cases ha : applyL db.live sig raw with
  | error e => exact hsame (run_apply_err sig body ctx raw nd ha).2.2
  | ok ap =>
    cases ap with
    | short r => exact hsame (run_short sig body ctx raw nd ha).2
    | ok args cis =>
      cases hb : body ctx args cis with
      | error e => exact hsame (run_body_err sig body ctx raw nd ha hb).2.2
      | ok o => exact inplace_keeps sig body ctx raw nd ha hb (hip ctx args cis o hb) k it hl

/-- APPEND, INCRBY, SETRANGE, SETBIT, LPUSH, RPUSH, SADD, HSET, ZADD, LPOP, RPOP, PFMERGE keep the deadline -/
def inplaceNames : List String :=
  ["append", "incrby", "setrange", "setbit", "lpush", "rpush", "sadd", "hset", "zadd", "lpop", "rpop", "pfmerge"]

theorem inplace_commands (name : String) (hn : name ∈ inplaceNames) (ctx : Ctx) (raw : List Bytes) {db : Db}
    (nd : NodupKeys db.dict) (k : Bytes) (it : Item) (hl : (run name ctx raw db).db.live k = some it) :
    it.expireat = deadline db k := by
  simp only [inplaceNames, List.mem_cons, List.mem_nil_iff, or_false] at hn
  rcases hn with rfl | rfl | rfl | rfl | rfl | rfl | rfl | rfl | rfl | rfl | rfl | rfl
  · exact inplace_body_keeps _ Cmd.append append_inplace ctx raw nd k it hl
  · exact inplace_body_keeps _ Cmd.incrby incrby_inplace ctx raw nd k it hl
  · exact inplace_body_keeps _ Cmd.setrange setrange_inplace ctx raw nd k it hl
  · exact inplace_body_keeps _ Cmd.setbit setbit_inplace ctx raw nd k it hl
  · exact inplace_body_keeps _ Cmd.lpush lpush_inplace ctx raw nd k it hl
  · exact inplace_body_keeps _ Cmd.rpush rpush_inplace ctx raw nd k it hl
  · exact inplace_body_keeps _ Cmd.sadd sadd_inplace ctx raw nd k it hl
  · exact inplace_body_keeps _ Cmd.hset hset_inplace ctx raw nd k it hl
  · exact inplace_body_keeps _ Cmd.zadd zadd_inplace ctx raw nd k it hl
  · exact inplace_body_keeps _ Cmd.lpop (listPop_inplace true) ctx raw nd k it hl
  · exact inplace_body_keeps _ Cmd.rpop (listPop_inplace false) ctx raw nd k it hl
  · exact inplace_body_keeps _ Cmd.pfmerge pfmerge_inplace ctx raw nd k it hl


/-! ### RENAME / RENAMENX -/

theorem applyL_KK (live : Bytes → Option Item) (n : String) (ns : Bool) (x y : Nat) (c : Bool) (a b : Bytes) :
    applyL live ⟨n, [K, K], [], ns, x, y, c⟩ [a, b] =
      .ok (.ok [.key 0, .key 1] [ciOf none a (live a), ciOf none b (live b)]) := by
  simp only [applyL, Sig.checkArity, Sig.types, List.length_cons, List.length_nil, bne_self_eq_false,
    Bool.not_true, Bool.false_eq_true, if_false, List.isEmpty_nil, Bool.and_false, Nat.sub_self,
    List.range_zero, List.map_nil, List.append_nil, List.zip_cons_cons, List.zip_nil_right, pass1L,
    List.reverse_cons, List.reverse_nil, List.nil_append, List.cons_append, pass2L, Nat.reduceAdd]
  cases live a <;> cases live b <;> rfl

theorem ciOf_val_some (k : Bytes) (it : Item) : (ciOf none k (some it)).val = some it.value := rfl

/-- the write-back of RENAME's two items -/
theorem rename_fold (t : Int) (a b : Bytes) (hab : a ≠ b) (it : Item) (hv : it.value.isEmptyColl = false)
    (hk : keepLive t ⟨it.value, it.expireat⟩ = some it) (itemB : Option Item) (k : Bytes) (cur : Option Item) :
    wbFold t k (Cmd.renameCore [ciOf none a (some it), ciOf none b itemB] 0 1) cur =
      if k = b then some it else if k = a then none else cur := by
  have hne : ((ciOf none b itemB).key != (ciOf none a (some it)).key) = true := by
    simp [ciOf_key, Ne.symm hab]
  have hcore : Cmd.renameCore [ciOf none a (some it), ciOf none b itemB] 0 1 =
      [(ciOf none a (some it)).setValue none,
       ((ciOf none b itemB).setValue (some it.value)).setExpire it.expireat] := by
    unfold Cmd.renameCore
    simp only [ciAt, List.getD_cons_zero, List.getD_cons_succ]
    rw [if_pos hne]
    rfl
  rw [hcore]
  simp only [wbFold_cons, wbFold_nil, CI.setValue, CI.setExpire, ciOf_key]
  by_cases h1 : k = b
  · subst h1
    simp only [hab, if_false, if_true, wbLive, hv, Bool.false_eq_true]
    exact hk
  · by_cases h2 : k = a
    · subst h2
      simp [Ne.symm h1, wbLive, h1]
    · simp [Ne.symm h1, Ne.symm h2, h1, h2]

theorem keepLive_item {db : Db} {k : Bytes} {it : Item} (h : db.live k = some it) :
    keepLive db.time ⟨it.value, it.expireat⟩ = some it := keepLive_of_live h it.value

theorem rename_gen (n : String) (ctx : Ctx) (a b : Bytes) {db : Db} (nd : NodupKeys db.dict) :
    let out := runRegular ⟨n, [K, K], [], false, 2, 0, false⟩ Cmd.rename ctx none [a, b] db
    (db.live a = none → out.reply = .err (strBytes Msgs.NO_KEY_MSG) ∧ Db.purge out.db = Db.purge db) ∧
    (∀ it, db.live a = some it → it.value.isEmptyColl = false → a ≠ b →
      out.reply = .ok ∧ out.db.live b = some it ∧ out.db.live a = none ∧
      ∀ k', k' ≠ a → k' ≠ b → out.db.live k' = db.live k') ∧
    (∀ it, db.live a = some it → it.value.isEmptyColl = false → a = b →
      out.reply = .ok ∧ Db.purge out.db = Db.purge db) := by
  intro out
  have ha := applyL_KK db.live n false 2 0 false a b
  refine ⟨fun hl => ?_, fun it hl hv hab => ?_, fun it hl hv hab => ?_⟩
  · have hb : Cmd.rename ctx [.key 0, .key 1] [ciOf none a (db.live a), ciOf none b (db.live b)] =
        .error Msgs.NO_KEY_MSG := by rw [hl]; rfl
    have := run_body_err _ Cmd.rename ctx _ nd ha hb
    exact ⟨this.1, this.2.2⟩
  · have hb : Cmd.rename ctx [.key 0, .key 1] [ciOf none a (db.live a), ciOf none b (db.live b)] =
        .ok ⟨.ok, Cmd.renameCore [ciOf none a (some it), ciOf none b (db.live b)] 0 1, 0⟩ := by
      rw [hl]
      simp only [Cmd.rename, ciAt, List.getD_cons_zero, truthy_ciOf, hv]
      rfl
    have hr := run_ok _ Cmd.rename ctx _ nd ha hb
    have hf := fun k => rename_fold db.time a b hab it hv (keepLive_item hl) (db.live b) k (db.live k)
    refine ⟨hr.1, ?_, ?_, fun k' h1 h2 => ?_⟩
    · rw [hr.2.2 b, hf b]; simp
    · rw [hr.2.2 a, hf a]; simp [hab]
    · rw [hr.2.2 k', hf k']; simp [h1, h2]
  · subst hab
    have hb : Cmd.rename ctx [.key 0, .key 1] [ciOf none a (db.live a), ciOf none a (db.live a)] =
        .ok ⟨.ok, [ciOf none a (db.live a), ciOf none a (db.live a)], 0⟩ := by
      rw [hl]
      simp only [Cmd.rename, ciAt, List.getD_cons_zero, truthy_ciOf, hv, Cmd.renameCore, List.getD_cons_succ,
        ciOf_key, bne_self_eq_false]
      rfl
    exact ⟨(run_ok _ Cmd.rename ctx _ nd ha hb).1, run_clean _ Cmd.rename ctx _ nd ha hb rfl⟩

theorem rename_spec (ctx : Ctx) (a b : Bytes) {db : Db} (nd : NodupKeys db.dict) :
    let out := run "rename" ctx [a, b] db
    (db.live a = none → out.reply = .err (strBytes Msgs.NO_KEY_MSG) ∧ Db.purge out.db = Db.purge db) ∧
    (∀ it, db.live a = some it → it.value.isEmptyColl = false → a ≠ b →
      out.reply = .ok ∧ out.db.live b = some it ∧ out.db.live a = none ∧
      ∀ k', k' ≠ a → k' ≠ b → out.db.live k' = db.live k') ∧
    (∀ it, db.live a = some it → it.value.isEmptyColl = false → a = b →
      out.reply = .ok ∧ Db.purge out.db = Db.purge db) :=
  rename_gen "rename" ctx a b nd

theorem renamenx_gen (n : String) (ctx : Ctx) (a b : Bytes) {db : Db} (nd : NodupKeys db.dict) :
    let out := runRegular ⟨n, [K, K], [], false, 2, 0, false⟩ Cmd.renamenx ctx none [a, b] db
    (db.live a = none → out.reply = .err (strBytes Msgs.NO_KEY_MSG) ∧ Db.purge out.db = Db.purge db) ∧
    (∀ it, db.live a = some it → it.value.isEmptyColl = false → db.live b = none →
      out.reply = .int 1 ∧ out.db.live b = some it ∧ out.db.live a = none ∧
      ∀ k', k' ≠ a → k' ≠ b → out.db.live k' = db.live k') ∧
    (∀ it it', db.live a = some it → it.value.isEmptyColl = false → db.live b = some it' →
      it'.value.isEmptyColl = false → out.reply = .int 0 ∧ Db.purge out.db = Db.purge db) := by
  intro out
  have ha := applyL_KK db.live n false 2 0 false a b
  refine ⟨fun hl => ?_, fun it hl hv hlb => ?_, fun it it' hl hv hlb hv' => ?_⟩
  · have hb : Cmd.renamenx ctx [.key 0, .key 1] [ciOf none a (db.live a), ciOf none b (db.live b)] =
        .error Msgs.NO_KEY_MSG := by rw [hl]; rfl
    have := run_body_err _ Cmd.renamenx ctx _ nd ha hb
    exact ⟨this.1, this.2.2⟩
  · have hab : a ≠ b := by intro h; subst h; rw [hl] at hlb; cases hlb
    have hb : Cmd.renamenx ctx [.key 0, .key 1] [ciOf none a (db.live a), ciOf none b (db.live b)] =
        .ok ⟨.int 1, Cmd.renameCore [ciOf none a (some it), ciOf none b (db.live b)] 0 1, 0⟩ := by
      rw [hl, hlb]
      simp only [Cmd.renamenx, ciAt, List.getD_cons_zero, List.getD_cons_succ, truthy_ciOf, hv, truthy_ciOf_none]
      rfl
    have hr := run_ok _ Cmd.renamenx ctx _ nd ha hb
    have hf := fun k => rename_fold db.time a b hab it hv (keepLive_item hl) (db.live b) k (db.live k)
    refine ⟨hr.1, ?_, ?_, fun k' h1 h2 => ?_⟩
    · rw [hr.2.2 b, hf b]; simp
    · rw [hr.2.2 a, hf a]; simp [hab]
    · rw [hr.2.2 k', hf k']; simp [h1, h2]
  · have hb : Cmd.renamenx ctx [.key 0, .key 1] [ciOf none a (db.live a), ciOf none b (db.live b)] =
        .ok ⟨.int 0, [ciOf none a (db.live a), ciOf none b (db.live b)], 0⟩ := by
      rw [hl, hlb]
      simp only [Cmd.renamenx, ciAt, List.getD_cons_zero, List.getD_cons_succ, truthy_ciOf, hv, hv']
      rfl
    exact ⟨(run_ok _ Cmd.renamenx ctx _ nd ha hb).1, run_clean _ Cmd.renamenx ctx _ nd ha hb rfl⟩

theorem renamenx_spec (ctx : Ctx) (a b : Bytes) {db : Db} (nd : NodupKeys db.dict) :
    let out := run "renamenx" ctx [a, b] db
    (db.live a = none → out.reply = .err (strBytes Msgs.NO_KEY_MSG) ∧ Db.purge out.db = Db.purge db) ∧
    (∀ it, db.live a = some it → it.value.isEmptyColl = false → db.live b = none →
      out.reply = .int 1 ∧ out.db.live b = some it ∧ out.db.live a = none ∧
      ∀ k', k' ≠ a → k' ≠ b → out.db.live k' = db.live k') ∧
    (∀ it it', db.live a = some it → it.value.isEmptyColl = false → db.live b = some it' →
      it'.value.isEmptyColl = false → out.reply = .int 0 ∧ Db.purge out.db = Db.purge db) :=
  renamenx_gen "renamenx" ctx a b nd


open FR.M

/-! ### MOVE (special command `moveCmd`) -/

/-- database `i` of the server as a `Db` (dict + server clock) -/
def dbAt (s : Sys) (i : Nat) : Db := ⟨s.srv.dbs.getD i [], s.srv.time⟩

/-- the state MOVE leaves when it succeeds: both look-ups (lazy expiry), the entry stored in the target,
the target's watchers notified -/
def moveDbs (s : Sys) (d D : Nat) (key : Bytes) (it : Item) : List Dict :=
  List.set (List.set (List.set s.srv.dbs D ((dbAt s D).get key).1.dict) d ((dbAt s d).get key).1.dict) D
    (setRaw ((dbAt s D).get key).1.dict key it)

def moveState (s : Sys) (d D : Nat) (key : Bytes) (it : Item) : Sys :=
  Sys.mapConns { s with srv := { s.srv with dbs := moveDbs s d D key it } } (notifyFn D key)

theorem moveCmd_ok (s : Sys) (d : Nat) (dst : Int) (cis : List CI) (it : Item)
    (hne : dst.toNat ≠ d) (htr : (ciAt cis 0).truthy = true)
    (hdst : dst.toNat < s.srv.dbs.length)
    (h1 : ((dbAt s dst.toNat).get (ciAt cis 0).key).2 = none)
    (h2 : ((dbAt s d).get (ciAt cis 0).key).2 = some it) :
    moveCmd d [.key 0, .int dst] cis s =
      (.ok (some (.int 1), cis.set 0 ((ciAt cis 0).setValue none)),
        moveState s d dst.toNat (ciAt cis 0).key it) := by
  have hne' : (dst.toNat == d) = false := by simpa using hne
  have e1 : (s.srv.dbs.set dst.toNat ((dbAt s dst.toNat).get (ciAt cis 0).key).1.dict).getD d [] =
      s.srv.dbs.getD d [] := getD_set_ne _ _ _ _ _ (Ne.symm hne)
  have e2 : ((s.srv.dbs.set dst.toNat ((dbAt s dst.toNat).get (ciAt cis 0).key).1.dict).set d
      ((dbAt s d).get (ciAt cis 0).key).1.dict).getD dst.toNat [] =
      ((dbAt s dst.toNat).get (ciAt cis 0).key).1.dict := by
    rw [getD_set_ne _ _ _ _ _ hne, getD_set_self _ _ _ _ hdst]
  unfold dbAt at h1 h2 e1 e2
  simp only [moveCmd, hne', htr, Bool.false_eq_true, if_false, Bool.not_true, bind, StateT.bind, pure, StateT.pure,
    getDb_run, setDb_run, notifyWatch_run, h1, Option.isSome_none, e1, h2, e2]
  rfl


/-- MOVE: the whole entry — value AND deadline — appears in the target database; the returned item deletes the source -/
theorem move_spec (s : Sys) (d : Nat) (dst : Int) (cis : List CI) (it : Item)
    (hne : dst.toNat ≠ d) (htr : (ciAt cis 0).truthy = true)
    (hd : d < s.srv.dbs.length) (hdst : dst.toNat < s.srv.dbs.length)
    (nds : NodupKeys (dbAt s d).dict) (ndd : NodupKeys (dbAt s dst.toNat).dict)
    (hsrc : (dbAt s d).live (ciAt cis 0).key = some it)
    (hfree : (dbAt s dst.toNat).live (ciAt cis 0).key = none) :
    let r := moveCmd d [.key 0, .int dst] cis s
    r.1 = .ok (some (.int 1), cis.set 0 ((ciAt cis 0).setValue none)) ∧
    (dbAt r.2 dst.toNat).live (ciAt cis 0).key = some it ∧
    (∀ k', k' ≠ (ciAt cis 0).key → (dbAt r.2 dst.toNat).live k' = (dbAt s dst.toNat).live k') ∧
    Db.purge (dbAt r.2 d) = Db.purge (dbAt s d) ∧
    r.2.srv.time = s.srv.time := by
  intro r
  have hr : r = _ := moveCmd_ok s d dst cis it hne htr hdst
    ((get_snd_live ndd _).trans hfree) ((get_snd_live nds _).trans hsrc)
  rw [hr]
  have htD : ((dbAt s dst.toNat).get (ciAt cis 0).key).1.time = s.srv.time := get_time _ _
  have htS : ((dbAt s d).get (ciAt cis 0).key).1.time = s.srv.time := get_time _ _
  have hD : dbAt (moveState s d dst.toNat (ciAt cis 0).key it) dst.toNat =
      { ((dbAt s dst.toNat).get (ciAt cis 0).key).1 with
        dict := setRaw ((dbAt s dst.toNat).get (ciAt cis 0).key).1.dict (ciAt cis 0).key it } := by
    show (⟨(moveDbs s d dst.toNat (ciAt cis 0).key it).getD dst.toNat [], s.srv.time⟩ : Db) = _
    unfold moveDbs
    rw [getD_set_self _ _ _ _ (by simp [hdst]), ← htD]
  have hS : dbAt (moveState s d dst.toNat (ciAt cis 0).key it) d = ((dbAt s d).get (ciAt cis 0).key).1 := by
    show (⟨(moveDbs s d dst.toNat (ciAt cis 0).key it).getD d [], s.srv.time⟩ : Db) = _
    unfold moveDbs
    rw [getD_set_ne _ _ _ _ _ (Ne.symm hne), getD_set_self _ _ _ _ (by simp [hd]), ← htS]
  refine ⟨rfl, ?_, fun k' hk' => ?_, ?_, rfl⟩
  · simp only
    rw [hD, live_setRaw_self (get_nodup _ ndd) _ _ (get_live _ ndd), htD]
    exact keepLive_item hsrc
  · simp only
    rw [hD, live_setRaw_ne (get_nodup _ ndd) _ hk', live_get ndd]
  · simp only
    rw [hS, get_purge _ nds]


open FR.M

/-! ### inside MULTI/EXEC: the queued commands go through the same pure runner -/

/-- the context `_run_command` builds for connection `c` -/
def ctxOf (s : Sys) (c : Nat) : Ctx :=
  { version := s.srv.version, time := s.srv.time, dbnum := (s.conn c).db, inTx := (s.conn c).inTx, picks := s.picks }

theorem ctxOf_time (s : Sys) (c : Nat) : (ctxOf s c).time = (dbAt s (s.conn c).db).time := rfl

theorem runGate_none (sig : Sig) : runGate sig false (decide (0 > 0)) = none := by
  simp [runGate]

/-- what EXEC's nested runner does with a queued regular command: exactly `runRegular` on the selected
database, with the context clock equal to the database clock -/
theorem runInner_regular (mode : Mode) (c : Nat) (sig : Sig) (raw : List Bytes) (body : Body)
    (h : Cmd.regular sig.name = some body) (s : Sys) (hps : (s.conn c).pubsub = 0) :
    let o := runRegular sig body (ctxOf s c) none raw (dbAt s (s.conn c).db)
    (runInner mode c sig raw s).1 = some o.reply ∧
    (runInner mode c sig raw s).2.srv.dbs = s.srv.dbs.set (s.conn c).db o.db.dict ∧
    (runInner mode c sig raw s).2.srv.time = s.srv.time := by
  intro o
  rw [runInner_regular_eq mode c sig raw h]
  rw [runWith_regular_run _ mode c sig raw false h s (Sys.refuses_of_unsubscribed sig hps)]
  have ho : s.regularOut c sig body raw false = o := by
    unfold Sys.regularOut
    rw [hps]
    rw [runGate_none]
    rfl
  rw [ho]
  refine ⟨rfl, Sys.afterRegular_dbs _ _ _, ?_⟩
  simp only
  unfold Sys.afterRegular
  rw [forM_notifyWatch_frame (fun s => s.srv.time) (fun _ _ => rfl), Sys.faultS_srv]


/-! ### SUNIONSTORE / SINTERSTORE / SDIFFSTORE (any number of sources) -/

/-- no `missing_return` on a key type: the first pass never short-circuits -/
def noMR : ArgTy → Bool
  | .key _ mr => mr == .unspecified
  | _ => true

theorem pass1L_no_short (live : Bytes → Option Item) (l : List (Bytes × ArgTy)) (acc : List Arg)
    (hl : ∀ p ∈ l, noMR p.2 = true) (r : Reply) : pass1L live l acc ≠ .ok (.inl r) := by
  induction l generalizing acc with
  | nil => simp [pass1L]
  | cons x rest ih =>
    obtain ⟨b, t⟩ := x
    have ih := fun acc => ih acc (fun p hp => hl p (List.mem_cons_of_mem _ hp))
    have ht := hl (b, t) (by simp)
    cases t
    case key ty mr =>
      simp only [noMR, beq_iff_eq] at ht
      subst ht
      simp only [pass1L, bne_self_eq_false, Bool.false_eq_true, if_false]
      exact ih _
    all_goals
      simp only [pass1L]
      generalize Conv.decode _ b = dc
      cases dc with
      | error e => simp
      | ok a => exact ih _

theorem pass2L_prefix (live : Bytes → Option Item) (l : List (Arg × ArgTy)) (accA : List Arg) (accC : List CI)
    {args : List Arg} {cis : List CI} (h : pass2L live l accA accC = .ok (args, cis)) :
    ∃ a' c', args = accA.reverse ++ a' ∧ cis = accC.reverse ++ c' := by
  induction l generalizing accA accC with
  | nil =>
    simp only [pass2L, Except.ok.injEq, Prod.mk.injEq] at h
    exact ⟨[], [], by simp [h.1], by simp [h.2]⟩
  | cons x rest ih =>
    obtain ⟨a, t⟩ := x
    unfold pass2L at h
    have step : ∀ (a0 : Arg) (c0 : CI), pass2L live rest (a0 :: accA) (c0 :: accC) = .ok (args, cis) →
        ∃ a' c', args = accA.reverse ++ a' ∧ cis = accC.reverse ++ c' := by
      intro a0 c0 h'
      obtain ⟨a', c', h1, h2⟩ := ih _ _ h'
      exact ⟨a0 :: a', c0 :: c', by simp [h1], by simp [h2]⟩
    split at h
    · rename_i ty mr k
      cases ty <;> cases hl : live k <;> rw [hl] at h <;> simp only at h
      · exact step _ _ h
      · exact step _ _ h
      · exact step _ _ h
      · split at h
        · cases h
        · exact step _ _ h
    · obtain ⟨a', c', h1, h2⟩ := ih _ _ h
      exact ⟨a :: a', c', by simp [h1], h2⟩

theorem types_head (s : Sig) (t0 : ArgTy) (ftl : List ArgTy) (hfix : s.fixed = t0 :: ftl) (n : Nat) :
    ∃ tl, s.types n = t0 :: tl := ⟨_, types_tail s t0 ftl hfix n⟩

/-- for a signature that starts with an untyped key: the first argument is `.key 0` and the first item is the
applied item of the first raw argument -/
theorem applyL_first_key (live : Bytes → Option Item) (s : Sig) (ftl : List ArgTy) (hfix : s.fixed = K :: ftl)
    (dst : Bytes) (rest : List Bytes) {args : List Arg} {cis : List CI}
    (h : applyL live s (dst :: rest) = .ok (.ok args cis)) :
    ∃ a' c', args = .key 0 :: a' ∧ cis = ciOf none dst (live dst) :: c' := by
  unfold applyL at h
  split at h
  · cases h
  · split at h
    · cases h
    · obtain ⟨tl, htl⟩ := types_head s K ftl hfix (dst :: rest).length
      rw [htl] at h
      simp only [List.zip_cons_cons, pass1L, bne_self_eq_false, Bool.false_eq_true, if_false] at h
      split at h
      · cases h
      · cases h
      · rename_i args1 heq
        split at h
        · cases h
        · rename_i args' cis' heq2
          simp only [Except.ok.injEq, Sig.Applied.ok.injEq] at h
          obtain ⟨rfl, rfl⟩ := h
          -- the first element of `args1` is `.raw dst`
          have hp1 : ∃ r1, args1 = .raw dst :: r1 := by
            clear heq2
            have : ∀ (l : List (Bytes × ArgTy)) (acc : List Arg) (out : List Arg),
                pass1L live l acc = .ok (.inr out) → ∃ r1, out = acc.reverse ++ r1 := by
              intro l
              induction l with
              | nil => intro acc out h; simp only [pass1L, Except.ok.injEq, Sum.inr.injEq] at h; exact ⟨[], by simp [h]⟩
              | cons x rest ih =>
                intro acc out h
                obtain ⟨b, t⟩ := x
                cases t
                case key ty mr =>
                  simp only [pass1L] at h
                  split at h
                  · split at h
                    · cases h
                    · obtain ⟨r1, hr⟩ := ih _ _ h; exact ⟨.raw b :: r1, by simp [hr]⟩
                  · obtain ⟨r1, hr⟩ := ih _ _ h; exact ⟨.raw b :: r1, by simp [hr]⟩
                all_goals
                  simp only [pass1L] at h
                  split at h
                  · cases h
                  · rename_i a _
                    obtain ⟨r1, hr⟩ := ih _ _ h; exact ⟨a :: r1, by simp [hr]⟩
            obtain ⟨r1, hr⟩ := this _ _ _ heq
            exact ⟨r1, by simpa using hr⟩
          obtain ⟨r1, rfl⟩ := hp1
          simp only [List.zip_cons_cons, pass2L, List.length_nil] at heq2
          cases hl : live dst <;> rw [hl] at heq2 <;> simp only at heq2
          · obtain ⟨a', c', h1, h2⟩ := pass2L_prefix live _ _ _ heq2
            exact ⟨a', c', by simpa using h1, by simpa [ciOf] using h2⟩
          · obtain ⟨a', c', h1, h2⟩ := pass2L_prefix live _ _ _ heq2
            exact ⟨a', c', by simpa using h1, by simpa [ciOf] using h2⟩


theorem types_noMR (s : Sig) (h1 : ∀ t ∈ s.fixed, noMR t = true) (h2 : ∀ t ∈ s.rep, noMR t = true) (n : Nat) :
    ∀ t ∈ s.types n, noMR t = true := by
  intro t ht
  unfold Sig.types at ht
  rcases List.mem_append.1 ht with ht | ht
  · exact h1 t ht
  · obtain ⟨i, _, rfl⟩ := List.mem_map.1 ht
    rw [List.getD_eq_getElem?_getD]
    cases h : s.rep[i % s.rep.length]? with
    | none => rfl
    | some t => exact h2 t (List.mem_of_getElem? h)

theorem applyL_no_short (live : Bytes → Option Item) (s : Sig) (h1 : ∀ t ∈ s.fixed, noMR t = true)
    (h2 : ∀ t ∈ s.rep, noMR t = true) (raw : List Bytes) (r : Reply) : applyL live s raw ≠ .ok (.short r) := by
  unfold applyL
  split
  · simp
  · split
    · simp
    · have := pass1L_no_short live (raw.zip (s.types raw.length)) []
        (fun p hp => types_noMR s h1 h2 _ p.2 (List.of_mem_zip hp).2)
      split
      · simp
      · rename_i r' heq; exact absurd heq (this r')
      · split <;> simp

abbrev KSet : ArgTy := .key (some .set) .unspecified

/-- the three `*STORE` set commands: whenever the command runs (no argument / type error), the destination is
rewritten by the value setter: it holds the computed set WITHOUT deadline (or is removed when the set is empty), and
no other key changes -/
theorem setopStore_gen (n : String) (op : Cmd.SetOp) (ctx : Ctx) (dst : Bytes) (srcs : List Bytes) {db : Db}
    (nd : NodupKeys db.dict) :
    let out := runRegular ⟨n, [K, KSet], [KSet], false, 1, 0, true⟩ (Cmd.setopStore op) ctx none (dst :: srcs) db
    out.failed = false →
      (∃ ans, out.reply = .int ans.length ∧
        out.db.live dst = (if ans.isEmpty then none else some ⟨.set ans, none⟩)) ∧
      ∀ k', k' ≠ dst → out.db.live k' = db.live k' := by
  intro out hnf
  cases ha : applyL db.live ⟨n, [K, KSet], [KSet], false, 1, 0, true⟩ (dst :: srcs) with
  | error e =>
    have := (run_apply_err _ (Cmd.setopStore op) ctx _ nd ha).2.1
    rw [this] at hnf; cases hnf
  | ok ap =>
    cases ap with
    | short r => exact absurd ha (applyL_no_short _ _ (by simp [noMR]) (by simp [noMR]) _ r)
    | ok args cis =>
      obtain ⟨a', c', rfl, rfl⟩ := applyL_first_key db.live _ [KSet] rfl dst srcs ha
      cases hb : Cmd.setopStore op ctx (.key 0 :: a') (ciOf none dst (db.live dst) :: c') with
      | error e =>
        have := (run_body_err _ (Cmd.setopStore op) ctx _ nd ha hb).2.1
        rw [this] at hnf; cases hnf
      | ok o =>
        have hb' := hb
        simp only [Cmd.setopStore, Cmd.setopStore.keyIdxsS] at hb'
        split at hb'
        · rename_i d k ks heq
          simp only [List.cons.injEq] at heq
          obtain ⟨rfl, _⟩ := heq
          simp only [ret, Except.ok.injEq] at hb'
          subst hb'
          generalize Cmd.calcSetop op _ _ = ans at *
          have hone := fun k => one_item _ (Cmd.setopStore op) ctx _ nd ha hb 0 (by simp) _ rfl k
          refine ⟨⟨ans, (run_ok _ _ ctx _ nd ha hb).1, ?_⟩, fun k' hk' => ?_⟩
          · rw [hone dst]
            simp only [CI.setValue, ciAt, List.getD_cons_zero, ciOf_key, if_true, wbLive, Value.isEmptyColl]
            split <;> rfl
          · rw [hone k']
            simp [CI.setValue, ciAt, ciOf_key, Ne.symm hk']
        · cases hb'

def storeNames : List String := ["sunionstore", "sinterstore", "sdiffstore"]

theorem setop_store_spec (name : String) (hn : name ∈ storeNames) (ctx : Ctx) (dst : Bytes) (srcs : List Bytes)
    {db : Db} (nd : NodupKeys db.dict) :
    let out := run name ctx (dst :: srcs) db
    out.failed = false →
      (∃ ans, out.reply = .int ans.length ∧
        out.db.live dst = (if ans.isEmpty then none else some ⟨.set ans, none⟩)) ∧
      ∀ k', k' ≠ dst → out.db.live k' = db.live k' := by
  simp only [storeNames, List.mem_cons, List.mem_nil_iff, or_false] at hn
  rcases hn with rfl | rfl | rfl
  · exact setopStore_gen "sunionstore" .union ctx dst srcs nd
  · exact setopStore_gen "sinterstore" .inter ctx dst srcs nd
  · exact setopStore_gen "sdiffstore" .diff ctx dst srcs nd


/-! ### MSET (any number of pairs) -/

def flat : List (Bytes × Bytes) → List Bytes
  | [] => []
  | (k, v) :: r => k :: v :: flat r

def altTys : Nat → List ArgTy
  | 0 => []
  | n + 1 => K :: .bytes :: altTys n

def mkArgs : Nat → List (Bytes × Bytes) → List Arg
  | _, [] => []
  | i, (_, v) :: r => .key i :: .raw v :: mkArgs (i + 1) r

def mkCis (live : Bytes → Option Item) : List (Bytes × Bytes) → List CI
  | [] => []
  | (k, _) :: r => ciOf none k (live k) :: mkCis live r

theorem flat_length (ps : List (Bytes × Bytes)) : (flat ps).length = 2 * ps.length := by
  induction ps with
  | nil => rfl
  | cons p r ih => obtain ⟨k, v⟩ := p; simp [flat, ih]; omega

theorem altTys_snoc (j : Nat) : altTys j ++ [K, .bytes] = altTys (j + 1) := by
  induction j with
  | zero => rfl
  | succ j ih => simp only [altTys, List.cons_append, ih]

theorem range_alt (j : Nat) :
    (List.range (2 * j)).map (fun i => [K, ArgTy.bytes].getD (i % 2) .bytes) = altTys j := by
  induction j with
  | zero => rfl
  | succ j ih =>
    have : 2 * (j + 1) = 2 * j + 1 + 1 := by omega
    rw [this, List.range_succ, List.range_succ, List.map_append, List.map_append, ih, List.append_assoc]
    have h0 : (2 * j) % 2 = 0 := by omega
    have h1 : (2 * j + 1) % 2 = 1 := by omega
    simp only [List.map_cons, List.map_nil, h0, h1, List.cons_append, List.nil_append]
    exact altTys_snoc j

def sigMset (n : String) : Sig := ⟨n, [K, .bytes], [K, .bytes], false, 0, 0, true⟩

theorem types_mset (n : String) (m : Nat) : (sigMset n).types (2 * (m + 1)) = altTys (m + 1) := by
  unfold Sig.types sigMset
  simp only [List.length_cons, List.length_nil]
  have : 2 * (m + 1) - (0 + 1 + 1) = 2 * m := by omega
  rw [this, range_alt]
  rfl

theorem pass1L_alt (live : Bytes → Option Item) (ps : List (Bytes × Bytes)) (acc : List Arg) :
    pass1L live ((flat ps).zip (altTys ps.length)) acc = .ok (.inr (acc.reverse ++ (flat ps).map .raw)) := by
  induction ps generalizing acc with
  | nil => simp [flat, altTys, pass1L]
  | cons p r ih =>
    obtain ⟨k, v⟩ := p
    simp only [flat, List.length_cons, altTys, List.zip_cons_cons, pass1L, bne_self_eq_false, Bool.false_eq_true,
      if_false, Conv.decode, ih]
    simp

theorem pass2L_alt (live : Bytes → Option Item) (ps : List (Bytes × Bytes)) (accA : List Arg) (accC : List CI) :
    pass2L live (((flat ps).map .raw).zip (altTys ps.length)) accA accC =
      .ok (accA.reverse ++ mkArgs accC.length ps, accC.reverse ++ mkCis live ps) := by
  induction ps generalizing accA accC with
  | nil => simp [flat, altTys, pass2L, mkArgs, mkCis]
  | cons p r ih =>
    obtain ⟨k, v⟩ := p
    simp only [flat, List.length_cons, altTys, List.map_cons, List.zip_cons_cons]
    unfold pass2L
    simp only
    cases hl : live k <;> simp only <;> unfold pass2L <;> simp only [ih, mkArgs, mkCis, hl, ciOf] <;> simp

theorem applyL_mset (live : Bytes → Option Item) (n : String) (p : Bytes × Bytes) (ps : List (Bytes × Bytes)) :
    applyL live (sigMset n) (flat (p :: ps)) = .ok (.ok (mkArgs 0 (p :: ps)) (mkCis live (p :: ps))) := by
  have hlen : (flat (p :: ps)).length = 2 * (ps.length + 1) := by rw [flat_length]; rfl
  unfold applyL
  rw [hlen, types_mset]
  have har : (sigMset n).checkArity (2 * (ps.length + 1)) = true := by
    simp [Sig.checkArity, sigMset]; omega
  have hrep : (!(sigMset n).rep.isEmpty && (2 * (ps.length + 1) - (sigMset n).fixed.length) % (sigMset n).rep.length != 0)
      = false := by
    simp [sigMset]; omega
  simp only [har, hrep, Bool.not_true, Bool.false_eq_true, if_false]
  have h1 := pass1L_alt live (p :: ps) []
  simp only [List.length_cons] at h1
  rw [h1]
  simp only [List.reverse_nil, List.nil_append]
  have h2 := pass2L_alt live (p :: ps) [] []
  simp only [List.length_cons] at h2
  rw [h2]
  rfl


def idxPairs : Nat → List (Bytes × Bytes) → List (Nat × Bytes)
  | _, [] => []
  | i, (_, v) :: r => (i, v) :: idxPairs (i + 1) r

theorem pairsOf_mkArgs (i : Nat) (ps : List (Bytes × Bytes)) : Cmd.pairsOf (mkArgs i ps) = idxPairs i ps := by
  induction ps generalizing i with
  | nil => rfl
  | cons p r ih => obtain ⟨k, v⟩ := p; simp only [mkArgs, Cmd.pairsOf, idxPairs, ih]

/-- the item MSET writes for one pair -/
def msetItem (live : Bytes → Option Item) (p : Bytes × Bytes) : CI :=
  (ciOf none p.1 (live p.1)).setValue (some (.str p.2))

theorem msetCore_mk (live : Bytes → Option Item) (ps : List (Bytes × Bytes)) (pre : List CI) :
    Cmd.msetCore (pre ++ mkCis live ps) (idxPairs pre.length ps) = pre ++ ps.map (msetItem live) := by
  induction ps generalizing pre with
  | nil => simp [Cmd.msetCore, idxPairs, mkCis]
  | cons p r ih =>
    obtain ⟨k, v⟩ := p
    have hset : (pre ++ ciOf none k (live k) :: mkCis live r).set pre.length
        ((ciAt (pre ++ ciOf none k (live k) :: mkCis live r) pre.length).setValue (some (.str v))) =
        (pre ++ [msetItem live (k, v)]) ++ mkCis live r := by
      have hc : ciAt (pre ++ ciOf none k (live k) :: mkCis live r) pre.length = ciOf none k (live k) := by
        simp [ciAt, List.getD_eq_getElem?_getD]
      rw [hc]
      simp [msetItem]
    have := ih (pre ++ [msetItem live (k, v)])
    simp only [List.length_append, List.length_cons, List.length_nil, Nat.zero_add] at this
    simp only [mkCis, idxPairs, Cmd.msetCore, List.foldl_cons] at this ⊢
    rw [hset, this]
    simp

/-- the value of the LAST pair for key `k` -/
def lastVal : List (Bytes × Bytes) → Bytes → Option Bytes
  | [], _ => none
  | p :: ps, k =>
    match lastVal ps k with
    | some v => some v
    | none => if p.1 = k then some p.2 else none

theorem wbFold_mset (t : Int) (live : Bytes → Option Item) (k : Bytes) (ps : List (Bytes × Bytes)) (cur : Option Item) :
    wbFold t k (ps.map (msetItem live)) cur =
      match lastVal ps k with
      | some v => some ⟨.str v, none⟩
      | none => cur := by
  induction ps generalizing cur with
  | nil => rfl
  | cons p r ih =>
    rw [List.map_cons, wbFold_cons, ih, lastVal]
    cases lastVal r k with
    | some v => rfl
    | none =>
      simp only [msetItem, CI.setValue, ciOf_key]
      by_cases h : p.1 = k
      · simp [h, wbLive, keepLive, Value.isEmptyColl]
      · simp [h]

theorem mset_gen (n : String) (ctx : Ctx) (p : Bytes × Bytes) (ps : List (Bytes × Bytes)) {db : Db}
    (nd : NodupKeys db.dict) :
    let out := runRegular (sigMset n) Cmd.mset ctx none (flat (p :: ps)) db
    out.reply = .ok ∧
    ∀ k, out.db.live k = (match lastVal (p :: ps) k with
      | some v => some ⟨.str v, none⟩
      | none => db.live k) := by
  intro out
  have ha := applyL_mset db.live n p ps
  have hb : Cmd.mset ctx (mkArgs 0 (p :: ps)) (mkCis db.live (p :: ps)) =
      .ok ⟨.ok, (p :: ps).map (msetItem db.live), 0⟩ := by
    have := msetCore_mk db.live (p :: ps) []
    simp only [List.nil_append, List.length_nil] at this
    simp only [Cmd.mset, pairsOf_mkArgs, this]
    rfl
  have hr := run_ok _ Cmd.mset ctx _ nd ha hb
  exact ⟨hr.1, fun k => by rw [hr.2.2 k]; exact wbFold_mset _ _ _ _ _⟩

/-- MSET k₁ v₁ … kₙ vₙ: reply OK; every named key holds the string of its LAST pair and has NO deadline;
every other key is untouched -/
theorem mset_spec (ctx : Ctx) (p : Bytes × Bytes) (ps : List (Bytes × Bytes)) {db : Db} (nd : NodupKeys db.dict) :
    let out := run "mset" ctx (flat (p :: ps)) db
    out.reply = .ok ∧
    ∀ k, out.db.live k = (match lastVal (p :: ps) k with
      | some v => some ⟨.str v, none⟩
      | none => db.live k) := mset_gen "mset" ctx p ps nd

theorem lastVal_mem (ps : List (Bytes × Bytes)) (k : Bytes) (h : k ∈ ps.map Prod.fst) : ∃ v, lastVal ps k = some v := by
  induction ps with
  | nil => simp at h
  | cons p r ih =>
    unfold lastVal
    cases hr : lastVal r k with
    | some v => exact ⟨v, rfl⟩
    | none =>
      simp only [List.map_cons, List.mem_cons] at h
      rcases h with h | h
      · exact ⟨p.2, by simp [h]⟩
      · obtain ⟨v, hv⟩ := ih h; rw [hr] at hv; cases hv

theorem lastVal_not_mem (ps : List (Bytes × Bytes)) (k : Bytes) (h : k ∉ ps.map Prod.fst) : lastVal ps k = none := by
  induction ps with
  | nil => rfl
  | cons p r ih =>
    simp only [List.map_cons, List.mem_cons, not_or] at h
    unfold lastVal
    rw [ih h.2]
    simp [Ne.symm h.1]


/-! ### RESTORE key ttl payload (no REPLACE) -/

theorem applyL_restore (live : Bytes → Option Item) (n : String) (k tb payload : Bytes) :
    applyL live ⟨n, [K, .int, .bytes], [.bytes], false, 3, 0, true⟩ [k, tb, payload] =
      match Conv.int tb with
      | .error e => .error e
      | .ok t => .ok (.ok [.key 0, .int t, .raw payload] [ciOf none k (live k)]) := by
  rw [applyL_keyFirst live _ none [.int, .bytes] rfl (by simp [isKey]) (by simp [isKey]) k [tb, payload] rfl rfl]
  simp only [Sig.types, List.length_cons, List.length_nil, List.range_zero, List.map_nil, List.append_nil,
    List.tail_cons, List.zip_cons_cons, List.zip_nil_right, decodeAll, Conv.decode, Nat.sub_self, Nat.reduceAdd]
  cases Conv.int tb <;> simp [Except.map, keyStep]

/-- RESTORE on a free key with a well-formed payload: the decoded value is stored with the deadline
`now + ttl·TICKS_MS` (none for ttl 0); a negative ttl is an error -/
theorem restore_gen (n : String) (ctx : Ctx) (k tb payload : Bytes) (t : Int) (v : Value)
    (ht : Conv.int tb = .ok t) (hmagic : (payload.take Cmd.dumpMagic.length == Cmd.dumpMagic) = true)
    (hload : Cmd.loadValue (payload.drop Cmd.dumpMagic.length) = some v) (hv : v.isEmptyColl = false)
    {db : Db} (nd : NodupKeys db.dict) (hctx : ctx.time = db.time) (hfree : db.live k = none) :
    let out := runRegular ⟨n, [K, .int, .bytes], [.bytes], false, 3, 0, true⟩ Cmd.restore ctx none [k, tb, payload] db
    (t < 0 → out.reply = .err (strBytes Msgs.RESTORE_INVALID_TTL_MSG) ∧ Db.purge out.db = Db.purge db) ∧
    (0 ≤ t → out.reply = .ok ∧
      out.db.live k = some ⟨v, if t = 0 then none else some (db.time + t * TICKS_MS)⟩ ∧
      ∀ k', k' ≠ k → out.db.live k' = db.live k') := by
  intro out
  have ha : applyL db.live ⟨n, [K, .int, .bytes], [.bytes], false, 3, 0, true⟩ [k, tb, payload] =
      .ok (.ok [.key 0, .int t, .raw payload] [ciOf none k (db.live k)]) := by
    rw [applyL_restore, ht]
  refine ⟨fun hneg => ?_, fun hpos => ?_⟩
  · have hb : Cmd.restore ctx [.key 0, .int t, .raw payload] [ciOf none k (db.live k)] =
        .error Msgs.RESTORE_INVALID_TTL_MSG := by
      rw [hfree]
      simp only [Cmd.restore, Cmd.restore.rawArgs', List.all_nil, List.isEmpty_nil, ciAt, List.getD_cons_zero,
        truthy_ciOf_none, hmagic, hload, hneg]
      rfl
    have := run_body_err _ Cmd.restore ctx _ nd ha hb
    exact ⟨this.1, this.2.2⟩
  · have hb : Cmd.restore ctx [.key 0, .int t, .raw payload] [ciOf none k (db.live k)] =
        .ok ⟨.ok, [ciOf none k (db.live k)].set 0 (((ciOf none k (db.live k)).setValue (some v)).setExpire
          (if t = 0 then none else some (db.time + t * TICKS_MS))), 0⟩ := by
      have : ¬ t < 0 := by omega
      rw [hfree]
      simp only [Cmd.restore, Cmd.restore.rawArgs', List.all_nil, List.isEmpty_nil, ciAt, List.getD_cons_zero,
        truthy_ciOf_none, hmagic, hload, this, hctx, beq_iff_eq]
      rfl
    refine ⟨(run_ok _ Cmd.restore ctx _ nd ha hb).1, ?_, fun k' hk' => ?_⟩
    · rw [one_item _ Cmd.restore ctx _ nd ha hb 0 (by simp) _ rfl k]
      simp only [CI.setExpire, CI.setValue, ciOf_key, if_true, wbLive, hv, Bool.false_eq_true, if_false]
      split
      · rfl
      · apply keepLive_future
        have : 0 < t := by omega
        have := Int.mul_pos this (show (0:Int) < TICKS_MS by decide)
        omega
    · rw [one_item _ Cmd.restore ctx _ nd ha hb 0 (by simp) _ rfl k']
      simp [CI.setExpire, CI.setValue, ciOf_key, Ne.symm hk']

/-! ### PFMERGE: the destination is updated in place -/

theorem applyL_first_key_ty (live : Bytes → Option Item) (s : Sig) (ty : Option Ty) (ftl : List ArgTy)
    (hfix : s.fixed = .key ty .unspecified :: ftl)
    (dst : Bytes) (rest : List Bytes) {args : List Arg} {cis : List CI}
    (h : applyL live s (dst :: rest) = .ok (.ok args cis)) :
    ∃ a' c', args = .key 0 :: a' ∧ cis = ciOf ty dst (live dst) :: c' := by
  unfold applyL at h
  split at h
  · cases h
  · split at h
    · cases h
    · obtain ⟨tl, htl⟩ := types_head s (.key ty .unspecified) ftl hfix (dst :: rest).length
      rw [htl] at h
      simp only [List.zip_cons_cons, pass1L, bne_self_eq_false, Bool.false_eq_true, if_false] at h
      split at h
      · cases h
      · cases h
      · rename_i args1 heq
        split at h
        · cases h
        · rename_i args' cis' heq2
          simp only [Except.ok.injEq, Sig.Applied.ok.injEq] at h
          obtain ⟨rfl, rfl⟩ := h
          -- the first element of `args1` is `.raw dst`
          have hp1 : ∃ r1, args1 = .raw dst :: r1 := by
            clear heq2
            have : ∀ (l : List (Bytes × ArgTy)) (acc : List Arg) (out : List Arg),
                pass1L live l acc = .ok (.inr out) → ∃ r1, out = acc.reverse ++ r1 := by
              intro l
              induction l with
              | nil => intro acc out h; simp only [pass1L, Except.ok.injEq, Sum.inr.injEq] at h; exact ⟨[], by simp [h]⟩
              | cons x rest ih =>
                intro acc out h
                obtain ⟨b, t⟩ := x
                cases t
                case key ty mr =>
                  simp only [pass1L] at h
                  split at h
                  · split at h
                    · cases h
                    · obtain ⟨r1, hr⟩ := ih _ _ h; exact ⟨.raw b :: r1, by simp [hr]⟩
                  · obtain ⟨r1, hr⟩ := ih _ _ h; exact ⟨.raw b :: r1, by simp [hr]⟩
                all_goals
                  simp only [pass1L] at h
                  split at h
                  · cases h
                  · rename_i a _
                    obtain ⟨r1, hr⟩ := ih _ _ h; exact ⟨a :: r1, by simp [hr]⟩
            obtain ⟨r1, hr⟩ := this _ _ _ heq
            exact ⟨r1, by simpa using hr⟩
          obtain ⟨r1, rfl⟩ := hp1
          simp only [List.zip_cons_cons, pass2L, List.length_nil] at heq2
          cases ty <;> cases hl : live dst <;> rw [hl] at heq2 <;> simp only at heq2
          · obtain ⟨a', c', h1, h2⟩ := pass2L_prefix live _ _ _ heq2
            exact ⟨a', c', by simpa using h1, by simpa [ciOf] using h2⟩
          · obtain ⟨a', c', h1, h2⟩ := pass2L_prefix live _ _ _ heq2
            exact ⟨a', c', by simpa using h1, by simpa [ciOf] using h2⟩
          · obtain ⟨a', c', h1, h2⟩ := pass2L_prefix live _ _ _ heq2
            exact ⟨a', c', by simpa using h1, by simpa [ciOf] using h2⟩
          · split at heq2
            · cases heq2
            · obtain ⟨a', c', h1, h2⟩ := pass2L_prefix live _ _ _ heq2
              exact ⟨a', c', by simpa using h1, by simpa [ciOf] using h2⟩

/-- PFMERGE dst src… : whenever the command runs (no arity / type error), the destination holds the merged set with
the deadline it had before (none when it did not exist) — or is removed when the merged set is empty — and no other
key changes -/
theorem pfmerge_gen (n : String) (ctx : Ctx) (dst : Bytes) (srcs : List Bytes) {db : Db} (nd : NodupKeys db.dict) :
    let out := runRegular ⟨n, [KSet, KSet], [KSet], false, 1, 0, true⟩ Cmd.pfmerge ctx none (dst :: srcs) db
    out.failed = false →
      out.reply = .ok ∧
      (∃ ans, out.db.live dst = (if ans.isEmpty then none else some ⟨.set ans, deadline db dst⟩)) ∧
      ∀ k', k' ≠ dst → out.db.live k' = db.live k' := by
  intro out hnf
  cases ha : applyL db.live ⟨n, [KSet, KSet], [KSet], false, 1, 0, true⟩ (dst :: srcs) with
  | error e =>
    have := (run_apply_err _ Cmd.pfmerge ctx _ nd ha).2.1
    rw [this] at hnf; cases hnf
  | ok ap =>
    cases ap with
    | short r => exact absurd ha (applyL_no_short _ _ (by simp [noMR]) (by simp [noMR]) _ r)
    | ok args cis =>
      obtain ⟨a', c', rfl, rfl⟩ := applyL_first_key_ty db.live _ (some .set) [KSet] rfl dst srcs ha
      have hb : Cmd.pfmerge ctx (.key 0 :: a') (ciOf (some .set) dst (db.live dst) :: c') =
          .ok ⟨.ok, (ciOf (some .set) dst (db.live dst) :: c').set 0
            ((ciAt (ciOf (some .set) dst (db.live dst) :: c') 0).update
              (.set (Cmd.calcSetop .union (Cmd.setOf (ciAt (ciOf (some .set) dst (db.live dst) :: c') 0))
                ((a'.filterMap fun a => match a with | .key i => some i | _ => none).map
                  fun i => Cmd.setOf (ciAt (ciOf (some .set) dst (db.live dst) :: c') i))))), 0⟩ := rfl
      generalize Cmd.calcSetop .union _ _ = ans at hb
      have hone := fun k => one_item _ Cmd.pfmerge ctx _ nd ha hb 0 (by simp) _ rfl k
      refine ⟨(run_ok _ _ ctx _ nd ha hb).1, ⟨ans, ?_⟩, fun k' hk' => ?_⟩
      · rw [hone dst]
        have hfl := (applyL_fromLive ha _ (List.mem_cons_self)).expireat
        simp only [ciOf_key] at hfl
        simp only [CI.update, ciAt, List.getD_cons_zero, ciOf_key, if_true, wbLive, Value.isEmptyColl, hfl]
        split
        · rfl
        · exact keepLive_deadline db dst _
      · rw [hone k']
        simp [CI.update, ciAt, ciOf_key, Ne.symm hk']

theorem pfmerge_spec (ctx : Ctx) (dst : Bytes) (srcs : List Bytes) {db : Db} (nd : NodupKeys db.dict) :
    let out := run "pfmerge" ctx (dst :: srcs) db
    out.failed = false →
      out.reply = .ok ∧
      (∃ ans, out.db.live dst = (if ans.isEmpty then none else some ⟨.set ans, deadline db dst⟩)) ∧
      ∀ k', k' ≠ dst → out.db.live k' = db.live k' := pfmerge_gen "pfmerge" ctx dst srcs nd

end FR.Ttl
