import FR.Proofs.C04kExec
import FR.Proofs.C11cSys
/-!
# C11r — helper lemmas: the exact outcome of a blocking pop (BLPOP / BRPOP) run by `_process_command`
-/
namespace FR.C11r
open FR FR.M FR.C04k FR.C11c FR.ErrSys

/-! ## `Signature.apply` of a signature whose converters are all `bytes` -/

theorem pass1_bytes (db : Db) (l : List (Bytes × ArgTy)) (acc : List Arg) (h : ∀ p ∈ l, p.2 = .bytes) :
    Sig.pass1 db l acc = (db, .ok (.inr (acc.reverse ++ l.map fun p => Arg.raw p.1))) := by
  induction l generalizing acc with
  | nil => simp [Sig.pass1]
  | cons x rest ih =>
    obtain ⟨b, t⟩ := x
    have ht : t = .bytes := h (b, t) (by simp)
    subst ht
    have ih := fun acc => ih acc (fun p hp => h p (List.mem_cons_of_mem _ hp))
    simp only [Sig.pass1, Conv.decode, ih, List.reverse_cons, List.append_assoc, List.map_cons,
      List.singleton_append]

theorem pass2_bytes (db : Db) (l : List (Arg × ArgTy)) (accA : List Arg) (accC : List CI)
    (h : ∀ p ∈ l, p.2 = .bytes) :
    Sig.pass2 db l accA accC = (db, .ok (accA.reverse ++ l.map Prod.fst, accC.reverse)) := by
  induction l generalizing accA with
  | nil => simp [Sig.pass2]
  | cons x rest ih =>
    obtain ⟨a, t⟩ := x
    have ht : t = .bytes := h (a, t) (by simp)
    subst ht
    have ih := fun accA => ih accA (fun p hp => h p (List.mem_cons_of_mem _ hp))
    simp only [Sig.pass2, ih, List.reverse_cons, List.append_assoc, List.map_cons, List.singleton_append]

theorem rawArgs_map_raw (raw : List Bytes) : Cmd.rawArgs (raw.map Arg.raw) = raw := by
  induction raw with
  | nil => rfl
  | cons b rest ih => simp only [List.map_cons, Cmd.rawArgs, ih]

/-- the two signatures of BLPOP / BRPOP -/
def IsBSig (sig : Sig) : Prop := sig = sigBlpop ∨ sig = sigBrpop

theorem types_bytes {sig : Sig} (hs : IsBSig sig) (n : Nat) : ∀ t ∈ sig.types n, t = .bytes := by
  intro t ht
  have hfx : ∀ t ∈ sig.fixed, t = .bytes := by
    rcases hs with rfl | rfl <;> simp [sigBlpop, sigBrpop]
  have hrep : sig.rep = [.bytes] := by rcases hs with rfl | rfl <;> rfl
  rw [C11c.types_eq, List.mem_append] at ht
  rcases ht with h | h
  · exact hfx t h
  · obtain ⟨i, _, rfl⟩ := List.mem_map.1 h
    rw [hrep]
    have : i % ([ArgTy.bytes] : List ArgTy).length = 0 := Nat.mod_one i
    rw [this]; rfl

theorem apply_bsig {sig : Sig} (hs : IsBSig sig) (raw : List Bytes) (db : Db)
    (ha : sig.checkArity raw.length = true) :
    sig.apply raw db = (db, .ok (.ok (raw.map Arg.raw) [])) := by
  have hty := types_bytes hs raw.length
  have hlen := C11c.types_length sig raw.length ha
  have hrep : sig.rep = [.bytes] := by rcases hs with rfl | rfl <;> rfl
  have hz1 : (raw.zip (sig.types raw.length)).map (fun p => Arg.raw p.1) = raw.map Arg.raw := by
    have : (raw.zip (sig.types raw.length)).map Prod.fst = raw :=
      List.map_fst_zip (by omega)
    conv => rhs; rw [← this]
    simp [List.map_map]
  have hz2 : ((raw.map Arg.raw).zip (sig.types raw.length)).map Prod.fst = raw.map Arg.raw :=
    List.map_fst_zip (by simp; omega)
  unfold Sig.apply
  simp only [ha, Bool.not_true, Bool.false_eq_true, if_false, hrep]
  have hmod : (!([ArgTy.bytes] : List ArgTy).isEmpty && (raw.length - sig.fixed.length) % ([ArgTy.bytes] : List ArgTy).length != 0) = false := by
    have : (raw.length - sig.fixed.length) % ([ArgTy.bytes] : List ArgTy).length = 0 := Nat.mod_one _
    rw [this]; rfl
  rw [if_neg (by rw [hmod]; simp)]
  rw [pass1_bytes db _ [] (fun p hp => hty _ (List.of_mem_zip hp).2)]
  simp only [List.reverse_nil, List.nil_append, hz1]
  rw [pass2_bytes db _ [] [] (fun p hp => hty _ (List.of_mem_zip hp).2)]
  simp only [List.reverse_nil, List.nil_append, hz2]

/-! ## `_run_command` of BLPOP / BRPOP -/

theorem bsig_arity_ne {sig : Sig} (hs : IsBSig sig) (raw : List Bytes) (ha : sig.checkArity raw.length = true) :
    ∃ tb, raw.getLast? = some tb := by
  cases h : raw.getLast? with
  | some tb => exact ⟨tb, rfl⟩
  | none =>
    rw [List.getLast?_eq_none_iff] at h
    subst h
    rcases hs with rfl | rfl <;> exact absurd ha (by decide)

/-- `_run_command` of BLPOP / BRPOP on a connection that is not in subscriber mode: the body, entered in the same
state (the signature has no key, `apply` touches nothing) -/
theorem runCommand_bsig (mode : Mode) (c : Nat) {sig : Sig} (hs : IsBSig sig) (raw : List Bytes) (s : Sys)
    (ha : sig.checkArity raw.length = true) (hps : (s.conn c).pubsub = 0) :
    runCommand mode c sig raw false s =
      afterSpecial (s.conn c).db [] (bpopBody mode c sig.name (sig.name == "blpop") (raw.map Arg.raw) []) s := by
  have hsc : sig.name ∉ scriptNames := by rcases hs with rfl | rfl <;> decide
  have hreg : Cmd.regular sig.name = none := by rcases hs with rfl | rfl <;> rfl
  have hr : s.refuses c sig = false := by
    unfold Sys.refuses
    simp [hps]
  have hg : runGate sig false (decide ((s.conn c).pubsub > 0)) = none := by
    unfold runGate
    simp [hps]
  rw [runCommand_not_script mode c sig raw false hsc, runWith_special_run _ mode c sig raw false s hreg hr]
  simp only [apply_bsig hs raw _ ha, hg, PubSubHist.set_getD_self]
  rcases hs with rfl | rfl
  · exact congrArg (fun X => afterSpecial (s.conn c).db [] X s) (special_blpop _ mode c _ [])
  · exact congrArg (fun X => afterSpecial (s.conn c).db [] X s) (special_brpop _ mode c _ [])

/-- the `_blocking` call of the body -/
def blk (mode : Mode) (c : Nat) (name : String) (left : Bool) (keys : List Bytes) (timeout : Int) (d : Nat) :
    M (Except Err (Option Reply)) :=
  if mode.async then blockingAsync c name keys (fun first => bpopPass d left first keys)
  else blocking c mode.park name keys timeout (fun first => bpopPass d left first keys)

theorem bpopBody_run (mode : Mode) (c : Nat) (name : String) (left : Bool) (raw : List Bytes) (tb : Bytes) (s : Sys)
    (hl : raw.getLast? = some tb) :
    bpopBody mode c name left (raw.map Arg.raw) [] s =
      match Conv.timeout tb with
      | .error e => (.error e, s)
      | .ok t =>
        match (blk mode c name left raw.dropLast t (s.conn c).db s).1 with
        | .error e => (.error e, (blk mode c name left raw.dropLast t (s.conn c).db s).2)
        | .ok r => (.ok (r, []), (blk mode c name left raw.dropLast t (s.conn c).db s).2) := by
  unfold bpopBody blk
  simp only [bind, StateT.bind, getConn_run, rawArgs_map_raw, hl]
  cases Conv.timeout tb with
  | error e => rfl
  | ok t =>
    simp only [bind, StateT.bind]
    generalize (if mode.async = true then blockingAsync c name raw.dropLast fun first => bpopPass (s.conn c).db left first raw.dropLast
      else blocking c mode.park name raw.dropLast t fun first => bpopPass (s.conn c).db left first raw.dropLast) s = X
    obtain ⟨r, s2⟩ := X
    cases r <;> rfl

theorem bpopPass_hasConn (d : Nat) (left first : Bool) (keys : List Bytes) (s : Sys) (c : Nat) (h : s.HasConn c) :
    (bpopPass d left first keys s).2.HasConn c :=
  bpopPass_frame (fun s' => s'.HasConn c) (fun _ _ _ h => h)
    (fun s d k h => (Sys.hasConn_mapConns s _ c (notifyFn_id d k)).2 h) d left first keys s h

theorem parked_of_srv {s1 s3 : Sys} (h : s3.srv = s1.srv) (c : Nat) (hc1 : s1.HasConn c) (f : Conn → Conn)
    (hf : ∀ x, (f x).id = x.id) : (s3.updConn c f).conn c = f (s1.conn c) := by
  have hc3 : s3.HasConn c := by unfold Sys.HasConn; rw [h]; exact hc1
  rw [Sys.conn_updConn_same f hc3 hf, Sys.conn_def, h]
  rfl

/-- the exact outcome of the `_blocking` call outside a transaction -/
theorem blk_cases (mode : Mode) (c : Nat) (name : String) (left : Bool) (keys : List Bytes) (t : Int) (d : Nat)
    (s : Sys) (hin : (s.conn c).inTx = false) (hc : s.HasConn c) :
    match (bpopPass d left true keys s).1 with
    | .error e => (blk mode c name left keys t d s).1 = .error e
    | .ok (some r) => (blk mode c name left keys t d s).1 = .ok (some r)
    | .ok none =>
      if (mode.park || mode.async) = true then
        (blk mode c name left keys t d s).1 = .ok none ∧
        (∃ p, ((blk mode c name left keys t d s).2.conn c).parked = some p ∧ p.kind = name ∧ p.keys = keys ∧
          p.db = (s.conn c).db ∧ (t = 0 ∨ mode.async = true → p.deadline = none)) ∧
        (mode.async = true → ((blk mode c name left keys t d s).2.conn c).paused = true)
      else (blk mode c name left keys t d s).1 = .ok (some .nil) := by
  have hin1 : ((bpopPass d left true keys s).2.conn c).inTx = false := by
    rw [bpopPass_conn_proj Conn.inTx notifyFn_inTx]; exact hin
  have hdb1 : ((bpopPass d left true keys s).2.conn c).db = (s.conn c).db :=
    bpopPass_conn_proj Conn.db notifyFn_db d left true keys s c
  have hc1 := bpopPass_hasConn d left true keys s c hc
  revert hin1 hdb1 hc1
  cases hp : bpopPass d left true keys s with
  | mk res s1 =>
    intro hin1 hdb1 hc1
    simp only at hin1 hdb1 hc1 ⊢
    unfold blk
    cases res with
    | error e =>
      simp only
      split
      · rw [blockingAsync_served_err c name keys _ s s1 e hp]
      · rw [blocking_served_err c mode.park name keys t _ s s1 e hp]
    | ok o =>
      cases o with
      | some r =>
        simp only
        split
        · rw [blockingAsync_served_ok c name keys _ s s1 r hp]
        · rw [blocking_served_ok c mode.park name keys t _ s s1 r hp]
      | none =>
        simp only
        cases hasync : mode.async with
        | true =>
          simp only [Bool.or_true, if_true]
          rw [blockingAsync_parks c name keys _ s s1 hp hin1]
          simp only
          rw [Sys.conn_updConn_same _ hc1]
          · exact ⟨trivial, ⟨_, rfl, rfl, rfl, hdb1, fun _ => rfl⟩, fun _ => rfl⟩
          · exact fun _ => rfl
        | false =>
          simp only [Bool.or_false, Bool.false_eq_true, if_false]
          unfold blocking
          have e1 := nextClock_srv s1
          have e2 := nextClock_srv (nextClock s1).2
          cases hpark : mode.park <;> by_cases ht : (t != 0) = true <;>
            simp only [hp, ht, hin1, getConn_run, if_true, if_false, Bool.false_eq_true, bind, StateT.bind, pure,
              StateT.pure, modifyConn_run]
          · rfl
          · refine ⟨rfl, ?_, fun h => by cases h⟩
            have key := parked_of_srv (e2.trans e1) c hc1
              (parkAs name keys (s1.conn c).db (some ((nextClock s1).1 + t * TICKS))) (fun _ => rfl)
            refine ⟨{ kind := name, keys := keys, db := (s1.conn c).db, deadline := some ((nextClock s1).1 + t * TICKS) },
              congrArg Conn.parked key, rfl, rfl, hdb1, fun h => ?_⟩
            rcases h with h | h
            · subst h; simp at ht
            · cases h
          · refine ⟨trivial, ?_, fun h => by cases h⟩
            rw [Sys.conn_updConn_same _ hc1]
            · exact ⟨_, rfl, rfl, rfl, hdb1, fun _ => rfl⟩
            · exact fun _ => rfl

/-! ## inside EXEC -/

theorem runInner_bsig (mode : Mode) (c : Nat) {sig : Sig} (hs : IsBSig sig) (raw : List Bytes) (s : Sys)
    (ha : sig.checkArity raw.length = true) (hps : (s.conn c).pubsub = 0) :
    runInner mode c sig raw s =
      afterSpecial (s.conn c).db [] (bpopBody mode c sig.name (sig.name == "blpop") (raw.map Arg.raw) []) s := by
  have hsc : scriptNames.contains sig.name = false := by rcases hs with rfl | rfl <;> decide
  have hreg : Cmd.regular sig.name = none := by rcases hs with rfl | rfl <;> rfl
  have hr : s.refuses c sig = false := by
    unfold Sys.refuses
    simp [hps]
  have hg : runGate sig false (decide ((s.conn c).pubsub > 0)) = none := by
    unfold runGate
    simp [hps]
  unfold runInner
  simp only [hsc, Bool.false_eq_true, if_false]
  rw [runWith_special_run _ mode c sig raw false s hreg hr]
  simp only [apply_bsig hs raw _ ha, hg, PubSubHist.set_getD_self]
  rcases hs with rfl | rfl
  · exact congrArg (fun X => afterSpecial (s.conn c).db [] X s) (special_blpop _ mode c _ [])
  · exact congrArg (fun X => afterSpecial (s.conn c).db [] X s) (special_brpop _ mode c _ [])

/-- inside a transaction the `_blocking` call is the first pass, `.ok none` turned into nil (either front-end) -/
theorem blk_inTx (mode : Mode) (c : Nat) (name : String) (left : Bool) (keys : List Bytes) (t : Int) (d : Nat)
    (s : Sys) (hin : (s.conn c).inTx = true) :
    blk mode c name left keys t d s = (txReply (bpopPass d left true keys s).1, (bpopPass d left true keys s).2) := by
  have hin1 : ((bpopPass d left true keys s).2.conn c).inTx = true := by
    rw [bpopPass_conn_proj Conn.inTx notifyFn_inTx]; exact hin
  unfold blk
  split
  · revert hin1
    cases hp : bpopPass d left true keys s with
    | mk res s1 =>
      intro hin1
      cases res with
      | error e => rw [blockingAsync_served_err c name keys _ s s1 e hp]; rfl
      | ok o =>
        cases o with
        | some r => rw [blockingAsync_served_ok c name keys _ s s1 r hp]; rfl
        | none => rw [blockingAsync_inTx c name keys _ s s1 hp hin1]; rfl
  · exact blocking_inTx_run c mode.park name keys t _ s hin1

end FR.C11r
