import FR
/-! # `parseCanonInt (intBytes n) = some n`: the decimal rendering is canonical and round-trips -/
namespace FR.Proofs
open FR

theorem toList_loop (bs : ByteArray) : ∀ (n i : Nat) (r : List UInt8), bs.size - i = n →
    ByteArray.toList.loop bs i r = r.reverse ++ bs.data.toList.drop i := by
  intro n
  induction n with
  | zero =>
    intro i r h
    rw [ByteArray.toList.loop.eq_1, if_neg (by omega), List.drop_of_length_le (by simp [ByteArray.size_data]; omega)]
    simp
  | succ n ih =>
    intro i r h
    have hi : i < bs.size := by omega
    rw [ByteArray.toList.loop.eq_1, if_pos hi, ih (i + 1) _ (by omega)]
    have hi' : i < bs.data.toList.length := by simpa [ByteArray.size_data] using hi
    rw [List.drop_eq_getElem_cons hi']
    have : bs.get! i = bs.data.toList[i] := by
      cases bs with
      | mk d =>
        simp only [ByteArray.get!]
        have : i < d.size := by simpa using hi'
        simp [this]
    rw [this]
    simp

theorem toList_toByteArray (l : List UInt8) : l.toByteArray.toList = l := by
  unfold ByteArray.toList
  rw [toList_loop _ _ 0 [] rfl]
  simp [List.data_toByteArray]

/-- explicit decimal digits -/
def myDigits (n : Nat) : Bytes :=
  if n < 10 then [UInt8.ofNat (48 + n)] else myDigits (n / 10) ++ [UInt8.ofNat (48 + n % 10)]
decreasing_by omega

theorem encode_digit : ∀ n < 10, String.utf8EncodeChar (Nat.digitChar n) = [UInt8.ofNat (48 + n)] := by
  decide

theorem natDigits_eq_flatMap (n : Nat) :
    natDigits n = (Nat.toDigits 10 n).flatMap String.utf8EncodeChar := by
  unfold natDigits
  show (Nat.repr n).toUTF8.toList = _
  unfold Nat.repr String.toUTF8
  rw [String.toByteArray_ofList]
  unfold List.utf8Encode
  rw [toList_toByteArray]

theorem natDigits_eq_myDigits (n : Nat) : natDigits n = myDigits n := by
  rw [natDigits_eq_flatMap]
  induction n using Nat.strongRecOn with
  | _ n ih =>
    rw [myDigits]
    split
    next h =>
      rw [Nat.toDigits_of_lt_base h]
      simp [encode_digit n h]
    next h =>
      have e : Nat.toDigits 10 n = Nat.toDigits 10 (n / 10) ++ Nat.toDigits 10 (n % 10) := by
        rw [Nat.toDigits_append_toDigits (by omega) (by omega) (by omega)]
        congr 1
        omega
      rw [e, List.flatMap_append, ih (n / 10) (by omega),
        Nat.toDigits_of_lt_base (show n % 10 < 10 by omega)]
      simp [encode_digit (n % 10) (by omega)]

theorem digitsVal_append (xs : Bytes) (d : UInt8) :
    digitsVal (xs ++ [d]) = digitsVal xs * 10 + (d.toNat - 48) := by
  simp [digitsVal, List.foldl_append]

theorem digit_toNat (k : Nat) (h : k < 10) : (UInt8.ofNat (48 + k)).toNat = 48 + k :=
  UInt8.toNat_ofNat_of_lt' (by show 48 + k < 256; omega)

theorem isDigit_digit (k : Nat) (h : k < 10) : isDigit (UInt8.ofNat (48 + k)) = true := by
  revert k; decide

theorem myDigits_spec (n : Nat) :
    (myDigits n).all isDigit = true ∧ digitsVal (myDigits n) = n ∧
    ∃ d rest, myDigits n = d :: rest ∧ isDigit d = true ∧ (0 < n → d ≠ 48) ∧
      (n = 0 → d = 48 ∧ rest = []) := by
  induction n using Nat.strongRecOn with
  | _ n ih =>
    rw [myDigits]
    split
    next h =>
      refine ⟨by simp only [List.all_cons, List.all_nil, isDigit_digit n h, Bool.and_self], ?_,
        _, _, rfl, isDigit_digit n h, ?_, ?_⟩
      · simp only [digitsVal, List.foldl_cons, List.foldl_nil, digit_toNat n h]
        omega
      · intro hp he
        have := congrArg UInt8.toNat he
        rw [digit_toNat n h] at this
        have e48 : (48 : UInt8).toNat = 48 := rfl
        omega
      · rintro rfl; exact ⟨rfl, rfl⟩
    next h =>
      obtain ⟨a, b, d, rest, e, hd, hnz, _⟩ := ih (n / 10) (by omega)
      refine ⟨?_, ?_, d, rest ++ [UInt8.ofNat (48 + n % 10)], by rw [e]; rfl, hd,
        fun _ => hnz (by omega), fun h0 => by omega⟩
      · rw [List.all_append, a]
        simp only [List.all_cons, List.all_nil, isDigit_digit (n % 10) (by omega), Bool.and_self]
      · rw [digitsVal_append, b, digit_toNat _ (by omega)]
        omega

theorem isDigit_ne_45 (d : UInt8) (h : isDigit d = true) : d ≠ 45 := by
  rintro rfl; revert h; decide

/-- the canonical decimal round-trips -/
theorem parseCanonInt_intBytes (n : Int) : parseCanonInt (intBytes n) = some n := by
  unfold intBytes
  obtain ⟨hall, hval, d, rest, e, hd, hnz, hz⟩ := myDigits_spec n.natAbs
  rw [natDigits_eq_myDigits]
  split
  next hneg =>
    -- negative: `-` followed by the digits of `|n|`, which do not start with `0`
    have hpos : 0 < n.natAbs := by omega
    unfold parseCanonInt
    split
    next heq => cases heq
    next ds heq =>
      have hds : ds = myDigits n.natAbs := (List.cons.inj heq).2.symm
      rw [hds, e]
      simp only
      rw [← e, hall, hval]
      have : (d != 48) = true := by simpa using hnz hpos
      simp only [this, Bool.and_self, if_true]
      congr 1
      omega
    next b d' rest' hno heq =>
      exact absurd (List.cons.inj heq).1.symm hno
  next hge =>
    have h45 := isDigit_ne_45 d hd
    rw [e]
    unfold parseCanonInt
    split
    next => simp at *
    next ds heq =>
      exact absurd (List.cons.inj heq).1 h45
    next b d' rest' hno heq =>
      obtain ⟨rfl, rfl⟩ := List.cons.inj heq
      rw [← e, hall, hval]
      have : (d != 48 || rest.isEmpty) = true := by
        by_cases h0 : n.natAbs = 0
        · have := hz h0
          simp [this.2]
        · have := hnz (by omega)
          simp [this]
      simp only [this, Bool.and_self, if_true]
      congr 1
      omega

end FR.Proofs
