import FR.Proofs.History
/-!
# The databases of a server are independent keyspaces (C13, system level)

A small *relational* Hoare logic for the state monad `M`: `Rel R m` says that `m`, run from two `R`-related
states, returns the same value and ends in `R`-related states.  The relation used is `Sim T c b A D₁ D₂`:
the two states are identical except for the content of the databases outside the set `T`; inside `T` the
databases agree; outside `T` the databases of the first (second) state are those of the reference list `D₁` (`D₂`).
On the diagonal (`s₁ = s₂`) the relation is a frame property, off the diagonal it is non-interference.
-/
namespace FR.DbFrame
open FR FR.M
set_option linter.unusedSimpArgs false
set_option linter.unusedVariables false

abbrev Queue := List (String × List Bytes)

/-- replace the list of databases -/
@[reducible] def withDbs (s : Sys) (D : List Dict) : Sys := { s with srv := { s.srv with dbs := D } }

/-! ## relational Hoare logic -/

/-- `m₁` from `s₁` and `m₂` from `s₂` return the same value and end in related states -/
def RelAt (R : Sys → Sys → Prop) {α : Type} (s1 s2 : Sys) (m1 m2 : M α) : Prop :=
  (m1 s1).1 = (m2 s2).1 ∧ R (m1 s1).2 (m2 s2).2

/-- pre-relation `P`, post-relation `Q` -/
def Rel2 (P Q : Sys → Sys → Prop) {α : Type} (m : M α) : Prop := ∀ s1 s2, P s1 s2 → RelAt Q s1 s2 m m

/-- `m` preserves the relation and returns equal values from related states -/
abbrev Rel (R : Sys → Sys → Prop) {α : Type} (m : M α) : Prop := Rel2 R R m

namespace Rel2
variable {P Q Q' : Sys → Sys → Prop} {α β : Type}

theorem bind {m : M α} {f : α → M β} (hm : Rel2 P Q m) (hf : ∀ a, Rel2 Q Q' (f a)) : Rel2 P Q' (m >>= f) := by
  intro s1 s2 h
  obtain ⟨hv, hs⟩ := hm s1 s2 h
  have := hf (m s1).1 _ _ hs
  show RelAt Q' s1 s2 (m >>= f) (m >>= f)
  unfold RelAt at *
  show (f (m s1).1 (m s1).2).1 = (f (m s2).1 (m s2).2).1 ∧ Q' (f (m s1).1 (m s1).2).2 (f (m s2).1 (m s2).2).2
  rw [← hv]; exact this

theorem bindV {m : M α} {f : α → M β} (V : α → Prop) (hm : Rel2 P Q m) (hV : ∀ s1 s2, P s1 s2 → V (m s1).1)
    (hf : ∀ a, V a → Rel2 Q Q' (f a)) : Rel2 P Q' (m >>= f) := by
  intro s1 s2 h
  obtain ⟨hv, hs⟩ := hm s1 s2 h
  have := hf (m s1).1 (hV s1 s2 h) _ _ hs
  unfold RelAt at *
  show (f (m s1).1 (m s1).2).1 = (f (m s2).1 (m s2).2).1 ∧ Q' (f (m s1).1 (m s1).2).2 (f (m s2).1 (m s2).2).2
  rw [← hv]; exact this

theorem post {m : M α} (hm : Rel2 P Q m) (hQ : ∀ s1 s2, Q s1 s2 → Q' s1 s2) : Rel2 P Q' m :=
  fun s1 s2 h => ⟨(hm s1 s2 h).1, hQ _ _ (hm s1 s2 h).2⟩

theorem pre {P' : Sys → Sys → Prop} {m : M α} (hm : Rel2 P Q m) (hP : ∀ s1 s2, P' s1 s2 → P s1 s2) : Rel2 P' Q m :=
  fun s1 s2 h => hm s1 s2 (hP _ _ h)

end Rel2

namespace Rel
variable {R : Sys → Sys → Prop} {α β : Type}

theorem pure (a : α) : Rel R (Pure.pure a : M α) := fun _ _ h => ⟨rfl, h⟩

theorem bind {m : M α} {f : α → M β} (hm : Rel R m) (hf : ∀ a, Rel R (f a)) : Rel R (m >>= f) :=
  Rel2.bind hm hf

theorem bindV {m : M α} {f : α → M β} (V : α → Prop) (hm : Rel R m) (hV : ∀ s1 s2, R s1 s2 → V (m s1).1)
    (hf : ∀ a, V a → Rel R (f a)) : Rel R (m >>= f) := Rel2.bindV V hm hV hf

theorem get_bind {f : Sys → M β} (hf : ∀ s1 s2, R s1 s2 → RelAt R s1 s2 (f s1) (f s2)) : Rel R (get >>= f) :=
  fun s1 s2 h => hf s1 s2 h

theorem map {m : M α} (g : α → β) (hm : Rel R m) : Rel R (g <$> m) := by
  intro s1 s2 h
  obtain ⟨hv, hs⟩ := hm s1 s2 h
  exact ⟨congrArg g hv, hs⟩

theorem forM {l : List α} {f : α → M PUnit} (hf : ∀ a, Rel R (f a)) : Rel R (l.forM f) := by
  induction l with
  | nil => exact pure _
  | cons a as ih => rw [forM_cons_eq]; exact bind (hf a) (fun _ => ih)

theorem forIn {l : List α} {f : α → β → M (ForInStep β)} (hf : ∀ a b, Rel R (f a b)) (init : β) :
    Rel R (forIn l init f) := by
  induction l generalizing init with
  | nil => exact pure _
  | cons a as ih =>
    rw [List.forIn_cons]
    refine bind (hf a init) (fun r => ?_)
    cases r with
    | done b => exact pure _
    | yield b => exact ih b

theorem mapM {l : List α} {f : α → M β} (hf : ∀ a, Rel R (f a)) : Rel R (l.mapM f) := by
  induction l with
  | nil => exact pure _
  | cons a as ih =>
    rw [List.mapM_cons]
    exact bind (hf a) (fun _ => bind ih (fun _ => pure _))

/-- a `while` loop whose body is pure and decreases a measure whenever it continues -/
theorem loop_pure (μ : β → Nat) (f : Unit → β → M (ForInStep β))
    (hf : ∀ b, ∃ r, f () b = Pure.pure r ∧ ∀ b', r = .yield b' → μ b' < μ b) (init : β) :
    Rel R (ForIn.forIn Lean.Loop.mk init f) := by
  induction h : μ init using Nat.strongRecOn generalizing init with
  | _ n ih =>
    rw [loop_unfold]
    obtain ⟨r, hr, hd⟩ := hf init
    rw [hr]
    refine bindV (fun r' => r' = r) (pure r) (fun _ _ _ => rfl) (fun r' hr' => ?_)
    subst hr'
    cases r' with
    | done v => exact pure _
    | yield v => exact ih (μ v) (by rw [← h]; exact hd v rfl) v rfl

end Rel

theorem RelAt.of_rel {R : Sys → Sys → Prop} {α : Type} {m : M α} {s1 s2 : Sys} (hm : Rel R m) (h : R s1 s2) :
    RelAt R s1 s2 m m := hm s1 s2 h

theorem RelAt.set_bind {R : Sys → Sys → Prop} {β : Type} {s1 s2 s1' s2' : Sys} {g : PUnit → M β}
    (h : R s1' s2') (hg : Rel R (g ⟨⟩)) : RelAt R s1 s2 (set s1' >>= g) (set s2' >>= g) :=
  hg s1' s2' h


/-! ## The relation -/

/-- a queue entry that may be run by EXEC without leaving the databases of `T` -/
def selTarget (args : List Bytes) : Option Nat :=
  match args with
  | [b] => match Conv.dbIndex b with
    | .ok i => some i.toNat
    | .error _ => none
  | _ => none

/-- `s₂` is `s₁` with other databases outside `T`; inside `T` they agree; outside `T` they are `D₁` resp. `D₂`;
when `b` is set, connection `c` is selected on a database of `T`; every command queued on `c` satisfies `A`. -/
structure Sim (T : Nat → Prop) (c : Nat) (b : Bool) (A : String × List Bytes → Prop) (D1 D2 : List Dict)
    (s1 s2 : Sys) : Prop where
  eqv : s2 = withDbs s1 s2.srv.dbs
  len : s2.srv.dbs.length = s1.srv.dbs.length
  on : ∀ j, T j → s2.srv.dbs.getD j [] = s1.srv.dbs.getD j []
  off1 : ∀ j, ¬ T j → s1.srv.dbs.getD j [] = D1.getD j []
  off2 : ∀ j, ¬ T j → s2.srv.dbs.getD j [] = D2.getD j []
  sel : b = true → T (s1.conn c).db
  qok : ∀ q, (s1.conn c).tx = some q → ∀ e ∈ q, A e

section leaves
variable {T : Nat → Prop} {c : Nat} {b : Bool} {A : String × List Bytes → Prop} {D1 D2 : List Dict}

theorem Sim.exD {s1 s2 : Sys} (h : Sim T c b A D1 D2 s1 s2) : ∃ D, s2 = withDbs s1 D := ⟨_, h.eqv⟩

theorem Sim.weaken {s1 s2 : Sys} (h : Sim T c b A D1 D2 s1 s2) : Sim T c false A D1 D2 s1 s2 :=
  { h with sel := fun hb => nomatch hb }

theorem Sim.refl (s : Sys) (hsel : b = true → T (s.conn c).db) (hq : ∀ q, (s.conn c).tx = some q → ∀ e ∈ q, A e) :
    Sim T c b A s.srv.dbs s.srv.dbs s s :=
  ⟨rfl, rfl, fun _ _ => rfl, fun _ _ => rfl, fun _ _ => rfl, hsel, hq⟩

/-- a state change that neither reads nor writes the databases and keeps `db`/`tx` of connection `c` -/
theorem Sim.frame {s1 s2 : Sys} (h : Sim T c b A D1 D2 s1 s2) (g : Sys → Sys)
    (hg : ∀ s D, g (withDbs s D) = withDbs (g s) D) (hdbs : (g s1).srv.dbs = s1.srv.dbs)
    (hdb : ((g s1).conn c).db = (s1.conn c).db) (htx : ((g s1).conn c).tx = (s1.conn c).tx) :
    Sim T c b A D1 D2 (g s1) (g s2) := by
  obtain ⟨D, rfl⟩ := h.exD
  have h2 : (g (withDbs s1 D)).srv.dbs = D := by rw [hg]
  refine ⟨?_, ?_, ?_, ?_, ?_, ?_, ?_⟩
  · rw [h2, hg]
  · rw [h2, hdbs]; exact h.len
  · intro j hj; rw [h2, hdbs]; exact h.on j hj
  · intro j hj; rw [hdbs]; exact h.off1 j hj
  · intro j hj; rw [h2]; exact h.off2 j hj
  · intro hb; rw [hdb]; exact h.sel hb
  · rw [htx]; exact h.qok

theorem rel_modify_frame (g : Sys → Sys) (hg : ∀ s D, g (withDbs s D) = withDbs (g s) D)
    (hdbs : ∀ s, (g s).srv.dbs = s.srv.dbs) (hconns : ∀ s, (g s).srv.conns = s.srv.conns) :
    Rel (Sim T c b A D1 D2) (modify g) := by
  intro s1 s2 h
  refine ⟨rfl, h.frame g hg (hdbs s1) ?_ ?_⟩
  · simp only [Sys.conn_def, hconns]
  · simp only [Sys.conn_def, hconns]

theorem rel_getConn (c' : Nat) : Rel (Sim T c b A D1 D2) (getConn c') := by
  intro s1 s2 h
  obtain ⟨D, rfl⟩ := h.exD
  exact ⟨rfl, h⟩

theorem rel_getConn_bind {β : Type} {f : Conn → M β}
    (hf : ∀ conn : Conn, (b = true → T conn.db) → (∀ q, conn.tx = some q → ∀ e ∈ q, A e) →
      Rel (Sim T c b A D1 D2) (f conn)) :
    Rel (Sim T c b A D1 D2) (getConn c >>= f) :=
  Rel.bindV (fun conn => (b = true → T conn.db) ∧ (∀ q, conn.tx = some q → ∀ e ∈ q, A e)) (rel_getConn c)
    (fun s1 s2 h => ⟨h.sel, h.qok⟩) (fun conn hc => hf conn hc.1 hc.2)

/-- reading the state, when the continuation does not look at the databases -/
theorem rel_get_bind {β : Type} {f : Sys → M β} (hf : ∀ s D, f (withDbs s D) = f s)
    (hr : ∀ s, Rel (Sim T c b A D1 D2) (f s)) : Rel (Sim T c b A D1 D2) (get >>= f) := by
  refine Rel.get_bind (fun s1 s2 h => ?_)
  obtain ⟨D, rfl⟩ := h.exD
  rw [hf s1 D]
  exact hr s1 _ _ h

theorem rel_getDb {d : Nat} (hd : T d) : Rel (Sim T c b A D1 D2) (getDb d) := by
  intro s1 s2 h
  refine ⟨?_, h⟩
  show (⟨s1.srv.dbs.getD d [], s1.srv.time⟩ : Db) = ⟨s2.srv.dbs.getD d [], s2.srv.time⟩
  rw [h.on d hd]
  obtain ⟨D, rfl⟩ := h.exD
  rfl

theorem getD_set_congr {α} (l1 l2 : List α) (d j : Nat) (x dflt : α) (hl : l2.length = l1.length)
    (h : l2.getD j dflt = l1.getD j dflt) : (l2.set d x).getD j dflt = (l1.set d x).getD j dflt := by
  by_cases hj : j = d
  · subst hj
    by_cases hlt : j < l1.length
    · rw [getD_set_self _ _ _ _ hlt, getD_set_self _ _ _ _ (hl ▸ hlt)]
    · have h1 : l1.set j x = l1 := List.set_eq_of_length_le (Nat.le_of_not_lt hlt)
      have h2 : l2.set j x = l2 := List.set_eq_of_length_le (hl ▸ Nat.le_of_not_lt hlt)
      rw [h1, h2, h]
  · rw [getD_set_ne _ _ _ _ _ hj, getD_set_ne _ _ _ _ _ hj, h]

theorem rel_setDb {d : Nat} (hd : T d) (db : Db) : Rel (Sim T c b A D1 D2) (setDb d db) := by
  intro s1 s2 h
  refine ⟨rfl, ?_⟩
  obtain ⟨D, rfl⟩ := h.exD
  simp only [setDb_run]
  refine ⟨rfl, ?_, ?_, ?_, ?_, h.sel, h.qok⟩
  · show (D.set d db.dict).length = (s1.srv.dbs.set d db.dict).length
    rw [List.length_set, List.length_set]; exact h.len
  · intro j hj
    exact getD_set_congr _ _ _ _ _ _ h.len (h.on j hj)
  · intro j hj
    have : j ≠ d := fun e => hj (e ▸ hd)
    show (s1.srv.dbs.set d db.dict).getD j [] = _
    rw [getD_set_ne _ _ _ _ _ this]; exact h.off1 j hj
  · intro j hj
    have : j ≠ d := fun e => hj (e ▸ hd)
    show (D.set d db.dict).getD j [] = _
    rw [getD_set_ne _ _ _ _ _ this]; exact h.off2 j hj

/-- an update of connection records that keeps `id`, `db` and `tx` -/
theorem rel_mapConns (g : Conn → Conn) (hid : ∀ x, (g x).id = x.id) (hdb : ∀ x, (g x).db = x.db)
    (htx : ∀ x, (g x).tx = x.tx) :
    Rel (Sim T c b A D1 D2) (modify fun s => s.mapConns g) := by
  intro s1 s2 h
  refine ⟨rfl, h.frame (fun s => s.mapConns g) (fun _ _ => rfl) rfl ?_ ?_⟩
  · exact Sys.conn_mapConns_pred s1 g c (fun x => x.db = (s1.conn c).db) hid (fun x hx => (hdb x).trans hx) rfl
  · exact Sys.conn_mapConns_pred s1 g c (fun x => x.tx = (s1.conn c).tx) hid (fun x hx => (htx x).trans hx) rfl

theorem rel_modifyConn (c' : Nat) (f : Conn → Conn) (hid : ∀ x, (f x).id = x.id) (hdb : ∀ x, (f x).db = x.db)
    (htx : ∀ x, (f x).tx = x.tx) : Rel (Sim T c b A D1 D2) (modifyConn c' f) := by
  have := rel_mapConns (T := T) (c := c) (b := b) (A := A) (D1 := D1) (D2 := D2)
    (fun x => if x.id == c' then f x else x)
    (by intro x; split <;> simp [hid]) (by intro x; split <;> simp [hdb])
    (by intro x; split <;> simp [htx])
  exact this

/-- an update of connection `c'` that may change `tx` (MULTI, DISCARD, EXEC, queueing) -/
theorem rel_modifyConn_tx (c' : Nat) (f : Conn → Conn) (hid : ∀ x, (f x).id = x.id) (hdb : b = true → ∀ x, T x.db → T (f x).db)
    (htx : ∀ x, (∀ q, x.tx = some q → ∀ e ∈ q, A e) → ∀ q, (f x).tx = some q → ∀ e ∈ q, A e) :
    Rel (Sim T c b A D1 D2) (modifyConn c' f) := by
  intro s1 s2 h
  refine ⟨rfl, ?_⟩
  obtain ⟨D, rfl⟩ := h.exD
  refine ⟨rfl, h.len, h.on, h.off1, h.off2, ?_, ?_⟩
  · intro hb
    exact Sys.conn_updConn_pred s1 c' c f (fun x => T x.db) hid (hdb hb) (h.sel hb)
  · exact Sys.conn_updConn_pred s1 c' c f (fun x => ∀ q, x.tx = some q → ∀ e ∈ q, A e) hid htx h.qok

theorem rel_clearWatches (c' : Nat) : Rel (Sim T c b A D1 D2) (clearWatches c') :=
  rel_modifyConn c' _ (fun _ => rfl) (fun _ => rfl) (fun _ => rfl)

theorem notifyFn_db (d key x) : (notifyFn d key x).db = x.db := by
  unfold notifyFn; simp only; split <;> split <;> (try split) <;> rfl

theorem notifyFn_tx (d key x) : (notifyFn d key x).tx = x.tx := by
  unfold notifyFn; simp only; split <;> split <;> (try split) <;> rfl

theorem rel_notifyWatch (d : Nat) (key : Bytes) : Rel (Sim T c b A D1 D2) (notifyWatch d key) :=
  rel_mapConns (notifyFn d key) (notifyFn_id d key) (notifyFn_db d key) (notifyFn_tx d key)

theorem rel_fault (msg : String) : Rel (Sim T c b A D1 D2) (M.fault msg) := by
  refine rel_modify_frame _ ?_ ?_ ?_
  · intro s D; dsimp only; split <;> rfl
  · intro s; split <;> rfl
  · intro s; split <;> rfl

theorem rel_emit (c' : Nat) (r : Reply) : Rel (Sim T c b A D1 D2) (emit c' r) := by
  unfold emit
  refine Rel.bind (rel_getConn c') (fun conn => ?_)
  split
  · exact rel_modify_frame _ (fun _ _ => rfl) (fun _ => rfl) (fun _ => rfl)
  · exact Rel.pure _

theorem rel_nextClock : Rel (Sim T c b A D1 D2) nextClock := by
  intro s1 s2 h
  obtain ⟨D, rfl⟩ := h.exD
  obtain ⟨srv, out, clocks, picks, flt, crashed⟩ := s1
  cases clocks with
  | nil =>
    refine ⟨rfl, ?_⟩
    exact h.frame (fun s => if s.fault.isNone then { s with fault := some "clock readings exhausted" } else s)
      (by intro s D; dsimp only; split <;> rfl) (by dsimp only; split <;> rfl) (by dsimp only; split <;> rfl)
      (by dsimp only; split <;> rfl)
  | cons t rest =>
    exact ⟨rfl, h.frame (fun s => { s with clocks := rest }) (fun _ _ => rfl) rfl rfl rfl⟩

theorem rel_nextPick : Rel (Sim T c b A D1 D2) nextPick := by
  intro s1 s2 h
  obtain ⟨D, rfl⟩ := h.exD
  obtain ⟨srv, out, clocks, picks, flt, crashed⟩ := s1
  cases picks with
  | nil => exact ⟨rfl, h⟩
  | cons t rest =>
    exact ⟨rfl, h.frame (fun s => { s with picks := rest }) (fun _ _ => rfl) rfl rfl rfl⟩


theorem rel_writebackAll {d : Nat} (hd : T d) (cis : List CI) : Rel (Sim T c b A D1 D2) (writebackAll d cis) := by
  unfold writebackAll
  refine Rel.forM (fun ci => ?_)
  refine Rel.bind (rel_getDb hd) (fun db => ?_)
  split
  rename_i db' notified heq
  refine Rel.bind (rel_setDb hd _) (fun _ => ?_)
  split
  · exact rel_notifyWatch d ci.key
  · exact Rel.pure _

theorem rel_liveKeys {d : Nat} (hd : T d) : Rel (Sim T c b A D1 D2) (liveKeys d) := by
  unfold liveKeys
  refine Rel.bind (rel_getDb hd) (fun db => ?_)
  split
  exact Rel.bind (rel_setDb hd _) (fun _ => Rel.pure _)

theorem rel_clearDb {d : Nat} (hd : T d) : Rel (Sim T c b A D1 D2) (clearDb d) := by
  unfold clearDb
  refine Rel.bind (rel_liveKeys hd) (fun ks => ?_)
  refine Rel.bind (Rel.forM (fun k => rel_notifyWatch d k)) (fun _ => ?_)
  exact rel_setDb hd _

theorem rel_okR (r : Reply) (cis : List CI) : Rel (Sim T c b A D1 D2) (okR r cis) := Rel.pure _

end leaves

/-! ## Automation -/

open Lean Elab Tactic Meta in
/-- close a `Rel` goal with a universally quantified hypothesis `∀ x…, Rel R (f x…)` of the context -/
elab "rel_hyp" : tactic => withMainContext do
  let g ← getMainGoal
  for ldecl in (← getLCtx) do
    if ldecl.isImplementationDetail then continue
    let ty ← instantiateMVars ldecl.type
    unless ty.isForall &&
      (ty.getForallBody.getAppFn.isConstOf ``FR.DbFrame.Rel || ty.getForallBody.getAppFn.isConstOf ``FR.DbFrame.Rel2) do
      continue
    let saved ← saveState
    try
      let gs ← withReducible <| g.apply ldecl.toExpr
      if gs.isEmpty then
        replaceMainGoal []
        return
      else saved.restore
    catch _ => saved.restore
  throwError "rel_hyp: no applicable hypothesis"

/-- side conditions `T d` -/
syntax "rel_side" : tactic
macro_rules | `(tactic| rel_side) => `(tactic| first
  | assumption
  | (apply_assumption <;> rfl))

syntax "rel_leaf" : tactic
macro_rules | `(tactic| rel_leaf) => `(tactic| first
  | with_reducible exact Rel.pure _
  | with_reducible exact rel_getConn _
  | with_reducible exact rel_emit _ _
  | with_reducible exact rel_fault _
  | with_reducible exact rel_nextClock
  | with_reducible exact rel_nextPick
  | with_reducible exact rel_clearWatches _
  | with_reducible exact rel_notifyWatch _ _
  | with_reducible exact rel_okR _ _
  | ((with_reducible refine rel_writebackAll ?_ _); rel_side)
  | ((with_reducible refine rel_liveKeys ?_); rel_side)
  | ((with_reducible refine rel_clearDb ?_); rel_side)
  | ((with_reducible refine rel_getDb ?_); rel_side)
  | ((with_reducible refine rel_setDb ?_ _); rel_side)
  | (with_reducible refine rel_modifyConn _ _ (fun _ => rfl) (fun _ => rfl) (fun _ => rfl))
  | ((with_reducible refine rel_modify_frame _ ?_ ?_ ?_) <;>
      first | exact fun _ _ => rfl | exact fun _ => rfl | (intros; split <;> rfl))
  | with_reducible assumption
  | rel_hyp)

syntax "rel_step" : tactic
macro_rules | `(tactic| rel_step) => `(tactic| first
  | rel_leaf
  | ((with_reducible refine rel_get_bind (fun _ _ => rfl) (fun _ => ?_)))
  | (with_reducible refine Rel.bind ?_ (fun _ => ?_))
  | (with_reducible refine Rel.forM (fun _ => ?_))
  | (with_reducible refine Rel.forIn (fun _ _ => ?_) _)
  | (with_reducible refine Rel.mapM (fun _ => ?_))
  | (with_reducible refine Rel.map _ ?_)
  | split
  | (simp only []))

/-- structural descent through a `do` block -/
syntax "rel" : tactic
macro_rules | `(tactic| rel) => `(tactic| repeat' rel_step)

/-! ## The special bodies -/

section bodies
variable {T : Nat → Prop} {c : Nat} {b : Bool} {A : String × List Bytes → Prop} {D1 D2 : List Dict}

local notation "R" => Sim T c b A D1 D2

theorem scanCmd_rel {d : Nat} (hd : T d) (args : List Arg) (cis : List CI) : Rel R (scanCmd d args cis) := by
  unfold scanCmd; rel

theorem multiCmd_rel (cis : List CI) : Rel R (multiCmd c cis) := by
  unfold multiCmd
  refine Rel.bind (rel_getConn c) (fun conn => ?_)
  split
  · rel
  · refine Rel.bind ?_ (fun _ => rel_okR _ _)
    refine rel_modifyConn_tx c _ (fun _ => rfl) (fun _ _ h => h) ?_
    intro x _ q hq e he
    cases hq
    cases he

theorem txNone_ok (f : Conn → Conn) (hf : ∀ x, (f x).tx = none) :
    ∀ x : Conn, (∀ q, x.tx = some q → ∀ e ∈ q, A e) → ∀ q, (f x).tx = some q → ∀ e ∈ q, A e := by
  intro x _ q hq
  rw [hf] at hq
  cases hq

theorem discardCmd_rel (cis : List CI) : Rel R (discardCmd c cis) := by
  unfold discardCmd
  refine Rel.bind (rel_getConn c) (fun conn => ?_)
  split
  · rel
  · refine Rel.bind ?_ (fun _ => by rel)
    exact rel_modifyConn_tx c _ (fun _ => rfl) (fun _ _ h => h) (txNone_ok _ (fun _ => rfl))

theorem watchCmd_rel (d : Nat) (args : List Arg) (cis : List CI) : Rel R (watchCmd c d args cis) := by
  unfold watchCmd; rel

theorem unwatch_rel (cis : List CI) : Rel R (do clearWatches c; okR .ok cis : M SpecialOut) := by rel

theorem selectCmd_rel (args : List Arg) (cis : List CI) (hsel : ∀ i, args = [.int i] → T i.toNat) :
    Rel R (selectCmd c args cis) := by
  unfold selectCmd
  split
  · rename_i i
    refine Rel.bind ?_ (fun _ => rel_okR _ _)
    exact rel_modifyConn_tx c _ (fun _ => rfl) (fun _ _ _ => hsel i rfl) (fun _ h => h)
  · rel

/-- SELECT with an arbitrary target: afterwards the connection need not be selected on `T` any more -/
theorem selectCmd_rel2 (args : List Arg) (cis : List CI) :
    Rel2 R (Sim T c false A D1 D2) (selectCmd c args cis) := by
  unfold selectCmd
  split
  · rename_i i
    refine Rel2.bind (Q := Sim T c false A D1 D2) ?_ (fun _ => rel_okR _ _)
    refine Rel2.pre (P := Sim T c false A D1 D2) ?_ (fun _ _ h => h.weaken)
    exact rel_modifyConn_tx c _ (fun _ => rfl) (fun h => nomatch h) (fun _ h => h)
  · exact Rel2.post (Q := R) (by rel) (fun _ _ h => Sim.weaken h)

theorem randomkeyCmd_rel {d : Nat} (hd : T d) (cis : List CI) : Rel R (randomkeyCmd d cis) := by
  unfold randomkeyCmd okR
  refine Rel.bind (rel_liveKeys hd) (fun ks => ?_)
  split
  · rel
  · refine Rel.get_bind (fun s1 s2 hs => ?_)
    obtain ⟨D, rfl⟩ := hs.exD
    simp only []
    split
    · split
      · refine RelAt.set_bind ?_ (Rel.pure _)
        rename_i rest _ _
        exact hs.frame (fun s => { s with picks := rest }) (fun _ _ => rfl) rfl rfl rfl
      · refine RelAt.of_rel ?_ hs; rel
    · refine RelAt.of_rel ?_ hs; rel

theorem subscribeGen_rel (pattern : Bool) (names : List Bytes) : Rel R (subscribeGen c pattern names) := by
  unfold subscribeGen; rel

theorem unsubscribeGen_rel (pattern : Bool) (names : List Bytes) : Rel R (unsubscribeGen c pattern names) := by
  unfold unsubscribeGen; rel

theorem publish_rel (ch msg : Bytes) : Rel R (publish ch msg) := by
  unfold publish; rel

theorem bpopPass_rel {d : Nat} (hd : T d) (left first : Bool) (keys : List Bytes) :
    Rel R (bpopPass d left first keys) := by
  induction keys with
  | nil => unfold bpopPass; rel
  | cons k rest ih => unfold bpopPass; rel

theorem brpoplpushPass_rel {d : Nat} (hd : T d) (src dst : Bytes) (first : Bool) :
    Rel R (brpoplpushPass d src dst first) := by
  unfold brpoplpushPass; rel

theorem blocking_rel (park : Bool) (kind : String) (keys : List Bytes) (timeout : Int)
    (pass : Bool → M (Except Err (Option Reply))) (hpass : ∀ first, Rel R (pass first)) :
    Rel R (blocking c park kind keys timeout pass) := by
  have h1 := hpass true
  unfold blocking; rel

theorem blockingAsync_rel (kind : String) (keys : List Bytes)
    (pass : Bool → M (Except Err (Option Reply))) (hpass : ∀ first, Rel R (pass first)) :
    Rel R (blockingAsync c kind keys pass) := by
  have h1 := hpass true
  unfold blockingAsync; rel

theorem find_name {n : String} {sig : Sig} (h : SigTable.find n = some sig) : sig.name = n := by
  unfold SigTable.find at h
  simpa using List.find?_some h

theorem runQueue_rel (inner : Inner)
    (hinner : ∀ sig raw, SigTable.find sig.name = some sig → A (sig.name, raw) → Rel R (inner sig raw))
    (q : Queue) (hq : ∀ e ∈ q, A e) : Rel R (runQueue inner c q) := by
  induction q with
  | nil => unfold runQueue; rel
  | cons a rest ih =>
    rw [runQueue_cons]
    refine Rel.bind ?_ (fun _ => Rel.bind (ih (fun e he => hq e (List.mem_cons_of_mem _ he))) (fun _ => Rel.pure _))
    unfold queueStep
    split
    · rel
    · rename_i sig hfind
      have hA : A (sig.name, a.2) := by
        rw [find_name hfind]; exact hq a (List.mem_cons_self ..)
      have := hinner sig a.2 (by rw [find_name hfind]; exact hfind) hA
      rel

theorem execCmd_rel (inner : Inner)
    (hinner : ∀ sig raw, SigTable.find sig.name = some sig → A (sig.name, raw) → Rel R (inner sig raw))
    (cis : List CI) : Rel R (execCmd inner c cis) := by
  unfold execCmd
  refine rel_getConn_bind (fun conn hsel hq => ?_)
  split
  · rel
  · rename_i queue heq
    have hrq := runQueue_rel (T := T) (c := c) (b := b) (A := A) (D1 := D1) (D2 := D2) inner hinner queue (hq queue heq)
    have hnone : ∀ f : Conn → Conn, (∀ x, (f x).id = x.id) → (∀ x, (f x).db = x.db) → (∀ x, (f x).tx = none) →
        Rel R (modifyConn c f) := fun f h1 h2 h3 =>
      rel_modifyConn_tx c f h1 (fun _ x hx => by rw [h2]; exact hx) (txNone_ok f h3)
    have m1 := hnone (fun x => { x with tx := none }) (fun _ => rfl) (fun _ => rfl) (fun _ => rfl)
    have m2 := hnone (fun x => { x with tx := none, txFailed := false }) (fun _ => rfl) (fun _ => rfl) (fun _ => rfl)
    rel

theorem lookupKey_rel {d : Nat} (hd : T d) (key pattern : Bytes) : Rel R (lookupKey d key pattern) := by
  unfold lookupKey; rel

theorem scriptCmd_rel (inner : Inner) (name : String) (args : List Arg) (cis : List CI) :
    Rel R (scriptCmd inner c name args cis) := by
  unfold scriptCmd; rel

theorem sortCmd_rel {d : Nat} (hd : T d) (args : List Arg) (cis : List CI) : Rel R (sortCmd c d args cis) := by
  have hlk := fun key pattern => lookupKey_rel (T := T) (c := c) (b := b) (A := A) (D1 := D1) (D2 := D2) hd key pattern
  unfold sortCmd
  split
  · extract_lets key wrong out x keyed err le jp
    split
    · rel
    · have hjp : ∀ x, Rel R (jp x) := by
        intro items?
        simp -zeta only [jp]
        split
        · rel
        · split
          · rel
          · extract_lets n start stop stop' gets sortby jp2
            have hjp2 : ∀ x, Rel R (jp2 x) := by
              intro sorted?
              simp -zeta only [jp2]
              rel
            clear_value jp2
            rel
      clear_value jp
      simp only []
      split
      · rel
      · rel
      · rel
      · refine Rel.get_bind (fun s1 s2 hs => ?_)
        obtain ⟨D, rfl⟩ := hs.exD
        simp only []
        split
        · split
          · refine RelAt.set_bind ?_ (by rel)
            rename_i restp _ _
            exact hs.frame (fun s => { s with picks := restp }) (fun _ _ => rfl) rfl rfl rfl
          · refine RelAt.of_rel ?_ hs; rel
        · refine RelAt.of_rel ?_ hs; rel
      · rel
  · rel

theorem zunioninter_rel (u : Bool) {d : Nat} (hd : T d) (args : List Arg) (cis : List CI) :
    Rel R (zunioninter u d args cis) := by
  unfold zunioninter
  split
  · rel
    all_goals
      refine Rel.loop_pure (fun b => b.2.2.2.2) _ (fun b => ?_) _
      repeat' split
      all_goals
        refine ⟨_, rfl, fun b' h => ?_⟩
        first
          | (cases h; done)
          | (have h := ForInStep.yield.inj h; subst h; simp_all <;> omega)
  · rel

end bodies

macro_rules | `(tactic| rel_leaf) => `(tactic| first
  | with_reducible exact subscribeGen_rel _ _
  | with_reducible exact unsubscribeGen_rel _ _
  | with_reducible exact publish_rel _ _
  | with_reducible exact multiCmd_rel _
  | with_reducible exact discardCmd_rel _
  | with_reducible exact watchCmd_rel _ _ _
  | with_reducible exact scriptCmd_rel _ _ _ _
  | ((with_reducible refine randomkeyCmd_rel ?_ _); rel_side)
  | ((with_reducible refine scanCmd_rel ?_ _ _); rel_side)
  | ((with_reducible refine sortCmd_rel ?_ _ _); rel_side)
  | ((with_reducible refine zunioninter_rel _ ?_ _ _); rel_side)
  | ((with_reducible refine lookupKey_rel ?_ _ _); rel_side)
  | ((with_reducible refine blocking_rel _ _ _ _ _ (fun _ => bpopPass_rel ?_ _ _ _)); rel_side)
  | ((with_reducible refine blockingAsync_rel _ _ _ (fun _ => bpopPass_rel ?_ _ _ _)); rel_side)
  | ((with_reducible refine blocking_rel _ _ _ _ _ (fun _ => brpoplpushPass_rel ?_ _ _ _)); rel_side)
  | ((with_reducible refine blockingAsync_rel _ _ _ (fun _ => brpoplpushPass_rel ?_ _ _ _)); rel_side))

section spine
variable {T : Nat → Prop} {c : Nat} {A : String × List Bytes → Prop} {D1 D2 : List Dict}

local notation "R" => Sim T c true A D1 D2

/-- every special body except SWAPDB, MOVE and FLUSHALL; SELECT only to a database of `T`; EXEC provided the
nested runner is fine for every queue entry satisfying `A` -/
theorem special_rel (inner : Inner) (mode : Mode) (name : String) (args : List Arg) (cis : List CI)
    (h1 : name ≠ "swapdb") (h2 : name ≠ "move") (h3 : name ≠ "flushall")
    (hsel : name = "select" → ∀ i, args = [.int i] → T i.toNat)
    (hexec : name = "exec" → ∀ sig raw, SigTable.find sig.name = some sig → A (sig.name, raw) → Rel R (inner sig raw)) :
    Rel R (special inner mode c name args cis) := by
  unfold special
  simp only []
  refine rel_getConn_bind (fun conn hsel' hq => ?_)
  have hd : T conn.db := hsel' rfl
  have hbp := fun l f k => bpopPass_rel (T := T) (c := c) (b := true) (A := A) (D1 := D1) (D2 := D2) hd l f k
  have hbr := fun x y f => brpoplpushPass_rel (T := T) (c := c) (b := true) (A := A) (D1 := D1) (D2 := D2) hd x y f
  split
  all_goals first
    | exact absurd rfl h1
    | exact absurd rfl h2
    | exact absurd rfl h3
    | exact selectCmd_rel _ _ (hsel rfl)
    | exact execCmd_rel _ (hexec rfl) _
    | rel

theorem runWith_rel (special : SpecialFn) (mode : Mode) (sig : Sig) (raw : List Bytes) (fromScript : Bool)
    (hsp : ∀ db db' args cis, sig.apply raw db = (db', .ok (.ok args cis)) → Rel R (special mode c sig.name args cis)) :
    Rel R (runWith special mode c sig raw fromScript) := by
  unfold runWith
  refine rel_getConn_bind (fun conn hsel hq => ?_)
  split
  · -- refused in subscriber mode: both runs answer the same error and change nothing
    exact Rel.pure _
  have hd : T conn.db := hsel rfl
  refine Rel.bind (rel_getDb hd) (fun db => ?_)
  extract_lets gate
  clear_value gate
  split
  · rel
  · split
    rename_i db' res happ
    refine Rel.bind (rel_setDb hd _) (fun _ => ?_)
    split
    · rel
    · rel
    · rename_i args cis
      have hs := hsp db db' args cis happ
      rel


/-- a queued command that EXEC may run without leaving the databases of `T` -/
def QAllowed (T : Nat → Prop) (e : String × List Bytes) : Prop :=
  e.1 ≠ "swapdb" ∧ e.1 ≠ "move" ∧ e.1 ≠ "flushall" ∧ (e.1 = "select" → ∀ k, selTarget e.2 = some k → T k) ∧
    e.1 ≠ "eval" ∧ e.1 ≠ "evalsha"

def selectSig : Sig := ⟨"select", [.dbIndex], [], false, 1, 0, false⟩

theorem find_select : SigTable.find "select" = some selectSig := by decide +kernel

theorem select_apply {raw : List Bytes} {db db' : Db} {args : List Arg} {cis : List CI}
    (h : selectSig.apply raw db = (db', .ok (.ok args cis))) :
    ∃ b i, raw = [b] ∧ Conv.dbIndex b = .ok i ∧ args = [.int i] := by
  match raw with
  | [] => simp [Sig.apply, Sig.checkArity, selectSig] at h
  | [b] =>
    refine ⟨b, ?_⟩
    simp only [Sig.apply, Sig.checkArity, selectSig, Sig.types, List.length_singleton, List.length_cons, List.length_nil,
      bne_self_eq_false, Bool.false_eq_true, ↓reduceIte, Bool.not_true, List.isEmpty_nil, Nat.sub_self, List.range_zero,
      List.map_nil, List.append_nil, List.zip_cons_cons, List.zip_nil_right, Sig.pass1, Conv.decode] at h
    cases hb : Conv.dbIndex b with
    | error e => simp [hb, Except.map] at h
    | ok i =>
      simp [hb, Except.map, Sig.pass1, Sig.pass2] at h
      exact ⟨i, rfl, rfl, h.2.1.symm⟩
  | b :: b' :: rest => simp [Sig.apply, Sig.checkArity, selectSig] at h

/-- the argument SELECT's body receives is the target named by the raw argument -/
theorem select_target {sig : Sig} (hfind : SigTable.find sig.name = some sig) (hname : sig.name = "select")
    {raw : List Bytes} {db db' : Db} {args : List Arg} {cis : List CI}
    (happ : sig.apply raw db = (db', .ok (.ok args cis)))
    (hT : ∀ k, selTarget raw = some k → T k) : ∀ i, args = [.int i] → T i.toNat := by
  have : sig = selectSig := by
    rw [hname, find_select] at hfind
    exact (Option.some.inj hfind).symm
  subst this
  obtain ⟨b, i, rfl, hb, rfl⟩ := select_apply happ
  intro i' hi'
  cases hi'
  exact hT _ (by simp [selTarget, hb])

def stubInner : Inner := fun _ _ => do fault "nested exec"; return none

theorem stubInner_rel (sig : Sig) (raw : List Bytes) : Rel R (stubInner sig raw) := by
  unfold stubInner; rel

theorem shaHint_rel : Rel R shaHint := by
  unfold shaHint; rel

/-- SCRIPT LOAD / EXISTS / FLUSH (the branch of `scriptBody` that runs no script) -/
theorem scriptBody_rel (special : SpecialFn) (mode : Mode) (name : String) (args : List Arg)
    (h1 : name ≠ "eval") (h2 : name ≠ "evalsha") : Rel R (scriptBody special mode c name args) := by
  have hsha := shaHint_rel (T := T) (c := c) (A := A) (D1 := D1) (D2 := D2)
  unfold scriptBody
  refine rel_get_bind (fun _ _ => rfl) (fun s => ?_)
  split
  · exact absurd rfl h1
  · exact absurd rfl h2
  · rel
  · rel

theorem runScriptCmd_rel (mode : Mode) (sig : Sig) (raw : List Bytes) (fromScript : Bool)
    (h1 : sig.name ≠ "eval") (h2 : sig.name ≠ "evalsha") : Rel R (runScriptCmd mode c sig raw fromScript) := by
  have hbody := fun args => scriptBody_rel (T := T) (c := c) (A := A) (D1 := D1) (D2 := D2)
    (special (fun _ _ => do fault "nested exec"; return none)) mode sig.name args h1 h2
  unfold runScriptCmd
  refine rel_getConn_bind (fun conn hsel hq => ?_)
  have hd : T conn.db := hsel rfl
  rel

/-- EXEC's nested runner: a queued script command is run by the direct script runner, so the queued commands
must not be EVAL / EVALSHA either (as for a direct request, `runCommand_rel`); `QAllowed` says so -/
theorem runInner_rel (mode : Mode) (sig : Sig) (raw : List Bytes) (hfind : SigTable.find sig.name = some sig)
    (hA : QAllowed T (sig.name, raw)) : Rel R (runInner mode c sig raw) := by
  refine runInner_cases (P := fun m => Rel R m) mode c sig raw
    (fun _ => runScriptCmd_rel mode sig raw false hA.2.2.2.2.1 hA.2.2.2.2.2) (fun _ => ?_)
  refine runWith_rel _ mode sig raw false (fun db db' args cis happ => ?_)
  refine special_rel _ mode sig.name args cis hA.1 hA.2.1 hA.2.2.1 ?_ ?_
  · intro hname
    exact select_target hfind hname happ (hA.2.2.2.1 hname)
  · intro _ sig' raw' _ _
    exact stubInner_rel sig' raw'

/-- `_run_command` for a command issued by a client: every command except SWAPDB, MOVE, FLUSHALL, EVAL, EVALSHA;
SELECT only to a database of `T`; EXEC when every queued command satisfies `QAllowed T` -/
theorem runCommand_rel (mode : Mode) (sig : Sig) (raw : List Bytes) (fromScript : Bool)
    (hfind : SigTable.find sig.name = some sig)
    (hA : QAllowed T (sig.name, raw)) (h4 : sig.name ≠ "eval") (h5 : sig.name ≠ "evalsha")
    (hexec : sig.name = "exec" → ∀ e, A e → QAllowed T e) :
    Rel R (runCommand mode c sig raw fromScript) := by
  unfold runCommand
  split
  · exact runScriptCmd_rel mode sig raw fromScript h4 h5
  · refine runWith_rel _ mode sig raw fromScript (fun db db' args cis happ => ?_)
    refine special_rel _ mode sig.name args cis hA.1 hA.2.1 hA.2.2.1 ?_ ?_
    · intro hname
      exact select_target hfind hname happ (hA.2.2.2.1 hname)
    · intro hname sig' raw' hfind' hA'
      exact runInner_rel mode sig' raw' hfind' (hexec hname _ hA')

theorem cleanupClosed_rel : Rel R cleanupClosed := by
  unfold cleanupClosed; rel


/-- the lower-cased command name of a request (`""` when there is none) -/
def cmdName : List Bytes → String
  | [] => ""
  | nameB :: _ => (commandName nameB).getD ""

/-- `_process_command` for a request whose command is none of SWAPDB, MOVE, FLUSHALL, EVAL, EVALSHA; a SELECT must
name a database of `T`; the request itself satisfies `A` (it may be queued); for EXEC, `A` implies `QAllowed T` -/
theorem processCommand_rel (mode : Mode) (fields : List Bytes)
    (hQ : QAllowed T (cmdName fields, fields.tail)) (h4 : cmdName fields ≠ "eval") (h5 : cmdName fields ≠ "evalsha")
    (hA : A (cmdName fields, fields.tail))
    (hexec : cmdName fields = "exec" → ∀ e, A e → QAllowed T e) :
    Rel R (processCommand mode c fields) := by
  unfold processCommand
  split
  · rel
  · rename_i nameB args
    refine rel_getConn_bind (fun conn hsel hq => ?_)
    extract_lets sig?
    have hsig : ∀ sig, sig? = some sig → SigTable.find sig.name = some sig ∧ sig.name = cmdName (nameB :: args) := by
      intro sig h
      simp only [sig?] at h
      split at h
      · rename_i n hn
        split at h
        · cases h
        · have := find_name h
          refine ⟨by rw [this]; exact h, ?_⟩
          simp only [cmdName, hn, Option.getD_some, this]
      · cases h
    clear_value sig?
    split
    · rel
    · rename_i _ sig
      obtain ⟨hfind, hname⟩ := hsig sig rfl
      rw [← hname] at hQ h4 h5 hA hexec
      have hrun := runCommand_rel (T := T) (c := c) (A := A) (D1 := D1) (D2 := D2) mode sig args false hfind hQ h4 h5 hexec
      have hcl := cleanupClosed_rel (T := T) (c := c) (A := A) (D1 := D1) (D2 := D2)
      have mq : Rel R (modifyConn c fun x => { x with tx := x.tx.map (· ++ [(sig.name, args)]) }) := by
        refine rel_modifyConn_tx c _ (fun _ => rfl) (fun _ _ h => h) ?_
        intro x hx q hq' e he
        cases htx : x.tx with
        | none => simp [htx] at hq'
        | some q0 =>
          simp only [htx, Option.map_some, Option.some.injEq] at hq'
          subst hq'
          rcases List.mem_append.1 he with he | he
          · exact hx q0 htx e he
          · rw [List.mem_singleton.1 he]; exact hA
      have m2 : Rel R (modifyConn c fun x => { x with tx := none, txFailed := false }) :=
        rel_modifyConn_tx c _ (fun _ => rfl) (fun _ _ h => h) (txNone_ok _ (fun _ => rfl))
      rel

end spine

/-! ## From the relation to statements about two runs -/

/-- `s₂` is `s₁` except for the content of the databases outside `T` -/
structure Agree (T : Nat → Prop) (s1 s2 : Sys) : Prop where
  eqv : s2 = withDbs s1 s2.srv.dbs
  len : s2.srv.dbs.length = s1.srv.dbs.length
  on : ∀ j, T j → s2.srv.dbs.getD j [] = s1.srv.dbs.getD j []

theorem Agree.refl (T : Nat → Prop) (s : Sys) : Agree T s s := ⟨rfl, rfl, fun _ _ => rfl⟩

theorem Agree.out {T : Nat → Prop} {s1 s2 : Sys} (h : Agree T s1 s2) : s2.out = s1.out := by
  rw [h.eqv]

theorem Agree.conn {T : Nat → Prop} {s1 s2 : Sys} (h : Agree T s1 s2) (c : Nat) : s2.conn c = s1.conn c := by
  rw [h.eqv]; rfl

theorem Agree.toSim {T : Nat → Prop} {s1 s2 : Sys} (h : Agree T s1 s2) (c : Nat) (b : Bool)
    (A : String × List Bytes → Prop) (hsel : b = true → T (s1.conn c).db)
    (hq : ∀ q, (s1.conn c).tx = some q → ∀ e ∈ q, A e) : Sim T c b A s1.srv.dbs s2.srv.dbs s1 s2 :=
  ⟨h.eqv, h.len, h.on, fun _ _ => rfl, fun _ _ => rfl, hsel, hq⟩

theorem Sim.agree {T : Nat → Prop} {c : Nat} {b : Bool} {A : String × List Bytes → Prop} {D1 D2 : List Dict}
    {s1 s2 : Sys} (h : Sim T c b A D1 D2 s1 s2) : Agree T s1 s2 := ⟨h.eqv, h.len, h.on⟩

/-- what a `Rel2` fact says about two concrete runs -/
theorem Rel2.run {T : Nat → Prop} {c : Nat} {b b' : Bool} {A : String × List Bytes → Prop} {α : Type} {m : M α}
    (hm : ∀ D1 D2, Rel2 (Sim T c b A D1 D2) (Sim T c b' A D1 D2) m) {s1 s2 : Sys} (h : Agree T s1 s2)
    (hsel : b = true → T (s1.conn c).db) (hq : ∀ q, (s1.conn c).tx = some q → ∀ e ∈ q, A e) :
    (m s1).1 = (m s2).1 ∧ Agree T (m s1).2 (m s2).2 ∧
    (∀ j, ¬ T j → (m s1).2.srv.dbs.getD j [] = s1.srv.dbs.getD j []) ∧
    (∀ j, ¬ T j → (m s2).2.srv.dbs.getD j [] = s2.srv.dbs.getD j []) ∧
    (b' = true → T ((m s1).2.conn c).db) ∧ (∀ q, ((m s1).2.conn c).tx = some q → ∀ e ∈ q, A e) := by
  obtain ⟨hv, hs⟩ := hm _ _ s1 s2 (h.toSim c b A hsel hq)
  exact ⟨hv, hs.agree, hs.off1, hs.off2, hs.sel, hs.qok⟩

/-- the requests covered by the non-interference theorem -/
def ReqOk (T : Nat → Prop) (fields : List Bytes) : Prop :=
  QAllowed T (cmdName fields, fields.tail) ∧ cmdName fields ≠ "eval" ∧ cmdName fields ≠ "evalsha"

theorem processCommand_run (T : Nat → Prop) (mode : Mode) (c : Nat) (fields : List Bytes) (hok : ReqOk T fields)
    {s1 s2 : Sys} (h : Agree T s1 s2) (hsel : T (s1.conn c).db)
    (hq : ∀ q, (s1.conn c).tx = some q → ∀ e ∈ q, QAllowed T e) :
    Agree T (processCommand mode c fields s1).2 (processCommand mode c fields s2).2 ∧
    (∀ j, ¬ T j → (processCommand mode c fields s1).2.srv.dbs.getD j [] = s1.srv.dbs.getD j []) ∧
    (∀ j, ¬ T j → (processCommand mode c fields s2).2.srv.dbs.getD j [] = s2.srv.dbs.getD j []) ∧
    T ((processCommand mode c fields s1).2.conn c).db ∧
    (∀ q, ((processCommand mode c fields s1).2.conn c).tx = some q → ∀ e ∈ q, QAllowed T e) := by
  have := Rel2.run (T := T) (c := c) (b := true) (b' := true) (A := QAllowed T)
    (fun D1 D2 => processCommand_rel mode fields hok.1 hok.2.1 hok.2.2 hok.1 (fun _ _ h => h)) h (fun _ => hsel) hq
  exact ⟨this.2.1, this.2.2.1, this.2.2.2.1, this.2.2.2.2.1 rfl, this.2.2.2.2.2⟩


/-! ## Blocked connections -/

section wake
variable {T : Nat → Prop} {c : Nat} {b : Bool} {A : String × List Bytes → Prop} {D1 D2 : List Dict}
local notation "R" => Sim T c b A D1 D2

theorem parkedPass_rel (c' : Nat) (p : Parked) (hp : T p.db) : Rel R (parkedPass c' p) := by
  have h1 := fun x y f => brpoplpushPass_rel (T := T) (c := c) (b := b) (A := A) (D1 := D1) (D2 := D2) hp x y f
  have h2 := fun l f k => bpopPass_rel (T := T) (c := c) (b := b) (A := A) (D1 := D1) (D2 := D2) hp l f k
  unfold parkedPass
  rel

/-- the state fact a wake-up needs: the connection is parked on a database of `T` -/
def ParkedIn (T : Nat → Prop) (c' : Nat) (s : Sys) : Prop := ∀ p, (s.conn c').parked = some p → T p.db

theorem getConn_parked_bind {β : Type} (c' : Nat) {f : Conn → M β}
    (hf : ∀ conn : Conn, (∀ p, conn.parked = some p → T p.db) → Rel R (f conn)) :
    Rel2 (fun s1 s2 => R s1 s2 ∧ ParkedIn T c' s1) R (getConn c' >>= f) := by
  refine Rel2.bindV (Q := R) (fun conn => ∀ p, conn.parked = some p → T p.db) ?_ (fun s1 s2 h => h.2) hf
  exact Rel2.pre (rel_getConn c') (fun _ _ h => h.1)

theorem wakeConn_rel (c' : Nat) : Rel2 (fun s1 s2 => R s1 s2 ∧ ParkedIn T c' s1) R (wakeConn c') := by
  unfold wakeConn
  refine getConn_parked_bind c' (fun conn hconn => ?_)
  split
  · rel
  · rename_i p hp
    have := parkedPass_rel (T := T) (c := c) (b := b) (A := A) (D1 := D1) (D2 := D2) c' p (hconn p hp)
    rel

theorem timeoutConn_rel (c' : Nat) : Rel R (timeoutConn c') := by
  unfold timeoutConn; rel

end wake


/-! ## Histories -/

theorem Agree.map {T : Nat → Prop} {s1 s2 : Sys} (h : Agree T s1 s2) (g : Sys → Sys)
    (hg : ∀ s D, g (withDbs s D) = withDbs (g s) D) (hdbs : ∀ s, (g s).srv.dbs = s.srv.dbs) :
    Agree T (g s1) (g s2) := by
  obtain ⟨e, l, o⟩ := h
  have h2 : (g s2).srv.dbs = s2.srv.dbs := hdbs s2
  refine ⟨?_, ?_, ?_⟩
  · rw [h2]; conv => lhs; rw [e, hg]
  · rw [h2, hdbs]; exact l
  · intro j hj; rw [h2, hdbs]; exact o j hj

/-- the events covered by the history theorem, judged in the state they are run from -/
def OkEv (T : Nat → Prop) (s : Sys) : Ev → Prop
  | .request _ c fields _ _ =>
    T (s.conn c).db ∧ (∀ q, (s.conn c).tx = some q → ∀ e ∈ q, QAllowed T e) ∧ ReqOk T fields
  | .wake c _ => ParkedIn T c s
  | .send .. => False
  | .awake .. => False
  | .atimeout .. => False
  | _ => True

/-- the result of one event for two states that agree on `T` -/
structure StepOk (T : Nat → Prop) (s1 s2 r1 r2 : Sys) : Prop where
  agree : Agree T r1 r2
  off1 : ∀ j, ¬ T j → r1.srv.dbs.getD j [] = s1.srv.dbs.getD j []
  off2 : ∀ j, ¬ T j → r2.srv.dbs.getD j [] = s2.srv.dbs.getD j []

theorem StepOk.of_map {T : Nat → Prop} {s1 s2 : Sys} (h : Agree T s1 s2) (g : Sys → Sys)
    (hg : ∀ s D, g (withDbs s D) = withDbs (g s) D) (hdbs : ∀ s, (g s).srv.dbs = s.srv.dbs) :
    StepOk T s1 s2 (g s1) (g s2) :=
  ⟨h.map g hg hdbs, fun _ _ => by rw [hdbs], fun _ _ => by rw [hdbs]⟩

theorem closeConn_run (c : Nat) (s : Sys) : (closeConn c s).2 =
    ({ s with srv := { s.srv with closedSockets := s.srv.closedSockets ++ [c] } } : Sys).updConn c
      (fun x => { x with closed := true }) := rfl

theorem stepEv_agree {T : Nat → Prop} {s1 s2 : Sys} (h : Agree T s1 s2) (e : Ev) (hok : OkEv T s1 e) :
    StepOk T s1 s2 (stepEv s1 e) (stepEv s2 e) := by
  have hb : ∀ clocks picks, Agree T (s1.beginEvent.withHints clocks picks) (s2.beginEvent.withHints clocks picks) :=
    fun clocks picks => h.map (fun s => s.beginEvent.withHints clocks picks) (fun _ _ => rfl) (fun _ => rfl)
  cases e with
  | version v =>
    exact StepOk.of_map h (fun s => { s.beginEvent with srv := { s.beginEvent.srv with version := v } })
      (fun _ _ => rfl) (fun _ => rfl)
  | «open» c => exact StepOk.of_map h (fun s => (openConn c s.beginEvent).2) (fun _ _ => rfl) (fun _ => rfl)
  | close c => exact StepOk.of_map h (fun s => (closeConn c s.beginEvent).2) (fun _ _ => rfl) (fun _ => rfl)
  | gc c => exact StepOk.of_map h (fun s => (gcConn c s.beginEvent).2) (fun _ _ => rfl) (fun _ => rfl)
  | conn up =>
    exact StepOk.of_map h (fun s => { s.beginEvent with srv := { s.beginEvent.srv with connected := up } })
      (fun _ _ => rfl) (fun _ => rfl)
  | request mode c fields clocks picks =>
    obtain ⟨hsel, hq, hr⟩ := hok
    have := processCommand_run T mode c fields hr (hb clocks picks) hsel hq
    exact ⟨this.1, this.2.1, this.2.2.1⟩
  | send mode c data clocks picks => exact absurd hok id
  | wake c clocks =>
    have hs := (hb clocks []).toSim c false (fun _ => True) (fun hb => nomatch hb) (fun _ _ _ _ => trivial)
    obtain ⟨_, hr⟩ := wakeConn_rel c _ _ ⟨hs, hok⟩
    exact ⟨hr.agree, hr.off1, hr.off2⟩
  | timeout c =>
    have hs := (hb [] []).toSim c false (fun _ => True) (fun hb => nomatch hb) (fun _ _ _ _ => trivial)
    have hb0 : Agree T s1.beginEvent s2.beginEvent := h.map (fun s => s.beginEvent) (fun _ _ => rfl) (fun _ => rfl)
    have hs := hb0.toSim c false (fun _ => True) (fun hb => nomatch hb) (fun _ _ _ _ => trivial)
    obtain ⟨_, hr⟩ := timeoutConn_rel c _ _ hs
    exact ⟨hr.agree, hr.off1, hr.off2⟩
  | awake mode c clocks picks => exact absurd hok id
  | atimeout mode c clocks picks => exact absurd hok id

/-- every event of the history is covered, judged along the run from `s` -/
def OkHist (T : Nat → Prop) : Sys → List Ev → Prop
  | _, [] => True
  | s, e :: es => OkEv T s e ∧ OkHist T (stepEv s e) es

/-- the replies emitted by each event of a history, in order -/
def outs : Sys → List Ev → List (List (Nat × Reply))
  | _, [] => []
  | s, e :: es => (stepEv s e).out :: outs (stepEv s e) es

theorem history_agree {T : Nat → Prop} (evs : List Ev) {s1 s2 : Sys} (h : Agree T s1 s2) (hok : OkHist T s1 evs) :
    outs s2 evs = outs s1 evs ∧ StepOk T s1 s2 (evs.foldl stepEv s1) (evs.foldl stepEv s2) := by
  induction evs generalizing s1 s2 with
  | nil => exact ⟨rfl, h, fun _ _ => rfl, fun _ _ => rfl⟩
  | cons e es ih =>
    obtain ⟨he, hes⟩ := hok
    have hstep := stepEv_agree h e he
    obtain ⟨ho, hr⟩ := ih hstep.agree hes
    refine ⟨?_, hr.agree, ?_, ?_⟩
    · simp only [outs, ho, hstep.agree.out]
    · intro j hj; rw [List.foldl_cons, hr.off1 j hj, hstep.off1 j hj]
    · intro j hj; rw [List.foldl_cons, hr.off2 j hj, hstep.off2 j hj]

/-! ## SELECT with an arbitrary target: a spine with a weaker post-relation -/

section selectSpine
variable {T : Nat → Prop} {c : Nat} {A : String × List Bytes → Prop} {D1 D2 : List Dict}
local notation "R" => Sim T c true A D1 D2
local notation "R'" => Sim T c false A D1 D2

theorem Rel.weak {α : Type} {m : M α} (h : Rel R m) : Rel2 R R' m := Rel2.post h (fun _ _ h => h.weaken)

theorem special_select_rel2 (inner : Inner) (mode : Mode) (name : String) (args : List Arg) (cis : List CI)
    (hname : name = "select") : Rel2 R R' (special inner mode c name args cis) := by
  unfold special
  simp only []
  refine Rel2.bind (Q := R) (rel_getConn c) (fun conn => ?_)
  split
  all_goals first
    | exact selectCmd_rel2 _ _
    | exact absurd hname (by decide)
    | exact Rel.weak (by rel)

theorem runWith_select_rel2 (special : SpecialFn) (mode : Mode) (sig : Sig) (raw : List Bytes) (fromScript : Bool)
    (hsp : ∀ args cis, Rel2 R R' (special mode c sig.name args cis)) :
    Rel2 R R' (runWith special mode c sig raw fromScript) := by
  unfold runWith
  refine Rel2.bindV (Q := R) (fun conn => T conn.db) (rel_getConn c) (fun s1 s2 h => h.sel rfl) (fun conn hd => ?_)
  split
  · exact Rel.weak (Rel.pure _)
  refine Rel2.bind (Q := R) (rel_getDb hd) (fun db => ?_)
  extract_lets gate
  clear_value gate
  split
  · exact Rel.weak (by rel)
  · split
    rename_i db' res happ
    refine Rel2.bind (Q := R) (rel_setDb hd _) (fun _ => ?_)
    split
    · exact Rel.weak (by rel)
    · exact Rel.weak (by rel)
    · rename_i args cis
      split
      · exact Rel.weak (by rel)
      · refine Rel2.bind (hsp args cis) (fun r => ?_)
        show Rel R' _
        rel

theorem runCommand_select_rel2 (mode : Mode) (sig : Sig) (raw : List Bytes) (fromScript : Bool)
    (hname : sig.name = "select") : Rel2 R R' (runCommand mode c sig raw fromScript) := by
  unfold runCommand
  split
  · rename_i h
    rw [hname] at h
    exact absurd h (by decide)
  · exact runWith_select_rel2 _ mode sig raw fromScript (fun args cis => special_select_rel2 _ mode _ args cis hname)

theorem processCommand_select_rel2 (mode : Mode) (fields : List Bytes) (hname : cmdName fields = "select")
    (hA : A (cmdName fields, fields.tail)) : Rel2 R R' (processCommand mode c fields) := by
  unfold processCommand
  split
  · exact Rel.weak (by rel)
  · rename_i nameB args
    refine Rel2.bind (Q := R) (rel_getConn c) (fun conn => ?_)
    extract_lets sig?
    have hsig : ∀ sig, sig? = some sig → sig.name = cmdName (nameB :: args) := by
      intro sig h
      simp only [sig?] at h
      split at h
      · rename_i n hn
        split at h
        · cases h
        · have := find_name h
          simp only [cmdName, hn, Option.getD_some, this]
      · cases h
    clear_value sig?
    split
    · exact Rel.weak (by rel)
    · rename_i _ sig
      have hn := hsig sig rfl
      rw [← hn] at hname hA
      have hrun := runCommand_select_rel2 (T := T) (c := c) (A := A) (D1 := D1) (D2 := D2) mode sig args false hname
      have hcl := cleanupClosed_rel (T := T) (c := c) (A := A) (D1 := D1) (D2 := D2)
      have mq : Rel R (modifyConn c fun x => { x with tx := x.tx.map (· ++ [(sig.name, args)]) }) := by
        refine rel_modifyConn_tx c _ (fun _ => rfl) (fun _ _ h => h) ?_
        intro x hx q hq' e he
        cases htx : x.tx with
        | none => simp [htx] at hq'
        | some q0 =>
          simp only [htx, Option.map_some, Option.some.injEq] at hq'
          subst hq'
          rcases List.mem_append.1 he with he | he
          · exact hx q0 htx e he
          · rw [List.mem_singleton.1 he]; exact hA
      have m2 : Rel R (modifyConn c fun x => { x with tx := none, txFailed := false }) :=
        rel_modifyConn_tx c _ (fun _ => rfl) (fun _ _ h => h) (txNone_ok _ (fun _ => rfl))
      refine Rel2.bind (Q := R) hcl (fun _ => ?_)
      refine Rel2.bind (Q := R) rel_nextClock (fun now => ?_)
      refine Rel2.bind (Q := R) (by rel) (fun _ => ?_)
      split
      · exact Rel.weak (by rel)
      · split
        · exact Rel.weak (by rel)
        · refine Rel2.bind hrun (fun r => ?_)
          show Rel R' _
          rel

end selectSpine
/-! ## Exact effect of SWAPDB, FLUSHALL, FLUSHDB, MOVE (special bodies) -/

/-- forget the connection records -/
def noConns (s : Sys) : Sys := { s with srv := { s.srv with conns := [] } }

theorem forM_notify2_frame {β} (P : Sys → β) (hP : ∀ s g, P (s.mapConns g) = P s)
    (a b : Nat) (ks : List Bytes) (s : Sys) :
    P ((ks.forM fun key => do notifyWatch a key; notifyWatch b key) s).2 = P s := by
  induction ks generalizing s with
  | nil => rfl
  | cons k ks ih =>
    have : ((k :: ks).forM fun key => do notifyWatch a key; notifyWatch b key) s
        = (ks.forM fun key => do notifyWatch a key; notifyWatch b key)
            ((s.mapConns (notifyFn a k)).mapConns (notifyFn b k)) := rfl
    rw [this, ih, hP, hP]

/-- purge of the dictionary `d` at time `t` -/
def purgeAt (t : Int) (d : Dict) : Dict := (Db.purge ⟨d, t⟩).dict

theorem liveKeys_run (d : Nat) (s : Sys) : liveKeys d s =
    ((purgeAt s.srv.time (s.srv.dbs.getD d [])).map Prod.fst,
      { s with srv := { s.srv with dbs := s.srv.dbs.set d (purgeAt s.srv.time (s.srv.dbs.getD d [])) } }) := rfl

/-- the databases after `SWAPDB a b` (`a ≠ b`) -/
def swapDbs (D : List Dict) (t : Int) (a b : Nat) : List Dict :=
  let D2 := (D.set a (D.getD b [])).set b (D.getD a [])
  let D3 := D2.set a (purgeAt t (D2.getD a []))
  D3.set b (purgeAt t (D3.getD b []))

theorem swapdbCmd_ne (i1 i2 : Int) (cis : List CI) (s : Sys) (hne : i1 ≠ i2) :
    (swapdbCmd [.int i1, .int i2] cis s).1 = .ok (some .ok, cis) ∧
    noConns (swapdbCmd [.int i1, .int i2] cis s).2 =
      noConns { s with srv := { s.srv with dbs := swapDbs s.srv.dbs s.srv.time i1.toNat i2.toNat } } := by
  have hb : (i1 != i2) = true := by simpa using hne
  have key : ∃ ks : List Bytes, swapdbCmd [.int i1, .int i2] cis s = (.ok (some .ok, cis),
      ((ks.forM fun key => do notifyWatch i1.toNat key; notifyWatch i2.toNat key)
        { s with srv := { s.srv with dbs := swapDbs s.srv.dbs s.srv.time i1.toNat i2.toNat } }).2) := by
    refine Exists.intro ?w ?h
    case h =>
      unfold swapdbCmd
      simp only [hb, if_true]
      rfl
  obtain ⟨ks, hk⟩ := key
  rw [hk]
  exact ⟨rfl, forM_notify2_frame noConns (fun _ _ => rfl) _ _ _ _⟩

theorem swapdbCmd_same (i : Int) (cis : List CI) (s : Sys) :
    swapdbCmd [.int i, .int i] cis s = (.ok (some .ok, cis), s) := by
  unfold swapdbCmd
  simp only [bne_self_eq_false, Bool.false_eq_true, if_false]
  rfl

theorem swapDbs_spec (D : List Dict) (t : Int) (a b : Nat) (hab : a ≠ b) (ha : a < D.length) (hb : b < D.length) :
    (swapDbs D t a b).getD a [] = purgeAt t (D.getD b []) ∧
    (swapDbs D t a b).getD b [] = purgeAt t (D.getD a []) ∧
    (∀ j, j ≠ a → j ≠ b → (swapDbs D t a b).getD j [] = D.getD j []) ∧
    (swapDbs D t a b).length = D.length := by
  unfold swapDbs
  simp only []
  refine ⟨?_, ?_, ?_, ?_⟩
  · rw [getD_set_ne _ _ _ _ _ hab, getD_set_self _ _ _ _ (by simp [ha]), getD_set_ne _ _ _ _ _ hab,
      getD_set_self _ _ _ _ ha]
  · rw [getD_set_self _ _ _ _ (by simp [hb]), getD_set_ne _ _ _ _ _ (Ne.symm hab),
      getD_set_self _ _ _ _ (by simp [hb])]
  · intro j hja hjb
    rw [getD_set_ne _ _ _ _ _ hjb, getD_set_ne _ _ _ _ _ hja, getD_set_ne _ _ _ _ _ hjb, getD_set_ne _ _ _ _ _ hja]
  · simp


theorem forM_notify_frame {β} (P : Sys → β) (hP : ∀ s g, P (s.mapConns g) = P s)
    (d : Nat) (ks : List Bytes) (s : Sys) : P ((ks.forM (notifyWatch d)) s).2 = P s :=
  forM_notifyWatch_frame P hP d ks s

/-- `Database.clear` of database `d`: its dictionary becomes empty, the other databases are untouched -/
theorem clearDb_dbs (d : Nat) (s : Sys) : (clearDb d s).2.srv.dbs = s.srv.dbs.set d [] := by
  have key : ∃ ks : List Bytes, (clearDb d s).2.srv.dbs =
      ((ks.forM (notifyWatch d))
          { s with srv := { s.srv with dbs := s.srv.dbs.set d (purgeAt s.srv.time (s.srv.dbs.getD d [])) } }).2.srv.dbs.set d [] := by
    refine Exists.intro ?w ?h
    case h => rfl
  obtain ⟨ks, hk⟩ := key
  rw [hk, forM_notify_frame (fun s => s.srv.dbs) (fun _ _ => rfl) d ks]
  simp only [List.set_set]

theorem forM_clearDb_dbs (l : List Nat) (s : Sys) :
    (l.forM clearDb s).2.srv.dbs = l.foldl (fun D d => D.set d []) s.srv.dbs := by
  induction l generalizing s with
  | nil => rfl
  | cons d l ih =>
    have : ((d :: l).forM clearDb) s = (l.forM clearDb) (clearDb d s).2 := rfl
    rw [this, ih, clearDb_dbs]
    rfl

theorem foldl_clear_getD (l : List Nat) (D : List Dict) (j : Nat) :
    (l.foldl (fun D d => D.set d []) D).getD j [] = if j ∈ l then [] else D.getD j [] := by
  induction l generalizing D with
  | nil => simp
  | cons d l ih =>
    rw [List.foldl_cons, ih]
    by_cases hj : j ∈ l
    · simp [hj]
    · simp only [hj, if_false, List.mem_cons, or_false]
      by_cases hd : j = d
      · subst hd
        simp only [if_true]
        by_cases hlt : j < D.length
        · exact getD_set_self _ _ _ _ hlt
        · rw [List.set_eq_of_length_le (Nat.le_of_not_lt hlt)]
          simp [List.getD_eq_getElem?_getD, List.getElem?_eq_none (Nat.le_of_not_lt hlt)]
      · simp only [hd, if_false]
        exact getD_set_ne _ _ _ _ _ hd

/-- FLUSHALL's loop empties every database -/
theorem flushall_dbs (s : Sys) (hlen : s.srv.dbs.length ≤ 16) :
    ∀ j, (((List.range 16).forM clearDb) s).2.srv.dbs.getD j [] = [] := by
  intro j
  rw [forM_clearDb_dbs, foldl_clear_getD]
  split
  · rfl
  · rename_i h
    have : 16 ≤ j := by
      simp only [List.mem_range] at h
      omega
    simp [List.getD_eq_getElem?_getD, List.getElem?_eq_none (Nat.le_trans hlen this)]


theorem special_flushdb (inner : Inner) (mode : Mode) (c : Nat) (args : List Arg) (cis : List CI) (s : Sys)
    (hok : flushArgsOk (Cmd.rawArgs args) = true) :
    (special inner mode c "flushdb" args cis s).1 = .ok (some .ok, cis) ∧
    (special inner mode c "flushdb" args cis s).2.srv.dbs = s.srv.dbs.set (s.conn c).db [] := by
  have h : special inner mode c "flushdb" args cis s =
      (.ok (some .ok, cis), (clearDb (s.conn c).db s).2) := by
    unfold special
    simp only [bind, StateT.bind, getConn_run, hok, Bool.not_true, Bool.false_eq_true, if_false]
    rfl
  rw [h]
  exact ⟨rfl, clearDb_dbs _ _⟩

theorem special_flushall (inner : Inner) (mode : Mode) (c : Nat) (args : List Arg) (cis : List CI) (s : Sys)
    (hok : flushArgsOk (Cmd.rawArgs args) = true) (hlen : s.srv.dbs.length ≤ 16) :
    (special inner mode c "flushall" args cis s).1 = .ok (some .ok, cis) ∧
    ∀ j, (special inner mode c "flushall" args cis s).2.srv.dbs.getD j [] = [] := by
  have h : special inner mode c "flushall" args cis s =
      (.ok (some .ok, cis), (((List.range 16).forM clearDb) s).2) := by
    unfold special
    simp only [bind, StateT.bind, getConn_run, hok, Bool.not_true, Bool.false_eq_true, if_false]
    generalize (List.range 16).forM clearDb = m
    rfl
  rw [h]
  refine ⟨rfl, ?_⟩
  dsimp only
  exact flushall_dbs s hlen


/-- MOVE to the selected database itself is refused and changes nothing -/
theorem moveCmd_same (d : Nat) (k : Nat) (dst : Int) (cis : List CI) (s : Sys) (h : dst.toNat = d) :
    moveCmd d [.key k, .int dst] cis s = (.error Msgs.SRC_DST_SAME_MSG, s) := by
  unfold moveCmd
  simp only [h, beq_self_eq_true, if_true]
  rfl

/-- MOVE of a key that does not exist in the selected database answers 0 and changes nothing -/
theorem moveCmd_missing (d : Nat) (k : Nat) (dst : Int) (cis : List CI) (s : Sys) (h : dst.toNat ≠ d)
    (hk : (ciAt cis k).truthy = false) :
    moveCmd d [.key k, .int dst] cis s = (.ok (some (.int 0), cis), s) := by
  unfold moveCmd
  have : (dst.toNat == d) = false := by simpa using h
  simp only [this, hk, Bool.false_eq_true, if_false, Bool.not_false, if_true]
  rfl

/-- MOVE when the key is live in the target database: answers 0; the target database is at most purged of
an expired entry under that key (`Db.get`), nothing else changes -/
theorem moveCmd_present (d : Nat) (k : Nat) (dst : Int) (cis : List CI) (s : Sys) (h : dst.toNat ≠ d)
    (hk : (ciAt cis k).truthy = true)
    (hd : ((Db.get ⟨s.srv.dbs.getD dst.toNat [], s.srv.time⟩ (ciAt cis k).key).2).isSome = true) :
    moveCmd d [.key k, .int dst] cis s = (.ok (some (.int 0), cis),
      { s with srv := { s.srv with dbs := (s.srv.dbs.set dst.toNat
          (Db.get ⟨s.srv.dbs.getD dst.toNat [], s.srv.time⟩ (ciAt cis k).key).1.dict) } }) := by
  unfold moveCmd
  have : (dst.toNat == d) = false := by simpa using h
  simp only [this, hk, Bool.false_eq_true, if_false, Bool.not_true, bind, StateT.bind, getDb_run, setDb_run, hd, if_true]
  rfl

/-- MOVE proper: the key is not live in the target database `j` and live in the selected database `d`.
The very item (value and deadline) found in `d` is stored under the key in `j`; the body answers 1 and hands the
key's `CommandItem` back with value `None`, whose write-back (in `_run_command`) deletes the key from `d`.
Apart from lazy purging of the key in both databases nothing else changes (watch flags aside). -/
theorem moveCmd_moves (d : Nat) (k : Nat) (dst : Int) (cis : List CI) (s : Sys) (h : dst.toNat ≠ d)
    (hk : (ciAt cis k).truthy = true)
    (hdst : (Db.get ⟨s.srv.dbs.getD dst.toNat [], s.srv.time⟩ (ciAt cis k).key).2 = none)
    (it : Item)
    (hsrc : (Db.get ⟨(s.srv.dbs.set dst.toNat
        (Db.get ⟨s.srv.dbs.getD dst.toNat [], s.srv.time⟩ (ciAt cis k).key).1.dict).getD d [], s.srv.time⟩
          (ciAt cis k).key).2 = some it) :
    let D1 := s.srv.dbs.set dst.toNat (Db.get ⟨s.srv.dbs.getD dst.toNat [], s.srv.time⟩ (ciAt cis k).key).1.dict
    let D2 := D1.set d (Db.get ⟨D1.getD d [], s.srv.time⟩ (ciAt cis k).key).1.dict
    (moveCmd d [.key k, .int dst] cis s).1 = .ok (some (.int 1), cis.set k ((ciAt cis k).setValue none)) ∧
    (moveCmd d [.key k, .int dst] cis s).2 =
      ({ s with srv := { s.srv with dbs := D2.set dst.toNat (Db.setRaw (D2.getD dst.toNat []) (ciAt cis k).key it) } } : Sys).mapConns
        (notifyFn dst.toNat (ciAt cis k).key) := by
  intro D1 D2
  unfold moveCmd
  have : (dst.toNat == d) = false := by simpa using h
  simp only [this, hk, Bool.false_eq_true, if_false, Bool.not_true, bind, StateT.bind, getDb_run, setDb_run, hdst,
    Option.isSome_none, hsrc, notifyWatch_run]
  exact ⟨rfl, rfl⟩

/-- the databases after a successful MOVE, read off `moveCmd_moves`: target `j` gains exactly the item, the selected
database `d` is only purged (the deletion of the key is the write-back of the returned `CommandItem`), all other
databases are identical -/
theorem moveCmd_moves_dbs (d : Nat) (k : Nat) (dst : Int) (cis : List CI) (s : Sys) (h : dst.toNat ≠ d)
    (hd : d < s.srv.dbs.length) (hj : dst.toNat < s.srv.dbs.length)
    (hk : (ciAt cis k).truthy = true)
    (hdst : (Db.get ⟨s.srv.dbs.getD dst.toNat [], s.srv.time⟩ (ciAt cis k).key).2 = none)
    (it : Item)
    (hsrc : (Db.get ⟨s.srv.dbs.getD d [], s.srv.time⟩ (ciAt cis k).key).2 = some it) :
    (moveCmd d [.key k, .int dst] cis s).1 = .ok (some (.int 1), cis.set k ((ciAt cis k).setValue none)) ∧
    (moveCmd d [.key k, .int dst] cis s).2.srv.dbs.getD dst.toNat [] =
      Db.setRaw (Db.get ⟨s.srv.dbs.getD dst.toNat [], s.srv.time⟩ (ciAt cis k).key).1.dict (ciAt cis k).key it ∧
    (moveCmd d [.key k, .int dst] cis s).2.srv.dbs.getD d [] =
      (Db.get ⟨s.srv.dbs.getD d [], s.srv.time⟩ (ciAt cis k).key).1.dict ∧
    (∀ j, j ≠ d → j ≠ dst.toNat → (moveCmd d [.key k, .int dst] cis s).2.srv.dbs.getD j [] = s.srv.dbs.getD j []) := by
  have e1 : (s.srv.dbs.set dst.toNat
      (Db.get ⟨s.srv.dbs.getD dst.toNat [], s.srv.time⟩ (ciAt cis k).key).1.dict).getD d [] = s.srv.dbs.getD d [] :=
    getD_set_ne _ _ _ _ _ (Ne.symm h)
  obtain ⟨hr, hs⟩ := moveCmd_moves d k dst cis s h hk hdst it (by rw [e1]; exact hsrc)
  refine ⟨hr, ?_, ?_, ?_⟩
  · rw [hs]
    show (List.set _ _ _).getD _ [] = _
    rw [getD_set_self _ _ _ _ (by simp [hj]), getD_set_ne _ _ _ _ _ h, getD_set_self _ _ _ _ hj]
  · rw [hs]
    show (List.set _ _ _).getD _ [] = _
    rw [getD_set_ne _ _ _ _ _ (Ne.symm h), getD_set_self _ _ _ _ (by simp [hd]), e1]
  · intro j hjd hjj
    rw [hs]
    show (List.set _ _ _).getD _ [] = _
    rw [getD_set_ne _ _ _ _ _ hjj, getD_set_ne _ _ _ _ _ hjd, getD_set_ne _ _ _ _ _ hjj]

def swapdbSig : Sig := ⟨"swapdb", [.dbIndex, .dbIndex], [], false, 2, 0, false⟩

theorem find_swapdb : SigTable.find "swapdb" = some swapdbSig := by decide +kernel

theorem swapdb_apply_invalid (x y : Bytes) (db : Db) (e : Err)
    (h : Conv.dbIndex x = .error e ∨ (∃ i, Conv.dbIndex x = .ok i ∧ Conv.dbIndex y = .error e)) :
    swapdbSig.apply [x, y] db = (db, .error e) := by
  rcases h with h | ⟨i, h1, h2⟩
  · simp [Sig.apply, Sig.checkArity, swapdbSig, Sig.types, Sig.pass1, Conv.decode, h, Except.map]
  · simp [Sig.apply, Sig.checkArity, swapdbSig, Sig.types, Sig.pass1, Conv.decode, h1, h2, Except.map]

theorem set_getD_self {α} (l : List α) (d : Nat) (dflt : α) : l.set d (l.getD d dflt) = l := by
  by_cases h : d < l.length
  · apply List.ext_getElem (by simp)
    intro n h1 h2
    by_cases hn : d = n
    · subst hn; simp [List.getD_eq_getElem?_getD, h]
    · simp [List.getElem_set_ne hn]
  · exact List.set_eq_of_length_le (Nat.le_of_not_lt h)

/-- SWAPDB with an index that is not a valid database number: the error reply (for a subscribed connection: the
subscriber-mode refusal, which comes first), and the state is unchanged -/
theorem swapdb_invalid_unchanged (special : SpecialFn) (mode : Mode) (c : Nat) (x y : Bytes) (fromScript : Bool)
    (s : Sys) (e : Err)
    (h : Conv.dbIndex x = .error e ∨ (∃ i, Conv.dbIndex x = .ok i ∧ Conv.dbIndex y = .error e)) :
    runWith special mode c swapdbSig [x, y] fromScript s =
      (some (if s.refuses c swapdbSig then refusalReply else .err (strBytes e)), s) := by
  cases hr : s.refuses c swapdbSig with
  | true => rw [runWith_refused special mode c swapdbSig _ fromScript hr]; rfl
  | false =>
  rw [runWith_not_refused special mode c swapdbSig _ fromScript hr]
  unfold runWithBody
  have hreg : Cmd.regular swapdbSig.name = none := by decide +kernel
  simp only [bind, StateT.bind, getConn_run, getDb_run, hreg, swapdb_apply_invalid x y _ e h, setDb_run, set_getD_self,
    pure, StateT.pure, Bool.false_eq_true, if_false]


/-! ## asyncio wake-ups: the wake-up proper, then the parser resumes -/

/-- the parser of connection `c` resumes (what `wakeConnAsync` / `timeoutConnAsync` do after a served wake-up) -/
def resume (mode : Mode) (c : Nat) : M Unit := do drain mode c ((← getConn c).buf.length + 1)

/-- the final states are related, or are reached from related states by running `k` -/
def ThenMaybe (R : Sys → Sys → Prop) (k : M Unit) (s1 s2 : Sys) : Prop :=
  ∃ s1' s2', R s1' s2' ∧ ((s1 = s1' ∧ s2 = s2') ∨ (s1 = (k s1').2 ∧ s2 = (k s2').2))

section asyncWake
variable {T : Nat → Prop} {c : Nat} {b : Bool} {A : String × List Bytes → Prop} {D1 D2 : List Dict}
local notation "R" => Sim T c b A D1 D2

theorem Rel.notail {α : Type} {m : M α} (k : M Unit) (h : Rel R m) : Rel2 R (ThenMaybe R k) m :=
  fun s1 s2 hs => ⟨(h s1 s2 hs).1, _, _, (h s1 s2 hs).2, Or.inl ⟨rfl, rfl⟩⟩

theorem Rel.tail2 {α β : Type} {m1 : M α} {m2 : M β} (k : M Unit) (h1 : Rel R m1) (h2 : Rel R m2) :
    Rel2 R (ThenMaybe R k) (m1 >>= fun _ => m2 >>= fun _ => k) := by
  intro s1 s2 hs
  have h := (Rel.bind h1 (fun _ => h2)) s1 s2 hs
  refine ⟨?_, _, _, h.2, Or.inr ⟨rfl, rfl⟩⟩
  show (k _).1 = (k _).1
  rfl

theorem wakeConnAsync_rel (mode : Mode) (c' : Nat) :
    Rel2 (fun s1 s2 => R s1 s2 ∧ ParkedIn T c' s1) (ThenMaybe R (resume mode c')) (wakeConnAsync mode c') := by
  unfold wakeConnAsync
  refine Rel2.bindV (Q := R) (fun conn => ∀ p, conn.parked = some p → T p.db)
    (Rel2.pre (rel_getConn c') (fun _ _ h => h.1)) (fun s1 s2 h => h.2) (fun conn hconn => ?_)
  split
  · exact Rel.notail _ (by rel)
  · rename_i p hp
    refine Rel2.bind (Q := R) (parkedPass_rel c' p (hconn p hp)) (fun r => ?_)
    split
    · exact Rel.tail2 _ (by rel) (by rel)
    · exact Rel.tail2 _ (by rel) (by rel)
    · exact Rel.notail _ (by rel)

theorem timeoutConnAsync_rel (mode : Mode) (c' : Nat) :
    Rel2 R (ThenMaybe R (resume mode c')) (timeoutConnAsync mode c') := by
  unfold timeoutConnAsync
  refine Rel2.bind (Q := R) (rel_getConn c') (fun conn => ?_)
  split
  · exact Rel.notail _ (by rel)
  · exact Rel.tail2 _ (by rel) (by rel)

end asyncWake

end FR.DbFrame
