import FR.Proofs.Runner
/-!
# C09 — no empty collection is ever stored; reads create nothing
-/
namespace FR.Props.C09
open FR

/-- `writeback` drops empty collections: the invariants "unique keys" and "no stored empty collection"
are preserved by every regular command, whatever its body does. -/
theorem no_empty_collections (sig : Sig) (body : Body) (ctx : Ctx) (gate : Option Err) (raw : List Bytes)
    (db : Db) (nd : NodupKeys db.dict) (ne : NoEmpty db.dict) :
    NoEmpty (runRegular sig body ctx gate raw db).db.dict ∧
      NodupKeys (runRegular sig body ctx gate raw db).db.dict :=
  ⟨runRegular_noEmpty sig body ctx gate raw nd ne, runRegular_nodup sig body ctx gate raw nd⟩

/-- A key that is live after the command but was not live before is in `notified`
(for bodies satisfying the setter invariant `expMod → modified`, see C06). -/
theorem reads_create_nothing (sig : Sig) (body : Body) (hb : body.ExpModSound) (ctx : Ctx)
    (gate : Option Err) (raw : List Bytes) (db : Db) (nd : NodupKeys db.dict) (k : Bytes) :
    let o := runRegular sig body ctx gate raw db
    (Db.purge db).dict.lookup k = none → (Db.purge o.db).dict.lookup k ≠ none → k ∈ o.notified := by
  intro o h0 h1
  apply Classical.byContradiction
  intro hk
  have := runRegular_live sig body hb ctx gate raw nd hk
  unfold Db.live at this
  exact h1 (this.trans h0)

/-- non-vacuity: a body that stores an empty list; the key is removed instead -/
example :
    let sig : Sig := ⟨"x", [.key (some .list) .unspecified], [], false, 1, 0, false⟩
    let body : Body := fun _ _ cis => .ok { reply := .nil, cis := cis.map (fun c => c.update (.list [])) }
    let db : Db := ⟨[([97], ⟨.list [[1]], none⟩), ([98], ⟨.str [], none⟩)], 10⟩
    let o := runRegular sig body ⟨7, 10, 0, false, []⟩ none [[97]] db
    NoEmpty o.db.dict ∧ NodupKeys o.db.dict ∧ o.db.dict.map Prod.fst = [[98]] := by
  intro sig body db o
  have hne : NoEmpty db.dict := by
    intro p hp
    simp only [db, List.mem_cons, List.not_mem_nil, or_false] at hp
    rcases hp with rfl | rfl <;> rfl
  have h := no_empty_collections sig body ⟨7, 10, 0, false, []⟩ none [[97]] db (by decide) hne
  exact ⟨h.1, h.2, by decide⟩

end FR.Props.C09
