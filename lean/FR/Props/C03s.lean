import FR.Proofs.ZStore
/-!
# C03s — ZUNIONSTORE / ZINTERSTORE: functional specification of the model's `zunioninter`

Anchor: `fakeredis/_fakesocket.py: FakeSocket._zunioninter`.

Only final property theorems and non-vacuity examples; helper lemmas live in `FR/Proofs/ZStore.lean`.

Vocabulary (all defined in `FR/Proofs/ZStore.lean`, namespace `FR.ZStore`):
* `srcOf`, `srcAll db keys` – the source sorted sets (a missing key is empty, a plain set has scores `1.0`);
* `parseOpts` – the `WEIGHTS` / `AGGREGATE` options;
* `members union sets` – Python's `out_members`;
* `pairs sets weights` – `sorted(zip(sets, weights), key=len)` (stable);
* `contrib`, `nz`, `combine`, `newScore`, `scoreOf` – the score formula over `Dbl`;
* `result union agg sets weights` – the sorted set that is stored;
* `spec union db numkeysBytes rest` – error message or stored set of the whole command;
* `zsig name` – the signature `(Key(), Int, bytes), (bytes,)` shared by both commands.
-/
namespace FR.Props.C03s
open FR FR.ZStore

/-! ## 0. The monadic body of the model is the pure description -/

/-- `zunioninter` (three loops, two of them with early exits, in the state monad) equals `core`: the source
look-ups are its only effect on the state, its value is computed by `readSrc`, `parseOpts` and `result`. -/
theorem body_eq_core (union : Bool) (d dk : Nat) (numkeys : Int) (rest : List Arg) (cis : List CI) (s : Sys)
    (hd : d < s.srv.dbs.length) :
    zunioninter union d (.key dk :: .int numkeys :: rest) cis s =
      core union d dk numkeys (Cmd.rawArgs rest) cis s :=
  zunioninter_eq union d dk numkeys rest cis s hd

/-- what `core` is (so that the statement is visible here) -/
theorem core_def (union : Bool) (d dk : Nat) (numkeys : Int) (raw : List Bytes) (cis : List CI) (s : Sys) :
    core union d dk numkeys raw cis s =
      (if numkeys < 1 then (.error Msgs.ZUNIONSTORE_KEYS_MSG, s)
       else if numkeys > raw.length then (.error Msgs.SYNTAX_ERROR_MSG, s)
       else
        match (readSrc (raw.take numkeys.toNat) (s.dbAt d) []).2 with
        | .error e => (.error e, s.setDbS d (readSrc (raw.take numkeys.toNat) (s.dbAt d) []).1)
        | .ok sets =>
          match parseOpts numkeys.toNat ((raw.drop numkeys.toNat).length + 1) (raw.drop numkeys.toNat)
              (List.replicate numkeys.toNat Dbl.one) (strBytes "sum") with
          | .error e => (.error e, s.setDbS d (readSrc (raw.take numkeys.toNat) (s.dbAt d) []).1)
          | .ok (w, agg) =>
            (.ok (.int (result union agg sets w).len,
                  cis.set dk ((ciAt cis dk).setValue (some (.zset (result union agg sets w))))),
             s.setDbS d (readSrc (raw.take numkeys.toNat) (s.dbAt d) []).1)) := rfl

/-! ## 1. The stored sorted set satisfies the two-index invariant and holds no NaN -/

/-- For ALL sources, weights and aggregate names (NaN weights, non-invariant sources included) the stored set
satisfies `ZSet.Inv`: `byscore` strictly sorted by (score, member), every member once, both indexes agree,
no NaN score. -/
theorem stored_inv (union : Bool) (agg : Bytes) (sets : List ZSet) (weights : List Dbl) :
    (result union agg sets weights).Inv :=
  result_inv union agg sets weights

/-- the same, spelled out -/
theorem stored_inv_spelled (union : Bool) (agg : Bytes) (sets : List ZSet) (weights : List Dbl) :
    let z := result union agg sets weights
    z.byscore.Pairwise (fun a b => pairLt a.1 (.val a.2) b.1 (.val b.2) = true)
    ∧ (z.bylex.map Prod.fst).Nodup
    ∧ (z.byscore.map Prod.snd).Nodup
    ∧ (∀ m s, (m, s) ∈ z.bylex ↔ (s, m) ∈ z.byscore)
    ∧ (∀ m s, z.get m = some s → s.isNaN = false) :=
  have h := result_inv union agg sets weights
  ⟨h.1, h.2.1, ZSet.members_nodup h, h.2.2.1, fun m s => result_no_nan union agg sets weights m s⟩

/-- the insertion-ordered index of the stored set is exactly the Python dict `out` -/
theorem stored_bylex (union : Bool) (agg : Bytes) (sets : List ZSet) (weights : List Dbl) :
    (result union agg sets weights).bylex = outDict union agg (members union sets) (pairs sets weights) :=
  result_bylex union agg sets weights

/-- whatever the command stores satisfies the invariant -/
theorem spec_stored_inv (union : Bool) (db : Db) (nkb : Bytes) (rest : List Bytes) (Z : ZSet)
    (h : spec union db nkb rest = .ok Z) : Z.Inv :=
  spec_ok_inv h

/-! ## 2. The sources -/

/-- The look-ups (`Database.get` on each source key, in order) see the live entries: their result is `srcAll`
of the live view, and the database only loses expired entries (`Reads`: same purged view, subset). -/
theorem sources_spec (keys : List Bytes) (db : Db) (nd : NodupKeys db.dict) :
    Reads db (readSrc keys db []).1 ∧
      (readSrc keys db []).2 = srcAll db keys := by
  obtain ⟨h1, h2⟩ := readSrc_spec keys db nd []
  refine ⟨h1, ?_⟩
  rw [h2]
  cases srcAll db keys <;> simp

/-- `srcAll` converts key by key: the i-th source is `srcOf` of the live entry of the i-th key -/
theorem sources_pointwise (db : Db) (keys : List Bytes) (sets : List ZSet) (h : srcAll db keys = .ok sets) :
    sets.length = keys.length ∧
    ∀ i (hi : i < keys.length), ∃ z, sets[i]? = some z ∧ srcOf (db.live keys[i]) = .ok z := by
  refine ⟨srcAll_length h, fun i hi => ?_⟩
  have hi' : i < sets.length := by rw [srcAll_length h]; exact hi
  exact ⟨sets[i], by simp [hi'], srcAll_getElem h i hi⟩

/-- a missing (or expired) key is the empty sorted set; a sorted set is itself; a plain set gives each of its
members the score `1.0`; anything else is `WRONGTYPE` -/
theorem source_of_entry :
    srcOf none = .ok ZSet.empty ∧
    (∀ z e, srcOf (some ⟨.zset z, e⟩) = .ok z) ∧
    (∀ s e z, srcOf (some ⟨.set s, e⟩) = .ok z → ∀ m, z.get m = if m ∈ s then some Dbl.one else none) ∧
    (∀ it e, srcOf (some it) = .error e → e = Msgs.WRONGTYPE_MSG ∧ it.value.ty ≠ .set ∧ it.value.ty ≠ .zset) :=
  ⟨rfl, fun _ _ => rfl, fun s _ z h m => zsetOfValue_set_get s z h m, fun _ _ h => zsetOfValue_error h⟩

/-- `WRONGTYPE` is raised exactly when some source key holds a live string, list or hash -/
theorem sources_error_iff (db : Db) (keys : List Bytes) :
    (∃ e, srcAll db keys = .error e) ↔
      ∃ k, k ∈ keys ∧ ∃ it, db.live k = some it ∧ it.value.ty ≠ .set ∧ it.value.ty ≠ .zset :=
  srcAll_error_iff db keys

/-- if every stored sorted set satisfies the invariant, so does every source -/
theorem sources_inv (db : Db) (hz : DbZInv db) (keys : List Bytes) (sets : List ZSet)
    (h : srcAll db keys = .ok sets) : ∀ z ∈ sets, z.Inv :=
  srcAll_inv hz h

/-! ## 3. MEMBERSHIP -/

/-- `m` is stored iff it is in some source (ZUNIONSTORE) / in every source (ZINTERSTORE). -/
theorem membership (union : Bool) (agg : Bytes) (sets : List ZSet) (weights : List Dbl)
    (hinv : ∀ z ∈ sets, z.Inv) (hlen : sets.length = weights.length) (hne : sets ≠ []) (m : Bytes) :
    (result union agg sets weights).contains m = true ↔
      if union then (∃ z ∈ sets, z.contains m = true) else (∀ z ∈ sets, z.contains m = true) :=
  result_contains union agg sets weights (fun z hz => (hinv z hz).2.1) hlen hne m

/-- the same for the sorted set a successful command stores -/
theorem membership_spec (union : Bool) (db : Db) (hz : DbZInv db) (nkb : Bytes) (rest : List Bytes) (Z : ZSet)
    (h : spec union db nkb rest = .ok Z) :
    ∃ (n : Int) (sets : List ZSet), Conv.int nkb = .ok n ∧ srcAll db (rest.take n.toNat) = .ok sets ∧
      ∀ m, Z.contains m = true ↔
        if union then (∃ z ∈ sets, z.contains m = true) else (∀ z ∈ sets, z.contains m = true) := by
  obtain ⟨n, sets, w, agg, h1, _, _, h4, _, rfl, h7, h8, h9, _⟩ := spec_ok h
  exact ⟨n, sets, h1, h4, fun m =>
    membership union agg sets w (srcAll_inv hz h4) (h7.trans h8.symm) h9 m⟩

/-! ## 4. SCORE -/

/-- The score formula (definitions restated): for each (source, weight) pair that contains `m`, in list order,
the contribution `weight·score` (NaN → 0 here for ZUNIONSTORE only) is folded into the accumulated score:
the first one by `nz`, a further one by `combine` (SUM: `nz (nz (x + old))`, MAX / MIN: `nz (max/min old x)`
with Python's `max` / `min`). -/
theorem score_formula (union : Bool) (agg : Bytes) (ps : List (ZSet × Dbl)) (m : Bytes) :
    scoreOf union agg ps m =
      ps.foldl (fun acc zw =>
        match zw.1.get m with
        | none => acc
        | some s0 =>
          some (match acc with
                | some old => combine agg old (contrib union s0 zw.2)
                | none => nz (contrib union s0 zw.2))) none
    ∧ (∀ x, nz x = if x.isNaN then Dbl.zero else x)
    ∧ (∀ s0 w, contrib union s0 w = if union && (s0.mul w).isNaN then Dbl.zero else s0.mul w)
    ∧ (∀ old x, combine agg old x =
        nz (if agg == strBytes "sum" then nz (x.add old)
            else if agg == strBytes "max" then old.pyMax x else old.pyMin x)) := by
  refine ⟨?_, fun _ => rfl, fun _ _ => rfl, fun _ _ => rfl⟩
  unfold scoreOf
  congr 1

/-- SCORE: the stored score of `m` is `scoreOf` over the cardinality-sorted pairs (and `m` is absent when it is
not in `out_members`). -/
theorem score (union : Bool) (agg : Bytes) (sets : List ZSet) (weights : List Dbl)
    (hinv : ∀ z ∈ sets, z.Inv) (m : Bytes) :
    (result union agg sets weights).get m =
      if (members union sets).contains m then scoreOf union agg (pairs sets weights) m else none :=
  result_get union agg sets weights (fun z hz => (hinv z hz).2.1) m

/-- for a member that is stored, no side condition is left -/
theorem score_of_stored (union : Bool) (agg : Bytes) (sets : List ZSet) (weights : List Dbl)
    (hinv : ∀ z ∈ sets, z.Inv) (m : Bytes) (x : Dbl) (h : (result union agg sets weights).get m = some x) :
    scoreOf union agg (pairs sets weights) m = some x := by
  rw [score union agg sets weights hinv] at h
  split at h
  · exact h
  · cases h

/-- the order in which the sources are folded: a permutation of `zip(sets, weights)`, ascending in cardinality,
and stable (sources of equal cardinality keep their argument order) -/
theorem fold_order (sets : List ZSet) (weights : List Dbl) :
    (pairs sets weights).Perm (sets.zip weights) ∧
    (pairs sets weights).Pairwise (fun a b => a.1.len ≤ b.1.len) ∧
    ∀ n, (pairs sets weights).filter (fun a => a.1.len == n) = (sets.zip weights).filter (fun a => a.1.len == n) :=
  ⟨pairs_perm sets weights, pairs_sorted sets weights, pairs_stable sets weights⟩

/-- `out_members` -/
theorem members_iff (union : Bool) (sets : List ZSet) (hne : sets ≠ []) (m : Bytes) :
    m ∈ members union sets ↔
      if union then (∃ z ∈ sets, z.contains m = true) else (∀ z ∈ sets, z.contains m = true) :=
  mem_members union sets hne m

/-- RESULT (not a defect, a precision of the informal statement): the fold is NOT in argument order.
With `A = {m ↦ 0.0, x ↦ 5.0}` and `B = {m ↦ -0.0}`, `ZUNIONSTORE dst 2 A B AGGREGATE MAX` folds `B` first
(smaller cardinality) and stores `-0.0` for `m`; folding in argument order would give `0.0`. -/
theorem fold_is_not_in_argument_order :
    let A := ((ZSet.empty.add [109] Dbl.zero).1.add [120] (Dbl.ofInt 5)).1
    let B := (ZSet.empty.add [109] (.fin true 0 (-1074))).1
    (result true (strBytes "max") [A, B] [Dbl.one, Dbl.one]).get [109] = some (.fin true 0 (-1074)) ∧
    scoreOf true (strBytes "max") ([A, B].zip [Dbl.one, Dbl.one]) [109] = some Dbl.zero := by
  decide +kernel

/-! ## 5. Options -/

/-- a successful option loop leaves `numkeys` weights and one of the three aggregate names; an error is the
syntax error or the float error; the `fuel` of the model's `while` loop is irrelevant -/
theorem options_spec (nk : Nat) (opts : List Bytes) :
    (∀ w agg, parseOpts nk (opts.length + 1) opts (List.replicate nk Dbl.one) (strBytes "sum") = .ok (w, agg) →
      w.length = nk ∧ (agg = strBytes "sum" ∨ agg = strBytes "min" ∨ agg = strBytes "max")) ∧
    (∀ e, parseOpts nk (opts.length + 1) opts (List.replicate nk Dbl.one) (strBytes "sum") = .error e →
      e = Msgs.SYNTAX_ERROR_MSG ∨ e = Msgs.INVALID_FLOAT_MSG) ∧
    (∀ fuel w a, opts.length < fuel → parseOpts nk fuel opts w a = parseOpts nk (opts.length + 1) opts w a) := by
  refine ⟨fun w agg h => ?_, fun e h => parseOpts_error _ _ _ _ _ h,
    fun fuel w a hf => parseOpts_fuel nk fuel _ opts w a hf (Nat.lt_succ_self _)⟩
  have := parseOpts_ok nk _ opts _ _ (by simp) ((badAgg_false_iff _).mpr (Or.inl rfl)) h
  exact ⟨this.1, (badAgg_false_iff agg).mp this.2⟩

/-- no options: weights `1.0`, aggregate `sum` -/
theorem options_default (nk : Nat) :
    parseOpts nk 1 [] (List.replicate nk Dbl.one) (strBytes "sum") = .ok (List.replicate nk Dbl.one, strBytes "sum") :=
  rfl

/-! ## 6. The command end to end: reply, stored value, errors, notification -/

/-- what `spec` is -/
theorem spec_def (union : Bool) (db : Db) (nkb : Bytes) (rest : List Bytes) :
    spec union db nkb rest =
      (match Conv.int nkb with
       | .error e => .error e
       | .ok n =>
         if n < 1 then .error Msgs.ZUNIONSTORE_KEYS_MSG
         else if n > rest.length then .error Msgs.SYNTAX_ERROR_MSG
         else
           match srcAll db (rest.take n.toNat) with
           | .error e => .error e
           | .ok sets =>
             match parseOpts n.toNat ((rest.drop n.toNat).length + 1) (rest.drop n.toNat)
                 (List.replicate n.toNat Dbl.one) (strBytes "sum") with
             | .error e => .error e
             | .ok (w, agg) => .ok (result union agg sets w)) := rfl

/-- a successful outcome, taken apart -/
theorem spec_ok_parts (union : Bool) (db : Db) (nkb : Bytes) (rest : List Bytes) (Z : ZSet)
    (h : spec union db nkb rest = .ok Z) :
    ∃ (n : Int) (sets : List ZSet) (w : List Dbl) (agg : Bytes),
      Conv.int nkb = .ok n ∧ 1 ≤ n ∧ n ≤ rest.length ∧
      srcAll db (rest.take n.toNat) = .ok sets ∧
      parseOpts n.toNat ((rest.drop n.toNat).length + 1) (rest.drop n.toNat)
        (List.replicate n.toNat Dbl.one) (strBytes "sum") = .ok (w, agg) ∧
      Z = result union agg sets w ∧
      sets.length = n.toNat ∧ w.length = n.toNat ∧ sets ≠ [] ∧
      (agg = strBytes "sum" ∨ agg = strBytes "min" ∨ agg = strBytes "max") :=
  spec_ok h

/-- SUCCESS.  Running `ZUNIONSTORE/ZINTERSTORE dst numkeys k1 … [options]` on connection `c` (database `d`):
* the reply is the cardinality of the stored set `Z`;
* afterwards the live entry of `dst` is `Z` without deadline — whatever type, value and deadline `dst` had
  before — or `dst` is absent when `Z` is empty;
* every other key keeps its live entry; entries are only added for `dst`;
* the only other change of the state is `notify_watch(dst)` on every connection (`notifyFn d dst`). -/
theorem run_ok (inner : Inner) (mode : Mode) (c : Nat) (name : String)
    (h : name = "zunionstore" ∨ name = "zinterstore") (dst nkb b0 : Bytes) (bs : List Bytes) (fs : Bool) (s : Sys)
    (hd : (s.conn c).db < s.srv.dbs.length) (nd : NodupKeys (s.dbAt (s.conn c).db).dict)
    (hg : runGate (zsig name) fs ((s.conn c).pubsub > 0) = none) (Z : ZSet)
    (hs : spec (name == "zunionstore") (s.dbAt (s.conn c).db) nkb (b0 :: bs) = .ok Z) :
    ∃ dbf,
      runWith (special inner) mode c (zsig name) (dst :: nkb :: b0 :: bs) fs s =
        (some (.int Z.len), (s.setDbS (s.conn c).db dbf).mapConns (notifyFn (s.conn c).db dst)) ∧
      dbf.live dst = (if Z.len = 0 then none else some ⟨.zset Z, none⟩) ∧
      (∀ k, k ≠ dst → dbf.live k = (s.dbAt (s.conn c).db).live k) ∧
      NodupKeys dbf.dict ∧ dbf.time = (s.dbAt (s.conn c).db).time ∧
      (∀ q ∈ dbf.dict, q ∈ (s.dbAt (s.conn c).db).dict ∨ q = (dst, ⟨.zset Z, none⟩)) :=
  ZStore.run_ok inner mode c name h dst nkb b0 bs fs s hd nd hg Z hs

/-- the invariant "every stored sorted set satisfies `ZSet.Inv`" survives the command -/
theorem run_ok_preserves_zinv (inner : Inner) (mode : Mode) (c : Nat) (name : String)
    (h : name = "zunionstore" ∨ name = "zinterstore") (dst nkb b0 : Bytes) (bs : List Bytes) (fs : Bool) (s : Sys)
    (hd : (s.conn c).db < s.srv.dbs.length) (nd : NodupKeys (s.dbAt (s.conn c).db).dict)
    (hg : runGate (zsig name) fs ((s.conn c).pubsub > 0) = none) (Z : ZSet)
    (hs : spec (name == "zunionstore") (s.dbAt (s.conn c).db) nkb (b0 :: bs) = .ok Z)
    (hz : DbZInv (s.dbAt (s.conn c).db)) :
    DbZInv ((runWith (special inner) mode c (zsig name) (dst :: nkb :: b0 :: bs) fs s).2.dbAt (s.conn c).db) := by
  obtain ⟨dbf, h1, _, _, _, h5, h6⟩ := ZStore.run_ok inner mode c name h dst nkb b0 bs fs s hd nd hg Z hs
  rw [h1]
  simp only [Sys.mapConns_dbAt]
  rw [Sys.setDbS_dbAt_self s _ _ hd (by rw [h5]; rfl)]
  intro q hq z e
  rcases h6 q hq with h' | h'
  · exact hz q h' z e
  · subst h'
    simp only [Value.zset.injEq] at e
    subst e
    exact spec_ok_inv hs

/-- ERRORS.  `numkeys` not an integer, `numkeys ≤ 0`, `numkeys` larger than the number of remaining arguments,
a source of the wrong type, a malformed option, a non-float weight: the reply is the error and the state is
unchanged except for lazy deletion of expired entries of database `d` (`Reads`: same purged view, no new entry).
In particular no key changes its live entry and no watcher is notified. -/
theorem run_error (inner : Inner) (mode : Mode) (c : Nat) (name : String)
    (h : name = "zunionstore" ∨ name = "zinterstore") (dst nkb b0 : Bytes) (bs : List Bytes) (fs : Bool) (s : Sys)
    (hd : (s.conn c).db < s.srv.dbs.length) (nd : NodupKeys (s.dbAt (s.conn c).db).dict)
    (hg : runGate (zsig name) fs ((s.conn c).pubsub > 0) = none) (e : Err)
    (hs : spec (name == "zunionstore") (s.dbAt (s.conn c).db) nkb (b0 :: bs) = .error e) :
    ∃ db', Reads (s.dbAt (s.conn c).db) db' ∧
      (∀ k, db'.live k = (s.dbAt (s.conn c).db).live k) ∧
      runWith (special inner) mode c (zsig name) (dst :: nkb :: b0 :: bs) fs s =
        (some (.err (strBytes e)), s.setDbS (s.conn c).db db') := by
  obtain ⟨db', hr, hm⟩ := ZStore.run_error inner mode c name h dst nkb b0 bs fs s hd nd hg e hs
  exact ⟨db', hr, fun k => Reads.live hr k, hm⟩

/-- which errors: exactly these messages, in this order of precedence -/
theorem error_cases (union : Bool) (db : Db) (nkb : Bytes) (rest : List Bytes) (e : Err)
    (h : spec union db nkb rest = .error e) :
    Conv.int nkb = .error e ∨
    ∃ n, Conv.int nkb = .ok n ∧
      (e = Msgs.ZUNIONSTORE_KEYS_MSG ∨ e = Msgs.SYNTAX_ERROR_MSG ∨ e = Msgs.WRONGTYPE_MSG ∨
        e = Msgs.INVALID_FLOAT_MSG) := by
  unfold spec at h
  cases hn : Conv.int nkb with
  | error e' => rw [hn] at h; cases h; exact Or.inl rfl
  | ok n => rw [hn] at h; exact Or.inr ⟨n, rfl, specN_error_msg h⟩

theorem error_numkeys (union : Bool) (db : Db) (nkb : Bytes) (rest : List Bytes) (n : Int)
    (hn : Conv.int nkb = .ok n) :
    (n < 1 → spec union db nkb rest = .error Msgs.ZUNIONSTORE_KEYS_MSG) ∧
    (1 ≤ n → n > rest.length → spec union db nkb rest = .error Msgs.SYNTAX_ERROR_MSG) := by
  unfold spec specN
  rw [hn]
  refine ⟨fun h => ?_, fun h1 h2 => ?_⟩
  · simp only [if_pos h]
  · simp only [if_neg (by omega : ¬ n < 1), if_pos h2]

/-- fewer than three arguments: the state is untouched; the reply is the arity error — unless the connection is in
subscriber mode, whose refusal comes before any look at the arguments -/
theorem run_arity_error (inner : Inner) (mode : Mode) (c : Nat) (name : String)
    (h : name = "zunionstore" ∨ name = "zinterstore") (raw : List Bytes) (fs : Bool) (s : Sys)
    (hl : raw.length < 3) :
    runWith (special inner) mode c (zsig name) raw fs s =
      (some (if s.refuses c (zsig name) then refusalReply else .err (strBytes (zsig name).wrongArgs)), s) :=
  runWith_zstore_short inner mode c name h raw fs s hl

/-- refused by the gate (subscriber mode): the reply is the refusal and the state is LITERALLY unchanged, whatever
the arguments are (too few, `numkeys` not a number, …) — the destination is not looked up, nothing expires lazily -/
theorem run_gated (inner : Inner) (mode : Mode) (c : Nat) (name : String)
    (raw : List Bytes) (fs : Bool) (s : Sys) (e : Err)
    (hg : runGate (zsig name) fs ((s.conn c).pubsub > 0) = some e) :
    runWith (special inner) mode c (zsig name) raw fs s = (some (.err (strBytes e)), s) :=
  runWith_zstore_gated inner mode c name raw fs s e hg

/-- the same in terms of the connection: a subscribed connection gets the context error -/
theorem run_subscribed (inner : Inner) (mode : Mode) (c : Nat) (name : String)
    (h : name = "zunionstore" ∨ name = "zinterstore") (raw : List Bytes) (fs : Bool) (s : Sys)
    (hps : (s.conn c).pubsub > 0) :
    runWith (special inner) mode c (zsig name) raw fs s =
      (some (.err (strBytes Msgs.BAD_COMMAND_IN_PUBSUB_MSG)), s) := by
  have hna : (zsig name).name ∉ SigTable.pubsubAllowed := by
    rcases h with rfl | rfl <;> decide
  exact runWith_refused _ mode c (zsig name) raw fs (Sys.refuses_eq_true.2 ⟨hps, hna⟩)

/-- NOTIFICATION.  After a successful command every connection that watches `(d, dst)` has its
`watchNotified` flag set (its next EXEC aborts), whether or not the live entry of `dst` changed; the watch lists
are untouched.  (Hence in particular: whenever the live entry of `dst` changes, its watchers are notified.) -/
theorem watchers_notified (inner : Inner) (mode : Mode) (c : Nat) (name : String)
    (h : name = "zunionstore" ∨ name = "zinterstore") (dst nkb b0 : Bytes) (bs : List Bytes) (fs : Bool) (s : Sys)
    (hd : (s.conn c).db < s.srv.dbs.length) (nd : NodupKeys (s.dbAt (s.conn c).db).dict)
    (hg : runGate (zsig name) fs ((s.conn c).pubsub > 0) = none) (Z : ZSet)
    (hs : spec (name == "zunionstore") (s.dbAt (s.conn c).db) nkb (b0 :: bs) = .ok Z) :
    (runWith (special inner) mode c (zsig name) (dst :: nkb :: b0 :: bs) fs s).2.srv.conns =
        s.srv.conns.map (notifyFn (s.conn c).db dst) ∧
    ∀ x ∈ s.srv.conns, x.watches.contains ((s.conn c).db, dst) = true →
      (notifyFn (s.conn c).db dst x).watchNotified = true ∧ (notifyFn (s.conn c).db dst x).watches = x.watches := by
  obtain ⟨dbf, h1, _⟩ := ZStore.run_ok inner mode c name h dst nkb b0 bs fs s hd nd hg Z hs
  rw [h1]
  exact ⟨rfl, fun x _ hw => ⟨notifyFn_watch _ _ x hw, notifyFn_watches _ _ x⟩⟩

/-- conversely, a failing command notifies nobody -/
theorem error_notifies_nobody (inner : Inner) (mode : Mode) (c : Nat) (name : String)
    (h : name = "zunionstore" ∨ name = "zinterstore") (dst nkb b0 : Bytes) (bs : List Bytes) (fs : Bool) (s : Sys)
    (hd : (s.conn c).db < s.srv.dbs.length) (nd : NodupKeys (s.dbAt (s.conn c).db).dict)
    (hg : runGate (zsig name) fs ((s.conn c).pubsub > 0) = none) (e : Err)
    (hs : spec (name == "zunionstore") (s.dbAt (s.conn c).db) nkb (b0 :: bs) = .error e) :
    (runWith (special inner) mode c (zsig name) (dst :: nkb :: b0 :: bs) fs s).2.srv.conns = s.srv.conns ∧
    (runWith (special inner) mode c (zsig name) (dst :: nkb :: b0 :: bs) fs s).2.out = s.out ∧
    (runWith (special inner) mode c (zsig name) (dst :: nkb :: b0 :: bs) fs s).2.fault = s.fault := by
  obtain ⟨db', _, hm⟩ := ZStore.run_error inner mode c name h dst nkb b0 bs fs s hd nd hg e hs
  rw [hm]
  exact ⟨rfl, rfl, rfl⟩

/-- the signatures in the model's table are `zsig` -/
theorem sig_table :
    SigTable.find "zunionstore" = some (zsig "zunionstore") ∧
    SigTable.find "zinterstore" = some (zsig "zinterstore") := by
  decide +kernel


/-! ## Non-vacuity witnesses -/

/-- source `a = {x ↦ 1, y ↦ 2}` -/
def exA : ZSet := ((ZSet.empty.add [120] (Dbl.ofInt 1)).1.add [121] (Dbl.ofInt 2)).1
/-- a database at time 0: `a` a sorted set, `b` the plain set `{y, z}`, `s` a string,
`d` a string with a deadline in the future, `e` an expired sorted set -/
def exDict : Dict :=
  [([97], ⟨.zset exA, none⟩), ([98], ⟨.set [[121], [122]], none⟩), ([115], ⟨.str [118], none⟩),
   ([100], ⟨.str [111], some 100⟩), ([101], ⟨.zset exA, some (-5)⟩)]
def exDb : Db := ⟨exDict, 0⟩
/-- a state: database 0 is `exDb`; connection 1 watches `(0, d)` and `(0, q)`, connection 2 watches nothing -/
def exSys : Sys :=
  { srv := { dbs := exDict :: List.replicate 15 [],
             conns := [{ id := 1, watches := [(0, [100]), (0, [113])] }, { id := 2 }] } }

theorem ok_of_toOption {x : Except Err ZSet} {l : List (Dbl × Bytes)}
    (h : x.toOption.map (·.byscore) = some l) : ∃ Z, x = .ok Z ∧ Z.byscore = l := by
  cases x with
  | error e => simp [Except.toOption] at h
  | ok Z => exact ⟨Z, rfl, by simpa [Except.toOption] using h⟩

example : exA.Inv := ZSet.add_inv (ZSet.add_inv ZSet.empty_inv (by decide)) (by decide)

example : DbZInv exDb := by
  intro q hq z e
  simp only [exDb, exDict, List.mem_cons, List.not_mem_nil, or_false] at hq
  have hA : exA.Inv := ZSet.add_inv (ZSet.add_inv ZSet.empty_inv (by decide)) (by decide)
  rcases hq with rfl | rfl | rfl | rfl | rfl <;> simp only [Value.zset.injEq, reduceCtorEq] at e <;> subst e <;> exact hA

-- the sources of `a b` (a sorted set and a plain set), of a missing key, of an expired key
example : (srcAll exDb [[97], [98], [119], [101]]).toOption.map (fun l => l.map (·.byscore)) =
    some [[(Dbl.ofInt 1, [120]), (Dbl.ofInt 2, [121])], [(Dbl.one, [121]), (Dbl.one, [122])], [], []] := by
  decide +kernel
-- a string source is WRONGTYPE
example : (∃ e, srcAll exDb [[97], [115]] = .error e) :=
  (sources_error_iff exDb [[97], [115]]).mpr ⟨[115], by decide, ⟨.str [118], none⟩, by rfl, by decide, by decide⟩

-- ZUNIONSTORE dst 2 a b WEIGHTS 2 3  →  x ↦ 2, z ↦ 3, y ↦ 2·2 + 3·1 = 7
example : (spec true exDb (strBytes "2") [[97], [98], strBytes "WEIGHTS", strBytes "2", strBytes "3"]).toOption.map
    (·.byscore) = some [(Dbl.ofInt 2, [120]), (Dbl.ofInt 3, [122]), (Dbl.ofInt 7, [121])] := by
  decide +kernel
-- ZINTERSTORE dst 2 a b WEIGHTS 2 3 aggregate MAX  →  y ↦ max(4, 3) = 4
example : (spec false exDb (strBytes "2")
    [[97], [98], strBytes "WEIGHTS", strBytes "2", strBytes "3", strBytes "aggregate", strBytes "MAX"]).toOption.map
    (·.byscore) = some [(Dbl.ofInt 4, [121])] := by
  decide +kernel
-- ZINTERSTORE dst 2 a w (w missing) → empty
example : (spec false exDb (strBytes "2") [[97], [119]]).toOption.map (·.byscore) = some [] := by
  decide +kernel
-- the error cases, in order of precedence
example : (spec true exDb (strBytes "x") [[97]]).toOption = none ∧
    (spec true exDb (strBytes "0") [[97]]).toOption = none ∧
    (spec true exDb (strBytes "3") [[97], [98]]).toOption = none ∧
    (spec true exDb (strBytes "2") [[97], [115]]).toOption = none ∧
    (spec true exDb (strBytes "1") [[97], strBytes "WEIGHTS", strBytes "x"]).toOption = none ∧
    (spec true exDb (strBytes "1") [[97], strBytes "AGGREGATE", strBytes "avg"]).toOption = none ∧
    (spec true exDb (strBytes "1") [[97], strBytes "WEIGHTS"]).toOption = none := by
  decide +kernel
/-- the error message of an outcome -/
def errOf (x : Except Err ZSet) : Option Err := match x with | .error e => some e | .ok _ => none
example :
    errOf (spec true exDb (strBytes "x") [[97]]) = some Msgs.INVALID_INT_MSG ∧
    errOf (spec true exDb (strBytes "0") [[97]]) = some Msgs.ZUNIONSTORE_KEYS_MSG ∧
    errOf (spec true exDb (strBytes "3") [[97], [98]]) = some Msgs.SYNTAX_ERROR_MSG ∧
    errOf (spec true exDb (strBytes "2") [[97], [115]]) = some Msgs.WRONGTYPE_MSG ∧
    errOf (spec true exDb (strBytes "1") [[97], strBytes "WEIGHTS", strBytes "x"]) = some Msgs.INVALID_FLOAT_MSG ∧
    errOf (spec true exDb (strBytes "1") [[97], strBytes "AGGREGATE", strBytes "avg"]) = some Msgs.SYNTAX_ERROR_MSG ∧
    errOf (spec true exDb (strBytes "2") [[97], [115], strBytes "WEIGHTS", strBytes "x", strBytes "1"]) =
      some Msgs.WRONGTYPE_MSG := by
  decide +kernel

theorem error_of_errOf {x : Except Err ZSet} {e : Err} (h : errOf x = some e) : x = .error e := by
  cases x with
  | error e' => simp only [errOf, Option.some.injEq] at h; rw [h]
  | ok Z => simp [errOf] at h

-- the hypotheses of `run_error` hold in `exSys`: a wrong-typed source leaves everything as it was
example : ∃ db', Reads (exSys.dbAt 0) db' ∧ (∀ k, db'.live k = (exSys.dbAt 0).live k) ∧
    runWith (special (fun _ _ => pure none)) {} 1 (zsig "zinterstore")
        ([100] :: strBytes "2" :: [97] :: [[115]]) false exSys =
      (some (.err (strBytes Msgs.WRONGTYPE_MSG)), exSys.setDbS 0 db') :=
  run_error (fun _ _ => pure none) {} 1 "zinterstore" (Or.inr rfl) [100] (strBytes "2") [97] [[115]] false exSys
    (by decide) (by decide +kernel) (by decide +kernel) Msgs.WRONGTYPE_MSG
    (error_of_errOf (by decide +kernel))

-- the hypotheses of `membership` / `score` hold for the two example sources
example : ((result true (strBytes "sum") [exA, exA] [Dbl.one, Dbl.one]).contains [121] = true ↔
    ∃ z ∈ [exA, exA], z.contains [121] = true) := by
  have hA : exA.Inv := ZSet.add_inv (ZSet.add_inv ZSet.empty_inv (by decide)) (by decide)
  exact membership true (strBytes "sum") [exA, exA] [Dbl.one, Dbl.one]
    (fun z hz => by simp at hz; subst hz; exact hA) rfl (by simp) [121]

-- NaN → 0: `inf · 0` (both commands), `inf + -inf` under SUM
example :
    (result true (strBytes "sum") [(ZSet.empty.add [109] (.inf false)).1] [Dbl.zero]).get [109] = some Dbl.zero ∧
    (result false (strBytes "sum") [(ZSet.empty.add [109] (.inf false)).1] [Dbl.zero]).get [109] = some Dbl.zero ∧
    (result true (strBytes "sum") [(ZSet.empty.add [109] (.inf false)).1, (ZSet.empty.add [109] (.inf true)).1]
      [Dbl.one, Dbl.one]).get [109] = some Dbl.zero ∧
    (Dbl.mul (.inf false) Dbl.zero).isNaN = true ∧ (Dbl.add (.inf false) (.inf true)).isNaN = true := by
  decide +kernel

-- the hypotheses of `run_ok` / `watchers_notified` hold in `exSys` for connection 1 and
-- `ZUNIONSTORE d 2 a b WEIGHTS 2 3`; the theorem yields the reply 3 and the replaced destination
example : ∃ dbf Z,
    runWith (special (fun _ _ => pure none)) {} 1 (zsig "zunionstore")
        ([100] :: strBytes "2" :: [97] :: [[98], strBytes "WEIGHTS", strBytes "2", strBytes "3"]) false exSys =
      (some (.int 3), (exSys.setDbS 0 dbf).mapConns (notifyFn 0 [100])) ∧
    dbf.live [100] = some ⟨.zset Z, none⟩ ∧
    Z.byscore = [(Dbl.ofInt 2, [120]), (Dbl.ofInt 3, [122]), (Dbl.ofInt 7, [121])] ∧
    (exSys.dbAt 0).live [100] = some ⟨.str [111], some 100⟩ := by
  obtain ⟨Z, hZ, hb⟩ := ok_of_toOption (x := spec true exDb (strBytes "2")
    [[97], [98], strBytes "WEIGHTS", strBytes "2", strBytes "3"])
    (l := [(Dbl.ofInt 2, [120]), (Dbl.ofInt 3, [122]), (Dbl.ofInt 7, [121])]) (by decide +kernel)
  have hlen : Z.len = 3 := by
    rw [← ZSet.byscore_length (spec_ok_inv hZ), hb]; rfl
  obtain ⟨dbf, h1, h2, _⟩ := run_ok (fun _ _ => pure none) {} 1 "zunionstore" (Or.inl rfl) [100] (strBytes "2") [97]
    [[98], strBytes "WEIGHTS", strBytes "2", strBytes "3"] false exSys (by decide) (by decide +kernel)
    (by decide +kernel) Z hZ
  rw [hlen] at h1 h2
  exact ⟨dbf, Z, h1, h2, hb, by rfl⟩

-- connection 1 watches the destination: it is flagged
example : (notifyFn 0 [100] { id := 1, watches := [(0, [100]), (0, [113])] }).watchNotified = true := by decide

-- the hypothesis of `run_gated` / `run_subscribed` holds for a subscribed connection: `ZUNIONSTORE d x a` (numkeys
-- not a number, expired destination) is answered with the context error and nothing at all changes
example :
    runWith (special (fun _ _ => pure none)) {} 1 (zsig "zunionstore") ([101] :: strBytes "x" :: [[97]]) false
        { exSys with srv := { exSys.srv with conns := [{ id := 1, pubsub := 1 }] } } =
      (some (.err (strBytes Msgs.BAD_COMMAND_IN_PUBSUB_MSG)),
        { exSys with srv := { exSys.srv with conns := [{ id := 1, pubsub := 1 }] } }) :=
  run_gated (fun _ _ => pure none) {} 1 "zunionstore" _ false _ _ (by decide)

end FR.Props.C03s
