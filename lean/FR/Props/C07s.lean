import FR.Proofs.Twin
/-!
# C07 (system level) — once the clock is past a key's deadline, every command and every event treats the key
exactly as if it had been deleted

`FR/Props/C07.lean` proves this for the generic runner on one database.  Here it is proved for the whole system:
every event of a history (`Ev`, `stepEv` of `FR/Proofs/History.lean`: requests, raw `sendall` with the parser loop,
MULTI/EXEC, scripts, SCAN/KEYS/DBSIZE/RANDOMKEY/MOVE/SWAPDB/FLUSH*/SORT/ZUNIONSTORE, blocking pops with their
wake-ups and time-outs on both front-ends, open/close/gc of connections, outages) maps *twins* to twins.

* `PurgeEq s₁ s₂` : the two states are identical except for the database dictionaries, and corresponding
  dictionaries are equal after purging the entries that are expired at the common server time.
* `Twin s₁ s₂`    : `PurgeEq` plus unique keys in every dictionary of both states (implied by `Sys.DataInv`).
* `EvClockOk t e`  : the clock hypothesis — the readings brought by an event that may run `_process_command` are
  non-decreasing and not before the server time `t`.  It is needed: `clock_backwards_resurrects`.

No command had to be excluded: no special command inspects an expired entry without going through a purging accessor.
-/
namespace FR.Props.C07s
open FR FR.Twin

/-! ## One event -/

/-- **Twin simulation.**  Twins stay twins under every event whose clock readings do not run backwards.
In particular `out`, `fault`, `crashed`, all connection records, pub/sub tables, the script cache and the
remaining hints are equal afterwards (`Twin.out_eq`, …), and the dictionaries are again purge-equal. -/
theorem twin_step {s₁ s₂ : Sys} (h : Twin s₁ s₂) (e : Ev) (hc : EvClockOk s₁.srv.time e) :
    Twin (stepEv s₁ e) (stepEv s₂ e) :=
  stepEv_twin h e hc

/-- the same in the vocabulary of the task: `PurgeEq` is preserved, given `Sys.DataInv` of both states
(which is itself preserved, `FR.stepEv_preserves`) -/
theorem purgeEq_step {s₁ s₂ : Sys} (h : PurgeEq s₁ s₂) (i₁ : s₁.DataInv) (i₂ : s₂.DataInv) (e : Ev)
    (hc : EvClockOk s₁.srv.time e) :
    PurgeEq (stepEv s₁ e) (stepEv s₂ e) ∧ (stepEv s₁ e).DataInv ∧ (stepEv s₂ e).DataInv :=
  ⟨(stepEv_twin ⟨h, KeysInv.of_dataInv i₁, KeysInv.of_dataInv i₂⟩ e hc).1,
    FR.stepEv_preserves s₁ e i₁, FR.stepEv_preserves s₂ e i₂⟩

/-- what the two runs show after the event is literally the same -/
theorem step_observables {s₁ s₂ : Sys} (h : Twin s₁ s₂) (e : Ev) (hc : EvClockOk s₁.srv.time e) :
    (stepEv s₂ e).out = (stepEv s₁ e).out ∧ (stepEv s₂ e).fault = (stepEv s₁ e).fault ∧
    (stepEv s₂ e).crashed = (stepEv s₁ e).crashed ∧ (stepEv s₂ e).srv.conns = (stepEv s₁ e).srv.conns ∧
    (stepEv s₂ e).srv.time = (stepEv s₁ e).srv.time :=
  have h' := stepEv_twin h e hc
  ⟨h'.out_eq, h'.fault_eq, h'.crashed_eq, h'.conns_eq, h'.time_eq⟩

/-- the building blocks, for reference: `_run_command` of any command (regular, special, EXEC, script) at a fixed
server time, whatever the pending hints are … -/
theorem runCommand_twin (fut : Option (List Int)) (t : Int) (mode : Mode) (c : Nat) (sig : Sig) (raw : List Bytes)
    (fromScript : Bool) :
    Sim (Tw fut t) Eq (runCommand mode c sig raw fromScript) (runCommand mode c sig raw fromScript) :=
  sim_runCommand mode c sig raw fromScript

/-- … and `_process_command` of any request, which is where the server time moves -/
theorem processCommand_twin (fl : List Int) (mode : Mode) (c : Nat) (fields : List Bytes) :
    Sim (TwE (some fl)) Eq (processCommand mode c fields) (processCommand mode c fields) :=
  sim_processCommand mode c fields

/-! ## Histories -/

/-- **History form.**  Along any history whose events meet the clock hypothesis, twins stay twins and the two runs
emit the same replies and raise the same fault / crash flags after every single event. -/
theorem twin_history (evs : List Ev) {s₁ s₂ : Sys} (h : Twin s₁ s₂) (hc : HistClockOk s₁ evs) :
    Twin (evs.foldl stepEv s₁) (evs.foldl stepEv s₂) ∧ observe s₁ evs = observe s₂ evs :=
  history_twin evs h hc

/-- the state-free form of the clock hypothesis: all readings of the history, in order, are non-decreasing and not
before the current server time -/
theorem twin_history_sorted (evs : List Ev) {s₁ s₂ : Sys} (h : Twin s₁ s₂)
    (hc : (s₁.srv.time :: evs.flatMap Ev.clocks).Pairwise (· ≤ ·)) :
    Twin (evs.foldl stepEv s₁) (evs.foldl stepEv s₂) ∧ observe s₁ evs = observe s₂ evs :=
  history_twin evs h (histClockOk_of_sorted evs h.keys₁ hc)

/-! ## The property in its own words -/

/-- A state in which key `k` of database `d` is past its deadline and the same state with `k` deleted from `d`
are twins … -/
theorem expired_twin_deleted {s : Sys} (inv : s.DataInv) (d : Nat) (k : Bytes) (it : Item)
    (hl : (s.srv.dbs.getD d []).lookup k = some it) (he : (s.dbAt d).expired it = true) :
    Twin s (delKey s d k) :=
  FR.Twin.expired_twin_deleted (KeysInv.of_dataInv inv) d k it hl he

/-- … hence no future history with a clock that does not run backwards can tell them apart: in any database,
for every command, inside and outside MULTI/EXEC, from scripts, through blocked connections. -/
theorem expired_eq_deleted_forever {s : Sys} (inv : s.DataInv) (d : Nat) (k : Bytes) (it : Item)
    (hl : (s.srv.dbs.getD d []).lookup k = some it) (he : (s.dbAt d).expired it = true)
    (evs : List Ev) (hc : (s.srv.time :: evs.flatMap Ev.clocks).Pairwise (· ≤ ·)) :
    observe s evs = observe (delKey s d k) evs ∧ Twin (evs.foldl stepEv s) (evs.foldl stepEv (delKey s d k)) :=
  have h := twin_history_sorted evs (expired_twin_deleted inv d k it hl he) hc
  ⟨h.2, h.1⟩

/-! ## The clock hypothesis is necessary -/

/-- key `a` of database 0 expired at 5, the server time is 10, the entry has not been purged yet -/
def wA : Sys := { srv := { time := 10, dbs := [[([97], ⟨.str [118], some 5⟩)]], conns := [{ id := 1 }] } }
/-- the same state with the key deleted -/
def wB : Sys := { srv := { time := 10, dbs := [[]], conns := [{ id := 1 }] } }
/-- `GET a` on connection 1; the lock-time clock reading is `clock` -/
def getA (clock : Int) : Ev := .request {} 1 [[71, 69, 84], [97]] [clock] []

def isNil : Reply → Bool | .nil => true | _ => false
def bulkOf : Reply → Option Bytes | .bulk b => some b | _ => none

theorem wA_dataInv : wA.DataInv := by
  intro d hd
  have : d = [([97], ⟨.str [118], some 5⟩)] := by simpa [wA] using hd
  subst this
  exact ⟨by decide, fun p hp => by
    have : p = ([97], ⟨.str [118], some 5⟩) := by simpa using hp
    subst this; rfl⟩

theorem wA_wB_twin : Twin wA wB := by
  have := expired_twin_deleted wA_dataInv 0 [97] ⟨.str [118], some 5⟩ rfl (by decide)
  exact this

/-- **Witness.**  A clock that runs backwards resurrects an expired but not yet purged key: with the reading 3 < 10
the state holding the stale entry answers `GET a` with the old value, its twin answers nil; the two states are
not twins any more.  (Replay: `SET a v PX …`, let it expire without touching it, then make `time.time()` return an
earlier instant and `GET a`.) -/
theorem clock_backwards_resurrects :
    Twin wA wB ∧ ¬ EvClockOk wA.srv.time (getA 3) ∧
    (stepEv wA (getA 3)).out.map (fun p => bulkOf p.2) = [some [118]] ∧
    (stepEv wB (getA 3)).out.map (fun p => isNil p.2) = [true] ∧
    (stepEv wB (getA 3)).out ≠ (stepEv wA (getA 3)).out ∧
    ¬ Twin (stepEv wA (getA 3)) (stepEv wB (getA 3)) := by
  have h1 : (stepEv wA (getA 3)).out.map (fun p => bulkOf p.2) = [some [118]] := by decide +kernel
  have h2 : (stepEv wB (getA 3)).out.map (fun p => isNil p.2) = [true] := by decide +kernel
  have h3 : (stepEv wA (getA 3)).out.map (fun p => isNil p.2) = [false] := by decide +kernel
  have hne : (stepEv wB (getA 3)).out ≠ (stepEv wA (getA 3)).out := by
    intro e
    rw [e, h3] at h2
    exact absurd h2 (by decide)
  refine ⟨wA_wB_twin, by decide, h1, h2, hne, fun ht => hne ht.out_eq⟩

/-! ## Non-vacuity -/

/-- with a clock that moves on (12 ≥ 10) the hypotheses of `twin_step` hold for the pair above … -/
example : Twin wA wB ∧ EvClockOk wA.srv.time (getA 12) := ⟨wA_wB_twin, by decide⟩

/-- … and, as the theorem says, both states answer nil -/
example : (stepEv wA (getA 12)).out.map (fun p => isNil p.2) = [true] ∧
    (stepEv wB (getA 12)).out.map (fun p => isNil p.2) = [true] := by decide +kernel

example : (stepEv wB (getA 12)).out = (stepEv wA (getA 12)).out :=
  (step_observables wA_wB_twin (getA 12) (by decide)).1

/-- the hypotheses of `purgeEq_step` are satisfiable (the theorem is about `PurgeEq` of two `DataInv` states) -/
example : PurgeEq wA wB ∧ wA.DataInv := ⟨wA_wB_twin.1, wA_dataInv⟩

/-- a history over the stale entry: a second connection, DBSIZE, KEYS *, MULTI / GET a / EXEC, SCAN 0, and an
`APPEND a x` that re-creates the key; clock readings 11 … 18 -/
def demo : List Ev :=
  [ .open 2,
    .cmd {} 2 [[68, 66, 83, 73, 90, 69]] [11],
    .cmd {} 1 [[75, 69, 89, 83], [42]] [12],
    .cmd {} 1 [[77, 85, 76, 84, 73]] [13],
    .cmd {} 1 [[71, 69, 84], [97]] [14],
    .cmd {} 1 [[69, 88, 69, 67]] [15],
    .cmd {} 2 [[83, 67, 65, 78], [48]] [16],
    .cmd {} 2 [[65, 80, 80, 69, 78, 68], [97], [120]] [17],
    .cmd {} 1 [[71, 69, 84], [97]] [18] ]

/-- the clock hypothesis of the history theorem holds for it -/
example : (wA.srv.time :: demo.flatMap Ev.clocks).Pairwise (· ≤ ·) := by decide

/-- so the two runs are indistinguishable … -/
example : observe wA demo = observe wB demo := (twin_history_sorted demo wA_wB_twin (by decide)).2

/-- … and they are not trivial: nine events, every command answered, no fault, no crash; DBSIZE says 0 and the
final GET returns the re-created value `x` -/
example : (observe wA demo).length = 9 ∧
    (observe wA demo).map (fun o => o.1.length) = [0, 1, 1, 1, 1, 1, 1, 1, 1] ∧
    (observe wA demo).all (fun o => o.2.1.isNone && o.2.2.isNone) = true ∧
    ((demo.take 2).foldl stepEv wA).out.map (fun p => p.2 matches .int 0) = [true] ∧
    (demo.foldl stepEv wA).out.map (fun p => bulkOf p.2) = [some [120]] := by decide +kernel

/-- the corollary applies to `wA`: key `a` of database 0 is past its deadline -/
example : observe wA demo = observe (delKey wA 0 [97]) demo :=
  (expired_eq_deleted_forever wA_dataInv 0 [97] ⟨.str [118], some 5⟩ rfl (by decide) demo (by decide)).1

end FR.Props.C07s
