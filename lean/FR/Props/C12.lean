import FR.Proofs.Lockset
/-!
# C12: commands of concurrent clients are atomic — the lockset argument

`FR.Lockset` models a recorded trace of one fakeredis server used from several threads: client-side
`call` / `ret` of commands, `acq` / `rel` of the single `server.lock` (a `Condition.wait` is a `rel`
followed later by an `acq`), and `acc`esses to shared objects.

For every trace that passes the executable check `wellLocked`:

* the lock is a mutex and every access is made by its holder (`welllocked_mutex`);
* the access sequence of the trace is the concatenation, in acquisition order, of the access sequences
  of its critical sections, and the serial schedule `serialTrace tr` — which has the serial shape —
  is again well-locked and has the same critical sections and the same accesses (`welllocked_serial`);
* the acquisition order respects real-time precedence of commands and each thread's program order
  (`section_order_respects_real_time`, `program_order`);
* `cmdOrder tr` — the commands at their linearization points — is a linearization order
  (`linearization_exists`).

Conventions.  The linearization point of a command is its LAST critical section (a blocking pop that
waited takes effect after its last wake-up).  Commands without any critical section touch no shared
object; they do not occur in `cmdOrder` and are emitted in `serialTrace` as `call, ret` at the position
of their `call`.  What is NOT modelled: the Python runtime (that `with lock:` really excludes, that the
harness records every access); the trace is the interface.
-/
namespace FR.Props.C12
open FR.Lockset

/-! ## 1. mutual exclusion -/

/-- `holdsAt tr i t`: `t` has more `acq` than `rel` among the first `i` events (a per-thread count that
does not mention the checker's state).  In a well-locked trace this is the case exactly for
`holderAt tr i`, so at every prefix at most one thread holds the lock; and every access is performed
by the thread that holds the lock at that moment. -/
theorem welllocked_mutex (tr : Trace) (h : wellLocked tr = true) :
    (∀ i t, holdsAt tr i t ↔ holderAt tr i = some t) ∧
    (∀ i t1 t2, holdsAt tr i t1 → holdsAt tr i t2 → t1 = t2) ∧
    (∀ i t o w, tr[i]? = some (.acc t o w) → holderAt tr i = some t ∧ holdsAt tr i t) := by
  have key : ∀ i t, holdsAt tr i t ↔ holderAt tr i = some t := by
    intro i t
    have : acqCount t (tr.take i) + (if (none : Option Tid) = some t then 1 else 0) =
        relCount t (tr.take i) + (if holderFrom none (tr.take i) = some t then 1 else 0) :=
      (mutex_from tr St.init i h).1 t
    simp only [reduceCtorEq, if_false, Nat.add_zero] at this
    simp only [holdsAt, holderAt]
    by_cases hc : holderFrom none (tr.take i) = some t
    · rw [if_pos hc] at this; simp only [hc, iff_true]; omega
    · rw [if_neg hc] at this; simp only [hc, iff_false]; omega
  refine ⟨key, ?_, ?_⟩
  · intro i t1 t2 h1 h2
    have e1 := (key i t1).mp h1
    have e2 := (key i t2).mp h2
    rw [e1] at e2; exact Option.some.inj e2
  · intro i t o w he
    have := (mutex_from tr St.init i h).2 t o w he
    exact ⟨this, (key i t).mpr this⟩

/-! ## 2. equivalence with the serial schedule -/

/-- The global access sequence is the concatenation, in acquisition order, of the access sequences of
the critical sections: accesses of different sections never interleave. -/
theorem accesses_eq_sections (tr : Trace) (h : wellLocked tr = true) :
    accesses tr = (sections tr).flatMap (·.2.2) :=
  (accesses_sectionsFrom tr St.init h).1 rfl

/-- every access of a critical section is made by the section's thread, and the section's command was
called by that thread -/
theorem sections_owned (tr : Trace) (h : wellLocked tr = true) :
    ∀ s ∈ sections tr, Ev.call s.1 s.2.1 ∈ tr ∧ ∀ e ∈ s.2.2, ∃ o w, e = Ev.acc s.1 o w := by
  intro s hs
  refine ⟨?_, section_accs_owner tr St.init h s hs⟩
  rcases section_called tr St.init h s hs with ⟨b, hb⟩ | hm
  · simp [St.init, cget] at hb
  · exact hm

/-- the serial schedule is well-locked -/
theorem serialTrace_wellLocked (tr : Trace) (h : wellLocked tr = true) :
    wellLocked (serialTrace tr) = true :=
  (serial_wl tr St.init St.init inv_init (sim_init tr) h).1

/-- the serial schedule consists of the same critical sections (thread, command, accesses), in the
same order -/
theorem serialTrace_sections (tr : Trace) (h : wellLocked tr = true) :
    sections (serialTrace tr) = sections tr :=
  (serial_wl tr St.init St.init inv_init (sim_init tr) h).2

/-- the serial schedule is serial: its critical sections are contiguous blocks `acq, acc*, rel`
(holds for every trace) -/
theorem serialTrace_isSerial (tr : Trace) : isSerial (serialTrace tr) = true :=
  serialFrom_isSerial tr St.init

/-- any state machine driven by the access sequence sees the same sequence in the serial schedule -/
theorem serialTrace_accesses (tr : Trace) (h : wellLocked tr = true) :
    accesses (serialTrace tr) = accesses tr := by
  rw [accesses_eq_sections _ (serialTrace_wellLocked tr h), serialTrace_sections tr h,
    ← accesses_eq_sections tr h]

theorem welllocked_serial (tr : Trace) (h : wellLocked tr = true) :
    accesses tr = (sections tr).flatMap (·.2.2) ∧
    wellLocked (serialTrace tr) = true ∧
    isSerial (serialTrace tr) = true ∧
    sections (serialTrace tr) = sections tr ∧
    accesses (serialTrace tr) = accesses tr :=
  ⟨accesses_eq_sections tr h, serialTrace_wellLocked tr h, serialTrace_isSerial tr,
    serialTrace_sections tr h, serialTrace_accesses tr h⟩

/-! ## 3. real-time precedence and program order -/

/-- If `c1` returns before `c2` is called, every critical section of `c1` comes before every critical
section of `c2` in acquisition order. -/
theorem section_order_respects_real_time (tr : Trace) (h : wellLocked tr = true) (c1 c2 : Cid)
    (hp : precedes tr c1 c2 = true)
    (i j : Nat) (hi : i < (sections tr).length) (hj : j < (sections tr).length)
    (h1 : (sections tr)[i].2.1 = c1) (h2 : (sections tr)[j].2.1 = c2) : i < j := by
  obtain ⟨l1, l2, hl, hl1, hl2⟩ := sections_split tr c1 c2 St.init inv_init h hp
  exact index_lt_of_split (fun s : Sec => s.2.1 = c1) (fun s : Sec => s.2.1 = c2) (sections tr) l1 l2
    hl hl1 hl2 i j hi hj h1 h2

/-- the same, as a cut of the section list -/
theorem section_order_respects_real_time_split (tr : Trace) (h : wellLocked tr = true) (c1 c2 : Cid)
    (hp : precedes tr c1 c2 = true) :
    ∃ l1 l2, sections tr = l1 ++ l2 ∧ (∀ s ∈ l1, s.2.1 ≠ c2) ∧ (∀ s ∈ l2, s.2.1 ≠ c1) :=
  sections_split tr c1 c2 St.init inv_init h hp

/-- program order implies real-time precedence: a thread that calls `c1` and later `c2` has returned
from `c1` before it calls `c2` -/
theorem program_order (tr : Trace) (h : wellLocked tr = true) (t : Tid) (c1 c2 : Cid)
    (hp : progBefore tr t c1 c2) : precedes tr c1 c2 = true :=
  progBefore_precedes h hp

/-- the commands of one thread are totally ordered by `precedes` -/
theorem program_order_total (tr : Trace) (h : wellLocked tr = true) (t : Tid) (c1 c2 : Cid)
    (h1 : Ev.call t c1 ∈ tr) (h2 : Ev.call t c2 ∈ tr) (hne : c1 ≠ c2) :
    precedes tr c1 c2 = true ∨ precedes tr c2 c1 = true := by
  rcases progBefore_total h1 h2 hne with hp | hp
  · exact Or.inl (progBefore_precedes h hp)
  · exact Or.inr (progBefore_precedes h hp)

/-- … and hence by section order -/
theorem program_order_sections (tr : Trace) (h : wellLocked tr = true) (t : Tid) (c1 c2 : Cid)
    (hp : progBefore tr t c1 c2)
    (i j : Nat) (hi : i < (sections tr).length) (hj : j < (sections tr).length)
    (h1 : (sections tr)[i].2.1 = c1) (h2 : (sections tr)[j].2.1 = c2) : i < j :=
  section_order_respects_real_time tr h c1 c2 (program_order tr h t c1 c2 hp) i j hi hj h1 h2

/-! ## 4. the linearization order -/

/-- `cmdOrder tr` lists, without repetition, exactly the commands that have a critical section; it
respects real-time precedence and each thread's program order. -/
theorem linearization_exists (tr : Trace) (h : wellLocked tr = true) :
    (cmdOrder tr).Nodup ∧
    (∀ c, c ∈ cmdOrder tr ↔ 0 < sectionsOf tr c) ∧
    (∀ c1 c2, precedes tr c1 c2 = true → c1 ∈ cmdOrder tr → c2 ∈ cmdOrder tr →
      (cmdOrder tr).idxOf c1 < (cmdOrder tr).idxOf c2) ∧
    (∀ t c1 c2, progBefore tr t c1 c2 → c1 ∈ cmdOrder tr → c2 ∈ cmdOrder tr →
      (cmdOrder tr).idxOf c1 < (cmdOrder tr).idxOf c2) := by
  have hprec : ∀ c1 c2, precedes tr c1 c2 = true → c1 ∈ cmdOrder tr → c2 ∈ cmdOrder tr →
      (cmdOrder tr).idxOf c1 < (cmdOrder tr).idxOf c2 := by
    intro c1 c2 hp hc1 _
    obtain ⟨l1, l2, hl, hl1, hl2⟩ := sections_split tr c1 c2 St.init inv_init h hp
    obtain ⟨m1, m2, hm, hm1, hm2⟩ := cmdOrder_split hl hl1 hl2
    exact idxOf_lt_of_split _ m1 m2 c1 c2 hm hc1 hm1 hm2
  refine ⟨nodup_lastOccs _, ?_, hprec, ?_⟩
  · intro c
    simp only [cmdOrder, sectionsOf, mem_lastOccs, List.count_pos_iff]
  · intro t c1 c2 hp
    exact hprec c1 c2 (program_order tr h t c1 c2 hp)

/-- The linearization point is the last critical section: if `s` is the last section of its command,
the commands after it in `cmdOrder` are exactly those linearized by the sections after `s`. -/
theorem linearization_point_is_last_section (tr : Trace) (l1 l2 : List Sec) (s : Sec)
    (hl : sections tr = l1 ++ s :: l2) (hlast : ∀ s' ∈ l2, s'.2.1 ≠ s.2.1) :
    ∃ m1, cmdOrder tr = m1 ++ s.2.1 :: lastOccs (l2.map (·.2.1)) ∧ s.2.1 ∉ m1 := by
  have hn : s.2.1 ∉ l2.map (·.2.1) := by
    intro hm
    obtain ⟨s', hs', he⟩ := List.mem_map.mp hm
    exact hlast s' hs' he
  refine ⟨(lastOccs (l1.map (·.2.1))).filter
    (fun x => !(s.2.1 :: l2.map (·.2.1)).contains x), ?_, ?_⟩
  · rw [cmdOrder, hl, List.map_append, lastOccs_append, List.map_cons]
    simp only [lastOccs, List.contains_eq_mem, decide_eq_true_eq, if_neg hn]
  · intro hm
    have := (List.mem_filter.mp hm).2
    simp at this

/-- When every command has at most one critical section (no blocking command had to wait),
`cmdOrder` is simply the list of the sections' commands: the trace's access sequence is the
concatenation of the commands' accesses in linearization order. -/
theorem linearization_single_sections (tr : Trace) (hs : ∀ c, sectionsOf tr c ≤ 1) :
    cmdOrder tr = (sections tr).map (·.2.1) :=
  lastOccs_of_nodup _ (List.nodup_iff_count.mpr hs)

/-! ## the reporting checker used by the driver decides `wellLocked` -/

theorem checker_agrees (tr : Trace) : firstBad St.init 0 tr = none ↔ wellLocked tr = true :=
  firstBad_eq_none tr St.init 0

/-! ## 5. non-vacuity / sanity examples -/

/-- two threads, properly nested `acq` / `rel`, interleaved `call` / `ret` -/
def good : Trace :=
  [.call 1 10, .call 2 20, .acq 1, .acc 1 5 true, .rel 1, .acq 2, .acc 2 5 false, .ret 1 10,
   .acc 2 6 true, .rel 2, .call 1 11, .ret 2 20, .acq 1, .acc 1 5 false, .rel 1, .ret 1 11]

example : wellLocked good = true := by decide

-- a race: thread 2 writes object 5 while thread 1 holds the lock
example : wellLocked
    [.call 1 10, .call 2 20, .acq 1, .acc 1 5 true, .acc 2 5 true, .rel 1, .ret 1 10, .ret 2 20]
    = false := by decide
-- an access without any lock (e.g. from `close()`)
example : wellLocked [.call 1 10, .acc 1 5 false, .ret 1 10] = false := by decide
-- two holders
example : wellLocked [.call 1 10, .call 2 20, .acq 1, .acq 2, .rel 2, .rel 1] = false := by decide
-- returning to the caller while still holding the lock; lock still held at the end
example : wellLocked [.call 1 10, .acq 1, .ret 1 10, .rel 1] = false := by decide
example : wellLocked [.call 1 10, .acq 1, .acc 1 5 true] = false := by decide

-- sections, command order and real-time precedence of `good`: command 10 returns before 11 is
-- called, and its section (index 0) is before that of 11 (index 2); 10 and 20 overlap
example : sections good =
    [(1, 10, [.acc 1 5 true]), (2, 20, [.acc 2 5 false, .acc 2 6 true]), (1, 11, [.acc 1 5 false])] := by
  decide
example : cmdOrder good = [10, 20, 11] := by decide
example : precedes good 10 11 = true ∧ precedes good 10 20 = false ∧ precedes good 20 10 = false := by
  decide
example : (cmdOrder good).idxOf 10 < (cmdOrder good).idxOf 11 := by decide
example : progBefore good 1 10 11 :=
  ⟨[], [.call 2 20, .acq 1, .acc 1 5 true, .rel 1, .acq 2, .acc 2 5 false, .ret 1 10,
    .acc 2 6 true, .rel 2, .call 1 11, .ret 2 20, .acq 1, .acc 1 5 false, .rel 1, .ret 1 11],
    rfl, by decide⟩

-- the serial schedule of `good`
example : serialTrace good =
    [.call 1 10, .acq 1, .acc 1 5 true, .rel 1, .ret 1 10,
     .call 2 20, .acq 2, .acc 2 5 false, .acc 2 6 true, .rel 2, .ret 2 20,
     .call 1 11, .acq 1, .acc 1 5 false, .rel 1, .ret 1 11] := by decide
-- the recorded trace itself is not serial (a `ret` of thread 1 inside the section of thread 2)
example : isSerial good = false := by decide

/-- a blocking pop (command 10) that waits: first section finds the list empty, `Condition.wait`
releases the lock, thread 2 pushes (command 20), thread 1 re-acquires and pops -/
def blocking : Trace :=
  [.call 1 10, .acq 1, .acc 1 7 false, .rel 1, .call 2 20, .acq 2, .acc 2 7 true, .rel 2, .ret 2 20,
   .acq 1, .acc 1 7 true, .rel 1, .ret 1 10]

example : wellLocked blocking = true := by decide
example : sectionsOf blocking 10 = 2 := by decide
-- the pop is linearized at its last section, after the push
example : cmdOrder blocking = [20, 10] := by decide
example : serialTrace blocking =
    [.call 1 10, .acq 1, .acc 1 7 false, .rel 1, .call 2 20, .acq 2, .acc 2 7 true, .rel 2, .ret 2 20,
     .acq 1, .acc 1 7 true, .rel 1, .ret 1 10] := by decide

end FR.Props.C12
