import FR.Proofs.C17cReply
/-!
# C17 (second half) — client-side reply decoding (`decode_responses`)

"With decode_responses enabled every bulk string at any nesting depth of any reply (including pub/sub messages and
blocking-pop results) that is valid in the configured encoding is decoded with it and nothing else is altered; with it
disabled replies are bytes."

The model is `FR/Sys/Client.lean`: `decodeReply cfg disable r` is `FakeConnection.read_response(disable_decoding)`
(sync and asyncio front-ends are the same code) applied to the object `r` taken from the reply queue — whatever put it
there (a command, EXEC, a pub/sub message, a blocking pop that was served later).  Vocabulary
(`FR/Proofs/C17cText.lean`, `FR/Proofs/C17cReply.lean`):

* `encodeText enc s` — Python `s.encode(enc)`; `ValidIn enc b` — `b` is the encoding of some text; that text is unique
  (`encodeText_injective`) and is what every error handler returns (`decodeText_encodeText`); for UTF-8 validity is
  core Lean's `ByteArray.IsValidUTF8` and strict decoding is `String.fromUTF8?` (`validIn_utf8_iff`,
  `decodeText_utf8_strict_eq_fromUTF8?`), for ascii "all bytes < 128", for latin-1 `True`;
* `subReply r p`, `subVal v p` — the node at position `p` (child indices from the root);
* `leaves r` — the payloads of all bulk and status nodes in depth-first order (`mem_leaves_iff`: exactly the bulks /
  status replies found at some position); `AllValid enc r` — all of them are valid;
* `Rel leaf r v` — `v` is `r` node by node: `nil ↦ nil`, `int n ↦ int n`, error reply ↦ its exception object
  (`errObj`), array ↦ list of the same length, element by element, and bulk / status `b ↦ w` with `leaf b w`;
* `Raises r` — `r` is an error reply whose exception object is a `ResponseError` (so `read_response` raises it);
* `seen r` — `r` with status replies turned into bulks and known error codes stripped: all the client can tell;
* `encodeBack enc v` — every text of `v` encoded with `enc`.
-/
namespace FR.Props.C17c
open FR FR.Client

/-- the top-level reply is an error object that `read_response` raises -/
def Raises (r : Reply) : Prop := ∃ m, r = .err m ∧ (parseError m).1.isResponseError = true

/-- every bulk / status payload at every depth is valid in the encoding -/
def AllValid (enc : Encoding) (r : Reply) : Prop := ∀ b ∈ leaves r, ValidIn enc b

/-! ## 0. `read_response`: what is raised, what is returned -/

/-- A top-level error reply: raised iff its class derives from `ResponseError`, otherwise the exception object is
RETURNED (whatever `disable_decoding` and the configuration). -/
theorem read_response_error (cfg : Cfg) (disable : Bool) (m : Bytes) :
    decodeReply cfg disable (.err m) =
      if (parseError m).1.isResponseError then .error (.raised (parseError m).1 (parseError m).2)
      else .ok (errObj m) := rfl

/-- Any other reply: the queue object itself with `disable_decoding`, `_decode` of it without. -/
theorem read_response_other (cfg : Cfg) (disable : Bool) (r : Reply) (h : ∀ m, r ≠ .err m) :
    decodeReply cfg disable r = if disable then .ok (rawVal r) else decodeVal cfg r := by
  cases r with
  | err m => exact absurd rfl (h m)
  | _ => rfl

example : ∀ m, Reply.arr [.err [69], .bulk [255]] ≠ .err m := nofun

/-- an exception of `decodeBytes` is a `UnicodeDecodeError` about that very byte string, and can only happen with
decoding on, handler `strict`, and an invalid byte string -/
theorem decodeBytes_error (cfg : Cfg) (b : Bytes) (e : DecodeErr) (h : decodeBytes cfg b = .error e) :
    cfg.decodeResponses = true ∧ cfg.errors = .strict ∧ ¬ ValidIn cfg.encoding b ∧
      ∃ s t r, e = .unicode cfg.encoding b s t r := by
  unfold decodeBytes at h
  split at h
  next hd =>
    cases hx : decodeText cfg.encoding cfg.errors b with
    | ok s => rw [hx] at h; cases h
    | error e' =>
      rw [hx] at h
      simp only [Except.map, Except.error.injEq] at h
      subst h
      have hs : cfg.errors = .strict := by
        cases he : cfg.errors with
        | strict => rfl
        | replace =>
          obtain ⟨s, hs⟩ := decodeText_lenient_total cfg.encoding .replace (by decide) b
          rw [he, hs] at hx; cases hx
        | ignore =>
          obtain ⟨s, hs⟩ := decodeText_lenient_total cfg.encoding .ignore (by decide) b
          rw [he, hs] at hx; cases hx
      rw [hs] at hx
      obtain ⟨s, t, r, he, _⟩ := decodeText_strict_error_shape _ _ _ hx
      exact ⟨hd, hs, (decodeText_strict_error_iff _ _).1 ⟨_, hx⟩, s, t, r, he⟩
  next => cases h

example : decodeBytes { decodeResponses := true } [0xC3] = .error (.unicode .utf8 [0xC3] 0 1 .unexpectedEnd) := by
  decide +kernel

/-- The exception that surfaces is the one of the FIRST bulk / status payload, in depth-first left-to-right order,
whose decoding fails (list comprehensions evaluate left to right). -/
theorem first_failure_surfaces (cfg : Cfg) (r : Reply) (hr : ∀ m, r ≠ .err m) (e : DecodeErr) :
    decodeReply cfg false r = .error e ↔ firstErr cfg (leaves r) = some e := by
  rw [read_response_other cfg false r hr, ← errOf_decodeVal, errOf_eq_some_iff]
  rfl

/-- `raise response` happens for a top-level `ResponseError` object and for nothing else: error replies nested in an
array (EXEC results, script results) are never raised by `read_response`. -/
theorem raised_iff_toplevel (cfg : Cfg) (disable : Bool) (r : Reply) :
    (∃ c msg, decodeReply cfg disable r = .error (.raised c msg)) ↔ Raises r := by
  constructor
  · rintro ⟨c, msg, h⟩
    rcases reply_err_or r with ⟨m, rfl⟩ | hne
    · rw [read_response_error] at h
      split at h
      next hc => exact ⟨m, rfl, hc⟩
      next => cases h
    · rw [read_response_other _ _ _ hne] at h
      cases disable with
      | true => cases h
      | false =>
        have h' : errOf (decodeVal cfg _) = some (.raised c msg) := (errOf_eq_some_iff _ _).2 h
        rw [errOf_decodeVal] at h'
        obtain ⟨b, _, hb⟩ := List.exists_of_findSome?_eq_some h'
        obtain ⟨_, _, _, s, t, rs, he⟩ := decodeBytes_error cfg b _ ((errOf_eq_some_iff _ _).1 hb)
        cases he
  · rintro ⟨m, rfl, hc⟩
    exact ⟨_, _, by rw [read_response_error, if_pos hc]⟩

/-- **Finding (contradiction with redis-py on a real server).**  An error reply whose class is `ConnectionError`,
`AuthenticationError` or `BusyLoadingError` (messages `LOADING …`, `NOAUTH …`, `ERR invalid password`,
`ERR max number of clients reached`, `ERR Client sent AUTH, but no password is set`) is not raised by
`read_response` but returned to the caller as a value.  redis-py's own parsers raise such an error at once
(`if isinstance(error, ConnectionError): raise error`), also when nested.  Reachable in fakeredis only through a Lua
script (`redis.error_reply('LOADING x')`). -/
theorem connection_class_error_is_returned :
    decodeReply {} false (.err (strBytes "LOADING x")) = .ok (.err .busyLoading (strBytes "x")) ∧
    decodeReply {} false (.err (strBytes "NOAUTH Authentication required.")) =
      .ok (.err .authentication (strBytes "Authentication required.")) ∧
    decodeReply {} true (.err (strBytes "ERR max number of clients reached")) =
      .ok (.err .connection (strBytes "max number of clients reached")) ∧
    decodeReply {} false (.err (strBytes "ERR no such key")) = .error (.raised .response (strBytes "no such key")) := by
  decide +kernel

/-- hence "every top-level error reply is raised" is false of the model (and of the code) -/
theorem toplevel_error_always_raised_false :
    ¬ ∀ (cfg : Cfg) (disable : Bool) (m : Bytes), ∃ e, decodeReply cfg disable (.err m) = .error e := by
  intro h
  obtain ⟨e, he⟩ := h {} false (strBytes "LOADING x")
  rw [connection_class_error_is_returned.1] at he
  cases he

/-! ## 1. `decode_disabled_identity` -/

/-- **With `decode_responses=False`, or with `disable_decoding=True`, the caller receives the queue object itself**:
`rawVal r`, which is `r` with bulk and status payloads as `bytes` — unless `r` is a top-level `ResponseError`, which is
raised (`raised_iff_toplevel`). -/
theorem decode_disabled_identity (cfg : Cfg) (disable : Bool) (r : Reply)
    (h : cfg.decodeResponses = false ∨ disable = true) (hr : ¬ Raises r) :
    decodeReply cfg disable r = .ok (rawVal r) := by
  rcases reply_err_or r with ⟨m, rfl⟩ | hne
  · rw [read_response_error, if_neg (fun hc => hr ⟨m, rfl, hc⟩)]
    rfl
  · rw [read_response_other _ _ _ hne]
    cases disable with
    | true => rfl
    | false =>
      rcases h with h | h
      · exact decodeVal_off cfg h _
      · cases h

example : ({ decodeResponses := true } : Cfg).decodeResponses = false ∨ true = true := Or.inr rfl
example : ¬ Raises (.arr [.err (strBytes "ERR x"), .bulk [0xFF]]) := by rintro ⟨m, h, _⟩; cases h

/-- `rawVal r` is `r`, node by node, every bulk / status payload `b` as `bytes b`: same nesting, same lengths, same
integers and nils, error replies as their exception objects … -/
theorem rawVal_is_reply (r : Reply) : Rel (fun b w => w = .bytes b) r (rawVal r) := rawVal_rel r

/-- … and nothing is lost: re-reading `bytes` as bulks gives the reply back (as far as the client can tell: `seen`). -/
theorem rawVal_encodeBack (enc : Encoding) (r : Reply) : encodeBack enc (rawVal r) = some (seen r) :=
  encodeBack_of_rel enc _ (fun b w h => by subst h; rfl) r _ (rawVal_rel r)

/-- for replies without status and error nodes that is the reply itself -/
theorem rawVal_encodeBack_plain (enc : Encoding) (r : Reply) (h : Plain r) : encodeBack enc (rawVal r) = some r := by
  rw [rawVal_encodeBack, seen_eq_self r h]

example : decodeReply { decodeResponses := true } true (.arr [.bulk [0xFF], .arr [.int 3, .nil], .status [79, 75]]) =
    .ok (.list [.bytes [0xFF], .list [.int 3, .nil], .bytes [79, 75]]) := by decide +kernel

/-! ## 2. `decode_structure` -/

/-- a bulk / status payload comes out as `bytes` (that payload) or as some text -/
def IsStr (b : Bytes) (w : CVal) : Prop := w = .bytes b ∨ ∃ s, w = .text s

theorem decodeBytes_isStr (cfg : Cfg) (b : Bytes) (w : CVal) (h : decodeBytes cfg b = .ok w) : IsStr b w := by
  unfold decodeBytes at h
  split at h
  · cases hx : decodeText cfg.encoding cfg.errors b with
    | ok s => rw [hx] at h; cases h; exact Or.inr ⟨s, rfl⟩
    | error e => rw [hx] at h; cases h
  · cases h; exact Or.inl rfl

/-- **Whatever the configuration, a returned value has the shape of the reply**: same nesting, every array a list of
the same length in the same order, integers and nil unchanged, every error reply its exception object, every bulk /
status payload a `bytes` or `str` object. -/
theorem decode_structure (cfg : Cfg) (disable : Bool) (r : Reply) (v : CVal)
    (h : decodeReply cfg disable r = .ok v) : Rel IsStr r v := by
  rcases reply_err_or r with ⟨m, rfl⟩ | hne
  · rw [read_response_error] at h
    split at h
    · cases h
    · cases h; rfl
  · rw [read_response_other _ _ _ hne] at h
    cases disable with
    | true =>
      cases h
      exact rel_mono _ _ (fun b _ w hw => Or.inl hw) (rawVal_rel _)
    | false =>
      exact rel_mono _ _ (fun b _ w hw => decodeBytes_isStr cfg b w hw) ((decodeVal_ok_iff cfg _ v).1 h)

example : decodeReply { decodeResponses := true } false (.arr [.bulk [65], .arr [.int 3, .nil]]) =
    .ok (.list [.text "A", .list [.int 3, .nil]]) := by decide +kernel

/-- the shape, position by position: the value has a node exactly where the reply has one; under an array node sits a
list of the same length; integers, nil and error replies are what they were -/
theorem decode_structure_positions (cfg : Cfg) (disable : Bool) (r : Reply) (v : CVal)
    (h : decodeReply cfg disable r = .ok v) (p : List Nat) :
    ((subVal v p).isSome = (subReply r p).isSome) ∧
    (∀ xs, subReply r p = some (.arr xs) → ∃ vs, subVal v p = some (.list vs) ∧ vs.length = xs.length) ∧
    (∀ n, subReply r p = some (.int n) → subVal v p = some (.int n)) ∧
    (subReply r p = some .nil → subVal v p = some .nil) ∧
    (∀ m, subReply r p = some (.err m) → subVal v p = some (errObj m)) ∧
    (∀ b, (subReply r p = some (.bulk b) ∨ subReply r p = some (.status b)) →
      ∃ w, subVal v p = some w ∧ IsStr b w) := by
  have hrel := decode_structure cfg disable r v h
  have hleaf : ∀ b w, IsStr b w → ∀ vs, w ≠ .list vs := by
    intro b w hw vs e
    subst e
    rcases hw with hw | ⟨_, hw⟩ <;> cases hw
  refine ⟨?_, ?_, ?_, ?_, ?_, ?_⟩
  · cases hs : subReply r p with
    | some r' =>
      obtain ⟨v', hv', _⟩ := rel_path IsStr p r r' v hrel hs
      rw [hv']; rfl
    | none =>
      cases hv : subVal v p with
      | none => rfl
      | some v' =>
        obtain ⟨r', hr'⟩ := rel_path_back IsStr hleaf p r v v' hrel hv
        rw [hs] at hr'; cases hr'
  · intro xs hs
    obtain ⟨v', hv', hr⟩ := rel_path IsStr p r _ v hrel hs
    simp only [Rel] at hr
    obtain ⟨vs, rfl, hl⟩ := hr
    exact ⟨vs, hv', relL_length _ _ _ hl⟩
  · intro n hs
    obtain ⟨v', hv', hr⟩ := rel_path IsStr p r _ v hrel hs
    simp only [Rel] at hr
    rw [hv', hr]
  · intro hs
    obtain ⟨v', hv', hr⟩ := rel_path IsStr p r _ v hrel hs
    simp only [Rel] at hr
    rw [hv', hr]
  · intro m hs
    obtain ⟨v', hv', hr⟩ := rel_path IsStr p r _ v hrel hs
    simp only [Rel] at hr
    rw [hv', hr]
  · rintro b (hs | hs)
    · obtain ⟨v', hv', hr⟩ := rel_path IsStr p r _ v hrel hs
      exact ⟨v', hv', hr⟩
    · obtain ⟨v', hv', hr⟩ := rel_path IsStr p r _ v hrel hs
      exact ⟨v', hv', hr⟩

/-! ## 3. `decode_every_bulk` -/

/-- **With decoding on, the value returned is the reply with EVERY bulk / status payload, at every depth, replaced by
`payload.decode(encoding, errors)` as a `str` — and that is an equivalence: nothing else is altered, nothing is left
undecoded.**  (`decodeVal_ok_iff` is this statement for `_decode` itself.) -/
theorem decode_every_bulk (cfg : Cfg) (hd : cfg.decodeResponses = true) (r : Reply) (hr : ∀ m, r ≠ .err m) (v : CVal) :
    decodeReply cfg false r = .ok v ↔
      Rel (fun b w => ∃ s, decodeText cfg.encoding cfg.errors b = .ok s ∧ w = .text s) r v := by
  rw [read_response_other cfg false r hr]
  show decodeVal cfg r = .ok v ↔ _
  rw [decodeVal_ok_iff]
  have key : ∀ b w, decodeBytes cfg b = .ok w ↔ ∃ s, decodeText cfg.encoding cfg.errors b = .ok s ∧ w = .text s := by
    intro b w
    unfold decodeBytes
    rw [if_pos hd]
    cases decodeText cfg.encoding cfg.errors b with
    | ok s =>
      simp only [Except.map, Except.ok.injEq]
      constructor
      · rintro rfl; exact ⟨s, rfl, rfl⟩
      · rintro ⟨s', rfl, rfl⟩; rfl
    | error e =>
      simp only [Except.map]
      constructor
      · intro h; cases h
      · rintro ⟨_, h, _⟩; cases h
  constructor
  · exact rel_mono _ _ fun b _ w => (key b w).1
  · exact rel_mono _ _ fun b _ w => (key b w).2

example : ({ decodeResponses := true, encoding := .latin1 } : Cfg).decodeResponses = true := rfl

/-- **Every bulk (or status reply) at any position that is valid in the encoding becomes exactly its decoding**: the
node at the same position of the value is the `str` `s` with `s.encode(encoding) = b` (unique: `encodeText_injective`),
under every error handler. -/
theorem decode_valid_bulk_at (cfg : Cfg) (hd : cfg.decodeResponses = true) (r : Reply) (v : CVal)
    (h : decodeReply cfg false r = .ok v) (p : List Nat) (b : Bytes)
    (hp : subReply r p = some (.bulk b) ∨ subReply r p = some (.status b)) (hv : ValidIn cfg.encoding b) :
    ∃ s, subVal v p = some (.text s) ∧ encodeText cfg.encoding s = some b := by
  have hr : ∀ m, r ≠ .err m := by
    rintro m rfl
    cases p with
    | nil => simp only [subReply, Option.some.injEq] at hp; rcases hp with hp | hp <;> cases hp
    | cons i p => simp [subReply] at hp
  have hrel := (decode_every_bulk cfg hd r hr v).1 h
  obtain ⟨s0, hs0, henc⟩ := decodeText_valid cfg.encoding cfg.errors b hv
  rcases hp with hp | hp
  · obtain ⟨w, hw, hr'⟩ := rel_path _ p r _ v hrel hp
    simp only [Rel] at hr'
    obtain ⟨s, hs, rfl⟩ := hr'
    rw [hs0] at hs; cases hs
    exact ⟨s0, hw, henc⟩
  · obtain ⟨w, hw, hr'⟩ := rel_path _ p r _ v hrel hp
    simp only [Rel] at hr'
    obtain ⟨s, hs, rfl⟩ := hr'
    rw [hs0] at hs; cases hs
    exact ⟨s0, hw, henc⟩

/-- a pub/sub message with a 3-byte and a 4-byte character in channel and payload, and a blocking-pop result -/
example : decodeReply { decodeResponses := true } false
      (.arr [.bulk (strBytes "message"), .bulk [0xE2, 0x82, 0xAC], .bulk [0xF0, 0x9F, 0x98, 0x80]]) =
    .ok (.list [.text "message", .text "€", .text "😀"]) := by decide +kernel
/-- all hypotheses of `decode_valid_bulk_at` at once: a nested reply (an EXEC result holding a blocking-pop result) -/
example : decodeReply { decodeResponses := true } false (.arr [.status [79, 75], .arr [.bulk [107], .bulk [0xE2, 0x82, 0xAC]]]) =
      .ok (.list [.text "OK", .list [.text "k", .text "€"]]) ∧
    subReply (.arr [.status [79, 75], .arr [.bulk [107], .bulk [0xE2, 0x82, 0xAC]]]) [1, 1] = some (.bulk [0xE2, 0x82, 0xAC]) ∧
    ValidIn .utf8 [0xE2, 0x82, 0xAC] :=
  ⟨by decide +kernel, rfl, "€", by decide +kernel⟩

/-- in UTF-8 under `strict` the text at a bulk's position is core Lean's `String.fromUTF8?` of the bytes -/
theorem decode_bulk_at_fromUTF8 (cfg : Cfg) (hd : cfg.decodeResponses = true) (he : cfg.encoding = .utf8)
    (hs : cfg.errors = .strict) (r : Reply) (v : CVal) (h : decodeReply cfg false r = .ok v) (p : List Nat) (b : Bytes)
    (hp : subReply r p = some (.bulk b)) :
    ∃ s, subVal v p = some (.text s) ∧ String.fromUTF8? b.toByteArray = some s := by
  have hr : ∀ m, r ≠ .err m := by
    rintro m rfl
    cases p with
    | nil => simp only [subReply, Option.some.injEq] at hp; cases hp
    | cons i p => simp [subReply] at hp
  have hrel := (decode_every_bulk cfg hd r hr v).1 h
  obtain ⟨w, hw, hr'⟩ := rel_path _ p r _ v hrel hp
  simp only [Rel] at hr'
  obtain ⟨s, hs', rfl⟩ := hr'
  rw [he, hs] at hs'
  exact ⟨s, hw, (decodeText_utf8_strict_eq_fromUTF8? b s).1 hs'⟩

/-- **The unconditional reading of the property is false under `strict`**: a valid bulk is NOT decoded when another
bulk of the same reply is invalid — the whole reply is lost in a `UnicodeDecodeError` (it has left the queue). -/
theorem valid_bulk_lost_with_invalid_sibling :
    ValidIn .utf8 [97] ∧
    decodeReply { decodeResponses := true } false (.arr [.bulk [97], .bulk [0xFF]]) =
      .error (.unicode .utf8 [0xFF] 0 1 .invalidStart) :=
  ⟨⟨"a", by decide +kernel⟩, by decide +kernel⟩

/-! ## 4. `decode_roundtrip` -/

/-- **Encoding the decoded value gives back the reply** (as far as a client can tell, `seen`): every text, at every
depth, encodes to the bytes it came from — provided all bulk / status payloads are valid in the encoding (needed only
when decoding actually happens). -/
theorem decode_roundtrip_partial (cfg : Cfg) (disable : Bool) (r : Reply) (v : CVal)
    (h : decodeReply cfg disable r = .ok v)
    (hv : cfg.decodeResponses = true → disable = false → AllValid cfg.encoding r) :
    encodeBack cfg.encoding v = some (seen r) := by
  rcases reply_err_or r with ⟨m, rfl⟩ | hne
  · rw [read_response_error] at h
    split at h
    · cases h
    · cases h; rfl
  · rw [read_response_other _ _ _ hne] at h
    cases disable with
    | true => cases h; exact rawVal_encodeBack _ _
    | false =>
      have hrel := (decodeVal_ok_iff cfg _ v).1 h
      refine encodeBack_of_rel cfg.encoding _ ?_ _ v
        (rel_mono (leaf' := fun b w => decodeBytes cfg b = .ok w ∧ (cfg.decodeResponses = true → ValidIn cfg.encoding b))
          _ v (fun b hb w hw => ⟨hw, fun hd => hv hd rfl b hb⟩) hrel)
      rintro b w ⟨hw, hval⟩
      unfold decodeBytes at hw
      split at hw
      next hd =>
        obtain ⟨s, hs, henc⟩ := decodeText_valid cfg.encoding cfg.errors b (hval hd)
        rw [hs] at hw
        cases hw
        simp only [encodeBack, henc]; rfl
      next => cases hw; rfl

example : AllValid .utf8 (.arr [.bulk [0xE2, 0x82, 0xAC], .status [79, 75], .arr [.int 1]]) := by
  intro b hb
  have : b = [0xE2, 0x82, 0xAC] ∨ b = [79, 75] := by simpa [leaves, leavesL] using hb
  rcases this with rfl | rfl
  · exact ⟨"€", by decide +kernel⟩
  · exact ⟨"OK", by decide +kernel⟩

/-- under `strict` a returned value always round-trips (success already means that all payloads were valid) … -/
theorem decode_roundtrip (cfg : Cfg) (hs : cfg.errors = .strict) (disable : Bool) (r : Reply) (v : CVal)
    (h : decodeReply cfg disable r = .ok v) : encodeBack cfg.encoding v = some (seen r) := by
  refine decode_roundtrip_partial cfg disable r v h ?_
  rintro hd rfl b hb
  rcases reply_err_or r with ⟨m, rfl⟩ | hne
  · simp [leaves] at hb
  · rw [read_response_other _ _ _ hne] at h
    have hnone : firstErr cfg (leaves r) = none := by
      rw [← errOf_decodeVal, errOf_eq_none_iff]; exact ⟨v, h⟩
    have := List.findSome?_eq_none_iff.1 hnone b hb
    obtain ⟨w, hw⟩ := (errOf_eq_none_iff _).1 this
    unfold decodeBytes at hw
    rw [if_pos hd, hs] at hw
    cases hx : decodeText cfg.encoding .strict b with
    | ok s => exact ⟨s, (decodeText_strict_ok_iff _ _ _).1 hx⟩
    | error e => rw [hx] at hw; cases hw

example : decodeReply { decodeResponses := true } false (.arr [.bulk [0xE2, 0x82, 0xAC], .status [79, 75]]) =
    .ok (.list [.text "€", .text "OK"]) := by decide +kernel

/-- … and in latin-1 every returned value round-trips, under every handler. -/
theorem decode_roundtrip_latin1 (cfg : Cfg) (he : cfg.encoding = .latin1) (disable : Bool) (r : Reply) (v : CVal)
    (h : decodeReply cfg disable r = .ok v) : encodeBack .latin1 v = some (seen r) := by
  have := decode_roundtrip_partial cfg disable r v h (fun _ _ b _ => by rw [he]; exact validIn_latin1 b)
  rw [he] at this
  exact this

/-- **Without validity the round trip is false under `replace` and `ignore`**: an invalid bulk is altered for good
(and two different replies are handed to the caller as the same value). -/
theorem roundtrip_false_when_invalid :
    decodeReply { decodeResponses := true, errors := .replace } false (.bulk [0xFF]) = .ok (.text "�") ∧
    encodeBack .utf8 (.text "�") = some (.bulk [0xEF, 0xBF, 0xBD]) ∧
    decodeReply { decodeResponses := true, errors := .replace } false (.bulk [0xFE]) = .ok (.text "�") ∧
    decodeReply { decodeResponses := true, errors := .ignore } false (.bulk [0xFF]) = .ok (.text "") ∧
    encodeBack .utf8 (.text "") = some (.bulk []) := by
  decide +kernel

/-! ## 5. `decode_strict_fails_iff`, `latin1_total` -/

/-- **Under `strict`, with decoding on, `read_response` fails with a `UnicodeDecodeError` iff some bulk / status
payload at some depth is invalid in the encoding** … -/
theorem decode_strict_fails_iff (cfg : Cfg) (hd : cfg.decodeResponses = true) (hs : cfg.errors = .strict) (r : Reply)
    (hr : ¬ Raises r) :
    (∃ e, decodeReply cfg false r = .error e) ↔ ¬ AllValid cfg.encoding r := by
  have hleaf : ∀ b, (∃ e, decodeBytes cfg b = .error e) ↔ ¬ ValidIn cfg.encoding b := by
    intro b
    rw [← decodeText_strict_error_iff]
    unfold decodeBytes
    rw [if_pos hd, hs]
    cases decodeText cfg.encoding .strict b with
    | ok s => simp [Except.map]
    | error e => simp [Except.map]
  rcases reply_err_or r with ⟨m, rfl⟩ | hne
  · rw [read_response_error, if_neg (fun hc => hr ⟨m, rfl, hc⟩)]
    simp [AllValid, leaves]
  · constructor
    · rintro ⟨e, he⟩ hall
      rw [first_failure_surfaces cfg _ hne] at he
      obtain ⟨b, hb, hbe⟩ := List.exists_of_findSome?_eq_some he
      exact (hleaf b).1 ⟨e, (errOf_eq_some_iff _ _).1 hbe⟩ (hall b hb)
    · intro hnot
      cases hx : decodeReply cfg false r with
      | error e => exact ⟨e, rfl⟩
      | ok v =>
        exfalso
        apply hnot
        intro b hb
        rw [read_response_other _ _ _ hne] at hx
        have hnone : firstErr cfg (leaves r) = none := by
          rw [← errOf_decodeVal, errOf_eq_none_iff]; exact ⟨v, hx⟩
        have := List.findSome?_eq_none_iff.1 hnone b hb
        obtain ⟨w, hw⟩ := (errOf_eq_none_iff _).1 this
        exact Classical.byContradiction fun hnv => by
          obtain ⟨e, he⟩ := (hleaf b).2 hnv
          rw [he] at hw; cases hw

example : ¬ Raises (.arr [.arr [.bulk [0xED, 0xA0, 0x80]]]) := by rintro ⟨m, h, _⟩; cases h
example : ¬ AllValid .utf8 (.arr [.arr [.bulk [0xED, 0xA0, 0x80]]]) := by
  intro h
  have := (decodeText_strict_error_iff .utf8 [0xED, 0xA0, 0x80]).1 ⟨_, (by decide +kernel :
    decodeText .utf8 .strict [0xED, 0xA0, 0x80] = .error (.unicode .utf8 [0xED, 0xA0, 0x80] 0 1 .invalidContinuation))⟩
  exact this (h _ (by simp [leaves, leavesL]))

/-- … the exception names, as its object, an invalid payload of the reply — the first one in depth-first order
(`first_failure_surfaces`). -/
theorem decode_strict_failure_object (cfg : Cfg) (r : Reply) (hr : ∀ m, r ≠ .err m) (e : DecodeErr)
    (h : decodeReply cfg false r = .error e) :
    cfg.decodeResponses = true ∧ cfg.errors = .strict ∧
      ∃ b ∈ leaves r, ¬ ValidIn cfg.encoding b ∧ ∃ s t rs, e = .unicode cfg.encoding b s t rs := by
  rw [first_failure_surfaces cfg r hr] at h
  obtain ⟨b, hb, hbe⟩ := List.exists_of_findSome?_eq_some h
  obtain ⟨hd, hs, hnv, hsh⟩ := decodeBytes_error cfg b e ((errOf_eq_some_iff _ _).1 hbe)
  exact ⟨hd, hs, b, hb, hnv, hsh⟩

example : decodeReply { decodeResponses := true } false (.arr [.bulk [97], .arr [.bulk [0xC0, 0x80]], .bulk [0xFF]]) =
    .error (.unicode .utf8 [0xC0, 0x80] 0 1 .invalidStart) := by decide +kernel

/-- **`replace` and `ignore` never fail**: every reply that is not a raised error is returned. -/
theorem decode_lenient_total (cfg : Cfg) (h : cfg.errors ≠ .strict) (disable : Bool) (r : Reply) (hr : ¬ Raises r) :
    ∃ v, decodeReply cfg disable r = .ok v := by
  cases hx : decodeReply cfg disable r with
  | ok v => exact ⟨v, rfl⟩
  | error e =>
    exfalso
    rcases reply_err_or r with ⟨m, rfl⟩ | hne
    · rw [read_response_error, if_neg (fun hc => hr ⟨m, rfl, hc⟩)] at hx
      cases hx
    · cases disable with
      | true => rw [read_response_other _ _ _ hne] at hx; cases hx
      | false => exact h (decode_strict_failure_object cfg _ hne e hx).2.1

example : ({ errors := .replace } : Cfg).errors ≠ .strict := by decide

/-- **latin-1 never fails**, whatever the handler: every byte string is valid latin-1. -/
theorem latin1_total (cfg : Cfg) (he : cfg.encoding = .latin1) (disable : Bool) (r : Reply) (hr : ¬ Raises r) :
    ∃ v, decodeReply cfg disable r = .ok v := by
  cases hx : decodeReply cfg disable r with
  | ok v => exact ⟨v, rfl⟩
  | error e =>
    exfalso
    rcases reply_err_or r with ⟨m, rfl⟩ | hne
    · rw [read_response_error, if_neg (fun hc => hr ⟨m, rfl, hc⟩)] at hx
      cases hx
    · cases disable with
      | true => rw [read_response_other _ _ _ hne] at hx; cases hx
      | false =>
        obtain ⟨_, _, b, _, hnv, _⟩ := decode_strict_failure_object cfg _ hne e hx
        exact hnv (he ▸ validIn_latin1 b)

example : decodeReply { decodeResponses := true, encoding := .latin1 } false (.arr [.bulk [0xFF, 0x80, 0x41]]) =
    .ok (.list [.text "ÿ\u0080A"]) := by decide +kernel

theorem asciiScan_of_all : ∀ (b : Bytes) (pos : Nat), (∀ c ∈ b, c < 0x80) →
    asciiScan pos b = (b.map fun c => Char.ofNat c.toNat).map Tok.ch
  | [], _, _ => rfl
  | c :: t, pos, hall => by
    simp only [asciiScan, List.map_cons]
    rw [if_pos (hall c List.mem_cons_self), asciiScan_of_all t (pos + 1) (fun x hx => hall x (List.mem_cons_of_mem _ hx))]

/-- in latin-1 and ascii a decoded text has one character per byte, with the byte's code point -/
theorem decodeText_bytewise (enc : Encoding) (he : enc ≠ .utf8) (errors : Errors) (b : Bytes) (hv : ValidIn enc b) :
    decodeText enc errors b = .ok (String.ofList (b.map fun c => Char.ofNat c.toNat)) := by
  obtain ⟨s, hs, henc⟩ := decodeText_valid enc errors b hv
  rw [hs]
  congr 1
  rw [encodeText_eq] at henc
  have hsc := scan_of_encode enc _ b henc
  have : scan enc b = (b.map fun c => Char.ofNat c.toNat).map Tok.ch := by
    cases enc with
    | utf8 => exact absurd rfl he
    | latin1 => simp [scan, latin1Scan, List.map_map]
    | ascii => exact asciiScan_of_all b 0 ((validIn_ascii_iff b).1 hv)
  rw [this] at hsc
  have := (List.map_inj_right (f := Tok.ch) (fun a b h => by cases h; rfl)).1 hsc
  rw [this, String.ofList_toList]

example : ValidIn .ascii [72, 105] := (validIn_ascii_iff _).2 (by decide)

/-! ## 6. status replies -/

/-- **A status reply is decoded exactly like a bulk with the same payload** — always: in the queue it already is a
`bytes` object (`_decode_result` returns `SimpleString.value`), so `+OK` comes out as `'OK'` with decoding on and as
`b'OK'` without, at any depth. -/
theorem status_like_bulk (cfg : Cfg) (disable : Bool) (b : Bytes) :
    decodeReply cfg disable (.status b) = decodeReply cfg disable (.bulk b) ∧
    (∀ pre post, decodeReply cfg disable (.arr (pre ++ .status b :: post)) =
      decodeReply cfg disable (.arr (pre ++ .bulk b :: post))) := by
  refine ⟨by cases disable <;> rfl, fun pre post => ?_⟩
  have hraw : ∀ pre : List Reply, rawList (pre ++ .status b :: post) = rawList (pre ++ .bulk b :: post) := by
    intro pre
    induction pre with
    | nil => rfl
    | cons x xs ih => simp only [List.cons_append, rawList, ih]
  have hdec : ∀ pre : List Reply, decodeList cfg (pre ++ .status b :: post) = decodeList cfg (pre ++ .bulk b :: post) := by
    intro pre
    induction pre with
    | nil => simp only [List.nil_append, decodeList, decodeVal]
    | cons x xs ih => simp only [List.cons_append, decodeList, ih]
  cases disable with
  | true =>
    show Except.ok (rawVal (.arr (pre ++ .status b :: post))) = Except.ok (rawVal (.arr (pre ++ .bulk b :: post)))
    simp only [rawVal, hraw]
  | false =>
    show decodeVal cfg (.arr (pre ++ .status b :: post)) = decodeVal cfg (.arr (pre ++ .bulk b :: post))
    simp only [decodeVal, hdec]

example : decodeReply { decodeResponses := true } false (.arr [.status [79, 75], .bulk [79, 75]]) =
    .ok (.list [.text "OK", .text "OK"]) := by decide +kernel
example : decodeReply {} false (.status [79, 75]) = .ok (.bytes [79, 75]) := by decide +kernel

end FR.Props.C17c
