import FR.Proofs.C19m
import FR.Props.C04k
import FR.Props.C05
import FR.Props.C08s
/-!
# C19 inside MULTI — script commands (EVAL / EVALSHA / SCRIPT) queued in a transaction

`FakeSocket.exec` runs every queued command with `self._run_command(func, sig, args, False)` while
`self._in_transaction` is set.  For a queued EVAL that is exactly what a direct EVAL does - the same `_run_command`,
`from_script = False` - only with `_in_transaction` set and inside the critical section of the EXEC.  The model's
nested runner `runInner` (the `inner` argument EXEC runs its queue with) dispatches a queued script command to
`runScriptCmd`, the runner of a direct script command; the hints a script needs (SHA-1 of the source, the recorded
call trace, the final Lua value) are consumed from the hint list in order, so several queued EVALs use them one after
the other.

* (a) **the nested runner is the direct runner, for EVERY queueable command** (`runInner_eq_runCommand_all`), hence
  EXEC is the sequential composition of the queued commands' direct runs, script commands included
  (`exec_eq_sequential_with_scripts`, `exec_eq_sequential_with_scripts_wf`);
* (b) **no request crashes**, without the former exclusion "EXEC of a queue holding a script command"
  (`processCommand_never_crashes'`, `event_never_crashes'`, `reachable_alive'`, `reachable_conn_alive'`).  What remains
  as hypotheses: the queue invariant `TxWf` (holds in every reachable state), `crashed = none` before, for events that
  no connection is already dead and that the event is not a write during an outage (which raises the client library's
  `ConnectionError` by design).  NOTHING about the hints or the `fault` marker: a script whose recorded trace cannot be
  followed (missing / malformed / contradicting hints) sets the model's `fault` flag - "the replay could not follow
  this run" - which is not a crash (`unfollowed_script_is_not_a_crash`);
* (c) **atomicity**: the clean-up, the clock refresh, closing the transaction, every queued command - the
  `redis.call`s of the queued scripts included - and the one reply all happen within the single `processCommand` event
  of the EXEC (`exec_event_sequential`, `exec_event_dbs`); and an inner EVAL / EVALSHA that fails before its script
  starts (NOSCRIPT, `numkeys` out of range) is just that element of the EXEC array and changes nothing else
  (`exec_inner_script_error_changes_nothing`, `exec_each_inner_script_error`);
* (d) a queued EVAL whose script returns a value: its element of the EXEC array is the converted value
  (`exec_inner_eval_returns`), and the former witness history `MULTI; EVAL "return 1" 0; EXEC` replies `[1]`
  (`multi_eval_return_exec`).

Vocabulary: `directInner mode c sig raw = runCommand mode c sig raw false` (the direct runner as a nested runner);
`TxWf s` / `QOk n` (the queue invariant of `FR/Props/C04k.lean`: every queued name is a known command, not
EXEC / DISCARD / MULTI / WATCH, not (P)SUBSCRIBE / (P)UNSUBSCRIBE); `AllAlive`, `UpFrom`, `Ev.up` as in C04k;
`prep s` (the state after the clean-up of closed sockets and the clock refresh that precede every known command);
`Sys.execStart s c` (`s` with the transaction of `c` closed and its watches dropped); `finish c s` (`s`, with `c`
marked dead iff `crashed` is set); `NotStarted name args scripts` (EVAL / EVALSHA whose converted arguments say the
script will not start); `Quiet`, `QuietUpTo`, `setInTx`, `clearInTx` as in `FR/Props/C08s.lean`.
-/
namespace FR.Props.C19m
open FR FR.M FR.C04k FR.ErrSys FR.C19m FR.PubSubHist

/-- the table entry of a command name (for the examples) -/
def sigOf (n : String) : Sig := (SigTable.find n).getD default

/-! ## (a) the nested runner of EXEC is the direct runner -/

/-- **For every command that can sit in a queue** - every command but EXEC (which is never queued) - **EXEC runs it
exactly as the client's direct request would be run**: the same function of the state, replies and effects.  No
exclusion of the script commands any more (`FR.C05.runInner_eq_runCommand` had `scriptNames.contains sig.name = false`
while the model did not run queued scripts). -/
theorem runInner_eq_runCommand_all (mode : Mode) (c : Nat) (sig : Sig) (raw : List Bytes) (h : sig.name ≠ "exec") :
    runInner mode c sig raw = runCommand mode c sig raw false :=
  runInner_eq_runCommand' mode c sig raw h

/-- the same under the reachable-queue invariant: for every entry of a queue of a state with well-formed queues -/
theorem runInner_eq_runCommand_queued (mode : Mode) (c : Nat) (s : Sys) (hwf : TxWf s)
    {q : List (String × List Bytes)} (htx : (s.conn c).tx = some q) {a : String × List Bytes} (ha : a ∈ q) :
    ∃ sig, SigTable.find a.1 = some sig ∧ runInner mode c sig a.2 = runCommand mode c sig a.2 false := by
  have hok : QOk a.1 := TxAll.conn hwf c htx a ha
  obtain ⟨sig, hsig⟩ := hok.2.2
  exact ⟨sig, hsig, runInner_eq_runCommand_all mode c sig a.2 (by rw [SigTable.find_name hsig]; exact QOk.ne_exec hok)⟩

/-- in particular for the three script commands -/
theorem runInner_script_eq_direct (mode : Mode) (c : Nat) (sig : Sig) (raw : List Bytes)
    (hs : sig.name ∈ ["eval", "evalsha", "script"]) :
    runInner mode c sig raw = runCommand mode c sig raw false :=
  runInner_eq_runCommand_all mode c sig raw (by
    intro h; rw [h] at hs; revert hs; decide)

/-- non-vacuity: EVAL, EVALSHA and SCRIPT are in the table, are not EXEC, and may be queued -/
example : ∀ n ∈ ["eval", "evalsha", "script"], (SigTable.find n).isSome = true ∧ (sigOf n).name = n ∧
    (sigOf n).name ≠ "exec" ∧ QOk n := by decide +kernel

example (raw : List Bytes) : runInner {} 1 (sigOf "eval") raw = runCommand {} 1 (sigOf "eval") raw false :=
  runInner_script_eq_direct {} 1 (sigOf "eval") raw (by decide +kernel)

/-- **`exec_eq_sequential` with scripts.**  EXEC of a queue `q` (not aborted, no watched key touched) is: close the
transaction, drop the watches, run the queued commands one after the other - each with the DIRECT runner
`runCommand … false`, script commands included, `inTx` set around each -, and answer the array of the inner replies.
(`FR.C05.exec_eq_sequential` states this for an arbitrary nested runner; `FR.C05.runInner_eq_runCommand` identified
that runner with the direct one for non-script commands only.) -/
theorem exec_eq_sequential_with_scripts (s : Sys) (mode : Mode) (c : Nat) (cis : List CI)
    (q : List (String × List Bytes))
    (h : (s.conn c).tx = some q) (hf : (s.conn c).txFailed = false) (hw : (s.conn c).watchNotified = false)
    (hq : ∀ a ∈ q, a.1 ≠ "exec") :
    execCmd (runInner mode c) c cis s = (do
      modifyConn c fun x => { x with tx := none, txFailed := false }
      clearWatches c
      let results ← runQueue (fun sig raw => runCommand mode c sig raw false) c q
      if results.any Option.isNone then
        modify fun s => { s with crashed := some "AssertionError" }
        return .ok (none, cis)
      else okR (.arr (results.map fun r => r.getD .nil)) cis : M SpecialOut) s := by
  rw [FR.C05.exec_eq_sequential s (runInner mode c) c cis q h hf hw, runQueue_eq_direct mode c q hq]
  rfl

/-- … and for a well-formed queue (every reachable one) the assertion branch is dead: the value is the array of the
inner replies, the state the one the sequential run of the direct commands leaves -/
theorem exec_eq_sequential_with_scripts_wf (s : Sys) (mode : Mode) (c : Nat) (cis : List CI)
    (q : List (String × List Bytes))
    (h : (s.conn c).tx = some q) (hf : (s.conn c).txFailed = false) (hw : (s.conn c).watchNotified = false)
    (hq : ∀ a ∈ q, QOk a.1) :
    execCmd (runInner mode c) c cis s =
      (.ok (some (.arr ((runQueue (directInner mode c) c q (Sys.execStart s c)).1.map fun r => r.getD .nil)), cis),
        (runQueue (directInner mode c) c q (Sys.execStart s c)).2) :=
  execCmd_sequential_direct s mode c cis q h hf hw hq

/-- no inner command of a well-formed queue answers `NoResponse`, script commands included -/
theorem exec_inner_always_replies (mode : Mode) (c : Nat) (q : List (String × List Bytes)) (s : Sys)
    (hc : s.HasConn c) (hq : ∀ a ∈ q, QOk a.1) :
    (runQueue (runInner mode c) c q s).1.any Option.isNone = false :=
  runQueue_all_some mode c q s hc hq

/-- `SET k v; EVAL "return 1" 0; SCRIPT LOAD "return 1"` -/
def qS : List (String × List Bytes) :=
  [("set", [[107], [118]]), ("eval", [strBytes "return 1", strBytes "0"]),
    ("script", [strBytes "load", strBytes "return 1"])]

/-- a connection inside MULTI with `qS` queued -/
def sQ : Sys := { srv := { conns := [{ id := 1, tx := some qS }] }, clocks := [5] }

theorem sQ_qok : ∀ a ∈ qS, QOk a.1 := by decide +kernel

/-- non-vacuity of the theorems above: the hypotheses hold for `sQ` -/
example : execCmd (runInner {} 1) 1 [] sQ =
    (.ok (some (.arr ((runQueue (directInner {} 1) 1 qS (Sys.execStart sQ 1)).1.map fun r => r.getD .nil)), []),
      (runQueue (directInner {} 1) 1 qS (Sys.execStart sQ 1)).2) :=
  exec_eq_sequential_with_scripts_wf sQ {} 1 [] qS rfl rfl rfl sQ_qok

example : execCmd (runInner {} 1) 1 [] sQ = (do
      modifyConn 1 fun x => { x with tx := none, txFailed := false }
      clearWatches 1
      let results ← runQueue (fun sig raw => runCommand {} 1 sig raw false) 1 qS
      if results.any Option.isNone then
        modify fun s => { s with crashed := some "AssertionError" }
        return .ok (none, [])
      else okR (.arr (results.map fun r => r.getD .nil)) [] : M SpecialOut) sQ :=
  exec_eq_sequential_with_scripts sQ {} 1 [] qS rfl rfl rfl (by decide +kernel)

example : (runQueue (runInner {} 1) 1 qS (Sys.execStart sQ 1)).1.any Option.isNone = false :=
  exec_inner_always_replies {} 1 qS _ (by decide +kernel) sQ_qok

/-! ## (b) no crash, without the exclusion of queued script commands -/

/-- **No crash.**  Any request — any name, arguments, mode; an EXEC whose queue holds script commands included — on any
connection of a state with well-formed queues and `crashed = none`: `crashed` is still `none`, no connection dies, the
queues stay well-formed.  (The hypothesis `¬ ExecOfScript s c fields` of the former
`FR.Props.C04k.processCommand_never_crashes` is gone.)  Nothing is assumed about the hints in `s.picks` or about
`fault`. -/
theorem processCommand_never_crashes' (mode : Mode) (c : Nat) (fields : List Bytes) (s : Sys) (h : TxWf s)
    (hcr : s.crashed = none) :
    (processCommand mode c fields s).2.crashed = none ∧
    (AllAlive s → AllAlive (processCommand mode c fields s).2) ∧
    TxWf (processCommand mode c fields s).2 :=
  ⟨(FR.Props.C04k.processCommand_never_crashes mode c fields s h hcr).1,
    (FR.Props.C04k.processCommand_never_crashes mode c fields s h hcr).2,
    (FR.Props.C04k.processCommand_keeps mode c fields s h).1⟩

/-- **One event** from a healthy state (queues well-formed, no dead connection) that is not a write during an outage:
`crashed = none` afterwards, no connection is dead, the queues are well-formed — whether or not the model could follow
the run (the hypothesis `(stepEv s e).fault = none` of the former `event_never_crashes` is gone) -/
theorem event_never_crashes' (s : Sys) (e : Ev) (h : TxWf s) (ha : AllAlive s) (hup : e.up s) :
    (stepEv s e).crashed = none ∧ AllAlive (stepEv s e) ∧ TxWf (stepEv s e) :=
  FR.Props.C04k.event_never_crashes s e h ha hup

/-- **Over histories**: after every history without a write during an outage (`UpFrom`; nothing about `fault`) no
connection is dead, the queues are well-formed and the last event left `crashed = none` -/
theorem reachable_alive' (evs : List Ev) (hg : UpFrom {} evs) :
    AllAlive (runHistory evs) ∧ TxWf (runHistory evs) ∧ (evs ≠ [] → (runHistory evs).crashed = none) :=
  FR.Props.C04k.reachable_alive evs hg

/-- … so every connection read off such a state is usable -/
theorem reachable_conn_alive' (evs : List Ev) (hg : UpFrom {} evs) (c : Nat) :
    ((runHistory evs).conn c).dead = false :=
  FR.Props.C04k.reachable_conn_alive evs hg c

/-- `MULTI; SET k v; EVAL "return 1" 0; EXEC; PING` as requests, the host's hints missing: the replay cannot follow
the script -/
def demoS : List Ev :=
  [.open 1, .request {} 1 [strBytes "MULTI"] [1] [], .request {} 1 [strBytes "SET", [107], [118]] [2] [],
   .request {} 1 [strBytes "EVAL", strBytes "return 1", strBytes "0"] [3] [],
   .request {} 1 [strBytes "EXEC"] [4] [], .request {} 1 [strBytes "PING"] [5] []]

/-- **A script whose recorded trace cannot be followed sets `fault`, which is not a crash**: on `demoS` the EXEC ends
with the `fault` marker set ("eval: sha hint missing"), `crashed = none`, the connection alive - and it answers the
following PING.  (`GoodFrom` fails for `demoS`, `UpFrom` holds: the theorems above apply, the former ones did not.) -/
theorem unfollowed_script_is_not_a_crash :
    (runHistory (demoS.take 5)).fault = some "eval: sha hint missing" ∧
    (runHistory (demoS.take 5)).crashed = none ∧
    ((runHistory (demoS.take 5)).conn 1).dead = false ∧
    ¬ GoodFrom {} demoS ∧ UpFrom {} demoS ∧
    (runHistory demoS).out.map (fun p => (p.1, p.2.render)) = [(1, Reply.pong.render)] := by decide +kernel

/-- non-vacuity of (b) on `demoS` -/
example : ((runHistory demoS).conn 1).dead = false := reachable_conn_alive' demoS (by decide +kernel) 1

example : AllAlive (runHistory demoS) ∧ TxWf (runHistory demoS) ∧ (demoS ≠ [] → (runHistory demoS).crashed = none) :=
  reachable_alive' demoS (by decide +kernel)

example : (stepEv (runHistory (demoS.take 4)) (.request {} 1 [strBytes "EXEC"] [4] [])).crashed = none ∧
    AllAlive (stepEv (runHistory (demoS.take 4)) (.request {} 1 [strBytes "EXEC"] [4] [])) ∧
    TxWf (stepEv (runHistory (demoS.take 4)) (.request {} 1 [strBytes "EXEC"] [4] [])) :=
  event_never_crashes' _ _ (FR.Props.C04k.txWf_reachable _) (reachable_alive' (demoS.take 4) (by decide +kernel)).1 trivial

/-- … the state the EXEC of `demoS` is processed in has the script command in its queue -/
example : (((runHistory (demoS.take 4)).beginEvent.withHints [4] []).conn 1).tx =
    some [("set", [[107], [118]]), ("eval", [strBytes "return 1", strBytes "0"])] := by decide +kernel

example : (processCommand {} 1 [strBytes "EXEC"] ((runHistory (demoS.take 4)).beginEvent.withHints [4] [])).2.crashed = none :=
  (processCommand_never_crashes' {} 1 [strBytes "EXEC"] ((runHistory (demoS.take 4)).beginEvent.withHints [4] [])
    (FR.Props.C04k.txWf_reachable (demoS.take 4)) rfl).1

/-! ## (c) atomicity of scripts inside EXEC -/

/-- **EXEC is one event.**  The request `EXEC` on a connection `c` with the well-formed queue `q` (not aborted, no
watched key touched, not in subscriber mode) is, as ONE `processCommand`: the clean-up / clock refresh (`prep`), closing
the transaction and dropping the watches (`Sys.execStart`), the sequential composition of the queued commands' DIRECT
runs `execRun s mode c q = runQueue (directInner mode c) c q …` - a queued EVAL's `redis.call`s are part of its direct
run -, and the one reply, the array of the inner replies.  No other connection's request can come in between: there
is no event boundary inside. -/
theorem exec_event_sequential (s : Sys) (mode : Mode) (c : Nat) (nameB : Bytes) (q : List (String × List Bytes))
    (hname : commandName nameB = some "exec")
    (htx : (s.conn c).tx = some q) (hf : (s.conn c).txFailed = false) (hw : (s.conn c).watchNotified = false)
    (hps : (s.conn c).pubsub = 0) (hq : ∀ a ∈ q, QOk a.1) :
    processCommand mode c [nameB] s =
      ((), finish c ((execRun s mode c q).2.emitS c (.arr ((execRun s mode c q).1.map fun r => r.getD .nil)))) :=
  processCommand_exec_sequential s mode c nameB q hname htx hf hw hps hq

/-- … from a state with well-formed queues the hypothesis on `q` is free -/
theorem exec_event_sequential_wf (s : Sys) (hwf : TxWf s) (mode : Mode) (c : Nat) (nameB : Bytes)
    (q : List (String × List Bytes)) (hname : commandName nameB = some "exec")
    (htx : (s.conn c).tx = some q) (hf : (s.conn c).txFailed = false) (hw : (s.conn c).watchNotified = false)
    (hps : (s.conn c).pubsub = 0) :
    processCommand mode c [nameB] s =
      ((), finish c ((execRun s mode c q).2.emitS c (.arr ((execRun s mode c q).1.map fun r => r.getD .nil)))) :=
  exec_event_sequential s mode c nameB q hname htx hf hw hps (TxAll.conn hwf c htx)

/-- **the effect of the EXEC event on the databases = the sequential composition of the queued commands' direct
effects** (script commands included), started from the cleaned-up state -/
theorem exec_event_dbs (s : Sys) (mode : Mode) (c : Nat) (nameB : Bytes) (q : List (String × List Bytes))
    (hname : commandName nameB = some "exec")
    (htx : (s.conn c).tx = some q) (hf : (s.conn c).txFailed = false) (hw : (s.conn c).watchNotified = false)
    (hps : (s.conn c).pubsub = 0) (hq : ∀ a ∈ q, QOk a.1) :
    (processCommand mode c [nameB] s).2.srv.dbs = (execRun s mode c q).2.srv.dbs ∧
    (processCommand mode c [nameB] s).2.srv.scripts = (execRun s mode c q).2.srv.scripts := by
  rw [exec_event_sequential s mode c nameB q hname htx hf hw hps hq]
  refine ⟨?_, ?_⟩
  · show (finish c _).srv.dbs = _
    rw [finish_dbs, Sys.emitS_srv]
  · show (finish c _).srv.scripts = _
    unfold finish; split
    · show ((Sys.emitS _ c _).updConn c _).srv.scripts = _
      rw [show ∀ (t : Sys) f, (t.updConn c f).srv.scripts = t.srv.scripts from fun _ _ => rfl, Sys.emitS_srv]
    · rw [Sys.emitS_srv]

/-- `execRun` unfolds command by command: the run of `a :: rest` is the direct run of `a` (with `inTx` set around it)
followed by the run of `rest` from the state that leaves -/
theorem execRun_cons (mode : Mode) (c : Nat) (a : String × List Bytes) (rest : List (String × List Bytes)) (t : Sys) :
    runQueue (directInner mode c) c (a :: rest) t =
      ((queueStep (directInner mode c) c a t).1 :: (runQueue (directInner mode c) c rest (queueStep (directInner mode c) c a t).2).1,
        (runQueue (directInner mode c) c rest (queueStep (directInner mode c) c a t).2).2) := by
  rw [runQueue_cons]; rfl

/-- the state before the EXEC of `MULTI; SET k v; EVAL "return 1" 0` (`demoS`), as one request -/
def sE : Sys := (runHistory (demoS.take 4)).beginEvent.withHints [4] []

/-- its queue -/
def qE : List (String × List Bytes) := [("set", [[107], [118]]), ("eval", [strBytes "return 1", strBytes "0"])]

theorem sE_wf : TxWf sE := FR.Props.C04k.txWf_reachable (demoS.take 4)

/-- non-vacuity of the event theorems: their hypotheses hold in `sE` -/
example : processCommand {} 1 [strBytes "EXEC"] sE =
    ((), finish 1 ((execRun sE {} 1 qE).2.emitS 1 (.arr ((execRun sE {} 1 qE).1.map fun r => r.getD .nil)))) :=
  exec_event_sequential_wf sE sE_wf {} 1 (strBytes "EXEC") qE
    (by decide +kernel) (by decide +kernel) (by decide +kernel) (by decide +kernel) (by decide +kernel)

example : processCommand {} 1 [strBytes "EXEC"] sE =
    ((), finish 1 ((execRun sE {} 1 qE).2.emitS 1 (.arr ((execRun sE {} 1 qE).1.map fun r => r.getD .nil)))) :=
  exec_event_sequential sE {} 1 (strBytes "EXEC") qE
    (by decide +kernel) (by decide +kernel) (by decide +kernel) (by decide +kernel) (by decide +kernel)
    (by decide +kernel)

example : (processCommand {} 1 [strBytes "EXEC"] sE).2.srv.dbs = (execRun sE {} 1 qE).2.srv.dbs :=
  (exec_event_dbs sE {} 1 (strBytes "EXEC") qE (by decide +kernel) (by decide +kernel) (by decide +kernel)
    (by decide +kernel) (by decide +kernel) (by decide +kernel)).1

/-! ### an inner script command that fails before its script starts -/

/-- **NOSCRIPT / numkeys errors of a queued EVAL / EVALSHA change nothing.**  A queued EVAL / EVALSHA whose converted
arguments `args` say that the script will not start - `NotStarted`: the SHA of an EVALSHA is not in the script cache,
or `numkeys` exceeds the number of arguments, or `numkeys` is negative - run as an inner command of EXEC
(`queueStep`: set `inTx`, run, clear `inTx`): its reply - that element of the EXEC array - is an error, and the state
after it is the state before it up to purge-equality of the databases and the `inTx` flag of `c` (which EXEC leaves
cleared): `subs`, `psubs`, the script cache, the clock, the reply list and every other connection record are identical.
(`FR.Props.C08s.exec_inner_error_changes_nothing` covers every queued command except EVAL / EVALSHA - a script that
fails on the way may have written before; this theorem covers the failures before the script starts.) -/
theorem exec_inner_script_error_changes_nothing (mode : Mode) (c : Nat) (a : String × List Bytes) {sig : Sig}
    (hf : SigTable.find a.1 = some sig) (s : Sys) (hnd : NodupDbs s) {args : List Arg} {cis : List CI}
    (happ : (sig.apply a.2 ((s.updConn c setInTx).dbAt ((s.updConn c setInTx).conn c).db)).2 = .ok (.ok args cis))
    (hns : NotStarted sig.name args s.srv.scripts) :
    (∃ e, (queueStep (runInner mode c) c a s).1 = some (.err e)) ∧
      QuietUpTo c clearInTx s (queueStep (runInner mode c) c a s).2 :=
  queueStep_script_not_started mode c a hf s hnd happ hns

/-- … lifted through `runQueue`: the run of `pre ++ a :: post` is the run of `pre`, the step `a`, the run of `post`;
if `a` is an EVAL / EVALSHA that does not start its script (judged in the state after `pre`), the result list holds
its error at position `pre.length` and the state after the step is the state after `pre` (in the sense above) - the
commands of `post` run as if `a` had not been queued (up to purge-equality) -/
theorem exec_each_inner_script_error (mode : Mode) (c : Nat) (pre post : List (String × List Bytes))
    (a : String × List Bytes) {sig : Sig} (hf : SigTable.find a.1 = some sig) (s : Sys) (hinv : s.DataInv)
    {args : List Arg} {cis : List CI}
    (happ : (sig.apply a.2 (((runQueue (runInner mode c) c pre s).2.updConn c setInTx).dbAt
      (((runQueue (runInner mode c) c pre s).2.updConn c setInTx).conn c).db)).2 = .ok (.ok args cis))
    (hns : NotStarted sig.name args (runQueue (runInner mode c) c pre s).2.srv.scripts) :
    runQueue (runInner mode c) c (pre ++ a :: post) s =
      (let r1 := runQueue (runInner mode c) c pre s
       let r2 := queueStep (runInner mode c) c a r1.2
       let r3 := runQueue (runInner mode c) c post r2.2
       (r1.1 ++ r2.1 :: r3.1, r3.2)) ∧
    (∃ e, (queueStep (runInner mode c) c a (runQueue (runInner mode c) c pre s).2).1 = some (.err e)) ∧
    QuietUpTo c clearInTx (runQueue (runInner mode c) c pre s).2
      (queueStep (runInner mode c) c a (runQueue (runInner mode c) c pre s).2).2 :=
  ⟨runQueue_split _ c pre post a s,
    queueStep_script_not_started mode c a hf _
      (NodupDbs.of_dataInv (runQueue_preserves _ (runInner_preserves mode c) c pre s hinv)) happ hns⟩

/-- the direct form (a script command issued by the client, outside MULTI): the same runner, the same statement -/
theorem script_not_started_changes_nothing (mode : Mode) (c : Nat) (sig : Sig) (raw : List Bytes) (s : Sys)
    (hnd : NodupDbs s) {args : List Arg} {cis : List CI}
    (happ : (sig.apply raw (s.dbAt (s.conn c).db)).2 = .ok (.ok args cis))
    (hns : NotStarted sig.name args s.srv.scripts) :
    (∃ e, (runCommand mode c sig raw false s).1 = some (.err e)) ∧ Quiet s (runCommand mode c sig raw false s).2 := by
  have : runCommand mode c sig raw false = runScriptCmd mode c sig raw false := by
    unfold runCommand; simp only [hns.script, if_true]
  rw [this]
  exact runScriptCmd_not_started mode c sig raw false s hnd happ hns

/-- one database with a list at `a`, one connection, an empty script cache -/
def exS : Sys :=
  { srv := { dbs := [[([97], ⟨.list [[1]], none⟩)]], conns := [{ id := 1 }] }, clocks := [5] }

theorem exS_nodup : NodupDbs exS := by
  intro d hd
  simp only [exS, List.mem_singleton] at hd
  subst hd
  unfold NodupKeys
  decide

def sha0 : Bytes := strBytes "e0e1f9fabfc9d4800c877a703b823ac0578ff8db"
def sigEvalsha : Sig := ⟨"evalsha", [.bytes, .int], [.bytes], true, 2, 0, true⟩
def sigEval : Sig := ⟨"eval", [.bytes, .int], [.bytes], true, 2, 0, true⟩

theorem find_evalsha : SigTable.find "evalsha" = some sigEvalsha := by decide +kernel
theorem find_eval : SigTable.find "eval" = some sigEval := by decide +kernel

/-- non-vacuity: `EVALSHA <unknown sha> 0` (NOSCRIPT), `EVAL "return 1" 5` (too many keys), `EVAL "return 1" -1`
(negative), as inner commands of EXEC in `exS` -/
example : (∃ e, (queueStep (runInner {} 1) 1 ("evalsha", [sha0, strBytes "0"]) exS).1 = some (.err e)) ∧
    QuietUpTo 1 clearInTx exS (queueStep (runInner {} 1) 1 ("evalsha", [sha0, strBytes "0"]) exS).2 :=
  exec_inner_script_error_changes_nothing {} 1 ("evalsha", [sha0, strBytes "0"]) find_evalsha exS exS_nodup
    (args := [.raw sha0, .int 0]) (cis := []) (by with_unfolding_all rfl)
    ⟨sha0, 0, [], rfl, .inl ⟨rfl, rfl⟩⟩

example : (∃ e, (queueStep (runInner {} 1) 1 ("eval", [strBytes "return 1", strBytes "5"]) exS).1 = some (.err e)) ∧
    QuietUpTo 1 clearInTx exS (queueStep (runInner {} 1) 1 ("eval", [strBytes "return 1", strBytes "5"]) exS).2 :=
  exec_inner_script_error_changes_nothing {} 1 ("eval", [strBytes "return 1", strBytes "5"]) find_eval exS exS_nodup
    (args := [.raw (strBytes "return 1"), .int 5]) (cis := []) (by with_unfolding_all rfl)
    ⟨strBytes "return 1", 5, [], rfl, .inr ⟨.inl rfl, .inl (by decide)⟩⟩

example : (∃ e, (queueStep (runInner {} 1) 1 ("eval", [strBytes "return 1", strBytes "-1"]) exS).1 = some (.err e)) ∧
    QuietUpTo 1 clearInTx exS (queueStep (runInner {} 1) 1 ("eval", [strBytes "return 1", strBytes "-1"]) exS).2 :=
  exec_inner_script_error_changes_nothing {} 1 ("eval", [strBytes "return 1", strBytes "-1"]) find_eval exS exS_nodup
    (args := [.raw (strBytes "return 1"), .int (-1)]) (cis := []) (by with_unfolding_all rfl)
    ⟨strBytes "return 1", -1, [], rfl, .inr ⟨.inl rfl, .inr (by decide)⟩⟩

/-- … and end to end, kernel-checked: `MULTI; SET k v; EVALSHA <unknown> 0; EVAL "return 1" 5; GET k; EXEC` - the EXEC
array is `[OK, NOSCRIPT…, ERR Number of keys…, v]`: the two script errors are just their elements, the commands around
them ran, nothing crashed, the run is one the model follows (the sha hint of the EVAL is supplied) -/
theorem exec_with_failing_scripts :
    let s := runHistory [.open 1, .request {} 1 [strBytes "MULTI"] [1] [],
      .request {} 1 [strBytes "SET", [107], [118]] [2] [],
      .request {} 1 [strBytes "EVALSHA", sha0, strBytes "0"] [3] [],
      .request {} 1 [strBytes "EVAL", strBytes "return 1", strBytes "5"] [4] [],
      .request {} 1 [strBytes "GET", [107]] [5] [],
      .request {} 1 [strBytes "EXEC"] [6] [[strBytes "sha", sha0]]]
    s.out.map (fun p => (p.1, p.2.render)) =
      [(1, (Reply.arr [.ok, .err (strBytes Msgs.NO_MATCHING_SCRIPT_MSG), .err (strBytes Msgs.TOO_MANY_KEYS_MSG),
        .bulk [118]]).render)] ∧
    s.crashed = none ∧ s.fault = none ∧ s.srv.scripts = [] ∧ (s.conn 1).tx = none := by
  decide +kernel

/-! ## (d) a queued EVAL whose script returns a value -/

/-- **a queued `EVAL script numkeys …` whose recorded run makes no call and returns the Lua value `lv`**, as EXEC runs
it (`queueStep`): its element of the EXEC array is the conversion of `lv` to a reply, the script is cached, exactly
the two hints (SHA-1, returned value) are consumed, `inTx` is set around the run and cleared again; nothing else
changes (the argument conversion may purge expired keys of the selected database).  Several queued EVALs use up the
hint list one after the other: the rest `more` is what the next command of the queue sees. -/
theorem exec_inner_eval_returns (mode : Mode) (c : Nat) (a : String × List Bytes) {sig : Sig}
    (hf : SigTable.find a.1 = some sig) (s : Sys)
    (hname : sig.name = "eval") (hrf : (s.updConn c setInTx).refuses c sig = false)
    {script : Bytes} {nk : Int} {rest : List Arg} {cis : List CI} {db' : Db}
    (happ : sig.apply a.2 ((s.updConn c setInTx).dbAt ((s.updConn c setInTx).conn c).db) =
      (db', .ok (.ok (.raw script :: .int nk :: rest) cis)))
    (hg : runGate sig false (decide (((s.updConn c setInTx).conn c).pubsub > 0)) = none)
    {sha v : Bytes} {lv : LuaVal} {more : List (List Bytes)}
    (hp : s.picks = [strBytes "sha", sha] :: [strBytes "return", v] :: more) (hv : LuaVal.ofBytes v = some lv)
    (h1 : ¬ nk > ((Cmd.rawArgs rest).length : Int)) (h2 : ¬ nk < 0) {r : Reply} (hr : luaToReply false lv = .ok r) :
    queueStep (runInner mode c) c a s =
      (some r, (Sys.evalDone ((s.updConn c setInTx).setDbS ((s.updConn c setInTx).conn c).db db') more sha script).updConn
        c clearInTx) :=
  queueStep_eval_return (runInner mode c) mode c a
    (runInner_script mode c sig a.2 (by rw [hname]; decide)) hf s hname hrf happ hg hp hv h1 h2 hr

/-- the hints of a run of `return 1`: the SHA-1 of the source, the returned Lua value -/
def retHints : List (List Bytes) := [[strBytes "sha", sha0], [strBytes "return", (LuaVal.int 1).ser]]

/-- the state in which the EXEC of `MULTI; EVAL "return 1" 0; EXEC` (`FR.Props.C04k.demoE`) is processed -/
def sR : Sys := (runHistory FR.Props.C04k.demoE).beginEvent.withHints [3] retHints

def qR : List (String × List Bytes) := [("eval", [strBytes "return 1", strBytes "0"])]

theorem sR_wf : TxWf sR := FR.Props.C04k.txWf_reachable FR.Props.C04k.demoE

/-- the state after the queued EVAL has run: script cached, hints used up, `inTx` cleared again -/
def sRdone : Sys :=
  (Sys.evalDone (((Sys.execStart (prep sR) 1).updConn 1 setInTx).setDbS
      (((Sys.execStart (prep sR) 1).updConn 1 setInTx).conn 1).db
      (((Sys.execStart (prep sR) 1).updConn 1 setInTx).dbAt 0)) [] sha0 (strBytes "return 1")).updConn 1 clearInTx

/-- **`MULTI; EVAL "return 1" 0; EXEC`, the history of the former witness `unconditional_no_crash_false`, with the
hints of the host**: the EXEC replies the array `[1]`, the model follows the run (`fault = none`), nothing crashes, the
two hints are used up and the script is cached.  (Proved through the theorems of this file - `decide` cannot evaluate
the hint parser `LuaVal.parse`, which is defined by well-founded recursion.) -/
theorem multi_eval_return_exec :
    (processCommand {} 1 [strBytes "EXEC"] sR).2.out = [(1, .arr [.int 1])] ∧
    (processCommand {} 1 [strBytes "EXEC"] sR).2.fault = none ∧
    (processCommand {} 1 [strBytes "EXEC"] sR).2.crashed = none ∧
    (processCommand {} 1 [strBytes "EXEC"] sR).2.picks = [] ∧
    (processCommand {} 1 [strBytes "EXEC"] sR).2.srv.scripts = [(sha0, strBytes "return 1")] := by
  rw [exec_event_sequential_wf sR sR_wf {} 1 (strBytes "EXEC") qR (by decide +kernel) (by decide +kernel)
    (by decide +kernel) (by decide +kernel) (by decide +kernel)]
  have hstep := queueStep_eval_return (directInner {} 1) {} 1 ("eval", [strBytes "return 1", strBytes "0"])
    (sig := sigEval) (directInner_script {} 1 sigEval _ (by decide)) find_eval (Sys.execStart (prep sR) 1) rfl
    (by decide +kernel) (script := strBytes "return 1") (nk := 0) (rest := []) (cis := [])
    (db' := (Sys.execStart (prep sR) 1 |>.updConn 1 setInTx).dbAt 0)
    (by with_unfolding_all rfl) (by decide +kernel) (sha := sha0) (v := (LuaVal.int 1).ser) (lv := .int 1) (more := [])
    (by with_unfolding_all rfl) (ofBytes_ser _ trivial) (by decide) (by decide) (r := .int 1) rfl
  have hrun : execRun sR {} 1 qR = ([some (.int 1)], sRdone) := by
    unfold execRun qR
    rw [execRun_cons, hstep]
    rfl
  rw [hrun]
  refine ⟨?_, ?_, ?_, ?_, ?_⟩ <;> with_unfolding_all rfl

/-- non-vacuity of `exec_inner_eval_returns`: the queued EVAL of `sR`, run by the nested runner of EXEC -/
example : queueStep (runInner {} 1) 1 ("eval", [strBytes "return 1", strBytes "0"]) (Sys.execStart (prep sR) 1) =
    (some (.int 1), sRdone) :=
  exec_inner_eval_returns {} 1 ("eval", [strBytes "return 1", strBytes "0"]) (sig := sigEval) find_eval
    (Sys.execStart (prep sR) 1) rfl (by decide +kernel) (script := strBytes "return 1") (nk := 0) (rest := []) (cis := [])
    (db' := (Sys.execStart (prep sR) 1 |>.updConn 1 setInTx).dbAt 0)
    (by with_unfolding_all rfl) (by decide +kernel) (sha := sha0) (v := (LuaVal.int 1).ser) (lv := .int 1) (more := [])
    (by with_unfolding_all rfl) (ofBytes_ser _ trivial) (by decide) (by decide) (r := .int 1) rfl

end FR.Props.C19m
