import FR.Proofs.Glob
/-!
# C16: `compile_pattern` (glob → regex) agrees with Redis's `stringmatchlen`
-/
namespace FR.Props.C16
open FR.Glob

/-- For every pattern and every non-empty subject the compiled matcher agrees with Redis. -/
theorem glob_correct (p s : FR.Glob.B) (hs : s ≠ []) :
    FR.Glob.globMatch p s = FR.Glob.rglob p s :=
  matchA_compile_eq_rglob p s hs

/-- Redis on the empty subject: only the empty pattern matches. -/
theorem empty_subject (p : FR.Glob.B) : FR.Glob.rglob p [] = p.isEmpty :=
  rglob_nil p

/-- The model on the empty subject: exactly the all-star patterns match. -/
theorem empty_subject_model (p : FR.Glob.B) :
    FR.Glob.globMatch p [] = (FR.Glob.dropStars p).isEmpty :=
  matchA_compile_nil p

/-- `*` matches every subject. -/
theorem star_matches_all (s : FR.Glob.B) : FR.Glob.globMatch [42] s = true := by
  show matchA (compile (cStar :: [])) s = true
  rw [compile_star, compile]; exact matchA_star_only s

/-- A pattern without metacharacters matches exactly itself. -/
theorem literal_pattern (p s : FR.Glob.B)
    (h : ∀ c ∈ p, c ≠ 42 ∧ c ≠ 63 ∧ c ≠ 91 ∧ c ≠ 92) :
    FR.Glob.globMatch p s = decide (p = s) :=
  matchA_compile_literal p s h

/-! ## non-vacuity / sanity examples

`matchA`, `compile`, `rglob` are defined by well-founded recursion, so they are evaluated here by
rewriting with their equation lemmas (no `native_decide`). -/

local macro "glob_eval" : tactic =>
  `(tactic| (simp [globMatch, compile, classAtom, splitNeg, scanClass, rglob, rClass, rClassLoop,
      dropStars, cQ, cStar, cBS, cLB, cRB, cCaret, cDash, matchA, Atom.matches1, CItem.matches,
      u8_min, u8_max] <;> try decide))

-- "h[a-c]*o" compiles to  h [a-c] .* o
example : compile [104, 91, 97, 45, 99, 93, 42, 111] =
    [.lit 104, .cls false [.range 97 99], .star, .lit 111] := by glob_eval
-- "h[a-c]*o" matches "hbllo" (model and Redis)
example : globMatch [104, 91, 97, 45, 99, 93, 42, 111] [104, 98, 108, 108, 111] = true := by
  glob_eval
example : rglob [104, 91, 97, 45, 99, 93, 42, 111] [104, 98, 108, 108, 111] = true := by
  glob_eval
-- "h[a-c]*o" does not match "hdllo" nor "hbll"
example : globMatch [104, 91, 97, 45, 99, 93, 42, 111] [104, 100, 108, 108, 111] = false := by
  glob_eval
example : globMatch [104, 91, 97, 45, 99, 93, 42, 111] [104, 98, 108, 108] = false := by
  glob_eval
-- "[^a]?\*" matches "bc*" but not "ac*"
example : globMatch [91, 94, 97, 93, 63, 92, 42] [98, 99, 42] = true := by glob_eval
example : globMatch [91, 94, 97, 93, 63, 92, 42] [97, 99, 42] = false := by glob_eval
-- reversed range "[c-a]" still matches "b"
example : globMatch [91, 99, 45, 97, 93] [98] = true := by glob_eval
-- the hypothesis of `literal_pattern` is satisfiable: "key]" has no metacharacter
example : ∀ c ∈ ([107, 101, 121, 93] : B), c ≠ 42 ∧ c ≠ 63 ∧ c ≠ 91 ∧ c ≠ 92 := by decide
-- `hs : s ≠ []` in `glob_correct` is necessary: on the empty subject "*" differs
example : globMatch [42] [] = true ∧ rglob [42] [] = false := by
  rw [empty_subject_model, empty_subject]; exact ⟨by simp [dropStars, cStar], rfl⟩

end FR.Props.C16

