import FR.Proofs.C03zCmds
/-!
# C03z — sorted-set commands: declarative specifications through the runner

Complements `C03.lean` (the two-index invariant `ZSet.Inv`, rank / irange / zcount at data level) and
`C03s.lean` (ZUNIONSTORE / ZINTERSTORE).  Every theorem is about `run name ctx raw db`, i.e. `runRegular` applied
to the REGISTERED signature (`SigTable`) and the REGISTERED body (`Cmd.regular`) of the command, on an arbitrary
database with unique keys, arbitrary byte strings and both emulated versions (`ctx.version` is a variable).

Standing hypotheses of the main section:
* `nd : NodupKeys db.dict` — a Python dict has unique keys;
* `hv : zsetView db.live key = some (z, e)` — the key is missing (`z = ZSet.empty`, `e = none`) or holds the
  sorted set `z` with deadline `e` (`zsetView … = none`: another type is stored, see `zset_wrongtype`);
* `hz : z.Inv` — the two-index invariant of `FR/Proofs/ZSet.lean` (C03 proves that every command preserves it).

Vocabulary (`FR/Proofs/C03zRun.lean`, `C03zAlg.lean`, `C03zCmds.lean`, namespace `FR.ZCmd`):
* `z.byscore : List (Dbl × Bytes)` — THE iteration order: ascending by score, then by member bytes (`C03.members_sorted`),
  every member once (`C03.members_nodup`), determined by the map `z.get` (`byscore_canonical` below);
* `ReadOnly out db r` — the run replies `r`, does not fail, and no key changes;
  `Fails out db er` — it replies the error `er` and no key changes;
  `Writes out db key z' e r` — it replies `r`, and the only change is that `key` now holds `z'` with deadline `e`,
  and is DELETED when `z'` is empty (`writes_deletes_empty`);
* `CardEq P n` — `n` is the number of byte strings satisfying `P`;
* `rangeWindow l start stop` — Redis index normalisation; `limitSpec l off cnt` — LIMIT;
  `scoreIn`, `lexGe`, `lexLe`, `lexRange` — the range predicates; `withScores` — WITHSCORES interleaving (model function,
  characterised in `withScores_spec`); `fmtScore ctx d` — the model's rendering of a double for the emulated version;
* `zaddWrites`, `zaddSet`, `zaddChanged`, `incrScore` — the ZADD / ZINCRBY semantics.
-/
namespace FR.Props.C03z
open FR FR.Cmd FR.HashSet FR.ZCmd

/-! ## 0. The vocabulary, spelled out -/

theorem outcomes_def (out : RunOut) (db : Db) (key : Bytes) (z' : ZSet) (e : Option Int) (r : Reply) (er : Err) :
    (ReadOnly out db r ↔ out.reply = r ∧ out.db.live = db.live ∧ out.failed = false) ∧
    (Fails out db er ↔ out.reply = .err (strBytes er) ∧ out.db.live = db.live ∧ out.failed = true) ∧
    (Writes out db key z' e r ↔
      out.reply = r ∧ out.db.live = putAt db.live key (.zset z') e ∧ out.failed = false) :=
  ⟨Iff.rfl, Iff.rfl, Iff.rfl⟩

/-- a write deletes the key when the resulting set is empty, stores it otherwise, and touches no other key -/
theorem writes_deletes_empty (out : RunOut) (db : Db) (key : Bytes) (z' : ZSet) (e : Option Int) (r : Reply)
    (h : Writes out db key z' e r) :
    (z'.bylex = [] → out.db.live key = none) ∧
    (z'.bylex ≠ [] → out.db.live key = some ⟨.zset z', e⟩) ∧
    (∀ k, k ≠ key → out.db.live k = db.live k) :=
  ⟨h.deleted, h.stored, fun _ hk => h.other hk⟩

/-- the view of a key: missing = the empty sorted set without deadline -/
theorem zsetView_def (live : Bytes → Option Item) (key : Bytes) :
    (live key = none → zsetView live key = some (ZSet.empty, none)) ∧
    (∀ z e, live key = some ⟨.zset z, e⟩ → zsetView live key = some (z, e)) ∧
    (∀ it, live key = some it → (∀ z, it.value ≠ .zset z) → zsetView live key = none) := by
  refine ⟨zsetView_missing, fun z e h => zsetView_stored h, fun it h hne => ?_⟩
  unfold zsetView; rw [h]
  cases hval : it.value with
  | zset z => exact absurd hval (hne z)
  | _ => simp [hval]

/-- LIMIT: a negative offset yields nothing; a negative count everything from the offset on -/
theorem limitSpec_def {α} (l : List α) (off cnt : Int) :
    limitSpec l off cnt =
      if off < 0 then [] else if cnt < 0 then l.drop off.toNat else (l.drop off.toNat).take cnt.toNat := rfl

/-- Redis index normalisation: a negative index counts from the end (`i' = i + len`); the window is
`[max 0 start', min (len-1) stop']`, empty when that interval is.  Element-wise and for the whole list: -/
theorem rangeWindow_def {α} (l : List α) (start stop : Int) :
    let nrm (i : Int) : Int := if i < 0 then i + l.length else i
    (rangeWindow l start stop =
      (l.drop (max 0 (nrm start)).toNat).take (min (nrm stop) ((l.length : Int) - 1) + 1 - max 0 (nrm start)).toNat) ∧
    (∀ i : Nat, (rangeWindow l start stop)[i]? =
      if max 0 (nrm start) + i ≤ min (nrm stop) ((l.length : Int) - 1) then l[(max 0 (nrm start)).toNat + i]?
      else none) ∧
    rangeWindow l 0 (-1) = l :=
  ⟨rfl, rangeWindow_getElem? l start stop, rangeWindow_all l⟩

/-- WITHSCORES interleaves the formatted scores -/
theorem withScores_spec (ctx : Ctx) (items : List (Dbl × Bytes)) :
    withScores ctx items false = items.map (fun p => .bulk p.2) ∧
    withScores ctx items true = items.flatMap (fun p => [.bulk p.2, .bulk (fmtScore ctx p.1)]) :=
  ⟨rfl, rfl⟩

/-- the range predicates -/
theorem range_predicates_def (mn mx s : Dbl) (mne mxe : Bool) (m x : Bytes) :
    (scoreIn mn mne mx mxe s =
      ((if mne then Dbl.lt mn s else Dbl.le mn s) && (if mxe then Dbl.lt s mx else Dbl.le s mx))) ∧
    -- lower lex bound: `-` admits everything, `+` nothing, `(x` is strict, `[x` is not
    (lexGe .before mne m = true ∧ lexGe .after mne m = false ∧
      lexGe (.val x) true m = bytesLt x m ∧ lexGe (.val x) false m = !bytesLt m x) ∧
    -- upper lex bound
    (lexLe .after mxe m = true ∧ lexLe .before mxe m = false ∧
      lexLe (.val x) true m = bytesLt m x ∧ lexLe (.val x) false m = !bytesLt x m) := by
  refine ⟨rfl, ⟨?_, ?_, rfl, rfl⟩, ⟨?_, ?_, rfl, rfl⟩⟩ <;> cases mne <;> cases mxe <;> rfl

/-- all scores `0`: members `a`, `b`, `c` (the situation Redis defines the lex commands for) -/
def exLex : ZSet := (((ZSet.empty.add [97] Dbl.zero).1.add [98] Dbl.zero).1.add [99] Dbl.zero).1
/-- `a ↦ +inf` -/
def exInf : ZSet := (ZSet.empty.add [97] (.inf false)).1

/-- the database of the non-vacuity examples: key `[1]` holds `a ↦ 1, b ↦ 2, c ↦ 2` (added in the order b, a, c)
with a deadline, key `[2]` a string, key `[3]` is missing, key `[4]` holds `exLex`, key `[5]` holds `exInf`;
the clock stands at 5 -/
def exDb : Db := ⟨[([1], ⟨.zset ZSet.example3, some 50⟩), ([2], ⟨.str [7], none⟩),
  ([4], ⟨.zset exLex, none⟩), ([5], ⟨.zset exInf, none⟩)], 5⟩
def exCtx : Ctx := { version := 7, time := 5 }
def exCtx6 : Ctx := { version := 6, time := 5 }
/-- (for the examples only) `Except` as a sum with decidable equality -/
def exView {α} (r : Except Err α) : Err ⊕ α := match r with | .ok a => .inr a | .error e => .inl e
/-- (for the examples only) replies as their canonical text (`i:` integer, `b:` bulk in hex, `nil`, `[…]`) -/
def rv (r : Reply) : String := r.render
/-- (for the examples only) the message of an error reply -/
def errOf (r : Reply) : Option Bytes := match r with | .err m => some m | _ => none
/-- (for the examples only) -/
def bs (s : String) : Bytes := strBytes s
/-- (for the examples only) members in iteration order, formatted scores (version 6 rendering shows `-0`) and
deadline of the sorted set at a key; `none` for another type -/
def zv (db : Db) (k : Bytes) : Option (List (Bytes × Bytes) × Option Int) :=
  (zsetView db.live k).map fun p => (p.1.byscore.map fun q => (q.2, Dbl.encode q.1 false), p.2)

theorem example3_inv : ZSet.example3.Inv :=
  ZSet.add_inv (ZSet.add_inv (ZSet.add_inv ZSet.empty_inv (by decide)) (by decide)) (by decide)

/-- the standing hypotheses hold of `exDb`; the three kinds of view all occur -/
example : NodupKeys exDb.dict ∧ zsetView exDb.live [1] = some (ZSet.example3, some 50) ∧ ZSet.example3.Inv ∧
    zsetView exDb.live [3] = some (ZSet.empty, none) ∧ ZSet.empty.Inv ∧ zsetView exDb.live [2] = none ∧
    zsetView exDb.live [4] = some (exLex, none) ∧ exLex.Inv ∧ zsetView exDb.live [5] = some (exInf, none) ∧
    exInf.Inv :=
  ⟨by decide, by rfl, example3_inv, by rfl, ZSet.empty_inv, by rfl, by rfl,
    ZSet.add_inv (ZSet.add_inv (ZSet.add_inv ZSet.empty_inv (by decide)) (by decide)) (by decide), by rfl,
    ZSet.add_inv ZSet.empty_inv (by decide)⟩

/-! ## 1. The canonical form: under the invariant the iteration order is determined by the map -/

/-- two invariant sorted sets with the same member ↦ score map iterate in the same order; hence every statement
below that determines `z'.get` (or `z'.byscore`) and `z'.Inv` determines the set a client can observe -/
theorem byscore_canonical (z z' : ZSet) (hz : z.Inv) (hz' : z'.Inv) (h : ∀ m, z.get m = z'.get m) :
    z.byscore = z'.byscore := byscore_eq_of_get_eq hz hz' h

/-- the same three members added in another order: another insertion-ordered index, the same map, the same
iteration order -/
example :
    let z' := (((ZSet.empty.add [97] (Dbl.ofInt 1)).1.add [99] (Dbl.ofInt 2)).1.add [98] (Dbl.ofInt 2)).1
    z'.bylex ≠ ZSet.example3.bylex ∧ z'.Inv ∧ (∀ m, z'.get m = ZSet.example3.get m) ∧
    z'.byscore = ZSet.example3.byscore := by
  intro z'
  have hinv : z'.Inv :=
    ZSet.add_inv (ZSet.add_inv (ZSet.add_inv ZSet.empty_inv (by decide)) (by decide)) (by decide)
  have hget : ∀ m, z'.get m = ZSet.example3.get m := by
    intro m
    have e1 : z'.bylex = [([97], Dbl.ofInt 1), ([99], Dbl.ofInt 2), ([98], Dbl.ofInt 2)] := by decide
    have e2 : ZSet.example3.bylex = [([98], Dbl.ofInt 2), ([97], Dbl.ofInt 1), ([99], Dbl.ofInt 2)] := by decide
    unfold ZSet.get
    rw [e1, e2]
    simp only [List.lookup_cons, List.lookup_nil]
    by_cases h1 : m = [97]
    · subst h1; decide
    · by_cases h2 : m = [98]
      · subst h2; decide
      · by_cases h3 : m = [99]
        · subst h3; decide
        · have c1 : (m == [97]) = false := by simpa using h1
          have c2 : (m == [98]) = false := by simpa using h2
          have c3 : (m == [99]) = false := by simpa using h3
          simp [c1, c2, c3]
  exact ⟨by decide, hinv, hget, byscore_canonical z' ZSet.example3 hinv example3_inv hget⟩

section main
variable (ctx : Ctx) (db : Db) (nd : NodupKeys db.dict) (key : Bytes) (z : ZSet) (e : Option Int)
  (hv : zsetView db.live key = some (z, e)) (hz : z.Inv)
include nd hv hz

/-! ## 2. ZCARD, ZSCORE, ZRANK, ZREVRANK -/

/-- ZCARD = number of members = length of the iteration order -/
theorem zcard_spec :
    ReadOnly (run "zcard" ctx [key] db) db (.int z.len) ∧
    z.len = z.byscore.length ∧ CardEq (fun m => z.get m ≠ none) z.len := by
  refine ⟨run_zcard ctx key nd hv, (ZSet.byscore_length hz).symm, ?_⟩
  refine ⟨z.byscore.map Prod.snd, ZSet.members_nodup hz, fun m => mem_members_iff hz m, ?_⟩
  rw [List.length_map, ZSet.byscore_length hz]

omit hz in
/-- ZSCORE: nil for an absent member (in particular for a missing key), else the model's rendering `fmtScore`
of the stored double (`fmtScore_rule` below) -/
theorem zscore_spec (m : Bytes) :
    ReadOnly (run "zscore" ctx [key, m] db) db
      (match z.get m with
       | some s => .bulk (fmtScore ctx s)
       | none => .nil) :=
  run_zscore ctx key nd hv m

/-- ZRANK: nil for an absent member, else the position of the member in the iteration order -/
theorem zrank_spec (m : Bytes) :
    ReadOnly (run "zrank" ctx [key, m] db) db
      (if z.get m = none then .nil else .int ((z.byscore.map Prod.snd).idxOf m)) ∧
    (z.get m ≠ none → (z.byscore.map Prod.snd).idxOf m < z.len ∧
      (z.byscore.map Prod.snd)[(z.byscore.map Prod.snd).idxOf m]? = some m) := by
  constructor
  · have := run_zrank ctx key nd hv m
    rw [rank_eq_idxOf] at this
    by_cases hg : z.get m = none
    · simpa [hg] using this
    · simpa [hg] using this
  · intro hg
    have hm : m ∈ z.byscore.map Prod.snd := (mem_members_iff hz m).mpr hg
    have hi := List.idxOf_lt_length_iff.mpr hm
    refine ⟨by simpa [ZSet.byscore_length hz] using hi, ?_⟩
    rw [List.getElem?_eq_getElem hi, List.getElem_idxOf hi]

/-- ZREVRANK: `len - 1 - rank`, which is the position of the member in the REVERSED iteration order -/
theorem zrevrank_spec (m : Bytes) :
    ReadOnly (run "zrevrank" ctx [key, m] db) db
      (if z.get m = none then .nil else .int ((z.byscore.map Prod.snd).reverse.idxOf m)) ∧
    (z.get m ≠ none →
      (z.byscore.map Prod.snd).reverse.idxOf m = z.len - 1 - (z.byscore.map Prod.snd).idxOf m) := by
  have hrev : z.get m ≠ none →
      (z.byscore.map Prod.snd).reverse.idxOf m = z.len - 1 - (z.byscore.map Prod.snd).idxOf m := by
    intro hg
    have := idxOf_reverse (ZSet.members_nodup hz) ((mem_members_iff hz m).mpr hg)
    rw [this, List.length_map, ZSet.byscore_length hz]
  refine ⟨?_, hrev⟩
  have := run_zrevrank ctx key nd hv m
  rw [rank_eq_idxOf] at this
  by_cases hg : z.get m = none
  · simpa [hg] using this
  · have hlt : (z.byscore.map Prod.snd).idxOf m < z.len := by
      have := List.idxOf_lt_length_iff.mpr ((mem_members_iff hz m).mpr hg)
      simpa [ZSet.byscore_length hz] using this
    rw [if_neg hg, hrev hg]
    simp only [hg, if_false] at this
    have e1 : ((z.len : Int) - 1 - ((z.byscore.map Prod.snd).idxOf m : Nat)) =
        ((z.len - 1 - (z.byscore.map Prod.snd).idxOf m : Nat) : Int) := by omega
    rw [← e1]; exact this

/-! ## 3. ZRANGE / ZREVRANGE -/

/-- ZRANGE key start stop [WITHSCORES…]: the Redis index window of the iteration order; every option word must be
WITHSCORES (any number of them), anything else is a syntax error -/
theorem zrange_spec (a b : Bytes) (rest : List Bytes) (start stop : Int)
    (ha : Conv.int a = .ok start) (hb : Conv.int b = .ok stop) :
    let out := run "zrange" ctx (key :: a :: b :: rest) db
    if rest.all (fun x => casematch x "withscores") = true then
      ReadOnly out db (.arr (withScores ctx (rangeWindow z.byscore start stop) (!rest.isEmpty)))
    else Fails out db Msgs.SYNTAX_ERROR_MSG := by
  intro out
  split
  · rename_i h; exact run_zrange_ok ctx key nd hv hz a b rest ha hb h
  · rename_i h; exact run_zrange_syntax ctx key nd hv hz a b rest ha hb (by simpa using h)

/-- ZREVRANGE = the same window of the REVERSED iteration order ("reverse view") -/
theorem zrevrange_spec (a b : Bytes) (rest : List Bytes) (start stop : Int)
    (ha : Conv.int a = .ok start) (hb : Conv.int b = .ok stop) :
    let out := run "zrevrange" ctx (key :: a :: b :: rest) db
    if rest.all (fun x => casematch x "withscores") = true then
      ReadOnly out db (.arr (withScores ctx (rangeWindow z.byscore.reverse start stop) (!rest.isEmpty)))
    else Fails out db Msgs.SYNTAX_ERROR_MSG := by
  intro out
  split
  · rename_i h; exact run_zrevrange_ok ctx key nd hv hz a b rest ha hb h
  · rename_i h; exact run_zrevrange_syntax ctx key nd hv hz a b rest ha hb (by simpa using h)

/-! ## 4. ZRANGEBYSCORE / ZREVRANGEBYSCORE with LIMIT, ZCOUNT -/

/-- ZRANGEBYSCORE key min max [WITHSCORES] [LIMIT offset count]: filter the iteration order by the
inclusive / exclusive / infinite bounds (`scoreIn`), then LIMIT (`limitSpec`: a negative count = all remaining, a
negative offset = nothing), then WITHSCORES.  An ill-formed option tail is an error (`rbs_options`). -/
theorem zrangebyscore_limit_spec (a b : Bytes) (rest : List Bytes) (mn mx : Dbl) (mne mxe : Bool)
    (ha : Conv.scoreTest a = .ok (mn, mne)) (hb : Conv.scoreTest b = .ok (mx, mxe)) :
    let out := run "zrangebyscore" ctx (key :: a :: b :: rest) db
    (∀ er, parseRbsOpts rest {} = .error er → Fails out db er) ∧
    (∀ o, parseRbsOpts rest {} = .ok o →
      ReadOnly out db (.arr (withScores ctx
        (limitSpec (z.byscore.filter (fun p => scoreIn mn mne mx mxe p.1)) o.off o.cnt) o.ws))) := by
  intro out
  refine ⟨fun er ho => run_zrangebyscore_err ctx key nd hv a b rest ha hb ho, fun o ho => ?_⟩
  have := run_zrangebyscore_ok ctx key nd hv a b rest ha hb ho
  rwa [irange_score_eq_filter hz mne mxe (scoreTest_not_nan ha) (scoreTest_not_nan hb)] at this

/-- ZREVRANGEBYSCORE key MAX MIN …: the same filter on the REVERSED iteration order (the first bound is the upper
one), then LIMIT, then WITHSCORES -/
theorem zrevrangebyscore_spec (a b : Bytes) (rest : List Bytes) (mn mx : Dbl) (mne mxe : Bool)
    (ha : Conv.scoreTest a = .ok (mx, mxe)) (hb : Conv.scoreTest b = .ok (mn, mne)) :
    let out := run "zrevrangebyscore" ctx (key :: a :: b :: rest) db
    (∀ er, parseRbsOpts rest {} = .error er → Fails out db er) ∧
    (∀ o, parseRbsOpts rest {} = .ok o →
      ReadOnly out db (.arr (withScores ctx
        (limitSpec (z.byscore.reverse.filter (fun p => scoreIn mn mne mx mxe p.1)) o.off o.cnt) o.ws))) := by
  intro out
  refine ⟨fun er ho => run_zrevrangebyscore_err ctx key nd hv a b rest ha hb ho, fun o ho => ?_⟩
  have := run_zrevrangebyscore_ok ctx key nd hv a b rest ha hb ho
  rwa [irange_score_eq_filter hz mne mxe (scoreTest_not_nan hb) (scoreTest_not_nan ha),
    ← List.filter_reverse] at this

/-- ZCOUNT = number of members within the bounds -/
theorem zcount_spec (a b : Bytes) (mn mx : Dbl) (mne mxe : Bool)
    (ha : Conv.scoreTest a = .ok (mn, mne)) (hb : Conv.scoreTest b = .ok (mx, mxe)) :
    ReadOnly (run "zcount" ctx [key, a, b] db) db
      (.int (z.byscore.filter (fun p => scoreIn mn mne mx mxe p.1)).length) := by
  have := run_zcount ctx key nd hv a b ha hb
  rwa [ZSet.zcount_eq_length hz mn mne mxe (scoreTest_not_nan hb),
    irange_score_eq_filter hz mne mxe (scoreTest_not_nan ha) (scoreTest_not_nan hb)] at this

/-! ## 5. ZRANGEBYLEX / ZREVRANGEBYLEX / ZLEXCOUNT -/

/-- ZRANGEBYLEX key min max [LIMIT offset count]: `lexRange` — among the members whose score is IEEE-equal to the
LOWEST score, those within the lex bounds — then LIMIT.  The option tail is empty or exactly `LIMIT off cnt`. -/
theorem zrangebylex_spec (a b : Bytes) (rest : List Bytes) (mn mx : LexB) (mne mxe : Bool)
    (ha : Conv.stringTest a = .ok (mn, mne)) (hb : Conv.stringTest b = .ok (mx, mxe)) :
    let out := run "zrangebylex" ctx (key :: a :: b :: rest) db
    (∀ er, parseLexOpts rest = .error er → Fails out db er) ∧
    (∀ off cnt, parseLexOpts rest = .ok (off, cnt) →
      ReadOnly out db (Reply.bulks (limitSpec (lexRange z mn mne mx mxe) off cnt))) := by
  intro out
  refine ⟨fun er ho => run_zrangebylex_err ctx key nd hv a b rest ha hb ho, fun off cnt ho => ?_⟩
  have := run_zrangebylex_ok ctx key nd hv a b rest ha hb ho
  rwa [irangeLex_eq_lexRange hz] at this

/-- ZREVRANGEBYLEX key MAX MIN …: the reversed selection, then LIMIT -/
theorem zrevrangebylex_spec (a b : Bytes) (rest : List Bytes) (mn mx : LexB) (mne mxe : Bool)
    (ha : Conv.stringTest a = .ok (mx, mxe)) (hb : Conv.stringTest b = .ok (mn, mne)) :
    let out := run "zrevrangebylex" ctx (key :: a :: b :: rest) db
    (∀ er, parseLexOpts rest = .error er → Fails out db er) ∧
    (∀ off cnt, parseLexOpts rest = .ok (off, cnt) →
      ReadOnly out db (Reply.bulks (limitSpec (lexRange z mn mne mx mxe).reverse off cnt))) := by
  intro out
  refine ⟨fun er ho => run_zrevrangebylex_err ctx key nd hv a b rest ha hb ho, fun off cnt ho => ?_⟩
  have := run_zrevrangebylex_ok ctx key nd hv a b rest ha hb ho
  rwa [irangeLex_eq_lexRange hz] at this

/-- ZLEXCOUNT = length of the selection -/
theorem zlexcount_spec (a b : Bytes) (mn mx : LexB) (mne mxe : Bool)
    (ha : Conv.stringTest a = .ok (mn, mne)) (hb : Conv.stringTest b = .ok (mx, mxe)) :
    ReadOnly (run "zlexcount" ctx [key, a, b] db) db (.int (lexRange z mn mne mx mxe).length) := by
  have := run_zlexcount ctx key nd hv a b ha hb
  rwa [zlexcount_eq_length, irangeLex_eq_lexRange hz] at this

omit nd hv in
/-- what `lexRange` is; and when all scores are IEEE-equal — the only case Redis defines — it is the filter of the
WHOLE set on the member bytes -/
theorem lexRange_spec (mn mx : LexB) (mne mxe : Bool) :
    (lexRange z mn mne mx mxe =
      match z.byscore.head? with
      | none => []
      | some first =>
        (z.byscore.filter (fun p => Dbl.eq p.1 first.1 && (lexGe mn mne p.2 && lexLe mx mxe p.2))).map Prod.snd) ∧
    ((∀ p ∈ z.byscore, ∀ q ∈ z.byscore, Dbl.eq p.1 q.1 = true) →
      lexRange z mn mne mx mxe =
        (z.byscore.filter (fun p => lexGe mn mne p.2 && lexLe mx mxe p.2)).map Prod.snd) := by
  refine ⟨?_, fun h => lexRange_same_score hz h mn mne mx mxe⟩
  unfold lexRange ZSet.firstScore
  cases z.byscore.head? <;> rfl


/-! ## 6. ZREM and ZREMRANGEBYRANK / BYSCORE / BYLEX -/

omit nd hv hz in
/-- what `Removes` says -/
theorem removes_def (out : RunOut) (ms : List Bytes) :
    Removes out db key z e ms ↔
      ∃ (n : Nat) (z' : ZSet),
        CardEq (fun x => x ∈ ms ∧ z.get x ≠ none) n ∧
        z'.Inv ∧ (∀ x, z'.get x = if x ∈ ms then none else z.get x) ∧
        z'.byscore = z.byscore.filter (fun p => !ms.contains p.2) ∧
        (n = 0 → ReadOnly out db (.int 0)) ∧
        (n > 0 → Writes out db key z' e (.int n)) := Iff.rfl

/-- ZREM key m [m …]: the reply is the number of the given members that are present, duplicates in the argument
list counted once; the remaining set keeps invariant, scores and order; the key is deleted when it becomes empty -/
theorem zrem_spec (m : Bytes) (rest : List Bytes) :
    Removes (run "zrem" ctx (key :: m :: rest) db) db key z e (m :: rest) ∧
    ((∀ x, z.get x ≠ none → x ∈ m :: rest) → z.bylex ≠ [] →
      (run "zrem" ctx (key :: m :: rest) db).db.live key = none) := by
  have h : Removes (run "zrem" ctx (key :: m :: rest) db) db key z e (m :: rest) :=
    removes_of_cases hz (m :: rest)
      ⟨fun hp => run_zrem_some ctx key nd hv m rest hp, fun h0 => run_zrem_none ctx key nd hv m rest h0⟩
  exact ⟨h, fun hall hne => h.deleted hall hne⟩

/-- ZREMRANGEBYRANK removes exactly the members `R` that ZRANGE with the same arguments returns, and replies how many -/
theorem zremrangebyrank_spec (a b : Bytes) (start stop : Int)
    (ha : Conv.int a = .ok start) (hb : Conv.int b = .ok stop) :
    let R := (rangeWindow z.byscore start stop).map Prod.snd
    ReadOnly (run "zrange" ctx [key, a, b] db) db (Reply.bulks R) ∧
    Removes (run "zremrangebyrank" ctx [key, a, b] db) db key z e R ∧
    (run "zremrangebyrank" ctx [key, a, b] db).reply = .int R.length := by
  intro R
  have hread : ReadOnly (run "zrange" ctx [key, a, b] db) db (Reply.bulks R) := by
    have := run_zrange_ok ctx key nd hv hz a b [] ha hb rfl
    simpa [withScores, Reply.bulks, R, List.map_map, Function.comp_def] using this
  have hrem : Removes (run "zremrangebyrank" ctx [key, a, b] db) db key z e R :=
    removes_of_cases hz R (run_zremrangebyrank ctx key nd hv hz a b ha hb)
  have hw := window_members hz (max 0 (normIdx start z.byscore.length)).toNat
    (min (normIdx stop z.byscore.length) ((z.byscore.length : Int) - 1) + 1 -
      max 0 (normIdx start z.byscore.length)).toNat
  exact ⟨hread, hrem, hrem.reply_length hw.1 hw.2⟩

/-- ZREMRANGEBYSCORE removes exactly the members ZRANGEBYSCORE (no options) returns -/
theorem zremrangebyscore_spec (a b : Bytes) (mn mx : Dbl) (mne mxe : Bool)
    (ha : Conv.scoreTest a = .ok (mn, mne)) (hb : Conv.scoreTest b = .ok (mx, mxe)) :
    let R := (z.byscore.filter (fun p => scoreIn mn mne mx mxe p.1)).map Prod.snd
    ReadOnly (run "zrangebyscore" ctx [key, a, b] db) db (Reply.bulks R) ∧
    Removes (run "zremrangebyscore" ctx [key, a, b] db) db key z e R ∧
    (run "zremrangebyscore" ctx [key, a, b] db).reply = .int R.length ∧
    -- the remaining members are exactly those outside the bounds, in their old order
    z.byscore.filter (fun p => !R.contains p.2) = z.byscore.filter (fun p => !scoreIn mn mne mx mxe p.1) := by
  intro R
  have hfil := irange_score_eq_filter hz mne mxe (scoreTest_not_nan ha) (scoreTest_not_nan hb)
  have hread : ReadOnly (run "zrangebyscore" ctx [key, a, b] db) db (Reply.bulks R) := by
    have := run_zrangebyscore_ok ctx key nd hv a b [] ha hb (o := {}) rfl
    rw [hfil] at this
    simpa [withScores, Reply.bulks, R, List.map_map, limitSpec, Function.comp_def] using this
  have hrem : Removes (run "zremrangebyscore" ctx [key, a, b] db) db key z e R := by
    have := run_zremrangebyscore ctx key nd hv a b ha hb
    rw [hfil] at this
    exact removes_of_cases hz R this
  have hw := filter_members hz (fun p => scoreIn mn mne mx mxe p.1)
  exact ⟨hread, hrem, hrem.reply_length hw.1 hw.2, filter_not_contains_filter hz _⟩

/-- ZREMRANGEBYLEX removes exactly the members ZRANGEBYLEX (no LIMIT) returns -/
theorem zremrangebylex_spec (a b : Bytes) (mn mx : LexB) (mne mxe : Bool)
    (ha : Conv.stringTest a = .ok (mn, mne)) (hb : Conv.stringTest b = .ok (mx, mxe)) :
    let R := lexRange z mn mne mx mxe
    ReadOnly (run "zrangebylex" ctx [key, a, b] db) db (Reply.bulks R) ∧
    Removes (run "zremrangebylex" ctx [key, a, b] db) db key z e R ∧
    (run "zremrangebylex" ctx [key, a, b] db).reply = .int R.length := by
  intro R
  have hread : ReadOnly (run "zrangebylex" ctx [key, a, b] db) db (Reply.bulks R) := by
    have := run_zrangebylex_ok ctx key nd hv a b [] ha hb (off := 0) (cnt := -1) rfl
    rw [irangeLex_eq_lexRange hz] at this
    simpa [limitSpec] using this
  have hrem : Removes (run "zremrangebylex" ctx [key, a, b] db) db key z e R := by
    have := run_zremrangebylex ctx key nd hv a b ha hb
    rw [irangeLex_eq_lexRange hz] at this
    exact removes_of_cases hz R this
  have hw := lexRange_nodup hz mn mne mx mxe
  exact ⟨hread, hrem, hrem.reply_length hw.1 hw.2⟩

/-! ## 7. ZINCRBY -/

/-- ZINCRBY key incr m: the new score is `old + incr` (IEEE addition), or `incr` for an absent member; a NaN result
(`inf + -inf`) is an error that changes nothing; otherwise the score is stored by `ZSet.add` and its rendering
is the reply.  `ZSet.add` keeps an old score that is IEEE-equal to the new one. -/
theorem zincrby_spec (a m : Bytes) (incr : Dbl) (ha : Conv.float a = .ok incr) :
    let out := run "zincrby" ctx [key, a, m] db
    let score := incrScore z m incr
    let z' := (z.add m score).1
    if score.isNaN = true then Fails out db Msgs.SCORE_NAN_MSG
    else
      Writes out db key z' e (.bulk (fmtScore ctx score)) ∧ z'.Inv ∧
      (∀ x, x ≠ m → z'.get x = z.get x) ∧
      (∃ s', z'.get m = some s' ∧ (s' = score ∨ Dbl.eq score s' = true)) := by
  intro out score z'
  split
  · rename_i hn; exact run_zincrby_nan ctx key nd hv a m ha hn
  · rename_i hn
    have hn' : score.isNaN = false := by simpa using hn
    exact ⟨run_zincrby_ok ctx key nd hv a m ha hn', ZSet.add_inv hz hn',
      fun x hx => ZSet.get_add_other z score hx, ZSet.get_add_self_eq z m score⟩

omit hz hv in
/-- an increment that is not a float: the converter's error, before the key is looked at -/
theorem zincrby_bad_float (a m : Bytes) (er : Err) (ha : Conv.float a = .error er) :
    Fails (run "zincrby" ctx [key, a, m] db) db Msgs.INVALID_FLOAT_MSG := by
  have := run_zincrby_bad ctx key nd a m ha
  rwa [float_error_msg ha] at this

/-! ## 8. ZADD: the decision table -/

/-- **ZADD key [NX|XX|CH|INCR …] score member [score member …]** (at least two arguments after the key, else the
arity error of `zset_bad_arity`).

The leading option words (`isZaddFlag`, ASCII case-insensitive, any number and order) are split off; then, in
this order:
1. NX together with XX: error;
2. no pair, or an odd number of remaining arguments: syntax error;
3. INCR with more than one pair: error;
4. a score that is not a float: error (`zadd_pairs_spec`) — all scores are parsed before anything is changed;
   in every error case nothing changes;
5. INCR: with `NX` and the member present, or `XX` and the member absent: nil, nothing changes; otherwise as
   ZINCRBY (`zincrby_spec`);
6. otherwise the pairs are processed in order by `zaddSet`: a pair is written iff `zaddWrites nx xx present`
   (`zaddWrites_table`), through `ZSet.add`; the reply is the number of members ADDED, or with CH the number
   `zaddChanged` of pairs whose processing modified the set (added + score updated); when nothing was modified the
   database is unchanged (in particular an XX on a missing key creates nothing). -/
theorem zadd_table (a b : Bytes) (rest : List Bytes) :
    let raw := a :: b :: rest
    let pre := raw.takeWhile isZaddFlag
    let elements := raw.dropWhile isZaddFlag
    let ch := pre.any (casematch · "ch")
    let nx := pre.any (casematch · "nx")
    let xx := pre.any (casematch · "xx")
    let incr := pre.any (casematch · "incr")
    let out := run "zadd" ctx (key :: raw) db
    if (nx && xx) = true then Fails out db Msgs.ZADD_NX_XX_ERROR_MSG
    else if (elements.isEmpty || elements.length % 2 != 0) = true then Fails out db Msgs.SYNTAX_ERROR_MSG
    else if (incr && elements.length != 2) = true then Fails out db Msgs.ZADD_INCR_LEN_ERROR_MSG
    else
      (∀ er, parseScorePairs ctx.version elements = .error er → Fails out db er) ∧
      (∀ items, parseScorePairs ctx.version elements = .ok items →
        if incr = true then
          ∃ s m, items = [(s, m)] ∧
            if ((nx && z.contains m) || (xx && !z.contains m)) = true then ReadOnly out db .nil
            else if (incrScore z m s).isNaN = true then Fails out db Msgs.SCORE_NAN_MSG
            else
              Writes out db key (z.add m (incrScore z m s)).1 e (.bulk (fmtScore ctx (incrScore z m s))) ∧
              (z.add m (incrScore z m s)).1.Inv
        else
          (zaddSet nx xx z items).Inv ∧ out.failed = false ∧
          (∃ added : Nat,
            CardEq (fun x => x ∈ items.map Prod.snd ∧ z.get x = none ∧ xx = false) added ∧
            (zaddSet nx xx z items).len = z.len + added ∧ added ≤ zaddChanged nx xx z items ∧
            out.reply = .int (if ch then (zaddChanged nx xx z items : Int) else (added : Int))) ∧
          (zaddChanged nx xx z items = 0 → zaddSet nx xx z items = z ∧ out.db.live = db.live) ∧
          (zaddChanged nx xx z items > 0 →
            out.db.live = putAt db.live key (.zset (zaddSet nx xx z items)) e)) := by
  intro raw pre elements ch nx xx incr out
  obtain ⟨h2, hch, hnx, hxx, hincr⟩ := parseZaddFlags_spec raw {}
  have := zadd_core ctx key nd hv hz a b rest (parseZaddFlags raw {}).1 (parseZaddFlags raw {}).2 rfl
  rw [h2, hch, hnx, hxx, hincr] at this
  simp only [Bool.false_or] at this
  exact this

end main

/-! ### the ingredients of the table -/

/-- which pairs are written: without NX / XX all; with NX those whose member is absent; with XX those whose member
is present (NX and XX together never reach this point) -/
theorem zaddWrites_table (present : Bool) :
    zaddWrites false false present = true ∧
    zaddWrites true false present = !present ∧
    zaddWrites false true present = present :=
  ⟨zaddWrites_plain present, zaddWrites_nx present, zaddWrites_xx present⟩

/-- the fold: the accepted pairs are added in order through `ZSet.add`; `zaddChanged` counts the pairs that
were written and for which `ZSet.add` reported a modification (new member, or a score not IEEE-equal to the old) -/
theorem zaddSet_def (nx xx : Bool) (z : ZSet) (p : Dbl × Bytes) (ps : List (Dbl × Bytes)) :
    zaddSet nx xx z [] = z ∧
    zaddSet nx xx z (p :: ps) =
      zaddSet nx xx (if zaddWrites nx xx (z.contains p.2) then (z.add p.2 p.1).1 else z) ps ∧
    zaddChanged nx xx z [] = 0 ∧
    zaddChanged nx xx z (p :: ps) =
      (if zaddWrites nx xx (z.contains p.2) && (z.add p.2 p.1).2 then 1 else 0) +
        zaddChanged nx xx (if zaddWrites nx xx (z.contains p.2) then (z.add p.2 p.1).1 else z) ps :=
  ⟨rfl, rfl, rfl, rfl⟩

/-- the option words: exactly `ch`, `nx`, `xx`, `incr` up to ASCII case (and a trailing NUL-terminated tail, as
`casematch` null-terminates) -/
theorem isZaddFlag_def (a : Bytes) :
    isZaddFlag a = (casematch a "ch" || casematch a "nx" || casematch a "xx" || casematch a "incr") := rfl

/-- the score / member pairs: `elements` is cut into consecutive pairs; parsing succeeds iff every score is a
valid float (`Conv.float`), the parsed score being normalised by `zaddScore` (version ≥ 7: `0.0 + d`, which turns
`-0.0` into `0.0`); otherwise the error is "not a valid float", raised for some pair -/
theorem zadd_pairs_spec (v : Nat) (l : List Bytes) :
    (∀ ps, parseScorePairs v l = .ok ps ↔
      (ZCmd.pairsOf l).map (fun sm => (scoreOfBytes v sm.1, sm.2)) = ps.map (fun p => (some p.1, p.2))) ∧
    (∀ er, parseScorePairs v l = .error er →
      er = Msgs.INVALID_FLOAT_MSG ∧ ∃ sm ∈ ZCmd.pairsOf l, Conv.float sm.1 = .error er) ∧
    (∀ (s m : Bytes) (rest : List Bytes), ZCmd.pairsOf (s :: m :: rest) = (s, m) :: ZCmd.pairsOf rest) ∧ ZCmd.pairsOf [] = [] ∧
    (∀ s : Bytes, ZCmd.pairsOf [s] = []) ∧
    (∀ s, scoreOfBytes v s = match Conv.float s with | .ok d => some (zaddScore v d) | .error _ => none) ∧
    (∀ d, zaddScore v d = if v ≥ 7 then d.plusZero else d) ∧
    (∀ ps, parseScorePairs v l = .ok ps → ∀ p ∈ ps, p.1.isNaN = false) :=
  ⟨parseScorePairs_ok_iff v l, fun _ h => parseScorePairs_error v l h, fun _ _ _ => rfl, rfl, fun _ => rfl,
    fun _ => rfl, fun _ => rfl, fun _ h => parseScorePairs_not_nan v l h⟩

/-- CH, declaratively, when the members of the pairs are distinct: every pair is judged against the ORIGINAL set;
a written pair counts iff its member is new or gets a score that is not IEEE-equal to the old one -/
theorem zadd_ch_count (nx xx : Bool) (z : ZSet) (items : List (Dbl × Bytes)) (hn : (items.map Prod.snd).Nodup) :
    zaddChanged nx xx z items =
      (items.filter (fun p => zaddWrites nx xx (z.contains p.2) &&
        (match z.get p.2 with
         | some old => !Dbl.eq p.1 old
         | none => true))).length := by
  rw [zaddChanged_nodup nx xx z items hn]
  congr 1
  apply List.filter_congr
  intro p _
  rw [ZSet.add_changed]
  cases z.get p.2 <;> rfl

example : ([(Dbl.ofInt 9, [97]), (Dbl.ofInt 2, [98]), (Dbl.zero, [122])].map Prod.snd).Nodup ∧
    zaddChanged false false ZSet.example3 [(Dbl.ofInt 9, [97]), (Dbl.ofInt 2, [98]), (Dbl.zero, [122])] = 2 := by
  decide

/-- the scores after ZADD (non-INCR), member by member:
* a member that is not among the pairs keeps its score (or stays absent);
* NX: a present member keeps its score; an absent one gets the score of its FIRST pair, exactly;
* XX: an absent member stays absent; a present one gets the score of its LAST pair;
* no flag: the LAST pair of the member wins;
"gets the score `s`" up to IEEE equality when a score is overwritten: `ZSet.add` keeps an old score that is `==` the
new one (so `-0.0` does not replace `0.0`). -/
theorem zaddSet_scores (z : ZSet) (nx xx : Bool) (items pre post : List (Dbl × Bytes)) (s : Dbl) (m : Bytes) :
    (m ∉ items.map Prod.snd → (zaddSet nx xx z items).get m = z.get m) ∧
    (∀ old, z.get m = some old → (zaddSet true xx z items).get m = some old) ∧
    (m ∉ pre.map Prod.snd → z.get m = none → (zaddSet true false z (pre ++ (s, m) :: post)).get m = some s) ∧
    (z.get m = none → (zaddSet nx true z items).get m = none) ∧
    (m ∉ post.map Prod.snd → z.get m ≠ none →
      ∃ s', (zaddSet false true z (pre ++ (s, m) :: post)).get m = some s' ∧ (s' = s ∨ Dbl.eq s s' = true)) ∧
    (m ∉ post.map Prod.snd →
      ∃ s', (zaddSet false false z (pre ++ (s, m) :: post)).get m = some s' ∧ (s' = s ∨ Dbl.eq s s' = true)) :=
  ⟨get_zaddSet_notin nx xx z items, fun _ h => get_zaddSet_nx_present xx z items h,
    get_zaddSet_nx_first z pre post s m, get_zaddSet_xx_absent nx z items,
    get_zaddSet_xx_last z pre post s m, get_zaddSet_plain_last z pre post s m⟩

/-! ## 9. The read commands agree with each other (replies of `run` on the same database) -/

section agree
variable (ctx : Ctx) (db : Db) (nd : NodupKeys db.dict) (key : Bytes) (z : ZSet) (e : Option Int)
  (hv : zsetView db.live key = some (z, e)) (hz : z.Inv)
include nd hv hz

/-- ZCARD = length of ZRANGE 0 -1 -/
theorem zcard_eq_length_zrange :
    ∃ l : List Reply, (run "zrange" ctx [key, [48], [45, 49]] db).reply = .arr l ∧
      (run "zcard" ctx [key] db).reply = .int l.length := by
  have h1 := run_zrange_ok ctx key nd hv hz [48] [45, 49] [] (start := 0) (stop := -1) (by rfl) (by rfl) rfl
  rw [rangeWindow_all] at h1
  refine ⟨_, h1.1, ?_⟩
  rw [(run_zcard ctx key nd hv).1]
  simp [withScores, ZSet.byscore_length hz]

/-- ZRANK m = index of m in ZRANGE 0 -1 (nil iff m does not occur in it); ZREVRANK likewise in ZREVRANGE 0 -1 -/
theorem zrank_eq_index_in_zrange (m : Bytes) :
    ∃ l : List Bytes, l.Nodup ∧
      (run "zrange" ctx [key, [48], [45, 49]] db).reply = Reply.bulks l ∧
      (run "zrevrange" ctx [key, [48], [45, 49]] db).reply = Reply.bulks l.reverse ∧
      (run "zrank" ctx [key, m] db).reply = (if m ∈ l then .int (l.idxOf m) else .nil) ∧
      (run "zrevrank" ctx [key, m] db).reply = (if m ∈ l then .int (l.reverse.idxOf m) else .nil) := by
  have h1 := run_zrange_ok ctx key nd hv hz [48] [45, 49] [] (start := 0) (stop := -1) (by rfl) (by rfl) rfl
  have h2 := run_zrevrange_ok ctx key nd hv hz [48] [45, 49] [] (start := 0) (stop := -1) (by rfl) (by rfl) rfl
  rw [rangeWindow_all] at h1 h2
  refine ⟨z.byscore.map Prod.snd, ZSet.members_nodup hz, ?_, ?_, ?_, ?_⟩
  · rw [h1.1]; simp [withScores, Reply.bulks, List.map_map, Function.comp_def]
  · rw [h2.1]; simp [withScores, Reply.bulks, List.map_map, Function.comp_def]
  · rw [(zrank_spec ctx db nd key z e hv hz m).1.1]
    by_cases hg : z.get m = none
    · rw [if_pos hg, if_neg (by rw [mem_members_iff hz]; simpa using hg)]
    · rw [if_neg hg, if_pos ((mem_members_iff hz m).mpr hg)]
  · rw [(zrevrank_spec ctx db nd key z e hv hz m).1.1]
    by_cases hg : z.get m = none
    · rw [if_pos hg, if_neg (by rw [mem_members_iff hz]; simpa using hg)]
    · rw [if_neg hg, if_pos ((mem_members_iff hz m).mpr hg)]

/-- ZCOUNT = length of ZRANGEBYSCORE (same bounds, no options) -/
theorem zcount_eq_length_zrangebyscore (a b : Bytes) (mn mx : Dbl) (mne mxe : Bool)
    (ha : Conv.scoreTest a = .ok (mn, mne)) (hb : Conv.scoreTest b = .ok (mx, mxe)) :
    ∃ l : List Reply, (run "zrangebyscore" ctx [key, a, b] db).reply = .arr l ∧
      (run "zcount" ctx [key, a, b] db).reply = .int l.length := by
  have h1 := (zrangebyscore_limit_spec ctx db nd key z e hv hz a b [] mn mx mne mxe ha hb).2 {} rfl
  refine ⟨_, h1.1, ?_⟩
  rw [(zcount_spec ctx db nd key z e hv hz a b mn mx mne mxe ha hb).1]
  simp [withScores, limitSpec]

/-- ZLEXCOUNT = length of ZRANGEBYLEX (same bounds, no LIMIT) -/
theorem zlexcount_eq_length_zrangebylex (a b : Bytes) (mn mx : LexB) (mne mxe : Bool)
    (ha : Conv.stringTest a = .ok (mn, mne)) (hb : Conv.stringTest b = .ok (mx, mxe)) :
    ∃ l : List Reply, (run "zrangebylex" ctx [key, a, b] db).reply = .arr l ∧
      (run "zlexcount" ctx [key, a, b] db).reply = .int l.length := by
  have h1 := (zrangebylex_spec ctx db nd key z e hv hz a b [] mn mx mne mxe ha hb).2 0 (-1) rfl
  refine ⟨_, h1.1, ?_⟩
  rw [(zlexcount_spec ctx db nd key z e hv hz a b mn mx mne mxe ha hb).1]
  simp [limitSpec]

/-- ZRANGE … WITHSCORES pairs every member with exactly what ZSCORE replies for it -/
theorem withscores_agrees_with_zscore (a b : Bytes) (start stop : Int)
    (ha : Conv.int a = .ok start) (hb : Conv.int b = .ok stop) :
    ∃ items : List (Dbl × Bytes),
      (run "zrange" ctx [key, a, b, strBytes "withscores"] db).reply =
        .arr (items.flatMap fun p => [.bulk p.2, .bulk (fmtScore ctx p.1)]) ∧
      ∀ p ∈ items, (run "zscore" ctx [key, p.2] db).reply = .bulk (fmtScore ctx p.1) := by
  have h1 := run_zrange_ok ctx key nd hv hz a b [strBytes "withscores"] ha hb (by decide +kernel)
  refine ⟨rangeWindow z.byscore start stop, h1.1, fun p hp => ?_⟩
  have hmem : p ∈ z.byscore :=
    ((List.take_sublist _ _).trans (List.drop_sublist _ _)).subset hp
  rw [(run_zscore ctx key nd hv p.2).1, (ZSet.get_iff_mem_byscore hz).mpr hmem]

end agree

/-! ## 10. Arguments: bounds, option tails, errors and their precedence -/

/-- score bounds (`ScoreTest.decode`): a leading `(` makes the bound exclusive; the rest is a float where
`inf`, `+inf`, `-inf`, `infinity` (any case) are the infinite bounds, the empty string is `0`, and NaN is rejected;
anything else: "min or max is not a float" -/
theorem score_bound_spec (v : Bytes) :
    (Conv.scoreTest (40 :: v) =
      match Conv.floatGen Msgs.INVALID_FLOAT_MSG true true true true v with
      | .ok d => .ok (d, true)
      | .error _ => .error Msgs.INVALID_MIN_MAX_FLOAT_MSG) ∧
    (v.head? ≠ some 40 →
      Conv.scoreTest v =
        match Conv.floatGen Msgs.INVALID_FLOAT_MSG true true true true v with
        | .ok d => .ok (d, false)
        | .error _ => .error Msgs.INVALID_MIN_MAX_FLOAT_MSG) ∧
    (∀ d x, Conv.scoreTest v = .ok (d, x) → d.isNaN = false) ∧
    (∀ er, Conv.scoreTest v = .error er → er = Msgs.INVALID_MIN_MAX_FLOAT_MSG) := by
  refine ⟨rfl, fun h => ?_, fun d x h => scoreTest_not_nan h, fun er h => scoreTest_error h⟩
  cases v with
  | nil => rfl
  | cons c r =>
    have : c ≠ 40 := fun e => h (by rw [e]; rfl)
    unfold Conv.scoreTest
    split
    · rename_i heq; split at heq
      · rename_i r' hv; cases hv; exact absurd rfl this
      · cases heq; rfl

example :
    exView (Conv.scoreTest (strBytes "(1.5")) = .inr (Dbl.ofDecimal false 15 (-1), true) ∧
    exView (Conv.scoreTest (strBytes "-inf")) = .inr (.inf true, false) ∧
    exView (Conv.scoreTest (strBytes "+inf")) = .inr (.inf false, false) ∧
    exView (Conv.scoreTest (strBytes "(inf")) = .inr (.inf false, true) ∧
    exView (Conv.scoreTest (strBytes "2")) = .inr (Dbl.ofInt 2, false) ∧
    exView (Conv.scoreTest (strBytes "nan")) = .inl Msgs.INVALID_MIN_MAX_FLOAT_MSG ∧
    exView (Conv.scoreTest (strBytes "a")) = .inl Msgs.INVALID_MIN_MAX_FLOAT_MSG := by
  decide +kernel

/-- lex bounds (`StringTest.decode`): exactly `-`, `+`, `(x`, `[x`; anything else is an error -/
theorem lex_bound_spec (x : Bytes) :
    Conv.stringTest [45] = .ok (.before, true) ∧ Conv.stringTest [43] = .ok (.after, true) ∧
    Conv.stringTest (40 :: x) = .ok (.val x, true) ∧ Conv.stringTest (91 :: x) = .ok (.val x, false) ∧
    Conv.stringTest [] = .error Msgs.INVALID_MIN_MAX_STR_MSG ∧
    (∀ c, c ≠ 40 → c ≠ 91 → c :: x ≠ [45] → c :: x ≠ [43] →
      Conv.stringTest (c :: x) = .error Msgs.INVALID_MIN_MAX_STR_MSG) := by
  refine ⟨rfl, rfl, ?_, ?_, rfl, ?_⟩
  · unfold Conv.stringTest
    have h1 : ((40 :: x : Bytes) == [45]) = false := by
      cases x <;> simp
    have h2 : ((40 :: x : Bytes) == [43]) = false := by
      cases x <;> simp
    simp [h1, h2]
  · unfold Conv.stringTest
    have h1 : ((91 :: x : Bytes) == [45]) = false := by
      cases x <;> simp
    have h2 : ((91 :: x : Bytes) == [43]) = false := by
      cases x <;> simp
    simp [h1, h2]
  · intro c h40 h91 h45 h43
    unfold Conv.stringTest
    have h1 : ((c :: x : Bytes) == [45]) = false := by simpa using h45
    have h2 : ((c :: x : Bytes) == [43]) = false := by simpa using h43
    simp only [h1, h2, Bool.false_eq_true, if_false]
    split
    · rename_i r hv; cases hv; exact absurd rfl h40
    · rename_i r hv; cases hv; exact absurd rfl h91
    · rfl

/-- the option tail of ZRANGEBYSCORE / ZREVRANGEBYSCORE: a sequence of `WITHSCORES` and `LIMIT off cnt` groups in any
order (the last LIMIT wins); a `LIMIT` with fewer than two following words, or any other word, is a syntax error; an
offset / count that is not a 64-bit integer is the integer error -/
theorem rbs_options (a x y : Bytes) (rest : List Bytes) (o : RbsOpts) :
    parseRbsOpts [] o = .ok o ∧ (({} : RbsOpts).ws = false ∧ ({} : RbsOpts).off = 0 ∧ ({} : RbsOpts).cnt = -1) ∧
    (casematch a "withscores" = true → parseRbsOpts (a :: rest) o = parseRbsOpts rest { o with ws := true }) ∧
    (casematch a "limit" = true →
      parseRbsOpts (a :: x :: y :: rest) o =
        match Conv.int x with
        | .error e => .error e
        | .ok off =>
          match Conv.int y with
          | .error e => .error e
          | .ok cnt => parseRbsOpts rest { o with off := off, cnt := cnt }) ∧
    (casematch a "limit" = true → rest.length < 2 → parseRbsOpts (a :: rest) o = .error Msgs.SYNTAX_ERROR_MSG) ∧
    (casematch a "withscores" = false → casematch a "limit" = false →
      parseRbsOpts (a :: rest) o = .error Msgs.SYNTAX_ERROR_MSG) :=
  ⟨rfl, ⟨rfl, rfl, rfl⟩, parseRbsOpts_withscores a rest o, parseRbsOpts_limit a x y rest o,
    parseRbsOpts_limit_short a rest o, parseRbsOpts_other a rest o⟩

/-- the option tail of ZRANGEBYLEX / ZREVRANGEBYLEX: empty, or exactly `LIMIT off cnt` -/
theorem lex_options (l o c : Bytes) (more : List Bytes) :
    parseLexOpts [] = .ok (0, -1) ∧
    parseLexOpts [l, o, c] =
      (if !casematch l "limit" then .error Msgs.SYNTAX_ERROR_MSG
       else match Conv.int o with
        | .error e => .error e
        | .ok off =>
          match Conv.int c with
          | .error e => .error e
          | .ok cnt => .ok (off, cnt)) ∧
    parseLexOpts [l] = .error Msgs.SYNTAX_ERROR_MSG ∧ parseLexOpts [l, o] = .error Msgs.SYNTAX_ERROR_MSG ∧
    parseLexOpts (l :: o :: c :: o :: more) = .error Msgs.SYNTAX_ERROR_MSG :=
  ⟨rfl, rfl, rfl, rfl, rfl⟩

/-- the sorted-set commands with two score bounds / two lex bounds / two ranks -/
def scoreCmds : List String := ["zcount", "zrangebyscore", "zrevrangebyscore", "zremrangebyscore"]
def lexCmds : List String := ["zlexcount", "zrangebylex", "zrevrangebylex", "zremrangebylex"]
def rankCmds : List String := ["zrange", "zrevrange", "zremrangebyrank"]
/-- … and those whose arguments after the key are plain byte strings -/
def plainCmds : List String := ["zadd", "zcard", "zrank", "zrevrank", "zrem", "zscore"]

section errors
variable (ctx : Ctx) (db : Db) (nd : NodupKeys db.dict) (key : Bytes)
include nd

/-- a request with an arity the signature rejects: the arity error, nothing changes (all commands) -/
theorem zset_bad_arity (name : String) (raw : List Bytes) (h : ¬ ArityOK (sigOf name) raw.length) :
    Fails (run name ctx raw db) db (sigOf name).wrongArgs :=
  run_bad_arity name ctx raw nd h

/-- plain commands on a key holding another type: WRONGTYPE, before the body looks at its arguments -/
theorem zset_wrongtype (name : String) (hname : name ∈ plainCmds) (rest : List Bytes)
    (har : ArityOK (sigOf name) (rest.length + 1)) (hv : zsetView db.live key = none) :
    Fails (run name ctx (key :: rest) db) db Msgs.WRONGTYPE_MSG := by
  simp only [plainCmds, List.mem_cons, List.mem_nil_iff, or_false] at hname
  rcases hname with rfl | rfl | rfl | rfl | rfl | rfl
  · exact zk1_wrongtype ctx key nd "zadd" _ 2 rfl (by decide) rest har hv
  · exact zk1_wrongtype ctx key nd "zcard" _ 0 rfl (by decide) rest har hv
  · exact zk1_wrongtype ctx key nd "zrank" _ 1 rfl (by decide) rest har hv
  · exact zk1_wrongtype ctx key nd "zrevrank" _ 1 rfl (by decide) rest har hv
  · exact zk1_wrongtype ctx key nd "zrem" _ 1 rfl (by decide) rest har hv
  · exact zk1_wrongtype ctx key nd "zscore" _ 1 rfl (by decide) rest har hv

/-- commands with two score bounds: a bad first bound, then a bad second bound, then WRONGTYPE — the bounds are
converted before the key is looked at -/
theorem score_bound_errors (name : String) (hname : name ∈ scoreCmds) (a b : Bytes) (rest : List Bytes)
    (har : ArityOK (sigOf name) (rest.length + 3)) :
    let out := run name ctx (key :: a :: b :: rest) db
    (∀ er, Conv.scoreTest a = .error er → Fails out db Msgs.INVALID_MIN_MAX_FLOAT_MSG) ∧
    (∀ p er, Conv.scoreTest a = .ok p → Conv.scoreTest b = .error er →
      Fails out db Msgs.INVALID_MIN_MAX_FLOAT_MSG) ∧
    (∀ p q, Conv.scoreTest a = .ok p → Conv.scoreTest b = .ok q → zsetView db.live key = none →
      Fails out db Msgs.WRONGTYPE_MSG) := by
  intro out
  have hgen : ∀ (body : Body) (hfix : (sigOf name).fixed = [.key (some .zset) .unspecified, .scoreTest, .scoreTest])
      (hrep : ∀ t ∈ (sigOf name).rep, t = .bytes),
      (∀ er, Conv.scoreTest a = .error er →
        Fails (runRegular (sigOf name) body ctx none (key :: a :: b :: rest) db) db Msgs.INVALID_MIN_MAX_FLOAT_MSG) ∧
      (∀ p er, Conv.scoreTest a = .ok p → Conv.scoreTest b = .error er →
        Fails (runRegular (sigOf name) body ctx none (key :: a :: b :: rest) db) db Msgs.INVALID_MIN_MAX_FLOAT_MSG) ∧
      (∀ p q, Conv.scoreTest a = .ok p → Conv.scoreTest b = .ok q → zsetView db.live key = none →
        Fails (runRegular (sigOf name) body ctx none (key :: a :: b :: rest) db) db Msgs.WRONGTYPE_MSG) := by
    intro body hfix hrep
    obtain ⟨e1, e2, e3⟩ := zt2_errors ctx key nd name body .scoreTest rfl hfix hrep a b rest har
    exact ⟨fun er h => e1 _ ((decode_score_cases a).1 er h),
      fun p er h1 h2 => e2 _ _ ((decode_score_cases a).2 p h1) ((decode_score_cases b).1 er h2),
      fun p q h1 h2 hv => e3 _ _ ((decode_score_cases a).2 p h1) ((decode_score_cases b).2 q h2) hv⟩
  simp only [scoreCmds, List.mem_cons, List.mem_nil_iff, or_false] at hname
  rcases hname with rfl | rfl | rfl | rfl
  · exact hgen _ rfl (by decide)
  · exact hgen _ rfl (by decide)
  · exact hgen _ rfl (by decide)
  · exact hgen _ rfl (by decide)

/-- commands with two lex bounds: likewise -/
theorem lex_bound_errors (name : String) (hname : name ∈ lexCmds) (a b : Bytes) (rest : List Bytes)
    (har : ArityOK (sigOf name) (rest.length + 3)) :
    let out := run name ctx (key :: a :: b :: rest) db
    (∀ er, Conv.stringTest a = .error er → Fails out db Msgs.INVALID_MIN_MAX_STR_MSG) ∧
    (∀ p er, Conv.stringTest a = .ok p → Conv.stringTest b = .error er →
      Fails out db Msgs.INVALID_MIN_MAX_STR_MSG) ∧
    (∀ p q, Conv.stringTest a = .ok p → Conv.stringTest b = .ok q → zsetView db.live key = none →
      Fails out db Msgs.WRONGTYPE_MSG) := by
  intro out
  have hgen : ∀ (body : Body) (hfix : (sigOf name).fixed = [.key (some .zset) .unspecified, .stringTest, .stringTest])
      (hrep : ∀ t ∈ (sigOf name).rep, t = .bytes),
      (∀ er, Conv.stringTest a = .error er →
        Fails (runRegular (sigOf name) body ctx none (key :: a :: b :: rest) db) db Msgs.INVALID_MIN_MAX_STR_MSG) ∧
      (∀ p er, Conv.stringTest a = .ok p → Conv.stringTest b = .error er →
        Fails (runRegular (sigOf name) body ctx none (key :: a :: b :: rest) db) db Msgs.INVALID_MIN_MAX_STR_MSG) ∧
      (∀ p q, Conv.stringTest a = .ok p → Conv.stringTest b = .ok q → zsetView db.live key = none →
        Fails (runRegular (sigOf name) body ctx none (key :: a :: b :: rest) db) db Msgs.WRONGTYPE_MSG) := by
    intro body hfix hrep
    obtain ⟨e1, e2, e3⟩ := zt2_errors ctx key nd name body .stringTest rfl hfix hrep a b rest har
    exact ⟨fun er h => e1 _ ((decode_lex_cases a).1 er h),
      fun p er h1 h2 => e2 _ _ ((decode_lex_cases a).2 p h1) ((decode_lex_cases b).1 er h2),
      fun p q h1 h2 hv => e3 _ _ ((decode_lex_cases a).2 p h1) ((decode_lex_cases b).2 q h2) hv⟩
  simp only [lexCmds, List.mem_cons, List.mem_nil_iff, or_false] at hname
  rcases hname with rfl | rfl | rfl | rfl
  · exact hgen _ rfl (by decide)
  · exact hgen _ rfl (by decide)
  · exact hgen _ rfl (by decide)
  · exact hgen _ rfl (by decide)

/-- commands with two ranks: a rank that is not a 64-bit integer, then WRONGTYPE -/
theorem rank_errors (name : String) (hname : name ∈ rankCmds) (a b : Bytes) (rest : List Bytes)
    (har : ArityOK (sigOf name) (rest.length + 3)) :
    let out := run name ctx (key :: a :: b :: rest) db
    (∀ er, Conv.int a = .error er → Fails out db Msgs.INVALID_INT_MSG) ∧
    (∀ p er, Conv.int a = .ok p → Conv.int b = .error er → Fails out db Msgs.INVALID_INT_MSG) ∧
    (∀ p q, Conv.int a = .ok p → Conv.int b = .ok q → zsetView db.live key = none →
      Fails out db Msgs.WRONGTYPE_MSG) := by
  intro out
  have hgen : ∀ (body : Body) (hfix : (sigOf name).fixed = [.key (some .zset) .unspecified, .int, .int])
      (hrep : ∀ t ∈ (sigOf name).rep, t = .bytes),
      (∀ er, Conv.int a = .error er →
        Fails (runRegular (sigOf name) body ctx none (key :: a :: b :: rest) db) db Msgs.INVALID_INT_MSG) ∧
      (∀ p er, Conv.int a = .ok p → Conv.int b = .error er →
        Fails (runRegular (sigOf name) body ctx none (key :: a :: b :: rest) db) db Msgs.INVALID_INT_MSG) ∧
      (∀ p q, Conv.int a = .ok p → Conv.int b = .ok q → zsetView db.live key = none →
        Fails (runRegular (sigOf name) body ctx none (key :: a :: b :: rest) db) db Msgs.WRONGTYPE_MSG) := by
    intro body hfix hrep
    obtain ⟨e1, e2, e3⟩ := zt2_errors ctx key nd name body .int rfl hfix hrep a b rest har
    exact ⟨fun er h => e1 _ ((decode_int_cases a).1 er h),
      fun p er h1 h2 => e2 _ _ ((decode_int_cases a).2 p h1) ((decode_int_cases b).1 er h2),
      fun p q h1 h2 hv => e3 _ _ ((decode_int_cases a).2 p h1) ((decode_int_cases b).2 q h2) hv⟩
  simp only [rankCmds, List.mem_cons, List.mem_nil_iff, or_false] at hname
  rcases hname with rfl | rfl | rfl
  · exact hgen _ rfl (by decide)
  · exact hgen _ rfl (by decide)
  · exact hgen _ rfl (by decide)

/-- ZINCRBY on a key of another type (the increment being a float): WRONGTYPE -/
theorem zincrby_wrongtype (a m : Bytes) (incr : Dbl) (ha : Conv.float a = .ok incr)
    (hv : zsetView db.live key = none) : Fails (run "zincrby" ctx [key, a, m] db) db Msgs.WRONGTYPE_MSG :=
  zt2_wrongtype ctx key nd "zincrby" Cmd.zincrby .float .bytes rfl rfl rfl (by decide) a m []
    (by show ArityOK _ 3; decide) (dec_float ha) (y := .raw m) rfl hv

end errors

/-! ## 11. `-0`, as modelled for the emulated versions 6 and 7 -/

/-- The rendering of a score (ZSCORE, WITHSCORES, ZINCRBY, ZADD INCR): `'{:.17g}'` of the stored double; for the
emulated version ≥ 7 of `0.0 + d` instead.  Hence a stored `-0.0` is reported as `-0` by version 6 and as `0` by
version 7; `+0.0` is `0` in both.  `0.0 + d` turns `-0.0` into `0.0` and leaves infinities alone. -/
theorem fmtScore_rule (ctx : Ctx) (d : Dbl) :
    fmtScore ctx d = Dbl.encode (if ctx.version ≥ 7 then d.plusZero else d) false ∧
    fmtScore ctx negZero = (if ctx.version ≥ 7 then strBytes "0" else strBytes "-0") ∧
    fmtScore ctx Dbl.zero = strBytes "0" ∧
    negZero.plusZero = Dbl.zero ∧ Dbl.zero.plusZero = Dbl.zero ∧
    (∀ b, (Dbl.inf b).plusZero = .inf b) ∧ negZero = .fin true 0 (-1074) :=
  ⟨rfl, fmtScore_negZero ctx, fmtScore_zero ctx, plusZero_negZero, plusZero_zero, plusZero_inf, rfl⟩

/-- What is STORED: ZADD of version ≥ 7 normalises its score argument with `0.0 +`, so `ZADD k -0 m` stores `+0.0`;
version 6 stores `-0.0`.  ZINCRBY does not normalise: on an absent member `ZINCRBY k -0 m` stores `-0.0` in both
versions (version 7 then REPORTS it as `0`).  And in both versions a stored `0.0` is not replaced by `-0.0`
(IEEE-equal scores are "unchanged"), nor vice versa. -/
theorem negzero_storage (v : Nat) (z : ZSet) (m : Bytes) :
    zaddScore v negZero = (if v ≥ 7 then Dbl.zero else negZero) ∧
    (z.get m = none → incrScore z m negZero = negZero) ∧
    (z.get m = some Dbl.zero → (z.add m negZero).1 = z ∧ (z.add m negZero).2 = false) ∧
    (z.get m = some negZero → (z.add m Dbl.zero).1 = z ∧ (z.add m Dbl.zero).2 = false) := by
  refine ⟨?_, fun h => by unfold incrScore; rw [h], fun h => ?_, fun h => ?_⟩
  · unfold zaddScore; split
    · exact plusZero_negZero
    · rfl
  · have : (z.add m negZero).2 = false := by rw [ZSet.add_changed, h]; decide
    exact ⟨ZSet.add_unchanged this, this⟩
  · have : (z.add m Dbl.zero).2 = false := by rw [ZSet.add_changed, h]; decide
    exact ⟨ZSet.add_unchanged this, this⟩

/-- through the runner (version 7 / version 6): `ZADD k -0 a` then ZSCORE; ZINCRBY of `-0` on a fresh member -/
example :
    zv (run "zadd" exCtx [[3], bs "-0", [97]] exDb).db [3] = some ([([97], bs "0")], none) ∧
    zv (run "zadd" exCtx6 [[3], bs "-0", [97]] exDb).db [3] = some ([([97], bs "-0")], none) ∧
    rv (run "zscore" exCtx6 [[3], [97]] (run "zadd" exCtx6 [[3], bs "-0", [97]] exDb).db).reply = "b:2d30" ∧
    rv (run "zscore" exCtx [[3], [97]] (run "zadd" exCtx6 [[3], bs "-0", [97]] exDb).db).reply = "b:30" ∧
    rv (run "zincrby" exCtx [[3], bs "-0", [97]] exDb).reply = "b:30" ∧
    zv (run "zincrby" exCtx [[3], bs "-0", [97]] exDb).db [3] = some ([([97], bs "-0")], none) ∧
    rv (run "zincrby" exCtx6 [[3], bs "-0", [97]] exDb).reply = "b:2d30" := by
  and_intros <;> decide +kernel

/-! ## 12. Statements that are FALSE of the model (and of the code), with kernel-checked witnesses -/

/-- "ZRANGEBYLEX = the filter of the WHOLE set on the member bytes" is false when the scores differ: on
`a ↦ 1, b ↦ 2, c ↦ 2` the range `- +` selects `a` only (the members with the lowest score); the true statement
is `zrangebylex_spec` / `lexRange_spec`.  Real Redis documents the lex commands only for sets whose members all
have the same score ("If the elements in the sorted set have different scores, the returned elements are
unspecified"), so this is not a contradiction with Redis. -/
theorem zrangebylex_whole_set_false :
    ¬ ∀ (z : ZSet), z.Inv → ∀ (mn mx : LexB) (mne mxe : Bool),
      lexRange z mn mne mx mxe =
        (z.byscore.filter (fun p => lexGe mn mne p.2 && lexLe mx mxe p.2)).map Prod.snd := by
  intro h
  have := h ZSet.example3 example3_inv .before .after true true
  revert this
  decide

/-- the same through the runner: ZRANGEBYLEX, ZLEXCOUNT, ZREMRANGEBYLEX on the mixed-score set -/
example :
    rv (run "zrangebylex" exCtx [[1], bs "-", bs "+"] exDb).reply = "[b:61]" ∧
    rv (run "zlexcount" exCtx [[1], bs "-", bs "+"] exDb).reply = "i:1" ∧
    rv (run "zremrangebylex" exCtx [[1], bs "-", bs "+"] exDb).reply = "i:1" ∧
    rv (run "zrangebylex" exCtx [[1], bs "[b", bs "[c"] exDb).reply = "[]" := by
  and_intros <;> decide +kernel

/-- "the later pair of the same member wins" is false as an EXACT statement: `ZADD k 0 a -0 a` (version 6) stores
`0.0`, not `-0.0`, because `ZSet.add` treats IEEE-equal scores as "unchanged"; the true statement is
`zaddSet_scores` (up to `Dbl.eq`).  Real Redis behaves the same (`if (score != curscore)` in `zsetAdd`). -/
theorem zadd_last_pair_exact_false :
    ¬ ∀ (z : ZSet) (pre post : List (Dbl × Bytes)) (s : Dbl) (m : Bytes), m ∉ post.map Prod.snd →
      (zaddSet false false z (pre ++ (s, m) :: post)).get m = some s := by
  intro h
  have := h ZSet.empty [(Dbl.zero, [97])] [] negZero [97] (by simp)
  revert this
  decide

example :
    zv (run "zadd" exCtx6 [[3], bs "0", [97], bs "-0", [97]] exDb).db [3] = some ([([97], bs "0")], none) ∧
    rv (run "zadd" exCtx6 [[3], bs "ch", bs "0", [97], bs "-0", [97]] exDb).reply = "i:1" := by
  and_intros <;> decide +kernel

/-! ## 13. Non-vacuity: every theorem above on the example database -/

/-- `zcard_spec`, `zscore_spec`, `zrank_spec`, `zrevrank_spec` (present / absent member, missing key) -/
example :
    rv (run "zcard" exCtx [[1]] exDb).reply = "i:3" ∧ rv (run "zcard" exCtx [[3]] exDb).reply = "i:0" ∧
    rv (run "zscore" exCtx [[1], [97]] exDb).reply = "b:31" ∧ rv (run "zscore" exCtx [[1], [122]] exDb).reply = "nil" ∧
    rv (run "zscore" exCtx [[3], [97]] exDb).reply = "nil" ∧
    rv (run "zrank" exCtx [[1], [99]] exDb).reply = "i:2" ∧ rv (run "zrevrank" exCtx [[1], [99]] exDb).reply = "i:0" ∧
    rv (run "zrank" exCtx [[1], [122]] exDb).reply = "nil" ∧ rv (run "zrevrank" exCtx [[3], [99]] exDb).reply = "nil" := by
  and_intros <;> decide +kernel

/-- `zrange_spec`, `zrevrange_spec`: negative ranks, clamping, empty window, WITHSCORES (twice), a bad option -/
example :
    exView (Conv.int (bs "-2")) = .inr (-2) ∧
    rv (run "zrange" exCtx [[1], bs "-2", bs "-1"] exDb).reply = "[b:62,b:63]" ∧
    rv (run "zrange" exCtx [[1], bs "-100", bs "0", bs "withscores", bs "WITHSCORES"] exDb).reply = "[b:61,b:31]" ∧
    rv (run "zrange" exCtx [[1], bs "2", bs "1"] exDb).reply = "[]" ∧
    rv (run "zrange" exCtx [[1], bs "0", bs "100"] exDb).reply = "[b:61,b:62,b:63]" ∧
    rv (run "zrevrange" exCtx [[1], bs "0", bs "0"] exDb).reply = "[b:63]" ∧
    rv (run "zrevrange" exCtx [[1], bs "-2", bs "-1", bs "withscores"] exDb).reply = "[b:62,b:32,b:61,b:31]" ∧
    errOf (run "zrange" exCtx [[1], bs "0", bs "1", bs "foo"] exDb).reply = some (bs Msgs.SYNTAX_ERROR_MSG) := by
  and_intros <;> decide +kernel

/-- `zrangebyscore_limit_spec`, `zrevrangebyscore_spec`, `zcount_spec`: exclusive / infinite bounds, LIMIT with a
negative offset (nothing), a negative count (all remaining), count 0, WITHSCORES; an incomplete LIMIT -/
example :
    exView (Conv.scoreTest (bs "(1")) = .inr (Dbl.ofInt 1, true) ∧
    (exView (parseRbsOpts [bs "limit", bs "1", bs "-5", bs "withscores"] {})).elim (fun _ => none)
      (fun o => some (o.ws, o.off, o.cnt)) = some (true, 1, -5) ∧
    rv (run "zrangebyscore" exCtx [[1], bs "(1", bs "2"] exDb).reply = "[b:62,b:63]" ∧
    rv (run "zrangebyscore" exCtx [[1], bs "-inf", bs "(2"] exDb).reply = "[b:61]" ∧
    rv (run "zrangebyscore" exCtx [[1], bs "-inf", bs "+inf", bs "limit", bs "-1", bs "2"] exDb).reply = "[]" ∧
    rv (run "zrangebyscore" exCtx [[1], bs "-inf", bs "+inf", bs "limit", bs "1", bs "-5"] exDb).reply
      = "[b:62,b:63]" ∧
    rv (run "zrangebyscore" exCtx [[1], bs "-inf", bs "+inf", bs "limit", bs "1", bs "0"] exDb).reply = "[]" ∧
    rv (run "zrangebyscore" exCtx [[1], bs "-inf", bs "+inf", bs "LIMIT", bs "1", bs "1", bs "withscores"] exDb).reply
      = "[b:62,b:32]" ∧
    rv (run "zrevrangebyscore" exCtx [[1], bs "2", bs "(1"] exDb).reply = "[b:63,b:62]" ∧
    rv (run "zrevrangebyscore" exCtx [[1], bs "(2", bs "1", bs "withscores"] exDb).reply = "[b:61,b:31]" ∧
    rv (run "zcount" exCtx [[1], bs "1", bs "(2"] exDb).reply = "i:1" ∧
    errOf (run "zrangebyscore" exCtx [[1], bs "0", bs "1", bs "limit", bs "0"] exDb).reply
      = some (bs Msgs.SYNTAX_ERROR_MSG) := by
  and_intros <;> decide +kernel

/-- `zrangebylex_spec`, `zrevrangebylex_spec`, `zlexcount_spec` on the equal-score set (`lexRange_spec`, second part) -/
example :
    (∀ p ∈ exLex.byscore, ∀ q ∈ exLex.byscore, Dbl.eq p.1 q.1 = true) ∧
    exView (Conv.stringTest (bs "[a")) = .inr (.val [97], false) ∧
    rv (run "zrangebylex" exCtx [[4], bs "[a", bs "(c"] exDb).reply = "[b:61,b:62]" ∧
    rv (run "zrangebylex" exCtx [[4], bs "-", bs "+", bs "limit", bs "1", bs "-1"] exDb).reply = "[b:62,b:63]" ∧
    rv (run "zrevrangebylex" exCtx [[4], bs "(c", bs "[a"] exDb).reply = "[b:62,b:61]" ∧
    rv (run "zrevrangebylex" exCtx [[4], bs "+", bs "-", bs "limit", bs "0", bs "1"] exDb).reply = "[b:63]" ∧
    rv (run "zlexcount" exCtx [[4], bs "[a", bs "(c"] exDb).reply = "i:2" ∧
    rv (run "zlexcount" exCtx [[4], bs "+", bs "-"] exDb).reply = "i:0" ∧
    exView (parseLexOpts [bs "LIMIT", bs "1", bs "-1"]) = .inr (1, -1) ∧
    errOf (run "zrangebylex" exCtx [[4], bs "-", bs "+", bs "limit", bs "0", bs "1", bs "x"] exDb).reply
      = some (bs Msgs.SYNTAX_ERROR_MSG) := by
  refine ⟨by decide, ?_⟩
  and_intros <;> decide +kernel

/-- `zrem_spec`: a duplicate and an absent member in the argument list; removing everything deletes the key -/
example :
    rv (run "zrem" exCtx [[1], [97], [97], [122]] exDb).reply = "i:1" ∧
    zv (run "zrem" exCtx [[1], [97], [97], [122]] exDb).db [1] = some ([([98], bs "2"), ([99], bs "2")], some 50) ∧
    rv (run "zrem" exCtx [[1], [122]] exDb).reply = "i:0" ∧
    rv (run "zrem" exCtx [[1], [97], [98], [99]] exDb).reply = "i:3" ∧
    (run "zrem" exCtx [[1], [97], [98], [99]] exDb).db.live [1] = none := by
  refine ⟨by decide +kernel, by decide +kernel, by decide +kernel, by decide +kernel, by rfl⟩

/-- `zremrangebyrank_spec`, `zremrangebyscore_spec`, `zremrangebylex_spec` -/
example :
    rv (run "zremrangebyrank" exCtx [[1], bs "-2", bs "-1"] exDb).reply = "i:2" ∧
    zv (run "zremrangebyrank" exCtx [[1], bs "-2", bs "-1"] exDb).db [1] = some ([([97], bs "1")], some 50) ∧
    rv (run "zremrangebyscore" exCtx [[1], bs "-inf", bs "(2"] exDb).reply = "i:1" ∧
    zv (run "zremrangebyscore" exCtx [[1], bs "-inf", bs "(2"] exDb).db [1]
      = some ([([98], bs "2"), ([99], bs "2")], some 50) ∧
    rv (run "zremrangebylex" exCtx [[4], bs "[b", bs "+"] exDb).reply = "i:2" ∧
    zv (run "zremrangebylex" exCtx [[4], bs "[b", bs "+"] exDb).db [4] = some ([([97], bs "0")], none) ∧
    rv (run "zremrangebyrank" exCtx [[1], bs "0", bs "-1"] exDb).reply = "i:3" ∧
    zv (run "zremrangebyrank" exCtx [[1], bs "0", bs "-1"] exDb).db [1] = some ([], none) ∧
    rv (run "zremrangebyrank" exCtx [[1], bs "5", bs "9"] exDb).reply = "i:0" := by
  and_intros <;> decide +kernel

/-- `zincrby_spec`: a finite sum, a new member on a missing key, and `inf + -inf` (NaN: error, nothing changes) -/
example :
    exView (Conv.float (bs "1.5")) = .inr (Dbl.ofDecimal false 15 (-1)) ∧
    rv (run "zincrby" exCtx [[1], bs "1.5", [97]] exDb).reply = "b:322e35" ∧
    zv (run "zincrby" exCtx [[1], bs "1.5", [97]] exDb).db [1]
      = some ([([98], bs "2"), ([99], bs "2"), ([97], bs "2.5")], some 50) ∧
    zv (run "zincrby" exCtx [[3], bs "7", [120]] exDb).db [3] = some ([([120], bs "7")], none) ∧
    (incrScore exInf [97] (.inf true)).isNaN = true ∧
    errOf (run "zincrby" exCtx [[5], bs "-inf", [97]] exDb).reply = some (bs Msgs.SCORE_NAN_MSG) ∧
    zv (run "zincrby" exCtx [[5], bs "-inf", [97]] exDb).db [5] = some ([([97], bs "inf")], none) ∧
    errOf (run "zincrby" exCtx [[1], bs "x", [97]] exDb).reply = some (bs Msgs.INVALID_FLOAT_MSG) := by
  and_intros <;> decide +kernel

/-- `zadd_table`, the error rows: NX with XX (also with an odd tail, also with no pair), an odd tail, INCR with two
pairs, an invalid float in the SECOND pair (nothing changed) -/
example :
    errOf (run "zadd" exCtx [[1], bs "nx", bs "XX", bs "1", [97]] exDb).reply = some (bs Msgs.ZADD_NX_XX_ERROR_MSG) ∧
    errOf (run "zadd" exCtx [[1], bs "nx", bs "xx", bs "1"] exDb).reply = some (bs Msgs.ZADD_NX_XX_ERROR_MSG) ∧
    errOf (run "zadd" exCtx [[1], bs "nx", bs "xx"] exDb).reply = some (bs Msgs.ZADD_NX_XX_ERROR_MSG) ∧
    errOf (run "zadd" exCtx [[1], bs "1", [97], bs "2"] exDb).reply = some (bs Msgs.SYNTAX_ERROR_MSG) ∧
    errOf (run "zadd" exCtx [[1], bs "ch", bs "nx"] exDb).reply = some (bs Msgs.SYNTAX_ERROR_MSG) ∧
    errOf (run "zadd" exCtx [[1], bs "gt", bs "1", [97]] exDb).reply = some (bs Msgs.SYNTAX_ERROR_MSG) ∧
    errOf (run "zadd" exCtx [[1], bs "incr", bs "1", [97], bs "2", [98]] exDb).reply
      = some (bs Msgs.ZADD_INCR_LEN_ERROR_MSG) ∧
    errOf (run "zadd" exCtx [[1], bs "5", [97], bs "x", [98]] exDb).reply = some (bs Msgs.INVALID_FLOAT_MSG) ∧
    zv (run "zadd" exCtx [[1], bs "5", [97], bs "x", [98]] exDb).db [1] = zv exDb [1] ∧
    (run "zadd" exCtx [[1], bs "1"] exDb).failed = true := by
  and_intros <;> decide +kernel

/-- `zadd_table`, the writing rows: duplicates with / without CH, NX (first pair wins), XX on a missing key (nothing
is created), XX / NX on present and absent members, an unchanged score; INCR with NX / XX -/
example :
    rv (run "zadd" exCtx [[3], bs "ch", bs "1", [97], bs "2", [97]] exDb).reply = "i:2" ∧
    rv (run "zadd" exCtx [[3], bs "1", [97], bs "2", [97]] exDb).reply = "i:1" ∧
    zv (run "zadd" exCtx [[3], bs "1", [97], bs "2", [97]] exDb).db [3] = some ([([97], bs "2")], none) ∧
    zv (run "zadd" exCtx [[3], bs "nx", bs "1", [97], bs "2", [97]] exDb).db [3] = some ([([97], bs "1")], none) ∧
    rv (run "zadd" exCtx [[3], bs "xx", bs "1", [97]] exDb).reply = "i:0" ∧
    ((run "zadd" exCtx [[3], bs "xx", bs "1", [97]] exDb).db.live [3]).isNone = true ∧
    rv (run "zadd" exCtx [[1], bs "xx", bs "ch", bs "9", [97], bs "9", [122]] exDb).reply = "i:1" ∧
    zv (run "zadd" exCtx [[1], bs "xx", bs "ch", bs "9", [97], bs "9", [122]] exDb).db [1]
      = some ([([98], bs "2"), ([99], bs "2"), ([97], bs "9")], some 50) ∧
    rv (run "zadd" exCtx [[1], bs "nx", bs "9", [97], bs "0", [122]] exDb).reply = "i:1" ∧
    zv (run "zadd" exCtx [[1], bs "nx", bs "9", [97], bs "0", [122]] exDb).db [1]
      = some ([([122], bs "0"), ([97], bs "1"), ([98], bs "2"), ([99], bs "2")], some 50) ∧
    rv (run "zadd" exCtx [[1], bs "ch", bs "1", [97]] exDb).reply = "i:0" ∧
    rv (run "zadd" exCtx [[1], bs "INCR", bs "1.5", [97]] exDb).reply = "b:322e35" ∧
    rv (run "zadd" exCtx [[1], bs "nx", bs "incr", bs "1", [97]] exDb).reply = "nil" ∧
    rv (run "zadd" exCtx [[1], bs "xx", bs "incr", bs "1", [122]] exDb).reply = "nil" ∧
    rv (run "zadd" exCtx [[1], bs "xx", bs "incr", bs "1", [97]] exDb).reply = "b:32" ∧
    errOf (run "zadd" exCtx [[5], bs "incr", bs "-inf", [97]] exDb).reply = some (bs Msgs.SCORE_NAN_MSG) := by
  and_intros <;> decide +kernel

/-- `zadd_pairs_spec`, `zaddWrites_table`, `zaddSet_scores`: the parsed pairs of `5 a x b` and of `-0 a` -/
example :
    ZCmd.pairsOf [bs "5", [97], bs "x", [98]] = [(bs "5", [97]), (bs "x", [98])] ∧
    scoreOfBytes 7 (bs "x") = none ∧ scoreOfBytes 7 (bs "-0") = some Dbl.zero ∧
    scoreOfBytes 6 (bs "-0") = some negZero ∧
    exView (parseScorePairs 7 [bs "-0", [97]]) = .inr [(Dbl.zero, [97])] ∧
    (zaddSet true false ZSet.example3 [(Dbl.ofInt 9, [97]), (Dbl.zero, [122]), (Dbl.one, [122])]).get [122]
      = some Dbl.zero := by
  and_intros <;> decide +kernel

/-- the error theorems of section 10: wrong type, bad bounds (before WRONGTYPE), bad ranks -/
example :
    "zadd" ∈ plainCmds ∧ ArityOK (sigOf "zadd") 3 ∧ "zrangebyscore" ∈ scoreCmds ∧
    ArityOK (sigOf "zrangebyscore") 3 ∧ ¬ ArityOK (sigOf "zadd") 2 ∧
    errOf (run "zadd" exCtx [[2], bs "1", [97]] exDb).reply = some (bs Msgs.WRONGTYPE_MSG) ∧
    errOf (run "zadd" exCtx [[2], bs "x", [97]] exDb).reply = some (bs Msgs.WRONGTYPE_MSG) ∧
    errOf (run "zscore" exCtx [[2], [97]] exDb).reply = some (bs Msgs.WRONGTYPE_MSG) ∧
    errOf (run "zrangebyscore" exCtx [[2], bs "x", bs "1"] exDb).reply = some (bs Msgs.INVALID_MIN_MAX_FLOAT_MSG) ∧
    errOf (run "zrangebyscore" exCtx [[2], bs "0", bs "1"] exDb).reply = some (bs Msgs.WRONGTYPE_MSG) ∧
    errOf (run "zrangebylex" exCtx [[1], bs "a", bs "+"] exDb).reply = some (bs Msgs.INVALID_MIN_MAX_STR_MSG) ∧
    errOf (run "zrange" exCtx [[1], bs "0", bs "x"] exDb).reply = some (bs Msgs.INVALID_INT_MSG) ∧
    errOf (run "zincrby" exCtx [[2], bs "1", [97]] exDb).reply = some (bs Msgs.WRONGTYPE_MSG) := by
  refine ⟨by decide, by decide, by decide, by decide, by decide, ?_⟩
  and_intros <;> decide +kernel

end FR.Props.C03z
